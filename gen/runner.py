"""Common check flow: proof side (Coq build + audit), tie (model vs implementation on the same
cases), verdict, evidence.  A property module provides:

  PROP, PROP_FILE                      id and Coq property file (relative to coq/)
  tie(tier, seed, replay) -> dict      keys: evaluations, distinct_nontrivial, rule, samples,
                                       distribution, mismatches (list), infra (optional str),
                                       trusted_base (list), assumptions (list), extra (dict)
  a mismatch is dict(case=..., impl=..., model=..., spec=..., kind='impl_violates_spec' |
        'model_differs', known=<key or None>, what=<one line>)
"""
import json
import os
import sys
import time
import traceback

from . import lib


def run_check(mod, tier, seed, replay=None):
    # one run of a property's check at a time (Coq case files and generated crates are keyed by the property)
    with lib.Lock("check_" + mod.PROP + ("_alt" if os.environ.get("VERIF_REPO") else "")):
        return _run_check(mod, tier, seed, replay)


def _run_check(mod, tier, seed, replay=None):
    t0 = time.time()
    prop = mod.PROP
    print("== %s %s seed=%d repo=%s" % (prop, tier, seed, lib.repo_state().splitlines()[0][:12]))
    b = lib.coq_build(mod.PROP_FILE)
    proof_why = lib.coq_proof_verdict(b)
    print("coq: ok=%s obligations=%d discharged=%d axioms=%s files=%d (%.1fs)" % (
        b["ok"], b["obligations"], b["discharged"], b["axioms"] or "none", len(b["files"]), b["wall"]))
    if not b["ok"]:
        print(b["log"][-3000:])
    chk = None
    if b["ok"] and tier == "thorough" and not replay:
        ok, axs, summary = lib.coqchk(mod.PROP_FILE)
        chk = summary
        print(summary)
        extra_ax = [a for a in axs if not lib.axiom_allowed(a, loaded_only=True)]
        prim = [a for a in axs if a.startswith(lib.AXIOM_ALLOW_LOADED_PREFIXES)]
        if prim:
            chk = "coqchk: loaded-library axioms = %d primitive 63-bit integer declarations / specifications of the standard library (Coq.Numbers.Cyclic.Int63, loaded by the tie's fingerprint functions; no property theorem depends on them: Print Assumptions is closed); other axioms = %s; unsafe = none" % (len(prim), [a for a in axs if a not in prim] or "none")
            print(chk[:300])
        if not ok or extra_ax:
            proof_why.append("coqchk does not confirm the development: %s" % summary[:300])
    try:
        t = mod.tie(tier, seed, replay)
    except Exception as e:  # noqa: BLE001 - any harness failure is reported, never swallowed
        print("INFRA: %s" % e)
        traceback.print_exc()
        t = dict(evaluations=0, distinct_nontrivial=0, rule="tie did not run", samples=[], distribution={},
                 mismatches=[], infra=str(e)[:2000])
    try:
        os.makedirs(lib.BUILD, exist_ok=True)
        with open(os.path.join(lib.BUILD, "last_mismatches_%s.json" % prop), "w") as fh:
            json.dump([dict(kind=m["kind"], known=m.get("known"), what=m["what"]) for m in t["mismatches"]], fh, indent=1, default=str)
    except OSError:
        pass
    findings = {e["key"]: e for e in lib.known_findings(prop)}
    violations = []
    known_hit = {}
    for m in t["mismatches"]:
        k = m.get("known")
        if k and k in findings and findings[k]["status"] == "finding":
            known_hit.setdefault(k, m)
        else:
            violations.append(m)
    # a listed finding must still reproduce; its witness is part of the tie's corpus
    for k, e in findings.items():
        if e["status"] == "finding":
            if k in known_hit:
                print("KNOWN-FINDING: property=%s %s" % (prop, e["what_fails"]))
            else:
                print("note: listed finding %s did not reproduce in this run" % k)
    out_lines = []
    nviol = 0
    if violations:
        # report the smallest failing case of each kind first
        genuine = [m for m in violations if m["kind"] == "impl_violates_spec"]
        differ = [m for m in violations if m["kind"] != "impl_violates_spec"]
        if genuine:
            m = min(genuine, key=lambda m: len(json.dumps(m["case"], default=str)))
            path = lib.write_replay(prop, dict(property=prop, kind="failing-input", what=m["what"], case=m["case"],
                                               impl=m["impl"], model=m.get("model"), spec=m.get("spec"),
                                               others=len(genuine) - 1, seed=seed, tier=tier))
            out_lines.append("VIOLATION property=%s replay=%s" % (prop, path))
            nviol += len(genuine)
        elif differ:
            m = min(differ, key=lambda m: len(json.dumps(m["case"], default=str)))
            path = lib.write_replay(prop, dict(property=prop, kind="correspondence-broken",
                                               correspondence=m["what"], case=m["case"], impl=m["impl"],
                                               model=m.get("model"), spec=m.get("spec"), others=len(differ) - 1,
                                               note="implementation and Coq model disagree on this case but the implementation's answer meets the executable specification; no input on which the property itself fails was found in this run",
                                               seed=seed, tier=tier))
            out_lines.append("VIOLATION property=%s replay=%s no-failing-input-found" % (prop, path))
            nviol += len(differ)
    if proof_why and not any(l.startswith("VIOLATION") and "no-failing" not in l for l in out_lines):
        if not out_lines:
            path = lib.write_replay(prop, dict(property=prop, kind="proof-broken", reasons=proof_why,
                                               theorem_file=mod.PROP_FILE, failed_at=b.get("failed_at"),
                                               log_tail=b["log"][-1500:], seed=seed, tier=tier))
            out_lines.append("VIOLATION property=%s replay=%s no-failing-input-found" % (prop, path))
            nviol += 1
    if t.get("infra") and not out_lines:
        path = lib.write_replay(prop, dict(property=prop, kind="tie-did-not-run", reason=t["infra"], seed=seed, tier=tier))
        out_lines.append("VIOLATION property=%s replay=%s no-failing-input-found" % (prop, path))
        nviol += 1
    wall = time.time() - t0
    cov = dict(
        obligations=b["obligations"], discharged=b["discharged"],
        checker_cmd="cd /verif/coq && coq_makefile -f _CoqProject -o Makefile && make %s  (coqc 8.16.1; Check + Print Assumptions in the property file)" % (mod.PROP_FILE[:-2] + ".vo"),
        trusted_base=lib.KERNEL_TB + ["axioms reported by Print Assumptions: %s" % (", ".join(b["axioms"]) or "none (Closed under the global context x%d)" % b.get("closed_theorems", 0))] + t.get("trusted_base", []),
        property_theorems=b.get("theorems", []), coq_files=b["files"], proof_issues=proof_why,
        evaluations=t["evaluations"], distinct_nontrivial=t["distinct_nontrivial"], rule=t["rule"],
        samples=t["samples"][:8], distribution=t.get("distribution", {}),
        tie="model (vm_compute inside Coq) vs implementation rebuilt from /repo's working tree on the same cases; this half is differential testing, not proof",
        known_findings_reproduced=sorted(known_hit), mismatches=len(t["mismatches"]), coqchk=chk,
    )
    cov.update(t.get("extra", {}))
    lib.write_evidence(prop, tier, seed, cov, t.get("assumptions", []), wall, nviol)
    print("tie: evaluations=%d distinct_nontrivial=%d mismatches=%d (%.1fs total)" % (
        t["evaluations"], t["distinct_nontrivial"], len(t["mismatches"]), wall))
    for l in out_lines:
        print(l)
    return 1 if out_lines else 0
