"""C07 — sugared ascent programs: AST extension, generator, hand expansion ("the documented core
expansion"), Rust renderers (sugared text with `|`, expanded text), Coq renderer (Syntax/Surface.v).

AST = gen/dl.py AST plus
  term (body clause arguments only):  ('p', ('test', pid)) | ('p', ('bind', x, fid))      the ?pattern arguments
  item:                               ('disj', [[item..]..])   ('neg', rel, [term])        as in dl.py
  cond (expanded programs only):      ('ifletpat', pat, v)      if let <pat> = v
                                      ('ifeq', v, term)         if v == y   /   if *v == <expr>
Pattern symbols are those of coq/Syntax/C07Vocab.v.
"""
from collections import Counter

from . import dl, gen_dl

PAT_TEST = {20 + c: str(c) for c in range(10)}
PAT_TEST.update({30: "0..=2", 31: "1..=3", 32: "(1 | 4)"})
PAT_BIND = {110: "0..=2", 111: "1..=3", 112: "(1 | 4)"}
DOM = gen_dl.DOM

# expr_replaced_1 is left out on purpose: whether the process-wide counter of "expr_replaced" stands at 1 when the
# rule is desugared depends on the other programs of the compiler process (the other names are either per-rule
# supplies or collide exactly when the counter is in its initial state, which the model evaluates)
NASTY_FIXED = ["__1", "__2", "__arg_pattern_", "__arg_pattern_1", "expr_replaced_"]


def tuplify(x):
    """JSON round trip turns the AST's tuples into lists; programs keep dict / list containers where the AST has them"""
    if isinstance(x, dict):
        return {k: tuplify(v) for k, v in x.items()}
    if isinstance(x, (list, tuple)):
        return [tuplify(v) for v in x]
    return x


def norm_prog(p):
    """program from JSON -> canonical AST (tuples for nodes, lists for sequences)"""
    def term(t):
        t = list(t)
        if t[0] == "f":
            return ("f", t[1], list(t[2]))
        if t[0] == "p":
            return ("p", tuple(t[1]))
        return tuple(t)

    def cond(c):
        c = list(c)
        if c[0] == "if":
            return ("if", c[1], list(c[2]))
        if c[0] in ("let", "iflet"):
            return (c[0], c[1], c[2], list(c[3]))
        if c[0] == "ifletpat":
            return ("ifletpat", tuple(c[1]), c[2])
        if c[0] == "ifeq":
            return ("ifeq", c[1], term(c[2]))
        raise ValueError(c)

    def item(it):
        it = list(it)
        if it[0] == "clause":
            return ("clause", it[1], [term(t) for t in it[2]], [cond(c) for c in it[3]])
        if it[0] == "cond":
            return ("cond", cond(it[1]))
        if it[0] == "gen":
            return ("gen", it[1], it[2], list(it[3]))
        if it[0] == "neg":
            return ("neg", it[1], [term(t) for t in it[2]])
        if it[0] == "agg":
            args = []
            for a in it[5]:
                a = list(a)
                args.append(("k", term(a[1])) if a[0] == "k" else tuple(a))
            return ("agg", it[1], it[2], list(it[3]), it[4], args)
        if it[0] == "disj":
            return ("disj", [[item(i) for i in alt] for alt in it[1]])
        raise ValueError(it)
    rules = [dict(heads=[(h[0], [term(t) for t in h[1]]) for h in r["heads"]], body=[item(i) for i in r["body"]]) for r in p["rules"]]
    out = dict(p)
    out["rels"] = [tuple(r) for r in p["rels"]]
    out["rules"] = rules
    return out


# ------------------------------------------------------------------ Rust rendering

def pat_text(p):
    if p[0] == "test":
        return PAT_TEST[p[1]]
    return "%s @ %s" % (p[1], PAT_BIND[p[2]])


def r_cond(c, kinds):
    if c[0] == "ifletpat":
        s = "if let %s = %s" % (pat_text(c[1]), c[2])
        if c[1][0] == "bind":
            kinds.ref(c[1][1])
        return s
    if c[0] == "ifeq":
        _, v, t = c
        if t[0] == "v":
            if kinds.k.get(t[1], "ref") == "val":
                return "if *%s == %s" % (v, t[1])
            return "if %s == %s" % (v, t[1])            # two references
        return "if *%s == %s" % (v, dl.rust_term(t, kinds))
    return dl.rust_cond(c, kinds)


def r_item(it, kinds):
    if it[0] == "clause":
        args = []
        for t in it[2]:
            if t[0] == "p":
                args.append("?" + pat_text(t[1]))
                if t[1][0] == "bind":
                    kinds.ref(t[1][1])
            else:
                args.append(dl.rust_term(t, kinds))
                if t[0] == "v":
                    kinds.ref(t[1])
        s = "%s(%s)" % (it[1], ", ".join(args))
        for c in it[3]:
            s += " " + r_cond(c, kinds)
        return s
    if it[0] == "cond":
        return r_cond(it[1], kinds)
    if it[0] == "disj":
        return "(" + " | ".join(", ".join(r_item(i, kinds) for i in alt) for alt in it[1]) + ")"
    return dl.rust_item(it, kinds)


def r_rule(r):
    kinds = dl.Kinds()
    body = [r_item(it, kinds) for it in r["body"]]
    heads = ["%s(%s)" % (rel, ", ".join(dl.rust_term(t, kinds, in_expr=(t[0] != "v")) for t in args)) for rel, args in r["heads"]]
    if not body:
        return "%s;" % ", ".join(heads)
    return "%s <-- %s;" % (", ".join(heads), ", ".join(body))


def program_text(p):
    lines = [dl.rust_decl(n, a, k) for (n, a, k) in p["rels"]]
    lines += [r_rule(r) for r in p["rules"]]
    return "\n".join(lines)


# ------------------------------------------------------------------ Coq rendering (Syntax/Surface.v)

def cid(x):
    return '(i "%s")' % x


def cids(xs):
    return "[" + "; ".join(cid(x) for x in xs) + "]"


def c_term(t):
    if t[0] == "v":
        return "SVar %s" % cid(t[1])
    if t[0] == "c":
        return "SConst (%d)" % t[1]
    if t[0] == "f":
        return "SFun %s %s" % (dl.cnat(dl.FUNS[t[1]][0]), cids(t[2]))
    raise ValueError(t)


def c_pat(p):
    if p[0] == "test":
        return "PTest %s" % dl.cnat(p[1])
    return "PBind %s %s" % (cid(p[1]), dl.cnat(p[2]))


def c_arg(t):
    if t[0] == "w":
        return "AWildS"
    if t[0] == "p":
        return "APat (%s)" % c_pat(t[1])
    return "AT (%s)" % c_term(t)


def c_cond(c):
    if c[0] == "if":
        return "SIf %s %s" % (dl.cnat(dl.PREDS[c[1]][0]), cids(c[2]))
    if c[0] == "let":
        return "SBind %s %s %s" % (cid(c[1]), dl.cnat(dl.FUNS[c[2]][0]), cids(c[3]))
    if c[0] == "iflet":
        return "SBind %s %s %s" % (cid(c[1]), dl.cnat(dl.PARTIALS[c[2]][0]), cids(c[3]))
    if c[0] == "ifletpat":
        return "SIfLet (%s) %s" % (c_pat(c[1]), cid(c[2]))
    if c[0] == "ifeq":
        return "SIfEq %s (%s)" % (cid(c[1]), c_term(c[2]))
    raise ValueError(c)


def c_item(it, R):
    if it[0] == "clause":
        return "IClause %s %s %s" % (dl.cnat(R(it[1])), dl.coq_list(c_arg(t) for t in it[2]), dl.coq_list(c_cond(c) for c in it[3]))
    if it[0] == "cond":
        return "ICond (%s)" % c_cond(it[1])
    if it[0] == "gen":
        return "IGen %s %s %s" % (cid(it[1]), dl.cnat(dl.GENS[it[2]][0]), cids(it[3]))
    if it[0] == "agg":
        _, out, an, bound, rel, args = it
        o = "None" if out is None else "(Some %s)" % cid(out)
        aa = []
        for a in args:
            if a[0] == "w":
                aa.append("SAWild")
            elif a[0] == "b":
                aa.append("SABound %s" % cid(a[1]))
            else:
                aa.append("SAKey (%s)" % c_term(a[1]))
        return "IAgg %s %s %s %s %s" % (o, dl.cnat(dl.AGGS[an]), cids(bound), dl.cnat(R(rel)), dl.coq_list(aa))
    if it[0] == "neg":
        return "INeg %s %s" % (dl.cnat(R(it[1])), dl.coq_list("NWild" if t[0] == "w" else "NKey (%s)" % c_term(t) for t in it[2]))
    if it[0] == "disj":
        return "IDisj %s" % dl.coq_list(dl.coq_list(c_item(i, R) for i in alt) for alt in it[1])
    raise ValueError(it)


def c_rule(r, R):
    heads = dl.coq_list("(%s, %s)" % (dl.cnat(R(rel)), dl.coq_list(c_term(t) for t in args)) for rel, args in r["heads"])
    return "{| sheads := %s; sbody := %s |}" % (heads, dl.coq_list(c_item(it, R) for it in r["body"]))


def c_prog(rules, R):
    return dl.coq_list(c_rule(r, R) for r in rules)


# ------------------------------------------------------------------ the documented core expansion (by hand)

def disj_product(items):
    """all conjunctions of a body, one disjunct picked from every disjunction (nested ones included)"""
    out = [[]]
    for it in items:
        if it[0] == "disj":
            choices = []
            for alt in it[1]:
                choices += disj_product(alt)
        else:
            choices = [[it]]
        out = [a + b for a in out for b in choices]
    return out


def count_expansions(items):
    n = 1
    for it in items:
        if it[0] == "disj":
            n *= sum(count_expansions(alt) for alt in it[1])
    return n


def cond_binds(c):
    if c[0] in ("let", "iflet"):
        return [c[1]]
    if c[0] == "ifletpat" and c[1][0] == "bind":
        return [c[1][1]]
    return []


def term_vars(t):
    if t[0] == "v":
        return [t[1]]
    if t[0] == "f":
        return list(t[2])
    return []


def expand_body(body, feats=None):
    """one disjunction-free body -> body without ?patterns, wildcards, repeated variables, same-clause
    expressions and negations; fresh variables zq1, zq2, ... (no program of the generator uses that stem)"""
    feats = feats if feats is not None else Counter()
    n = [0]

    def fresh():
        n[0] += 1
        return "zq%d" % n[0]
    bound, out = set(), []
    attached = set()      # values bound by a let / if-let attached to an earlier clause
    for it in body:
        if it[0] == "clause":
            here, args, conds, late, seen = [], [], [], [], set()
            for t in it[2]:
                if t[0] == "w":
                    feats["wildcard"] += 1
                    args.append(("v", fresh()))
                elif t[0] == "p":
                    v = fresh()
                    feats["pat_" + t[1][0]] += 1
                    args.append(("v", v))
                    conds.append(("ifletpat", t[1], v))
                    if t[1][0] == "bind":
                        late.append(t[1][1])
                elif t[0] == "v":
                    if t[1] in here or (t[1] in attached and t[1] in seen):
                        # (a variable bound by an attached condition is one join key; its further occurrences in the
                        # clause are written as equality tests so that the macro has nothing left to desugar)
                        v = fresh()
                        feats["repeated_var"] += 1
                        args.append(("v", v))
                        conds.append(("ifeq", v, t))
                    else:
                        args.append(t)
                        seen.add(t[1])
                        if t[1] not in bound:
                            here.append(t[1])
                elif t[0] == "f" and any(x in here for x in t[2]):
                    v = fresh()
                    feats["same_clause_expr"] += 1
                    args.append(("v", v))
                    conds.append(("ifeq", v, t))
                else:
                    args.append(t)
            if it[3]:
                feats["clause_cond"] += 1
            out.append(("clause", it[1], args, conds + list(it[3])))
            bound |= set(here) | set(late)
            for c in it[3]:
                bound |= set(cond_binds(c))
                attached |= set(cond_binds(c))
        elif it[0] == "neg":
            feats["neg"] += 1
            out.append(("agg", None, "not", [], it[1], [("w",) if t[0] == "w" else ("k", t) for t in it[2]]))
        else:
            out.append(it)
            if it[0] == "cond":
                bound |= set(cond_binds(it[1]))
            elif it[0] == "gen":
                bound.add(it[1])
            elif it[0] == "agg" and it[1]:
                bound.add(it[1])
    return out


def expand_program(p, feats=None):
    """the hand expansion: union of the rules obtained by picking one disjunct from each disjunction,
    every remaining sugar form replaced by its documented meaning, one rule per head clause"""
    rules = []
    for r in p["rules"]:
        for conj in disj_product(r["body"]):
            body = expand_body(conj, feats)
            for h in r["heads"]:
                rules.append(dict(heads=[h], body=body))
    return dict(rels=p["rels"], rules=rules)


def program_features(p):
    """counts of sugar forms (per occurrence in the source text; expansion-derived ones per expanded rule)"""
    f = Counter()

    def walk(items, depth):
        for it in items:
            if it[0] == "disj":
                f["disj"] += 1
                if depth > 0:
                    f["nested_disj"] += 1
                f["disj_alts_%d" % len(it[1])] += 1
                for alt in it[1]:
                    walk(alt, depth + 1)
            elif it[0] == "clause" and depth > 0:
                f["clause_in_disjunct"] += 1
            elif it[0] == "agg":
                f["agg"] += 1
            elif it[0] == "gen":
                f["for"] += 1
            elif it[0] == "cond":
                f[{"if": "if", "let": "let", "iflet": "if_let"}[it[1][0]]] += 1
    for r in p["rules"]:
        if not r["body"]:
            f["fact"] += 1
        if len(r["heads"]) > 1:
            f["multi_head"] += 1
        walk(r["body"], 0)
        hs = {h[0] for h in r["heads"]}
        if hs & set(rule_body_rels(r["body"])):
            f["recursive_rule"] += 1
        if len(r["body"]) >= 2 and r["body"][0][0] == "clause" and r["body"][1][0] == "clause" and r["body"][1][3]:
            f["cond_on_second_clause"] += 1
    if shape_attached_repeat(p):
        f["repeated_var_of_attached_binding"] += 1
    if shape_attached_let_simple_join(p):
        f["attached_let_on_first_clause_feeding_second"] += 1
    ef = Counter()
    for r in p["rules"]:         # counted per conjunction of the disjunction product
        for conj in disj_product(r["body"]):
            expand_body(conj, ef)
    for k, v in ef.items():
        f[k] += v
    return f


# (cross_clause_repeated_var: counted only for the cases whose hand expansion writes cross-clause repeats out, gen/c07_perm.py)
SUGAR_FORMS = ["disj", "pat_test", "pat_bind", "wildcard", "repeated_var", "same_clause_expr", "neg", "multi_head", "fact", "cross_clause_repeated_var"]


def rule_body_rels(items):
    out = []
    for it in items:
        if it[0] == "clause":
            out.append(it[1])
        elif it[0] == "agg":
            out.append(it[4])
        elif it[0] == "neg":
            out.append(it[1])
        elif it[0] == "disj":
            for alt in it[1]:
                out += rule_body_rels(alt)
    return out


# ------------------------------------------------------------------ renaming (adversarial names)

def rename_rule(r, f):
    def tm(t):
        if t[0] == "v":
            return ("v", f(t[1]))
        if t[0] == "f":
            return ("f", t[1], [f(x) for x in t[2]])
        if t[0] == "p" and t[1][0] == "bind":
            return ("p", ("bind", f(t[1][1]), t[1][2]))
        return t

    def cd(c):
        if c[0] == "if":
            return ("if", c[1], [f(x) for x in c[2]])
        return (c[0], f(c[1]), c[2], [f(x) for x in c[3]])

    def item(it):
        if it[0] == "clause":
            return ("clause", it[1], [tm(t) for t in it[2]], [cd(c) for c in it[3]])
        if it[0] == "cond":
            return ("cond", cd(it[1]))
        if it[0] == "gen":
            return ("gen", f(it[1]), it[2], [f(x) for x in it[3]])
        if it[0] == "neg":
            return ("neg", it[1], [tm(t) for t in it[2]])
        if it[0] == "agg":
            args = [("b", f(a[1])) if a[0] == "b" else (("k", tm(a[1])) if a[0] == "k" else a) for a in it[5]]
            return ("agg", f(it[1]) if it[1] else None, it[2], [f(x) for x in it[3]], it[4], args)
        if it[0] == "disj":
            return ("disj", [[item(i) for i in alt] for alt in it[1]])
        raise ValueError(it)
    return dict(heads=[(h, [tm(t) for t in a]) for h, a in r["heads"]], body=[item(i) for i in r["body"]])


def rule_vars(r):
    seen = []
    rename_rule(r, lambda x: (seen.append(x) if x not in seen else None) or x)
    return seen


def clause_repeated_vars(items):
    out = []
    for it in items:
        if it[0] == "clause":
            vs = [t[1] for t in it[2] if t[0] == "v"]
            out += [x for x in set(vs) if vs.count(x) > 1]
        elif it[0] == "disj":
            for alt in it[1]:
                out += clause_repeated_vars(alt)
    return out


def adversarialize(rng, p, k):
    """rename one or two variables of a rule to names inside / next to the macro's generated name space;
    whether the name is then captured or harmless depends on the rule.  Returns the names used."""
    cands = [j for j, r in enumerate(p["rules"]) if r["body"] and rule_vars(r)]
    if not cands:
        return []
    used = []
    for j in rng.sample(cands, min(len(cands), rng.choice([1, 1, 2]))):
        r = p["rules"][j]
        vs = rule_vars(r)
        reps = clause_repeated_vars(r["body"])
        names = list(NASTY_FIXED)
        feats = Counter()
        for conj in disj_product(r["body"]):
            expand_body(conj, feats)
        weights = {"__1": 3 if feats["wildcard"] else 1, "__2": 2 if feats["wildcard"] > 1 else 1,
                   "__arg_pattern_": 3 if feats["pat_test"] + feats["pat_bind"] else 1, "__arg_pattern_1": 1,
                   "expr_replaced_": 3 if feats["same_clause_expr"] else 1}
        stem_based = rng.random() < (0.5 if reps else 0.25)
        if stem_based and len(vs) >= 2:
            # x_ / x_1 for a variable x of the rule: make the stems of this rule unique in the process so that
            # the process-wide counter of the stem is in its initial state when the rule is desugared
            pre = "q%d" % k
            r = rename_rule(r, lambda x: pre + x)
            vs = [pre + x for x in vs]
            reps = [pre + x for x in reps]
            x = rng.choice(reps) if reps and rng.random() < 0.8 else rng.choice(vs)
            y = rng.choice([v for v in vs if v != x])
            new = x + rng.choice(["_", "_", "_1"])
        else:
            y = rng.choice(vs)
            new = rng.choices(names, [weights[n] for n in names])[0]
        if new in vs:
            continue
        p["rules"][j] = rename_rule(r, lambda z: new if z == y else z)
        used.append(new)
    return used


# ------------------------------------------------------------------ generator

class SGen:
    """one rule; variables x1, x2, ... ; `scope` lists are the variables visible at a position"""

    def __init__(self, rng, upto, lower, opts=None):
        self.rng, self.upto, self.lower, self.o = rng, upto, lower, dict(opts or {})
        self.nv = 0
        self.bound = []       # interface used by gen_dl.gen_agg_item

    def fresh(self):
        self.nv += 1
        return "x%d" % self.nv

    def expr(self, avail, must=None):
        f = self.rng.choice(["incs", "addm", "mod3", "decs", "max2"])
        args = [self.rng.choice(avail) for _ in range(dl.FUNS[f][1])]
        if must and not any(a in must for a in args):
            args[self.rng.randrange(len(args))] = self.rng.choice(must)
        return ("f", f, args)

    def cond_if(self, avail):
        p = self.rng.choice(sorted(dl.PREDS))
        n = dl.PREDS[p][1]
        ds = sorted(set(avail))
        if n == 2 and len(ds) >= 2 and self.rng.random() < 0.85:
            return ("if", p, self.rng.sample(ds, 2))
        return ("if", p, [self.rng.choice(avail) for _ in range(n)])

    def pattern(self):
        """returns (term, bound variable or None)"""
        if self.rng.random() < 0.55:
            pid = self.rng.choice([20, 21, 22, 23, 24, 25, 30, 30, 31, 31, 32, 32])
            return ("p", ("test", pid)), None
        x = self.fresh()
        return ("p", ("bind", x, self.rng.choice([110, 111, 112]))), x

    def clause(self, scope, must_bind=(), rel=None):
        """-> (item, variables visible afterwards that were not before)"""
        rng = self.rng
        if rel is None:
            ok = [r for r in self.upto if r[1] >= len(must_bind)]
            rel = rng.choice(ok)
        name, arity, _ = rel
        slots = dict(zip(rng.sample(range(arity), len(must_bind)), must_bind))
        args, here, pats = [], [], []
        for k in range(arity):
            if k in slots:
                args.append(("v", slots[k]))
                here.append(slots[k])
                continue
            u = rng.random()
            if u < 0.27 or (not scope and not here and u < 0.6):
                x = self.fresh()
                args.append(("v", x))
                here.append(x)
            elif u < 0.44 and scope:
                args.append(("v", rng.choice(scope)))
            elif u < 0.56 and here:
                args.append(("v", rng.choice(here)))                       # repeated variable
            elif u < 0.62:
                args.append(("c", rng.choice(DOM)))
            elif u < 0.67 and scope:
                args.append(self.expr(scope))                               # expression over earlier items
            elif u < 0.78 and here:
                args.append(self.expr(here + scope if rng.random() < 0.4 else here, must=here))   # same-clause expression
            elif u < 0.88:
                args.append(("w",))
            else:
                t, x = self.pattern()
                args.append(t)
                if x:
                    pats.append(x)
        conds, cvars = [], []
        avail = scope + [x for x in here if x not in scope] + pats
        if avail and rng.random() < self.o.get("p_clause_cond", 0.3):
            for _ in range(rng.choice([1, 1, 2])):
                u = rng.random()
                if u < 0.7:
                    conds.append(self.cond_if(avail + cvars if rng.random() < 0.5 or not (here + pats) else here + pats))
                elif u < 0.85:
                    f = rng.choice(["incs", "addm", "mod3", "decs", "max2"])
                    x = self.fresh()
                    conds.append(("let", x, f, [rng.choice(avail + cvars) for _ in range(dl.FUNS[f][1])]))
                    cvars.append(x)
                else:
                    f = rng.choice(sorted(dl.PARTIALS))
                    x = self.fresh()
                    conds.append(("iflet", x, f, [rng.choice(avail + cvars)]))
                    cvars.append(x)
        new = [x for x in here if x not in scope] + pats + cvars
        return ("clause", name, args, conds), new

    def simple(self, scope):
        """a non-clause, non-disjunction item over a non-empty scope"""
        rng = self.rng
        u = rng.random()
        if u < 0.34:
            return ("cond", self.cond_if(scope)), []
        if u < 0.48:
            f = rng.choice(["incs", "addm", "mod3", "decs", "max2"])
            x = self.fresh()
            return ("cond", ("let", x, f, [rng.choice(scope) for _ in range(dl.FUNS[f][1])])), [x]
        if u < 0.58:
            f = rng.choice(sorted(dl.PARTIALS))
            x = self.fresh()
            return ("cond", ("iflet", x, f, [rng.choice(scope)])), [x]
        if u < 0.68:
            g = rng.choice(sorted(dl.GENS))
            x = self.fresh()
            return ("gen", x, g, [rng.choice(scope) for _ in range(dl.GENS[g][1])]), [x]
        if not self.lower:
            return ("cond", self.cond_if(scope)), []
        if rng.random() < 0.75:
            name, arity, _ = rng.choice(self.lower)
            return ("neg", name, [self.neg_arg(scope) for _ in range(arity)]), []
        self.bound = list(scope)
        for _ in range(6):
            it = gen_dl.gen_agg_item(rng, self, self.lower)
            if it[0] == "agg" and it[2] != "count":      # usize results need a conversion; not C07's subject
                return it, [it[1]]
            if it[0] == "neg":
                return it, []
        name, arity, _ = self.lower[0]
        return ("neg", name, [("w",)] * arity), []

    def neg_arg(self, scope):
        u = self.rng.random()
        if u < 0.55:
            return ("v", self.rng.choice(scope))
        if u < 0.68:
            return ("c", self.rng.choice(DOM))
        if u < 0.8:
            return self.expr(scope)
        return ("w",)

    def item(self, scope, depth):
        u = self.rng.random()
        if not scope:
            if u < 0.25 and depth < 2:
                return self.disj(scope, depth)
            return self.clause(scope)
        if u < 0.5:
            return self.clause(scope)
        if u < 0.5 + (0.22 if depth == 0 else 0.12 if depth == 1 else 0.0):
            return self.disj(scope, depth)
        return self.simple(scope)

    def disj(self, scope, depth, exports=None):
        rng = self.rng
        maxar = max(r[1] for r in self.upto)
        if exports is None:
            k = rng.choice([0, 1, 1, 1, 2, 2]) if scope else rng.choice([1, 1, 2])
            exports = [self.fresh() for _ in range(min(k, maxar))]
        nalts = rng.choice([1, 2, 2, 2, 3, 3])
        alts = []
        for _ in range(nalts):
            sc, items = list(scope), []
            nitems = rng.choice([1, 1, 2, 2])
            if exports:
                if depth < 1 and rng.random() < 0.25:
                    it, _new = self.disj(sc, depth + 1, exports=exports)     # a nested disjunction binds the exported variables
                    new = list(exports)
                else:
                    it, new = self.clause(sc, must_bind=exports)
            else:
                it, new = self.item(sc, depth + 1)
            items.append(it)
            sc += new
            if nitems == 2:
                it, new = self.item(sc, depth + 1)
                items.append(it)
                sc += new
            alts.append(items)
        # `a, if e | b` would parse `e | b` as one expression: protect a non-final alternative that ends in an
        # expression by parentheses (a single-alternative disjunction)
        for j in range(len(alts) - 1):
            if ends_in_expr(alts[j][-1]):
                alts[j] = [("disj", [alts[j]])]
        return ("disj", alts), list(exports)


def ends_in_expr(it):
    if it[0] in ("cond", "gen"):
        return True
    if it[0] == "clause":
        return bool(it[3])
    return False


def gen_rule(rng, upto, lower, here, opts=None):
    g = SGen(rng, upto, lower, opts)
    for _attempt in range(20):
        g.nv = 0
        scope, body = [], []
        nbody = rng.choice((opts or {}).get("body_sizes", [1, 2, 2, 2, 3, 3, 4]))
        while len(body) < nbody:
            it, new = g.item(scope, 0)
            body.append(it)
            scope += new
        if count_expansions(body) <= (opts or {}).get("max_expansions", 10):
            break
    nheads = rng.choice([1, 1, 1, 1, 1, 1, 2, 2, 3])
    heads = []
    for _ in range(nheads):
        name, arity, _ = rng.choice(here)
        args = []
        for _ in range(arity):
            u = rng.random()
            if scope and u < 0.72:
                args.append(("v", rng.choice(scope)))
            elif scope and u < 0.86:
                args.append(g.expr(scope))
            else:
                args.append(("c", rng.choice(DOM)))
        heads.append((name, args))
    return dict(heads=heads, body=body)


def gen_program(rng, opts=None):
    """relations r0.. on levels; rules of level L have heads of level L, positive body clauses of levels <= L,
    negations / aggregates over levels < L only"""
    opts = dict(opts or {})
    nlev = rng.choice([1, 2, 2, 2, 3])
    rels, level = [], {}
    for L in range(nlev):
        for _ in range(rng.choice([1, 2, 2] if L else [1, 2, 2, 3])):
            r = ("r%d" % len(rels), rng.choice([1, 2, 2, 2, 3]), "rel")
            rels.append(r)
            level[r[0]] = L
    rules = []
    for L in range(nlev):
        here = [r for r in rels if level[r[0]] == L]
        upto = [r for r in rels if level[r[0]] <= L]
        lower = [r for r in rels if level[r[0]] < L]
        for _ in range(rng.choice([1, 1, 2, 2, 3] if nlev > 1 else [1, 2, 3, 3])):
            rules.append(gen_rule(rng, upto, lower, here, opts))
    if rng.random() < 0.3:      # body-less rules: unconditional facts, possibly several heads
        hs = []
        for _ in range(rng.choice([1, 1, 2])):
            name, arity, _ = rng.choice(rels)
            hs.append((name, [("c", rng.choice(DOM)) for _ in range(arity)]))
        rules.append(dict(heads=hs, body=[]))
    rng.shuffle(rules)
    return dict(rels=rels, rules=rules, level=level)


# ------------------------------------------------------------------ shapes of two compile-time defects of the macro

def shape_attached_repeat(p):
    """a variable bound by a let / if-let ATTACHED to a clause (a value; rule_desugar_repeated_vars does not record it
    as grounded) occurs twice as a plain argument of a later clause: the pass emits `if y_ == y` with y_: &T, y: T"""
    for r in p["rules"]:
        for conj in disj_product(r["body"]):
            grounded, vals = set(), set()
            for it in conj:
                if it[0] == "clause":
                    vs = [t[1] for t in it[2] if t[0] == "v"]
                    for x in set(vs):
                        if x in vals and x not in grounded and vs.count(x) > 1:
                            return True
                    grounded |= set(vs)
                    for c in it[3]:
                        if c[0] in ("let", "iflet"):
                            vals.add(c[1])
                elif it[0] == "cond":
                    grounded |= set(cond_binds(it[1]))
                elif it[0] == "gen":
                    grounded.add(it[1])
                elif it[0] == "agg" and it[1]:
                    grounded.add(it[1])
    return False


def shape_attached_let_simple_join(p):
    """the first clause of a rule carries an attached `let` (and no `if let`), the next item is a clause that uses the
    let-bound variable as a plain argument: before /repo deeea84 ascent_hir kept such a rule a reorderable simple join
    and the generated code did not compile (sugared and expanded alike).  Counted in the distribution."""
    for r in p["rules"]:
        for conj in disj_product(r["body"]):
            f = next((k for k, it in enumerate(conj) if it[0] == "clause"), None)
            if f is None or f + 1 >= len(conj) or conj[f + 1][0] != "clause":
                continue
            c1, c2 = conj[f], conj[f + 1]
            lets = {c[1] for c in c1[3] if c[0] == "let"}
            if not lets or any(c[0] == "iflet" for c in c1[3]) or any(t[0] == "p" for t in c1[2]):
                continue
            if lets & {t[1] for t in c2[2] if t[0] == "v"}:
                return True
    return False


# ------------------------------------------------------------------ a variable bound by the FIRST clause repeated inside the SECOND
# (no desugaring applies: both occurrences are index columns of the second clause; the equality of the two columns is
# implied by the lookup key only as long as the second clause is looked up, never iterated first)

def add_join_repeat(rng, p):
    """appends a rule  h(..) <-- p(x, ..), q(.., x, .., x, ..) [, more]  whose first two body items are plain clauses;
    returns dict(p=rel name, q=rel name, ppos=column of x in p, qpos=(i, j) columns of x in q) or None"""
    rels = p["rels"]
    level = p.get("level", {})
    qs = [r for r in rels if r[1] >= 2]
    if not qs:
        return None
    # prefer relations no rule writes: their sizes at run time are the sizes of the input (the join order is chosen from the sizes)
    derived = {h[0] for r in p["rules"] for h in r["heads"]}
    qs = [r for r in qs if r[0] not in derived] or qs
    q = rng.choice([r for r in qs if r[1] >= 3] or qs) if rng.random() < 0.5 else rng.choice(qs)
    others = [r for r in rels if r[0] != q[0] and r[1] >= 1]
    others = [r for r in others if r[0] not in derived] or others
    pr = rng.choice(others) if others and rng.random() < 0.9 else q
    top = max(level.values()) if level else 0
    heads_ok = [r for r in rels if level.get(r[0], 0) == top]
    h = rng.choice(heads_ok)
    pvars = ["x%d" % (k + 1) for k in range(pr[1])]
    ppos = rng.randrange(pr[1])
    x = pvars[ppos]
    i, j = sorted(rng.sample(range(q[1]), 2))
    if q[1] >= 3 and rng.random() < 0.5:
        i, j = 0, q[1] - 1            # the two occurrences NOT next to each other (another column in between)
    qargs, nv, scope = [], pr[1], list(pvars)
    for k in range(q[1]):
        if k in (i, j):
            qargs.append(("v", x))
        elif rng.random() < 0.6:
            nv += 1
            qargs.append(("v", "x%d" % nv))
            scope.append("x%d" % nv)
        elif rng.random() < 0.5:
            qargs.append(("w",))
        else:
            qargs.append(("v", rng.choice([y for y in pvars if y != x] or [x])))
    body = [("clause", pr[0], [("v", y) for y in pvars], []), ("clause", q[0], qargs, [])]
    u = rng.random()
    if u < 0.2:
        body.append(("cond", ("if", "le", [rng.choice(scope), rng.choice(scope)])))
    elif u < 0.35:
        r3 = rng.choice(rels)
        body.append(("clause", r3[0], [("v", rng.choice(scope)) if rng.random() < 0.6 else ("w",) for _ in range(r3[1])], []))
    hargs = [("v", x if k == 0 else rng.choice(scope)) for k in range(h[1])]
    p["rules"].insert(rng.randrange(len(p["rules"]) + 1), dict(heads=[(h[0], hargs)], body=body))
    return dict(p=pr[0], q=q[0], ppos=ppos, qpos=(i, j), parity=pr[1], qarity=q[1])


def join_repeat_inputs(rng, p, info):
    """input databases aimed at the rule of add_join_repeat: q holds a tuple whose two columns DIFFER (a, b) while p holds
    b (and a); relative sizes both ways (|q| < |p| and |q| > |p|: the run-time choice of the join order), plus one at random"""
    out = []
    i, j = info["qpos"]
    for small_q in (True, False):
        inp, _ = gen_dl.gen_input(rng, p["rels"], style=rng.choice(["small", "mixed"]))
        a, b = rng.sample(DOM, 2)

        def qt(u, v):
            t = [rng.choice(DOM) for _ in range(info["qarity"])]
            t[i], t[j] = u, v
            return tuple(t)

        def pt(u):
            t = [rng.choice(DOM) for _ in range(info["parity"])]
            t[info["ppos"]] = u
            return tuple(t)
        if info["p"] == info["q"]:
            ts = [qt(a, b), pt(b), pt(a)] + [qt(rng.choice(DOM), rng.choice(DOM)) for _ in range(rng.choice([1, 4]))]
            inp[info["q"]] = list(dict.fromkeys(ts))
        else:
            nq, npp = (rng.choice([1, 2, 3]), rng.choice([8, 11, 14])) if small_q else (rng.choice([9, 12, 15]), rng.choice([1, 2, 3]))
            qts = [qt(a, b)] + [qt(rng.choice(DOM), rng.choice(DOM)) for _ in range(nq - 1)]
            pts = [pt(b)] + ([pt(a)] if npp > 1 else []) + [pt(rng.choice(DOM)) for _ in range(max(0, npp - 2))]
            inp[info["q"]] = list(dict.fromkeys(qts))
            inp[info["p"]] = list(dict.fromkeys(pts))
        out.append(inp)
    out.append(gen_dl.gen_input(rng, p["rels"], style=rng.choice(["mixed", "dense"]))[0])
    return out


def count_join_repeat(p):
    """conjunctions whose first two items are clauses and whose second clause repeats, as plain arguments, a variable
    bound by the first clause"""
    n = 0
    for r in p["rules"]:
        for conj in disj_product(r["body"]):
            if len(conj) >= 2 and conj[0][0] == "clause" and conj[1][0] == "clause":
                first = {t[1] for t in conj[0][2] if t[0] == "v"}
                vs = [t[1] for t in conj[1][2] if t[0] == "v"]
                if any(vs.count(x) > 1 and x in first for x in set(vs)):
                    n += 1
    return n
