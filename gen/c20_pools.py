"""C20, program level: indices that EXIST BEFORE run() — built at construction (relations with initial values,
`relation r(..) = expr;`, indexed inside Default::default()) or by an explicit `update_indices()` — in a rayon pool other than the
pool current in run(), over relations of hundreds of rows that are read WITH NO BOUND COLUMN (CRelNoIndex: count / sum / min / max
over all rows, negation with wildcards only, cross product, first clause of a later stratum, the second clause of a non-linear
recursive rule) in the stratum where they are dynamic or in a later one.

Every program of the family is randomised (arity of the big relation, how it becomes dynamic, which readers, sizes, values); the
histories (scripts) cover: construction in a pool of a threads / on the main thread (global pool), optionally rows assigned
afterwards (another count, the SAME count, pushed) and `update_indices()` in pool a, run in a pool of b threads, run again in a
pool of c.  a > b is drawn most of the time (the direction in which per-thread shard vectors of construction do not fit the run
pool), every other relation is drawn too.

Three-way comparison per snapshot:
  implementation (ascent_par!, real rustc, real rayon pools)
  vs specification = the least model of the program over the rows present at run() (gen/c20_spec.py: plain python evaluator, no
     indices / pools), rows counted (no duplicates)                                         -> impl_violates_spec
  vs model = Index/NoIndexLife.v `life AlwaysRebuild` over the same history (assign / build in pool a / run in pool b / run in
     pool c, rows spread round robin over the workers): the number of rows readable from the big relation's no-bound-column
     index after each run must be what the program's count() aggregate returned            -> model_differs
The model is also evaluated under the refuted policy KeepIfSizeUnchanged: the number of histories in which omitting the rebuild
would be visible is reported in the evidence (non-vacuity of the family: > 0)."""
import json

from . import c20_spec, dl, lib, prog

PROP = "C20"
SIZES = [1, 2, 3, 4, 8, 16]
PRELUDE = ("From Coq Require Import List ZArith.\nFrom AV Require Import Index.IndexModel.\nFrom AV Require Import Index.ConcIndex.\n"
           "From AV Require Import Index.NoIndexPools.\nFrom AV Require Import Index.NoIndexLife.\nImport ListNotations.\nOpen Scope Z_scope.\n"
           "Definition cnt (p : policy) (evs : list event) (a0 : nat) : Z := match life p evs (fresh_state a0) with Ok st => noindex_count st | _ => (-1) end.\n"
           "Definition both (evs : list event) (a0 : nat) : Z * Z := (cnt AlwaysRebuild evs a0, cnt KeepIfSizeUnchanged evs a0).\n")


# ------------------------------------------------------------------ programs

def V(x):
    return ("v", x)


def gen_program(rng):
    """dl AST + the names of the input relations"""
    k = rng.choice([1, 2, 2, 2, 3])
    xs = ["x%d" % i for i in range(k)]
    rels = [("big", k, "rel"), ("src", k, "rel"), ("probe", 1, "rel"), ("cnt", 1, "rel")]
    rules = []
    T = rng.choice([2, 3, 4])
    dyn = rng.choice(["feed", "feed", "rec", "rec", "nonlin", "feed+rec", "feed+nonlin", "none"])
    if "feed" in dyn:      # dynamic in a non-looping stratum
        rules.append(dict(heads=[("big", [V(x) for x in xs])], body=[("clause", "src", [V(x) for x in xs], [])]))
    if "rec" in dyn:       # linear recursion: several productive iterations
        rules.append(dict(heads=[("big", [("f", "incs", ["x0"])] + [V(x) for x in xs[1:]])],
                          body=[("clause", "big", [V(x) for x in xs], []), ("cond", ("letc", "t", T)), ("cond", ("if", "lt", ["x0", "t"]))]))
    if "nonlin" in dyn:    # the second clause reads big with no bound column INSIDE the stratum (total in later iterations)
        us = ["u%d" % i for i in range(k)]
        c1 = ("clause", "big", [V("x0")] + [("w",)] * (k - 1), [("if", "lt", ["x0", "t"])])
        c2 = ("clause", "big", [V(u) for u in us], [("if", "lt", [us[-1], "t"])] if k > 1 else [("if", "lt", ["u0", "t"])])
        rules.append(dict(heads=[("big", [("f", "addm", ["x0", "u0"])] + [V(u) for u in us[1:]])],
                          body=[("cond", ("letc", "t", T)), c1, c2]))
    # readers; the count() over all rows is always there (it is also what the Coq life model predicts)
    rules.append(dict(heads=[("cnt", [("f", "asi32", ["n"])])], body=[("agg", "n", "count", [], "big", [("w",)] * k)]))
    readers = rng.sample(["sum", "ext", "copy", "proj", "projc", "grp", "none", "cnt2"], rng.choice([2, 3, 4]))
    if not ({"sum", "copy", "proj"} & set(readers)):
        readers.append(rng.choice(["sum", "copy", "proj"]))
    for rd in readers:
        j = rng.randrange(k)
        if rd == "sum":
            rels.append(("sm", 1, "rel"))
            rules.append(dict(heads=[("sm", [V("s")])], body=[("agg", "s", "sum", ["b"], "big", [("b", "b") if i == j else ("w",) for i in range(k)])]))
        elif rd == "ext":
            j2 = rng.randrange(k)
            rels.append(("ext", 2, "rel"))
            rules.append(dict(heads=[("ext", [V("lo"), V("hi")])],
                              body=[("agg", "lo", "min", ["b"], "big", [("b", "b") if i == j else ("w",) for i in range(k)]),
                                    ("agg", "hi", "max", ["c"], "big", [("b", "c") if i == j2 else ("w",) for i in range(k)])]))
        elif rd == "copy":      # first clause of a later stratum: the whole relation through the no-index total
            rels.append(("cp", k, "rel"))
            rules.append(dict(heads=[("cp", [V(x) for x in xs])], body=[("clause", "big", [V(x) for x in xs], [])]))
        elif rd == "proj":      # cross product: big is the second clause, nothing bound
            rels.append(("proj", 1, "rel"))
            rules.append(dict(heads=[("proj", [V(xs[j])])], body=[("clause", "probe", [V("p")], []), ("clause", "big", [V(x) for x in xs], [])]))
        elif rd == "projc":     # cross product with a filter
            rels.append(("projc", 2, "rel"))
            rules.append(dict(heads=[("projc", [V("p"), V(xs[-1])])],
                              body=[("clause", "probe", [V("p")], []), ("clause", "big", [V(x) for x in xs], [("if", "lt", [xs[0], "p"])])]))
        elif rd == "grp":       # an indexed read next to the no-index ones
            rels.append(("grp", 2, "rel"))
            rules.append(dict(heads=[("grp", [V("p"), ("f", "asi32", ["m"])])],
                              body=[("clause", "probe", [V("p")], []), ("agg", "m", "count", [], "big", [("k", V("p"))] + [("w",)] * (k - 1))]))
        elif rd == "none":      # negation with wildcards only
            rels.append(("none", 1, "rel"))
            rules.append(dict(heads=[("none", [V("p")])], body=[("clause", "probe", [V("p")], []), ("neg", "big", [("w",)] * k)]))
        elif rd == "cnt2":      # an aggregate over a relation derived from big in a later stratum
            rels.append(("half", 1, "rel"))
            rels.append(("cnt2", 1, "rel"))
            rules.append(dict(heads=[("half", [V(xs[j])])], body=[("clause", "big", [V(x) for x in xs], [("if", "even", [xs[j]])])]))
            rules.append(dict(heads=[("cnt2", [("f", "asi32", ["n"])])], body=[("agg", "n", "count", [], "half", [("w",)])]))
    rng.shuffle(rules)
    return dict(rels=rels, rules=rules, shape="prebuilt:" + dyn, k=k)


def gen_rows(rng, k, n, base=0):
    """n distinct rows of arity k: first column small values (so that the rules fire), last column distinct"""
    m0 = rng.choice([5, 9, 30])
    out = []
    if k == 1:
        vals = rng.sample(range(base, base + 3 * n + 8), n)
        return [(v,) for v in vals]
    for i in range(n):
        mid = tuple(rng.randrange(0, 12) for _ in range(k - 2))
        out.append((rng.randrange(m0),) + mid + (base + i,))
    rng.shuffle(out)
    return out


def gen_case(rng, cid, nrange=(150, 700)):
    p = gen_program(rng)
    k = p["k"]
    n = rng.randint(*nrange)
    base = gen_rows(rng, k, n)
    alt_same = gen_rows(rng, k, n, base=2000)             # same count, other rows
    alt_other = gen_rows(rng, k, max(20, n - rng.randint(1, n // 3)), base=4000)
    src = [tuple([rng.randrange(0, 6)] + [9000 + rng.randrange(50) for _ in range(k - 1)]) for _ in range(rng.choice([0, 1, 3, 6]))]
    src = sorted(set(src))
    if rng.random() < 0.3 and base:
        src.append(base[0])                                # a row that is there already
    probe = sorted(set(rng.randrange(0, 9) for _ in range(rng.choice([1, 2, 4]))))
    return dict(id=cid, family="prebuilt", prog=p, rows=dict(big=base, src=src, probe=[(v,) for v in probe]),
                alt_same=alt_same, alt_other=alt_other, push=gen_rows(rng, k, rng.choice([1, 5, 40]), base=7000))


# ------------------------------------------------------------------ histories

def gen_configs(rng, nconf):
    """(kind, a, b, c): a = construction / update_indices pool (0 = the main thread: global pool), b, c = run pools"""
    kinds = ["init", "init", "init", "upd", "upd", "same", "push"]
    out = [("init", 16, 1, 4), ("init", 0, 1, 2), ("upd", 8, 2, 16)]      # fixed corner configurations
    while len(out) < nconf:
        kind = rng.choice(kinds)
        a = rng.choice(SIZES + [0])
        if rng.random() < 0.7:
            b = rng.choice([s for s in SIZES if s < (a or 16)] or [1])
        else:
            b = rng.choice(SIZES)
        out.append((kind, a, b, rng.choice(SIZES)))
    return out[:nconf]


def rows_at_run(case, kind):
    r = dict(case["rows"])
    if kind == "upd":
        r["big"] = case["alt_other"]
    elif kind == "same":
        r["big"] = case["alt_same"]
    elif kind == "push":
        r["big"] = case["rows"]["big"] + case["push"]
    return r


def pool_expr(n):
    return "ascent::rayon::ThreadPoolBuilder::new().num_threads(%d).build().unwrap()" % n


def script_of(kind, a, b, c):
    st = [("raw", "let pb = %s; let pc = %s;" % (pool_expr(b), pool_expr(c)))]
    if a:
        st.append(("raw", "let pa = %s; let mut p = pa.install(|| Prog::default());" % pool_expr(a)))
        ins = "pa.install(|| %s);"
    else:
        ins = "%s;"        # the main thread: the global pool
    if kind == "upd":
        st.append(("raw", "p.big = rows_alt_other().into_iter().collect();"))
        st.append(("raw", ins % "p.update_indices()"))
    elif kind == "same":
        st.append(("raw", "p.big = rows_alt_same().into_iter().collect();"))
    elif kind == "push":
        st.append(("raw", "for t in rows_push() { p.big.push(t); }"))
    st += [("raw", "pb.install(|| p.run());"), ("snap",), ("raw", "pc.install(|| p.run());"), ("snap",)]
    return st


def rows_fn(name, rows, k):
    ty = "(" + "".join("i32, " for _ in range(k)) + ")"
    return "fn %s() -> Vec<%s> { vec![%s] }" % (name, ty, ", ".join(prog.rust_tuple(t) for t in rows))


def job_of(case, configs):
    p = case["prog"]
    k = p["k"]
    text = dl.rust_program_text(p)
    # initial values: the three input relations are filled (and indexed) inside Default::default()
    for name, fn in (("big", "rows_big"), ("src", "rows_src"), ("probe", "rows_probe")):
        decl = dl.rust_decl(name, dict((n, a) for n, a, _ in p["rels"])[name], "rel")
        assert decl in text
        text = text.replace(decl, decl[:-1] + " = %s().into_iter().collect();" % fn, 1)
    pre = "\n".join([rows_fn("rows_big", case["rows"]["big"], k), rows_fn("rows_src", case["rows"]["src"], k),
                     rows_fn("rows_probe", case["rows"]["probe"], 1), rows_fn("rows_alt_same", case["alt_same"], k),
                     rows_fn("rows_alt_other", case["alt_other"], k), rows_fn("rows_push", case["push"], k)])
    scripts = [[("run",), ("snap",)]] + [script_of(*cf) for cf in configs]      # script 0: alone, default pool
    return dict(id=case["id"], text=text, pre=pre, macro="ascent_par", rels=p["rels"], scripts=scripts), text


# ------------------------------------------------------------------ model (Index/NoIndexLife.v)

def life_expr(n0, nrun, kind, a, b, c, nd1, dynamic):
    """the history of the big relation's no-bound-column index; rows are ids 0.. ; nd1 = rows derived by the first run"""
    G = 16        # the main thread's pool (global): its size only matters through `a > b`, any value >= every run pool does
    aa = a or G
    evs = ["ESet (ids 0 %d)" % n0, "EBuild %d (spread %d %d)" % (aa, aa, n0)]
    if kind in ("upd",):
        evs += ["ESet (ids 0 %d)" % nrun, "EBuild %d (spread %d %d)" % (aa, aa, nrun)]
    elif kind in ("same", "push"):
        evs += ["ESet (ids 0 %d)" % nrun]
    new = "[" + "; ".join("(%d%%nat, %d)" % (i % b, nrun + i) for i in range(nd1)) + "]"
    # big is dynamic in one stratum (the rows derived there: one round; the theorem covers every split into rounds) and read by
    # later strata; a program in which no rule derives big only reads it
    run1 = "ERun %d (spread %d %d) [%sVBody]" % (b, b, nrun, ("VDyn [%s]; " % new) if dynamic else "")
    run2 = "ERun %d (spread %d %d) [%sVBody]" % (c, c, nrun + nd1, "VDyn []; " if dynamic else "")
    e1 = "[" + "; ".join(evs + [run1]) + "]"
    e2 = "[" + "; ".join(evs + [run1, run2]) + "]"
    return "(both %s %d%%nat, both %s %d%%nat)" % (e1, aa, e2, aa)


# ------------------------------------------------------------------ run + compare

def describe(case, cf):
    kind, a, b, c = cf
    where = "a pool of %d threads" % a if a else "the main thread (global pool)"
    how = {"init": "relations with initial values, constructed in %s" % where,
           "upd": "constructed in %s, other rows assigned (another count), update_indices() there" % where,
           "same": "constructed in %s (initial values), then the SAME NUMBER of other rows assigned" % where,
           "push": "constructed in %s (initial values), rows pushed" % where}[kind]
    return "%s; run() in a pool of %d, run() again in a pool of %d" % (how, b, c)


def check_cases(cases, configs_of, tag="c20b"):
    jobs, texts = [], {}
    for cs in cases:
        j, text = job_of(cs, configs_of[cs["id"]])
        jobs.append(j)
        texts[cs["id"]] = text
    impl = prog.build_and_run(tag, jobs, nbins=min(lib.NCPU, max(1, len(jobs))), run_timeout=300) if jobs else {}
    mism, exprs, emeta = [], [], []
    evals, distinct, kinds, skipped = 0, set(), {}, 0
    for cs in cases:
        p = cs["prog"]
        rels = p["rels"]
        specs = {}
        try:
            for kind in ("init", "upd", "same", "push"):
                specs[kind] = c20_spec.grouped(c20_spec.least_model(p, rows_at_run(cs, kind)), rels)
        except c20_spec.Budget:
            skipped += 1
            continue
        res = impl.get(cs["id"]) or []
        cfgs = [("alone", 0, 0, 0)] + list(configs_of[cs["id"]])
        for kidx, cf in enumerate(cfgs):
            kind, a, b, c = cf
            spec = specs["init" if kind == "alone" else kind]
            iv = res[kidx] if kidx < len(res) else None
            what_cfg = "constructed and run alone on the main thread" if kind == "alone" else describe(cs, cf)
            base = dict(family="prebuilt", id=cs["id"], program=texts[cs["id"]], prog=p, config=list(cf), history=what_cfg,
                        big_rows=len(rows_at_run(cs, "init" if kind == "alone" else kind)["big"]), case=_slim(cs))
            evals += 1
            if iv is None or "snaps" not in iv:
                mism.append(dict(case=base, impl=iv, model=None, spec=None, kind="impl_violates_spec", known=None,
                                 what="prebuilt-index history did not complete (compile error / panic / timeout): %s  [%s]" % (json.dumps(iv)[:300], what_cfg)))
                continue
            distinct.add((cs["id"], kidx))
            kinds[kind] = kinds.get(kind, 0) + 1
            bad = None
            for j, snap in enumerate(iv["snaps"]):
                isnap = prog.canon_snap(snap)
                for name, _, _ in rels:
                    if isnap[name][1] != spec[name][1] or isnap[name][0] != len(isnap[name][1]):
                        bad = (j, name, isnap[name])
                        break
                if bad:
                    break
            if bad:
                j, name, got = bad
                want = spec[name][1]
                miss = [t for t in want if t not in set(got[1])]
                extra = [t for t in got[1] if t not in set(want)]
                mism.append(dict(case=dict(base, snapshot=j), impl={name: dict(rows=got[0], distinct=len(got[1]), sample=got[1][:6])}, model=None,
                                 spec={name: dict(distinct=len(want), sample=want[:6])}, kind="impl_violates_spec", known=None,
                                 what="relation %s after run #%d differs from the least model of the program over the %d rows of big present at run() "
                                      "(%d rows, %d distinct; specification %d; missing e.g. %s, not derivable e.g. %s)  [%s]" % (
                                          name, j + 1, base["big_rows"], got[0], len(got[1]), len(want), miss[:3], extra[:3], what_cfg)))
            if kind != "alone":
                nrun = base["big_rows"]
                nd1 = spec["big"][0] - nrun
                exprs.append(life_expr(len(cs["rows"]["big"]), nrun, kind, a, b, c, nd1, not p["shape"].endswith(":none")))
                emeta.append((base, [prog.canon_snap(s)["cnt"][1] for s in iv["snaps"]], spec["big"][0]))
    # the Coq life model on the same histories
    would_lose = 0
    if exprs:
        B = 6
        groups = ["[" + "; ".join(exprs[i:i + B]) + "]" for i in range(0, len(exprs), B)]
        vals = lib.coq_eval("C20life", PRELUDE, groups, per_shard=max(1, (len(groups) + lib.NCPU - 1) // lib.NCPU))
        flat = [v for g in vals for v in g]
        for (base, icnts, total), v in zip(emeta, flat):
            m1, k1, (m2, k2) = v          # Coq prints ((a, b), (c, d)) as (a, b, (c, d))
            if (k1, k2) != (m1, m2):
                would_lose += 1
            for j, (m, ic) in enumerate(zip((m1, m2), icnts)):
                if m != total:
                    raise lib.Infra("Index/NoIndexLife.v life AlwaysRebuild predicts %s rows, the specification has %s: the tie's history translation is wrong (%s)" % (m, total, base["history"]))
                if ic != [(m,)]:
                    mism.append(dict(case=dict(base, snapshot=j), impl=dict(cnt=ic), model=dict(noindex_count=m), spec=dict(rows_of_big=total), kind="model_differs", known=None,
                                     what="correspondence Index/NoIndexLife.v `life AlwaysRebuild` vs generated code: after run #%d the model reads %d rows from big's no-bound-column index, "
                                          "the program's count() over big returned %s  [%s]" % (j + 1, m, ic, base["history"])))
                    break
    return dict(mismatches=mism, evaluations=evals, distinct=len(distinct), kinds=kinds, skipped=skipped,
                model_histories=len(exprs), histories_where_keeping_prebuilt_indices_would_lose_rows=would_lose)


def _slim(cs):
    """what a replay needs"""
    return dict(id=cs["id"], family="prebuilt", prog=cs["prog"], rows=cs["rows"], alt_same=cs["alt_same"], alt_other=cs["alt_other"], push=cs["push"])


def _tuples(x):
    return [tuple(t) for t in x]


def case_from_json(d):
    """the dl AST is only ever indexed (json lists work as the tuples they were); rows must be hashable"""
    p = dict(d["prog"], rels=[tuple(r) for r in d["prog"]["rels"]])
    return dict(id=d.get("id", "c20_replay"), family="prebuilt", prog=p, rows={k: _tuples(v) for k, v in d["rows"].items()},
                alt_same=_tuples(d["alt_same"]), alt_other=_tuples(d["alt_other"]), push=_tuples(d["push"]))


def run(tier, seed, corpus=()):
    rng = lib.rng_for(seed, PROP, "prebuilt")
    nprog, nconf = (16, 9) if tier == "quick" else (80, 14)
    cases = [gen_case(rng, "c20pb_%d" % i) for i in range(nprog)]
    configs_of = {cs["id"]: gen_configs(rng, nconf) for cs in cases}
    for i, entry in enumerate(corpus):
        cs = case_from_json(entry["case"])
        cs["id"] = "c20pb_corpus_%d" % i
        cases.insert(0, cs)
        configs_of[cs["id"]] = [tuple(entry["config"])] * 3
    return check_cases(cases, configs_of)


def replay(case):
    cs = case_from_json(case["case"])
    cs["id"] = "c20pb_replay"
    cf = tuple(case["config"])
    if cf[0] == "alone":
        cf = ("init", 0, 1, 1)
    return check_cases([cs], {cs["id"]: [cf] * 5}, tag="c20br")
