#!/bin/sh
# offline setup: build the Coq development and the Rust harnesses from files on disk
set -e
cd "$(dirname "$0")"
export CARGO_NET_OFFLINE=true
python3 - <<'PY'
import sys
sys.path.insert(0, ".")
from gen import lib
lib.coq_makefile()
PY
(cd coq && timeout 3000 make -j16 2>&1 | tail -5)
[ -f harness/ds_driver/Cargo.lock ] || cp /repo/Cargo.lock harness/ds_driver/Cargo.lock
(cd harness/ds_driver && timeout 3000 cargo build --offline 2>&1 | tail -3)
echo setup done
