#!/bin/sh
# offline setup: build the Coq development and the Rust harnesses from files on disk
set -e
cd "$(dirname "$0")"
export CARGO_NET_OFFLINE=true
python3 - <<'PY'
import sys
sys.path.insert(0, ".")
from gen import lib
lib.coq_makefile()
PY
(cd coq && timeout 3000 make -j16 2>&1 | tail -5) || true
for d in harness/*/; do
  [ -f "$d/Cargo.toml" ] || continue
  [ -f "$d/Cargo.lock" ] || cp /repo/Cargo.lock "$d/Cargo.lock"
  (cd "$d" && timeout 3000 cargo build --offline 2>&1 | tail -2) || true
done
# warm the FRONT driver and the dependency graph of generated crates
python3 - <<'PY' || true
import sys
sys.path.insert(0, ".")
from gen import prog
prog.front_run([("warm", "ascent", "relation a(i32); relation b(i32); b(x) <-- a(x);")])
prog.build_and_run("warm", [dict(id="w", text="relation a(i32); relation b(i32); b(x) <-- a(x);", macro="ascent", rels=[("a", 1, "rel"), ("b", 1, "rel")], scripts=[[("set", {"a": [(1,)]}), ("run",), ("snap",)]])], features=("verif_hooks",))
PY
echo setup done
