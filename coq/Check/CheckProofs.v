(* C15 — proofs about Check/CheckModel.v: declarative violations, completeness and soundness of rejection with the
   detection order, acceptance, panics. *)
From Coq Require Import List Bool Arith PeanoNat Lia Relations.
From AV Require Import Check.CheckModel.
Import ListNotations.

(* ------------------------------------------------------------------ basics *)

Lemma ident_eqb_refl x : ident_eqb x x = true.
Proof. induction x as [n|i IH k]; simpl; [apply Nat.eqb_refl | now rewrite IH, Nat.eqb_refl]. Qed.

Lemma ident_eqb_eq x y : ident_eqb x y = true <-> x = y.
Proof.
  split; [| intros ->; apply ident_eqb_refl].
  revert y; induction x as [n|i IH k]; intros [m|j l]; simpl; try discriminate.
  - intros H; apply Nat.eqb_eq in H; now subst.
  - intros H; apply andb_true_iff in H as [H1 H2]; apply IH in H1; apply Nat.eqb_eq in H2; now subst.
Qed.

Lemma ident_eq_dec (x y : ident) : {x = y} + {x <> y}.
Proof. destruct (ident_eqb x y) eqn:E; [left; now apply ident_eqb_eq | right; intros ->; now rewrite ident_eqb_refl in E]. Qed.

Lemma mem_In x l : mem x l = true <-> In x l.
Proof.
  unfold mem; rewrite existsb_exists; split.
  - intros [y [H1 H2]]; apply ident_eqb_eq in H2; now subst.
  - intros H; exists x; split; [assumption | apply ident_eqb_refl].
Qed.

Lemma mem_false x l : mem x l = false <-> ~ In x l.
Proof. rewrite <- mem_In; destruct (mem x l); split; congruence. Qed.

Lemma memn_In x l : memn x l = true <-> In x l.
Proof.
  unfold memn; rewrite existsb_exists; split.
  - intros [y [H1 H2]]; apply Nat.eqb_eq in H2; now subst.
  - intros H; exists x; split; [assumption | apply Nat.eqb_refl].
Qed.

(* ------------------------------------------------------------------ locations *)

Definition loc_lt (a b : loc) : Prop :=
  match a, b with (s, i, j), (s', i', j') => s < s' \/ (s = s' /\ (i < i' \/ (i = i' /\ j < j'))) end.
Definition loc_le (a b : loc) : Prop := loc_lt a b \/ a = b.
Definition stage (l : loc) : nat := fst (fst l).

Lemma loc_le_refl a : loc_le a a. Proof. now right. Qed.
Lemma loc_le_stage a b : stage a < stage b -> loc_le a b.
Proof. destruct a as [[s i] j], b as [[s' i'] j']; simpl; intros H; left; simpl; now left. Qed.

(* ------------------------------------------------------------------ the result monad *)

Lemma bind_OK {A B} (r : result A) (f : A -> result B) b : bind r f = OK b -> exists a, r = OK a /\ f a = OK b.
Proof. destruct r; simpl; try discriminate; eauto. Qed.
Lemma bind_Err {A B} (r : result A) (f : A -> result B) e l :
  bind r f = Err e l -> r = Err e l \/ exists a, r = OK a /\ f a = Err e l.
Proof. destruct r; simpl; try discriminate; [right; eauto | intros H; injection H as -> ->; now left]. Qed.
Lemma bind_Panic {A B} (r : result A) (f : A -> result B) :
  bind r f = Panic -> r = Panic \/ exists a, r = OK a /\ f a = Panic.
Proof. destruct r; simpl; try discriminate; [right; eauto | now left]. Qed.

Section MapM.
  Context {A B : Type} (f : nat -> A -> result B).
  Hypothesis f_no_panic : forall i x, f i x <> Panic.

  Lemma mapM_no_panic i l : mapM f i l <> Panic.
  Proof.
    revert i; induction l as [|x tl IH]; intros i; simpl; [discriminate|].
    destruct (f i x) eqn:E; simpl; [| discriminate | now apply f_no_panic in E].
    specialize (IH (S i)); destruct (mapM f (S i) tl); simpl; congruence.
  Qed.

  Lemma mapM_Err i l e lc : mapM f i l = Err e lc -> exists j x, nth_error l j = Some x /\ f (i + j) x = Err e lc.
  Proof.
    revert i; induction l as [|x tl IH]; intros i; simpl; [discriminate|].
    intros H; apply bind_Err in H as [H | [y [Hy H]]].
    - exists 0, x; rewrite Nat.add_0_r; auto.
    - apply bind_Err in H as [H | [ys [_ H]]]; [| discriminate].
      apply IH in H as [j [x' [H1 H2]]]; exists (S j), x'; split; [exact H1 | now rewrite Nat.add_succ_r].
  Qed.

  Lemma mapM_first_Err i l j x e lc : nth_error l j = Some x -> f (i + j) x = Err e lc ->
    exists j' x' e' lc', j' <= j /\ nth_error l j' = Some x' /\ f (i + j') x' = Err e' lc' /\ mapM f i l = Err e' lc'.
  Proof.
    revert i j; induction l as [|y tl IH]; intros i j Hn Hf; [destruct j; discriminate|].
    simpl. destruct (f i y) eqn:E.
    - destruct j as [|j]; [simpl in Hn; injection Hn as ->; rewrite Nat.add_0_r in Hf; congruence|].
      simpl in Hn. rewrite Nat.add_succ_r in Hf. destruct (IH (S i) j Hn Hf) as [j' [x' [e' [lc' [H1 [H2 [H3 H4]]]]]]].
      exists (S j'), x', e', lc'; split; [lia|]; split; [exact H2|]; split; [now rewrite Nat.add_succ_r | simpl; now rewrite H4].
    - exists 0, y, e0, l; split; [lia|]; split; [reflexivity|]; split; [now rewrite Nat.add_0_r | reflexivity].
    - now apply f_no_panic in E.
  Qed.

  Lemma mapM_OK_all i l ys : mapM f i l = OK ys -> forall j x, nth_error l j = Some x -> exists y, f (i + j) x = OK y /\ nth_error ys j = Some y.
  Proof.
    revert i ys; induction l as [|x tl IH]; intros i ys H j x' Hn; [destruct j; discriminate|].
    simpl in H. apply bind_OK in H as [y [Hy H]]. apply bind_OK in H as [ys' [Hys H]]. injection H as <-.
    destruct j as [|j]; simpl in Hn.
    - injection Hn as <-; exists y; rewrite Nat.add_0_r; auto.
    - destruct (IH _ _ Hys j x' Hn) as [y' [H1 H2]]; exists y'; rewrite Nat.add_succ_r; auto.
  Qed.

  Lemma mapM_OK_length i l ys : mapM f i l = OK ys -> length ys = length l.
  Proof.
    revert i ys; induction l as [|x tl IH]; intros i ys H; simpl in H; [injection H as <-; reflexivity|].
    apply bind_OK in H as [y [Hy H]]. apply bind_OK in H as [ys' [Hys H]]. injection H as <-. simpl; f_equal; eauto.
  Qed.

  Lemma mapM_OK_nth i l ys j y : mapM f i l = OK ys -> nth_error ys j = Some y -> exists x, nth_error l j = Some x /\ f (i + j) x = OK y.
  Proof.
    revert i ys j; induction l as [|x tl IH]; intros i ys j H Hn; simpl in H.
    - injection H as <-; destruct j; discriminate.
    - apply bind_OK in H as [y0 [Hy H]]. apply bind_OK in H as [ys' [Hys H]]. injection H as <-.
      destruct j as [|j]; simpl in Hn.
      + injection Hn as <-; exists x; rewrite Nat.add_0_r; auto.
      + destruct (IH _ _ _ Hys Hn) as [x' [H1 H2]]; exists x'; rewrite Nat.add_succ_r; auto.
  Qed.
End MapM.

Section MapMFlat.
  Context {A B : Type} (f : A -> result (list B)).

  Lemma mapM_flat_Err l e lc : mapM_flat f l = Err e lc -> exists x, In x l /\ f x = Err e lc.
  Proof.
    induction l as [|x tl IH]; simpl; [discriminate|].
    intros H; apply bind_Err in H as [H | [y [Hy H]]]; [exists x; auto|].
    apply bind_Err in H as [H | [ys [_ H]]]; [| discriminate].
    apply IH in H as [x' [H1 H2]]; exists x'; auto.
  Qed.

  Lemma mapM_flat_Panic l : mapM_flat f l = Panic -> exists x, In x l /\ f x = Panic.
  Proof.
    induction l as [|x tl IH]; simpl; [discriminate|].
    intros H; apply bind_Panic in H as [H | [y [Hy H]]]; [exists x; auto|].
    apply bind_Panic in H as [H | [ys [_ H]]]; [| discriminate].
    apply IH in H as [x' [H1 H2]]; exists x'; auto.
  Qed.

  Lemma mapM_flat_some_Err l x e lc : (forall y, f y <> Panic) -> In x l -> f x = Err e lc ->
    exists x' e' lc', In x' l /\ f x' = Err e' lc' /\ mapM_flat f l = Err e' lc'.
  Proof.
    intros NP; induction l as [|y tl IH]; intros Hin Hf; [destruct Hin|].
    simpl. destruct (f y) eqn:E.
    - destruct Hin as [-> | Hin]; [congruence|].
      destruct (IH Hin Hf) as [x' [e' [lc' [H1 [H2 H3]]]]]. exists x', e', lc'; split; [now right|]; split; [exact H2 | simpl; now rewrite H3].
    - exists y, e0, l; split; [now left|]; split; [exact E | reflexivity].
    - now apply NP in E.
  Qed.

  Lemma mapM_flat_OK_In l ys : mapM_flat f l = OK ys -> forall x, In x l -> exists y, f x = OK y /\ incl y ys.
  Proof.
    revert ys; induction l as [|x tl IH]; intros ys H x' Hin; [destruct Hin|].
    simpl in H. apply bind_OK in H as [y [Hy H]]. apply bind_OK in H as [ys' [Hys H]]. injection H as <-.
    destruct Hin as [<- | Hin].
    - exists y; split; [exact Hy | now apply incl_appl].
    - destruct (IH _ Hys _ Hin) as [y' [H1 H2]]; exists y'; split; [exact H1 | now apply incl_appr].
  Qed.
End MapMFlat.

(* ------------------------------------------------------------------ stage 1: parse level *)

Inductive item0_bad : item0 -> err -> Prop :=
| ib_rule n r : 0 < n -> item0_bad (IRule n r) EUnexpectedAttr
| ib_macro n m : 0 < n -> item0_bad (IMacro n m) EUnexpectedAttr
| ib_lat d : d_lat d = true -> d_tys d = [] -> item0_bad (IRel d) EEmptyLattice.

Lemma item0_err_spec i e : item0_err i = Some e <-> item0_bad i e.
Proof.
  split.
  - destruct i as [d|n r|n m]; simpl.
    + destruct (d_lat d) eqn:L; simpl; [| discriminate]. destruct (d_tys d) eqn:T; simpl; [| discriminate].
      intros H; injection H as <-; now constructor.
    + destruct (0 <? n) eqn:N; [| discriminate]. intros H; injection H as <-; constructor; now apply Nat.ltb_lt.
    + destruct (0 <? n) eqn:N; [| discriminate]. intros H; injection H as <-; constructor; now apply Nat.ltb_lt.
  - intros H; destruct H as [n r H | n m H | d H1 H2]; simpl.
    + apply Nat.ltb_lt in H; now rewrite H.
    + apply Nat.ltb_lt in H; now rewrite H.
    + now rewrite H1, H2.
Qed.

Lemma item0_err_none i : item0_err i = None <-> forall e, ~ item0_bad i e.
Proof.
  split.
  - intros H e Hb; apply item0_err_spec in Hb; congruence.
  - intros H; destruct (item0_err i) eqn:E; [| reflexivity]. apply item0_err_spec in E; now apply H in E.
Qed.

(* a parse-level violation: at top-level item p (q = 0) or at item q-1 of the source included at p *)
Inductive parse_bad (items : list item) : nat -> nat -> err -> Prop :=
| pb_plain p i e : nth_error items p = Some (IPlain i) -> item0_bad i e -> parse_bad items p 0 e
| pb_incl_attr p n src : nth_error items p = Some (IInclude n src) -> 0 < n -> parse_bad items p 0 EUnexpectedAttr
| pb_src_plain p n src q i e : nth_error items p = Some (IInclude n src) -> nth_error src q = Some (I1Plain i) ->
    item0_bad i e -> parse_bad items p (S q) e
| pb_src_incl_attr p n src q m : nth_error items p = Some (IInclude n src) -> nth_error src q = Some (I1Include m) ->
    0 < m -> parse_bad items p (S q) EUnexpectedAttr
| pb_src_incl p n src q : nth_error items p = Some (IInclude n src) -> nth_error src q = Some (I1Include 0) ->
    parse_bad items p (S q) EIncludeInSource.

(* the same for the body of one source *)
Inductive src_bad (src : list item1) : nat -> err -> Prop :=
| sb_plain q i e : nth_error src q = Some (I1Plain i) -> item0_bad i e -> src_bad src q e
| sb_incl_attr q m : nth_error src q = Some (I1Include m) -> 0 < m -> src_bad src q EUnexpectedAttr
| sb_incl q : nth_error src q = Some (I1Include 0) -> src_bad src q EIncludeInSource.

Lemma src_bad_cons x src q e : src_bad src q e -> src_bad (x :: src) (S q) e.
Proof. intros H; destruct H; [eapply sb_plain | eapply sb_incl_attr | eapply sb_incl]; simpl; eauto. Qed.

Lemma scan_src_no_panic p q src : scan_src p q src <> Panic.
Proof.
  revert q; induction src as [|x tl IH]; intros q; simpl; [discriminate|].
  destruct x as [i|n]; [| discriminate]. destruct (item0_err i); [discriminate|].
  specialize (IH (S q)); destruct (scan_src p (S q) tl); simpl; congruence.
Qed.

Lemma scan_src_sound p q0 src e l : scan_src p q0 src = Err e l -> exists q, l = (1, p, S (q0 + q)) /\ src_bad src q e.
Proof.
  revert q0; induction src as [|x tl IH]; intros q0; simpl; [discriminate|].
  destruct x as [i|n].
  - destruct (item0_err i) eqn:E.
    + intros H; injection H as <- <-. exists 0; rewrite Nat.add_0_r; split; [reflexivity|]. eapply sb_plain; [reflexivity | now apply item0_err_spec].
    + intros H; apply bind_Err in H as [H | [r [_ H]]]; [| discriminate].
      apply IH in H as [q [-> Hb]]. exists (S q); split; [now rewrite Nat.add_succ_r | now apply src_bad_cons].
  - intros H; injection H as <- <-. exists 0; rewrite Nat.add_0_r; split; [reflexivity|].
    destruct (0 <? n) eqn:N; [apply Nat.ltb_lt in N; eapply sb_incl_attr; [reflexivity | exact N]|].
    apply Nat.ltb_ge in N. assert (n = 0) as -> by lia. now apply sb_incl.
Qed.

Definition item1_bad (x : item1) (e : err) : Prop :=
  match x with
  | I1Plain i => item0_bad i e
  | I1Include m => (0 < m /\ e = EUnexpectedAttr) \/ (m = 0 /\ e = EIncludeInSource)
  end.

Lemma src_bad_nth src q e : src_bad src q e <-> exists x, nth_error src q = Some x /\ item1_bad x e.
Proof.
  split.
  - intros H; destruct H as [q i e H Hi | q m H Hm | q H]; eexists; (split; [exact H|]); simpl; auto.
  - intros [x [H Hx]]; destruct x as [i|m]; simpl in Hx.
    + eapply sb_plain; eauto.
    + destruct Hx as [[Hm ->] | [-> ->]]; [eapply sb_incl_attr; eauto | now apply sb_incl].
Qed.

Lemma scan_src_complete p q0 src q e : src_bad src q e ->
  exists e' q', q' <= q /\ scan_src p q0 src = Err e' (1, p, S (q0 + q')).
Proof.
  rewrite src_bad_nth. intros [x [Hn Hx]].
  revert q0 q Hn; induction src as [|y tl IH]; intros q0 q Hn; [destruct q; discriminate|].
  simpl. destruct y as [i|n].
  - destruct (item0_err i) eqn:E; [exists e0, 0; split; [lia | now rewrite Nat.add_0_r]|].
    destruct q as [|q]; simpl in Hn.
    + injection Hn as <-. simpl in Hx. apply item0_err_spec in Hx; congruence.
    + destruct (IH (S q0) q Hn) as [e' [q' [Hle H]]]. exists e', (S q'); split; [lia|].
      rewrite H; simpl. now rewrite Nat.add_succ_r.
  - eexists; exists 0; split; [lia | now rewrite Nat.add_0_r].
Qed.

Lemma scan_src_OK p q src r : scan_src p q src = OK r -> (forall k e, ~ src_bad src k e) /\ src = map I1Plain r.
Proof.
  revert q r; induction src as [|x tl IH]; intros q r; simpl.
  - intros H; injection H as <-; split; [| reflexivity]. intros k e Hb; apply src_bad_nth in Hb as [x [Hn _]]; destruct k; discriminate.
  - destruct x as [i|n]; [| discriminate]. destruct (item0_err i) eqn:E; [discriminate|].
    intros H; apply bind_OK in H as [r' [Hr H]]; injection H as <-. destruct (IH _ _ Hr) as [H1 H2]. split; [| simpl; now rewrite H2].
    intros k e Hb; apply src_bad_nth in Hb as [x [Hn Hx]]. destruct k as [|k]; simpl in Hn.
    + injection Hn as <-; simpl in Hx. apply item0_err_spec in Hx; congruence.
    + apply (H1 k e); apply src_bad_nth; eauto.
Qed.

Definition item_bad (x : item) (q : nat) (e : err) : Prop :=
  match x with
  | IPlain i => q = 0 /\ item0_bad i e
  | IInclude n src => (q = 0 /\ 0 < n /\ e = EUnexpectedAttr) \/ (exists q', q = S q' /\ src_bad src q' e)
  end.

Lemma parse_bad_nth items p q e : parse_bad items p q e <-> exists x, nth_error items p = Some x /\ item_bad x q e.
Proof.
  split.
  - intros H; destruct H; eexists; (split; [eassumption|]); simpl; auto.
    + right; eexists; split; [reflexivity|]; eapply sb_plain; eauto.
    + right; eexists; split; [reflexivity|]; eapply sb_incl_attr; eauto.
    + right; eexists; split; [reflexivity|]; now apply sb_incl.
  - intros [x [Hn Hx]]; destruct x as [i|n src]; simpl in Hx.
    + destruct Hx as [-> Hx]; eapply pb_plain; eauto.
    + destruct Hx as [[-> [Hn' ->]] | [q' [-> Hb]]]; [eapply pb_incl_attr; eauto|].
      destruct Hb; [eapply pb_src_plain | eapply pb_src_incl_attr | eapply pb_src_incl]; eauto.
Qed.

Lemma flatten_no_panic p its : flatten p its <> Panic.
Proof.
  revert p; induction its as [|x tl IH]; intros p; simpl; [discriminate|].
  destruct x as [i|n src].
  - destruct (item0_err i); [discriminate|]. specialize (IH (S p)); destruct (flatten (S p) tl); simpl; congruence.
  - destruct (0 <? n); [discriminate|]. pose proof (scan_src_no_panic p 0 src) as H.
    destruct (scan_src p 0 src); simpl; [| discriminate | congruence].
    specialize (IH (S p)); destruct (flatten (S p) tl); simpl; congruence.
Qed.

Lemma flatten_sound p0 its e l : flatten p0 its = Err e l -> exists p q, l = (1, p0 + p, q) /\ parse_bad its p q e.
Proof.
  revert p0 e l; induction its as [|x tl IH]; intros p0 e l; simpl; [discriminate|].
  assert (Htl : forall e l, flatten (S p0) tl = Err e l -> exists p q, l = (1, p0 + p, q) /\ parse_bad (x :: tl) p q e).
  { intros e' l' H; apply IH in H as [p [q [-> Hb]]]. exists (S p), q; split; [now rewrite Nat.add_succ_r|].
    apply parse_bad_nth in Hb as [y [Hn Hy]]. apply parse_bad_nth; exists y; auto. }
  destruct x as [i|n src].
  - destruct (item0_err i) eqn:E.
    + intros H; injection H as <- <-. exists 0, 0; rewrite Nat.add_0_r; split; [reflexivity|].
      apply parse_bad_nth; eexists; split; [reflexivity|]; simpl; split; [reflexivity | now apply item0_err_spec].
    + intros H; apply bind_Err in H as [H | [r [_ H]]]; [now apply Htl | discriminate].
  - destruct (0 <? n) eqn:N.
    + intros H; injection H as <- <-. exists 0, 0; rewrite Nat.add_0_r; split; [reflexivity|].
      apply parse_bad_nth; eexists; split; [reflexivity|]; simpl; left; apply Nat.ltb_lt in N; auto.
    + intros H; apply bind_Err in H as [H | [s [_ H]]].
      * apply scan_src_sound in H as [q [-> Hb]]. exists 0, (S q); rewrite Nat.add_0_r; split; [reflexivity|].
        apply parse_bad_nth; eexists; split; [reflexivity|]; simpl; right; eauto.
      * apply bind_Err in H as [H | [r [_ H]]]; [now apply Htl | discriminate].
Qed.

Lemma flatten_complete p0 its p q e : parse_bad its p q e ->
  exists e' l', flatten p0 its = Err e' l' /\ loc_le l' (1, p0 + p, q).
Proof.
  rewrite parse_bad_nth; intros [x [Hn Hx]].
  revert p0 p Hn; induction its as [|y tl IH]; intros p0 p Hn; [destruct p; discriminate|].
  assert (Htl : forall p', nth_error tl p' = Some x -> exists e' l', flatten (S p0) tl = Err e' l' /\ loc_le l' (1, p0 + S p', q)).
  { intros p' H; destruct (IH (S p0) p' H) as [e' [l' [H1 H2]]]; exists e', l'; split; [exact H1 | now rewrite Nat.add_succ_r]. }
  simpl. destruct y as [i|n src].
  - destruct (item0_err i) eqn:E.
    + exists e0, (1, p0, 0); split; [reflexivity|]. destruct p as [|p]; [destruct q; [right; now rewrite Nat.add_0_r | left; simpl; right; split; [reflexivity|]; right; split; lia]|].
      left; simpl; right; split; [reflexivity|]; left; lia.
    + destruct p as [|p]; simpl in Hn.
      * injection Hn as <-. simpl in Hx. destruct Hx as [_ Hx]. apply item0_err_spec in Hx; congruence.
      * destruct (Htl p Hn) as [e' [l' [H1 H2]]]. exists e', l'; rewrite H1; simpl; auto.
  - destruct (0 <? n) eqn:N.
    + exists EUnexpectedAttr, (1, p0, 0); split; [reflexivity|]. destruct p as [|p]; [destruct q; [right; now rewrite Nat.add_0_r | left; simpl; right; split; [reflexivity|]; right; split; lia]|].
      left; simpl; right; split; [reflexivity|]; left; lia.
    + destruct p as [|p]; simpl in Hn.
      * injection Hn as <-. simpl in Hx. destruct Hx as [[_ [Hn' _]] | [q' [-> Hb]]]; [apply Nat.ltb_ge in N; lia|].
        destruct (scan_src_complete p0 0 src q' e Hb) as [e' [q'' [Hle H]]]. exists e', (1, p0, S q''); split.
        { rewrite H; reflexivity. }
        rewrite Nat.add_0_r. assert (q'' = q' \/ q'' < q') as [-> | Hlt] by lia; [now right|].
        left; simpl; right; split; [reflexivity|]; right; split; lia.
      * destruct (scan_src p0 0 src) eqn:Es.
        -- destruct (Htl p Hn) as [e' [l' [H1 H2]]]. exists e', l'; simpl; rewrite H1; simpl; auto.
        -- exists e0, l; split; [reflexivity|]. apply scan_src_sound in Es as [q1 [-> _]].
           left; simpl; right; split; [reflexivity|]; left; lia.
        -- now apply scan_src_no_panic in Es.
Qed.

Lemma flatten_OK p its r : flatten p its = OK r -> forall k q e, ~ parse_bad its k q e.
Proof.
  intros H k q e Hb. destruct (flatten_complete p its k q e Hb) as [e' [l' [H1 _]]]. congruence.
Qed.

(* ------------------------------------------------------------------ stage 2: macro expansion *)

Definition invoke_ok (ms : list macrodef) (m : nat) (args : list ident) (body : list (sitem ident)) : Prop :=
  exists d, lookup_macro ms m = Some d /\ length args = m_nparams d /\ params_ok d = true /\ body = subst_body d args.

(* what can be wrong with one invocation m!(args) *)
Inductive invoke_bad (ms : list macrodef) (m : nat) (args : list ident) : err -> Prop :=
| ivb_undefined : lookup_macro ms m = None -> invoke_bad ms m args EUndefinedMacro
| ivb_args d : lookup_macro ms m = Some d -> length args <> m_nparams d -> invoke_bad ms m args EMacroArgs
| ivb_syntax d : lookup_macro ms m = Some d -> length args = m_nparams d -> params_ok d = false -> invoke_bad ms m args EMacroSyntax.

Lemma invoke_macro_OK ms l m args body : invoke_macro ms l m args = OK body <-> invoke_ok ms m args body.
Proof.
  unfold invoke_macro, invoke_ok. destruct (lookup_macro ms m) as [d|]; [| split; [discriminate | intros [d [H _]]; discriminate]].
  destruct (length args =? m_nparams d) eqn:L; simpl.
  - apply Nat.eqb_eq in L. destruct (params_ok d) eqn:K; simpl.
    + split; [intros H; injection H as <-; exists d; auto | intros [d' [H [_ [_ ->]]]]; injection H as <-; reflexivity].
    + split; [discriminate | intros [d' [H [_ [H' _]]]]; injection H as <-; congruence].
  - apply Nat.eqb_neq in L. split; [discriminate | intros [d' [H [H' _]]]; injection H as <-; congruence].
Qed.

Lemma invoke_macro_Err ms l m args e l' : invoke_macro ms l m args = Err e l' -> l' = l /\ invoke_bad ms m args e.
Proof.
  unfold invoke_macro. destruct (lookup_macro ms m) as [d|] eqn:E.
  - destruct (length args =? m_nparams d) eqn:L; simpl.
    + apply Nat.eqb_eq in L. destruct (params_ok d) eqn:K; simpl; [discriminate|].
      intros H; injection H as <- <-; split; [reflexivity | eapply ivb_syntax; eauto].
    + apply Nat.eqb_neq in L. intros H; injection H as <- <-; split; [reflexivity | eapply ivb_args; eauto].
  - intros H; injection H as <- <-; split; [reflexivity | now constructor].
Qed.

Lemma invoke_bad_Err ms l m args e : invoke_bad ms m args e -> invoke_macro ms l m args = Err e l.
Proof.
  intros H; unfold invoke_macro; destruct H as [H | d H1 H2 | d H1 H2 H3]; rewrite ?H, ?H1; [reflexivity | |].
  - apply Nat.eqb_neq in H2; now rewrite H2.
  - apply Nat.eqb_eq in H2; rewrite H2; simpl; now rewrite H3.
Qed.

Lemma invoke_macro_no_panic ms l m args : invoke_macro ms l m args <> Panic.
Proof.
  unfold invoke_macro. destruct (lookup_macro ms m); [| discriminate].
  destruct (negb _); [discriminate|]. destruct (negb _); discriminate.
Qed.

(* the expansion of an item with nesting budget [fuel] meets a violation of class e *)
Inductive bad_item (ms : list macrodef) : nat -> err -> sitem ident -> Prop :=
| bi_depth it : bad_item ms 0 ERecursiveMacro it
| bi_call f m args e : invoke_bad ms m args e -> bad_item ms (S f) e (SCall m args)
| bi_nested f m args body it' e : invoke_ok ms m args body -> In it' body -> bad_item ms f e it' ->
    bad_item ms (S f) e (SCall m args).

Inductive bad_hitem (ms : list macrodef) : nat -> err -> hitem ident -> Prop :=
| bh_depth h : bad_hitem ms 0 ERecursiveMacro h
| bh_call f m args e : invoke_bad ms m args e -> bad_hitem ms (S f) e (HCall m args)
| bh_syntax f m args body : invoke_ok ms m args body -> to_heads body = None -> bad_hitem ms (S f) EMacroSyntax (HCall m args)
| bh_nested f m args body hs h' e : invoke_ok ms m args body -> to_heads body = Some hs -> In h' hs -> bad_hitem ms f e h' ->
    bad_hitem ms (S f) e (HCall m args).

Lemma expand_item_no_panic ms l fuel it : expand_item ms l fuel it <> Panic.
Proof.
  revert it; induction fuel as [|f IH]; intros it; simpl; [discriminate|].
  destruct it; try discriminate.
  intros H; apply bind_Panic in H as [H | [body [_ H]]]; [now apply invoke_macro_no_panic in H|].
  apply mapM_flat_Panic in H as [x [_ H]]. now apply IH in H.
Qed.

Lemma expand_item_sound ms l fuel it e l' : expand_item ms l fuel it = Err e l' -> l' = l /\ bad_item ms fuel e it.
Proof.
  revert it; induction fuel as [|f IH]; intros it; simpl.
  - intros H; injection H as <- <-; split; [reflexivity | constructor].
  - destruct it; try discriminate.
    intros H; apply bind_Err in H as [H | [body [Hb H]]].
    + apply invoke_macro_Err in H as [-> H]; split; [reflexivity | now apply bi_call].
    + apply mapM_flat_Err in H as [x [Hx H]]. apply IH in H as [-> H]; split; [reflexivity|].
      eapply bi_nested; eauto. now apply invoke_macro_OK in Hb.
Qed.

Lemma expand_item_complete ms l fuel it e : bad_item ms fuel e it -> exists e', expand_item ms l fuel it = Err e' l.
Proof.
  revert it e; induction fuel as [|f IH]; intros it e H.
  - exists ERecursiveMacro; reflexivity.
  - inversion H as [| f' m args e' Hb | f' m args body it' e' Hok Hin Hbad]; subst; simpl.
    + exists e; now rewrite (invoke_bad_Err ms l m args e Hb).
    + apply (invoke_macro_OK ms l) in Hok. rewrite Hok; simpl.
      destruct (IH _ _ Hbad) as [e' He'].
      destruct (mapM_flat_some_Err (expand_item ms l f) body it' e' l (expand_item_no_panic ms l f) Hin He') as [x' [e'' [lc' [H1 [H2 H3]]]]].
      apply expand_item_sound in H2 as [-> _]. eauto.
Qed.

Lemma expand_hitem_no_panic ms l fuel h : expand_hitem ms l fuel h <> Panic.
Proof.
  revert h; induction fuel as [|f IH]; intros h; simpl; [discriminate|].
  destruct h; try discriminate.
  intros H; apply bind_Panic in H as [H | [body [_ H]]]; [now apply invoke_macro_no_panic in H|].
  destruct (to_heads body); [| discriminate].
  apply mapM_flat_Panic in H as [x [_ H]]. now apply IH in H.
Qed.

Lemma expand_hitem_sound ms l fuel h e l' : expand_hitem ms l fuel h = Err e l' -> l' = l /\ bad_hitem ms fuel e h.
Proof.
  revert h; induction fuel as [|f IH]; intros h; simpl.
  - intros H; injection H as <- <-; split; [reflexivity | constructor].
  - destruct h; try discriminate.
    intros H; apply bind_Err in H as [H | [body [Hb H]]].
    + apply invoke_macro_Err in H as [-> H]; split; [reflexivity | now apply bh_call].
    + apply invoke_macro_OK in Hb. destruct (to_heads body) as [hs|] eqn:T.
      * apply mapM_flat_Err in H as [x [Hx H]]. apply IH in H as [-> H]; split; [reflexivity|]. eapply bh_nested; eauto.
      * injection H as <- <-; split; [reflexivity | eapply bh_syntax; eauto].
Qed.

Lemma expand_hitem_complete ms l fuel h e : bad_hitem ms fuel e h -> exists e', expand_hitem ms l fuel h = Err e' l.
Proof.
  revert h e; induction fuel as [|f IH]; intros h e H.
  - exists ERecursiveMacro; reflexivity.
  - inversion H as [| f' m args e' Hb | f' m args body Hok Hs | f' m args body hs h' e' Hok Hs Hin Hbad]; subst; simpl.
    + exists e; now rewrite (invoke_bad_Err ms l m args e Hb).
    + apply (invoke_macro_OK ms l) in Hok. rewrite Hok; simpl. rewrite Hs. eauto.
    + apply (invoke_macro_OK ms l) in Hok. rewrite Hok; simpl. rewrite Hs.
      destruct (IH _ _ Hbad) as [e' He'].
      destruct (mapM_flat_some_Err (expand_hitem ms l f) hs h' e' l (expand_hitem_no_panic ms l f) Hin He') as [x' [e'' [lc' [H1 [H2 H3]]]]].
      apply expand_hitem_sound in H2 as [-> _]. eauto.
Qed.

(* rule r exhibits a macro-expansion violation of class e *)
Definition rule_macro_bad (ms : list macrodef) (r : srule) (e : err) : Prop :=
  (exists it, In it (s_body r) /\ bad_item ms macro_depth e it) \/ (exists h, In h (s_heads r) /\ bad_hitem ms macro_depth e h).

Lemma expand_rule_no_panic ms ri r : expand_rule ms ri r <> Panic.
Proof.
  unfold expand_rule. intros H; apply bind_Panic in H as [H | [b [_ H]]].
  - apply mapM_flat_Panic in H as [x [_ H]]; now apply expand_item_no_panic in H.
  - apply bind_Panic in H as [H | [h [_ H]]]; [| discriminate].
    apply mapM_flat_Panic in H as [x [_ H]]; now apply expand_hitem_no_panic in H.
Qed.

Lemma expand_rule_sound ms ri r e l : expand_rule ms ri r = Err e l -> l = (2, ri, 0) /\ rule_macro_bad ms r e.
Proof.
  unfold expand_rule. intros H; apply bind_Err in H as [H | [b [_ H]]].
  - apply mapM_flat_Err in H as [x [Hx H]]. apply expand_item_sound in H as [-> H]. split; [reflexivity | left; eauto].
  - apply bind_Err in H as [H | [h [_ H]]]; [| discriminate].
    apply mapM_flat_Err in H as [x [Hx H]]. apply expand_hitem_sound in H as [-> H]. split; [reflexivity | right; eauto].
Qed.

Lemma expand_rule_complete ms ri r e : rule_macro_bad ms r e -> exists e', expand_rule ms ri r = Err e' (2, ri, 0).
Proof.
  unfold expand_rule. intros [[it [Hin Hb]] | [h [Hin Hb]]].
  - destruct (expand_item_complete ms (2, ri, 0) _ _ _ Hb) as [e' He'].
    destruct (mapM_flat_some_Err _ _ it e' _ (expand_item_no_panic ms (2, ri, 0) macro_depth) Hin He') as [x' [e'' [lc' [H1 [H2 H3]]]]].
    apply expand_item_sound in H2 as [-> _]. rewrite H3; cbn [bind]; eauto.
  - destruct (mapM_flat (expand_item ms (2, ri, 0) macro_depth) (s_body r)) eqn:Eb; cbn [bind].
    + destruct (expand_hitem_complete ms (2, ri, 0) _ _ _ Hb) as [e' He'].
      destruct (mapM_flat_some_Err _ _ h e' _ (expand_hitem_no_panic ms (2, ri, 0) macro_depth) Hin He') as [x' [e'' [lc' [H1 [H2 H3]]]]].
      apply expand_hitem_sound in H2 as [-> _]. rewrite H3; cbn [bind]; eauto.
    + apply mapM_flat_Err in Eb as [x [_ Hx]]. apply expand_item_sound in Hx as [-> _]. eauto.
    + apply mapM_flat_Panic in Eb as [x [_ Hx]]. now apply expand_item_no_panic in Hx.
Qed.

(* a set S of macros each of which (is well formed and) invokes a macro of S again: self-referential, directly or
   through a cycle.  Invoking one of them is a violation for every nesting budget. *)
Definition self_referential (ms : list macrodef) (S : nat -> Prop) : Prop :=
  forall m, S m -> exists d m' pargs, lookup_macro ms m = Some d /\ params_ok d = true /\
    In (SCall m' pargs) (m_body d) /\ S m' /\
    exists d', lookup_macro ms m' = Some d' /\ length pargs = m_nparams d'.

Lemma self_referential_bad ms S : self_referential ms S ->
  forall fuel m args d, S m -> lookup_macro ms m = Some d -> length args = m_nparams d ->
  bad_item ms fuel ERecursiveMacro (SCall m args).
Proof.
  intros HS; induction fuel as [|f IH]; intros m args d Hm Hd Hl; [constructor|].
  destruct (HS m Hm) as [d0 [m' [pargs [Hd0 [Hok [Hin [Hm' [d' [Hd' Hl']]]]]]]]].
  rewrite Hd in Hd0; injection Hd0 as <-.
  eapply bi_nested with (body := subst_body d args) (it' := SCall m' (map (fun j => nth j args expr_replaced) pargs)).
  - exists d; auto.
  - unfold subst_body. apply in_map_iff. exists (SCall m' pargs); split; [reflexivity | exact Hin].
  - eapply IH; eauto. now rewrite map_length.
Qed.

(* ------------------------------------------------------------------ stage 3: rules against the declarations *)

(* the last declaration of a name wins *)
Lemma lookup_rel_app ds1 ds2 r : lookup_rel (ds1 ++ ds2) r = match lookup_rel ds2 r with Some d => Some d | None => lookup_rel ds1 r end.
Proof.
  induction ds1 as [|d tl IH]; simpl; [now destruct (lookup_rel ds2 r)|].
  rewrite IH. destruct (lookup_rel ds2 r); [reflexivity|]. reflexivity.
Qed.

Lemma lookup_rel_last ds d ds' r : d_name d = r -> (forall d', In d' ds' -> d_name d' <> r) -> lookup_rel (ds ++ d :: ds') r = Some d.
Proof.
  intros Hn Hlater. rewrite lookup_rel_app. simpl.
  assert (lookup_rel ds' r = None) as ->.
  { induction ds' as [|x tl IH]; simpl; [reflexivity|]. rewrite IH by (intros; apply Hlater; now right).
    specialize (Hlater x (or_introl eq_refl)). apply Nat.eqb_neq in Hlater. now rewrite Hlater. }
  now rewrite (proj2 (Nat.eqb_eq _ _) Hn).
Qed.

Lemma lookup_rel_None ds r : lookup_rel ds r = None <-> forall d, In d ds -> d_name d <> r.
Proof.
  induction ds as [|x tl IH]; simpl; [split; [intros _ d [] | reflexivity]|].
  destruct (lookup_rel tl r) eqn:E.
  - split; [discriminate|]. intros H. assert (Some d = None) by (apply IH; intros; apply H; now right). discriminate.
  - destruct (d_name x =? r) eqn:N.
    + apply Nat.eqb_eq in N. split; [discriminate | intros H; exfalso; now apply (H x (or_introl eq_refl))].
    + apply Nat.eqb_neq in N. split; [| reflexivity]. intros _ d [<- | Hd]; [exact N | now apply (proj1 IH eq_refl)].
Qed.

Lemma lookup_rel_Some ds r d : lookup_rel ds r = Some d -> In d ds /\ d_name d = r.
Proof.
  induction ds as [|x tl IH]; simpl; [discriminate|].
  destruct (lookup_rel tl r) eqn:E.
  - intros H; injection H as <-. destruct (IH eq_refl); auto.
  - destruct (d_name x =? r) eqn:N; [| discriminate]. intros H; injection H as <-. apply Nat.eqb_eq in N; auto.
Qed.

Inductive event_bad (ds : list decl) (evs : list event) : nat -> err -> Prop :=
| eb_undeclared ei rel n : nth_error evs ei = Some (EvRel rel n) -> lookup_rel ds rel = None ->
    event_bad ds evs ei (EUndeclared rel)
| eb_arity ei rel n d : nth_error evs ei = Some (EvRel rel n) -> lookup_rel ds rel = Some d -> length (d_tys d) <> n ->
    event_bad ds evs ei (EArity rel (length (d_tys d)) n)
| eb_shadow ei x : nth_error evs ei = Some (EvBind x) -> In x (event_vars (firstn ei evs)) ->
    event_bad ds evs ei (EShadow x)
| eb_aggvar ei x rel : nth_error evs ei = Some (EvAggMissing x rel) -> event_bad ds evs ei (EAggVar x rel).

Lemma event_vars_app a b : event_vars (a ++ b) = event_vars a ++ event_vars b.
Proof. unfold event_vars; apply flat_map_app. Qed.

Lemma firstn_length_app {A} (a b : list A) : firstn (length a) (a ++ b) = a.
Proof. induction a; simpl; [now destruct b | now f_equal]. Qed.

Lemma nth_error_length_app {A} (a : list A) x b : nth_error (a ++ x :: b) (length a) = Some x.
Proof. induction a; simpl; auto. Qed.

Lemma scan_events_no_panic ds ri k g evs : scan_events ds ri k g evs <> Panic.
Proof.
  revert k g; induction evs as [|ev tl IH]; intros k g; simpl; [discriminate|].
  destruct ev as [x|x|r n|x r]; [apply IH | destruct (mem x g); [discriminate | apply IH] | | discriminate].
  destruct (lookup_rel ds r); [| discriminate]. destruct (_ =? _); [apply IH | discriminate].
Qed.

Lemma scan_events_sound ds ri pre evs g e l :
  (forall x, In x g <-> In x (event_vars pre)) ->
  scan_events ds ri (length pre) g evs = Err e l -> exists ei, l = (3, ri, ei) /\ event_bad ds (pre ++ evs) ei e.
Proof.
  revert pre g; induction evs as [|ev tl IH]; intros pre g Hg; simpl; [discriminate|].
  assert (Hstep : forall g', (forall x, In x g' <-> In x (event_vars (pre ++ [ev]))) ->
            scan_events ds ri (S (length pre)) g' tl = Err e l -> exists ei, l = (3, ri, ei) /\ event_bad ds (pre ++ ev :: tl) ei e).
  { intros g' Hg' H. replace (S (length pre)) with (length (pre ++ [ev])) in H by (rewrite app_length; simpl; lia).
    destruct (IH _ _ Hg' H) as [ei [-> Hb]]. exists ei; split; [reflexivity|]. now rewrite <- app_assoc in Hb. }
  destruct ev as [x|x|r n|x r]; [| | | intros H; injection H as <- <-; exists (length pre); split; [reflexivity | apply eb_aggvar; apply nth_error_length_app]].
  - apply Hstep. intros y; rewrite event_vars_app; simpl. rewrite in_app_iff; simpl. rewrite <- Hg. tauto.
  - destruct (mem x g) eqn:M.
    + intros H; injection H as <- <-. exists (length pre); split; [reflexivity|].
      apply eb_shadow; [apply nth_error_length_app|]. rewrite firstn_length_app. apply Hg. now apply mem_In.
    + apply Hstep. intros y; rewrite event_vars_app; simpl. rewrite in_app_iff; simpl. rewrite <- Hg. tauto.
  - destruct (lookup_rel ds r) as [d|] eqn:L.
    + destruct (length (d_tys d) =? n) eqn:N.
      * apply Hstep. intros y; rewrite event_vars_app; simpl. rewrite app_nil_r. apply Hg.
      * intros H; injection H as <- <-. exists (length pre); split; [reflexivity|].
        apply Nat.eqb_neq in N. eapply eb_arity; eauto. apply nth_error_length_app.
    + intros H; injection H as <- <-. exists (length pre); split; [reflexivity|].
      eapply eb_undeclared; eauto. apply nth_error_length_app.
Qed.

Lemma scan_events_complete ds ri pre evs g ei e :
  (forall x, In x g <-> In x (event_vars pre)) -> length pre <= ei -> event_bad ds (pre ++ evs) ei e ->
  exists e' ei', ei' <= ei /\ scan_events ds ri (length pre) g evs = Err e' (3, ri, ei').
Proof.
  revert pre g; induction evs as [|ev tl IH]; intros pre g Hg Hle Hb.
  - exfalso. rewrite app_nil_r in Hb. assert (nth_error pre ei = None) by now apply nth_error_None.
    destruct Hb; congruence.
  - assert (Hstep : forall g', (forall x, In x g' <-> In x (event_vars (pre ++ [ev]))) -> length pre <> ei ->
              exists e' ei', ei' <= ei /\ scan_events ds ri (S (length pre)) g' tl = Err e' (3, ri, ei')).
    { intros g' Hg' Hne. replace (S (length pre)) with (length (pre ++ [ev])) by (rewrite app_length; simpl; lia).
      apply IH; [exact Hg' | rewrite app_length; simpl; lia | now rewrite <- app_assoc]. }
    assert (Hhere : length pre = ei -> nth_error (pre ++ ev :: tl) ei = Some ev) by (intros <-; apply nth_error_length_app).
    simpl. destruct ev as [x|x|r n|x r]; [| | | eexists; exists (length pre); split; [exact Hle | reflexivity]].
    + apply Hstep.
      * intros y; rewrite event_vars_app; simpl. rewrite in_app_iff; simpl. rewrite <- Hg. tauto.
      * intros Heq. specialize (Hhere Heq). destruct Hb; congruence.
    + destruct (mem x g) eqn:M; [exists (EShadow x), (length pre); split; [exact Hle | reflexivity]|].
      apply Hstep.
      * intros y; rewrite event_vars_app; simpl. rewrite in_app_iff; simpl. rewrite <- Hg. tauto.
      * intros Heq. specialize (Hhere Heq). destruct Hb as [ei r n H1 _ | ei r n d H1 _ _ | ei y H1 H2 | ei y r H1]; try congruence.
        rewrite Hhere in H1; injection H1 as <-. subst ei. rewrite firstn_length_app in H2. apply Hg in H2. apply mem_In in H2; congruence.
    + destruct (lookup_rel ds r) as [d|] eqn:L.
      * destruct (length (d_tys d) =? n) eqn:N; [| eexists; exists (length pre); split; [exact Hle | reflexivity]].
        apply Hstep.
        -- intros y; rewrite event_vars_app; simpl. rewrite app_nil_r. apply Hg.
        -- intros Heq. specialize (Hhere Heq). apply Nat.eqb_eq in N.
           destruct Hb as [ei r' n' H1 H2 | ei r' n' d' H1 H2 H3 | ei y H1 H2 | ei y r' H1]; rewrite Hhere in H1; try discriminate;
             injection H1 as <- <-; congruence.
      * eexists; exists (length pre); split; [exact Hle | reflexivity].
Qed.

(* ------------------------------------------------------------------ stage 4: program attributes *)

Inductive attrs_bad (attrs : list pattr) (k : mkind) : nat -> err -> Prop :=
| ab_unknown : In PUnknown attrs -> attrs_bad attrs k 0 EUnknownAttr
| ab_irp : In PInterRuleParallelism attrs -> is_par k = false -> attrs_bad attrs k 1 EInterRuleSerial
| ab_ds : 2 <= length (filter is_pds attrs) -> attrs_bad attrs k 2 EMultipleDsProg.

Lemma existsb_is_unknown attrs : existsb is_unknown attrs = true <-> In PUnknown attrs.
Proof.
  rewrite existsb_exists; split; [intros [a [H1 H2]]; destruct a; try discriminate; exact H1 | intros H; exists PUnknown; auto].
Qed.
Lemma existsb_is_irp attrs : existsb is_irp attrs = true <-> In PInterRuleParallelism attrs.
Proof.
  rewrite existsb_exists; split; [intros [a [H1 H2]]; destruct a; try discriminate; exact H1 | intros H; exists PInterRuleParallelism; auto].
Qed.

Lemma check_attrs_no_panic attrs k : check_attrs attrs k <> Panic.
Proof. unfold check_attrs. destruct (existsb is_unknown attrs); [discriminate|]. destruct (_ && _); [discriminate|]. destruct (_ <=? _); discriminate. Qed.

Lemma check_attrs_sound attrs k e l : check_attrs attrs k = Err e l -> exists j, l = (4, j, 0) /\ attrs_bad attrs k j e.
Proof.
  unfold check_attrs. destruct (existsb is_unknown attrs) eqn:U.
  - intros H; injection H as <- <-. exists 0; split; [reflexivity|]. constructor. now apply existsb_is_unknown.
  - destruct (existsb is_irp attrs && negb (is_par k)) eqn:I.
    + intros H; injection H as <- <-. exists 1; split; [reflexivity|]. apply andb_true_iff in I as [I1 I2].
      constructor; [now apply existsb_is_irp | now destruct (is_par k)].
    + destruct (2 <=? length (filter is_pds attrs)) eqn:D; [| discriminate].
      intros H; injection H as <- <-. exists 2; split; [reflexivity|]. constructor. now apply Nat.leb_le.
Qed.

Lemma check_attrs_complete attrs k j e : attrs_bad attrs k j e -> exists e' j', j' <= j /\ check_attrs attrs k = Err e' (4, j', 0).
Proof.
  intros H. unfold check_attrs. destruct (existsb is_unknown attrs) eqn:U; [exists EUnknownAttr, 0; split; [lia | reflexivity]|].
  destruct H as [H | H1 H2 | H].
  - apply existsb_is_unknown in H; congruence.
  - apply existsb_is_irp in H1. rewrite H1, H2. exists EInterRuleSerial, 1; split; [lia | reflexivity].
  - destruct (existsb is_irp attrs && negb (is_par k)); [exists EInterRuleSerial, 1; split; [lia | reflexivity]|].
    apply Nat.leb_le in H; rewrite H. exists EMultipleDsProg, 2; split; [lia | reflexivity].
Qed.

(* ------------------------------------------------------------------ stage 5: relation attributes *)

Inductive decl_bad (d : decl) : nat -> err -> Prop :=
| db_multi : 2 <= length (filter is_rds (d_attrs d)) -> decl_bad d 0 (EMultipleDs (d_name d))
| db_lat : d_lat d = true -> 1 <= length (filter is_rds (d_attrs d)) -> decl_bad d 1 (EDsOnLattice (d_name d)).

Lemma check_decl_no_panic di d : check_decl di d <> Panic.
Proof. unfold check_decl. destruct (_ <=? _); [discriminate|]. destruct (_ && _); discriminate. Qed.

Lemma check_decl_sound di d e l : check_decl di d = Err e l -> exists j, l = (5, di, j) /\ decl_bad d j e.
Proof.
  unfold check_decl. destruct (2 <=? _) eqn:M.
  - intros H; injection H as <- <-. exists 0; split; [reflexivity|]. constructor. now apply Nat.leb_le.
  - destruct (d_lat d && (1 <=? _)) eqn:L; [| discriminate].
    intros H; injection H as <- <-. exists 1; split; [reflexivity|]. apply andb_true_iff in L as [L1 L2].
    constructor; [exact L1 | now apply Nat.leb_le].
Qed.

Lemma check_decl_complete di d j e : decl_bad d j e -> exists e' j', j' <= j /\ check_decl di d = Err e' (5, di, j').
Proof.
  intros H. unfold check_decl. destruct (2 <=? _) eqn:M; [eexists; exists 0; split; [lia | reflexivity]|].
  destruct H as [H | H1 H2]; [apply Nat.leb_le in H; congruence|].
  apply Nat.leb_le in H2. rewrite H1, H2. simpl. eexists; exists 1; split; [lia | reflexivity].
Qed.

(* the declarations the macro keeps: those not followed by a declaration of the same identity *)
Lemma dedup_last_In ds d : In d (dedup_last ds) <->
  exists a b, ds = a ++ d :: b /\ existsb (same_identity d) b = false.
Proof.
  induction ds as [|x tl IH]; simpl.
  - split; [intros [] | intros [a [b [H _]]]; destruct a; discriminate].
  - destruct (existsb (same_identity x) tl) eqn:E.
    + rewrite IH; split.
      * intros [a [b [-> H]]]; exists (x :: a), b; auto.
      * intros [a [b [H1 H2]]]. destruct a as [|y a]; simpl in H1; injection H1 as <- ->; [congruence | eauto].
    + simpl; rewrite IH; split.
      * intros [<- | [a [b [-> H]]]]; [exists [], tl; auto | exists (x :: a), b; auto].
      * intros [a [b [H1 H2]]]. destruct a as [|y a]; simpl in H1; injection H1 as <- ->; [now left | right; eauto].
Qed.

(* ------------------------------------------------------------------ stage 6: stratification *)

(* rule i derives a relation that rule j reads (in a clause, an aggregate or a negation) *)
Definition feeds (rs : list crule) (i j : nat) : Prop :=
  exists ri rj rel, nth_error rs i = Some ri /\ nth_error rs j = Some rj /\ In rel (head_rels ri) /\ In rel (body_rels rj).

Lemma nth_error_nth_empty rs i r : nth_error rs i = Some r -> nth i rs empty_rule = r.
Proof. revert i; induction rs; intros [|i]; simpl; try discriminate; [now intros [= ->] | auto]. Qed.

Lemma nth_empty_out rs i : length rs <= i -> nth i rs empty_rule = empty_rule.
Proof. intros; now apply nth_overflow. Qed.

Lemma edge_feeds rs i j : edge rs i j = true <-> feeds rs i j.
Proof.
  unfold edge, feeds; rewrite existsb_exists; split.
  - intros [h [H1 H2]]. apply memn_In in H2.
    destruct (nth_error rs i) as [ri|] eqn:Ei.
    + destruct (nth_error rs j) as [rj|] eqn:Ej.
      * rewrite (nth_error_nth_empty _ _ _ Ei) in H1. rewrite (nth_error_nth_empty _ _ _ Ej) in H2. exists ri, rj, h; auto.
      * apply nth_error_None in Ej. rewrite (nth_empty_out _ _ Ej) in H2. destruct H2.
    + apply nth_error_None in Ei. rewrite (nth_empty_out _ _ Ei) in H1. destruct H1.
  - intros [ri [rj [rel [Hi [Hj [H1 H2]]]]]]. exists rel.
    rewrite (nth_error_nth_empty _ _ _ Hi), (nth_error_nth_empty _ _ _ Hj). split; [exact H1 | now apply memn_In].
Qed.

Lemma feeds_bound rs i j : feeds rs i j -> i < length rs /\ j < length rs.
Proof. intros [ri [rj [rel [Hi [Hj _]]]]]. split; apply nth_error_Some; congruence. Qed.

Lemma succs_In rs i j : In j (succs rs i) <-> feeds rs i j.
Proof.
  unfold succs; rewrite filter_In, in_seq, edge_feeds. split; [tauto|]. intros H; split; [| exact H]. apply feeds_bound in H; lia.
Qed.

Fixpoint is_path (rs : list crule) (i : nat) (p : list nat) (b : nat) : Prop :=
  match p with
  | [] => i = b
  | x :: q => feeds rs i x /\ is_path rs x q b
  end.

Lemma rtc_path rs i b : clos_refl_trans nat (feeds rs) i b <-> exists p, is_path rs i p b.
Proof.
  split.
  - intros H; apply clos_rt_rt1n in H. induction H as [i | i x b Hf _ [p Hp]]; [exists []; reflexivity | exists (x :: p); simpl; auto].
  - intros [p Hp]; revert i Hp; induction p as [|x q IH]; intros i Hp; simpl in Hp; [subst; apply rt_refl|].
    destruct Hp as [Hf Hq]. eapply rt_trans; [apply rt_step; exact Hf | now apply IH].
Qed.

Lemma is_path_app rs i p1 x p2 b : is_path rs i (p1 ++ x :: p2) b -> is_path rs x p2 b.
Proof. revert i; induction p1 as [|y q IH]; intros i; simpl; [tauto | intros [_ H]; eauto]. Qed.

Lemma is_path_bound rs i p b : is_path rs i p b -> forall x, In x p -> x < length rs.
Proof.
  revert i; induction p as [|y q IH]; intros i H x Hx; [destruct Hx|].
  simpl in H; destruct H as [Hf Hq]. destruct Hx as [<- | Hx]; [now apply feeds_bound in Hf | eauto].
Qed.

(* a path can be shortened to one that visits no rule twice *)
Lemma is_path_simple rs : forall n i p b, length p <= n -> is_path rs i p b ->
  exists p', is_path rs i p' b /\ NoDup (i :: p') /\ incl p' p.
Proof.
  induction n as [|n IH]; intros i p b Hlen Hp.
  - destruct p; [| simpl in Hlen; lia]. exists []; split; [exact Hp|]. split; [constructor; [intros [] | constructor] | apply incl_refl].
  - destruct p as [|x q]; [exists []; split; [exact Hp|]; split; [constructor; [intros [] | constructor] | apply incl_refl]|].
    destruct (in_dec Nat.eq_dec i (x :: q)) as [Hin | Hnin].
    + apply in_split in Hin as [p1 [p2 Heq]]. rewrite Heq in Hp. apply is_path_app in Hp.
      assert (Hl2 : length p2 <= n). { apply (f_equal (@length nat)) in Heq. rewrite app_length in Heq. simpl in Heq, Hlen. lia. }
      destruct (IH i p2 b Hl2 Hp) as [p' [H1 [H2 H3]]]. exists p'; split; [exact H1|]; split; [exact H2|].
      rewrite Heq. intros y Hy. apply in_or_app; right; right; auto.
    + simpl in Hp; destruct Hp as [Hf Hq]. simpl in Hlen.
      destruct (IH x q b ltac:(lia) Hq) as [q' [H1 [H2 H3]]].
      exists (x :: q'); split; [simpl; auto|]. split.
      * constructor; [| exact H2]. intros [-> | Hy]; [apply Hnin; now left | apply Hnin; right; auto].
      * intros y [<- | Hy]; [now left | right; auto].
Qed.

Lemma reach_mono rs n i b : In b (reach rs n i) -> In b (reach rs (S n) i).
Proof. intros H; simpl. apply nodup_In. apply in_or_app; now left. Qed.

Lemma reach_mono_le rs n m i b : n <= m -> In b (reach rs n i) -> In b (reach rs m i).
Proof. induction 1; [auto | intros; apply reach_mono; auto]. Qed.

Lemma reach_step rs n i x b : In x (reach rs n i) -> feeds rs x b -> In b (reach rs (S n) i).
Proof.
  intros Hx Hf; simpl. apply nodup_In. apply in_or_app; right. apply in_flat_map. exists x; split; [exact Hx | now apply succs_In].
Qed.

Lemma reach_path rs i p b : is_path rs i p b -> forall n x, In i (reach rs n x) -> In b (reach rs (n + length p) x).
Proof.
  revert i; induction p as [|y q IH]; intros i Hp n x Hi; simpl in Hp.
  - subst; simpl; now rewrite Nat.add_0_r.
  - destruct Hp as [Hf Hq]. simpl. rewrite Nat.add_succ_r. apply (IH y Hq (S n) x). eapply reach_step; eauto.
Qed.

Lemma reach_sound rs n i b : In b (reach rs n i) -> clos_refl_trans nat (feeds rs) i b.
Proof.
  revert b; induction n as [|n IH]; intros b; simpl.
  - intros [<- | []]; apply rt_refl.
  - rewrite nodup_In, in_app_iff, in_flat_map. intros [H | [x [Hx Hs]]]; [auto|].
    apply succs_In in Hs. eapply rt_trans; [apply IH; exact Hx | now apply rt_step].
Qed.

Lemma reach_complete rs i b : clos_refl_trans nat (feeds rs) i b -> In b (reach rs (length rs) i).
Proof.
  intros H; apply rtc_path in H as [p Hp].
  destruct (is_path_simple rs (length p) i p b (le_n _) Hp) as [p' [H1 [H2 H3]]].
  assert (Hlen : length p' <= length rs).
  { destruct p' as [|y q]; [simpl; lia|].
    assert (Hi : i < length rs) by (simpl in H1; destruct H1 as [Hf _]; now apply feeds_bound in Hf).
    assert (Hincl : incl (i :: y :: q) (seq 0 (length rs))).
    { intros z [<- | Hz]; apply in_seq; [lia|]. pose proof (is_path_bound _ _ _ _ H1 z Hz). lia. }
    pose proof (NoDup_incl_length H2 Hincl) as Hl. rewrite seq_length in Hl. simpl in Hl |- *. lia. }
  apply (reach_mono_le rs (0 + length p')); [simpl; exact Hlen|].
  apply (reach_path rs i p' b H1 0 i). simpl; now left.
Qed.

(* rule a aggregates (or negates) relation rel, and a rule that a feeds — directly, through other rules, or a itself —
   derives rel: the aggregate sits in the recursive stratum of the relation it aggregates *)
Inductive strat_bad (rs : list crule) (a rel : nat) : Prop :=
| strat_bad_intro ra b rb : nth_error rs a = Some ra -> In rel (agg_rels ra) -> clos_refl_trans nat (feeds rs) a b ->
    nth_error rs b = Some rb -> In rel (head_rels rb) -> strat_bad rs a rel.

Lemma strat_bad_of_spec rs a rel : a < length rs -> (In rel (strat_bad_of rs a) <-> strat_bad rs a rel).
Proof.
  intros Ha. unfold strat_bad_of. rewrite filter_In, existsb_exists.
  destruct (nth_error rs a) as [ra|] eqn:Ea; [| apply nth_error_None in Ea; lia].
  rewrite (nth_error_nth_empty _ _ _ Ea). split.
  - intros [Hagg [b [Hb Hp]]]. unfold produces in Hp. apply memn_In in Hp.
    destruct (nth_error rs b) as [rb|] eqn:Eb.
    + rewrite (nth_error_nth_empty _ _ _ Eb) in Hp. econstructor; eauto. eapply reach_sound; eauto.
    + apply nth_error_None in Eb. rewrite (nth_empty_out _ _ Eb) in Hp. destruct Hp.
  - intros [ra' b rb H1 H2 H3 H4 H5]. rewrite Ea in H1; injection H1 as <-. split; [exact H2|].
    exists b; split; [now apply reach_complete|]. unfold produces. rewrite (nth_error_nth_empty _ _ _ H4). now apply memn_In.
Qed.

Lemma offenders_In rs a rel : In (a, rel) (strat_offenders rs) <-> a < length rs /\ In rel (strat_bad_of rs a).
Proof.
  unfold strat_offenders. rewrite in_flat_map. split.
  - intros [a' [Ha H]]. apply in_map_iff in H as [rel' [Heq Hr]]. injection Heq as -> ->. apply in_seq in Ha. split; [lia | exact Hr].
  - intros [Ha Hr]. exists a; split; [apply in_seq; lia | apply in_map_iff; eauto].
Qed.

Lemma offenders_head_min (f : nat -> list nat) s n (a rel a0 rel0 : nat) tl :
  flat_map (fun a => map (fun rel => (a, rel)) (f a)) (seq s n) = (a0, rel0) :: tl ->
  In (a, rel) (flat_map (fun a => map (fun rel => (a, rel)) (f a)) (seq s n)) -> a0 <= a.
Proof.
  revert s; induction n as [|n IH]; intros s; simpl; [discriminate|].
  intros Heq Hin. apply in_app_iff in Hin.
  assert (Hge : forall a' r', In (a', r') (flat_map (fun a => map (fun rel => (a, rel)) (f a)) (seq (S s) n)) -> S s <= a').
  { intros a' r' H. apply in_flat_map in H as [x [Hx H]]. apply in_map_iff in H as [? [Heq' _]]. injection Heq' as <- _. apply in_seq in Hx; lia. }
  destruct (f s) as [|r0 rs0] eqn:Ef; simpl in Heq.
  - destruct Hin as [[] | Hin]. eapply IH; eauto.
  - injection Heq as <- <- _. destruct Hin as [Hin | Hin].
    + apply in_map_iff in Hin as [? [Heq' _]]. injection Heq' as <- _. lia.
    + apply Hge in Hin. lia.
Qed.

Lemma check_strat_no_panic rs : check_strat rs <> Panic.
Proof. unfold check_strat. destruct (strat_offenders rs) as [|[a rel] tl]; discriminate. Qed.

Lemma check_strat_sound rs e l : check_strat rs = Err e l -> exists a rel, e = ENotStratified rel /\ l = (6, a, 0) /\ strat_bad rs a rel.
Proof.
  unfold check_strat. destruct (strat_offenders rs) as [|[a rel] tl] eqn:E; [discriminate|].
  intros H; injection H as <- <-. exists a, rel; split; [reflexivity|]; split; [reflexivity|].
  assert (Hin : In (a, rel) (strat_offenders rs)) by (rewrite E; now left).
  apply offenders_In in Hin as [Ha Hr]. now apply strat_bad_of_spec.
Qed.

Lemma check_strat_complete rs a rel : strat_bad rs a rel -> exists rel' a', a' <= a /\ check_strat rs = Err (ENotStratified rel') (6, a', 0).
Proof.
  intros H. assert (Ha : a < length rs) by (destruct H as [ra b rb H1 _ _ _ _]; apply nth_error_Some; congruence).
  assert (Hin : In (a, rel) (strat_offenders rs)) by (apply offenders_In; split; [exact Ha | now apply strat_bad_of_spec]).
  unfold check_strat. destruct (strat_offenders rs) as [|[a0 rel0] tl] eqn:E; [destruct Hin|].
  exists rel0, a0; split; [| reflexivity].
  apply (offenders_head_min (strat_bad_of rs) 0 (length rs) a rel a0 rel0 tl); [exact E|].
  change (In (a, rel) (strat_offenders rs)). rewrite E; exact Hin.
Qed.

(* ------------------------------------------------------------------ whole-stage lemmas *)

Lemma expand_rules_no_panic ms rs : expand_rules ms rs <> Panic.
Proof. apply mapM_no_panic. intros; apply expand_rule_no_panic. Qed.

Lemma expand_rules_sound ms rs e l : expand_rules ms rs = Err e l ->
  exists ri r, nth_error rs ri = Some r /\ l = (2, ri, 0) /\ rule_macro_bad ms r e.
Proof.
  intros H; apply mapM_Err in H as [j [r [Hn H]]]. apply expand_rule_sound in H as [-> H]. exists j, r; auto.
Qed.

Lemma expand_rules_complete ms rs ri r e : nth_error rs ri = Some r -> rule_macro_bad ms r e ->
  exists e' l', expand_rules ms rs = Err e' l' /\ loc_le l' (2, ri, 0).
Proof.
  intros Hn Hb. destruct (expand_rule_complete ms ri r e Hb) as [e' He'].
  destruct (mapM_first_Err (expand_rule ms) (expand_rule_no_panic ms) 0 rs ri r e' _ Hn He') as [j' [x' [e'' [lc' [H1 [H2 [H3 H4]]]]]]].
  exists e'', lc'; split; [exact H4|]. apply expand_rule_sound in H3 as [-> _]. simpl.
  assert (j' = ri \/ j' < ri) as [-> | Hlt] by lia; [now right | left; simpl; right; split; [reflexivity | left; exact Hlt]].
Qed.

Definition scan_rule (ds : list decl) (ri : nat) (r : crule) : result unit := scan_events ds ri 0 [] (rule_events r).

Lemma check_rules_no_panic ds rs : check_rules ds rs <> Panic.
Proof.
  unfold check_rules. intros H; apply bind_Panic in H as [H | [a [_ H]]]; [| discriminate].
  revert H. apply mapM_no_panic. intros; apply scan_events_no_panic.
Qed.

Lemma check_rules_sound ds rs e l : check_rules ds rs = Err e l ->
  exists ri r ei, nth_error rs ri = Some r /\ l = (3, ri, ei) /\ event_bad ds (rule_events r) ei e.
Proof.
  unfold check_rules. intros H; apply bind_Err in H as [H | [a [_ H]]]; [| discriminate].
  apply mapM_Err in H as [j [r [Hn H]]]. simpl in H.
  apply (scan_events_sound ds j [] (rule_events r) []) in H as [ei [-> Hb]]; [| intros x; simpl; tauto].
  exists j, r, ei; auto.
Qed.

Lemma check_rules_complete ds rs ri r ei e : nth_error rs ri = Some r -> event_bad ds (rule_events r) ei e ->
  exists e' l', check_rules ds rs = Err e' l' /\ loc_le l' (3, ri, ei).
Proof.
  intros Hn Hb.
  destruct (scan_events_complete ds ri [] (rule_events r) [] ei e) as [e' [ei' [Hle He']]]; [intros x; simpl; tauto | simpl; lia | exact Hb|].
  simpl in He'.
  destruct (mapM_first_Err (fun ri r => scan_events ds ri 0 [] (rule_events r)) (fun i x => scan_events_no_panic ds i 0 [] _) 0 rs ri r e' _ Hn He')
    as [j' [x' [e'' [lc' [H1 [H2 [H3 H4]]]]]]].
  exists e'', lc'; split; [unfold check_rules; now rewrite H4|].
  assert (j' = ri \/ j' < ri) as [-> | Hlt] by lia.
  - rewrite Hn in H2; injection H2 as <-. simpl in H3. rewrite He' in H3; injection H3 as <- <-.
    assert (ei' = ei \/ ei' < ei) as [-> | Hlt] by lia; [now right | left; simpl; right; split; [reflexivity|]; right; split; [reflexivity | exact Hlt]].
  - simpl in H3. apply (scan_events_sound ds j' [] (rule_events x') []) in H3 as [ei'' [-> _]]; [| intros x; simpl; tauto].
    left; simpl; right; split; [reflexivity | left; exact Hlt].
Qed.

Lemma check_decls_no_panic ds : check_decls ds <> Panic.
Proof.
  unfold check_decls. intros H; apply bind_Panic in H as [H | [a [_ H]]]; [| discriminate].
  revert H. apply mapM_no_panic. intros; apply check_decl_no_panic.
Qed.

Lemma check_decls_sound ds e l : check_decls ds = Err e l ->
  exists di d j, nth_error (dedup_last ds) di = Some d /\ l = (5, di, j) /\ decl_bad d j e.
Proof.
  unfold check_decls. intros H; apply bind_Err in H as [H | [a [_ H]]]; [| discriminate].
  apply mapM_Err in H as [di [d [Hn H]]]. simpl in H. apply check_decl_sound in H as [j [-> Hb]]. exists di, d, j; auto.
Qed.

Lemma check_decls_complete ds di d j e : nth_error (dedup_last ds) di = Some d -> decl_bad d j e ->
  exists e' l', check_decls ds = Err e' l' /\ loc_le l' (5, di, j).
Proof.
  intros Hn Hb. destruct (check_decl_complete di d j e Hb) as [e' [j' [Hle He']]].
  destruct (mapM_first_Err check_decl check_decl_no_panic 0 (dedup_last ds) di d e' _ Hn He') as [k' [x' [e'' [lc' [H1 [H2 [H3 H4]]]]]]].
  exists e'', lc'; split; [unfold check_decls; now rewrite H4|].
  assert (k' = di \/ k' < di) as [-> | Hlt] by lia.
  - rewrite Hn in H2; injection H2 as <-. simpl in H3. rewrite He' in H3; injection H3 as <- <-.
    assert (j' = j \/ j' < j) as [-> | Hlt] by lia; [now right | left; simpl; right; split; [reflexivity|]; right; split; [reflexivity | exact Hlt]].
  - simpl in H3. apply check_decl_sound in H3 as [j'' [-> _]]. left; simpl; right; split; [reflexivity | left; exact Hlt].
Qed.

(* ------------------------------------------------------------------ the run of the front end, stage by stage *)

Inductive trace (c0 : counters) (P : program) (k : mkind) : result unit -> Prop :=
| tr_parse e l : flatten 0 (p_items P) = Err e l -> trace c0 P k (Err e l)
| tr_macro its e l : flatten 0 (p_items P) = OK its -> expand_rules (macros_of its) (rules_of its) = Err e l -> trace c0 P k (Err e l)
| tr_rules its xr e l : flatten 0 (p_items P) = OK its -> expand_rules (macros_of its) (rules_of its) = OK xr ->
    check_rules (decls_of its) (ds_rules c0 xr) = Err e l -> trace c0 P k (Err e l)
| tr_attrs its xr e l : flatten 0 (p_items P) = OK its -> expand_rules (macros_of its) (rules_of its) = OK xr ->
    check_rules (decls_of its) (ds_rules c0 xr) = OK tt -> check_attrs (p_attrs P) k = Err e l -> trace c0 P k (Err e l)
| tr_decls its xr e l : flatten 0 (p_items P) = OK its -> expand_rules (macros_of its) (rules_of its) = OK xr ->
    check_rules (decls_of its) (ds_rules c0 xr) = OK tt -> check_attrs (p_attrs P) k = OK tt ->
    check_decls (decls_of its) = Err e l -> trace c0 P k (Err e l)
| tr_strat its xr e l : flatten 0 (p_items P) = OK its -> expand_rules (macros_of its) (rules_of its) = OK xr ->
    check_rules (decls_of its) (ds_rules c0 xr) = OK tt -> check_attrs (p_attrs P) k = OK tt ->
    check_decls (decls_of its) = OK tt -> check_strat (ds_rules c0 xr) = Err e l -> trace c0 P k (Err e l)
| tr_end its xr : flatten 0 (p_items P) = OK its -> expand_rules (macros_of its) (rules_of its) = OK xr ->
    check_rules (decls_of its) (ds_rules c0 xr) = OK tt -> check_attrs (p_attrs P) k = OK tt ->
    check_decls (decls_of its) = OK tt -> check_strat (ds_rules c0 xr) = OK tt ->
    trace c0 P k (if codegen_panics (decls_of its) (ds_rules c0 xr) then Panic else OK tt).

Lemma check_loc_trace c0 P k : trace c0 P k (check_loc c0 P k).
Proof.
  unfold check_loc. destruct (flatten 0 (p_items P)) as [its|e l|] eqn:E1; cbn [bind];
    [| now apply tr_parse | now apply flatten_no_panic in E1].
  unfold check_items. destruct (expand_rules (macros_of its) (rules_of its)) as [xr|e l|] eqn:E2; cbn [bind];
    [| eapply tr_macro; eauto | now apply expand_rules_no_panic in E2].
  destruct (check_rules (decls_of its) (ds_rules c0 xr)) as [[]|e l|] eqn:E3; cbn [bind];
    [| eapply tr_rules; eauto | now apply check_rules_no_panic in E3].
  destruct (check_attrs (p_attrs P) k) as [[]|e l|] eqn:E4; cbn [bind];
    [| eapply tr_attrs; eauto | now apply check_attrs_no_panic in E4].
  destruct (check_decls (decls_of its)) as [[]|e l|] eqn:E5; cbn [bind];
    [| eapply tr_decls; eauto | now apply check_decls_no_panic in E5].
  destruct (check_strat (ds_rules c0 xr)) as [[]|e l|] eqn:E6; cbn [bind];
    [| eapply tr_strat; eauto | now apply check_strat_no_panic in E6].
  eapply tr_end; eauto.
Qed.

(* ------------------------------------------------------------------ violations *)

(* a violation with its position; the error class it has is its last component *)
Inductive violation :=
| VParse (p q : nat) (e : err)     (* item p of the program (q = 0) / item q-1 of the source included there:
                                      attribute in front of a rule, macro or include_source!; empty lattice;
                                      include_source! inside an ascent_source! *)
| VMacro (ri : nat) (e : err)      (* rule ri: undefined macro, wrong number of arguments, body that does not parse at
                                      the invocation position, nesting deeper than the guard (self-referential macro) *)
| VRule (ri ei : nat) (e : err)    (* event ei of rule ri: undeclared relation, wrong arity, rebinding of a bound variable,
                                      aggregated variable that is not an argument of the aggregated relation *)
| VAttr (j : nat) (e : err)        (* program attributes: unknown (0), inter_rule_parallelism outside a parallel macro (1), several ds (2) *)
| VDecl (di j : nat) (e : err)     (* surviving declaration di: several ds (0), ds on a lattice (1) *)
| VStrat (a rel : nat).            (* rule a aggregates / negates rel inside rel's own recursive stratum *)

Definition vloc (v : violation) : loc :=
  match v with
  | VParse p q _ => (1, p, q) | VMacro ri _ => (2, ri, 0) | VRule ri ei _ => (3, ri, ei)
  | VAttr j _ => (4, j, 0) | VDecl di j _ => (5, di, j) | VStrat a _ => (6, a, 0)
  end.
Definition verr (v : violation) : err :=
  match v with
  | VParse _ _ e => e | VMacro _ e => e | VRule _ _ e => e | VAttr _ e => e | VDecl _ _ e => e
  | VStrat _ rel => ENotStratified rel
  end.

(* the program, once its include_source!s are resolved, its macros expanded and its rules desugared *)
Definition resolves (P : program) (its : list item0) : Prop := flatten 0 (p_items P) = OK its.
Definition elaborates (c0 : counters) (P : program) (its : list item0) (cr : list crule) : Prop :=
  resolves P its /\ exists xr, expand_rules (macros_of its) (rules_of its) = OK xr /\ cr = ds_rules c0 xr.

Definition occurs (c0 : counters) (P : program) (k : mkind) (v : violation) : Prop :=
  match v with
  | VParse p q e => parse_bad (p_items P) p q e
  | VMacro ri e => exists its r, resolves P its /\ nth_error (rules_of its) ri = Some r /\ rule_macro_bad (macros_of its) r e
  | VRule ri ei e => exists its cr r, elaborates c0 P its cr /\ nth_error cr ri = Some r /\ event_bad (decls_of its) (rule_events r) ei e
  | VAttr j e => attrs_bad (p_attrs P) k j e
  | VDecl di j e => exists its d, resolves P its /\ nth_error (dedup_last (decls_of its)) di = Some d /\ decl_bad d j e
  | VStrat a rel => exists its cr, elaborates c0 P its cr /\ strat_bad cr a rel
  end.

Definition well_formed (c0 : counters) (P : program) (k : mkind) : Prop := forall v, ~ occurs c0 P k v.

(* every error the front end reports is a violation that occurs, of that class, at that position *)
Theorem reject_sound c0 P k e l : check_loc c0 P k = Err e l -> exists v, occurs c0 P k v /\ vloc v = l /\ verr v = e.
Proof.
  intros H. pose proof (check_loc_trace c0 P k) as T. rewrite H in T. remember (Err e l) as res eqn:R.
  destruct T as [e0 l0 H1 | its e0 l0 H1 H2 | its xr e0 l0 H1 H2 H3 | its xr e0 l0 H1 H2 H3 H4 | its xr e0 l0 H1 H2 H3 H4 H5
                | its xr e0 l0 H1 H2 H3 H4 H5 H6 | its xr H1 H2 H3 H4 H5 H6]; try (injection R as <- <-).
  - apply flatten_sound in H1 as [p [q [-> Hb]]]. exists (VParse p q e0); simpl; auto.
  - apply expand_rules_sound in H2 as [ri [r [Hn [-> Hb]]]]. exists (VMacro ri e0); simpl. split; [exists its, r; auto | auto].
  - apply check_rules_sound in H3 as [ri [r [ei [Hn [-> Hb]]]]]. exists (VRule ri ei e0); simpl.
    split; [| auto]. exists its, (ds_rules c0 xr), r. split; [split; [exact H1 | eauto] | auto].
  - apply check_attrs_sound in H4 as [j [-> Hb]]. exists (VAttr j e0); simpl; auto.
  - apply check_decls_sound in H5 as [di [d [j [Hn [-> Hb]]]]]. exists (VDecl di j e0); simpl. split; [exists its, d; auto | auto].
  - apply check_strat_sound in H6 as [a [rel [-> [-> Hb]]]]. exists (VStrat a rel); simpl. split; [| auto].
    exists its, (ds_rules c0 xr). split; [split; [exact H1 | eauto] | exact Hb].
  - destruct (codegen_panics _ _); discriminate.
Qed.

Lemma stage_lt_loc_le s i j l : stage l < s -> loc_le l (s, i, j).
Proof. intros H; apply loc_le_stage; exact H. Qed.

(* every violation that occurs is rejected, by an error detected no later than the violation's own position *)
Theorem reject_complete c0 P k v : occurs c0 P k v -> exists e l, check_loc c0 P k = Err e l /\ loc_le l (vloc v).
Proof.
  intros Hv. pose proof (check_loc_trace c0 P k) as T. remember (check_loc c0 P k) as res eqn:R. clear R.
  assert (S1 : forall e l, flatten 0 (p_items P) = Err e l -> stage l = 1) by (intros e l H; apply flatten_sound in H as [p [q [-> _]]]; reflexivity).
  assert (S2 : forall ms rs e l, expand_rules ms rs = Err e l -> stage l = 2) by (intros ms rs e l H; apply expand_rules_sound in H as [ri [r [_ [-> _]]]]; reflexivity).
  assert (S3 : forall ds rs e l, check_rules ds rs = Err e l -> stage l = 3) by (intros ds rs e l H; apply check_rules_sound in H as [ri [r [ei [_ [-> _]]]]]; reflexivity).
  assert (S4 : forall e l, check_attrs (p_attrs P) k = Err e l -> stage l = 4) by (intros e l H; apply check_attrs_sound in H as [j [-> _]]; reflexivity).
  assert (S5 : forall ds e l, check_decls ds = Err e l -> stage l = 5) by (intros ds e l H; apply check_decls_sound in H as [di [d [j [_ [-> _]]]]]; reflexivity).
  (* an error of an earlier stage *)
  assert (EARLY : forall e0 l0 s i j, stage l0 < s -> exists e l, Err e0 l0 = @Err unit e l /\ loc_le l (s, i, j))
    by (intros e0 l0 s i j H; exists e0, l0; split; [reflexivity | now apply loc_le_stage]).
  destruct v as [p q e | ri e | ri ei e | j e | di j e | a rel]; simpl in Hv; simpl vloc.
  - (* parse *)
    destruct (flatten_complete 0 (p_items P) p q e Hv) as [e' [l' [H1 H2]]].
    destruct T; try congruence.
    match goal with G : flatten _ _ = Err _ _ |- _ => rewrite H1 in G; injection G as <- <- end. eauto.
  - (* macro *)
    destruct Hv as [its [r [Hr [Hn Hb]]]]. unfold resolves in Hr.
    destruct (expand_rules_complete _ _ ri r e Hn Hb) as [e' [l' [H1 H2]]].
    destruct T as [e0 l0 G1 | its0 e0 l0 G1 G2 | its0 xr e0 l0 G1 G2 G3 | its0 xr e0 l0 G1 G2 G3 G4 | its0 xr e0 l0 G1 G2 G3 G4 G5
                  | its0 xr e0 l0 G1 G2 G3 G4 G5 G6 | its0 xr G1 G2 G3 G4 G5 G6];
      try (apply EARLY; rewrite (S1 _ _ G1); simpl; lia);
      rewrite Hr in G1; injection G1 as <-; try congruence.
    rewrite H1 in G2; injection G2 as <- <-. eauto.
  - (* rules *)
    destruct Hv as [its [cr [r [[Hr [xr [Hx ->]]] [Hn Hb]]]]]. unfold resolves in Hr.
    destruct (check_rules_complete _ _ ri r ei e Hn Hb) as [e' [l' [H1 H2]]].
    destruct T as [e0 l0 G1 | its0 e0 l0 G1 G2 | its0 xr0 e0 l0 G1 G2 G3 | its0 xr0 e0 l0 G1 G2 G3 G4 | its0 xr0 e0 l0 G1 G2 G3 G4 G5
                  | its0 xr0 e0 l0 G1 G2 G3 G4 G5 G6 | its0 xr0 G1 G2 G3 G4 G5 G6];
      try (apply EARLY; rewrite (S1 _ _ G1); simpl; lia);
      rewrite Hr in G1; injection G1 as <-;
      try (apply EARLY; rewrite (S2 _ _ _ _ G2); simpl; lia);
      rewrite Hx in G2; injection G2 as <-; try congruence.
    rewrite H1 in G3; injection G3 as <- <-. eauto.
  - (* program attributes *)
    destruct (check_attrs_complete _ _ _ _ Hv) as [e' [j' [Hle H1]]].
    destruct T as [e0 l0 G1 | its0 e0 l0 G1 G2 | its0 xr0 e0 l0 G1 G2 G3 | its0 xr0 e0 l0 G1 G2 G3 G4 | its0 xr0 e0 l0 G1 G2 G3 G4 G5
                  | its0 xr0 e0 l0 G1 G2 G3 G4 G5 G6 | its0 xr0 G1 G2 G3 G4 G5 G6];
      try (apply EARLY; rewrite (S1 _ _ G1); simpl; lia);
      try (apply EARLY; rewrite (S2 _ _ _ _ G2); simpl; lia);
      try (apply EARLY; rewrite (S3 _ _ _ _ G3); simpl; lia); try congruence.
    rewrite H1 in G4; injection G4 as <- <-. exists e', (4, j', 0); split; [reflexivity|].
    assert (j' = j \/ j' < j) as [-> | Hlt] by lia; [now right | left; simpl; right; split; [reflexivity | left; exact Hlt]].
  - (* relation attributes *)
    destruct Hv as [its [d [Hr [Hn Hb]]]]. unfold resolves in Hr.
    destruct (check_decls_complete _ _ _ _ _ Hn Hb) as [e' [l' [H1 H2]]].
    destruct T as [e0 l0 G1 | its0 e0 l0 G1 G2 | its0 xr0 e0 l0 G1 G2 G3 | its0 xr0 e0 l0 G1 G2 G3 G4 | its0 xr0 e0 l0 G1 G2 G3 G4 G5
                  | its0 xr0 e0 l0 G1 G2 G3 G4 G5 G6 | its0 xr0 G1 G2 G3 G4 G5 G6];
      try (apply EARLY; rewrite (S1 _ _ G1); simpl; lia);
      rewrite Hr in G1; injection G1 as <-;
      try (apply EARLY; rewrite (S2 _ _ _ _ G2); simpl; lia);
      try (apply EARLY; rewrite (S3 _ _ _ _ G3); simpl; lia);
      try (apply EARLY; rewrite (S4 _ _ G4); simpl; lia); try congruence.
    rewrite H1 in G5; injection G5 as <- <-. eauto.
  - (* stratification *)
    destruct Hv as [its [cr [[Hr [xr [Hx ->]]] Hb]]]. unfold resolves in Hr.
    destruct (check_strat_complete _ _ _ Hb) as [rel' [a' [Hle H1]]].
    destruct T as [e0 l0 G1 | its0 e0 l0 G1 G2 | its0 xr0 e0 l0 G1 G2 G3 | its0 xr0 e0 l0 G1 G2 G3 G4 | its0 xr0 e0 l0 G1 G2 G3 G4 G5
                  | its0 xr0 e0 l0 G1 G2 G3 G4 G5 G6 | its0 xr0 G1 G2 G3 G4 G5 G6];
      try (apply EARLY; rewrite (S1 _ _ G1); simpl; lia);
      rewrite Hr in G1; injection G1 as <-;
      try (apply EARLY; rewrite (S2 _ _ _ _ G2); simpl; lia);
      rewrite Hx in G2; injection G2 as <-;
      try (apply EARLY; rewrite (S3 _ _ _ _ G3); simpl; lia);
      try (apply EARLY; rewrite (S4 _ _ G4); simpl; lia);
      try (apply EARLY; rewrite (S5 _ _ _ G5); simpl; lia); try congruence.
    rewrite H1 in G6; injection G6 as <- <-. eexists; eexists; split; [reflexivity|].
    assert (a' = a \/ a' < a) as [-> | Hlt] by lia; [now right | left; simpl; right; split; [reflexivity | left; exact Hlt]].
Qed.

(* ------------------------------------------------------------------ consequences *)

Lemma loc_le_antisym a b : loc_le a b -> loc_le b a -> a = b.
Proof.
  destruct a as [[s i] j], b as [[s' i'] j']. intros [H | H] [H' | H']; try congruence. simpl in H, H'. exfalso; lia.
Qed.

Theorem accept_sound c0 P k : check_loc c0 P k = OK tt -> well_formed c0 P k.
Proof. intros H v Hv. apply reject_complete in Hv as [e [l [H' _]]]. congruence. Qed.

Theorem panic_only_when_checks_pass c0 P k : check_loc c0 P k = Panic -> well_formed c0 P k.
Proof. intros H v Hv. apply reject_complete in Hv as [e [l [H' _]]]. congruence. Qed.

Theorem well_formed_not_rejected c0 P k : well_formed c0 P k -> check_loc c0 P k = OK tt \/ check_loc c0 P k = Panic.
Proof.
  intros W. destruct (check_loc c0 P k) as [[]|e l|] eqn:E; auto.
  apply reject_sound in E as [v [Hv _]]. now apply W in Hv.
Qed.

(* the reported error is a violation at the least position at which any violation occurs *)
Theorem reported_is_first c0 P k e l : check_loc c0 P k = Err e l ->
  (exists v, occurs c0 P k v /\ vloc v = l /\ verr v = e) /\ (forall v, occurs c0 P k v -> loc_le l (vloc v)).
Proof.
  intros H; split; [now apply reject_sound|]. intros v Hv. apply reject_complete in Hv as [e' [l' [H1 H2]]]. congruence.
Qed.

(* a program all of whose violations have one class is rejected with exactly that class *)
Theorem single_class_rejected c0 P k v : occurs c0 P k v -> (forall v', occurs c0 P k v' -> verr v' = verr v) ->
  exists l, check_loc c0 P k = Err (verr v) l.
Proof.
  intros Hv Hall. destruct (reject_complete c0 P k v Hv) as [e [l [H _]]].
  destruct (reject_sound c0 P k e l H) as [v' [Hv' [_ <-]]]. rewrite (Hall v' Hv') in H. eauto.
Qed.

(* ------------------------------------------------------------------ one invocation vs the resolved program *)

Definition no_include (P : program) : Prop := forall n src, ~ In (IInclude n src) (p_items P).

Lemma scan_top_flatten p its : (forall n src, ~ In (IInclude n src) its) ->
  scan_top p its = match flatten p its with OK r => OK (Some r) | Err e l => Err e l | Panic => Panic end.
Proof.
  revert p; induction its as [|x tl IH]; intros p Hno; simpl; [reflexivity|].
  destruct x as [i|n src]; [| exfalso; eapply Hno; now left].
  destruct (item0_err i); [reflexivity|]. rewrite IH by (intros n src H; eapply Hno; right; exact H).
  destruct (flatten (S p) tl); reflexivity.
Qed.

Theorem invoke_is_check c0 P k : no_include P -> invoke c0 P k = check c0 P k.
Proof.
  intros Hno. unfold invoke, check, check_loc. rewrite (scan_top_flatten 0 (p_items P) Hno).
  destruct (flatten 0 (p_items P)); reflexivity.
Qed.

(* an invocation that reaches an include_source! checks nothing but what precedes it *)
Theorem invoke_deferred c0 P k pre src post : p_items P = map IPlain pre ++ IInclude 0 src :: post ->
  (forall i, In i pre -> item0_err i = None) -> invoke c0 P k = Deferred.
Proof.
  intros Heq Hpre. unfold invoke. rewrite Heq. clear Heq.
  assert (H : forall p, scan_top p (map IPlain pre ++ IInclude 0 src :: post) = OK None).
  { induction pre as [|i tl IH]; intros p; simpl; [reflexivity|].
    rewrite (Hpre i (or_introl eq_refl)). rewrite IH by (intros; apply Hpre; now right). reflexivity. }
  now rewrite H.
Qed.

(* ------------------------------------------------------------------ panics *)

Lemma check_loc_panic c0 P k : check_loc c0 P k = Panic <->
  exists its xr, flatten 0 (p_items P) = OK its /\ expand_rules (macros_of its) (rules_of its) = OK xr /\
    check_rules (decls_of its) (ds_rules c0 xr) = OK tt /\ check_attrs (p_attrs P) k = OK tt /\
    check_decls (decls_of its) = OK tt /\ check_strat (ds_rules c0 xr) = OK tt /\
    codegen_panics (decls_of its) (ds_rules c0 xr) = true.
Proof.
  split.
  - intros H. pose proof (check_loc_trace c0 P k) as T. rewrite H in T. remember Panic as res eqn:R.
    destruct T; try discriminate. exists its, xr. destruct (codegen_panics _ _); [auto 10 | discriminate].
  - intros [its [xr [H1 [H2 [H3 [H4 [H5 [H6 H7]]]]]]]]. unfold check_loc, check_items. rewrite H1; cbn [bind].
    rewrite H2; cbn [bind]. rewrite H3; cbn [bind]. rewrite H4; cbn [bind]. rewrite H5; cbn [bind]. rewrite H6; cbn [bind]. now rewrite H7.
Qed.

Definition arg_plain (a : arg ident) : bool := match a with AVar (Suf _ _) => false | _ => true end.
(* no clause argument is an identifier ending in "_" / "_<number>" *)
Definition xitem_ok (it : sitem ident) : bool :=
  match it with
  | SClause _ args _ => forallb arg_plain args
  | _ => true
  end.
Definition xrule_ok (r : xrule) : bool := forallb xitem_ok (x_body r).

(* the two sources of a panic, separately *)
Definition clause_panics (ds : list decl) (pre : list ident) (it : citem) : bool :=
  match it with CClause rel args _ => negb (is_lattice ds rel) && dup_new pre [] args | _ => false end.
Definition agg_panics (it : citem) : bool :=
  match it with CAgg _ bound _ args => negb (length (agg_missing bound args) =? 0) | _ => false end.

Lemma item_panics_split ds pre it : item_panics ds pre it = clause_panics ds pre it || agg_panics it.
Proof. destruct it; simpl; [now rewrite orb_false_r | reflexivity | reflexivity]. Qed.

Lemma cget_cons p n cnt q : cget ((p, n) :: cnt) q = if ident_eqb p q then n else cget cnt q.
Proof. unfold cget; simpl. destruct (ident_eqb p q); reflexivity. Qed.

Lemma cget_fresh_mono cnt p q : cget cnt q <= cget (snd (fresh cnt p)) q.
Proof.
  unfold fresh; simpl. rewrite cget_cons. destruct (ident_eqb p q) eqn:E; [apply ident_eqb_eq in E; subst; lia | lia].
Qed.

Lemma cget_fresh_same cnt p : cget (snd (fresh cnt p)) p = S (cget cnt p).
Proof. unfold fresh; simpl. rewrite cget_cons. now rewrite ident_eqb_refl. Qed.

(* the identifiers emitted so far for the clause: user variables (grounded here or before) and generated ones, the
   latter below the counter of their prefix *)
Definition emitted_ok (before here : list ident) (cnt : counters) (E : list ident) : Prop :=
  forall v, In v E -> (exists b, v = Base b /\ (In v here \/ In v before)) \/ (exists p n, v = Suf p n /\ n < cget cnt p).

Lemma emitted_ok_fresh before here cnt E p : emitted_ok before here cnt E ->
  emitted_ok before here (snd (fresh cnt p)) (fst (fresh cnt p) :: E).
Proof.
  intros H v [<- | Hv].
  - right. exists p, (cget cnt p). split; [reflexivity|]. rewrite cget_fresh_same. lia.
  - destruct (H v Hv) as [? | [q [n [-> Hn]]]]; [now left|]. right; exists q, n; split; [reflexivity|].
    pose proof (cget_fresh_mono cnt p q). lia.
Qed.

Lemma fresh_not_emitted before here cnt E p : emitted_ok before here cnt E -> ~ In (fst (fresh cnt p)) E.
Proof.
  intros H Hin. destruct (H _ Hin) as [[b [Hb _]] | [q [n [Heq Hn]]]]; [discriminate|].
  unfold fresh in Heq; simpl in Heq. injection Heq as <- <-. lia.
Qed.

Lemma ds_args_no_dup pre before : (forall x, In x before -> In x pre) ->
  forall args here cnt E, forallb arg_plain args = true -> emitted_ok before here cnt E ->
  dup_new pre E (fst (ds_args before here cnt args)) = false.
Proof.
  intros Hsub. induction args as [|a tl IH]; intros here cnt E Hp HE; [reflexivity|].
  simpl in Hp. apply andb_true_iff in Hp as [Ha Hp]. destruct a as [x|fv| |bs]; simpl.
  - destruct (mem x here) eqn:M; simpl.
    + assert (mem (Suf x (cget cnt x)) E = false) as -> by (apply mem_false; exact (fresh_not_emitted before here cnt E x HE)).
      rewrite andb_false_r; simpl. apply (IH here _ _ Hp). exact (emitted_ok_fresh before here cnt E x HE).
    + destruct x as [b|i n]; [| discriminate].
      destruct (mem (Base b) before) eqn:B.
      * assert (mem (Base b) pre = true) as -> by (apply mem_In, Hsub; now apply mem_In). simpl.
        apply (IH here cnt _ Hp). intros v [<- | Hv]; [left; exists b; split; [reflexivity | right; now apply mem_In] | now apply HE].
      * assert (mem (Base b) E = false) as ->.
        { apply mem_false. intros Hin. destruct (HE _ Hin) as [[b' [_ [H | H]]] | [p [n [Heq _]]]]; [| | discriminate].
          - apply mem_In in H; congruence.
          - apply mem_In in H; congruence. }
        rewrite andb_false_r; simpl. apply (IH _ cnt _ Hp).
        intros v [<- | Hv]; [left; exists b; split; [reflexivity | left; apply in_or_app; right; now left]|].
        destruct (HE v Hv) as [[b' [-> [H | H]]] | H]; [left; exists b'; split; [reflexivity | left; apply in_or_app; now left] | left; exists b'; auto | now right].
  - destruct (existsb (fun v => mem v here) fv); simpl.
    + assert (mem (Suf expr_replaced (cget cnt expr_replaced)) E = false) as -> by (apply mem_false; exact (fresh_not_emitted before here cnt E expr_replaced HE)).
      rewrite andb_false_r; simpl. apply (IH here _ _ Hp). exact (emitted_ok_fresh before here cnt E expr_replaced HE).
    + now apply IH.
  - now apply IH.
  - now apply IH.
Qed.

Lemma ds_args_here before args : forall here cnt x, In x (fst (snd (ds_args before here cnt args))) ->
  In x here \/ In x (cvars (fst (ds_args before here cnt args))).
Proof.
  induction args as [|a tl IH]; intros here cnt x; simpl; [auto|].
  destruct a as [y|fv| |bs]; simpl.
  - destruct (mem y here); simpl.
    + intros H; apply IH in H as [H | H]; auto.
    + intros H; apply IH in H as [H | H]; [| auto]. destruct (mem y before); [auto|]. apply in_app_iff in H as [H | [<- | []]]; auto.
  - destruct (existsb _ fv); simpl; intros H; apply IH in H as [H | H]; auto.
  - intros H; apply IH in H as [H | H]; auto.
  - intros H; apply IH in H as [H | H]; auto.
Qed.

Fixpoint body_clause_panics (ds : list decl) (pre : list ident) (its : list citem) : bool :=
  match its with
  | [] => false
  | it :: tl => clause_panics ds pre it || body_clause_panics ds (pre ++ item_binds it) tl
  end.

Lemma body_panics_split ds its : forall pre, body_panics ds pre its = body_clause_panics ds pre its || existsb agg_panics its.
Proof.
  induction its as [|it tl IH]; intros pre; simpl; [reflexivity|]. rewrite IH, item_panics_split.
  destruct (clause_panics ds pre it), (agg_panics it), (body_clause_panics ds (pre ++ item_binds it) tl); reflexivity.
Qed.

Lemma ds_body_no_clause_panic ds : forall its pre seen cnt, (forall x, In x seen -> In x pre) -> forallb xitem_ok its = true ->
  body_clause_panics ds pre (fst (ds_body (seen, cnt) its)) = false.
Proof.
  induction its as [|it tl IH]; intros pre seen cnt Hsub Hok; [reflexivity|].
  simpl in Hok. apply andb_true_iff in Hok as [Hit Hok]. simpl.
  apply orb_false_iff; split.
  - destruct it as [rel args conds|rel n|pat bound rel args|c|bs|m margs]; simpl; try reflexivity.
    simpl in Hit. rewrite (ds_args_no_dup pre seen Hsub args [] cnt [] Hit) by (intros v []). apply andb_false_r.
  - destruct it as [rel args conds|rel n|pat bound rel args|c|bs|m margs]; simpl; apply IH; try exact Hok; intros x Hx.
    + apply in_app_iff in Hx as [Hx | Hx]; [apply in_or_app; left; auto|].
      apply in_or_app; right. simpl. apply in_app_iff in Hx as [Hx | Hx]; apply in_or_app; [left | right; exact Hx].
      apply ds_args_here in Hx as [[] | Hx]. exact Hx.
    + apply in_or_app; left; auto.
    + apply in_app_iff in Hx as [Hx | Hx]; apply in_or_app; [left; auto | right; exact Hx].
    + apply in_app_iff in Hx as [Hx | Hx]; apply in_or_app; [left; auto | right; exact Hx].
    + apply in_app_iff in Hx as [Hx | Hx]; apply in_or_app; [left; auto | right; exact Hx].
    + apply in_or_app; left; auto.
Qed.

(* the unwrap on the aggregated variables cannot fail once the rule stage has passed (check of commit 9b40028) *)
Lemma In_nth_error_ex {A} (x : A) l : In x l -> exists i, nth_error l i = Some x.
Proof. induction l as [|y tl IH]; [intros [] | intros [-> | H]; [exists 0; reflexivity | destruct (IH H) as [i Hi]; exists (S i); exact Hi]]. Qed.

Lemma check_rules_OK_no_agg_panic ds rs : check_rules ds rs = OK tt -> forall r, In r rs -> existsb agg_panics (c_body r) = false.
Proof.
  intros Hok r Hr. apply not_true_is_false. intros H. apply existsb_exists in H as [it [Hit Hp]].
  destruct it as [rel args cb|pat bound rel args|bs]; simpl in Hp; try discriminate.
  destruct (agg_missing bound args) as [|b tl] eqn:M; [discriminate|].
  assert (Hev : In (EvAggMissing b rel) (rule_events r)).
  { unfold rule_events. apply in_or_app; left. apply in_flat_map. exists (CAgg pat bound rel args); split; [exact Hit|].
    simpl. apply in_or_app; right; right. rewrite M. now left. }
  apply In_nth_error_ex in Hev as [ei Hei]. apply In_nth_error_ex in Hr as [ri Hri].
  destruct (check_rules_complete ds rs ri r ei (EAggVar b rel) Hri (eb_aggvar ds _ ei b rel Hei)) as [e' [l' [H1 _]]]. congruence.
Qed.

Lemma ds_rules_no_clause_panic ds : forall xr cnt, forallb xrule_ok xr = true ->
  forall r, In r (ds_rules cnt xr) -> body_clause_panics ds [] (c_body r) = false.
Proof.
  induction xr as [|x tl IH]; intros cnt Hok r Hr; [destruct Hr|].
  simpl in Hok. apply andb_true_iff in Hok as [Hx Hok]. simpl in Hr. destruct Hr as [<- | Hr].
  - simpl. apply ds_body_no_clause_panic; [intros y [] | exact Hx].
  - eapply IH; eauto.
Qed.

(* the macro-expanded program uses no identifier ending in "_" / "_<number>" as a clause argument *)
Definition panic_guard (P : program) : Prop :=
  forall its xr, flatten 0 (p_items P) = OK its -> expand_rules (macros_of its) (rules_of its) = OK xr -> forallb xrule_ok xr = true.

Theorem no_panic_guarded c0 P k : panic_guard P -> check_loc c0 P k <> Panic.
Proof.
  intros G H. apply check_loc_panic in H as [its [xr [H1 [H2 [H3 [_ [_ [_ H7]]]]]]]].
  unfold codegen_panics in H7. apply existsb_exists in H7 as [r [Hr Hp]].
  rewrite body_panics_split in Hp.
  rewrite (ds_rules_no_clause_panic (decls_of its) xr c0 (G its xr H1 H2) r Hr) in Hp.
  rewrite (check_rules_OK_no_agg_panic _ _ H3 r Hr) in Hp. discriminate.
Qed.

(* whatever the program: the aggregate unwrap of code generation is never the reason of a panic *)
Theorem panic_is_a_clause_panic c0 P k : check_loc c0 P k = Panic ->
  exists its xr r, flatten 0 (p_items P) = OK its /\ expand_rules (macros_of its) (rules_of its) = OK xr /\
    In r (ds_rules c0 xr) /\ body_clause_panics (decls_of its) [] (c_body r) = true.
Proof.
  intros H. apply check_loc_panic in H as [its [xr [H1 [H2 [H3 [_ [_ [_ H7]]]]]]]].
  unfold codegen_panics in H7. apply existsb_exists in H7 as [r [Hr Hp]].
  rewrite body_panics_split, (check_rules_OK_no_agg_panic _ _ H3 r Hr), orb_false_r in Hp. exists its, xr, r; auto.
Qed.

(* ------------------------------------------------------------------ attributes of a relation other than ds are ignored
   by the macro (it hands them to the field of the generated struct: their rejection, if any, is rustc's) *)

Definition strip_decl (d : decl) : decl :=
  {| d_name := d_name d; d_tys := d_tys d; d_lat := d_lat d; d_attrs := filter is_rds (d_attrs d) |}.
Definition strip_item0 (i : item0) : item0 := match i with IRel d => IRel (strip_decl d) | _ => i end.
Definition strip_item1 (x : item1) : item1 := match x with I1Plain i => I1Plain (strip_item0 i) | _ => x end.
Definition strip_item (x : item) : item :=
  match x with IPlain i => IPlain (strip_item0 i) | IInclude n src => IInclude n (map strip_item1 src) end.
Definition strip_other (P : program) : program := {| p_attrs := p_attrs P; p_items := map strip_item (p_items P) |}.

Definition map_result {A B} (f : A -> B) (r : result A) : result B :=
  match r with OK a => OK (f a) | Err e l => Err e l | Panic => Panic end.

Lemma item0_err_strip i : item0_err (strip_item0 i) = item0_err i.
Proof. destruct i; reflexivity. Qed.

Lemma scan_src_strip p q src : scan_src p q (map strip_item1 src) = map_result (map strip_item0) (scan_src p q src).
Proof.
  revert q; induction src as [|x tl IH]; intros q; simpl; [reflexivity|].
  destruct x as [i|n]; simpl; [| reflexivity]. rewrite item0_err_strip. destruct (item0_err i); [reflexivity|].
  rewrite IH. destruct (scan_src p (S q) tl); reflexivity.
Qed.

Lemma flatten_strip p its : flatten p (map strip_item its) = map_result (map strip_item0) (flatten p its).
Proof.
  revert p; induction its as [|x tl IH]; intros p; simpl; [reflexivity|].
  destruct x as [i|n src]; simpl.
  - rewrite item0_err_strip. destruct (item0_err i); [reflexivity|]. rewrite IH. destruct (flatten (S p) tl); reflexivity.
  - destruct (0 <? n); [reflexivity|]. rewrite scan_src_strip. destruct (scan_src p 0 src); simpl; try reflexivity.
    rewrite IH. destruct (flatten (S p) tl); simpl; try reflexivity. now rewrite map_app.
Qed.

Lemma macros_of_strip its : macros_of (map strip_item0 its) = macros_of its.
Proof. induction its as [|[d|n r|n m] tl IH]; simpl; congruence. Qed.
Lemma rules_of_strip its : rules_of (map strip_item0 its) = rules_of its.
Proof. induction its as [|[d|n r|n m] tl IH]; simpl; congruence. Qed.
Lemma decls_of_strip its : decls_of (map strip_item0 its) = map strip_decl (decls_of its).
Proof. induction its as [|[d|n r|n m] tl IH]; simpl; congruence. Qed.

Lemma lookup_rel_strip ds r : lookup_rel (map strip_decl ds) r = option_map strip_decl (lookup_rel ds r).
Proof.
  induction ds as [|d tl IH]; simpl; [reflexivity|]. rewrite IH. destruct (lookup_rel tl r); simpl; [reflexivity|].
  destruct (d_name d =? r); reflexivity.
Qed.

Lemma scan_events_strip ds ri ei g evs : scan_events (map strip_decl ds) ri ei g evs = scan_events ds ri ei g evs.
Proof.
  revert ei g; induction evs as [|ev tl IH]; intros ei g; simpl; [reflexivity|].
  destruct ev as [x|x|r n|x r]; [apply IH | destruct (mem x g); [reflexivity | apply IH] | | reflexivity].
  rewrite lookup_rel_strip. destruct (lookup_rel ds r); simpl; [| reflexivity]. destruct (_ =? _); [apply IH | reflexivity].
Qed.

Lemma mapM_ext {A B} (f g : nat -> A -> result B) : (forall i x, f i x = g i x) -> forall l i, mapM f i l = mapM g i l.
Proof. intros H; induction l as [|x tl IH]; intros i; simpl; [reflexivity | now rewrite H, IH]. Qed.

Lemma mapM_map {A B C} (f : nat -> B -> result C) (g : A -> B) l : forall i, mapM f i (map g l) = mapM (fun i x => f i (g x)) i l.
Proof. induction l as [|x tl IH]; intros i; simpl; [reflexivity | now rewrite IH]. Qed.

Lemma same_identity_strip a b : same_identity (strip_decl a) (strip_decl b) = same_identity a b.
Proof. reflexivity. Qed.

Lemma dedup_last_strip ds : dedup_last (map strip_decl ds) = map strip_decl (dedup_last ds).
Proof.
  induction ds as [|d tl IH]; simpl; [reflexivity|].
  assert (existsb (same_identity (strip_decl d)) (map strip_decl tl) = existsb (same_identity d) tl) as ->.
  { clear IH; induction tl as [|x tl IH]; simpl; [reflexivity | now rewrite IH]. }
  destruct (existsb (same_identity d) tl); simpl; now rewrite IH.
Qed.

Lemma filter_idem {A} (f : A -> bool) l : filter f (filter f l) = filter f l.
Proof. induction l as [|x tl IH]; simpl; [reflexivity|]. destruct (f x) eqn:E; simpl; [rewrite E; now f_equal | exact IH]. Qed.

Lemma check_decl_strip di d : check_decl di (strip_decl d) = check_decl di d.
Proof. unfold check_decl; simpl. now rewrite filter_idem. Qed.

Lemma is_lattice_strip ds r : is_lattice (map strip_decl ds) r = is_lattice ds r.
Proof. unfold is_lattice. rewrite lookup_rel_strip. now destruct (lookup_rel ds r). Qed.

Lemma body_panics_strip ds its : forall pre, body_panics (map strip_decl ds) pre its = body_panics ds pre its.
Proof.
  induction its as [|it tl IH]; intros pre; simpl; [reflexivity|]. rewrite IH. f_equal.
  destruct it; simpl; try reflexivity. now rewrite is_lattice_strip.
Qed.

Lemma check_items_strip c0 attrs k its : check_items c0 attrs k (map strip_item0 its) = check_items c0 attrs k its.
Proof.
  unfold check_items. rewrite macros_of_strip, rules_of_strip, decls_of_strip.
  destruct (expand_rules (macros_of its) (rules_of its)) as [xr| |]; cbn [bind]; try reflexivity.
  assert (check_rules (map strip_decl (decls_of its)) (ds_rules c0 xr) = check_rules (decls_of its) (ds_rules c0 xr)) as ->.
  { unfold check_rules. f_equal. apply mapM_ext. intros; apply scan_events_strip. }
  destruct (check_rules (decls_of its) (ds_rules c0 xr)); cbn [bind]; try reflexivity.
  destruct (check_attrs attrs k); cbn [bind]; try reflexivity.
  assert (check_decls (map strip_decl (decls_of its)) = check_decls (decls_of its)) as ->.
  { unfold check_decls. rewrite dedup_last_strip, mapM_map. f_equal. apply mapM_ext. intros; apply check_decl_strip. }
  destruct (check_decls (decls_of its)); cbn [bind]; try reflexivity.
  destruct (check_strat (ds_rules c0 xr)); cbn [bind]; try reflexivity.
  assert (codegen_panics (map strip_decl (decls_of its)) (ds_rules c0 xr) = codegen_panics (decls_of its) (ds_rules c0 xr)) as ->; [| reflexivity].
  unfold codegen_panics. induction (ds_rules c0 xr) as [|r tl IH]; simpl; [reflexivity|]. now rewrite body_panics_strip, IH.
Qed.

Theorem rel_attrs_passthrough c0 P k : check_loc c0 (strip_other P) k = check_loc c0 P k.
Proof.
  unfold check_loc, strip_other; simpl. rewrite flatten_strip.
  destruct (flatten 0 (p_items P)); simpl; try reflexivity. apply check_items_strip.
Qed.

(* ------------------------------------------------------------------ verdict-level statements *)

Lemma check_Accept c0 P k : check c0 P k = Accept <-> check_loc c0 P k = OK tt.
Proof. unfold check. destruct (check_loc c0 P k) as [[]| |]; simpl; split; congruence. Qed.
Lemma check_Reject c0 P k e : check c0 P k = Reject e <-> exists l, check_loc c0 P k = Err e l.
Proof.
  unfold check. destruct (check_loc c0 P k) as [[]|e' l|]; simpl; split; try congruence; try (intros [l' H]; congruence).
  intros H; injection H as ->; eauto.
Qed.
Lemma check_Panics c0 P k : check c0 P k = Panics <-> check_loc c0 P k = Panic.
Proof. unfold check. destruct (check_loc c0 P k) as [[]| |]; simpl; split; congruence. Qed.
Lemma check_not_Deferred c0 P k : check c0 P k <> Deferred.
Proof. unfold check. destruct (check_loc c0 P k); discriminate. Qed.

Theorem accept_sound_v c0 P k : check c0 P k = Accept -> well_formed c0 P k.
Proof. intros H; apply check_Accept in H. now apply accept_sound. Qed.

Theorem reject_complete_v c0 P k v : occurs c0 P k v ->
  exists e l, check c0 P k = Reject e /\ check_loc c0 P k = Err e l /\ loc_le l (vloc v) /\
              exists v', occurs c0 P k v' /\ vloc v' = l /\ verr v' = e.
Proof.
  intros Hv. destruct (reject_complete c0 P k v Hv) as [e [l [H1 H2]]]. exists e, l.
  split; [apply check_Reject; eauto|]. split; [exact H1|]. split; [exact H2 | now apply reject_sound].
Qed.

Theorem reject_sound_v c0 P k e : check c0 P k = Reject e -> exists v, occurs c0 P k v /\ verr v = e.
Proof. intros H; apply check_Reject in H as [l H]. apply reject_sound in H as [v [H1 [_ H2]]]. eauto. Qed.

Theorem single_class_rejected_v c0 P k v : occurs c0 P k v -> (forall v', occurs c0 P k v' -> verr v' = verr v) ->
  check c0 P k = Reject (verr v).
Proof. intros H1 H2. apply check_Reject. now apply single_class_rejected. Qed.

Theorem well_formed_verdict c0 P k : well_formed c0 P k -> check c0 P k = Accept \/ check c0 P k = Panics.
Proof. intros W. destruct (well_formed_not_rejected c0 P k W) as [H | H]; [left; now apply check_Accept | right; now apply check_Panics]. Qed.

Theorem well_formed_accepted c0 P k : well_formed c0 P k -> panic_guard P -> check c0 P k = Accept.
Proof.
  intros W G. destruct (well_formed_verdict c0 P k W) as [H | H]; [exact H|].
  apply check_Panics in H. now apply no_panic_guarded in H.
Qed.

Theorem panic_is_a_clause_panic_v c0 P k : check c0 P k = Panics ->
  exists its xr r, flatten 0 (p_items P) = OK its /\ expand_rules (macros_of its) (rules_of its) = OK xr /\
    In r (ds_rules c0 xr) /\ body_clause_panics (decls_of its) [] (c_body r) = true.
Proof. intros H; apply check_Panics in H. exact (panic_is_a_clause_panic c0 P k H). Qed.

Theorem panics_only_when_checks_pass_v c0 P k : check c0 P k = Panics -> well_formed c0 P k.
Proof. intros H; apply check_Panics in H. now apply panic_only_when_checks_pass. Qed.

(* invoking a self-referential macro (directly or through a cycle) with the right number of arguments is a violation *)
Theorem self_referential_occurs c0 P k S its ri r m args d :
  resolves P its -> self_referential (macros_of its) S -> S m -> lookup_macro (macros_of its) m = Some d ->
  length args = m_nparams d -> nth_error (rules_of its) ri = Some r -> In (SCall m args) (s_body r) ->
  occurs c0 P k (VMacro ri ERecursiveMacro).
Proof.
  intros Hr HS Hm Hd Hl Hn Hin. simpl. exists its, r. split; [exact Hr|]. split; [exact Hn|]. left.
  exists (SCall m args); split; [exact Hin|]. eapply self_referential_bad; eauto.
Qed.

(* ------------------------------------------------------------------ stage 0: every outer attribute reaches the item it is
   written in front of, whatever the position of the item and with or without a struct signature *)

Lemma hand_out_nil {X} (items : list (list rattr * X)) : hand_out [] items = items.
Proof. induction items as [|[own x] tl IH]; simpl; [reflexivity | now rewrite IH]. Qed.

Theorem distribute_exact {X} sig (items : list (list rattr * X)) : distribute sig items = (sig, items).
Proof.
  destruct sig as [a|]; unfold distribute; simpl.
  - now rewrite hand_out_nil.
  - destruct items as [|[a x] tl]; simpl; [reflexivity|]. rewrite hand_out_nil. destruct a; reflexivity.
Qed.

Lemma parse_src_eq src : parse_src src = map give1 src.
Proof. unfold parse_src. now rewrite distribute_exact. Qed.

Lemma parse_text_items T : p_items (parse_text T) = map give (t_items T).
Proof. unfold parse_text; simpl. now rewrite distribute_exact. Qed.

Lemma sig_attrs_exact T : sig_attrs T = t_sig T.
Proof. unfold sig_attrs. now rewrite distribute_exact. Qed.

Definition nonrel0 (b : bare0) : Prop := match b with BRel _ _ _ => False | _ => True end.

(* an attribute on a non-relation item: item p of the text (q = 0) or item q-1 of the source included at p *)
Inductive attr_on_nonrel (T : text) : nat -> nat -> Prop :=
| an_plain p a b : nth_error (t_items T) p = Some (a, BPlain b) -> a <> [] -> nonrel0 b -> attr_on_nonrel T p 0
| an_incl p a src : nth_error (t_items T) p = Some (a, BInclude src) -> a <> [] -> attr_on_nonrel T p 0
| an_src_plain p a src q a' b : nth_error (t_items T) p = Some (a, BInclude src) -> nth_error src q = Some (a', B1Plain b) ->
    a' <> [] -> nonrel0 b -> attr_on_nonrel T p (S q)
| an_src_incl p a src q a' : nth_error (t_items T) p = Some (a, BInclude src) -> nth_error src q = Some (a', B1Include) ->
    a' <> [] -> attr_on_nonrel T p (S q).

Lemma length_pos_nonnil {A} (a : list A) : 0 < length a <-> a <> [].
Proof. destruct a; simpl; split; intros H; try lia; try congruence. Qed.

Lemma give0_bad_attr a b : item0_bad (give0 a b) EUnexpectedAttr <-> a <> [] /\ nonrel0 b.
Proof.
  destruct b as [n tys lat | r | m]; simpl; split.
  - intros H; inversion H.
  - intros [_ []].
  - intros H; inversion H; subst. split; [now apply length_pos_nonnil | exact I].
  - intros [H _]; constructor; now apply length_pos_nonnil.
  - intros H; inversion H; subst. split; [now apply length_pos_nonnil | exact I].
  - intros [H _]; constructor; now apply length_pos_nonnil.
Qed.

Lemma nth_error_map_some {A B} (f : A -> B) l n y : nth_error (map f l) n = Some y <-> exists x, nth_error l n = Some x /\ f x = y.
Proof.
  revert n; induction l as [|x tl IH]; intros n; destruct n; simpl; split; try (intros [x0 [H _]]; discriminate); try discriminate.
  - intros H; injection H as <-; eauto.
  - intros [x0 [H <-]]; injection H as <-; reflexivity.
  - apply IH.
  - apply IH.
Qed.

(* the parse-level violation "unexpected attribute(s)" of the parsed text is exactly an attribute written in front of a
   rule, a macro definition or an include_source! *)
Theorem attr_on_nonrel_parse_bad T p q : parse_bad (p_items (parse_text T)) p q EUnexpectedAttr <-> attr_on_nonrel T p q.
Proof.
  rewrite parse_text_items, parse_bad_nth. split.
  - intros [x [Hn Hx]]. apply nth_error_map_some in Hn as [[a b] [Hn <-]]. unfold give in Hx; simpl in Hx.
    destruct b as [b|src]; simpl in Hx.
    + destruct Hx as [-> Hx]. apply give0_bad_attr in Hx as [Ha Hb]. eapply an_plain; eauto.
    + destruct Hx as [[-> [Ha _]] | [q' [-> Hb]]]; [eapply an_incl; eauto; now apply length_pos_nonnil|].
      rewrite parse_src_eq in Hb. apply src_bad_nth in Hb as [x1 [Hn1 Hx1]].
      apply nth_error_map_some in Hn1 as [[a' b1] [Hn1 <-]]. unfold give1 in Hx1; simpl in Hx1.
      destruct b1 as [b|]; simpl in Hx1.
      * apply give0_bad_attr in Hx1 as [Ha' Hb']. eapply an_src_plain; eauto.
      * destruct Hx1 as [[Ha' _] | [_ Hx1]]; [| discriminate]. eapply an_src_incl; eauto. now apply length_pos_nonnil.
  - intros H; destruct H as [p a b Hn Ha Hb | p a src Hn Ha | p a src q a' b Hn Hn' Ha' Hb | p a src q a' Hn Hn' Ha'].
    + exists (give (a, BPlain b)); split; [apply nth_error_map_some; eauto|]. unfold give; simpl. split; [reflexivity | now apply give0_bad_attr].
    + exists (give (a, BInclude src)); split; [apply nth_error_map_some; eauto|]. unfold give; simpl. left; split; [reflexivity|]. split; [now apply length_pos_nonnil | reflexivity].
    + exists (give (a, BInclude src)); split; [apply nth_error_map_some; eauto|]. unfold give; simpl. right; exists q; split; [reflexivity|].
      rewrite parse_src_eq. apply src_bad_nth. exists (give1 (a', B1Plain b)); split; [apply nth_error_map_some; eauto|].
      unfold give1; simpl. now apply give0_bad_attr.
    + exists (give (a, BInclude src)); split; [apply nth_error_map_some; eauto|]. unfold give; simpl. right; exists q; split; [reflexivity|].
      rewrite parse_src_eq. apply src_bad_nth. exists (give1 (a', B1Include)); split; [apply nth_error_map_some; eauto|].
      unfold give1; simpl. left; split; [now apply length_pos_nonnil | reflexivity].
Qed.

Theorem attr_on_nonrel_occurs c0 T k p q : attr_on_nonrel T p q -> occurs c0 (parse_text T) k (VParse p q EUnexpectedAttr).
Proof. intros H; simpl. now apply attr_on_nonrel_parse_bad. Qed.

(* rejection is complete for the class, at every position, with and without a signature *)
Theorem text_attr_rejected c0 T k p q : attr_on_nonrel T p q ->
  exists e l, check_text c0 T k = Reject e /\ check_loc c0 (parse_text T) k = Err e l /\ loc_le l (1, p, q).
Proof.
  intros H. apply (attr_on_nonrel_occurs c0 T k) in H. destruct (reject_complete _ _ _ _ H) as [e [l [H1 H2]]].
  exists e, l; split; [| split; [exact H1 | exact H2]]. unfold check_text, check. now rewrite H1.
Qed.

Lemma invoke_bad_not_attr ms m args e : invoke_bad ms m args e -> e <> EUnexpectedAttr.
Proof. intros H; destruct H; discriminate. Qed.
Lemma bad_item_not_attr ms f e it : bad_item ms f e it -> e <> EUnexpectedAttr.
Proof. intros H; induction H; [discriminate | eapply invoke_bad_not_attr; eauto | assumption]. Qed.
Lemma bad_hitem_not_attr ms f e h : bad_hitem ms f e h -> e <> EUnexpectedAttr.
Proof. intros H; induction H; [discriminate | eapply invoke_bad_not_attr; eauto | discriminate | assumption]. Qed.

(* ... and sound: "unexpected attribute(s)" is reported only for such an attribute *)
Theorem text_attr_reject_sound c0 T k : check_text c0 T k = Reject EUnexpectedAttr -> exists p q, attr_on_nonrel T p q.
Proof.
  unfold check_text, check. intros H. destruct (check_loc c0 (parse_text T) k) as [[]|e l|] eqn:E; simpl in H; try discriminate.
  injection H as ->. apply reject_sound in E as [v [Hv [_ He]]].
  destruct v as [p q e | ri e | ri ei e | j e | di j e | a rel]; simpl in He; subst; simpl in Hv.
  - exists p, q; now apply attr_on_nonrel_parse_bad.
  - exfalso. destruct Hv as [its [r [_ [_ [[it [_ Hb]] | [h [_ Hb]]]]]]].
    + now apply bad_item_not_attr in Hb.
    + now apply bad_hitem_not_attr in Hb.
  - exfalso. destruct Hv as [its [cr [r [_ [_ Hb]]]]]. inversion Hb.
  - exfalso. inversion Hv.
  - exfalso. destruct Hv as [its [d [_ [_ Hb]]]]. inversion Hb.
  - discriminate.
Qed.

(* the seeded shape, exactly: a signature-less text whose FIRST item is a rule, a macro definition or an include_source!
   carrying an attribute is rejected with this class by the invocation itself and by the resolved program *)
Theorem first_item_attr_rejected c0 T k a x tl : t_items T = (a, x) :: tl -> a <> [] ->
  match x with BPlain b => nonrel0 b | BInclude _ => True end ->
  invoke_text c0 T k = Reject EUnexpectedAttr /\ check_text c0 T k = Reject EUnexpectedAttr.
Proof.
  intros Hi Ha Hx. unfold invoke_text, check_text, invoke, check, check_loc. rewrite parse_text_items, Hi. simpl.
  apply length_pos_nonnil in Ha. apply Nat.ltb_lt in Ha.
  destruct x as [b|src]; unfold give; simpl.
  - destruct b as [n tys lat | r | m]; simpl in *; [contradiction | |]; rewrite Ha; simpl; auto.
  - rewrite Ha; simpl; auto.
Qed.

(* an attribute on a relation is never an error of this class: it is handed to the relation, first item or not *)
Theorem rel_attrs_reach_relation T p a n tys lat : nth_error (t_items T) p = Some (a, BPlain (BRel n tys lat)) ->
  nth_error (p_items (parse_text T)) p = Some (IPlain (IRel {| d_name := n; d_tys := tys; d_lat := lat; d_attrs := a |})).
Proof. intros H. rewrite parse_text_items. apply nth_error_map_some. eexists; split; [exact H | reflexivity]. Qed.

(* ------------------------------------------------------------------ patterns: what the helper reports vs what is bound *)

Section PatInd.
  Context {V : Type} (Q : pat V -> Prop).
  Hypothesis Hvar : forall x, Q (PVar x).
  Hypothesis Hat : forall x p, Q p -> Q (PAt x p).
  Hypothesis Hwild : Q PWild.
  Hypothesis Hparen : forall p, Q p -> Q (PParen p).
  Hypothesis Href : forall p, Q p -> Q (PRef p).
  Hypothesis Hseq : forall ps, Forall Q ps -> Q (PSeq ps).
  Fixpoint pat_ind' (p : pat V) : Q p :=
    match p with
    | PVar x => Hvar x
    | PAt x q => Hat x q (pat_ind' q)
    | PWild => Hwild
    | PParen q => Hparen q (pat_ind' q)
    | PRef q => Href q (pat_ind' q)
    | PSeq ps => Hseq ps ((fix go (l : list (pat V)) : Forall Q l :=
                            match l with [] => Forall_nil Q | x :: tl => Forall_cons x (pat_ind' x) (go tl) end) ps)
    end.
End PatInd.

(* no parenthesised sub-pattern *)
Fixpoint paren_free {V} (p : pat V) : bool :=
  match p with
  | PVar _ | PWild => true
  | PAt _ q | PRef q => paren_free q
  | PParen _ => false
  | PSeq ps => forallb paren_free ps
  end.

(* the helper never reports a variable the pattern does not bind *)
Theorem pat_vars_sound {V} b (p : pat V) : incl (pat_vars b p) (pat_binds p).
Proof.
  unfold pat_binds. induction p using pat_ind'; simpl.
  - apply incl_refl.
  - intros y Hy; simpl in Hy |- *. destruct Hy as [<- | Hy]; [now left | right; now apply IHp].
  - apply incl_refl.
  - destruct b; [exact IHp | intros y []].
  - exact IHp.
  - intros y Hy. apply in_flat_map in Hy as [q [Hq Hy]]. apply in_flat_map. exists q; split; [exact Hq|].
    rewrite Forall_forall in H. now apply (H q Hq).
Qed.

(* with the Pat::Paren arm it reports exactly the bound variables *)
Theorem pat_vars_complete_with_paren_arm {V} (p : pat V) : pat_vars true p = pat_binds p.
Proof. reflexivity. Qed.

(* without it, exactly on the patterns free of parentheses *)
Theorem pat_vars_complete_paren_free {V} (p : pat V) : paren_free p = true -> pat_vars false p = pat_binds p.
Proof.
  unfold pat_binds. induction p using pat_ind'; simpl; intros Hf; try reflexivity; try discriminate.
  - now rewrite IHp.
  - now apply IHp.
  - rewrite forallb_forall in Hf. rewrite Forall_forall in H. induction ps as [|q tl IH]; simpl; [reflexivity|].
    rewrite (H q (or_introl eq_refl)) by (apply Hf; now left). f_equal.
    apply IH; [intros x Hx; apply H; right; exact Hx | intros x Hx; apply Hf; right; exact Hx].
Qed.

Theorem get_vars_sound {V} (p : pat V) : incl (get_vars p) (pat_binds p).
Proof. apply pat_vars_sound. Qed.
