(* C15 — executable model of the static checks of the ascent macros (no proofs in this file).

   Mirrors, in the order in which the real code performs them, the decisions of
     ascent_macro/src/lib.rs          ascent_impl, ascent_source_impl
     ascent_macro/src/ascent_syntax.rs parse_ascent_program (attributes in front of rules / macros / include_source!,
                                       empty lattice, include_source!), rule_expand_macro_invocations (depth guard 100,
                                       undefined macro, argument count), desugar_ascent_program (pattern arguments,
                                       wild cards, negation, repeated variables with the process-wide fresh_ident)
     ascent_macro/src/ascent_hir.rs    compile_rule_to_ir_rule (grounded variables, extend_grounded_vars,
                                       prog_get_relation), AscentConfig::new, get_ds_attr, ds on a lattice
     ascent_macro/src/ascent_mir.rs    compile_hir_to_mir ("cannot be stratified")
     ascent_macro/src/ascent_codegen.rs the two `unwrap`s of compile_mir_rule_inner / clause_var_assignments that can
                                       fail (explicit Panic result; the first is unreachable since the check of
                                       commit 9b40028, proved in CheckProofs.v)

   What is abstracted: Rust expressions are opaque (only "is the argument a plain identifier" and the free variables of
   an expression argument matter to the checks); column types are names; a macro body mentions only its parameters
   (macro-local variables and their hygiene are the subject of C08); disjunctions are not modelled (C07).
   Identifiers: [Suf i 0] is the identifier i followed by "_", [Suf i (S k)] is i followed by "_" and the decimal S k —
   exactly the names fresh_ident produces, so that capture of a user variable by a generated one is expressible. *)
From Coq Require Import List Bool Arith PeanoNat.
Import ListNotations.

(* ------------------------------------------------------------------ identifiers *)

Inductive ident := Base (n : nat) | Suf (i : ident) (k : nat).

Fixpoint ident_eqb (a b : ident) : bool :=
  match a, b with
  | Base n, Base m => Nat.eqb n m
  | Suf i k, Suf j l => ident_eqb i j && Nat.eqb k l
  | _, _ => false
  end.

Definition mem (x : ident) (l : list ident) : bool := existsb (ident_eqb x) l.
Definition memn (x : nat) (l : list nat) : bool := existsb (Nat.eqb x) l.

(* the prefix fresh_ident is called with for a non-identifier argument: "expr_replaced" *)
Definition expr_replaced : ident := Base 0.

(* ------------------------------------------------------------------ surface syntax, over a type V of variables
   (V = ident in rules, V = nat (parameter index) in macro bodies) *)

Inductive arg (V : Type) :=
| AVar (x : V)               (* a plain identifier *)
| AExp (fv : list V)         (* any other expression (constant, call, ...) with its free variables *)
| AWild                      (* _ *)
| APat (bs : list V).        (* ?pattern, binding bs *)
Arguments AVar {V}. Arguments AExp {V}. Arguments AWild {V}. Arguments APat {V}.

Inductive cond (V : Type) :=
| CIf                        (* if e *)
| CLet (bs : list V)         (* let pat = e *)
| CIfLet (bs : list V).      (* if let pat = e *)
Arguments CIf {V}. Arguments CLet {V}. Arguments CIfLet {V}.

Inductive aarg (V : Type) := GWild | GVar (x : V) | GExp.
Arguments GWild {V}. Arguments GVar {V}. Arguments GExp {V}.

(* ------------------------------------------------------------------ patterns (syn_utils.rs pattern_get_vars)
   The lists [bs] above (APat, CLet, CIfLet) and below (SGen, SAgg) are what pattern_get_vars REPORTS for the pattern
   written in the rule; every consumer of bound variables in the real code (CondClause::bound_vars, BodyClauseArg::get_vars,
   the generator / aggregate arms of compile_rule_to_ir_rule, rule_desugar_repeated_vars, MirBodyItem::bound_vars) goes
   through that one helper.  [pat_vars paren] mirrors it arm by arm; [paren] says whether the helper has an arm for
   Pat::Paren.  The code under verification has none (the pattern falls into `_ => {}`), so the variables of a
   parenthesised sub-pattern are invisible to every check. *)

Inductive pat (V : Type) :=
| PVar (x : V)                   (* x, ref x, mut x        Pat::Ident without sub-pattern *)
| PAt (x : V) (p : pat V)        (* x @ p                  Pat::Ident with sub-pattern *)
| PWild                          (* _, literal, range, path, `..`   bind nothing *)
| PParen (p : pat V)             (* (p)                    Pat::Paren *)
| PRef (p : pat V)               (* &p                     Pat::Reference *)
| PSeq (ps : list (pat V)).      (* (p, ..) [p, ..] C(p, ..) C { f: p, .. }   Pat::Tuple / Slice / TupleStruct / Struct *)
Arguments PVar {V}. Arguments PAt {V}. Arguments PWild {V}. Arguments PParen {V}. Arguments PRef {V}. Arguments PSeq {V}.

Fixpoint pat_vars {V} (paren : bool) (p : pat V) : list V :=
  match p with
  | PVar x => [x]
  | PAt x q => x :: pat_vars paren q
  | PWild => []
  | PParen q => if paren then pat_vars paren q else []
  | PRef q => pat_vars paren q
  | PSeq ps => flat_map (pat_vars paren) ps
  end.

(* the variables the Rust pattern really binds *)
Definition pat_binds {V} (p : pat V) : list V := pat_vars true p.

(* whether pattern_get_vars has an arm for Pat::Paren: true since the repair d5a5c02 in /repo (false before it: a variable
   bound through a parenthesised pattern was invisible to the shadowing check and to grounding) *)
Definition pattern_get_vars_traverses_paren : bool := true.

(* pattern_get_vars of the code under verification *)
Definition get_vars {V} (p : pat V) : list V := pat_vars pattern_get_vars_traverses_paren p.

Inductive sitem (V : Type) :=
| SClause (rel : nat) (args : list (arg V)) (conds : list (cond V))
| SNeg (rel : nat) (nargs : nat)                                          (* !rel(e1, .., en) *)
| SAgg (pat : list V) (bound : list V) (rel : nat) (args : list (aarg V)) (* agg pat = f(bound) in rel(args) *)
| SCond (c : cond V)
| SGen (bs : list V)                                                      (* for pat in e *)
| SCall (m : nat) (args : list V).                                        (* m!(x1, .., xn) *)
Arguments SClause {V}. Arguments SNeg {V}. Arguments SAgg {V}. Arguments SCond {V}. Arguments SGen {V}. Arguments SCall {V}.

Inductive hitem (V : Type) := HClause (rel : nat) (nargs : nat) | HCall (m : nat) (args : list V).
Arguments HClause {V}. Arguments HCall {V}.

Definition cond_binds {V} (c : cond V) : list V :=
  match c with CIf => [] | CLet bs => bs | CIfLet bs => bs end.

Definition map_arg {V W} (f : V -> W) (a : arg V) : arg W :=
  match a with AVar x => AVar (f x) | AExp fv => AExp (map f fv) | AWild => AWild | APat bs => APat (map f bs) end.
Definition map_cond {V W} (f : V -> W) (c : cond V) : cond W :=
  match c with CIf => CIf | CLet bs => CLet (map f bs) | CIfLet bs => CIfLet (map f bs) end.
Definition map_aarg {V W} (f : V -> W) (a : aarg V) : aarg W :=
  match a with GWild => GWild | GVar x => GVar (f x) | GExp => GExp end.
Definition map_sitem {V W} (f : V -> W) (it : sitem V) : sitem W :=
  match it with
  | SClause rel args conds => SClause rel (map (map_arg f) args) (map (map_cond f) conds)
  | SNeg rel n => SNeg rel n
  | SAgg pat bound rel args => SAgg (map f pat) (map f bound) rel (map (map_aarg f) args)
  | SCond c => SCond (map_cond f c)
  | SGen bs => SGen (map f bs)
  | SCall m args => SCall m (map f args)
  end.

Definition arg_vars {V} (a : arg V) : list V :=
  match a with AVar x => [x] | AExp fv => fv | AWild => [] | APat bs => bs end.
Definition aarg_vars {V} (a : aarg V) : list V := match a with GVar x => [x] | _ => [] end.
Definition sitem_vars {V} (it : sitem V) : list V :=
  match it with
  | SClause _ args conds => flat_map arg_vars args ++ flat_map cond_binds conds
  | SNeg _ _ => []
  | SAgg pat bound _ args => pat ++ bound ++ flat_map aarg_vars args
  | SCond c => cond_binds c
  | SGen bs => bs
  | SCall _ args => args
  end.

(* ------------------------------------------------------------------ programs *)

Record macrodef := { m_name : nat; m_nparams : nat; m_body : list (sitem nat) }.
Record srule := { s_heads : list (hitem ident); s_body : list (sitem ident) }.

Inductive rattr := RDs | ROther.                 (* #[ds(..)] | any other attribute (handed to the struct field) *)
Record decl := { d_name : nat; d_tys : list nat; d_lat : bool; d_attrs : list rattr }.

Inductive item0 :=
| IRel (d : decl)
| IRule (nattrs : nat) (r : srule)               (* nattrs: number of #[..] written in front of the rule *)
| IMacro (nattrs : nat) (m : macrodef).
Inductive item1 := I1Plain (i : item0) | I1Include (nattrs : nat).      (* items of an ascent_source! body *)
Inductive item := IPlain (i : item0) | IInclude (nattrs : nat) (src : list item1).  (* include_source!(s), s's body *)

Inductive pattr := PMeasureRuleTimes | PGenerateRunTimeout | PInterRuleParallelism | PDs | PUnknown.
Record program := { p_attrs : list pattr; p_items : list item }.

Inductive mkind := KAscent | KAscentPar | KAscentRun | KAscentRunPar.
Definition is_par (k : mkind) : bool := match k with KAscentPar | KAscentRunPar => true | _ => false end.

(* ------------------------------------------------------------------ results *)

Inductive err :=
| EUnexpectedAttr                    (* "unexpected attribute(s)" *)
| EEmptyLattice                      (* "empty lattice is not allowed" *)
| EIncludeInSource                   (* "`ascent_source`s cannot contain `include_source!`" *)
| EUndefinedMacro                    (* "undefined macro" *)
| EMacroArgs                         (* "expected more arguments" / "unexpected token" *)
| EMacroSyntax                       (* the substituted macro body does not parse at the invocation position *)
| ERecursiveMacro                    (* "recursively defined Ascent macro" *)
| EUndeclared (rel : nat)            (* "relation `r` is not defined" *)
| EArity (rel expected found : nat)  (* "wrong arity for relation `r` (expected e, found f)" *)
| EShadow (x : ident)                (* "`x` shadows another variable with the same name" *)
| EAggVar (x : ident) (rel : nat)    (* "aggregated variable `x` is not an argument of relation `r`" (since 9b40028) *)
| EUnknownAttr                       (* "unrecognized attribute. recognized attributes are: .." *)
| EInterRuleSerial                   (* "attribute only allowed in parallel Ascent" *)
| EMultipleDsProg                    (* "multiple `ds` attributes specified" (program level) *)
| EMultipleDs (rel : nat)            (* "multiple `ds` attributes specified" (on a relation) *)
| EDsOnLattice (rel : nat)           (* "`lattice`s cannot have custom data structure providers" *)
| ENotStratified (rel : nat).        (* "use of aggregated relation `r` cannot be stratified" *)

(* where an error was detected: (stage, i, j), compared lexicographically = detection order *)
Definition loc := (nat * nat * nat)%type.

Inductive result (A : Type) := OK (a : A) | Err (e : err) (l : loc) | Panic.
Arguments OK {A}. Arguments Err {A}. Arguments Panic {A}.

Definition bind {A B} (r : result A) (f : A -> result B) : result B :=
  match r with OK a => f a | Err e l => Err e l | Panic => Panic end.

Fixpoint mapM {A B} (f : nat -> A -> result B) (i : nat) (l : list A) : result (list B) :=
  match l with
  | [] => OK []
  | x :: tl => bind (f i x) (fun y => bind (mapM f (S i) tl) (fun ys => OK (y :: ys)))
  end.

Fixpoint mapM_flat {A B} (f : A -> result (list B)) (l : list A) : result (list B) :=
  match l with
  | [] => OK []
  | x :: tl => bind (f x) (fun y => bind (mapM_flat f tl) (fun ys => OK (y ++ ys)))
  end.

(* ------------------------------------------------------------------ stage 1: parse_ascent_program / include_source *)

Definition item0_err (i : item0) : option err :=
  match i with
  | IRel d => if d_lat d && (length (d_tys d) =? 0) then Some EEmptyLattice else None
  | IRule n _ => if 0 <? n then Some EUnexpectedAttr else None
  | IMacro n _ => if 0 <? n then Some EUnexpectedAttr else None
  end.

(* ascent_source_impl on the body of the included source: item q of the source included at top-level position p *)
Fixpoint scan_src (p q : nat) (src : list item1) : result (list item0) :=
  match src with
  | [] => OK []
  | I1Plain i :: tl =>
      match item0_err i with
      | Some e => Err e (1, p, S q)
      | None => bind (scan_src p (S q) tl) (fun r => OK (i :: r))
      end
  | I1Include n :: _ => Err (if 0 <? n then EUnexpectedAttr else EIncludeInSource) (1, p, S q)
  end.

(* the program text after every include_source! has been replaced by the body of its source (what the chain of
   re-invocations of the macro finally parses), or the first parse-level error on the way *)
Fixpoint flatten (p : nat) (its : list item) : result (list item0) :=
  match its with
  | [] => OK []
  | IPlain i :: tl =>
      match item0_err i with
      | Some e => Err e (1, p, 0)
      | None => bind (flatten (S p) tl) (fun r => OK (i :: r))
      end
  | IInclude n src :: tl =>
      if 0 <? n then Err EUnexpectedAttr (1, p, 0)
      else bind (scan_src p 0 src) (fun s => bind (flatten (S p) tl) (fun r => OK (s ++ r)))
  end.

(* one invocation of the macro: None = an include_source! was reached (the macro emits the call of the source's
   macro_rules and checks nothing else) *)
Fixpoint scan_top (p : nat) (its : list item) : result (option (list item0)) :=
  match its with
  | [] => OK (Some [])
  | IPlain i :: tl =>
      match item0_err i with
      | Some e => Err e (1, p, 0)
      | None => bind (scan_top (S p) tl) (fun r => OK (option_map (cons i) r))
      end
  | IInclude n _ :: _ => if 0 <? n then Err EUnexpectedAttr (1, p, 0) else OK None
  end.

Definition decls_of (its : list item0) : list decl :=
  flat_map (fun i => match i with IRel d => [d] | _ => [] end) its.
Definition macros_of (its : list item0) : list macrodef :=
  flat_map (fun i => match i with IMacro _ m => [m] | _ => [] end) its.
Definition rules_of (its : list item0) : list srule :=
  flat_map (fun i => match i with IRule _ r => [r] | _ => [] end) its.

(* ------------------------------------------------------------------ stage 0: the text, and who gets which outer attribute
   parse_ascent_program reads   #![inner]*  #[outer]*  (struct signature)?  ( #[outer]* item )*   and must decide whom the
   outer attributes at the top belong to before it knows whether a signature follows:

     let mut struct_attrs = Attribute::parse_outer(input)?;
     let signatures = if input.peek(pub) || input.peek(struct) { .. signatures.declaration.attrs = take(&mut struct_attrs) .. };
     while !input.is_empty() {
        let attrs = if !struct_attrs.is_empty() { take(&mut struct_attrs) } else { Attribute::parse_outer(input)? };
        relation / lattice => relation_node.attrs = attrs
        macro / include_source! / rule => if !attrs.is_empty() { Err("unexpected attribute(s)") }

   A text is the signature (None, or Some of the attributes written in front of it) and the items, each with the
   attributes written in front of it.  [program] (above) is what the checks see: each item with the attributes the
   parser HANDED it.  The same parser validates the body of an ascent_source! (no signature there). *)

Inductive bare0 :=
| BRel (name : nat) (tys : list nat) (lat : bool)
| BRule (r : srule)
| BMacro (m : macrodef).
Inductive bare1 := B1Plain (b : bare0) | B1Include.
Inductive bare := BPlain (b : bare0) | BInclude (src : list (list rattr * bare1)).

Record text := { t_attrs : list pattr; t_sig : option (list rattr); t_items : list (list rattr * bare) }.

Definition is_nil {A} (l : list A) : bool := match l with [] => true | _ => false end.

(* the first Attribute::parse_outer: it consumes the attributes in front of whatever comes first, the signature or,
   without one, the first item (whose own parse_outer then finds nothing) *)
Definition take_lead {X} (sig : option (list rattr)) (items : list (list rattr * X)) : list rattr * list (list rattr * X) :=
  match sig with
  | Some a => (a, items)
  | None => match items with [] => ([], []) | (a, x) :: tl => (a, ([], x) :: tl) end
  end.

(* the item loop; [pending] = struct_attrs *)
Fixpoint hand_out {X} (pending : list rattr) (items : list (list rattr * X)) : list (list rattr * X) :=
  match items with
  | [] => []
  | (own, x) :: tl => ((if is_nil pending then own else pending), x) :: hand_out [] tl
  end.

(* (what the struct receives, the items with what each receives) *)
Definition distribute {X} (sig : option (list rattr)) (items : list (list rattr * X)) : option (list rattr) * list (list rattr * X) :=
  match sig with
  | Some _ => (Some (fst (take_lead sig items)), hand_out [] (snd (take_lead sig items)))
  | None => (None, hand_out (fst (take_lead sig items)) (snd (take_lead sig items)))
  end.

Definition give0 (attrs : list rattr) (b : bare0) : item0 :=
  match b with
  | BRel n tys lat => IRel {| d_name := n; d_tys := tys; d_lat := lat; d_attrs := attrs |}
  | BRule r => IRule (length attrs) r
  | BMacro m => IMacro (length attrs) m
  end.
Definition give1 (x : list rattr * bare1) : item1 :=
  match snd x with B1Plain b => I1Plain (give0 (fst x) b) | B1Include => I1Include (length (fst x)) end.
Definition parse_src (src : list (list rattr * bare1)) : list item1 := map give1 (snd (distribute None src)).
Definition give (x : list rattr * bare) : item :=
  match snd x with BPlain b => IPlain (give0 (fst x) b) | BInclude src => IInclude (length (fst x)) (parse_src src) end.

Definition parse_text (T : text) : program :=
  {| p_attrs := t_attrs T; p_items := map give (snd (distribute (t_sig T) (t_items T))) |}.
(* what signatures.declaration.attrs becomes (emitted on the generated struct; checked by rustc only) *)
Definition sig_attrs (T : text) : option (list rattr) := fst (distribute (t_sig T) (t_items T)).

(* ------------------------------------------------------------------ stage 2: macro expansion *)

(* HashMap<name, def> collected in order: the last definition of a name wins *)
Fixpoint lookup_macro (ms : list macrodef) (m : nat) : option macrodef :=
  match ms with
  | [] => None
  | d :: tl => match lookup_macro tl m with Some d' => Some d' | None => if m_name d =? m then Some d else None end
  end.

Definition params_ok (d : macrodef) : bool :=
  forallb (fun it => forallb (fun j => j <? m_nparams d) (sitem_vars it)) (m_body d).

Definition subst_body (d : macrodef) (args : list ident) : list (sitem ident) :=
  map (map_sitem (fun j => nth j args expr_replaced)) (m_body d).

(* the checks of one invocation, in the order of body_item_expand_macros / invoke_macro *)
Definition invoke_macro (ms : list macrodef) (l : loc) (m : nat) (args : list ident) : result (list (sitem ident)) :=
  match lookup_macro ms m with
  | None => Err EUndefinedMacro l
  | Some d =>
      if negb (length args =? m_nparams d) then Err EMacroArgs l
      else if negb (params_ok d) then Err EMacroSyntax l
      else OK (subst_body d args)
  end.

Fixpoint expand_item (ms : list macrodef) (l : loc) (fuel : nat) (it : sitem ident) : result (list (sitem ident)) :=
  match fuel with
  | 0 => Err ERecursiveMacro l
  | S f =>
      match it with
      | SCall m args => bind (invoke_macro ms l m args) (mapM_flat (expand_item ms l f))
      | _ => OK [it]
      end
  end.

Definition is_pat {V} (a : arg V) : bool := match a with APat _ => true | _ => false end.

(* a substituted macro body parsed in head position *)
Definition to_head (it : sitem ident) : option (hitem ident) :=
  match it with
  | SClause rel args [] => if existsb is_pat args then None else Some (HClause rel (length args))
  | SCall m args => Some (HCall m args)
  | _ => None
  end.

Fixpoint to_heads (its : list (sitem ident)) : option (list (hitem ident)) :=
  match its with
  | [] => Some []
  | it :: tl => match to_head it, to_heads tl with Some h, Some hs => Some (h :: hs) | _, _ => None end
  end.

Fixpoint expand_hitem (ms : list macrodef) (l : loc) (fuel : nat) (h : hitem ident) : result (list (nat * nat)) :=
  match fuel with
  | 0 => Err ERecursiveMacro l
  | S f =>
      match h with
      | HClause rel n => OK [(rel, n)]
      | HCall m args =>
          bind (invoke_macro ms l m args) (fun its =>
            match to_heads its with
            | None => Err EMacroSyntax l
            | Some hs => mapM_flat (expand_hitem ms l f) hs
            end)
      end
  end.

Definition macro_depth : nat := 100.

Record xrule := { x_heads : list (nat * nat); x_body : list (sitem ident) }.

Definition expand_rule (ms : list macrodef) (ri : nat) (r : srule) : result xrule :=
  bind (mapM_flat (expand_item ms (2, ri, 0) macro_depth) (s_body r)) (fun b =>
  bind (mapM_flat (expand_hitem ms (2, ri, 0) macro_depth) (s_heads r)) (fun h =>
  OK {| x_heads := h; x_body := b |})).

Definition expand_rules (ms : list macrodef) (rs : list srule) : result (list xrule) := mapM (expand_rule ms) 0 rs.

(* ------------------------------------------------------------------ desugaring (no errors) *)

Inductive carg :=
| KVar (x : ident)      (* an identifier *)
| KExp                  (* an expression: always part of the index *)
| KFresh.               (* a generated identifier of the reserved name space (__1, __arg_pattern_, ..) *)

Inductive citem :=
| CClause (rel : nat) (args : list carg) (cbinds : list (list ident))  (* cond clauses: the variables each binds *)
| CAgg (pat bound : list ident) (rel : nat) (args : list (aarg ident))
| CBind (bs : list ident).                                             (* if / let / if let / for *)

Record crule := { c_heads : list (nat * nat); c_body : list citem }.

(* IDENT_COUNTERS *)
Definition counters := list (ident * nat).
Definition cget (cnt : counters) (p : ident) : nat :=
  match find (fun e => ident_eqb (fst e) p) cnt with Some e => snd e | None => 0 end.
Definition fresh (cnt : counters) (p : ident) : ident * counters := (Suf p (cget cnt p), (p, S (cget cnt p)) :: cnt).

Definition pat_conds (args : list (arg ident)) : list (list ident) :=
  flat_map (fun a => match a with APat bs => [bs] | _ => [] end) args.

(* rule_desugar_repeated_vars on one clause: [before] = variables grounded by earlier items (as that pass sees them),
   [here] = variables first grounded by an earlier argument of this clause *)
Fixpoint ds_args (before here : list ident) (cnt : counters) (args : list (arg ident)) : list carg * (list ident * counters) :=
  match args with
  | [] => ([], (here, cnt))
  | AVar x :: tl =>
      if mem x here then
        let r := ds_args before here (snd (fresh cnt x)) tl in (KVar (fst (fresh cnt x)) :: fst r, snd r)
      else
        let r := ds_args before (if mem x before then here else here ++ [x]) cnt tl in (KVar x :: fst r, snd r)
  | AExp fv :: tl =>
      if existsb (fun v => mem v here) fv then
        let r := ds_args before here (snd (fresh cnt expr_replaced)) tl in (KVar (fst (fresh cnt expr_replaced)) :: fst r, snd r)
      else
        let r := ds_args before here cnt tl in (KExp :: fst r, snd r)
  | AWild :: tl => let r := ds_args before here cnt tl in (KFresh :: fst r, snd r)
  | APat _ :: tl => let r := ds_args before here cnt tl in (KFresh :: fst r, snd r)
  end.

Definition ds_item (st : list ident * counters) (it : sitem ident) : citem * (list ident * counters) :=
  match it with
  | SClause rel args conds =>
      let r := ds_args (fst st) [] (snd st) args in
      (* since fd71eb0 the variables bound by the conditions attached to the clause (incl. the desugared pattern
         arguments) are grounded for the items that follow *)
      (CClause rel (fst r) (pat_conds args ++ map cond_binds conds),
       (fst st ++ fst (snd r) ++ concat (pat_conds args ++ map cond_binds conds), snd (snd r)))
  | SNeg rel n => (CAgg [] [] rel (repeat GExp n), st)
  | SAgg pat bound rel args => (CAgg pat bound rel args, (fst st ++ pat, snd st))
  | SCond c => (CBind (cond_binds c), (fst st ++ cond_binds c, snd st))
  | SGen bs => (CBind bs, (fst st ++ bs, snd st))
  | SCall _ _ => (CBind [], st)      (* does not occur after expansion *)
  end.

Fixpoint ds_body (st : list ident * counters) (its : list (sitem ident)) : list citem * counters :=
  match its with
  | [] => ([], snd st)
  | it :: tl => let r := ds_item st it in let r' := ds_body (snd r) tl in (fst r :: fst r', snd r')
  end.

Fixpoint ds_rules (cnt : counters) (rs : list xrule) : list crule :=
  match rs with
  | [] => []
  | r :: tl => let b := ds_body ([], cnt) (x_body r) in {| c_heads := x_heads r; c_body := fst b |} :: ds_rules (snd b) tl
  end.

(* ------------------------------------------------------------------ stage 3: compile_rule_to_ir_rule *)

Inductive event :=
| EvJoin (x : ident)             (* identifier argument of a body clause: binds when new, joins otherwise *)
| EvBind (x : ident)             (* extend_grounded_vars: must be new *)
| EvRel (rel nargs : nat)        (* prog_get_relation *)
| EvAggMissing (x : ident) (rel : nat).  (* aggregated variable x that is not an argument of the aggregated relation *)

Definition is_gvar (b : ident) (a : aarg ident) : bool := match a with GVar x => ident_eqb x b | _ => false end.
(* the aggregated variables that do not occur among the arguments of the aggregated relation *)
Definition agg_missing (bound : list ident) (args : list (aarg ident)) : list ident :=
  filter (fun b => negb (existsb (is_gvar b) args)) bound.

Definition cvars (args : list carg) : list ident := flat_map (fun a => match a with KVar x => [x] | _ => [] end) args.

Definition item_events (it : citem) : list event :=
  match it with
  | CClause rel args cb => map EvJoin (cvars args) ++ EvRel rel (length args) :: map EvBind (concat cb)
  | CAgg pat bound rel args => map EvBind pat ++ EvRel rel (length args) :: map (fun b => EvAggMissing b rel) (agg_missing bound args)
  | CBind bs => map EvBind bs
  end.

Definition rule_events (r : crule) : list event :=
  flat_map item_events (c_body r) ++ map (fun h => EvRel (fst h) (snd h)) (c_heads r).

(* prog.relations.iter().rev().find(name): the last declaration of the name *)
Fixpoint lookup_rel (ds : list decl) (r : nat) : option decl :=
  match ds with
  | [] => None
  | d :: tl => match lookup_rel tl r with Some d' => Some d' | None => if d_name d =? r then Some d else None end
  end.

Definition event_vars (evs : list event) : list ident :=
  flat_map (fun e => match e with EvJoin x => [x] | EvBind x => [x] | EvRel _ _ => [] | EvAggMissing _ _ => [] end) evs.

(* [g]: grounded_vars; ri, ei: rule and event index *)
Fixpoint scan_events (ds : list decl) (ri ei : nat) (g : list ident) (evs : list event) : result unit :=
  match evs with
  | [] => OK tt
  | EvJoin x :: tl => scan_events ds ri (S ei) (x :: g) tl
  | EvBind x :: tl => if mem x g then Err (EShadow x) (3, ri, ei) else scan_events ds ri (S ei) (x :: g) tl
  | EvRel r n :: tl =>
      match lookup_rel ds r with
      | None => Err (EUndeclared r) (3, ri, ei)
      | Some d => if length (d_tys d) =? n then scan_events ds ri (S ei) g tl else Err (EArity r (length (d_tys d)) n) (3, ri, ei)
      end
  | EvAggMissing x r :: _ => Err (EAggVar x r) (3, ri, ei)
  end.

Definition check_rules (ds : list decl) (rs : list crule) : result unit :=
  bind (mapM (fun ri r => scan_events ds ri 0 [] (rule_events r)) 0 rs) (fun _ => OK tt).

(* ------------------------------------------------------------------ stage 4: AscentConfig::new *)

Definition is_unknown (a : pattr) : bool := match a with PUnknown => true | _ => false end.
Definition is_irp (a : pattr) : bool := match a with PInterRuleParallelism => true | _ => false end.
Definition is_pds (a : pattr) : bool := match a with PDs => true | _ => false end.
Definition is_rds (a : rattr) : bool := match a with RDs => true | _ => false end.

Definition check_attrs (attrs : list pattr) (k : mkind) : result unit :=
  if existsb is_unknown attrs then Err EUnknownAttr (4, 0, 0)
  else if existsb is_irp attrs && negb (is_par k) then Err EInterRuleSerial (4, 1, 0)
  else if 2 <=? length (filter is_pds attrs) then Err EMultipleDsProg (4, 2, 0)
  else OK tt.

(* ------------------------------------------------------------------ stage 5: relation attributes *)

Fixpoint list_eqb (a b : list nat) : bool :=
  match a, b with
  | [], [] => true
  | x :: a', y :: b' => (x =? y) && list_eqb a' b'
  | _, _ => false
  end.

(* RelationIdentity: name, column types, lattice flag *)
Definition same_identity (a b : decl) : bool :=
  (d_name a =? d_name b) && list_eqb (d_tys a) (d_tys b) && Bool.eqb (d_lat a) (d_lat b).

(* dedup_all_keep_last_by *)
Fixpoint dedup_last (ds : list decl) : list decl :=
  match ds with
  | [] => []
  | d :: tl => if existsb (same_identity d) tl then dedup_last tl else d :: dedup_last tl
  end.

Definition check_decl (di : nat) (d : decl) : result unit :=
  if 2 <=? length (filter is_rds (d_attrs d)) then Err (EMultipleDs (d_name d)) (5, di, 0)
  else if d_lat d && (1 <=? length (filter is_rds (d_attrs d))) then Err (EDsOnLattice (d_name d)) (5, di, 1)
  else OK tt.

Definition check_decls (ds : list decl) : result unit :=
  bind (mapM check_decl 0 (dedup_last ds)) (fun _ => OK tt).

(* ------------------------------------------------------------------ stage 6: stratification (compile_hir_to_mir)
   The real code condenses the rule dependency graph into SCCs and rejects an aggregate over a relation that occurs
   in a head of the aggregating rule's own SCC.  A rule b with r in a head always feeds the rule a that aggregates r,
   so "a and b in one SCC" is "a reaches b"; the model computes reachability instead of SCCs. *)

Definition body_rels (r : crule) : list nat :=
  flat_map (fun it => match it with CClause rel _ _ => [rel] | CAgg _ _ rel _ => [rel] | CBind _ => [] end) (c_body r).
Definition agg_rels (r : crule) : list nat :=
  flat_map (fun it => match it with CAgg _ _ rel _ => [rel] | _ => [] end) (c_body r).
Definition head_rels (r : crule) : list nat := map fst (c_heads r).

Definition empty_rule : crule := {| c_heads := []; c_body := [] |}.

(* rule i derives a relation that rule j reads *)
Definition edge (rs : list crule) (i j : nat) : bool :=
  existsb (fun h => memn h (body_rels (nth j rs empty_rule))) (head_rels (nth i rs empty_rule)).

Definition succs (rs : list crule) (i : nat) : list nat := filter (edge rs i) (seq 0 (length rs)).

Fixpoint reach (rs : list crule) (n : nat) (i : nat) : list nat :=
  match n with
  | 0 => [i]
  | S n' => nodup Nat.eq_dec (reach rs n' i ++ flat_map (succs rs) (reach rs n' i))
  end.

Definition produces (rs : list crule) (rel : nat) (b : nat) : bool := memn rel (head_rels (nth b rs empty_rule)).

(* the aggregated relations of rule a that are derived by a rule reachable from a *)
Definition strat_bad_of (rs : list crule) (a : nat) : list nat :=
  filter (fun rel => existsb (produces rs rel) (reach rs (length rs) a)) (agg_rels (nth a rs empty_rule)).

Definition strat_offenders (rs : list crule) : list (nat * nat) :=
  flat_map (fun a => map (fun rel => (a, rel)) (strat_bad_of rs a)) (seq 0 (length rs)).

Definition check_strat (rs : list crule) : result unit :=
  match strat_offenders rs with
  | [] => OK tt
  | (a, rel) :: _ => Err (ENotStratified rel) (6, a, 0)
  end.

(* ------------------------------------------------------------------ stage 7: code generation (panics only) *)

Definition item_binds (it : citem) : list ident :=      (* MirBodyItem::bound_vars *)
  match it with
  | CClause _ args cb => cvars args ++ concat cb
  | CAgg pat _ _ _ => pat
  | CBind bs => bs
  end.

(* clause_var_assignments: a new variable of the clause sits at a position that belongs to the index *)
Fixpoint dup_new (pre earlier : list ident) (args : list carg) : bool :=
  match args with
  | [] => false
  | KVar v :: tl => (negb (mem v pre) && mem v earlier) || dup_new pre (v :: earlier) tl
  | _ :: tl => dup_new pre earlier tl
  end.

Definition is_lattice (ds : list decl) (rel : nat) : bool :=
  match lookup_rel ds rel with Some d => d_lat d | None => false end.

Definition item_panics (ds : list decl) (pre : list ident) (it : citem) : bool :=
  match it with
  | CClause rel args _ => negb (is_lattice ds rel) && dup_new pre [] args
  | CAgg _ bound _ args => negb (length (agg_missing bound args) =? 0)   (* the unwrap of compile_mir_rule_inner; guarded by the rule stage since 9b40028 *)
  | CBind _ => false
  end.

Fixpoint body_panics (ds : list decl) (pre : list ident) (its : list citem) : bool :=
  match its with
  | [] => false
  | it :: tl => item_panics ds pre it || body_panics ds (pre ++ item_binds it) tl
  end.

Definition codegen_panics (ds : list decl) (rs : list crule) : bool :=
  existsb (fun r => body_panics ds [] (c_body r)) rs.

(* ------------------------------------------------------------------ the whole front end *)

(* everything after parsing; c0 = state of the process-wide IDENT_COUNTERS when the macro is invoked *)
Definition check_items (c0 : counters) (attrs : list pattr) (k : mkind) (its : list item0) : result unit :=
  bind (expand_rules (macros_of its) (rules_of its)) (fun xr =>
  let cr := ds_rules c0 xr in
  bind (check_rules (decls_of its) cr) (fun _ =>
  bind (check_attrs attrs k) (fun _ =>
  bind (check_decls (decls_of its)) (fun _ =>
  bind (check_strat cr) (fun _ =>
  if codegen_panics (decls_of its) cr then Panic else OK tt))))).

(* the verdict on a program once every include_source! is resolved (what rustc finally reports) *)
Definition check_loc (c0 : counters) (P : program) (k : mkind) : result unit :=
  bind (flatten 0 (p_items P)) (check_items c0 (p_attrs P) k).

Inductive verdict := Accept | Deferred | Reject (e : err) | Panics.

Definition verdict_of (r : result unit) : verdict :=
  match r with OK _ => Accept | Err e _ => Reject e | Panic => Panics end.

Definition check (c0 : counters) (P : program) (k : mkind) : verdict := verdict_of (check_loc c0 P k).

(* one invocation of ascent_impl (what the in-process driver observes) *)
Definition invoke (c0 : counters) (P : program) (k : mkind) : verdict :=
  match scan_top 0 (p_items P) with
  | OK None => Deferred
  | OK (Some its) => verdict_of (check_items c0 (p_attrs P) k its)
  | Err e _ => Reject e
  | Panic => Panics
  end.

(* every (rule, relation) the stratification check could name (the real code reports the first one in the order of
   its SCC traversal, which the model does not mirror) *)
Definition offenders (c0 : counters) (P : program) : list (nat * nat) :=
  match flatten 0 (p_items P) with
  | OK its => match expand_rules (macros_of its) (rules_of its) with OK xr => strat_offenders (ds_rules c0 xr) | _ => [] end
  | _ => []
  end.

(* ------------------------------------------------------------------ the front end on a text *)

Definition check_text (c0 : counters) (T : text) (k : mkind) : verdict := check c0 (parse_text T) k.
Definition invoke_text (c0 : counters) (T : text) (k : mkind) : verdict := invoke c0 (parse_text T) k.
