(* C15 — attributes as they are SPELLED (no proofs in this file; laws in Check/AttrPathsLaws.v).

   CheckModel.v classifies an attribute before the model sees it ([pattr]: one of the four recognised program attributes or
   PUnknown; [rattr]: ds or anything else).  That classification is itself a decision of the real code, taken on the PATH of
   the attribute, and it is taken differently at different sites:

     ascent_hir.rs  AscentConfig::new       attr.meta.path().is_ident(NAME)                 (program attributes, #![..])
                    get_ds_attr             attr.meta.path().get_ident().is_some_and(== ds)   (program and relation)
                    relations_metadata      get_ident().map_or(true, not recognised)          (what is handed to the struct field)
     ascent_syntax.rs parse_ascent_program  !attrs.is_empty()                                 (rule / macro / include_source!)

   syn::Path::get_ident is Some only for a path WITHOUT leading `::` that has exactly ONE segment; is_ident(n) is
   "get_ident is Some(n)".  So `#![ascent::measure_rule_times]`, `#![::ds(..)]`, `#![my_tools::profile(level = 3)]` are not
   recognised, whatever their last segment is, and must be reported as unrecognised attributes.

   Here an attribute is data: its path (leading `::`, segments) and the form of its arguments (none / a delimited list /
   `= value`).  The argument form matters to the real code only for the recognised names: the three flags must be bare
   paths (Meta::require_path_only, looked up with `find`: only the FIRST attribute of that name is examined), ds must be a
   list (Meta::require_list) whose tokens parse as `path (: args)?` (DsAttributeContents).

   [sp_check] / [sp_invoke] are the front end on a text with spelled attributes: the stages of CheckModel.v, with stage 4
   (program attributes) and stage 5 (relation attributes) deciding on the spelling.  [lower_text] forgets the spelling the
   way the real code classifies it; on texts whose recognised attributes have well-formed arguments the two models agree
   (AttrPathsLaws.sp_check_conservative). *)
From Coq Require Import List Bool Arith PeanoNat.
From AV Require Import Check.CheckModel.
Import ListNotations.

(* ------------------------------------------------------------------ spelling *)

(* identifiers of path segments are numbers; the recognised names have fixed ones *)
Definition n_measure_rule_times : nat := 0.
Definition n_generate_run_timeout : nat := 1.
Definition n_inter_rule_parallelism : nat := 2.
Definition n_ds : nat := 3.

Record apath := { ap_lead : bool;            (* written with a leading `::` *)
                  ap_segs : list nat }.      (* the segments, at least one *)

Inductive aargs :=
| ArgNone                    (* #[path]                       Meta::Path *)
| ArgList (ds_ok : bool)     (* #[path(..)] #[path[..]] #[path{..}]   Meta::List; ds_ok: the tokens parse as DsAttributeContents *)
| ArgEq.                     (* #[path = value]               Meta::NameValue *)

Record sattr := { sa_path : apath; sa_args : aargs }.

(* syn::Path::get_ident / is_ident *)
Definition get_ident (p : apath) : option nat :=
  if ap_lead p then None else match ap_segs p with [s] => Some s | _ => None end.
Definition is_ident (p : apath) (n : nat) : bool :=
  match get_ident p with Some s => s =? n | None => false end.
Definition named (n : nat) (a : sattr) : bool := is_ident (sa_path a) n.

(* ------------------------------------------------------------------ what the real code makes of a spelling (= CheckModel's classes) *)

Definition lower_p (a : sattr) : pattr :=
  if named n_measure_rule_times a then PMeasureRuleTimes
  else if named n_generate_run_timeout a then PGenerateRunTimeout
  else if named n_inter_rule_parallelism a then PInterRuleParallelism
  else if named n_ds a then PDs
  else PUnknown.
Definition lower_r (a : sattr) : rattr := if named n_ds a then RDs else ROther.

(* ------------------------------------------------------------------ texts with spelled attributes (CheckModel.text) *)

Inductive sbare := SBPlain (b : bare0) | SBInclude (src : list (list sattr * bare1)).
Record stext := { st_attrs : list sattr;                       (* #![..] *)
                  st_sig : option (list sattr);                 (* #[..] struct Name; *)
                  st_items : list (list sattr * sbare) }.       (* #[..] item *)

Definition lower_src (src : list (list sattr * bare1)) : list (list rattr * bare1) :=
  map (fun y => (map lower_r (fst y), snd y)) src.
Definition lower_bare (b : sbare) : bare :=
  match b with SBPlain b => BPlain b | SBInclude src => BInclude (lower_src src) end.
Definition lower_text (T : stext) : text :=
  {| t_attrs := map lower_p (st_attrs T);
     t_sig := option_map (map lower_r) (st_sig T);
     t_items := map (fun x => (map lower_r (fst x), lower_bare (snd x))) (st_items T) |}.

(* ------------------------------------------------------------------ results *)

Inductive serr :=
| SBase (e : err)            (* an error of CheckModel.v *)
| SFlagArgs                  (* "unexpected token in attribute": measure_rule_times / generate_run_timeout / inter_rule_parallelism with arguments *)
| SDsNotList                 (* "expected attribute arguments in parentheses: `ds(...)`" / "expected `(`": ds without a list *)
| SDsContents.               (* the list of ds does not parse as a provider path with optional `: args` *)

Inductive sres (A : Type) := ROK (a : A) | RErr (e : serr) | RPanic.
Arguments ROK {A}. Arguments RErr {A}. Arguments RPanic {A}.

Definition lift {A} (r : result A) : sres A :=
  match r with OK a => ROK a | Err e _ => RErr (SBase e) | Panic => RPanic end.
Definition sbind {A B} (r : sres A) (f : A -> sres B) : sres B :=
  match r with ROK a => f a | RErr e => RErr e | RPanic => RPanic end.

(* ------------------------------------------------------------------ stage 4: AscentConfig::new on the spelled attributes *)

Definition path_only (a : sattr) : bool := match sa_args a with ArgNone => true | _ => false end.

(* attrs.iter().find(|a| a.path().is_ident(NAME)).map(|a| a.meta.require_path_only()).transpose()? *)
Definition flag_ok (attrs : list sattr) (n : nat) : bool :=
  match find (named n) attrs with Some a => path_only a | None => true end.

Definition recognised_names : list nat := [n_measure_rule_times; n_generate_run_timeout; n_inter_rule_parallelism; n_ds].
(* recognized_attrs.iter().any(|r| attr.meta.path().is_ident(r)) *)
Definition recognised (a : sattr) : bool := existsb (fun n => named n a) recognised_names.

(* get_ds_attr *)
Inductive ds_lookup := DsAbsent | DsGiven | DsMultiple | DsBad (e : serr).
Definition ds_of_one (a : sattr) : ds_lookup :=
  match sa_args a with ArgList true => DsGiven | ArgList false => DsBad SDsContents | _ => DsBad SDsNotList end.
Definition get_ds_attr (attrs : list sattr) : ds_lookup :=
  match filter (named n_ds) attrs with
  | [] => DsAbsent
  | [a] => ds_of_one a
  | _ :: _ :: _ => DsMultiple
  end.

Definition flags_ok (attrs : list sattr) : bool :=
  flag_ok attrs n_measure_rule_times && flag_ok attrs n_generate_run_timeout && flag_ok attrs n_inter_rule_parallelism.

Definition sp_check_attrs (attrs : list sattr) (k : mkind) : sres unit :=
  if negb (flags_ok attrs) then RErr SFlagArgs
  else if negb (forallb recognised attrs) then RErr (SBase EUnknownAttr)
  else if existsb (named n_inter_rule_parallelism) attrs && negb (is_par k) then RErr (SBase EInterRuleSerial)
  else match get_ds_attr attrs with
       | DsMultiple => RErr (SBase EMultipleDsProg)
       | DsBad e => RErr e
       | _ => ROK tt
       end.

(* ------------------------------------------------------------------ stage 5: relation attributes, spelled *)

(* a declaration with the attributes written in front of it *)
Definition sdecl := (decl * list sattr)%type.

Definition mk_sdecl (a : list sattr) (n : nat) (tys : list nat) (lat : bool) : sdecl :=
  ({| d_name := n; d_tys := tys; d_lat := lat; d_attrs := map lower_r a |}, a).

(* the declarations of the resolved program (include_source! replaced by the body of its source), in order *)
Definition src_item_rels (y : list sattr * bare1) : list sdecl :=
  match snd y with B1Plain (BRel n tys lat) => [mk_sdecl (fst y) n tys lat] | _ => [] end.
Definition src_rels (src : list (list sattr * bare1)) : list sdecl := flat_map src_item_rels src.
Definition item_rels (x : list sattr * sbare) : list sdecl :=
  match snd x with
  | SBPlain (BRel n tys lat) => [mk_sdecl (fst x) n tys lat]
  | SBPlain _ => []
  | SBInclude src => src_rels src
  end.
Definition sp_rels (T : stext) : list sdecl := flat_map item_rels (st_items T).

(* dedup_all_keep_last_by on RelationIdentity *)
Fixpoint sp_dedup_last (l : list sdecl) : list sdecl :=
  match l with
  | [] => []
  | x :: tl => if existsb (fun y => same_identity (fst x) (fst y)) tl then sp_dedup_last tl else x :: sp_dedup_last tl
  end.

Definition sp_check_decl (x : sdecl) : sres unit :=
  match get_ds_attr (snd x) with
  | DsMultiple => RErr (SBase (EMultipleDs (d_name (fst x))))
  | DsBad e => RErr e
  | DsGiven => if d_lat (fst x) then RErr (SBase (EDsOnLattice (d_name (fst x)))) else ROK tt
  | DsAbsent => ROK tt
  end.

Fixpoint sp_all (l : list sdecl) : sres unit :=
  match l with [] => ROK tt | x :: tl => sbind (sp_check_decl x) (fun _ => sp_all tl) end.

Definition sp_check_decls (l : list sdecl) : sres unit := sp_all (sp_dedup_last l).

(* what the macro hands to the struct field of a relation: every attribute whose path is not exactly `ds` *)
Definition field_attrs (a : list sattr) : list sattr := filter (fun x => negb (named n_ds x)) a.

(* ------------------------------------------------------------------ the front end *)

Definition sp_check_items (c0 : counters) (attrs : list sattr) (k : mkind) (its : list item0) (rs : list sdecl) : sres unit :=
  sbind (lift (expand_rules (macros_of its) (rules_of its))) (fun xr =>
  let cr := ds_rules c0 xr in
  sbind (lift (check_rules (decls_of its) cr)) (fun _ =>
  sbind (sp_check_attrs attrs k) (fun _ =>
  sbind (sp_check_decls rs) (fun _ =>
  sbind (lift (check_strat cr)) (fun _ =>
  if codegen_panics (decls_of its) cr then RPanic else ROK tt))))).

Inductive sverdict := SAccept | SDeferred | SReject (e : serr) | SPanics.
Definition sverdict_of (r : sres unit) : sverdict :=
  match r with ROK _ => SAccept | RErr e => SReject e | RPanic => SPanics end.
Definition inj_verdict (v : verdict) : sverdict :=
  match v with Accept => SAccept | Deferred => SDeferred | Reject e => SReject (SBase e) | Panics => SPanics end.

Definition sp_program (T : stext) : program := parse_text (lower_text T).

(* the verdict once every include_source! is resolved *)
Definition sp_check_res (c0 : counters) (T : stext) (k : mkind) : sres unit :=
  sbind (lift (flatten 0 (p_items (sp_program T)))) (fun its => sp_check_items c0 (st_attrs T) k its (sp_rels T)).
Definition sp_check (c0 : counters) (T : stext) (k : mkind) : sverdict := sverdict_of (sp_check_res c0 T k).

(* one invocation of ascent_impl *)
Definition sp_invoke (c0 : counters) (T : stext) (k : mkind) : sverdict :=
  match scan_top 0 (p_items (sp_program T)) with
  | OK None => SDeferred
  | OK (Some its) => sverdict_of (sp_check_items c0 (st_attrs T) k its (sp_rels T))
  | Err e _ => SReject (SBase e)
  | Panic => SPanics
  end.

(* ------------------------------------------------------------------ a variant that dispatches on the NAME of an attribute
   "one pass over the attributes that have a name": attrs.iter().filter_map(|a| a.path().get_ident().map(|n| (n, a))) and a
   match on the name with a catch-all "unrecognized attribute" arm.  It agrees with AscentConfig::new on every attribute
   whose path is one identifier and never sees the others (refuted in AttrPathsLaws.v). *)

Definition has_name (a : sattr) : bool := match get_ident (sa_path a) with Some _ => true | None => false end.
Definition sp_check_attrs_by_name (attrs : list sattr) (k : mkind) : sres unit :=
  sp_check_attrs (filter has_name attrs) k.

(* ------------------------------------------------------------------ spellings (for the examples and the tie) *)

Definition ident_path (n : nat) : apath := {| ap_lead := false; ap_segs := [n] |}.
Definition bare_attr (n : nat) : sattr := {| sa_path := ident_path n; sa_args := ArgNone |}.
Definition ds_attr : sattr := {| sa_path := ident_path n_ds; sa_args := ArgList true |}.
(* an attribute whose argument form is the one the real code demands of its name (any form when the name is not recognised) *)
Definition canonical (a : sattr) : bool :=
  if named n_ds a then (match sa_args a with ArgList true => true | _ => false end)
  else if recognised a then path_only a
  else true.
