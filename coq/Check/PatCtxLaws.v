(* C15 — pattern_get_vars over the full pattern syntax (Check/PatCtxModel.v): the helper reports exactly the variables a
   pattern binds, whatever stack of pattern constructors a variable sits under; hence a rule that binds a variable again
   below ANY context, in any binder position, is rejected — and so is one whose FIRST binder sits below a context. *)
From Coq Require Import List Bool Arith Lia.
From AV Require Import Check.CheckModel.
From AV Require Import Check.CheckProofs.
From AV Require Import Check.CheckExamples.
From AV Require Import Check.PatCtxModel.
Import ListNotations.

(* ------------------------------------------------------------------ induction over nested patterns *)
Section XpatInd.
  Variable V : Type.
  Variable Q : xpat V -> Prop.
  Hypothesis Hvar : forall x, Q (XVar x).
  Hypothesis Hat : forall x p, Q p -> Q (XAt x p).
  Hypothesis Hwild : Q XWild.
  Hypothesis Hparen : forall p, Q p -> Q (XParen p).
  Hypothesis Href : forall p, Q p -> Q (XRef p).
  Hypothesis Htuple : forall ps, Forall Q ps -> Q (XTuple ps).
  Hypothesis Hslice : forall ps, Forall Q ps -> Q (XSlice ps).
  Hypothesis Htstruct : forall ps, Forall Q ps -> Q (XTupleStruct ps).
  Hypothesis Hstruct : forall ps, Forall Q ps -> Q (XStruct ps).
  Hypothesis Hor : forall ps, Forall Q ps -> Q (XOr ps).
  Hypothesis Htype : forall p, Q p -> Q (XType p).

  Fixpoint xpat_ind' (p : xpat V) : Q p :=
    let go := fix go (l : list (xpat V)) : Forall Q l :=
      match l with [] => Forall_nil Q | q :: tl => Forall_cons q (xpat_ind' q) (go tl) end in
    match p with
    | XVar x => Hvar x
    | XAt x q => Hat x q (xpat_ind' q)
    | XWild => Hwild
    | XParen q => Hparen q (xpat_ind' q)
    | XRef q => Href q (xpat_ind' q)
    | XTuple ps => Htuple ps (go ps)
    | XSlice ps => Hslice ps (go ps)
    | XTupleStruct ps => Htstruct ps (go ps)
    | XStruct ps => Hstruct ps (go ps)
    | XOr ps => Hor ps (go ps)
    | XType q => Htype q (xpat_ind' q)
    end.
End XpatInd.

(* ------------------------------------------------------------------ the helper against the specification *)
Section Spec.
  Variable V : Type.
  Variable eqb : V -> V -> bool.
  Hypothesis eqb_ok : forall a b, eqb a b = true <-> a = b.

  Lemma memb_In x l : memb eqb x l = true <-> In x l.
  Proof.
    unfold memb; rewrite existsb_exists; split.
    - intros [y [H1 H2]]; apply eqb_ok in H2; now subst.
    - intros H; exists x; split; [assumption | now apply eqb_ok].
  Qed.

  Lemma dedup_In x l : In x (dedup eqb l) <-> In x l.
  Proof.
    induction l as [|a tl IH]; simpl; [tauto|].
    destruct (memb eqb a tl) eqn:M.
    - rewrite IH. split; [now right|]. intros [<-|H]; [now apply memb_In | assumption].
    - simpl. now rewrite IH.
  Qed.

  Lemma inter_all_In x ls : In x (inter_all eqb ls) <-> ls <> [] /\ forall l, In l ls -> In x l.
  Proof.
    destruct ls as [|l rest]; simpl; [split; [intros [] | intros [H _]; now apply H]|].
    rewrite dedup_In, filter_In, forallb_forall. split.
    - intros [H1 H2]; split; [discriminate|]. intros l' [<-|H]; [assumption | now apply memb_In, H2].
    - intros [_ H]; split; [apply H; now left|]. intros l' Hl. apply memb_In, H. now right.
  Qed.

  Lemma seq_In x (ps : list (xpat V)) b :
    Forall (fun p => forall x, In x (xpat_vars eqb b p) <-> binds x p) ps ->
    (In x (flat_map (xpat_vars eqb b) ps) <-> exists p, In p ps /\ binds x p).
  Proof.
    intros F. rewrite Forall_forall in F. rewrite in_flat_map. split; intros [p [H1 H2]]; exists p; (split; [assumption|]); now apply (F p H1).
  Qed.

  (* the helper (with the Pat::Paren arm) reports x  iff  the pattern binds x *)
  Theorem xpat_vars_spec p : forall x, In x (xpat_vars eqb true p) <-> binds x p.
  Proof.
    induction p using xpat_ind'; intros v; simpl.
    - split; [intros [<-|[]]; constructor | intros H; inversion H; now left].
    - split.
      + intros [<-|H]; [apply b_at_name | apply b_at_sub; now apply IHp].
      + intros H; inversion H; subst; [now left | right; now apply IHp].
    - split; [intros [] | intros H; inversion H].
    - rewrite IHp. split; [apply b_paren | intros H; now inversion H].
    - rewrite IHp. split; [apply b_ref | intros H; now inversion H].
    - rewrite (seq_In v ps true H). split; [intros [p [H1 H2]]; now apply (b_tuple v ps p) | intros B; inversion B; subst; eauto].
    - rewrite (seq_In v ps true H). split; [intros [p [H1 H2]]; now apply (b_slice v ps p) | intros B; inversion B; subst; eauto].
    - rewrite (seq_In v ps true H). split; [intros [p [H1 H2]]; now apply (b_tuple_struct v ps p) | intros B; inversion B; subst; eauto].
    - rewrite (seq_In v ps true H). split; [intros [p [H1 H2]]; now apply (b_struct v ps p) | intros B; inversion B; subst; eauto].
    - rewrite inter_all_In. rewrite Forall_forall in H. split.
      + intros [Hne Hall]. apply b_or; [intros ->; now apply Hne|].
        intros p Hp. apply (H p Hp). apply Hall. now apply in_map.
      + intros B; inversion B as [| | | | | | | | | |ps' Hne Hall]; subst. split; [destruct ps; [now elim Hne | discriminate]|].
        intros l Hl. apply in_map_iff in Hl. destruct Hl as [p [<- Hp]]. apply (H p Hp). now apply Hall.
    - rewrite IHp. split; [apply b_type | intros H; now inversion H].
  Qed.

  (* without that arm (the helper before d5a5c02) it is still sound *)
  Theorem xpat_vars_sound b p : forall x, In x (xpat_vars eqb b p) -> binds x p.
  Proof.
    destruct b; [intros x; apply xpat_vars_spec|].
    induction p using xpat_ind'; intros v; simpl.
    - intros [<-|[]]; constructor.
    - intros [<-|H]; [apply b_at_name | apply b_at_sub; now apply IHp].
    - intros [].
    - intros [].
    - intros H; apply b_ref; now apply IHp.
    - rewrite in_flat_map; rewrite Forall_forall in H. intros [p [H1 H2]]. apply (b_tuple v ps p H1). now apply H.
    - rewrite in_flat_map; rewrite Forall_forall in H. intros [p [H1 H2]]. apply (b_slice v ps p H1). now apply H.
    - rewrite in_flat_map; rewrite Forall_forall in H. intros [p [H1 H2]]. apply (b_tuple_struct v ps p H1). now apply H.
    - rewrite in_flat_map; rewrite Forall_forall in H. intros [p [H1 H2]]. apply (b_struct v ps p H1). now apply H.
    - rewrite inter_all_In. rewrite Forall_forall in H. intros [Hne Hall]. apply b_or; [intros ->; now apply Hne|].
      intros p Hp. apply (H p Hp). apply Hall. now apply in_map.
    - intros H; apply b_type; now apply IHp.
  Qed.

  (* on the patterns of CheckModel.pat the two helpers coincide *)
  Theorem xpat_vars_embed b (p : pat V) : xpat_vars eqb b (embed p) = pat_vars b p.
  Proof.
    induction p using pat_ind'; simpl; try reflexivity.
    - now rewrite IHp.
    - destruct b; [assumption | reflexivity].
    - assumption.
    - induction H as [|q tl Hq _ IH]; simpl; [reflexivity | now rewrite Hq, IH].
  Qed.

  (* a variable below any stack of constructors is bound (every constructor as a context) ... *)
  Theorem hole_bound_below_any_context x (c : list (frame V)) : Forall (frame_ok x) c -> binds x (plug c (XVar x)).
  Proof.
    induction c as [|f c IH]; simpl; [constructor|]. intros F. inversion F as [|f' c' Hf Hc]; subst. specialize (IH Hc).
    destruct f as [n| | | |k l r]; simpl.
    - now apply b_at_sub.
    - now apply b_paren.
    - now apply b_ref.
    - now apply b_type.
    - assert (I : In (plug c (XVar x)) (l ++ plug c (XVar x) :: r)) by (apply in_or_app; right; now left).
      destruct k; simpl in *; try (eapply b_tuple || eapply b_slice || eapply b_tuple_struct || eapply b_struct); try eassumption.
      apply b_or; [now destruct l|]. intros q Hq. apply in_app_or in Hq. destruct Hq as [Hq|[<-|Hq]]; [| assumption |]; apply Hf; apply in_or_app; auto.
  Qed.
  (* ... and reported *)
  Corollary hole_reported_below_any_context x (c : list (frame V)) :
    Forall (frame_ok x) c -> In x (xpat_vars eqb true (plug c (XVar x))).
  Proof. intros F. now apply xpat_vars_spec, hole_bound_below_any_context. Qed.
End Spec.

Lemma xv_spec p u : In u (xv p) <-> binds u p.
Proof. exact (xpat_vars_spec ident ident_eqb ident_eqb_eq p u). Qed.

(* ------------------------------------------------------------------ the check on the rules of PatCtxModel *)

Lemma scan_binds_shadow ds ri bs : forall ei g tl, (exists u, In u bs /\ In u g) ->
  exists u l, In u bs /\ scan_events ds ri ei g (map EvBind bs ++ tl) = Err (EShadow u) l.
Proof.
  induction bs as [|a bs IH]; intros ei g tl [u [Hb Hg]]; [destruct Hb|]. simpl.
  destruct (mem a g) eqn:M; [exists a; eexists; split; [now left | reflexivity]|].
  assert (In u bs) as Hb'. { destruct Hb as [->|Hb]; [| assumption]. apply mem_false in M. now elim M. }
  destruct (IH (S ei) (a :: g) tl) as [u' [l [H1 H2]]]; [exists u; split; [assumption | now right]|].
  exists u', l; split; [now right | assumption].
Qed.

Lemma scan_binds_pass ds ri bs : forall ei g tl, NoDup bs -> (forall u, In u bs -> ~ In u g) ->
  scan_events ds ri ei g (map EvBind bs ++ tl) = scan_events ds ri (length bs + ei) (rev bs ++ g) tl.
Proof.
  induction bs as [|a bs IH]; intros ei g tl N D; [reflexivity|]. simpl.
  assert (mem a g = false) as -> by (apply mem_false, D; now left).
  inversion N as [|a' bs' Ha Hbs]; subst.
  rewrite IH; [| assumption | intros u Hu [<-|Hg]; [now apply Ha | apply (D u); [now right | assumption]]].
  rewrite <- app_assoc. simpl. f_equal. lia.
Qed.

Ltac shadow_here G :=
  rewrite ?app_nil_r, <- ?app_assoc;
  match goal with |- context [scan_events ?ds ?ri ?ei ?g (map EvBind ?b ++ ?tl)] =>
    let u' := fresh "u'" in let l := fresh "l" in let H1 := fresh "H1" in let H2 := fresh "H2" in
    destruct (scan_binds_shadow ds ri b ei g tl) as [u' [l [H1 H2]]];
    [apply G; intros a Ha; simpl in *; tauto | exists u'; rewrite H2; split; [reflexivity | exact H1]]
  end.

(* a binder, in any position, that binds one of the variables of edge(x, y) again is rejected, by the error about a variable
   of that binder *)
Lemma rebind_rejected f bs k : (exists u, In u bs /\ In u [x; y]) ->
  exists u, check [] (p_rebind f bs) k = Reject (EShadow u) /\ In u bs.
Proof.
  intros [u [Hb Hu]].
  assert (G : forall g, incl [y; x] g -> exists u0, In u0 bs /\ In u0 g).
  { intros g Hg. exists u; split; [assumption|]. apply Hg. simpl in *. tauto. }
  unfold check, check_loc; destruct f; cbn; unfold check_rules, rule_events; cbn; shadow_here G.
Qed.

Ltac first_here N D M :=
  rewrite ?app_nil_r, <- ?app_assoc;
  match goal with |- context [scan_events ?ds ?ri ?ei ?g (map EvBind ?b ++ ?tl)] =>
    rewrite (scan_binds_pass ds ri b ei g tl N);
    [cbn; rewrite ?M; reflexivity | intros u0 Hu0 Hg0; apply (D u0 Hu0); simpl in *; tauto]
  end.

(* the FIRST binder of v is the pattern (all its variables new and distinct), a later `let v = e` binds v again *)
Lemma rebind_first_rejected f bs v k : NoDup bs -> (forall u, In u bs -> ~ In u [x; y; z]) -> In v bs ->
  check [] (p_rebind_first f bs v) k = Reject (EShadow v).
Proof.
  intros N D Hv.
  assert (M : forall g, mem v (rev bs ++ g) = true) by (intros g; apply mem_In, in_or_app; left; now apply -> in_rev).
  unfold check, check_loc; destruct f; cbn; unfold check_rules, rule_events; cbn; first_here N D M.
Qed.

(* ------------------------------------------------------------------ the theorems *)

(* a variable of edge(x, y) bound again below ANY stack of pattern constructors, in any binder position, under any macro *)
Theorem rebinding_below_any_context_rejected f c k u : In u [x; y] -> Forall (frame_ok u) c ->
  exists u', check [] (p_rebind f (xv (plug c (XVar u)))) k = Reject (EShadow u') /\ binds u' (plug c (XVar u)).
Proof.
  intros Hu F. destruct (rebind_rejected f (xv (plug c (XVar u))) k) as [u' [H1 H2]].
  - exists u; split; [apply xv_spec; now apply hole_bound_below_any_context | assumption].
  - exists u'; split; [assumption | now apply xv_spec].
Qed.

(* the variable's FIRST binder sits below any stack of pattern constructors and a plain `let` binds it again *)
Theorem first_binder_below_any_context_rejected f c k u : Forall (frame_ok u) c ->
  NoDup (xv (plug c (XVar u))) -> (forall u', binds u' (plug c (XVar u)) -> ~ In u' [x; y; z]) ->
  check [] (p_rebind_first f (xv (plug c (XVar u))) u) k = Reject (EShadow u).
Proof.
  intros F N D. apply rebind_first_rejected; [assumption | intros u' Hu'; now apply D, xv_spec |].
  apply xv_spec. now apply hole_bound_below_any_context.
Qed.

(* ------------------------------------------------------------------ computed: 183 contexts x 7 positions x 4 macros *)
Lemma sample_ctxs_verdicts :
  length (sample_ctxs x) = 183 /\
  for_all_samples x (fun f bs k => is_shadow x (check [] (p_rebind f bs) k)) = true /\            (* x bound again *)
  for_all_samples wc (fun f bs k => is_shadow wc (check [] (p_rebind_first f bs wc) k)) = true /\   (* first binder below *)
  for_all_samples wc (fun f bs k => is_accept (check [] (p_rebind f bs) k)) = true.               (* a NEW variable: accepted *)
Proof. vm_compute. repeat split. Qed.

Lemma sample_frames_ok h o : Forall (frame_ok h) (sample_frames h o).
Proof.
  repeat constructor; simpl; intros q [<-|[]]; [constructor | eapply b_tuple; [now left | constructor]].
Qed.

(* x @ p: the identifier first, then what p reports *)
Lemma at_subpattern_reported : xv (XAt wa (XTupleStruct [XVar x])) = [wa; x] /\ xv (XAt wa (XAt wb (XVar x))) = [wa; wb; x] /\
  xv (XOr [XAt wa (XVar x); XTuple [XVar x; XVar wa]; XVar wb]) = [] /\ xv (XOr [XAt wa (XVar x); XTuple [XVar x; XVar wa]]) = [wa; x].
Proof. vm_compute. repeat split. Qed.
