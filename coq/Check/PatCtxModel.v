(* C15 — patterns in full: every variant of syn::Pat that syn_utils.rs pattern_get_vars has an arm for, one constructor per
   arm that RECURSES (CheckModel.pat folds tuples / slices / tuple structs / structs into one PSeq and has no or-pattern
   and no type ascription), and one-hole CONTEXTS over them: "the variable that is bound again sits below any stack of
   pattern constructors".  No proofs here (Check/PatCtxLaws.v).

   pattern_get_vars (the code under verification), arm by arm:
     Pat::Ident          x | ref x | mut x | x @ p     the identifier, then the variables of the sub-pattern p
     Pat::Or             p1 | .. | pn                  the variables reported for EVERY alternative (HashSet intersection;
                                                       the order is that of a HashSet: unspecified)
     Pat::Paren          (p)                           those of p   (arm added by d5a5c02; the parameter [paren])
     Pat::Reference      &p | &mut p                   those of p
     Pat::Slice / Tuple / TupleStruct / Struct         those of the elements / fields, left to right
     Pat::Type           p : T                         those of p   (never produced by Pat::parse_multi, the parser of
                                                       every pattern position of the macros; kept because the arm exists)
     Pat::Lit / Macro / Path / Range / Rest / Verbatim / Wild / anything else     none *)
From Coq Require Import List Bool Arith.
From AV Require Import Check.CheckModel.
From AV Require Import Check.CheckExamples.
Import ListNotations.

Inductive xpat (V : Type) :=
| XVar (x : V)                         (* x, ref x, mut x, ref mut x *)
| XAt (x : V) (p : xpat V)             (* x @ p *)
| XWild                                (* _  literal  range  path  ..  macro  verbatim *)
| XParen (p : xpat V)                  (* (p) *)
| XRef (p : xpat V)                    (* &p  &mut p *)
| XTuple (ps : list (xpat V))          (* (p, ..) *)
| XSlice (ps : list (xpat V))          (* [p, ..] *)
| XTupleStruct (ps : list (xpat V))    (* C(p, ..) *)
| XStruct (ps : list (xpat V))         (* C { f: p, .. }  (a shorthand field `f` is the field f: f) *)
| XOr (ps : list (xpat V))             (* p | .. *)
| XType (p : xpat V).                  (* p : T *)
Arguments XVar {V}. Arguments XAt {V}. Arguments XWild {V}. Arguments XParen {V}. Arguments XRef {V}. Arguments XTuple {V}.
Arguments XSlice {V}. Arguments XTupleStruct {V}. Arguments XStruct {V}. Arguments XOr {V}. Arguments XType {V}.

Definition memb {V} (eqb : V -> V -> bool) (x : V) (l : list V) : bool := existsb (eqb x) l.

Fixpoint dedup {V} (eqb : V -> V -> bool) (l : list V) : list V :=
  match l with
  | [] => []
  | x :: tl => if memb eqb x tl then dedup eqb tl else x :: dedup eqb tl
  end.

(* cases_vars.reduce(intersection): nothing for no alternative; a set, listed here in the order of the first alternative *)
Definition inter_all {V} (eqb : V -> V -> bool) (ls : list (list V)) : list V :=
  match ls with
  | [] => []
  | l :: rest => dedup eqb (filter (fun x => forallb (memb eqb x) rest) l)
  end.

Fixpoint xpat_vars {V} (eqb : V -> V -> bool) (paren : bool) (p : xpat V) : list V :=
  match p with
  | XVar x => [x]
  | XAt x q => x :: xpat_vars eqb paren q
  | XWild => []
  | XParen q => if paren then xpat_vars eqb paren q else []
  | XRef q => xpat_vars eqb paren q
  | XTuple ps => flat_map (xpat_vars eqb paren) ps
  | XSlice ps => flat_map (xpat_vars eqb paren) ps
  | XTupleStruct ps => flat_map (xpat_vars eqb paren) ps
  | XStruct ps => flat_map (xpat_vars eqb paren) ps
  | XOr ps => inter_all eqb (map (xpat_vars eqb paren) ps)
  | XType q => xpat_vars eqb paren q
  end.

(* pattern_get_vars of the code under verification, on the identifiers of a rule / on the parameter indices of a macro body *)
Definition xv (p : xpat ident) : list ident := xpat_vars ident_eqb pattern_get_vars_traverses_paren p.
Definition xvn (p : xpat nat) : list nat := xpat_vars Nat.eqb pattern_get_vars_traverses_paren p.

(* CheckModel.pat inside xpat *)
Fixpoint embed {V} (p : pat V) : xpat V :=
  match p with
  | PVar x => XVar x
  | PAt x q => XAt x (embed q)
  | PWild => XWild
  | PParen q => XParen (embed q)
  | PRef q => XRef (embed q)
  | PSeq ps => XTuple (map embed ps)
  end.

(* ------------------------------------------------------------------ what a pattern BINDS (the specification: Rust's rule;
   an or-pattern binds the variables all its alternatives bind — rustc rejects one whose alternatives differ, E0408) *)
Inductive binds {V} (x : V) : xpat V -> Prop :=
| b_var : binds x (XVar x)
| b_at_name p : binds x (XAt x p)
| b_at_sub y p : binds x p -> binds x (XAt y p)
| b_paren p : binds x p -> binds x (XParen p)
| b_ref p : binds x p -> binds x (XRef p)
| b_type p : binds x p -> binds x (XType p)
| b_tuple ps p : In p ps -> binds x p -> binds x (XTuple ps)
| b_slice ps p : In p ps -> binds x p -> binds x (XSlice ps)
| b_tuple_struct ps p : In p ps -> binds x p -> binds x (XTupleStruct ps)
| b_struct ps p : In p ps -> binds x p -> binds x (XStruct ps)
| b_or ps : ps <> [] -> (forall p, In p ps -> binds x p) -> binds x (XOr ps).

(* ------------------------------------------------------------------ one-hole contexts: one frame per recursive constructor *)
Inductive seqk := KTuple | KSlice | KTupleStruct | KStruct | KOr.
Inductive frame (V : Type) :=
| FAt (x : V)                                    (* x @ [] *)
| FParen | FRef | FType
| FSeq (k : seqk) (l r : list (xpat V)).         (* the hole between the siblings l and r *)
Arguments FAt {V}. Arguments FParen {V}. Arguments FRef {V}. Arguments FType {V}. Arguments FSeq {V}.

Definition seq_of {V} (k : seqk) (ps : list (xpat V)) : xpat V :=
  match k with KTuple => XTuple ps | KSlice => XSlice ps | KTupleStruct => XTupleStruct ps | KStruct => XStruct ps | KOr => XOr ps end.

Definition fill {V} (f : frame V) (p : xpat V) : xpat V :=
  match f with
  | FAt x => XAt x p
  | FParen => XParen p
  | FRef => XRef p
  | FType => XType p
  | FSeq k l r => seq_of k (l ++ p :: r)
  end.

(* outermost frame first *)
Definition plug {V} (c : list (frame V)) (p : xpat V) : xpat V := fold_right fill p c.

(* the side condition of an or-frame: the other alternatives bind the variable too (otherwise the or-pattern does not bind it) *)
Definition frame_ok {V} (x : V) (f : frame V) : Prop :=
  match f with FSeq KOr l r => forall q, In q (l ++ r) -> binds x q | _ => True end.

(* ------------------------------------------------------------------ the rule  path(x, y) <-- edge(x, y), BINDER  for every
   position a pattern can stand in; [bs] = what the helper reports for the pattern written there *)
Inductive bform := BLet | BIfLet | BGen | BAgg | BArgPat | BClauseLet | BClauseIfLet.
Definition all_bforms := [BLet; BIfLet; BGen; BAgg; BArgPat; BClauseLet; BClauseIfLet].

Definition binder_items (f : bform) (bs : list ident) : list (sitem ident) :=
  match f with
  | BLet => [SCond (CLet bs)]                                   (* let PAT = e *)
  | BIfLet => [SCond (CIfLet bs)]                               (* if let PAT = e *)
  | BGen => [SGen bs]                                           (* for PAT in e *)
  | BAgg => [SAgg bs [z] 0 [GVar z; GWild]]                     (* agg PAT = f(z) in edge(z, _) *)
  | BArgPat => [SClause 0 [APat bs; AWild] []]                  (* edge(?PAT, _) *)
  | BClauseLet => [SClause 0 [AVar z; AWild] [CLet bs]]         (* edge(z, _) let PAT = e *)
  | BClauseIfLet => [SClause 0 [AVar z; AWild] [CIfLet bs]]     (* edge(z, _) if let PAT = e *)
  end.

Definition p_rebind (f : bform) (bs : list ident) : program :=
  with_rule (rule [HClause 1 2] (SClause 0 [AVar x; AVar y] [] :: binder_items f bs)).

(* the FIRST binder of the variable is the one below the pattern:  path(x, y) <-- edge(x, y), BINDER(PAT), let v = e *)
Definition p_rebind_first (f : bform) (bs : list ident) (v : ident) : program :=
  with_rule (rule [HClause 1 2] (SClause 0 [AVar x; AVar y] [] :: binder_items f bs ++ [SCond (CLet [v])])).

(* ------------------------------------------------------------------ instances for the computed examples *)
Definition wa := Base 4. Definition wb := Base 5. Definition wc := Base 6.

(* one frame (at least) per recursive constructor of xpat around the hole variable [h]; the siblings bind the other
   variable [o] or nothing, those of an or-frame bind h as they must *)
Definition sample_frames (h o : ident) : list (frame ident) :=
  [FAt o; FParen; FRef; FType; FSeq KTuple [XWild] []; FSeq KTuple [] [XVar o]; FSeq KSlice [] [XWild; XWild];
   FSeq KTupleStruct [] []; FSeq KTupleStruct [XVar o] [XWild]; FSeq KStruct [XWild] []; FSeq KStruct [] [];
   FSeq KOr [] [XVar h]; FSeq KOr [XTuple [XVar h; XWild]] []].
(* all contexts of depth <= 2 over them: 1 + 13 + 169 *)
Definition sample_ctxs (h : ident) : list (list (frame ident)) :=
  [[]] ++ map (fun f => [f]) (sample_frames h wa) ++ flat_map (fun f => map (fun g => [f; g]) (sample_frames h wb)) (sample_frames h wa).

Definition is_shadow (u : ident) (r : verdict) : bool := match r with Reject (EShadow u') => ident_eqb u' u | _ => false end.
Definition is_accept (r : verdict) : bool := match r with Accept => true | _ => false end.
(* every context x every binder position x every macro *)
Definition for_all_samples (h : ident) (test : bform -> list ident -> mkind -> bool) : bool :=
  forallb (fun c => forallb (fun f => forallb (test f (xv (plug c (XVar h)))) allk) all_bforms) (sample_ctxs h).
