(* C15 — laws of the spelled-attribute model Check/AttrPaths.v. *)
From Coq Require Import List Bool Arith PeanoNat Lia.
From AV Require Import Check.CheckModel.
From AV Require Import Check.CheckProofs.
From AV Require Import Check.AttrPaths.
Import ListNotations.

(* ------------------------------------------------------------------ paths *)

Lemma is_ident_spec p n : is_ident p n = true <-> p = ident_path n.
Proof.
  destruct p as [lead segs]. unfold is_ident, get_ident, ident_path; simpl.
  destruct lead; [split; [discriminate | intros H; discriminate]|].
  destruct segs as [|s [|s' tl]]; try (split; [discriminate | intros H; discriminate]).
  rewrite Nat.eqb_eq. split; [intros -> | intros H; injection H as ->]; reflexivity.
Qed.

Lemma named_spec n a : named n a = true <-> sa_path a = ident_path n.
Proof. apply is_ident_spec. Qed.

Lemma named_unique n m a : named n a = true -> named m a = true -> n = m.
Proof. rewrite !named_spec. intros H1 H2. rewrite H1 in H2. now injection H2. Qed.

Lemma named_other n m a : named n a = true -> n <> m -> named m a = false.
Proof. intros H Hn. destruct (named m a) eqn:E; [| reflexivity]. exfalso; apply Hn; eapply named_unique; eauto. Qed.

(* recognised = the path is EXACTLY one of the four identifiers: no leading `::`, one segment *)
Theorem recognised_spec a : recognised a = true <-> exists n, In n recognised_names /\ sa_path a = ident_path n.
Proof.
  unfold recognised. rewrite existsb_exists. split; intros [n [H1 H2]]; exists n; (split; [exact H1|]); now apply named_spec.
Qed.

Lemma recognised_unfold a : recognised a =
  named n_measure_rule_times a || named n_generate_run_timeout a || named n_inter_rule_parallelism a || named n_ds a.
Proof. unfold recognised, recognised_names; simpl. rewrite orb_false_r, !orb_assoc. reflexivity. Qed.

Theorem not_recognised_leading_colon a : ap_lead (sa_path a) = true -> recognised a = false.
Proof.
  intros H. destruct (recognised a) eqn:E; [| reflexivity]. apply recognised_spec in E as [n [_ E]]. rewrite E in H. discriminate.
Qed.
Theorem not_recognised_several_segments a : length (ap_segs (sa_path a)) <> 1 -> recognised a = false.
Proof.
  intros H. destruct (recognised a) eqn:E; [| reflexivity]. apply recognised_spec in E as [n [_ E]]. rewrite E in H. now elim H.
Qed.
(* the argument form plays no part in the decision *)
Theorem recognised_ignores_arguments p x y : recognised {| sa_path := p; sa_args := x |} = recognised {| sa_path := p; sa_args := y |}.
Proof. reflexivity. Qed.

Lemma lower_p_unknown a : lower_p a = PUnknown <-> recognised a = false.
Proof.
  rewrite recognised_unfold. unfold lower_p.
  destruct (named n_measure_rule_times a); [split; discriminate|].
  destruct (named n_generate_run_timeout a); [split; discriminate|].
  destruct (named n_inter_rule_parallelism a); [split; discriminate|].
  destruct (named n_ds a); [split; discriminate|]. split; reflexivity.
Qed.

Lemma is_unknown_lower a : is_unknown (lower_p a) = negb (recognised a).
Proof.
  destruct (recognised a) eqn:E.
  - destruct (lower_p a) eqn:L; try reflexivity. apply lower_p_unknown in L. congruence.
  - apply lower_p_unknown in E. now rewrite E.
Qed.

Lemma is_irp_lower a : is_irp (lower_p a) = named n_inter_rule_parallelism a.
Proof.
  unfold lower_p. destruct (named n_measure_rule_times a) eqn:E0.
  - simpl. symmetry. eapply named_other; [exact E0 | discriminate].
  - destruct (named n_generate_run_timeout a) eqn:E1.
    + simpl. symmetry. eapply named_other; [exact E1 | discriminate].
    + destruct (named n_inter_rule_parallelism a); [reflexivity|]. destruct (named n_ds a); reflexivity.
Qed.

Lemma is_pds_lower a : is_pds (lower_p a) = named n_ds a.
Proof.
  unfold lower_p. destruct (named n_measure_rule_times a) eqn:E0.
  - simpl. symmetry. eapply named_other; [exact E0 | discriminate].
  - destruct (named n_generate_run_timeout a) eqn:E1.
    + simpl. symmetry. eapply named_other; [exact E1 | discriminate].
    + destruct (named n_inter_rule_parallelism a) eqn:E2.
      * simpl. symmetry. eapply named_other; [exact E2 | discriminate].
      * destruct (named n_ds a); reflexivity.
Qed.

Lemma is_rds_lower a : is_rds (lower_r a) = named n_ds a.
Proof. unfold lower_r. destruct (named n_ds a); reflexivity. Qed.

(* ------------------------------------------------------------------ lists *)

Lemma existsb_map' {A B} (f : B -> bool) (g : A -> B) l : existsb f (map g l) = existsb (fun x => f (g x)) l.
Proof. induction l as [|x tl IH]; simpl; [reflexivity | now rewrite IH]. Qed.
Lemma existsb_ext' {A} (f g : A -> bool) l : (forall x, f x = g x) -> existsb f l = existsb g l.
Proof. intros H. induction l as [|x tl IH]; simpl; [reflexivity | now rewrite H, IH]. Qed.
Lemma filter_map_length {A B} (f : B -> bool) (g : A -> B) l : length (filter f (map g l)) = length (filter (fun x => f (g x)) l).
Proof. induction l as [|x tl IH]; simpl; [reflexivity|]. destruct (f (g x)); simpl; now rewrite IH. Qed.
Lemma filter_ext' {A} (f g : A -> bool) l : (forall x, f x = g x) -> filter f l = filter g l.
Proof. intros H. induction l as [|x tl IH]; simpl; [reflexivity | now rewrite H, IH]. Qed.
Lemma negb_forallb {A} (f : A -> bool) l : negb (forallb f l) = existsb (fun x => negb (f x)) l.
Proof. induction l as [|x tl IH]; simpl; [reflexivity|]. now rewrite negb_andb, IH. Qed.

Lemma unknown_lowered sa : existsb is_unknown (map lower_p sa) = negb (forallb recognised sa).
Proof. rewrite existsb_map', negb_forallb. apply existsb_ext'. apply is_unknown_lower. Qed.
Lemma irp_lowered sa : existsb is_irp (map lower_p sa) = existsb (named n_inter_rule_parallelism) sa.
Proof. rewrite existsb_map'. apply existsb_ext'. apply is_irp_lower. Qed.
Lemma pds_lowered sa : length (filter is_pds (map lower_p sa)) = length (filter (named n_ds) sa).
Proof. rewrite filter_map_length. f_equal. apply filter_ext'. apply is_pds_lower. Qed.
Lemma rds_lowered a : length (filter is_rds (map lower_r a)) = length (filter (named n_ds) a).
Proof. rewrite filter_map_length. f_equal. apply filter_ext'. apply is_rds_lower. Qed.

(* ------------------------------------------------------------------ stage 4 *)

Lemma sp_check_attrs_no_panic sa k : sp_check_attrs sa k <> RPanic.
Proof.
  unfold sp_check_attrs. destruct (negb (flags_ok sa)); [discriminate|]. destruct (negb (forallb recognised sa)); [discriminate|].
  destruct (_ && _); [discriminate|]. destruct (get_ds_attr sa); discriminate.
Qed.

Lemma get_ds_attr_count a :
  match get_ds_attr a with
  | DsAbsent => length (filter (named n_ds) a) = 0
  | DsMultiple => 2 <= length (filter (named n_ds) a)
  | _ => length (filter (named n_ds) a) = 1
  end.
Proof.
  unfold get_ds_attr. destruct (filter (named n_ds) a) as [|x [|y tl]]; simpl; [reflexivity | | lia].
  unfold ds_of_one. destruct (sa_args x) as [|[]|]; reflexivity.
Qed.

(* the spelled stage accepts only what the classified stage accepts *)
Lemma sp_check_attrs_OK sa k : sp_check_attrs sa k = ROK tt -> check_attrs (map lower_p sa) k = OK tt.
Proof.
  unfold sp_check_attrs, check_attrs. rewrite unknown_lowered, irp_lowered, pds_lowered.
  destruct (negb (flags_ok sa)); [discriminate|]. destruct (negb (forallb recognised sa)); [discriminate|].
  destruct (_ && _); [discriminate|]. pose proof (get_ds_attr_count sa) as C.
  destruct (get_ds_attr sa); try discriminate; intros _; rewrite C; reflexivity.
Qed.

Lemma find_some' {A} (f : A -> bool) l x : find f l = Some x -> In x l /\ f x = true.
Proof. apply find_some. Qed.

Lemma canonical_flag sa n : forallb canonical sa = true -> In n [n_measure_rule_times; n_generate_run_timeout; n_inter_rule_parallelism] ->
  flag_ok sa n = true.
Proof.
  intros Hc Hn. unfold flag_ok. destruct (find (named n) sa) as [a|] eqn:F; [| reflexivity].
  apply find_some in F as [Hin Hna]. rewrite forallb_forall in Hc. specialize (Hc a Hin). unfold canonical in Hc.
  assert (Hds : named n_ds a = false).
  { eapply named_other; [exact Hna|]. simpl in Hn. destruct Hn as [<- | [<- | [<- | []]]]; discriminate. }
  rewrite Hds in Hc.
  assert (Hr : recognised a = true).
  { apply recognised_spec. exists n. split; [| now apply named_spec].
    simpl in Hn. unfold recognised_names. simpl. destruct Hn as [<- | [<- | [<- | []]]]; auto. }
  now rewrite Hr in Hc.
Qed.

Lemma canonical_flags sa : forallb canonical sa = true -> flags_ok sa = true.
Proof.
  intros H. unfold flags_ok. rewrite !canonical_flag; simpl; auto.
Qed.

Lemma canonical_ds sa : forallb canonical sa = true ->
  get_ds_attr sa = match filter (named n_ds) sa with [] => DsAbsent | [_] => DsGiven | _ => DsMultiple end.
Proof.
  intros Hc. unfold get_ds_attr. destruct (filter (named n_ds) sa) as [|x [|y tl]] eqn:F; try reflexivity.
  assert (Hin : In x (filter (named n_ds) sa)) by (rewrite F; now left).
  apply filter_In in Hin as [Hin Hn]. rewrite forallb_forall in Hc. specialize (Hc x Hin). unfold canonical in Hc. rewrite Hn in Hc.
  unfold ds_of_one. destruct (sa_args x) as [|[]|]; try discriminate. reflexivity.
Qed.

(* on attributes whose arguments have the form their name demands, the two stages agree *)
Lemma sp_check_attrs_canonical sa k : forallb canonical sa = true -> sp_check_attrs sa k = lift (check_attrs (map lower_p sa) k).
Proof.
  intros Hc. unfold sp_check_attrs, check_attrs. rewrite unknown_lowered, irp_lowered, pds_lowered.
  rewrite (canonical_flags sa Hc). simpl. destruct (negb (forallb recognised sa)); [reflexivity|].
  destruct (_ && _); [reflexivity|]. rewrite (canonical_ds sa Hc).
  destruct (filter (named n_ds) sa) as [|x [|y tl]]; reflexivity.
Qed.

(* the verdict of stage 4 on a list that holds an attribute whose path is not exactly a recognised identifier *)
Theorem sp_check_attrs_unrecognised sa k a : In a sa -> recognised a = false ->
  sp_check_attrs sa k = RErr (if flags_ok sa then SBase EUnknownAttr else SFlagArgs).
Proof.
  intros Hin Hr. unfold sp_check_attrs. destruct (flags_ok sa); simpl; [| reflexivity].
  assert (H : forallb recognised sa = false).
  { destruct (forallb recognised sa) eqn:E; [| reflexivity]. rewrite forallb_forall in E. rewrite (E a Hin) in Hr. discriminate. }
  now rewrite H.
Qed.

(* ------------------------------------------------------------------ stage 5 *)

Definition sd_ok (x : sdecl) : Prop := d_attrs (fst x) = map lower_r (snd x).

Lemma sp_dedup_fst l : map fst (sp_dedup_last l) = dedup_last (map fst l).
Proof.
  induction l as [|x tl IH]; simpl; [reflexivity|].
  rewrite (existsb_map' (same_identity (fst x)) fst tl).
  destruct (existsb (fun y => same_identity (fst x) (fst y)) tl); simpl; now rewrite IH.
Qed.

Lemma sp_dedup_incl l x : In x (sp_dedup_last l) -> In x l.
Proof.
  induction l as [|y tl IH]; simpl; [auto|]. destruct (existsb (fun z => same_identity (fst y) (fst z)) tl); simpl; intros H; [right; auto|]. destruct H; auto.
Qed.

Lemma sp_check_decl_no_panic x : sp_check_decl x <> RPanic.
Proof. unfold sp_check_decl. destruct (get_ds_attr (snd x)); try discriminate. destruct (d_lat (fst x)); discriminate. Qed.

Lemma sp_all_no_panic l : sp_all l <> RPanic.
Proof.
  induction l as [|x tl IH]; simpl; [discriminate|]. pose proof (sp_check_decl_no_panic x) as H.
  destruct (sp_check_decl x); simpl; [exact IH | discriminate | congruence].
Qed.

Lemma sp_check_decls_no_panic l : sp_check_decls l <> RPanic.
Proof. apply sp_all_no_panic. Qed.

Lemma sp_check_decl_OK di x : sd_ok x -> sp_check_decl x = ROK tt -> check_decl di (fst x) = OK tt.
Proof.
  unfold sd_ok, sp_check_decl, check_decl. intros Hok. rewrite Hok, rds_lowered.
  pose proof (get_ds_attr_count (snd x)) as C. destruct (get_ds_attr (snd x)); try discriminate; rewrite C; simpl.
  - intros _. now rewrite andb_false_r.
  - destruct (d_lat (fst x)); [discriminate | reflexivity].
Qed.

Lemma sp_check_decl_canonical di x : sd_ok x -> forallb canonical (snd x) = true -> sp_check_decl x = lift (check_decl di (fst x)).
Proof.
  unfold sd_ok, sp_check_decl, check_decl. intros Hok Hc. rewrite Hok, rds_lowered, (canonical_ds _ Hc).
  destruct (filter (named n_ds) (snd x)) as [|a [|b tl]]; simpl.
  - now rewrite andb_false_r.
  - rewrite andb_true_r. destruct (d_lat (fst x)); reflexivity.
  - reflexivity.
Qed.

Definition ok_of {A} (r : result A) : sres unit := lift (bind r (fun _ => OK tt)).

Lemma ok_of_mapM_cons {A B} (f : nat -> A -> result B) i x tl :
  ok_of (mapM f i (x :: tl)) = sbind (ok_of (f i x)) (fun _ => ok_of (mapM f (S i) tl)).
Proof. unfold ok_of. simpl. destruct (f i x); simpl; [| reflexivity | reflexivity]. destruct (mapM f (S i) tl); reflexivity. Qed.

Lemma sp_all_OK i l : Forall sd_ok l -> sp_all l = ROK tt -> ok_of (mapM check_decl i (map fst l)) = ROK tt.
Proof.
  revert i; induction l as [|x tl IH]; intros i Hok H; [reflexivity|].
  change (map fst (x :: tl)) with (fst x :: map fst tl). rewrite ok_of_mapM_cons.
  inversion Hok as [|? ? Hx Htl]; subst. simpl in H. destruct (sp_check_decl x) as [[]|e|] eqn:E; simpl in H; try discriminate.
  unfold ok_of at 1. rewrite (sp_check_decl_OK i x Hx E). simpl. now apply IH.
Qed.

Lemma sp_all_canonical i l : Forall sd_ok l -> Forall (fun x => forallb canonical (snd x) = true) l ->
  sp_all l = ok_of (mapM check_decl i (map fst l)).
Proof.
  revert i; induction l as [|x tl IH]; intros i Hok Hc; [reflexivity|].
  change (map fst (x :: tl)) with (fst x :: map fst tl). rewrite ok_of_mapM_cons.
  inversion Hok as [|? ? Hx Htl]; subst. inversion Hc as [|? ? Cx Ctl]; subst. simpl.
  rewrite (sp_check_decl_canonical i x Hx Cx). unfold ok_of at 1.
  pose proof (check_decl_no_panic i (fst x)) as NP.
  destruct (check_decl i (fst x)) as [[]|e l|]; simpl; [now apply IH | reflexivity | congruence].
Qed.

Lemma Forall_dedup (Q : sdecl -> Prop) l : Forall Q l -> Forall Q (sp_dedup_last l).
Proof. rewrite !Forall_forall. intros H x Hx. apply H. now apply sp_dedup_incl. Qed.

Lemma check_decls_ok_of ds : lift (check_decls ds) = ok_of (mapM check_decl 0 (dedup_last ds)).
Proof. reflexivity. Qed.

Lemma sp_check_decls_OK l : Forall sd_ok l -> sp_check_decls l = ROK tt -> check_decls (map fst l) = OK tt.
Proof.
  intros Hok H. unfold sp_check_decls in H. apply (sp_all_OK 0) in H; [| now apply Forall_dedup].
  rewrite sp_dedup_fst in H. rewrite <- check_decls_ok_of in H.
  destruct (check_decls (map fst l)) as [[]|e lc|]; simpl in H; try discriminate. reflexivity.
Qed.

Lemma sp_check_decls_canonical l : Forall sd_ok l -> Forall (fun x => forallb canonical (snd x) = true) l ->
  sp_check_decls l = lift (check_decls (map fst l)).
Proof.
  intros Hok Hc. unfold sp_check_decls. rewrite (sp_all_canonical 0) by now apply Forall_dedup.
  now rewrite sp_dedup_fst.
Qed.

(* ------------------------------------------------------------------ the declarations of the resolved program *)

Lemma decls_of_cons i r : decls_of (i :: r) = match i with IRel d => [d] | _ => [] end ++ decls_of r.
Proof. reflexivity. Qed.
Lemma decls_of_app a b : decls_of (a ++ b) = decls_of a ++ decls_of b.
Proof. unfold decls_of. apply flat_map_app. Qed.

Lemma src_rels_cons y tl : src_rels (y :: tl) = src_item_rels y ++ src_rels tl.
Proof. reflexivity. Qed.
Lemma sp_rels_cons x tl : flat_map item_rels (x :: tl) = item_rels x ++ flat_map item_rels tl.
Proof. reflexivity. Qed.

Lemma src_rels_ok src : Forall sd_ok (src_rels src).
Proof.
  induction src as [|[a y] tl IH]; [constructor|]. rewrite src_rels_cons. apply Forall_app. split; [| exact IH].
  unfold src_item_rels; simpl. destruct y as [[n tys lat|r|m]|]; constructor; [reflexivity | constructor].
Qed.

Lemma sp_rels_ok T : Forall sd_ok (sp_rels T).
Proof.
  unfold sp_rels. induction (st_items T) as [|[a x] tl IH]; [constructor|]. rewrite sp_rels_cons. apply Forall_app. split; [| exact IH].
  unfold item_rels; simpl. destruct x as [[n tys lat|r|m]|src]; try constructor; try reflexivity; try constructor. apply src_rels_ok.
Qed.

Lemma src_rels_plain src s : map give1 (lower_src src) = map I1Plain s -> map fst (src_rels src) = decls_of s.
Proof.
  revert s; induction src as [|[a y] tl IH]; intros s H; destruct s as [|i s']; simpl in H; try discriminate; [reflexivity|].
  injection H as H1 H2. rewrite decls_of_cons, <- (IH s' H2), src_rels_cons, map_app. f_equal.
  destruct y as [b|]; unfold give1 in H1; simpl in H1; [| discriminate]. injection H1 as <-.
  unfold src_item_rels; simpl. destruct b as [n tys lat|r|m]; reflexivity.
Qed.

Lemma sp_rels_flatten_aux items : forall p its,
  flatten p (map give (map (fun x => (map lower_r (fst x), lower_bare (snd x))) items)) = OK its ->
  map fst (flat_map item_rels items) = decls_of its.
Proof.
  induction items as [|[a x] tl IH]; intros p its H; simpl in H.
  - injection H as <-. reflexivity.
  - rewrite sp_rels_cons, map_app. destruct x as [b|src]; unfold give in H; simpl in H.
    + destruct (item0_err (give0 (map lower_r a) b)); [discriminate|].
      destruct (flatten (S p) _) as [r|e l|] eqn:F; simpl in H; try discriminate. injection H as <-.
      rewrite decls_of_cons. f_equal; [| exact (IH _ _ F)]. unfold item_rels; simpl. destruct b as [n tys lat|r'|m]; reflexivity.
    + destruct (0 <? length (map lower_r a)); [discriminate|].
      destruct (scan_src p 0 (parse_src (lower_src src))) as [s|e l|] eqn:Sc; simpl in H; try discriminate.
      destruct (flatten (S p) _) as [r|e l|] eqn:F; simpl in H; try discriminate. injection H as <-.
      rewrite decls_of_app. f_equal; [| exact (IH _ _ F)]. unfold item_rels; simpl.
      apply scan_src_OK in Sc as [_ Sc]. rewrite parse_src_eq in Sc. now apply src_rels_plain.
Qed.

Lemma sp_program_items T : p_items (sp_program T) = map give (map (fun x => (map lower_r (fst x), lower_bare (snd x))) (st_items T)).
Proof. unfold sp_program. now rewrite parse_text_items. Qed.

Lemma sp_rels_flatten T its : flatten 0 (p_items (sp_program T)) = OK its -> map fst (sp_rels T) = decls_of its.
Proof. rewrite sp_program_items. apply sp_rels_flatten_aux. Qed.

Lemma scan_top_no_panic p items : scan_top p items <> Panic.
Proof.
  revert p; induction items as [|x tl IH]; intros p; simpl; [discriminate|]. destruct x as [i|n src].
  - destruct (item0_err i); [discriminate|]. specialize (IH (S p)). destruct (scan_top (S p) tl); simpl; congruence.
  - destruct (0 <? n); discriminate.
Qed.

Lemma scan_top_Some_flatten p items its : scan_top p items = OK (Some its) -> flatten p items = OK its.
Proof.
  revert p its; induction items as [|x tl IH]; intros p its H; simpl in H.
  - injection H as <-. reflexivity.
  - destruct x as [i|n src]; simpl.
    + destruct (item0_err i); [discriminate|]. destruct (scan_top (S p) tl) as [[r|]|e l|] eqn:St; simpl in H; try discriminate.
      injection H as <-. now rewrite (IH _ _ St).
    + destruct (0 <? n); discriminate.
Qed.

(* ------------------------------------------------------------------ the chain *)

Lemma sp_program_attrs T : p_attrs (sp_program T) = map lower_p (st_attrs T).
Proof. reflexivity. Qed.

(* spelled verdict vs classified verdict of everything after parsing *)
Lemma sp_check_items_sound c0 sa k its rs : Forall sd_ok rs -> map fst rs = decls_of its ->
  match sp_check_items c0 sa k its rs with
  | ROK _ => check_items c0 (map lower_p sa) k its = OK tt
  | RPanic => check_items c0 (map lower_p sa) k its = Panic
  | RErr _ => True
  end.
Proof.
  intros Hok Hrs. unfold sp_check_items, check_items.
  destruct (expand_rules (macros_of its) (rules_of its)) as [xr|e l|]; simpl; auto.
  destruct (check_rules (decls_of its) (ds_rules c0 xr)) as [[]|e l|]; simpl; auto.
  pose proof (sp_check_attrs_no_panic sa k) as NP4. destruct (sp_check_attrs sa k) as [[]|e|] eqn:E4; simpl; auto; [| congruence].
  rewrite (sp_check_attrs_OK sa k E4). simpl.
  pose proof (sp_check_decls_no_panic rs) as NP5. destruct (sp_check_decls rs) as [[]|e|] eqn:E5; simpl; auto; [| congruence].
  rewrite <- Hrs, (sp_check_decls_OK rs Hok E5). simpl.
  destruct (check_strat (ds_rules c0 xr)) as [[]|e l|]; simpl; auto.
  destruct (codegen_panics _ _); reflexivity.
Qed.

Lemma sp_check_items_canonical c0 sa k its rs : Forall sd_ok rs -> map fst rs = decls_of its ->
  forallb canonical sa = true -> Forall (fun x => forallb canonical (snd x) = true) rs ->
  sp_check_items c0 sa k its rs = lift (check_items c0 (map lower_p sa) k its).
Proof.
  intros Hok Hrs C4 C5. unfold sp_check_items, check_items.
  destruct (expand_rules (macros_of its) (rules_of its)) as [xr|e l|]; simpl; auto.
  destruct (check_rules (decls_of its) (ds_rules c0 xr)) as [[]|e l|]; simpl; auto.
  rewrite (sp_check_attrs_canonical sa k C4). destruct (check_attrs (map lower_p sa) k) as [[]|e l|]; simpl; auto.
  rewrite (sp_check_decls_canonical rs Hok C5), Hrs. destruct (check_decls (decls_of its)) as [[]|e l|]; simpl; auto.
  destruct (check_strat (ds_rules c0 xr)) as [[]|e l|]; simpl; auto.
  destruct (codegen_panics _ _); reflexivity.
Qed.

Lemma sp_check_res_sound c0 T k :
  match sp_check_res c0 T k with
  | ROK _ => check_loc c0 (sp_program T) k = OK tt
  | RPanic => check_loc c0 (sp_program T) k = Panic
  | RErr _ => True
  end.
Proof.
  unfold sp_check_res, check_loc. destruct (flatten 0 (p_items (sp_program T))) as [its|e l|] eqn:F; simpl; auto.
  apply (sp_check_items_sound c0 (st_attrs T) k its (sp_rels T)); [apply sp_rels_ok | now apply sp_rels_flatten].
Qed.

(* acceptance of the spelled text is acceptance of the classified text: every theorem of Props/C15.v about accepted
   programs applies to it *)
Theorem sp_accept_sound c0 T k : sp_check c0 T k = SAccept -> check_text c0 (lower_text T) k = Accept.
Proof.
  unfold sp_check, check_text, check. fold (sp_program T). pose proof (sp_check_res_sound c0 T k) as H.
  destruct (sp_check_res c0 T k) as [[]|e|]; simpl; try discriminate. intros _. now rewrite H.
Qed.

Theorem sp_panics_sound c0 T k : sp_check c0 T k = SPanics -> check_text c0 (lower_text T) k = Panics.
Proof.
  unfold sp_check, check_text, check. fold (sp_program T). pose proof (sp_check_res_sound c0 T k) as H.
  destruct (sp_check_res c0 T k) as [[]|e|]; simpl; try discriminate. intros _. now rewrite H.
Qed.

(* whatever the classified model rejects, the spelled model rejects (possibly with the error of an argument form, which
   the real code examines first) *)
Theorem sp_reject_complete c0 T k e : check_text c0 (lower_text T) k = Reject e -> exists e', sp_check c0 T k = SReject e'.
Proof.
  intros H. destruct (sp_check c0 T k) as [| |e'|] eqn:E.
  - apply sp_accept_sound in E. congruence.
  - unfold sp_check in E. destruct (sp_check_res c0 T k) as [[]|?|]; discriminate.
  - now exists e'.
  - apply sp_panics_sound in E. congruence.
Qed.

Definition text_canonical (T : stext) : Prop :=
  forallb canonical (st_attrs T) = true /\ Forall (fun x => forallb canonical (snd x) = true) (sp_rels T).

(* conservative extension: when every recognised attribute has the argument form its name demands, the spelled model IS
   the classified model *)
Theorem sp_check_conservative c0 T k : text_canonical T -> sp_check c0 T k = inj_verdict (check_text c0 (lower_text T) k).
Proof.
  intros [C4 C5]. unfold sp_check, sp_check_res, check_text, check, check_loc. fold (sp_program T).
  destruct (flatten 0 (p_items (sp_program T))) as [its|e l|] eqn:F; simpl; auto.
  change (p_attrs (sp_program T)) with (map lower_p (st_attrs T)).
  rewrite (sp_check_items_canonical c0 (st_attrs T) k its (sp_rels T) (sp_rels_ok T) (sp_rels_flatten T its F) C4 C5).
  destruct (check_items c0 (map lower_p (st_attrs T)) k its) as [[]|e l|]; reflexivity.
Qed.

Theorem sp_invoke_conservative c0 T k : text_canonical T -> sp_invoke c0 T k = inj_verdict (invoke_text c0 (lower_text T) k).
Proof.
  intros [C4 C5]. unfold sp_invoke, invoke_text, invoke. fold (sp_program T).
  destruct (scan_top 0 (p_items (sp_program T))) as [[its|]|e l|] eqn:St; simpl; auto.
  apply scan_top_Some_flatten in St.
  change (p_attrs (sp_program T)) with (map lower_p (st_attrs T)).
  rewrite (sp_check_items_canonical c0 (st_attrs T) k its (sp_rels T) (sp_rels_ok T) (sp_rels_flatten T its St) C4 C5).
  destruct (check_items c0 (map lower_p (st_attrs T)) k its) as [[]|e l|]; reflexivity.
Qed.

(* one invocation: it defers, or it rejects, whenever the classified invocation does *)
Theorem sp_invoke_reject_complete c0 T k e : invoke_text c0 (lower_text T) k = Reject e -> exists e', sp_invoke c0 T k = SReject e'.
Proof.
  unfold sp_invoke, invoke_text, invoke. fold (sp_program T).
  destruct (scan_top 0 (p_items (sp_program T))) as [[its|]|e0 l|] eqn:St; simpl; try discriminate.
  - apply scan_top_Some_flatten in St. change (p_attrs (sp_program T)) with (map lower_p (st_attrs T)).
    pose proof (sp_check_items_sound c0 (st_attrs T) k its (sp_rels T) (sp_rels_ok T) (sp_rels_flatten T its St)) as H.
    destruct (sp_check_items c0 (st_attrs T) k its (sp_rels T)) as [[]|e'|]; simpl.
    + rewrite H. discriminate.
    + intros _. now exists e'.
    + rewrite H. discriminate.
  - intros _. now exists (SBase e0).
Qed.

(* ------------------------------------------------------------------ the property: an attribute that is not recognised is
   rejected at its position, whatever its spelling *)

(* program position (#![..]): the path is not exactly one of the four identifiers *)
Theorem unrecognised_program_attribute_rejected c0 T k a : In a (st_attrs T) -> recognised a = false ->
  exists e, sp_check c0 T k = SReject e.
Proof.
  intros Hin Hr.
  assert (Hv : occurs c0 (sp_program T) k (VAttr 0 EUnknownAttr)).
  { simpl. constructor. apply in_map_iff. exists a. split; [now apply lower_p_unknown | exact Hin]. }
  destruct (reject_complete c0 (sp_program T) k _ Hv) as [e [l [H _]]].
  apply (sp_reject_complete c0 T k e). unfold check_text, check. fold (sp_program T). now rewrite H.
Qed.

(* ... and the error is the one about the unrecognised attribute as soon as the earlier stages pass and the flags of the
   program are bare paths *)
Theorem unrecognised_program_attribute_class c0 T k a its xr : In a (st_attrs T) -> recognised a = false ->
  flatten 0 (p_items (sp_program T)) = OK its -> expand_rules (macros_of its) (rules_of its) = OK xr ->
  check_rules (decls_of its) (ds_rules c0 xr) = OK tt -> flags_ok (st_attrs T) = true ->
  sp_check c0 T k = SReject (SBase EUnknownAttr).
Proof.
  intros Hin Hr F X R Fl. unfold sp_check, sp_check_res. rewrite F. simpl. unfold sp_check_items. rewrite X. simpl. rewrite R. simpl.
  rewrite (sp_check_attrs_unrecognised _ k a Hin Hr), Fl. reflexivity.
Qed.

(* one invocation of the macro: it reports the attribute unless it stops at an include_source! (then the re-invocation,
   which sees the same #![..] attributes, does) *)
Theorem unrecognised_program_attribute_invoke c0 T k a : In a (st_attrs T) -> recognised a = false ->
  sp_invoke c0 T k = SDeferred \/ exists e, sp_invoke c0 T k = SReject e.
Proof.
  intros Hin Hr. unfold sp_invoke. destruct (scan_top 0 (p_items (sp_program T))) as [[its|]|e l|] eqn:St; auto.
  - right. apply scan_top_Some_flatten in St.
    assert (Hc : exists e, sp_check c0 T k = SReject e) by (eapply unrecognised_program_attribute_rejected; eauto).
    unfold sp_check, sp_check_res in Hc. rewrite St in Hc. exact Hc.
  - right. now exists (SBase e).
  - exfalso. revert St. apply scan_top_no_panic.
Qed.

(* rule / macro definition / include_source! position: ANY attribute, in any spelling, is an error *)
Definition sp_nonrel (x : sbare) : Prop := match x with SBPlain b => nonrel0 b | SBInclude _ => True end.
Definition sp_nonrel1 (y : bare1) : Prop := match y with B1Plain b => nonrel0 b | B1Include => True end.

Lemma lowered_nonnil (a : list sattr) : a <> [] -> map lower_r a <> [].
Proof. destruct a; simpl; [congruence | discriminate]. Qed.

Lemma lowered_item T p a x : nth_error (st_items T) p = Some (a, x) ->
  nth_error (t_items (lower_text T)) p = Some (map lower_r a, lower_bare x).
Proof. intros H. unfold lower_text; simpl. now rewrite (map_nth_error _ _ _ H). Qed.

Theorem spelled_attribute_on_non_relation_rejected c0 T k p a x : nth_error (st_items T) p = Some (a, x) -> a <> [] -> sp_nonrel x ->
  exists e, sp_check c0 T k = SReject e.
Proof.
  intros Hn Ha Hx. apply lowered_item in Hn. apply lowered_nonnil in Ha.
  assert (Hv : attr_on_nonrel (lower_text T) p 0).
  { destruct x as [b|src]; simpl in *; [eapply an_plain; eauto | eapply an_incl; eauto]. }
  destruct (text_attr_rejected c0 _ k _ _ Hv) as [e [l [H _]]]. now apply (sp_reject_complete c0 T k e).
Qed.

Theorem spelled_attribute_in_source_rejected c0 T k p a src q a' y : nth_error (st_items T) p = Some (a, SBInclude src) ->
  nth_error src q = Some (a', y) -> a' <> [] -> sp_nonrel1 y -> exists e, sp_check c0 T k = SReject e.
Proof.
  intros Hn Hq Ha Hy. apply lowered_item in Hn. apply lowered_nonnil in Ha. simpl in Hn.
  assert (Hq' : nth_error (lower_src src) q = Some (map lower_r a', y)) by (unfold lower_src; now rewrite (map_nth_error _ _ _ Hq)).
  assert (Hv : attr_on_nonrel (lower_text T) p (S q)).
  { destruct y as [b|]; simpl in *; [eapply an_src_plain; eauto | eapply an_src_incl; eauto]. }
  destruct (text_attr_rejected c0 _ k _ _ Hv) as [e [l [H _]]]. now apply (sp_reject_complete c0 T k e).
Qed.

(* with exactly the class "unexpected attribute(s)" when the item is the first of the text, by the invocation itself *)
Theorem spelled_attribute_on_first_item_rejected c0 T k a x tl : st_items T = (a, x) :: tl -> a <> [] -> sp_nonrel x ->
  sp_invoke c0 T k = SReject (SBase EUnexpectedAttr) /\ sp_check c0 T k = SReject (SBase EUnexpectedAttr).
Proof.
  intros Hi Ha Hx. unfold sp_invoke, sp_check, sp_check_res. rewrite sp_program_items, Hi. simpl.
  apply lowered_nonnil in Ha. apply length_pos_nonnil in Ha. apply Nat.ltb_lt in Ha.
  destruct x as [b|src]; unfold give; simpl.
  - destruct b as [n tys lat | r | m]; simpl in *; [contradiction | |]; rewrite Ha; simpl; auto.
  - rewrite Ha; simpl; auto.
Qed.

(* relation position: only an attribute whose path is EXACTLY `ds` is looked at; every other one, however it is spelled
   (`ascent::ds(..)`, `::ds(..)`, `my_tools::profile(level = 3)`), is handed to the field of the generated struct *)
Theorem relation_attributes_only_ds_matters a : get_ds_attr (filter (named n_ds) a) = get_ds_attr a.
Proof. unfold get_ds_attr. now rewrite filter_idem. Qed.
Theorem relation_decision_ignores_other_attributes d a : sp_check_decl (d, filter (named n_ds) a) = sp_check_decl (d, a).
Proof. unfold sp_check_decl; simpl. now rewrite relation_attributes_only_ds_matters. Qed.
Theorem field_attrs_spec a x : In x (field_attrs a) <-> In x a /\ sa_path x <> ident_path n_ds.
Proof.
  unfold field_attrs. rewrite filter_In. split; intros [H1 H2]; (split; [exact H1|]).
  - intros E. apply named_spec in E. rewrite E in H2. discriminate.
  - destruct (named n_ds x) eqn:E; [| reflexivity]. apply named_spec in E. contradiction.
Qed.
(* the signature's attributes never reach a check *)
Theorem signature_attributes_ignored c0 T k s :
  sp_check c0 {| st_attrs := st_attrs T; st_sig := s; st_items := st_items T |} k = sp_check c0 T k /\
  sp_invoke c0 {| st_attrs := st_attrs T; st_sig := s; st_items := st_items T |} k = sp_invoke c0 T k.
Proof.
  unfold sp_check, sp_check_res, sp_invoke. rewrite !sp_program_items. split; reflexivity.
Qed.

(* ------------------------------------------------------------------ the flags: arguments *)

(* a flag written with arguments is rejected when it is the first attribute of that name ... *)
Theorem flag_with_arguments_rejected_partial sa k pre a post n : sa = pre ++ a :: post ->
  In n [n_measure_rule_times; n_generate_run_timeout; n_inter_rule_parallelism] -> named n a = true -> path_only a = false ->
  (forall b, In b pre -> named n b = false) -> sp_check_attrs sa k = RErr SFlagArgs.
Proof.
  intros -> Hn Hna Hp Hpre. unfold sp_check_attrs.
  assert (F : flag_ok (pre ++ a :: post) n = false).
  { unfold flag_ok. assert (find (named n) (pre ++ a :: post) = Some a) as ->; [| exact Hp].
    induction pre as [|b tl IH]; simpl; [now rewrite Hna|]. rewrite (Hpre b (or_introl eq_refl)). apply IH. intros; apply Hpre; now right. }
  assert (flags_ok (pre ++ a :: post) = false) as ->; [| reflexivity].
  unfold flags_ok. simpl in Hn. destruct Hn as [<- | [<- | [<- | []]]]; rewrite F; simpl; auto using andb_false_r.
  now rewrite andb_false_r.
Qed.

(* ... but not in general: `find` examines only the first attribute of a name.  #![measure_rule_times] #![measure_rule_times(1)]
   is accepted by the faithful model (and by the real code) *)
Definition mrt_with_args : sattr := {| sa_path := ident_path n_measure_rule_times; sa_args := ArgList false |}.
Theorem flag_with_arguments_rejected_refuted : exists sa, In mrt_with_args sa /\ forall k, sp_check_attrs sa k = ROK tt.
Proof. exists [bare_attr n_measure_rule_times; mrt_with_args]. split; [right; now left | intros []; reflexivity]. Qed.

(* ------------------------------------------------------------------ dispatching on the attribute's NAME loses the others *)

Lemma by_name_agrees sa k : forallb has_name sa = true -> sp_check_attrs_by_name sa k = sp_check_attrs sa k.
Proof.
  intros H. unfold sp_check_attrs_by_name. f_equal. induction sa as [|a tl IH]; simpl in *; [reflexivity|].
  apply andb_true_iff in H as [H1 H2]. rewrite H1. f_equal. now apply IH.
Qed.

Definition path_attr (lead : bool) (segs : list nat) (args : aargs) : sattr := {| sa_path := {| ap_lead := lead; ap_segs := segs |}; sa_args := args |}.

(* #![ascent::trace_rules]  #![::trace_rules]  #![my_tools::profile(level = 3)]  #![ascent::measure_rule_times]  (7 = ascent, 8 = trace_rules, ..) *)
Definition unnamed_samples : list sattr :=
  [path_attr false [7; 8] ArgNone; path_attr true [8] ArgNone; path_attr false [9; 10] (ArgList false);
   path_attr false [7; n_measure_rule_times] ArgNone; path_attr true [n_ds] (ArgList true); path_attr false [7; 8; 9] ArgEq].

Theorem by_name_dispatch_refuted : exists a, recognised a = false /\ forall k, sp_check_attrs_by_name [a] k = ROK tt.
Proof. exists (path_attr false [7; 8] ArgNone). split; [reflexivity | intros []; reflexivity]. Qed.

Example unnamed_samples_verdicts :
  forallb (fun a => negb (recognised a)) unnamed_samples = true /\
  map (fun a => sp_check_attrs [a] KAscentPar) unnamed_samples = repeat (RErr (SBase EUnknownAttr)) 6 /\
  map (fun a => sp_check_attrs_by_name [a] KAscentPar) unnamed_samples = repeat (ROK tt) 6.
Proof. vm_compute. auto. Qed.

(* ------------------------------------------------------------------ computed instances: every position x spelling
   relation edge(i32, i32); relation path(i32, i32); path(x, y) <-- edge(x, y);  with one attribute a at a position *)

Definition r_edge : bare0 := BRel 0 [0; 0] false.
Definition r_path : bare0 := BRel 1 [0; 0] false.
Definition l_path : bare0 := BRel 1 [0; 0] true.
Definition the_rule : bare0 :=
  BRule {| s_heads := [HClause 1 2]; s_body := [SClause 0 [AVar (Base 1); AVar (Base 2)] []] |}.
Definition the_macro : bare0 := BMacro {| m_name := 0; m_nparams := 1; m_body := [SClause 0 [AVar 0; AVar 0] []] |}.

Inductive position := AtProgram | AtSignature | AtRelation | AtLattice | AtRule | AtMacro | AtInclude | AtSourceRelation | AtSourceRule.
Definition positions := [AtProgram; AtSignature; AtRelation; AtLattice; AtRule; AtMacro; AtInclude; AtSourceRelation; AtSourceRule].

Definition place (pos : position) (a : sattr) : stext :=
  let on p := if match pos, p with AtProgram, AtProgram | AtSignature, AtSignature | AtRelation, AtRelation | AtLattice, AtLattice
                                 | AtRule, AtRule | AtMacro, AtMacro | AtInclude, AtInclude | AtSourceRelation, AtSourceRelation
                                 | AtSourceRule, AtSourceRule => true | _, _ => false end then [a] else [] in
  {| st_attrs := on AtProgram;
     st_sig := Some (on AtSignature);
     st_items := [(on AtRelation, SBPlain r_edge);
                  (on AtLattice, SBPlain (match pos with AtLattice => l_path | _ => r_path end));
                  (on AtMacro, SBPlain the_macro);
                  (on AtRule, SBPlain the_rule);
                  (on AtInclude, SBInclude [(on AtSourceRelation, B1Plain (BRel 2 [0] false)); (on AtSourceRule, B1Plain the_rule)])] |}.

Definition all_kinds : list mkind := [KAscent; KAscentPar; KAscentRun; KAscentRunPar].
Definition verdicts (T : stext) : list sverdict := map (sp_check [] T) all_kinds ++ map (sp_invoke [] T) all_kinds.
Definition all_check_invoke (c i : sverdict) : list sverdict := repeat c 4 ++ repeat i 4.

(* an attribute that is not recognised: rejected at the program, at a rule, a macro definition, an include_source!, a rule of
   the source; handed on (accepted by the macro) at the signature, a relation, a lattice, a relation of the source *)
Example unrecognised_at_every_position :
  forallb (fun a =>
    forallb (fun pos =>
      match pos with
      | AtProgram => forallb (fun v => match v with SReject (SBase EUnknownAttr) | SDeferred => true | _ => false end) (verdicts (place pos a))
                     && forallb (fun v => match v with SReject (SBase EUnknownAttr) => true | _ => false end) (map (sp_check [] (place pos a)) all_kinds)
      | AtRule | AtMacro | AtInclude | AtSourceRule =>
          forallb (fun v => match v with SReject (SBase EUnexpectedAttr) | SDeferred => true | _ => false end) (verdicts (place pos a))
          && forallb (fun v => match v with SReject (SBase EUnexpectedAttr) => true | _ => false end) (map (sp_check [] (place pos a)) all_kinds)
      | _ => forallb (fun v => match v with SAccept | SDeferred => true | _ => false end) (verdicts (place pos a))
      end) positions) unnamed_samples = true.
Proof. vm_compute. reflexivity. Qed.

(* the recognised names, in the forms the real code distinguishes *)
Example recognised_forms :
  map (fun a => sp_check_attrs [a] KAscent)
      [bare_attr n_measure_rule_times; path_attr false [n_measure_rule_times] (ArgList false); path_attr false [n_generate_run_timeout] ArgEq;
       bare_attr n_inter_rule_parallelism; path_attr false [n_inter_rule_parallelism] (ArgList true);
       ds_attr; bare_attr n_ds; path_attr false [n_ds] ArgEq; path_attr false [n_ds] (ArgList false)]
  = [ROK tt; RErr SFlagArgs; RErr SFlagArgs; RErr (SBase EInterRuleSerial); RErr SFlagArgs;
     ROK tt; RErr SDsNotList; RErr SDsNotList; RErr SDsContents] /\
  sp_check_attrs [bare_attr n_inter_rule_parallelism] KAscentPar = ROK tt /\
  sp_check_attrs [ds_attr; path_attr false [7; n_ds] (ArgList true)] KAscent = RErr (SBase EUnknownAttr) /\
  sp_check_attrs [ds_attr; ds_attr] KAscent = RErr (SBase EMultipleDsProg) /\
  map (sp_check [] (place AtLattice ds_attr)) all_kinds = repeat (SReject (SBase (EDsOnLattice 1))) 4 /\
  map (sp_check [] (place AtLattice (path_attr false [7; n_ds] (ArgList true)))) all_kinds = repeat SAccept 4 /\
  map (sp_check [] (place AtRelation (bare_attr n_ds))) all_kinds = repeat (SReject SDsNotList) 4 /\
  map (sp_check [] (place AtSourceRelation (path_attr false [n_ds] (ArgList false)))) all_kinds = repeat (SReject SDsContents) 4.
Proof. vm_compute. repeat split; reflexivity. Qed.

(* ------------------------------------------------------------------ relation attributes other than `ds` never influence the verdict *)

Definition sstrip_src_item (y : list sattr * bare1) : list sattr * bare1 :=
  match snd y with B1Plain (BRel _ _ _) => (filter (named n_ds) (fst y), snd y) | _ => y end.
Definition sstrip_item (x : list sattr * sbare) : list sattr * sbare :=
  match snd x with
  | SBPlain (BRel _ _ _) => (filter (named n_ds) (fst x), snd x)
  | SBPlain _ => x
  | SBInclude src => (fst x, SBInclude (map sstrip_src_item src))
  end.
(* the text without the attributes the macro hands on: the signature's, and on every relation all but the exact `ds` *)
Definition sstrip (T : stext) : stext :=
  {| st_attrs := st_attrs T; st_sig := None; st_items := map sstrip_item (st_items T) |}.

Lemma lower_r_filter a : map lower_r (filter (named n_ds) a) = filter is_rds (map lower_r a).
Proof.
  induction a as [|x tl IH]; simpl; [reflexivity|]. rewrite is_rds_lower. destruct (named n_ds x); simpl; now rewrite IH.
Qed.

Lemma give_sstrip_src y : give1 (map lower_r (fst (sstrip_src_item y)), snd (sstrip_src_item y)) = strip_item1 (give1 (map lower_r (fst y), snd y)).
Proof.
  destruct y as [a [b|]]; unfold sstrip_src_item, give1; simpl; [| reflexivity].
  destruct b as [n tys lat|r|m]; simpl; try reflexivity. unfold strip_decl; simpl. now rewrite lower_r_filter.
Qed.

Lemma parse_src_sstrip src : parse_src (lower_src (map sstrip_src_item src)) = map strip_item1 (parse_src (lower_src src)).
Proof.
  rewrite !parse_src_eq. unfold lower_src. rewrite !map_map. apply map_ext. intros y. apply give_sstrip_src.
Qed.

Lemma give_sstrip x : give (map lower_r (fst (sstrip_item x)), lower_bare (snd (sstrip_item x))) = strip_item (give (map lower_r (fst x), lower_bare (snd x))).
Proof.
  destruct x as [a [b|src]]; unfold sstrip_item, give; simpl.
  - destruct b as [n tys lat|r|m]; simpl; try reflexivity. unfold strip_decl; simpl. now rewrite lower_r_filter.
  - now rewrite parse_src_sstrip.
Qed.

Lemma sp_program_sstrip T : p_items (sp_program (sstrip T)) = map strip_item (p_items (sp_program T)).
Proof.
  rewrite !sp_program_items. unfold sstrip; simpl. rewrite !map_map. apply map_ext. intros x. apply give_sstrip.
Qed.

Definition strip_sdecl (x : sdecl) : sdecl := (strip_decl (fst x), filter (named n_ds) (snd x)).

Lemma src_rels_sstrip src : src_rels (map sstrip_src_item src) = map strip_sdecl (src_rels src).
Proof.
  induction src as [|[a y] tl IH]; [reflexivity|]. simpl map. rewrite !src_rels_cons, map_app, IH. f_equal.
  destruct y as [[n tys lat|r|m]|]; unfold sstrip_src_item, src_item_rels; simpl; try reflexivity.
  unfold strip_sdecl, mk_sdecl, strip_decl; simpl. now rewrite lower_r_filter.
Qed.

Lemma sp_rels_sstrip T : sp_rels (sstrip T) = map strip_sdecl (sp_rels T).
Proof.
  unfold sp_rels, sstrip; simpl. induction (st_items T) as [|[a x] tl IH]; [reflexivity|].
  simpl map. rewrite !sp_rels_cons, map_app, IH. f_equal.
  destruct x as [[n tys lat|r|m]|src]; unfold sstrip_item, item_rels; simpl; try reflexivity.
  - unfold strip_sdecl, mk_sdecl, strip_decl; simpl. now rewrite lower_r_filter.
  - apply src_rels_sstrip.
Qed.

Lemma sp_dedup_strip l : sp_dedup_last (map strip_sdecl l) = map strip_sdecl (sp_dedup_last l).
Proof.
  induction l as [|x tl IH]; simpl; [reflexivity|].
  assert (existsb (fun y => same_identity (strip_decl (fst x)) (fst y)) (map strip_sdecl tl) =
          existsb (fun y => same_identity (fst x) (fst y)) tl) as ->.
  { clear IH. induction tl as [|y tl IH]; simpl; [reflexivity | now rewrite IH]. }
  destruct (existsb (fun y => same_identity (fst x) (fst y)) tl); simpl; now rewrite IH.
Qed.

Lemma sp_check_decl_strip x : sp_check_decl (strip_sdecl x) = sp_check_decl x.
Proof. unfold sp_check_decl, strip_sdecl; simpl. now rewrite relation_attributes_only_ds_matters. Qed.

Lemma sp_all_strip l : sp_all (map strip_sdecl l) = sp_all l.
Proof. induction l as [|x tl IH]; simpl; [reflexivity|]. now rewrite sp_check_decl_strip, IH. Qed.

Lemma sp_check_decls_strip l : sp_check_decls (map strip_sdecl l) = sp_check_decls l.
Proof. unfold sp_check_decls. now rewrite sp_dedup_strip, sp_all_strip. Qed.

Lemma sp_check_items_strip c0 sa k its rs :
  sp_check_items c0 sa k (map strip_item0 its) (map strip_sdecl rs) = sp_check_items c0 sa k its rs.
Proof.
  unfold sp_check_items. rewrite macros_of_strip, rules_of_strip, decls_of_strip.
  destruct (expand_rules (macros_of its) (rules_of its)) as [xr| |]; simpl; try reflexivity.
  assert (check_rules (map strip_decl (decls_of its)) (ds_rules c0 xr) = check_rules (decls_of its) (ds_rules c0 xr)) as ->.
  { unfold check_rules. f_equal. apply mapM_ext. intros; apply scan_events_strip. }
  destruct (check_rules (decls_of its) (ds_rules c0 xr)); simpl; try reflexivity.
  destruct (sp_check_attrs sa k); simpl; try reflexivity.
  rewrite sp_check_decls_strip. destruct (sp_check_decls rs); simpl; try reflexivity.
  destruct (check_strat (ds_rules c0 xr)); simpl; try reflexivity.
  assert (codegen_panics (map strip_decl (decls_of its)) (ds_rules c0 xr) = codegen_panics (decls_of its) (ds_rules c0 xr)) as ->; [| reflexivity].
  unfold codegen_panics. induction (ds_rules c0 xr) as [|r tl IH]; simpl; [reflexivity|]. now rewrite body_panics_strip, IH.
Qed.

Lemma scan_top_strip p its : scan_top p (map strip_item its) = map_result (option_map (map strip_item0)) (scan_top p its).
Proof.
  revert p; induction its as [|x tl IH]; intros p; simpl; [reflexivity|].
  destruct x as [i|n src]; simpl.
  - rewrite item0_err_strip. destruct (item0_err i); [reflexivity|]. rewrite IH. destruct (scan_top (S p) tl) as [[r|]| |]; reflexivity.
  - destruct (0 <? n); reflexivity.
Qed.

(* whatever is written in front of the signature, and whatever but an exact `ds` in front of a relation or a lattice (of the
   program or of an included source): the verdict of the macro is the same — such attributes are passed to rustc *)
Theorem handed_on_attributes_pass_through c0 T k :
  sp_check c0 (sstrip T) k = sp_check c0 T k /\ sp_invoke c0 (sstrip T) k = sp_invoke c0 T k.
Proof.
  split.
  - unfold sp_check, sp_check_res. rewrite sp_program_sstrip, flatten_strip, sp_rels_sstrip.
    destruct (flatten 0 (p_items (sp_program T))) as [its| |]; simpl; try reflexivity.
    now rewrite sp_check_items_strip.
  - unfold sp_invoke. rewrite sp_program_sstrip, scan_top_strip, sp_rels_sstrip.
    destruct (scan_top 0 (p_items (sp_program T))) as [[its|]| |]; simpl; try reflexivity.
    now rewrite sp_check_items_strip.
Qed.
