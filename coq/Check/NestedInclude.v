(* C15 — `include_source!` nested in the body of an `ascent_source!`: the POSITION of the nested include.

   ascent_macro/src/lib.rs ascent_source_impl runs the parser of Ascent programs (parse_ascent_program) over the WHOLE body of the
   source; the parser returns Either::Right as soon as it meets an include_source! at item position, and ascent_source_impl turns that
   into "`ascent_source`s cannot contain `include_source!`".  CheckModel.scan_src is that walk: a recursion over ALL items of the body.

   This file states what the walk guarantees for every position of the nested include — in particular directly behind macro
   definitions, the only items of the language that do not end with a top-level `;` — and refutes the variant "look for the include
   only at the token that starts an item, an item starting at the beginning of the body and after every top-level `;`"
   ([lex_finds], the lexical scan of seeded/C15_nested_include_scan_misses_after_macro_def). *)
From Coq Require Import List Bool Arith PeanoNat Lia.
From AV Require Import Check.CheckModel.
From AV Require Import Check.CheckProofs.
From AV Require Import Check.AttrPaths.
From AV Require Import Check.AttrPathsLaws.
Import ListNotations.

(* ------------------------------------------------------------------ the full walk, every position *)

(* an item the parser of the body accepts and walks past *)
Definition clean0 (i : item0) : bool := match item0_err i with None => true | Some _ => false end.
Definition clean1 (x : item1) : bool := match x with I1Plain i => clean0 i | I1Include _ => false end.
Definition plain_of (x : item1) : list item0 := match x with I1Plain i => [i] | I1Include _ => [] end.

Lemma scan_src_clean_prefix p q0 pre rest : forallb clean1 pre = true ->
  scan_src p q0 (pre ++ rest) = bind (scan_src p (q0 + length pre) rest) (fun r => OK (flat_map plain_of pre ++ r)).
Proof.
  revert q0; induction pre as [|x tl IH]; intros q0 H; simpl.
  - rewrite Nat.add_0_r. destruct (scan_src p q0 rest); reflexivity.
  - simpl in H. apply andb_true_iff in H as [Hx Htl]. destruct x as [i|n]; [| discriminate]. simpl in Hx. unfold clean0 in Hx.
    destruct (item0_err i); [discriminate|]. rewrite (IH (S q0) Htl). rewrite Nat.add_succ_r. simpl.
    destruct (scan_src p (S (q0 + length tl)) rest); reflexivity.
Qed.

(* EXACT: whatever well-formed items precede it — relations, lattices, rules, facts, any number of macro definitions — the nested
   include is found, at its own position, with the dedicated error *)
Theorem nested_include_found_at_every_position p q0 pre post : forallb clean1 pre = true ->
  scan_src p q0 (pre ++ I1Include 0 :: post) = Err EIncludeInSource (1, p, S (q0 + length pre)).
Proof. intros H. rewrite (scan_src_clean_prefix p q0 pre _ H). reflexivity. Qed.

(* an attributed nested include: the parser's "unexpected attribute(s)" comes first *)
Theorem attributed_nested_include_found_at_every_position p q0 pre n post : forallb clean1 pre = true -> 0 < n ->
  scan_src p q0 (pre ++ I1Include n :: post) = Err EUnexpectedAttr (1, p, S (q0 + length pre)).
Proof.
  intros H Hn. rewrite (scan_src_clean_prefix p q0 pre _ H). simpl. apply Nat.ltb_lt in Hn. now rewrite Hn.
Qed.

(* macro definitions are walked past like every other item *)
Definition macro_items (ms : list macrodef) : list item1 := map (fun m => I1Plain (IMacro 0 m)) ms.
Lemma macro_items_clean ms : forallb clean1 (macro_items ms) = true.
Proof. induction ms as [|m tl IH]; simpl; [reflexivity | exact IH]. Qed.

Corollary nested_include_found_behind_macro_definitions p q0 pre ms post : forallb clean1 pre = true ->
  scan_src p q0 (pre ++ macro_items ms ++ I1Include 0 :: post) = Err EIncludeInSource (1, p, S (q0 + length pre + length ms)).
Proof.
  intros H. rewrite app_assoc. rewrite nested_include_found_at_every_position.
  - rewrite app_length. unfold macro_items. rewrite map_length. now rewrite Nat.add_assoc.
  - rewrite forallb_app, H, macro_items_clean. reflexivity.
Qed.

(* GENERAL: a body with an include_source! at ANY position, behind ANY items, is never accepted *)
Theorem nested_include_never_accepted p q0 src q n : nth_error src q = Some (I1Include n) ->
  exists e q', q' <= q /\ scan_src p q0 src = Err e (1, p, S (q0 + q')).
Proof.
  intros H. destruct n as [|n].
  - apply (scan_src_complete p q0 src q EIncludeInSource). now apply sb_incl.
  - apply (scan_src_complete p q0 src q EUnexpectedAttr). eapply sb_incl_attr; [exact H | lia].
Qed.

(* ------------------------------------------------------------------ the whole front end *)

Definition cleanI (x : item) : bool := match x with IPlain i => clean0 i | IInclude _ _ => false end.
Definition plainI_of (x : item) : list item0 := match x with IPlain i => [i] | IInclude _ _ => [] end.

Lemma flatten_clean_prefix p0 pre rest : forallb cleanI pre = true ->
  flatten p0 (pre ++ rest) = bind (flatten (p0 + length pre) rest) (fun r => OK (flat_map plainI_of pre ++ r)).
Proof.
  revert p0; induction pre as [|x tl IH]; intros p0 H; simpl.
  - rewrite Nat.add_0_r. destruct (flatten p0 rest); reflexivity.
  - simpl in H. apply andb_true_iff in H as [Hx Htl]. destruct x as [i|n s]; [| discriminate]. simpl in Hx. unfold clean0 in Hx.
    destruct (item0_err i); [discriminate|]. rewrite (IH (S p0) Htl). rewrite Nat.add_succ_r. simpl.
    destruct (flatten (S (p0 + length tl)) rest); reflexivity.
Qed.

(* EXACT: a source included at ANY position of a host whose earlier items parse, with the nested include at ANY position of a body
   whose earlier items parse: rejected with the dedicated error, under all four macros, whatever follows (in the body, in the host) *)
Theorem nested_include_rejected_at_every_position c0 P k hpre spre spost hpost :
  p_items P = hpre ++ IInclude 0 (spre ++ I1Include 0 :: spost) :: hpost ->
  forallb cleanI hpre = true -> forallb clean1 spre = true ->
  check c0 P k = Reject EIncludeInSource /\ check_loc c0 P k = Err EIncludeInSource (1, length hpre, S (length spre)).
Proof.
  intros Hi Hh Hs. unfold check, check_loc. rewrite Hi, (flatten_clean_prefix 0 hpre _ Hh). simpl.
  rewrite (nested_include_found_at_every_position (length hpre) 0 spre spost Hs). simpl. auto.
Qed.

Corollary nested_include_behind_macro_definitions_rejected c0 P k hpre spre ms spost hpost :
  p_items P = hpre ++ IInclude 0 (spre ++ macro_items ms ++ I1Include 0 :: spost) :: hpost ->
  forallb cleanI hpre = true -> forallb clean1 spre = true -> check c0 P k = Reject EIncludeInSource.
Proof.
  intros Hi Hh Hs. rewrite app_assoc in Hi. eapply nested_include_rejected_at_every_position; [exact Hi | exact Hh |].
  rewrite forallb_app, Hs, macro_items_clean. reflexivity.
Qed.

(* GENERAL: a program that includes a source whose body contains an include_source! anywhere is rejected (by a parse-level error
   detected no later than the nested include) — no hypothesis on the other items *)
Theorem nested_include_program_rejected c0 P k p n src q m :
  nth_error (p_items P) p = Some (IInclude n src) -> nth_error src q = Some (I1Include m) ->
  exists e l, check c0 P k = Reject e /\ check_loc c0 P k = Err e l /\ loc_le l (1, p, S q).
Proof.
  intros Hp Hq.
  assert (Hb : exists e0, parse_bad (p_items P) p (S q) e0).
  { destruct m as [|m]; [exists EIncludeInSource; eapply pb_src_incl; eauto | exists EUnexpectedAttr; eapply pb_src_incl_attr; eauto; lia]. }
  destruct Hb as [e0 Hb]. destruct (flatten_complete 0 _ _ _ _ Hb) as [e' [l' [H1 H2]]].
  exists e', l'. unfold check, check_loc. rewrite H1. simpl. auto.
Qed.

(* the same on a text with spelled attributes (what the tie evaluates): any attributes anywhere *)
Theorem spelled_nested_include_rejected c0 T k p a src q a' :
  nth_error (st_items T) p = Some (a, SBInclude src) -> nth_error src q = Some (a', B1Include) -> exists e, sp_check c0 T k = SReject e.
Proof.
  intros Hp Hq. apply lowered_item in Hp. simpl in Hp.
  assert (Hq' : nth_error (lower_src src) q = Some (map lower_r a', B1Include)) by (unfold lower_src; now rewrite (map_nth_error _ _ _ Hq)).
  assert (H1 : nth_error (p_items (parse_text (lower_text T))) p = Some (IInclude (length (map lower_r a)) (map give1 (lower_src src)))).
  { rewrite parse_text_items. rewrite (map_nth_error _ _ _ Hp). unfold give; simpl. now rewrite parse_src_eq. }
  assert (H2 : nth_error (map give1 (lower_src src)) q = Some (I1Include (length (map lower_r a')))).
  { rewrite (map_nth_error _ _ _ Hq'). reflexivity. }
  destruct (nested_include_program_rejected c0 _ k _ _ _ _ _ H1 H2) as [e [l [H _]]].
  apply (sp_reject_complete c0 T k e). exact H.
Qed.

(* the invocation of a program macro never sees it (it stops at the include of the host): c15_invoke_deferred; the rejection is
   the business of ascent_source!, i.e. of the walk above *)

(* ------------------------------------------------------------------ the variant: a lexical scan at item starts *)

(* does the item end with a top-level `;`?  relation / lattice / rule / fact / include_source!(..) do; `macro name(..) { .. }` ends
   with a brace group *)
Definition ends_semi (x : item1) : bool := match x with I1Plain (IMacro _ _) => false | _ => true end.

(* [at_start]: the previous token was a top-level `;` (or nothing precedes); attributes in front of an item are skipped *)
Fixpoint lex_finds (at_start : bool) (src : list item1) : bool :=
  match src with
  | [] => false
  | I1Include _ :: tl => if at_start then true else lex_finds true tl
  | I1Plain i :: tl => lex_finds (ends_semi (I1Plain i)) tl
  end.

Definition full_accepts (src : list item1) : bool := match scan_src 0 0 src with OK _ => true | _ => false end.
Definition lex_accepts (src : list item1) : bool :=
  negb (lex_finds true src) && forallb (fun x => match x with I1Plain i => clean0 i | I1Include _ => true end) src.

Definition is_include1 (x : item1) : bool := match x with I1Include _ => true | I1Plain _ => false end.

(* on bodies without macro definitions the lexical scan finds exactly what the walk finds ... *)
Lemma lex_finds_no_macro src : forallb ends_semi src = true -> lex_finds true src = existsb is_include1 src.
Proof.
  induction src as [|x tl IH]; simpl; [reflexivity|]. intros H. apply andb_true_iff in H as [Hx Htl].
  destruct x as [i|n]; simpl; [| reflexivity]. simpl in Hx. destruct i; try discriminate; exact (IH Htl).
Qed.

Theorem lex_scan_agrees_without_macro_definitions src : forallb ends_semi src = true -> lex_accepts src = full_accepts src.
Proof.
  intros H. unfold lex_accepts, full_accepts. rewrite (lex_finds_no_macro src H). clear H.
  generalize 0 at 1. generalize 0. induction src as [|x tl IH]; intros p q; simpl; [reflexivity|].
  destruct x as [i|n]; simpl; [| reflexivity]. destruct (clean0 i) eqn:E; unfold clean0 in E; destruct (item0_err i); try discriminate; simpl.
  - rewrite (IH (S p) q). destruct (scan_src q (S p) tl); reflexivity.
  - now rewrite andb_false_r.
Qed.

(* ... and behind a macro definition it finds nothing *)
Lemma lex_finds_plain b l : forallb (fun x => negb (is_include1 x)) l = true -> lex_finds b l = false.
Proof.
  revert b; induction l as [|x tl IH]; intros b H; simpl; [reflexivity|]. simpl in H. apply andb_true_iff in H as [Hx Htl].
  destruct x as [i|n]; [apply IH; exact Htl | discriminate].
Qed.

Lemma lex_finds_app_plain b l r : forallb (fun x => negb (is_include1 x)) l = true ->
  lex_finds b (l ++ r) = lex_finds (match rev l with [] => b | x :: _ => ends_semi x end) r.
Proof.
  revert b; induction l as [|x tl IH]; intros b H; [reflexivity|]. simpl in H. apply andb_true_iff in H as [Hx Htl].
  destruct x as [i|n]; [| discriminate]. change ((I1Plain i :: tl) ++ r) with (I1Plain i :: (tl ++ r)). cbn [lex_finds]. rewrite (IH _ Htl).
  simpl rev. destruct (rev tl) as [|y r'] eqn:E; simpl; reflexivity.
Qed.

Theorem lex_scan_misses_behind_macro_definitions pre m ms n post :
  forallb (fun x => negb (is_include1 x)) pre = true -> forallb (fun x => negb (is_include1 x)) post = true ->
  lex_finds true (pre ++ macro_items (ms ++ [m]) ++ I1Include n :: post) = false.
Proof.
  intros Hpre Hpost. rewrite app_assoc. rewrite lex_finds_app_plain.
  - unfold macro_items. rewrite rev_app_distr, map_app, rev_app_distr. simpl. exact (lex_finds_plain true post Hpost).
  - rewrite forallb_app, Hpre. simpl. unfold macro_items. rewrite forallb_forall. intros x Hx. apply in_map_iff in Hx as [y [<- _]]. reflexivity.
Qed.

(* REFUTED: "the lexical scan rejects every body that contains an include_source!" — 1, 2, 3 macro definitions in front of it *)
Definition a_macro (k : nat) : macrodef := {| m_name := k; m_nparams := 1; m_body := [] |}.
Definition behind_macros (k : nat) : list item1 := macro_items (map a_macro (seq 0 k)) ++ [I1Include 0].

Theorem lex_scan_rejects_every_nested_include_refuted :
  exists src, In (I1Include 0) src /\ lex_accepts src = true /\ full_accepts src = false /\
              (forall p q0, exists l, scan_src p q0 src = Err EIncludeInSource l).
Proof.
  exists (behind_macros 1). split; [right; left; reflexivity|]. split; [reflexivity|]. split; [reflexivity|].
  intros p q0. eexists. reflexivity.
Qed.

Example lex_scan_behind_1_2_3_macro_definitions :
  map (fun k => (lex_accepts (behind_macros k), full_accepts (behind_macros k), scan_src 7 0 (behind_macros k))) [0; 1; 2; 3] =
  [(false, false, Err EIncludeInSource (1, 7, 1)); (true, false, Err EIncludeInSource (1, 7, 2));
   (true, false, Err EIncludeInSource (1, 7, 3)); (true, false, Err EIncludeInSource (1, 7, 4))].
Proof. vm_compute. reflexivity. Qed.

(* ------------------------------------------------------------------ computed: every position of a body with every kind of item,
   included at every position of a host, under the four macros *)

Definition ex_rel (n : nat) : bare0 := BRel n [0] false.
Definition ex_lat (n : nat) : bare0 := BRel n [0] true.
Definition ex_rule : bare0 := BRule {| s_heads := [HClause 0 1]; s_body := [SClause 0 [AVar (Base 0)] []] |}.
Definition ex_fact : bare0 := BRule {| s_heads := [HClause 0 1]; s_body := [] |}.
Definition ex_macro (n : nat) : bare0 := BMacro {| m_name := n; m_nparams := 1; m_body := [SClause 0 [AVar 0] []] |}.

(* the body: relation, lattice, rule, fact, macro, macro, macro, relation *)
Definition ex_body : list (list sattr * bare1) :=
  map (fun b => ([], B1Plain b)) [ex_rel 1; ex_lat 2; ex_rule; ex_fact; ex_macro 0; ex_macro 1; ex_macro 2; ex_rel 3].
Definition insert_at {A} (q : nat) (x : A) (l : list A) : list A := firstn q l ++ x :: skipn q l.
Definition ex_host : list (list sattr * sbare) := map (fun b => ([], SBPlain b)) [ex_rel 0; ex_rule; ex_macro 5].
Definition ex_text (p q : nat) : stext :=
  {| st_attrs := []; st_sig := None;
     st_items := insert_at p ([], SBInclude (insert_at q ([], B1Include) ex_body)) ex_host |}.

Example nested_include_every_position_every_macro :
  forallb (fun p => forallb (fun q => forallb (fun k =>
    match sp_check [] (ex_text p q) k, sp_invoke [] (ex_text p q) k with
    | SReject (SBase EIncludeInSource), SDeferred => true
    | _, _ => false
    end) [KAscent; KAscentPar; KAscentRun; KAscentRunPar]) (seq 0 9)) (seq 0 4) = true.
Proof. vm_compute. reflexivity. Qed.
