(* C15 — concrete programs: non-vacuity of the theorems' hypotheses and the computed witnesses of the two panics. *)
From Coq Require Import List Bool Arith Relations.
From AV Require Import Check.CheckModel Check.CheckProofs.
Import ListNotations.

Definition rel (name : nat) (tys : list nat) := IPlain (IRel {| d_name := name; d_tys := tys; d_lat := false; d_attrs := [] |}).
Definition lat (name : nat) (tys : list nat) (attrs : list rattr) := IPlain (IRel {| d_name := name; d_tys := tys; d_lat := true; d_attrs := attrs |}).
Definition rule (heads : list (hitem ident)) (body : list (sitem ident)) := IPlain (IRule 0 {| s_heads := heads; s_body := body |}).
Definition x := Base 1. Definition y := Base 2. Definition z := Base 3.
Definition allk := [KAscent; KAscentPar; KAscentRun; KAscentRunPar].

(* relation edge(i32,i32); relation path(i32,i32); path(x,y) <-- edge(x,y); path(x,z) <-- edge(x,y), path(y,z); *)
Definition tc : program := {| p_attrs := []; p_items := [
  rel 0 [0; 0]; rel 1 [0; 0];
  rule [HClause 1 2] [SClause 0 [AVar x; AVar y] []];
  rule [HClause 1 2] [SClause 0 [AVar x; AVar y] []; SClause 1 [AVar y; AVar z] []] ] |}.

Lemma tc_accepted : map (check [] tc) allk = [Accept; Accept; Accept; Accept].
Proof. vm_compute. reflexivity. Qed.

Lemma tc_guard : panic_guard tc.
Proof.
  intros its xr H1 H2. vm_compute in H1. injection H1 as <-. vm_compute in H2. injection H2 as <-. reflexivity.
Qed.

Lemma tc_well_formed : forall k, well_formed [] tc k.
Proof. intros k; apply accept_sound_v. destruct k; vm_compute; reflexivity. Qed.

(* one program per class of violation, with the verdict the model computes *)
Definition with_rule (r : item) : program := {| p_attrs := []; p_items := [rel 0 [0; 0]; rel 1 [0; 0]; r] |}.

Definition p_undeclared := with_rule (rule [HClause 1 2] [SClause 7 [AVar x; AVar y] []]).
Definition p_arity := with_rule (rule [HClause 1 2] [SClause 0 [AVar x] []; SClause 0 [AVar x; AVar y] []]).
Definition p_neg_self := with_rule (rule [HClause 1 2] [SClause 0 [AVar x; AVar y] []; SNeg 1 2]).
Definition p_agg_via_other : program := {| p_attrs := []; p_items := [rel 0 [0; 0]; rel 1 [0; 0];
  rule [HClause 1 2] [SClause 0 [AVar x; AVar y] []; SAgg [z] [] 0 [GWild; GWild]];      (* path reads and aggregates edge *)
  rule [HClause 0 2] [SClause 1 [AVar x; AVar y] []] ] |}.                                (* edge is derived from path *)
Definition p_shadow := with_rule (rule [HClause 1 2] [SClause 0 [AVar x; AVar y] []; SCond (CLet [x])]).
Definition p_join := with_rule (rule [HClause 1 2] [SClause 0 [AVar x; AVar y] []; SClause 0 [AVar y; AVar x] []]).
Definition rec_macro := IPlain (IMacro 0 {| m_name := 0; m_nparams := 1; m_body := [SClause 0 [AVar 0; AWild] []; SCall 0 [0]] |}).
Definition p_recursive : program := {| p_attrs := []; p_items := [rel 0 [0; 0]; rel 1 [0; 0]; rec_macro;
  rule [HClause 1 2] [SCall 0 [x]; SClause 0 [AVar x; AVar y] []] ] |}.
Definition p_recursive_unused : program := {| p_attrs := []; p_items := [rel 0 [0; 0]; rel 1 [0; 0]; rec_macro;
  rule [HClause 1 2] [SClause 0 [AVar x; AVar y] []] ] |}.
Definition p_include_in_source : program := {| p_attrs := []; p_items := [rel 0 [0; 0];
  IInclude 0 [I1Plain (IRel {| d_name := 1; d_tys := [0; 0]; d_lat := false; d_attrs := [] |}); I1Include 0] ] |}.
Definition p_ds_on_lattice : program := {| p_attrs := []; p_items := [rel 0 [0; 0]; lat 1 [0; 0] [RDs]] |}.
Definition p_unknown_attr : program := {| p_attrs := [PMeasureRuleTimes; PUnknown]; p_items := [rel 0 [0; 0]] |}.
Definition p_rule_attr : program := {| p_attrs := []; p_items := [rel 0 [0; 0]; rel 1 [0; 0];
  IPlain (IRule 1 {| s_heads := [HClause 1 2]; s_body := [SClause 0 [AVar x; AVar y] []] |})] |}.
Definition p_irp : program := {| p_attrs := [PInterRuleParallelism]; p_items := [rel 0 [0; 0]] |}.
Definition p_rel_other_attr : program := {| p_attrs := []; p_items :=
  [IPlain (IRel {| d_name := 0; d_tys := [0; 0]; d_lat := false; d_attrs := [ROther] |})] |}.
(* relation r(i32); relation r(i32,i32): the last declaration of a name decides the arity *)
Definition p_redeclared : program := {| p_attrs := []; p_items := [rel 0 [0]; rel 0 [0; 0]; rel 1 [0; 0];
  rule [HClause 1 2] [SClause 0 [AVar x; AVar y] []] ] |}.

Lemma verdicts :
  check [] p_undeclared KAscent = Reject (EUndeclared 7) /\
  check [] p_arity KAscentPar = Reject (EArity 0 2 1) /\
  check [] p_neg_self KAscentRun = Reject (ENotStratified 1) /\
  check [] p_agg_via_other KAscent = Reject (ENotStratified 0) /\
  check [] p_shadow KAscentRunPar = Reject (EShadow x) /\
  check [] p_join KAscent = Accept /\
  check [] p_recursive KAscent = Reject ERecursiveMacro /\
  check [] p_recursive_unused KAscent = Accept /\
  check [] p_include_in_source KAscent = Reject EIncludeInSource /\
  invoke [] p_include_in_source KAscent = Deferred /\
  check [] p_ds_on_lattice KAscent = Reject (EDsOnLattice 1) /\
  check [] p_unknown_attr KAscent = Reject EUnknownAttr /\
  check [] p_rule_attr KAscent = Reject EUnexpectedAttr /\
  map (check [] p_irp) allk = [Reject EInterRuleSerial; Accept; Reject EInterRuleSerial; Accept] /\
  check [] p_rel_other_attr KAscent = Accept /\
  check [] p_redeclared KAscent = Accept.
Proof. vm_compute. repeat split. Qed.

Lemma p_recursive_self_referential : exists its, resolves p_recursive its /\ self_referential (macros_of its) (fun m => m = 0).
Proof.
  eexists; split; [vm_compute; reflexivity|].
  intros m ->. eexists; exists 0, [0]; split; [vm_compute; reflexivity|]. split; [reflexivity|]. split; [right; now left|].
  split; [reflexivity|]. eexists; split; [vm_compute; reflexivity | reflexivity].
Qed.

Lemma p_recursive_occurs : occurs [] p_recursive KAscent (VMacro 0 ERecursiveMacro).
Proof.
  destruct p_recursive_self_referential as [its [Hr HS]].
  assert (its = [IRel {| d_name := 0; d_tys := [0; 0]; d_lat := false; d_attrs := [] |};
                 IRel {| d_name := 1; d_tys := [0; 0]; d_lat := false; d_attrs := [] |};
                 IMacro 0 {| m_name := 0; m_nparams := 1; m_body := [SClause 0 [AVar 0; AWild] []; SCall 0 [0]] |};
                 IRule 0 {| s_heads := [HClause 1 2]; s_body := [SCall 0 [x]; SClause 0 [AVar x; AVar y] []] |}]) as ->.
  { unfold resolves in Hr. vm_compute in Hr. now injection Hr as <-. }
  eapply (self_referential_occurs [] p_recursive KAscent (fun m => m = 0) _ 0 _ 0 [x]); try eassumption; try reflexivity.
  now left.
Qed.

(* F9: res(x, x_) <-- foo(x, x, x_): a WELL-FORMED program on which the macro panics (first use of the prefix x in the
   process: IDENT_COUNTERS empty).  The repeated x is replaced by the generated identifier x_, which is the user's x_. *)
Definition x_ := Suf x 0.
Definition f9 : program := {| p_attrs := []; p_items := [rel 0 [0; 0; 0]; rel 1 [0; 0];
  rule [HClause 1 2] [SClause 0 [AVar x; AVar x; AVar x_] []] ] |}.

Lemma f9_panics : map (check [] f9) allk = [Panics; Panics; Panics; Panics].
Proof. vm_compute. reflexivity. Qed.
Lemma f9_well_formed : forall k, well_formed [] f9 k.
Proof. intros k; apply panics_only_when_checks_pass_v. destruct k; vm_compute; reflexivity. Qed.
(* once the counter of the prefix has advanced the same program is accepted *)
Lemma f9_later_accepted : check [(x, 1)] f9 KAscent = Accept.
Proof. vm_compute. reflexivity. Qed.

(* res(s) <-- agg s = sum(z) in r(x, _): the aggregated variable is not an argument of the aggregated relation.
   Before commit 9b40028 no check rejected it and code generation panicked; now it is an error of the rule stage. *)
Definition agg_unbound : program := {| p_attrs := []; p_items := [rel 0 [0; 0]; rel 1 [0];
  rule [HClause 1 1] [SAgg [y] [z] 0 [GVar x; GWild]] ] |}.
Lemma agg_unbound_rejected : map (check [] agg_unbound) allk = [Reject (EAggVar z 0); Reject (EAggVar z 0); Reject (EAggVar z 0); Reject (EAggVar z 0)].
Proof. vm_compute. reflexivity. Qed.
Lemma agg_unbound_occurs : occurs [] agg_unbound KAscent (VRule 0 2 (EAggVar z 0)).
Proof.
  simpl. eexists; eexists; eexists. split; [split; [vm_compute; reflexivity | eexists; split; [vm_compute; reflexivity | reflexivity]]|].
  split; [vm_compute; reflexivity|]. apply eb_aggvar. vm_compute. reflexivity.
Qed.

Lemma f9_refutes : exists c0 P, (forall k, well_formed c0 P k) /\ (forall k, check c0 P k = Panics).
Proof. exists [], f9. split; [exact f9_well_formed | intros k; destruct k; vm_compute; reflexivity]. Qed.

Lemma no_panic_guarded_v c0 P k : panic_guard P -> check c0 P k <> Panics.
Proof. intros G H. apply check_Panics in H. exact (no_panic_guarded c0 P k G H). Qed.

Lemma rel_attrs_passthrough_v c0 P k : check c0 (strip_other P) k = check c0 P k.
Proof. unfold check. now rewrite rel_attrs_passthrough. Qed.

Lemma reach_is_reachability rs i b : In b (reach rs (length rs) i) <-> clos_refl_trans nat (feeds rs) i b.
Proof. split; [apply reach_sound | apply reach_complete]. Qed.

Lemma tc_all : map (check [] tc) allk = [Accept; Accept; Accept; Accept] /\ panic_guard tc /\ forall k, well_formed [] tc k.
Proof. exact (conj tc_accepted (conj tc_guard tc_well_formed)). Qed.

(* ------------------------------------------------------------------ the position of an attribute (stage 0) *)

Definition b_rule : bare := BPlain (BRule {| s_heads := [HClause 1 2]; s_body := [SClause 0 [AVar x; AVar y] []] |}).
Definition b_mac : bare := BPlain (BMacro {| m_name := 0; m_nparams := 1; m_body := [SClause 0 [AVar 0; AWild] []] |}).
Definition b_inc : bare := BInclude [([], B1Plain (BRel 2 [0] false))].
Definition b_rel (n : nat) : bare := BPlain (BRel n [0; 0] false).
Definition mk_text (sig : option (list rattr)) (items : list (list rattr * bare)) : text := {| t_attrs := []; t_sig := sig; t_items := items |}.

(* attributes a in front of item b: as the FIRST item and after the declarations, without a signature, with one, with
   one that carries attributes of its own *)
Definition attr_positions (a : list rattr) (b : bare) : list text :=
  flat_map (fun sig => [mk_text sig [(a, b); ([], b_rel 0); ([], b_rel 1)]; mk_text sig [([], b_rel 0); ([], b_rel 1); (a, b)];
                        mk_text sig [([ROther], b_rel 0); (a, b); ([], b_rel 1)]])
           [None; Some []; Some [ROther]].
Definition attr_cases : list text :=
  flat_map (fun a => flat_map (attr_positions a) [b_rule; b_mac; b_inc]) [[ROther]; [RDs]; [ROther; RDs]].

Lemma attr_positions_rejected :
  map (fun T => (map (invoke_text [] T) allk, map (check_text [] T) allk)) attr_cases =
  repeat (repeat (Reject EUnexpectedAttr) 4, repeat (Reject EUnexpectedAttr) 4) 81.
Proof. vm_compute. reflexivity. Qed.

(* the controls: the same attributes on the first RELATION of a signature-less text are handed to that relation (and to no
   other), and attributes in front of the signature are the struct's *)
Definition t_first_rel_attr : text := mk_text None [([ROther; RDs], b_rel 0); ([], b_rel 1); ([], b_rule)].
Definition t_sig_attr : text := mk_text (Some [ROther; RDs]) [([], b_rel 0); ([], b_rel 1); ([], b_rule)].
Lemma attr_controls :
  map (check_text [] t_first_rel_attr) allk = [Accept; Accept; Accept; Accept] /\
  map (check_text [] t_sig_attr) allk = [Accept; Accept; Accept; Accept] /\
  map d_attrs (decls_of (match flatten 0 (p_items (parse_text t_first_rel_attr)) with OK its => its | _ => [] end)) = [[ROther; RDs]; []] /\
  map d_attrs (decls_of (match flatten 0 (p_items (parse_text t_sig_attr)) with OK its => its | _ => [] end)) = [[]; []] /\
  sig_attrs t_sig_attr = Some [ROther; RDs] /\ sig_attrs t_first_rel_attr = None.
Proof. vm_compute. repeat split. Qed.

(* ------------------------------------------------------------------ rebinding through a parenthesised pattern
   path(x, y) <-- edge(x, y), let (x) = e        [vars] = the helper that reports the variables of a pattern *)

Definition p_shadow_paren (vars : pat ident -> list ident) : program :=
  with_rule (rule [HClause 1 2] [SClause 0 [AVar x; AVar y] []; SCond (CLet (vars (PParen (PVar x))))]).
(* the same through the other binders: if let Some((x)), for ((x), _), agg (x), edge(?&(x), _), a condition attached to a clause *)
Definition p_shadow_paren_forms (vars : pat ident -> list ident) : list program :=
  map (fun its => with_rule (rule [HClause 1 2] (SClause 0 [AVar x; AVar y] [] :: its)))
    [ [SCond (CIfLet (vars (PSeq [PParen (PVar x)])))];
      [SGen (vars (PSeq [PParen (PVar x); PWild]))];
      [SAgg (vars (PParen (PVar x))) [z] 0 [GVar z; GWild]];
      [SClause 0 [APat (vars (PRef (PParen (PVar x)))); AWild] []];
      [SClause 0 [AVar z; AWild] [CLet (vars (PParen (PParen (PVar x))))]] ].

Lemma shadow_paren_bound : In x (pat_binds (PParen (PVar x))) /\ ~ In x (pat_vars false (PParen (PVar x))).
Proof. split; [now left | intros []]. Qed.

Lemma shadow_paren_verdicts :
  map (check [] (p_shadow_paren pat_binds)) allk = repeat (Reject (EShadow x)) 4 /\
  map (check [] (p_shadow_paren (pat_vars true))) allk = repeat (Reject (EShadow x)) 4 /\
  map (check [] (p_shadow_paren (pat_vars false))) allk = repeat Accept 4 /\
  map (fun P => map (check [] P) allk) (p_shadow_paren_forms pat_binds) = repeat (repeat (Reject (EShadow x)) 4) 5 /\
  map (fun P => map (check [] P) allk) (p_shadow_paren_forms (pat_vars false)) = repeat (repeat Accept 4) 5.
Proof. vm_compute. repeat split. Qed.

(* "rebinding an already bound variable is rejected" fails for the helper without the Pat::Paren arm: the program in
   which the rebinding is visible to the check is rejected, the same program seen through that helper is accepted *)
Lemma shadow_paren_refutes : exists (mk : (pat ident -> list ident) -> program) (v : ident),
  (forall k, check [] (mk pat_binds) k = Reject (EShadow v)) /\ (forall k, check [] (mk (pat_vars false)) k = Accept).
Proof. exists p_shadow_paren, x. split; intros k; destruct k; vm_compute; reflexivity. Qed.

(* a WELL-FORMED program hit by the same hole:  path(x, z) <-- edge(x, y), let (z) = e, edge(z, _)  — the helper does
   not report z, so the second clause does not JOIN on z: it binds a new z (the model's event is a first occurrence) *)
Definition p_paren_join (vars : pat ident -> list ident) : program :=
  with_rule (rule [HClause 1 2] [SClause 0 [AVar x; AVar y] []; SCond (CLet (vars (PParen (PVar z)))); SClause 0 [AVar z; AWild] []]).
Lemma paren_join_accepted : map (check [] (p_paren_join pat_binds)) allk = repeat Accept 4 /\ map (check [] (p_paren_join (pat_vars false))) allk = repeat Accept 4.
Proof. vm_compute. split; reflexivity. Qed.
