(* C07 — pass 1 (disjunction product, nested): the environments of a body are exactly the union of the
   environments of the conjunctions obtained by picking one disjunct from each disjunction. *)
From Coq Require Import List ZArith Bool Arith Ascii Lia.
From AV Require Import Engine.Core.
From AV Require Import Engine.Sem.
From AV Require Import Syntax.Surface.
From AV Require Import Syntax.Desugar.
From AV Require Import Syntax.ToCore.
From AV Require Import Syntax.SimBase.
Import ListNotations.

(* induction principle for the nested type *)
Section SitemInd.
Variable P : sitem -> Prop.
Hypothesis Hclause : forall r args cs, P (IClause r args cs).
Hypothesis Hcond : forall c, P (ICond c).
Hypothesis Hgen : forall x g xs, P (IGen x g xs).
Hypothesis Hagg : forall out a bound r args, P (IAgg out a bound r args).
Hypothesis Hneg : forall r args, P (INeg r args).
Hypothesis Hdisj : forall ds, Forall (Forall P) ds -> P (IDisj ds).
Fixpoint sitem_ind' (it : sitem) : P it :=
  match it with
  | IClause r args cs => Hclause r args cs
  | ICond c => Hcond c
  | IGen x g xs => Hgen x g xs
  | IAgg out a bound r args => Hagg out a bound r args
  | INeg r args => Hneg r args
  | IDisj ds =>
      Hdisj ds ((fix alts (l : list (list sitem)) : Forall (Forall P) l :=
                   match l with
                   | [] => Forall_nil _
                   | d :: l' => Forall_cons d ((fix conj (c : list sitem) : Forall P c :=
                                                  match c with
                                                  | [] => Forall_nil _
                                                  | it' :: c' => Forall_cons it' (sitem_ind' it') (conj c')
                                                  end) d) (alts l')
                   end) ds)
  end.
End SitemInd.

Lemma disj_item_disj : forall ds, disj_item (IDisj ds) = flat_map disj_items ds.
Proof. reflexivity. Qed.
Lemma item_ids_disj : forall ds, item_ids (IDisj ds) = flat_map items_ids ds.
Proof.
  intro ds. cbn [item_ids]. apply flat_map_ext. intro d. induction d as [|it d IH]; [reflexivity|].
  cbn [items_ids flat_map]. rewrite IH. reflexivity.
Qed.
Lemma in_disj_items_cons : forall it rest c,
  In c (disj_items (it :: rest)) <-> exists a b, In a (disj_item it) /\ In b (disj_items rest) /\ c = a ++ b.
Proof.
  intros it rest c. cbn [disj_items]. rewrite in_flat_map. split.
  - intros [a [Ha Hc]]. apply in_map_iff in Hc as [b [<- Hb]]. exists a, b. auto.
  - intros [a [b [Ha [Hb ->]]]]. exists a. split; [exact Ha|]. apply in_map. exact Hb.
Qed.

Section Sem.
Variable I : interp.
Variable db : rel -> list tuple.

Definition item_ok (it : sitem) : Prop :=
  forall e e1, In e1 (item_envs I db it e) <-> exists c, In c (disj_item it) /\ In e1 (all_envs_s I db c e).

Lemma items_ok : forall items, Forall item_ok items ->
  forall e e1, In e1 (all_envs_s I db items e) <-> exists c, In c (disj_items items) /\ In e1 (all_envs_s I db c e).
Proof.
  induction items as [|it rest IH]; intros HF e e1.
  - cbn [disj_items]. split.
    + intro H. exists []. split; [left; reflexivity | exact H].
    + intros [c [[<-|[]] H]]. exact H.
  - inversion HF as [|? ? Hit Hrest]; subst. rewrite in_all_envs_cons. split.
    + intros [e0 [H0 H1]]. apply Hit in H0 as [a [Ha H0]]. apply (IH Hrest) in H1 as [b [Hb H1]].
      exists (a ++ b). split; [apply in_disj_items_cons; exists a, b; auto|].
      apply in_all_envs_app. exists e0. split; assumption.
    + intros [c [Hc H]]. apply in_disj_items_cons in Hc as [a [b [Ha [Hb ->]]]].
      apply in_all_envs_app in H as [e0 [H0 H1]]. exists e0. split.
      * apply Hit. exists a. split; assumption.
      * apply (IH Hrest). exists b. split; assumption.
Qed.

Lemma item_ok_simple : forall it, disj_item it = [[it]] -> item_ok it.
Proof.
  intros it Hd e e1. rewrite Hd. split.
  - intro H. exists [it]. split; [left; reflexivity|]. cbn [all_envs_s]. apply in_flat_map. exists e1. split; [exact H | left; reflexivity].
  - intros [c [[<-|[]] H]]. cbn [all_envs_s] in H. apply in_flat_map in H as [e0 [H0 [<-|[]]]]. exact H0.
Qed.
Lemma item_ok_all : forall it, item_ok it.
Proof.
  apply (sitem_ind' item_ok); try (intros; apply item_ok_simple; reflexivity).
  intros ds HF e e1. rewrite item_envs_disj, disj_item_disj, in_flat_map. split.
  - intros [d [Hd H]]. rewrite Forall_forall in HF. apply (items_ok d (HF d Hd)) in H as [c [Hc H]].
    exists c. split; [apply in_flat_map; exists d; split; assumption | exact H].
  - intros [c [Hc H]]. apply in_flat_map in Hc as [d [Hd Hc]]. exists d. split; [exact Hd|].
    rewrite Forall_forall in HF. apply (items_ok d (HF d Hd)). exists c. split; assumption.
Qed.

Theorem disj_items_sem : forall items e e1,
  In e1 (all_envs_s I db items e) <-> exists c, In c (disj_items items) /\ In e1 (all_envs_s I db c e).
Proof. intros items. apply items_ok. apply Forall_forall. intros it _. apply item_ok_all. Qed.

(* rule level: a rule derives exactly what the rules of its disjunction product derive *)
Theorem rule_desugar_disj_sem : forall r f,
  In f (sderive_rule I db r) <-> exists r', In r' (rule_desugar_disj r) /\ In f (sderive_rule I db r').
Proof.
  intros r f. rewrite in_sderive. split.
  - intros [e [h [He [Hh Hf]]]]. apply disj_items_sem in He as [c [Hc He]].
    exists {| sheads := sheads r; sbody := c |}. split.
    + unfold rule_desugar_disj. apply in_map_iff. exists c. split; [reflexivity | exact Hc].
    + apply in_sderive. exists e, h. cbn [sheads sbody]. auto.
  - intros [r' [Hr' Hf]]. unfold rule_desugar_disj in Hr'. apply in_map_iff in Hr' as [c [<- Hc]].
    apply in_sderive in Hf as [e [h [He [Hh Hf]]]]. cbn [sheads sbody] in *. exists e, h. split; [|auto].
    apply disj_items_sem. exists c. split; assumption.
Qed.
End Sem.

(* the product contains no disjunction and no new identifier *)
Definition item_nd (it : sitem) : Prop := forall c, In c (disj_item it) -> Forall no_disj c /\ incl (items_ids c) (item_ids it).
Lemma items_nd : forall items, Forall item_nd items ->
  forall c, In c (disj_items items) -> Forall no_disj c /\ incl (items_ids c) (items_ids items).
Proof.
  induction items as [|it rest IH]; intros HF c Hc.
  - destruct Hc as [<-|[]]. split; [constructor | intros y []].
  - inversion HF as [|? ? Hit Hrest]; subst. apply in_disj_items_cons in Hc as [a [b [Ha [Hb ->]]]].
    destruct (Hit a Ha) as [A1 A2]. destruct (IH Hrest b Hb) as [B1 B2]. split.
    + apply Forall_app. split; assumption.
    + unfold items_ids in *. rewrite flat_map_app. cbn [flat_map]. intros y Hy. apply in_app_or in Hy as [Hy|Hy]; apply in_or_app;
        [left; apply A2; exact Hy | right; apply B2; exact Hy].
Qed.
Lemma item_nd_simple : forall it, no_disj it -> disj_item it = [[it]] -> item_nd it.
Proof.
  intros it Hn Hd c Hc. rewrite Hd in Hc. destruct Hc as [<-|[]]. split; [repeat constructor; exact Hn|].
  unfold items_ids. cbn [flat_map]. rewrite app_nil_r. apply incl_refl.
Qed.
Lemma item_nd_all : forall it, item_nd it.
Proof.
  apply (sitem_ind' item_nd); try (intros; apply item_nd_simple; [exact Logic.I | reflexivity]).
  intros ds HF c Hc. rewrite disj_item_disj in Hc. apply in_flat_map in Hc as [d [Hd Hc]].
  rewrite Forall_forall in HF. destruct (items_nd d (HF d Hd) c Hc) as [A B]. split; [exact A|].
  rewrite item_ids_disj. intros y Hy. apply in_flat_map. exists d. split; [exact Hd | apply B; exact Hy].
Qed.
Theorem disj_items_nd : forall items c, In c (disj_items items) -> Forall no_disj c /\ incl (items_ids c) (items_ids items).
Proof. intros items. apply items_nd. apply Forall_forall. intros it _. apply item_nd_all. Qed.

(* function symbols of a conjunction of the product occur in the body *)
Lemma item_fsyms_disj : forall ds, item_fsyms (IDisj ds) = flat_map items_fsyms ds.
Proof.
  intro ds. cbn [item_fsyms]. apply flat_map_ext. intro d. induction d as [|it d IH]; [reflexivity|].
  unfold items_fsyms in *. cbn [flat_map]. rewrite IH. reflexivity.
Qed.
Definition item_fs (it : sitem) : Prop := forall c, In c (disj_item it) -> incl (items_fsyms c) (item_fsyms it).
Lemma items_fs : forall items, Forall item_fs items -> forall c, In c (disj_items items) -> incl (items_fsyms c) (items_fsyms items).
Proof.
  induction items as [|it rest IH]; intros HF c Hc.
  - destruct Hc as [<-|[]]. intros y [].
  - inversion HF as [|? ? Hit Hrest]; subst. apply in_disj_items_cons in Hc as [a [b [Ha [Hb ->]]]].
    unfold items_fsyms in *. rewrite flat_map_app. cbn [flat_map]. intros y Hy. apply in_app_or in Hy as [Hy|Hy]; apply in_or_app;
      [left; apply (Hit a Ha); exact Hy | right; apply (IH Hrest b Hb); exact Hy].
Qed.
Lemma item_fs_simple : forall it, disj_item it = [[it]] -> item_fs it.
Proof. intros it Hd c Hc. rewrite Hd in Hc. destruct Hc as [<-|[]]. unfold items_fsyms. cbn [flat_map]. rewrite app_nil_r. apply incl_refl. Qed.
Lemma item_fs_all : forall it, item_fs it.
Proof.
  apply (sitem_ind' item_fs); try (intros; apply item_fs_simple; reflexivity).
  intros ds HF c Hc. rewrite disj_item_disj in Hc. apply in_flat_map in Hc as [d [Hd Hc]].
  rewrite Forall_forall in HF. rewrite item_fsyms_disj. intros y Hy. apply in_flat_map. exists d. split; [exact Hd|].
  exact (items_fs d (HF d Hd) c Hc y Hy).
Qed.
Theorem disj_items_fsyms : forall items c, In c (disj_items items) -> incl (items_fsyms c) (items_fsyms items).
Proof. intros items. apply items_fs. apply Forall_forall. intros it _. apply item_fs_all. Qed.
