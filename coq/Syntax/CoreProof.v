(* C07 — the translation of desugared surface rules to the core language of Engine/Core.v (ToCore.core_of_rule)
   is defined on the desugared fragment and preserves the derived facts: identifiers are numbered by first
   occurrence, string environments and positional environments are related on the identifiers of the rule,
   temporaries introduced for `if v.eq(&(f(xs)))` live above all identifiers. *)
From Coq Require Import List ZArith Bool Arith Ascii Lia.
From AV Require Import Engine.Core.
From AV Require Import Engine.Sem.
From AV Require Import Engine.EnvLemmas.
From AV Require Import Engine.NaiveLemmas.
From AV Require Import Syntax.Surface.
From AV Require Import Syntax.Desugar.
From AV Require Import Syntax.ToCore.
From AV Require Import Syntax.SimBase.
Import ListNotations.
Open Scope Z_scope.

(* ---------- numbering of identifiers ---------- *)
Definition rho_of (names : list ident) (x : ident) : nat := index_of x names.

Lemma index_of_lt : forall x l, In x l -> (index_of x l < length l)%nat.
Proof.
  intros x. induction l as [|a l IH]; intro H; [destruct H|]. cbn [index_of length].
  destruct (ieqb x a) eqn:E; [lia|]. destruct H as [H|H]; [subst; rewrite ieqb_refl in E; discriminate|].
  specialize (IH H). lia.
Qed.
Lemma index_of_inj : forall l x y, In x l -> index_of x l = index_of y l -> x = y.
Proof.
  induction l as [|a l IH]; intros x y Hx H; [destruct Hx|]. cbn [index_of] in H.
  destruct (ieqb x a) eqn:Ex, (ieqb y a) eqn:Ey; try discriminate.
  - apply ieqb_eq in Ex. apply ieqb_eq in Ey. congruence.
  - destruct Hx as [Hx|Hx]; [subst; rewrite ieqb_refl in Ex; discriminate|].
    apply IH; [exact Hx | congruence].
Qed.

(* item-wise version of ToCore.rule_eq_fsyms *)
Definition item_eq_fsyms (it : sitem) : list nat :=
  match it with IClause _ _ cs => flat_map cond_fsyms cs | ICond c => cond_fsyms c | _ => [] end.

Section Sim.
Variable I : interp.
Variable db : rel -> list tuple.
Variable names : list ident.
Variable fs : list nat.
Hypothesis Hpint : forall a b, pint I eq_pred_sym [a; b] = Z.eqb a b.
Hypothesis Hbint : forall f vs, In f fs -> bint I f vs = Some (fint I f vs).

Notation rho := (rho_of names).
Notation N := (length names).

Definition R (es : senv) (ep : env) : Prop := forall s, In s names -> es s = lookup ep (rho s).

Lemma rho_lt : forall s, In s names -> (rho s < N)%nat.
Proof. intros s H. apply index_of_lt. exact H. Qed.
Lemma rho_inj : forall x y, In x names -> rho x = rho y -> x = y.
Proof. intros x y H E. exact (index_of_inj names x y H E). Qed.

Lemma R_empty : R sempty [].
Proof. intros s _. rewrite lookup_nil. reflexivity. Qed.
Lemma R_bind : forall es ep x v, In x names -> R es ep -> R (sbind x v es) (bind (rho x) v ep).
Proof.
  intros es ep x v Hx HR s Hs. unfold sbind. destruct (ieqb s x) eqn:E.
  - apply ieqb_eq in E. subst. rewrite lookup_bind_eq. reflexivity.
  - rewrite lookup_bind_neq; [apply HR; exact Hs|]. intro Heq. apply ieqb_neq in E. apply E. symmetry.
    apply rho_inj; assumption.
Qed.
Lemma R_bind_tmp : forall es ep n v, (N <= n)%nat -> R es ep -> R es (bind n v ep).
Proof.
  intros es ep n v Hn HR s Hs. rewrite lookup_bind_neq; [apply HR; exact Hs|]. pose proof (rho_lt s Hs). lia.
Qed.

(* ---------- variables, terms, heads ---------- *)
Lemma R_eval_vars : forall es ep xs, R es ep -> incl xs names -> seval_vars es xs = eval_vars ep (map rho xs).
Proof.
  intros es ep. induction xs as [|x xs IH]; intros HR Hi; [reflexivity|]. cbn [seval_vars eval_vars map].
  rewrite (HR x (Hi x (or_introl eq_refl))). rewrite IH; [reflexivity | exact HR|].
  intros y Hy. apply Hi. right. exact Hy.
Qed.
Lemma R_eval_term : forall es ep t, R es ep -> incl (expr_vars t) names ->
  seval_term I es t = eval_term I ep (c_term rho t).
Proof.
  intros es ep [x|c|f xs] HR Hi; cbn [seval_term eval_term c_term expr_vars] in *.
  - apply HR. apply Hi. left. reflexivity.
  - reflexivity.
  - rewrite (R_eval_vars es ep xs HR Hi). reflexivity.
Qed.
Lemma R_eval_terms : forall es ep ts, R es ep -> incl (flat_map expr_vars ts) names ->
  seval_terms I es ts = eval_terms I ep (map (c_term rho) ts).
Proof.
  intros es ep. induction ts as [|t ts IH]; intros HR Hi; [reflexivity|]. cbn [seval_terms eval_terms map].
  cbn [flat_map] in Hi.
  rewrite (R_eval_term es ep t HR) by (intros y Hy; apply Hi; apply in_or_app; left; exact Hy).
  rewrite IH; [reflexivity | exact HR|]. intros y Hy. apply Hi. apply in_or_app. right. exact Hy.
Qed.
Lemma R_eval_head : forall es ep h, R es ep -> incl (flat_map expr_vars (snd h)) names ->
  seval_head I es h = eval_head I ep (fst h, map (c_term rho) (snd h)).
Proof.
  intros es ep h HR Hi. unfold seval_head, eval_head. cbn [fst snd]. rewrite (R_eval_terms es ep (snd h) HR Hi). reflexivity.
Qed.

(* ---------- conditions ---------- *)
Lemma sat_conds_app : forall l1 l2 e,
  sat_conds I e (l1 ++ l2) = match sat_conds I e l1 with Some e1 => sat_conds I e1 l2 | None => None end.
Proof.
  induction l1 as [|c l1 IH]; intros l2 e; [reflexivity|]. cbn [app sat_conds].
  destruct (sat_cond I e c) as [e'|]; [apply IH | reflexivity].
Qed.
Lemma c_cond_mono : forall n c l n1, c_cond rho n c = Some (l, n1) -> (n <= n1)%nat.
Proof.
  intros n c l n1 H. destruct c as [p xs|x f xs|[q|x f] v|v [y|k|f xs]]; cbn [c_cond] in H; inversion H; lia.
Qed.
Lemma c_conds_mono : forall cs n l n1, c_conds rho n cs = Some (l, n1) -> (n <= n1)%nat.
Proof.
  induction cs as [|c cs IH]; intros n l n1 H; cbn [c_conds] in H; [inversion H; lia|].
  destruct (c_cond rho n c) as [[l0 n0]|] eqn:Ec; [|discriminate].
  destruct (c_conds rho n0 cs) as [[l' n2]|] eqn:Ecs; [|discriminate]. inversion H; subst.
  apply c_cond_mono in Ec. apply IH in Ecs. lia.
Qed.

Lemma R_sat_cond : forall n c l n1 es ep, R es ep -> (N <= n)%nat -> incl (cond_ids c) names ->
  incl (cond_fsyms c) fs -> c_cond rho n c = Some (l, n1) ->
  orel R (ssat_cond I es c) (sat_conds I ep l).
Proof.
  intros n c l n1 es ep HR Hn Hi Hf Hc.
  destruct c as [p xs|x f xs|[q|x f] v|v [y|k|f xs]]; cbn [c_cond] in Hc; inversion Hc; subst; clear Hc;
    cbn [cond_ids pat_ids expr_vars] in Hi; cbn [ssat_cond sat_conds sat_cond].
  - rewrite (R_eval_vars es ep xs HR Hi). destruct (eval_vars ep (map rho xs)) as [vs|]; [|exact Logic.I].
    destruct (pint I p vs); cbn; [exact HR | exact Logic.I].
  - rewrite (R_eval_vars es ep xs HR) by (intros y Hy; apply Hi; right; exact Hy).
    destruct (eval_vars ep (map rho xs)) as [vs|]; [|exact Logic.I].
    destruct (bint I f vs); cbn; [|exact Logic.I]. apply R_bind; [apply Hi; left; reflexivity | exact HR].
  - rewrite (HR v) by (apply Hi; left; reflexivity). cbn [eval_vars pat_match].
    destruct (lookup ep (rho v)) as [w|]; [|exact Logic.I].
    destruct (pint I q [w]); cbn; [exact HR | exact Logic.I].
  - rewrite (HR v) by (apply Hi; left; reflexivity). cbn [eval_vars pat_match].
    destruct (lookup ep (rho v)) as [w|]; [|exact Logic.I].
    destruct (bint I f [w]); cbn; [|exact Logic.I]. apply R_bind; [apply Hi; right; left; reflexivity | exact HR].
  - rewrite (HR v) by (apply Hi; left; reflexivity). cbn [seval_term eval_vars].
    rewrite (HR y) by (apply Hi; right; left; reflexivity).
    destruct (lookup ep (rho v)) as [a|]; [|exact Logic.I].
    destruct (lookup ep (rho y)) as [b|]; [|exact Logic.I].
    rewrite Hpint. destruct (Z.eqb a b); cbn; [exact HR | exact Logic.I].
  - cbn [seval_term]. rewrite (R_eval_vars es ep xs HR) by (intros y Hy; apply Hi; right; exact Hy).
    destruct (eval_vars ep (map rho xs)) as [vs|]; cbn [option_map].
    2:{ destruct (es v); exact Logic.I. }
    rewrite (Hbint f vs) by (apply Hf; cbn [cond_fsyms]; left; reflexivity).
    assert (Hv : In v names) by (apply Hi; left; reflexivity).
    cbn [eval_vars]. rewrite lookup_bind_neq by (pose proof (rho_lt v Hv); lia). rewrite lookup_bind_eq.
    rewrite (HR v Hv). destruct (lookup ep (rho v)) as [a|]; [|exact Logic.I].
    rewrite Hpint. destruct (Z.eqb a (fint I f vs)); cbn; [|exact Logic.I].
    apply R_bind_tmp; assumption.
Qed.

Lemma R_sat_conds : forall cs n l n1 es ep, R es ep -> (N <= n)%nat -> incl (flat_map cond_ids cs) names ->
  incl (flat_map cond_fsyms cs) fs -> c_conds rho n cs = Some (l, n1) ->
  orel R (ssat_conds I es cs) (sat_conds I ep l).
Proof.
  induction cs as [|c cs IH]; intros n l n1 es ep HR Hn Hi Hf Hc; cbn [c_conds] in Hc.
  - inversion Hc; subst. cbn. exact HR.
  - destruct (c_cond rho n c) as [[l0 n0]|] eqn:Ec; [|discriminate].
    destruct (c_conds rho n0 cs) as [[l' n2]|] eqn:Ecs; [|discriminate]. inversion Hc; subst; clear Hc.
    cbn [flat_map] in Hi, Hf. rewrite sat_conds_app. cbn [ssat_conds].
    pose proof (R_sat_cond n c l0 n0 es ep HR Hn (fun y Hy => Hi y (in_or_app _ _ _ (or_introl Hy)))
                  (fun y Hy => Hf y (in_or_app _ _ _ (or_introl Hy))) Ec) as H1.
    destruct (ssat_cond I es c) as [es1|], (sat_conds I ep l0) as [ep1|]; cbn in H1; try contradiction; [|exact Logic.I].
    apply (IH n0 l' n1 es1 ep1 H1); [apply c_cond_mono in Ec; lia | | | exact Ecs].
    + intros y Hy. apply Hi. apply in_or_app. right. exact Hy.
    + intros y Hy. apply Hf. apply in_or_app. right. exact Hy.
Qed.

(* ---------- clause arguments ---------- *)
Lemma R_match_args : forall args a tup es ep, R es ep -> incl (flat_map arg_ids args) names ->
  c_args rho args = Some a -> orel R (smatch_args I es args tup) (match_args I ep a tup).
Proof.
  induction args as [|a0 args IH]; intros a tup es ep HR Hi Hc; cbn [c_args] in Hc.
  - inversion Hc; subst. destruct tup; cbn; [exact HR | exact Logic.I].
  - destruct a0 as [t| |p]; try discriminate. destruct (c_args rho args) as [l|] eqn:Ea; [|discriminate].
    inversion Hc; subst; clear Hc. cbn [flat_map arg_ids] in Hi.
    assert (Hr : incl (flat_map arg_ids args) names) by (intros y Hy; apply Hi; apply in_or_app; right; exact Hy).
    assert (Ht : incl (expr_vars t) names) by (intros y Hy; apply Hi; apply in_or_app; left; exact Hy).
    destruct tup as [|v tup]; [destruct t; cbn; exact Logic.I|].
    destruct t as [x|c|f xs]; cbn [smatch_args match_args c_term].
    + assert (Hx : In x names) by (apply Ht; left; reflexivity).
      rewrite (HR x Hx). destruct (lookup ep (rho x)) as [w|].
      * destruct (Z.eqb w v); [apply IH; auto | exact Logic.I].
      * apply IH; [apply R_bind; assumption | exact Hr | reflexivity].
    + cbn [seval_term eval_term]. destruct (Z.eqb c v); [apply IH; auto | exact Logic.I].
    + rewrite (R_eval_term es ep (SFun f xs) HR Ht). cbn [c_term].
      destruct (eval_term I ep (TFun f (map rho xs))) as [w|]; [|exact Logic.I].
      destruct (Z.eqb w v); [apply IH; auto | exact Logic.I].
Qed.

(* ---------- aggregates ---------- *)
Lemma R_agg_match : forall args tup es ep, R es ep -> incl (flat_map aarg_ids args) names ->
  sagg_match I es args tup = agg_match I ep (map (c_aarg rho) args) tup.
Proof.
  induction args as [|a args IH]; intros tup es ep HR Hi; destruct tup as [|v tup]; cbn [sagg_match agg_match map]; try reflexivity.
  cbn [flat_map] in Hi.
  assert (Hr : incl (flat_map aarg_ids args) names) by (intros y Hy; apply Hi; apply in_or_app; right; exact Hy).
  destruct a as [|x|t]; cbn [c_aarg]; try (apply IH; assumption).
  rewrite (R_eval_term es ep t HR) by (intros y Hy; apply Hi; apply in_or_app; left; exact Hy).
  destruct (eval_term I ep (c_term rho t)); [|reflexivity]. rewrite (IH tup es ep HR Hr). reflexivity.
Qed.
Lemma R_agg_col : forall x args tup, In x names -> incl (flat_map aarg_ids args) names ->
  sagg_col x args tup = agg_col (rho x) (map (c_aarg rho) args) tup.
Proof.
  intros x. induction args as [|a args IH]; intros tup Hx Hi; [destruct tup; reflexivity|].
  cbn [flat_map] in Hi.
  assert (Hr : incl (flat_map aarg_ids args) names) by (intros y Hy; apply Hi; apply in_or_app; right; exact Hy).
  destruct tup as [|v tup]; [destruct a; reflexivity|].
  destruct a as [|y|t]; cbn [sagg_col agg_col map c_aarg]; try (apply IH; assumption).
  assert (Hy : In y names) by (apply Hi; apply in_or_app; left; left; reflexivity).
  destruct (ieqb x y) eqn:E.
  - apply ieqb_eq in E. subst. rewrite Nat.eqb_refl. reflexivity.
  - destruct (Nat.eqb (rho x) (rho y)) eqn:E2; [|apply IH; assumption].
    apply Nat.eqb_eq in E2. apply rho_inj in E2; [|exact Hx]. apply ieqb_neq in E. contradiction.
Qed.
Lemma R_agg_input : forall bnd args tup, incl bnd names -> incl (flat_map aarg_ids args) names ->
  sagg_input bnd args tup = agg_input (map rho bnd) (map (c_aarg rho) args) tup.
Proof.
  intros bnd args tup Hb Hi. unfold sagg_input, agg_input. induction bnd as [|x bnd IH]; [reflexivity|].
  cbn [map filter_map]. rewrite (R_agg_col x args tup (Hb x (or_introl eq_refl)) Hi).
  rewrite IH; [reflexivity|]. intros y Hy. apply Hb. right. exact Hy.
Qed.

(* ---------- items ---------- *)
Lemma all_envs_conds : forall l rest e,
  all_envs I db (map BCond l ++ rest) e = match sat_conds I e l with Some e' => all_envs I db rest e' | None => [] end.
Proof.
  induction l as [|c l IH]; intros rest e; [reflexivity|]. cbn [map app all_envs sat_conds].
  destruct (sat_cond I e c) as [e'|]; [apply IH | reflexivity].
Qed.

Lemma c_item_mono : forall n it l n1, c_item rho n it = Some (l, n1) -> (n <= n1)%nat.
Proof.
  intros n it l n1 H. destruct it as [r args cs|c|x g xs|out a bnd r args|r args|ds]; cbn [c_item] in H; try discriminate.
  - destruct (c_args rho args) as [ca|]; [|discriminate]. destruct (c_conds rho n cs) as [[l0 n0]|] eqn:E; [|discriminate].
    inversion H; subst. exact (c_conds_mono _ _ _ _ E).
  - destruct (c_cond rho n c) as [[l0 n0]|] eqn:E; [|discriminate]. inversion H; subst. exact (c_cond_mono _ _ _ _ E).
  - inversion H; lia.
  - inversion H; lia.
Qed.

Lemma sim_item : forall it n l0 n0 rest es ep, R es ep -> (N <= n)%nat -> incl (item_ids it) names ->
  incl (item_eq_fsyms it) fs -> c_item rho n it = Some (l0, n0) ->
  (forall es0, In es0 (item_envs I db it es) ->
     exists ep0, R es0 ep0 /\ forall ep1, In ep1 (all_envs I db rest ep0) -> In ep1 (all_envs I db (l0 ++ rest) ep))
  /\ (forall ep1, In ep1 (all_envs I db (l0 ++ rest) ep) ->
     exists es0 ep0, In es0 (item_envs I db it es) /\ R es0 ep0 /\ In ep1 (all_envs I db rest ep0)).
Proof.
  intros it n l0 n0 rest es ep HR Hn Hi Hf Hc.
  destruct it as [r args cs|c|x g xs|out a bnd r args|r args|ds]; cbn [c_item] in Hc; try discriminate;
    cbn [item_ids item_eq_fsyms] in Hi, Hf.
  - (* clause *)
    destruct (c_args rho args) as [ca|] eqn:Ea; [|discriminate].
    destruct (c_conds rho n cs) as [[l n1]|] eqn:Ecs; [|discriminate]. inversion Hc; subst; clear Hc.
    cbn [app all_envs].
    assert (Hia : incl (flat_map arg_ids args) names) by (intros y Hy; apply Hi; apply in_or_app; left; exact Hy).
    assert (Hic : incl (flat_map cond_ids cs) names) by (intros y Hy; apply Hi; apply in_or_app; right; exact Hy).
    split.
    + intros es0 Hin. apply in_clause_envs in Hin as [tup [Htup Hce]]. unfold clause_env in Hce.
      pose proof (R_match_args args ca tup es ep HR Hia Ea) as H1.
      destruct (smatch_args I es args tup) as [es1|] eqn:Es1; [|discriminate].
      destruct (match_args I ep ca tup) as [ep1|] eqn:Ep1; cbn in H1; [|contradiction].
      pose proof (R_sat_conds cs n l n0 es1 ep1 H1 Hn Hic Hf Ecs) as H2. rewrite Hce in H2.
      destruct (sat_conds I ep1 l) as [ep2|] eqn:Ep2; cbn in H2; [|contradiction].
      exists ep2. split; [exact H2|]. intros ep3 H3. apply in_flat_map. exists tup. split; [exact Htup|].
      rewrite Ep1, Ep2. exact H3.
    + intros ep3 H3. apply in_flat_map in H3 as [tup [Htup H3]].
      pose proof (R_match_args args ca tup es ep HR Hia Ea) as H1.
      destruct (match_args I ep ca tup) as [ep1|] eqn:Ep1; [|destruct H3].
      destruct (smatch_args I es args tup) as [es1|] eqn:Es1; cbn in H1; [|contradiction].
      pose proof (R_sat_conds cs n l n0 es1 ep1 H1 Hn Hic Hf Ecs) as H2.
      destruct (sat_conds I ep1 l) as [ep2|] eqn:Ep2; [|destruct H3].
      destruct (ssat_conds I es1 cs) as [es2|] eqn:Es2; cbn in H2; [|contradiction].
      exists es2, ep2. split; [|split; assumption]. apply in_clause_envs. exists tup. split; [exact Htup|].
      unfold clause_env. rewrite Es1. exact Es2.
  - (* condition *)
    destruct (c_cond rho n c) as [[l n1]|] eqn:Ec; [|discriminate]. inversion Hc; subst; clear Hc.
    pose proof (R_sat_cond n c l n0 es ep HR Hn Hi Hf Ec) as H1. rewrite all_envs_conds. cbn [item_envs].
    destruct (ssat_cond I es c) as [es1|], (sat_conds I ep l) as [ep1|]; cbn in H1; try contradiction.
    + split.
      * intros es0 [<-|[]]. exists ep1. split; [exact H1 | auto].
      * intros ep2 H2. exists es1, ep1. split; [left; reflexivity | split; assumption].
    + split; [intros es0 [] | intros ep2 []].
  - (* generator *)
    inversion Hc; subst; clear Hc. cbn [app all_envs item_envs].
    assert (Hx : In x names) by (apply Hi; left; reflexivity).
    rewrite <- (R_eval_vars es ep xs HR) by (intros y Hy; apply Hi; right; exact Hy).
    destruct (seval_vars es xs) as [vs|]; [|split; [intros es0 [] | intros ep2 []]].
    split.
    + intros es0 Hin. apply in_map_iff in Hin as [v [<- Hv]]. exists (bind (rho x) v ep).
      split; [apply R_bind; assumption|]. intros ep1 H1. apply in_flat_map. exists v. split; assumption.
    + intros ep1 H1. apply in_flat_map in H1 as [v [Hv H1]]. exists (sbind x v es), (bind (rho x) v ep).
      split; [apply (in_map (fun v => sbind x v es)); exact Hv|]. split; [apply R_bind; assumption | exact H1].
  - (* aggregate *)
    inversion Hc; subst; clear Hc. cbn [app all_envs item_envs].
    assert (Hib : incl bnd names) by (intros y Hy; apply Hi; apply in_or_app; right; apply in_or_app; left; exact Hy).
    assert (Hia : incl (flat_map aarg_ids args) names)
      by (intros y Hy; apply Hi; apply in_or_app; right; apply in_or_app; right; exact Hy).
    rewrite (filter_ext_in' _ (agg_match I ep (map (c_aarg rho) args)) (sagg_match I es args))
      by (intro tup; symmetry; apply R_agg_match; assumption).
    rewrite (map_ext (agg_input (map rho bnd) (map (c_aarg rho) args)) (sagg_input bnd args))
      by (intro tup; symmetry; apply R_agg_input; assumption).
    assert (Hout : forall v, R (sbind_out out v es) (bind_out (option_map rho out) v ep)).
    { intro v. destruct out as [x|]; cbn [sbind_out bind_out option_map]; [|exact HR].
      apply R_bind; [apply Hi; apply in_or_app; left; left; reflexivity | exact HR]. }
    split.
    + intros es0 Hin. apply in_map_iff in Hin as [v [<- Hv]]. exists (bind_out (option_map rho out) v ep).
      split; [apply Hout|]. intros ep1 H1. apply in_flat_map. exists v. split; assumption.
    + intros ep1 H1. apply in_flat_map in H1 as [v [Hv H1]].
      exists (sbind_out out v es), (bind_out (option_map rho out) v ep).
      split; [apply (in_map (fun v => sbind_out out v es)); exact Hv|]. split; [apply Hout | exact H1].
Qed.

Lemma sim_items : forall items n l es ep, R es ep -> (N <= n)%nat -> incl (items_ids items) names ->
  incl (flat_map item_eq_fsyms items) fs -> c_items rho n items = Some l ->
  (forall es1, In es1 (all_envs_s I db items es) -> exists ep1, In ep1 (all_envs I db l ep) /\ R es1 ep1)
  /\ (forall ep1, In ep1 (all_envs I db l ep) -> exists es1, In es1 (all_envs_s I db items es) /\ R es1 ep1).
Proof.
  induction items as [|it items IH]; intros n l es ep HR Hn Hi Hf Hc; cbn [c_items] in Hc.
  - inversion Hc; subst. cbn [all_envs_s all_envs]. split.
    + intros es1 [<-|[]]. exists ep. split; [left; reflexivity | exact HR].
    + intros ep1 [<-|[]]. exists es. split; [left; reflexivity | exact HR].
  - destruct (c_item rho n it) as [[l0 n0]|] eqn:Eit; [|discriminate].
    destruct (c_items rho n0 items) as [l'|] eqn:Eits; [|discriminate]. inversion Hc; subst; clear Hc.
    unfold items_ids in Hi. cbn [flat_map] in Hi, Hf.
    assert (Hi1 : incl (item_ids it) names) by (intros y Hy; apply Hi; apply in_or_app; left; exact Hy).
    assert (Hi2 : incl (items_ids items) names) by (intros y Hy; apply Hi; apply in_or_app; right; exact Hy).
    assert (Hf1 : incl (item_eq_fsyms it) fs) by (intros y Hy; apply Hf; apply in_or_app; left; exact Hy).
    assert (Hf2 : incl (flat_map item_eq_fsyms items) fs) by (intros y Hy; apply Hf; apply in_or_app; right; exact Hy).
    assert (Hn0 : (N <= n0)%nat) by (apply c_item_mono in Eit; lia).
    destruct (sim_item it n l0 n0 l' es ep HR Hn Hi1 Hf1 Eit) as [S1 S2]. split.
    + intros es1 H1. apply in_all_envs_cons in H1 as [es0 [H0 H1]].
      destruct (S1 es0 H0) as [ep0 [HR0 K]].
      destruct (IH n0 l' es0 ep0 HR0 Hn0 Hi2 Hf2 Eits) as [F _]. destruct (F es1 H1) as [ep1 [Hep1 HR1]].
      exists ep1. split; [apply K; exact Hep1 | exact HR1].
    + intros ep1 H1. destruct (S2 ep1 H1) as [es0 [ep0 [H0 [HR0 H2]]]].
      destruct (IH n0 l' es0 ep0 HR0 Hn0 Hi2 Hf2 Eits) as [_ B]. destruct (B ep1 H2) as [es1 [Hes1 HR1]].
      exists es1. split; [|exact HR1]. apply in_all_envs_cons. exists es0. split; assumption.
Qed.

(* ---------- totality on the fragment ---------- *)
Lemma c_cond_some : forall n c, cond_ok c -> exists l n1, c_cond rho n c = Some (l, n1).
Proof.
  intros n c H. destruct c as [p xs|x f xs|[q|x f] v|v [y|k|f xs]]; cbn [c_cond cond_ok] in *;
    try (eexists; eexists; reflexivity). destruct H.
Qed.
Lemma c_conds_some : forall cs, Forall cond_ok cs -> forall n, exists l n1, c_conds rho n cs = Some (l, n1).
Proof.
  induction cs as [|c cs IH]; intros H n; cbn [c_conds]; [eexists; eexists; reflexivity|].
  inversion H as [|c' cs' Hc Hcs]; subst. destruct (c_cond_some n c Hc) as [l [n1 E]]. rewrite E.
  destruct (IH Hcs n1) as [l' [n2 E']]. rewrite E'. eexists; eexists; reflexivity.
Qed.
Lemma c_args_some : forall args, Forall is_AT args -> exists a, c_args rho args = Some a.
Proof.
  induction args as [|a args IH]; intro H; cbn [c_args]; [eexists; reflexivity|].
  inversion H as [|a' args' Ha Has]; subst. destruct a as [t| |p]; cbn [is_AT] in Ha; try destruct Ha.
  destruct (IH Has) as [l E]. rewrite E. eexists; reflexivity.
Qed.
Lemma c_item_some : forall it, core_frag_item it -> forall n, exists l n1, c_item rho n it = Some (l, n1).
Proof.
  intros it H n. destruct it as [r args cs|c|x g xs|out a bnd r args|r args|ds]; cbn [c_item core_frag_item] in *;
    [ | | eexists; eexists; reflexivity | eexists; eexists; reflexivity | destruct H | destruct H].
  - destruct H as [Ha Hc]. destruct (c_args_some args Ha) as [ca E]. rewrite E.
    destruct (c_conds_some cs Hc n) as [l [n1 E']]. rewrite E'. eexists; eexists; reflexivity.
  - destruct (c_cond_some n c H) as [l [n1 E]]. rewrite E. eexists; eexists; reflexivity.
Qed.
Lemma c_items_some : forall items, Forall core_frag_item items -> forall n, exists l, c_items rho n items = Some l.
Proof.
  induction items as [|it items IH]; intros H n; cbn [c_items]; [eexists; reflexivity|].
  inversion H as [|it' items' Hit Hits]; subst. destruct (c_item_some it Hit n) as [l [n1 E]]. rewrite E.
  destruct (IH Hits n1) as [l' E']. rewrite E'. eexists; reflexivity.
Qed.
End Sim.

(* ---------- the rule ---------- *)
Lemma core_of_rule_unfold : forall r,
  core_of_rule r =
  match c_items (rho_of (rule_ids r)) (length (rule_ids r)) (sbody r) with
  | Some b => Some {| heads := map (fun h => (fst h, map (c_term (rho_of (rule_ids r))) (snd h))) (sheads r); body := b |}
  | None => None
  end.
Proof. reflexivity. Qed.

Theorem core_of_rule_some : forall r, Forall core_frag_item (sbody r) -> exists c, core_of_rule r = Some c.
Proof.
  intros r H. rewrite core_of_rule_unfold.
  destruct (c_items_some (rule_ids r) (sbody r) H (length (rule_ids r))) as [l E]. rewrite E. eexists; reflexivity.
Qed.
Print Assumptions core_of_rule_some.

Theorem core_of_rule_sem : forall (I : interp) (db : rel -> list tuple) r c,
  (forall a b, pint I eq_pred_sym [a; b] = Z.eqb a b) ->
  (forall f vs, In f (rule_eq_fsyms r) -> bint I f vs = Some (fint I f vs)) ->
  core_of_rule r = Some c ->
  forall f, In f (sderive_rule I db r) <-> In f (derive_rule I db c).
Proof.
  intros I db r c Hp Hb Hc f. rewrite core_of_rule_unfold in Hc.
  destruct (c_items (rho_of (rule_ids r)) (length (rule_ids r)) (sbody r)) as [b|] eqn:Eb; [|discriminate].
  inversion Hc; subst; clear Hc. rewrite in_sderive. unfold derive_rule. rewrite in_heads_of_envs. cbn [heads body].
  assert (Hi : incl (items_ids (sbody r)) (rule_ids r)) by (intros y Hy; unfold rule_ids; apply in_or_app; left; exact Hy).
  assert (Hh : forall h, In h (sheads r) -> incl (flat_map expr_vars (snd h)) (rule_ids r)).
  { intros h Hin y Hy. unfold rule_ids. apply in_or_app. right. unfold heads_ids. apply in_flat_map. exists h. split; assumption. }
  destruct (sim_items I db (rule_ids r) (rule_eq_fsyms r) Hp Hb (sbody r) (length (rule_ids r)) b sempty []
              (R_empty (rule_ids r)) (le_n _) Hi (fun y Hy => Hy) Eb) as [F B].
  split.
  - intros [es [h [He [Hin Hf]]]]. destruct (F es He) as [ep [Hep HR]].
    exists ep, (fst h, map (c_term (rho_of (rule_ids r))) (snd h)). split; [exact Hep|]. split.
    + apply (in_map (fun h => (fst h, map (c_term (rho_of (rule_ids r))) (snd h)))). exact Hin.
    + rewrite <- (R_eval_head I (rule_ids r) es ep h HR (Hh h Hin)). exact Hf.
  - intros [ep [h' [He [Hin Hf]]]]. apply in_map_iff in Hin as [h [<- Hin]]. destruct (B ep He) as [es [Hes HR]].
    exists es, h. split; [exact Hes|]. split; [exact Hin|].
    rewrite (R_eval_head I (rule_ids r) es ep h HR (Hh h Hin)). exact Hf.
Qed.
Print Assumptions core_of_rule_sem.
