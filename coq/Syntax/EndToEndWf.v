(* END-TO-END (B10) — THE MISSING LEMMA: the desugarer's output is a well-formed core program.

     desugar_output_wf_core :
       forallb names_ok P = true -> wf_binding arities P = true ->
       core_of_prog (desugar_prog cs P) = Some Pc -> PlanWf.wf_core arities Pc = true

   for EVERY state cs of the process-wide name counters.  Surface well-formedness needed, both boolean:
     - ToCore.names_ok (part of ToCore.wf_surface): the identifiers of a rule lie outside its generated name space
       (otherwise a generated name can collide with a bound variable and the `new variable occurs once` / `binder is
       new` parts of wf_core fail: C07's refuted captures);
     - EndToEndDefs.wf_binding arities: declared arities, variables bound before use, binders new (no shadowing `let`),
       checked on every conjunction of the disjunction product.  It subsumes ToCore.scoped / pats_ok for this purpose.
   ToCore.wf_surface is NOT enough by itself: it says nothing about arities, about variables of conditions / heads /
   generators / aggregate keys being bound, nor about rebinding ([wf_surface_not_enough] below).
   Proof: EndToEndPasses.v (passes 2-4 keep the discipline), EndToEndRep.v (pass 5 makes it strict),
   EndToEndCore.v (ToCore.core_of_rule maps the strict discipline to PlanWf.wf_rule). *)
From Coq Require Import List ZArith Bool Arith Ascii String Lia.
From AV Require Import Engine.Core.
From AV Require Import Engine.Eval.
From AV Require Import Engine.Validate.
From AV Require Import Plan.PlanWf.
From AV Require Import Syntax.Surface.
From AV Require Import Syntax.Desugar.
From AV Require Import Syntax.ToCore.
From AV Require Import Syntax.SimBase.
From AV Require Import Syntax.SimRel.
From AV Require Import Syntax.Names.
From AV Require Import Syntax.DisjProof.
From AV Require Import Syntax.PatProof.
From AV Require Import Syntax.WildProof.
From AV Require Import Syntax.RepProof.
From AV Require Import Syntax.PassLemmas.
From AV Require Import Syntax.DesugarProofs.
From AV Require Import Syntax.CoreProof.
From AV Require Import Syntax.C07Example.
From AV Require Import Syntax.EndToEndDefs.
From AV Require Import Syntax.EndToEndPasses.
From AV Require Import Syntax.EndToEndRep.
From AV Require Import Syntax.EndToEndCore.
Import ListNotations.
Close Scope Z_scope.
Open Scope nat_scope.

Lemma bheads_eqv : forall (X : ident -> Prop) ar B B' hs, eqv X B B' -> (forall y, In y (heads_ids hs) -> ~ X y) -> bheads ar B hs = bheads ar B' hs.
Proof.
  intros X ar B B' hs He. unfold bheads. induction hs as [|h hs IH]; intro Hi; [reflexivity|]. cbn [forallb].
  rewrite IH by (intros y Hy; apply Hi; unfold heads_ids; cbn [flat_map]; apply in_or_app; right; exact Hy). f_equal. f_equal.
  assert (Hh : forall y, In y (flat_map expr_vars (snd h)) -> ~ X y) by (intros y Hy; apply Hi; unfold heads_ids; cbn [flat_map]; apply in_or_app; left; exact Hy).
  revert Hh. generalize (snd h) as ts. induction ts as [|t ts IHt]; intro Hh; [reflexivity|]. cbn [forallb].
  rewrite IHt by (intros y Hy; apply Hh; cbn [flat_map]; apply in_or_app; right; exact Hy). f_equal.
  apply (eqv_isub X B B' _ He). intros y Hy. apply Hh. cbn [flat_map]. apply in_or_app. left. exact Hy.
Qed.

Section Wf.
Variable ar : list (rel * nat).

(* passes 2-5 on one conjunction of the disjunction product, every counter state *)
Theorem conj_strict : forall (L0 : list ident) hs b cs,
  (forall s, In s L0 -> name_ok L0 s = true) -> incl (items_ids b) L0 -> incl (heads_ids hs) L0 ->
  Forall no_disj b -> bwf_conj ar hs b = true ->
  let r4 := fst (rule_desugar_rep cs (pre_rep {| sheads := hs; sbody := b |})) in
  strict_conj ar (sheads r4) (sbody r4) = true.
Proof.
  intros L0 hs b cs Hok Hb Hh Hnd Hwf.
  set (b1 := pat_items [] b). set (b2 := wild_items wild_gensym0 b1). set (b3 := map neg_item b2).
  set (Tp := gen_trace [] (pkeys b)). set (Tw := gen_trace wild_gensym0 (wkeys b1)). set (Tr := gen_trace cs (rkeys [] b3)).
  destruct (pat_items_facts b [] Hnd) as [P1 [P2 [P3 [P4 [P5 P6]]]]]. fold b1 in P1, P2, P3, P4, P5, P6. fold Tp in P4.
  destruct (wild_items_facts b1 wild_gensym0 P1 P2) as [W1 [W2 [W3 [W4 [W5 W6]]]]]. fold b2 in W1, W2, W3, W4, W5, W6. fold Tw in W4.
  destruct (neg_items_facts b2 W1 W2) as [N1 [N2 [N3 [N4 [N5 [N6 N7]]]]]]. fold b3 in N1, N2, N3, N4, N5, N6, N7.
  destruct fixed_stems_in as [F1 [F2 F3]].
  assert (HTp : forall z, In z Tp -> parse_gen z = Some arg_pattern_key).
  { intros z Hz. destruct (gen_trace_stem _ _ z Hz) as [q [Hq Hp]]. rewrite (pkeys_all b q Hq) in Hp. exact Hp. }
  assert (HTw : forall z, In z Tw -> parse_gen z = Some wild_key).
  { intros z Hz. destruct (gen_trace_stem _ _ z Hz) as [q [Hq Hp]]. rewrite (wkeys_all b1 q Hq) in Hp. exact Hp. }
  assert (Hb1 : forall y, In y (items_ids b1) -> In y L0 \/ In y Tp).
  { intros y Hy. destruct (P4 y Hy) as [H|H]; [left; apply Hb; exact H | right; exact H]. }
  assert (Hb3 : forall y, In y (items_ids b3) -> In y L0 \/ In y Tp \/ In y Tw).
  { intros y Hy. rewrite N5 in Hy. destruct (W4 y Hy) as [H|H]; [destruct (Hb1 y H) as [H'|H']; auto | right; right; exact H]. }
  assert (HTr : forall z, In z Tr -> ~ In z L0 /\ ~ In z Tp /\ ~ In z Tw).
  { intros z Hz. destruct (gen_trace_stem _ _ z Hz) as [q [Hq Hp]]. apply (fresh_rep L0 Hok z q Tp Tw Hp HTp HTw).
    destruct (rkeys_ids b3 [] q N2 Hq) as [H|H]; [|right; right; right; exact H].
    destruct (Hb3 q H) as [H'|[H'|H']]; auto. }
  assert (Hfw : forall y, In y Tw -> ~ In y L0 /\ ~ In y Tp).
  { intros y Hy. split; [exact (fresh_fixed L0 Hok y _ F2 (HTw y Hy))|]. intro Hin. pose proof (HTw y Hy) as E. rewrite (HTp y Hin) in E.
    destruct keys_distinct as [K _]. apply K. congruence. }
  unfold bwf_conj in Hwf. destruct (bbody ar [] b) as [B0|] eqn:E0; [|discriminate].
  (* pass 2 *)
  destruct (pat_items_bbody (fun y => In y Tp) ar b [] [] [] B0 Hnd
              (fun y Hy Hin => fresh_fixed L0 Hok y _ F1 (HTp y Hin) (Hb y Hy)) (fun v Hv => Hv) (eqv_refl _ []) E0) as [B1 [E1 Q1]].
  fold b1 in E1.
  (* pass 3 *)
  destruct (wild_items_bbody (fun y => In y Tw) ar b1 wild_gensym0 [] [] B1 P1 P2
              (fun y Hy Hin => match Hb1 y Hy with or_introl H => proj1 (Hfw y Hin) H | or_intror H => proj2 (Hfw y Hin) H end)
              (fun v Hv => Hv) (eqv_refl _ []) E1) as [B2 [E2 Q2]].
  fold b2 in E2.
  (* pass 4 *)
  rewrite <- (neg_items_bbody ar b2 []) in E2. fold b3 in E2.
  (* pass 5 *)
  destruct (rep_items_strict (fun y => In y Tr) ar b3 [] cs [] [] B2 N1 N2
              (fun y Hy Hin => match Hb3 y Hy with
                               | or_introl H => proj1 (HTr y Hin) H
                               | or_intror (or_introl H) => proj1 (proj2 (HTr y Hin)) H
                               | or_intror (or_intror H) => proj2 (proj2 (HTr y Hin)) H end)
              (gen_trace_nodup _ _) (fun v Hv => conj Hv (fun F : In v [] => F)) (eqv_refl _ []) (fun x (F : In x []) => match F with end) E2) as [B3 [E3 Q3]].
  assert (Heq : rule_desugar_rep cs (pre_rep {| sheads := hs; sbody := b |}) = ({| sheads := hs; sbody := fst (rep_items [] cs b3) |}, snd (rep_items [] cs b3))).
  { unfold rule_desugar_rep, pre_rep, rule_desugar_neg, rule_desugar_wild, rule_desugar_pat. cbn [sheads sbody]. fold b1. fold b2. fold b3.
    destruct (rep_items [] cs b3). reflexivity. }
  cbn zeta. rewrite Heq. cbn [fst sheads sbody]. unfold strict_conj. rewrite E3.
  rewrite <- (bheads_eqv (fun y => In y Tr) ar B2 B3 hs Q3) by (intros y Hy Hin; exact (proj1 (HTr y Hin) (Hh y Hy))).
  rewrite <- (bheads_eqv (fun y => In y Tw) ar B1 B2 hs Q2) by (intros y Hy Hin; exact (proj1 (Hfw y Hin) (Hh y Hy))).
  rewrite <- (bheads_eqv (fun y => In y Tp) ar B0 B1 hs Q1) by (intros y Hy Hin; exact (fresh_fixed L0 Hok y _ F1 (HTp y Hin) (Hh y Hy))).
  exact Hwf.
Qed.

Definition strict_rule (r : srule) : Prop := strict_conj ar (sheads r) (sbody r) = true.
Definition conj_b (r : srule) : Prop :=
  exists L0, (forall s, In s L0 -> name_ok L0 s = true) /\ incl (items_ids (sbody r)) L0 /\ incl (heads_ids (sheads r)) L0
  /\ Forall no_disj (sbody r) /\ bwf_conj ar (sheads r) (sbody r) = true.

Lemma rep_rules_strict : forall rs cs, Forall conj_b rs -> Forall strict_rule (fst (rep_rules cs rs)).
Proof.
  induction rs as [|r rs IH]; intros cs HF; [constructor|]. inversion HF as [|? ? Hr Hrs]; subst. cbn [rep_rules].
  destruct Hr as [L0 [H1 [H2 [H3 [H4 H5]]]]].
  assert (Er : r = {| sheads := sheads r; sbody := sbody r |}) by (destruct r; reflexivity).
  pose proof (conj_strict L0 (sheads r) (sbody r) cs H1 H2 H3 H4 H5) as Hp. cbn zeta in Hp. rewrite <- Er in Hp.
  destruct (rule_desugar_rep cs (pre_rep r)) as [r' cs1]. cbn [fst] in Hp. specialize (IH cs1 Hrs).
  destruct (rep_rules cs1 rs) as [rest' cs2]. cbn [fst] in *. constructor; [exact Hp | exact IH].
Qed.
Lemma wf_rule_conj_b : forall r, names_ok r = true -> wf_binding_rule ar r = true -> Forall conj_b (rule_desugar_disj r).
Proof.
  intros r Hn Hb. apply Forall_forall. intros r' Hr'. unfold rule_desugar_disj in Hr'. apply in_map_iff in Hr' as [b [<- Hb']].
  unfold wf_binding_rule in Hb. rewrite forallb_forall in Hb. specialize (Hb b Hb').
  destruct (disj_items_nd (sbody r) b Hb') as [Hnd Hids]. exists (rule_ids r). cbn [sheads sbody]. repeat split; try assumption.
  - unfold names_ok in Hn. rewrite forallb_forall in Hn. exact Hn.
  - intros y Hy. unfold rule_ids. apply in_or_app. left. apply Hids. exact Hy.
  - intros y Hy. unfold rule_ids. apply in_or_app. right. exact Hy.
Qed.
Lemma desugar_prog_strict : forall P cs, forallb names_ok P = true -> wf_binding ar P = true -> Forall strict_rule (desugar_prog cs P).
Proof.
  unfold desugar_prog, wf_binding. induction P as [|r P IH]; intros cs Hn Hb; [constructor|].
  cbn [forallb] in Hn, Hb. apply andb_true_iff in Hn as [Hn1 Hn2]. apply andb_true_iff in Hb as [Hb1 Hb2]. cbn [desugar_prog_cs].
  pose proof (rep_rules_strict (rule_desugar_disj r) cs (wf_rule_conj_b r Hn1 Hb1)) as A. unfold desugar_rule.
  destruct (rep_rules cs (rule_desugar_disj r)) as [rs cs1]. cbn [fst] in A. specialize (IH cs1 Hn2 Hb2).
  destruct (desugar_prog_cs cs1 P) as [rest cs2]. cbn [fst] in *. apply Forall_app. split; assumption.
Qed.
Lemma core_of_prog_wf : forall Q Qc, Forall strict_rule Q -> core_of_prog Q = Some Qc -> wf_core ar Qc = true.
Proof.
  induction Q as [|r Q IH]; intros Qc HF Hc; cbn [core_of_prog] in Hc; [inversion Hc; reflexivity|].
  inversion HF as [|? ? Hr HQ]; subst. destruct (core_of_rule r) as [c|] eqn:Ec; [|discriminate]. destruct (core_of_prog Q) as [l|] eqn:El; [|discriminate].
  inversion Hc; subst. unfold wf_core. cbn [forallb]. rewrite (core_of_rule_wf ar r c Ec Hr). exact (IH l HQ eq_refl).
Qed.
End Wf.

(* ---------- the lemma ---------- *)
Theorem desugar_output_wf_core : forall arities P cs Pc,
  forallb names_ok P = true -> wf_binding arities P = true ->
  core_of_prog (desugar_prog cs P) = Some Pc -> wf_core arities Pc = true.
Proof.
  intros ar P cs Pc Hn Hb Hc. exact (core_of_prog_wf ar _ Pc (desugar_prog_strict ar P cs Hn Hb) Hc).
Qed.

Lemma wf_surface_names_ok : forall P, wf_surface P = true -> forallb names_ok P = true.
Proof.
  intros P H. unfold wf_surface in H. rewrite forallb_forall in *. intros r Hr. specialize (H r Hr). unfold ToCore.wf_rule in H.
  apply andb_true_iff in H as [H _]. exact H.
Qed.
Corollary desugar_output_wf_core_surface : forall arities P cs Pc,
  wf_surface P = true -> wf_binding arities P = true ->
  core_of_prog (desugar_prog cs P) = Some Pc -> wf_core arities Pc = true.
Proof. intros ar P cs Pc Hs. apply desugar_output_wf_core. apply wf_surface_names_ok. exact Hs. Qed.

(* ---------- the hypothesis is satisfiable: C07's example with every surface form; and wf_surface alone is not enough ---------- *)
(* relations: foo = 0 (arity 2), bar = 1 (1), foo3 = 2 (3), res = 3 (2), one = 4 (1) *)
Definition ex_arities : list (rel * nat) := [(0, 2); (1, 1); (2, 3); (3, 2); (4, 1)].
Example ex_wf_binding : wf_binding ex_arities ex_prog = true.
Proof. vm_compute. reflexivity. Qed.
Example ex_output_wf_core : exists Pc, core_of_prog (desugar_prog [] ex_prog) = Some Pc /\ wf_core ex_arities Pc = true.
Proof. eexists. split; vm_compute; reflexivity. Qed.

(* res(x) <-- foo(x, y), let y = f(x):  wf_surface holds (names, scoping of expression ARGUMENTS, patterns), but the `let`
   rebinds y: the desugared core program is not wf_core, and the planner theorem does not apply to it *)
Definition shadow_prog : list srule :=
  [{| sheads := [(3, [SVar (i "x"); SVar (i "y")])];
      sbody := [IClause 0 [AT (SVar (i "x")); AT (SVar (i "y"))] []; ICond (SBind (i "y") 0 [i "x"])] |}].
Example wf_surface_not_enough :
  wf_surface shadow_prog = true /\ wf_binding ex_arities shadow_prog = false
  /\ exists Pc, core_of_prog (desugar_prog [] shadow_prog) = Some Pc /\ wf_core ex_arities Pc = false.
Proof. split; [vm_compute; reflexivity|]. split; [vm_compute; reflexivity|]. eexists. split; vm_compute; reflexivity. Qed.

Print Assumptions desugar_output_wf_core.
Print Assumptions ex_wf_binding.
Print Assumptions wf_surface_not_enough.
