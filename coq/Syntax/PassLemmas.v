(* C07 — structural facts about the passes: what they leave (no disjunction, no pattern, no wildcard, no negation),
   which identifiers the results mention, that scoping survives, which function symbols occur. *)
From Coq Require Import List ZArith Bool Arith Ascii Lia.
From AV Require Import Engine.Core.
From AV Require Import Engine.Sem.
From AV Require Import Syntax.Surface.
From AV Require Import Syntax.Desugar.
From AV Require Import Syntax.ToCore.
From AV Require Import Syntax.SimBase.
From AV Require Import Syntax.SimRel.
From AV Require Import Syntax.Names.
From AV Require Import Syntax.PatProof.
From AV Require Import Syntax.WildProof.
From AV Require Import Syntax.RepProof.
Import ListNotations.

(* ---------- how a pass may change an argument / an item, as far as scoping is concerned ---------- *)
Definition arg_le (a a' : sarg) : Prop := a' = a \/ (arg_svar a = [] /\ arg_fsyms a = [] /\ exists v, a' = AT (SVar v)).
Definition item_le (it it' : sitem) : Prop :=
  match it, it' with
  | IClause r args cs, IClause r' args' cs' => Forall2 arg_le args args' /\ incl (item_binds it) (item_binds it')
  | _, _ => it' = it \/ it' = neg_item it
  end.
Lemma arg_le_refl : forall a, arg_le a a.
Proof. intro a. left. reflexivity. Qed.
Lemma incl_app_app : forall (A : Type) (a b c d : list A), incl a c -> incl b d -> incl (a ++ b) (c ++ d).
Proof. intros A a b c d H1 H2 x Hx. apply in_app_or in Hx as [Hx|Hx]; apply in_or_app; [left; apply H1 | right; apply H2]; exact Hx. Qed.
Lemma isub_incl : forall xs B B', incl B B' -> isub xs B = true -> isub xs B' = true.
Proof. intros xs B B' Hi H. apply isub_In. intros x Hx. apply Hi. exact (proj1 (isub_In xs B) H x Hx). Qed.

Lemma scoped_args_mono : forall args args' B B', incl B B' -> Forall2 arg_le args args' ->
  scoped_args B args = true -> scoped_args B' args' = true.
Proof.
  induction args as [|a args IH]; intros args' B B' Hi HF Hs; inversion HF as [|? a' ? args'' Ha HF']; subst; [reflexivity|].
  cbn [scoped_args] in *. apply andb_true_iff in Hs as [H1 H2]. apply andb_true_iff. split.
  - destruct Ha as [->|[Hsv [Hfs [v ->]]]]; [|reflexivity]. destruct a as [[x|c|f xs]| |p]; try reflexivity. exact (isub_incl xs B B' Hi H1).
  - apply (IH args'' (arg_svar a ++ B)); [|exact HF' | exact H2].
    destruct Ha as [->|[Hsv [Hfs [v ->]]]]; [apply incl_app_app; [apply incl_refl | exact Hi]|].
    rewrite Hsv. cbn [app]. intros y Hy. apply in_or_app. right. apply Hi. exact Hy.
Qed.
Lemma item_binds_neg : forall it, item_binds (neg_item it) = item_binds it.
Proof. intros [r args cs|c|x g xs|out a bound r args|r args|ds]; reflexivity. Qed.
Lemma scoped_mono : forall items items' B B', incl B B' -> Forall2 item_le items items' ->
  scoped B items = true -> scoped B' items' = true.
Proof.
  induction items as [|it items IH]; intros items' B B' Hi HF Hs; inversion HF as [|? it' ? items'' Hit HF']; subst; [reflexivity|].
  cbn [scoped] in *. apply andb_true_iff in Hs as [H1 H2]. apply andb_true_iff. split.
  - destruct it as [r args cs|c|x g xs|out a bound r args|r args|ds], it' as [r' args' cs'|c'|x' g' xs'|out' a' bound' r' args'|r' args'|ds'];
      cbn [item_le] in Hit; try reflexivity; try (destruct Hit as [Hit|Hit]; cbn [neg_item] in Hit; discriminate Hit).
    destruct Hit as [Ha _]. exact (scoped_args_mono args args' B B' Hi Ha H1).
  - apply (IH items'' (item_binds it ++ B)); [|exact HF' | exact H2]. apply incl_app_app; [|exact Hi].
    destruct it as [r args cs|c|x g xs|out a bound r args|r args|ds], it' as [r' args' cs'|c'|x' g' xs'|out' a' bound' r' args'|r' args'|ds'];
      cbn [item_le] in Hit; try (destruct Hit as [_ Hb]; exact Hb);
      try (destruct Hit as [Hit|Hit]; cbn [neg_item] in Hit; try discriminate Hit; inversion Hit; subst; apply incl_refl).
Qed.

(* ---------- pass 2 ---------- *)
Definition no_pat (a : sarg) : Prop := match a with APat _ => False | _ => True end.
Definition item_no_pat (it : sitem) : Prop := match it with IClause _ args _ => Forall no_pat args | _ => True end.

Lemma pat_args_le : forall args g, Forall2 arg_le args (fst (fst (pat_args g args))).
Proof.
  induction args as [|a args IH]; intro g; [constructor|].
  destruct a as [t| |p]; [rewrite pat_args_other by discriminate | rewrite pat_args_other by discriminate | rewrite pat_args_pat]; cbn [fst snd];
    constructor; try apply IH; try apply arg_le_refl.
  right. repeat split. eexists. reflexivity.
Qed.
Lemma pat_args_no_pat : forall args g, Forall no_pat (fst (fst (pat_args g args))).
Proof.
  induction args as [|a args IH]; intro g; [constructor|].
  destruct a as [t| |p]; [rewrite pat_args_other by discriminate | rewrite pat_args_other by discriminate | rewrite pat_args_pat]; cbn [fst snd];
    constructor; try apply IH; exact Logic.I.
Qed.
Lemma pat_args_ids : forall args g y,
  In y (flat_map arg_ids (fst (fst (pat_args g args))) ++ flat_map cond_ids (snd (fst (pat_args g args)))) ->
  In y (flat_map arg_ids args) \/ In y (gen_trace g (pkeys_args args)).
Proof.
  induction args as [|a args IH]; intros g y Hy; [destruct Hy|].
  destruct a as [t| |p]; [rewrite pat_args_other in Hy by discriminate | rewrite pat_args_other in Hy by discriminate | rewrite pat_args_pat in Hy];
    cbn [fst snd flat_map] in Hy.
  - change (pkeys_args (AT t :: args)) with (pkeys_args args). cbn [flat_map]. rewrite <- app_assoc in Hy.
    apply in_app_or in Hy as [Hy|Hy]; [left; apply in_or_app; left; exact Hy|].
    destruct (IH g y Hy) as [H|H]; [left; apply in_or_app; right; exact H | right; exact H].
  - change (pkeys_args (AWildS :: args)) with (pkeys_args args). cbn [flat_map arg_ids app] in *.
    exact (IH g y Hy).
  - change (pkeys_args (APat p :: args)) with (arg_pattern_key :: pkeys_args args). cbn [gen_trace flat_map arg_ids cond_ids expr_vars app] in *.
    set (v0 := fst (gensym_next tr_default g arg_pattern_key)) in *. set (g1 := snd (gensym_next tr_default g arg_pattern_key)) in *.
    destruct Hy as [<-|Hy]; [right; left; reflexivity|].
    apply in_app_or in Hy as [Hy|Hy].
    + destruct (IH g1 y (in_or_app _ _ _ (or_introl Hy))) as [H|H]; [left; apply in_or_app; right; exact H | right; right; exact H].
    + destruct Hy as [<-|Hy]; [right; left; reflexivity|]. apply in_app_or in Hy as [Hy|Hy]; [left; apply in_or_app; left; exact Hy|].
      destruct (IH g1 y (in_or_app _ _ _ (or_intror Hy))) as [H|H]; [left; apply in_or_app; right; exact H | right; right; exact H].
Qed.
Lemma pat_args_binds : forall args g,
  incl (flat_map arg_binds args) (flat_map cond_binds (snd (fst (pat_args g args))) ++ flat_map arg_binds (fst (fst (pat_args g args)))).
Proof.
  induction args as [|a args IH]; intros g y Hy; [destruct Hy|].
  destruct a as [t| |p]; [rewrite pat_args_other by discriminate | rewrite pat_args_other by discriminate | rewrite pat_args_pat];
    cbn [fst snd flat_map] in *.
  - apply in_app_or in Hy as [Hy|Hy]; apply in_or_app; [right; apply in_or_app; left; exact Hy|].
    apply (IH g) in Hy. apply in_app_or in Hy as [Hy|Hy]; [left; exact Hy | right; apply in_or_app; right; exact Hy].
  - cbn [arg_binds app] in *. apply (IH g). exact Hy.
  - cbn [arg_binds cond_binds app] in *. apply in_app_or in Hy as [Hy|Hy]; apply in_or_app; [left; apply in_or_app; left; exact Hy|].
    apply (IH (snd (gensym_next tr_default g arg_pattern_key))) in Hy. apply in_app_or in Hy as [Hy|Hy]; [left; apply in_or_app; right; exact Hy | right; right; exact Hy].
Qed.
Lemma pat_args_conds : forall args g, forallb cond_okb (snd (fst (pat_args g args))) = true /\ flat_map cond_fsyms (snd (fst (pat_args g args))) = []
  /\ flat_map arg_fsyms (fst (fst (pat_args g args))) = flat_map arg_fsyms args.
Proof.
  induction args as [|a args IH]; intro g; [repeat split|].
  destruct a as [t| |p]; [rewrite pat_args_other by discriminate | rewrite pat_args_other by discriminate | rewrite pat_args_pat]; cbn [fst snd flat_map forallb cond_okb cond_fsyms arg_fsyms app andb].
  - destruct (IH g) as [H1 [H2 H3]]. rewrite H3. auto.
  - exact (IH g).
  - exact (IH _).
Qed.

Lemma pat_items_facts : forall items g, Forall no_disj items ->
  Forall no_disj (pat_items g items) /\ Forall item_no_pat (pat_items g items) /\ Forall2 item_le items (pat_items g items)
  /\ (forall y, In y (items_ids (pat_items g items)) -> In y (items_ids items) \/ In y (gen_trace g (pkeys items)))
  /\ (conds_okb items = true -> conds_okb (pat_items g items) = true)
  /\ incl (items_fsyms (pat_items g items)) (items_fsyms items).
Proof.
  induction items as [|it items IH]; intros g Hnd.
  - cbn. repeat split; try constructor; auto. intros y [].
  - inversion Hnd as [|? ? Hit Hrest]; subst.
    destruct it as [r args cs|c|x gg xs|out a bound r args|r args|ds]; try (destruct Hit; fail).
    + rewrite pat_items_clause. destruct (IH (snd (pat_args g args)) Hrest) as [A [B [C [D [E F]]]]].
      change (pkeys (IClause r args cs :: items)) with (pkeys_args args ++ pkeys items). rewrite gen_trace_app, <- pat_args_state.
      destruct (pat_args_conds args g) as [K1 [K2 K3]].
      repeat split.
      * constructor; [exact Logic.I | exact A].
      * constructor; [apply pat_args_no_pat | exact B].
      * constructor; [|exact C]. split; [apply pat_args_le|]. cbn [item_binds]. rewrite flat_map_app.
        intros y Hy. apply in_app_or in Hy as [Hy|Hy].
        -- apply in_or_app. left. apply in_or_app. right. exact Hy.
        -- apply (pat_args_binds args g) in Hy. apply in_app_or in Hy as [Hy|Hy]; apply in_or_app; [left; apply in_or_app; left; exact Hy | right; exact Hy].
      * intros y Hy. unfold items_ids in *. cbn [flat_map item_ids] in Hy |- *. rewrite flat_map_app in Hy.
        apply in_app_or in Hy as [Hy|Hy].
        -- rewrite app_assoc in Hy. apply in_app_or in Hy as [Hy|Hy].
           ++ destruct (pat_args_ids args g y Hy) as [H|H]; [left; apply in_or_app; left; apply in_or_app; left; exact H | right; apply in_or_app; left; exact H].
           ++ left. apply in_or_app. left. apply in_or_app. right. exact Hy.
        -- destruct (D y Hy) as [H|H]; [left; apply in_or_app; right; exact H | right; apply in_or_app; right; exact H].
      * intro Hok. cbn [conds_okb forallb] in Hok |- *. apply andb_true_iff in Hok as [O1 O2]. apply andb_true_iff. split; [|apply E; exact O2].
        rewrite forallb_app, K1, O1. reflexivity.
      * unfold items_fsyms in *. cbn [flat_map item_fsyms]. rewrite flat_map_app, K2, K3. cbn [app].
        apply incl_app_app; [apply incl_refl | exact F].
    + cbn [pat_items]. destruct (IH g Hrest) as [A [B [C [D [E F]]]]]. change (pkeys (ICond c :: items)) with (pkeys items). repeat split.
      * constructor; [exact Logic.I | exact A].
      * constructor; [exact Logic.I | exact B].
      * constructor; [left; reflexivity | exact C].
      * intros y Hy. unfold items_ids in *. cbn [flat_map] in *. apply in_app_or in Hy as [Hy|Hy]; [left; apply in_or_app; left; exact Hy|].
        destruct (D y Hy) as [H|H]; [left; apply in_or_app; right; exact H | right; exact H].
      * intro Hok. cbn [conds_okb forallb] in Hok |- *. apply andb_true_iff in Hok as [O1 O2]. rewrite O1. apply E. exact O2.
      * unfold items_fsyms in *. cbn [flat_map]. apply incl_app_app; [apply incl_refl | exact F].
    + cbn [pat_items]. destruct (IH g Hrest) as [A [B [C [D [E F]]]]]. change (pkeys (IGen x gg xs :: items)) with (pkeys items). repeat split.
      * constructor; [exact Logic.I | exact A].
      * constructor; [exact Logic.I | exact B].
      * constructor; [left; reflexivity | exact C].
      * intros y Hy. unfold items_ids in *. cbn [flat_map] in *. apply in_app_or in Hy as [Hy|Hy]; [left; apply in_or_app; left; exact Hy|].
        destruct (D y Hy) as [H|H]; [left; apply in_or_app; right; exact H | right; exact H].
      * intro Hok. cbn [conds_okb forallb] in Hok |- *. apply E. exact Hok.
      * unfold items_fsyms in *. cbn [flat_map]. apply incl_app_app; [apply incl_refl | exact F].
    + cbn [pat_items]. destruct (IH g Hrest) as [A [B [C [D [E F]]]]]. change (pkeys (IAgg out a bound r args :: items)) with (pkeys items). repeat split.
      * constructor; [exact Logic.I | exact A].
      * constructor; [exact Logic.I | exact B].
      * constructor; [left; reflexivity | exact C].
      * intros y Hy. unfold items_ids in *. cbn [flat_map] in *. apply in_app_or in Hy as [Hy|Hy]; [left; apply in_or_app; left; exact Hy|].
        destruct (D y Hy) as [H|H]; [left; apply in_or_app; right; exact H | right; exact H].
      * intro Hok. cbn [conds_okb forallb] in Hok |- *. apply E. exact Hok.
      * unfold items_fsyms in *. cbn [flat_map]. apply incl_app_app; [apply incl_refl | exact F].
    + cbn [pat_items]. destruct (IH g Hrest) as [A [B [C [D [E F]]]]]. change (pkeys (INeg r args :: items)) with (pkeys items). repeat split.
      * constructor; [exact Logic.I | exact A].
      * constructor; [exact Logic.I | exact B].
      * constructor; [left; reflexivity | exact C].
      * intros y Hy. unfold items_ids in *. cbn [flat_map] in *. apply in_app_or in Hy as [Hy|Hy]; [left; apply in_or_app; left; exact Hy|].
        destruct (D y Hy) as [H|H]; [left; apply in_or_app; right; exact H | right; exact H].
      * intro Hok. cbn [conds_okb forallb] in Hok |- *. apply E. exact Hok.
      * unfold items_fsyms in *. cbn [flat_map]. apply incl_app_app; [apply incl_refl | exact F].
Qed.

(* ---------- pass 3 ---------- *)
Lemma wild_args_le : forall args g, Forall2 arg_le args (fst (wild_args g args)).
Proof.
  induction args as [|a args IH]; intro g; [constructor|].
  destruct a as [t| |p]; [rewrite wild_args_other by discriminate | rewrite wild_args_wild | rewrite wild_args_other by discriminate]; cbn [fst snd];
    constructor; try apply IH; try apply arg_le_refl.
  right. repeat split. eexists. reflexivity.
Qed.
Lemma wild_args_AT : forall args g, Forall no_pat args -> Forall is_AT (fst (wild_args g args)).
Proof.
  induction args as [|a args IH]; intros g HF; [constructor|]. inversion HF as [|? ? Ha HF']; subst.
  destruct a as [t| |p]; [rewrite wild_args_other by discriminate | rewrite wild_args_wild | destruct Ha]; cbn [fst snd];
    constructor; try (apply IH; exact HF'); exact Logic.I.
Qed.
Lemma wild_args_ids : forall args g y, In y (flat_map arg_ids (fst (wild_args g args))) ->
  In y (flat_map arg_ids args) \/ In y (gen_trace g (wkeys_args args)).
Proof.
  induction args as [|a args IH]; intros g y Hy; [destruct Hy|].
  destruct a as [t| |p]; [rewrite wild_args_other in Hy by discriminate | rewrite wild_args_wild in Hy | rewrite wild_args_other in Hy by discriminate];
    cbn [fst snd flat_map] in Hy.
  - change (wkeys_args (AT t :: args)) with (wkeys_args args). cbn [flat_map].
    apply in_app_or in Hy as [Hy|Hy]; [left; apply in_or_app; left; exact Hy|].
    destruct (IH g y Hy) as [H|H]; [left; apply in_or_app; right; exact H | right; exact H].
  - change (wkeys_args (AWildS :: args)) with (wild_key :: wkeys_args args). cbn [gen_trace flat_map arg_ids expr_vars app] in *.
    destruct Hy as [<-|Hy]; [right; left; reflexivity|].
    destruct (IH _ y Hy) as [H|H]; [left; exact H | right; right; exact H].
  - change (wkeys_args (APat p :: args)) with (wkeys_args args). cbn [flat_map].
    apply in_app_or in Hy as [Hy|Hy]; [left; apply in_or_app; left; exact Hy|].
    destruct (IH g y Hy) as [H|H]; [left; apply in_or_app; right; exact H | right; exact H].
Qed.
Lemma wild_args_binds : forall args g, incl (flat_map arg_binds args) (flat_map arg_binds (fst (wild_args g args))).
Proof.
  induction args as [|a args IH]; intros g y Hy; [destruct Hy|].
  destruct a as [t| |p]; [rewrite wild_args_other by discriminate | rewrite wild_args_wild | rewrite wild_args_other by discriminate];
    cbn [fst snd flat_map] in *.
  - apply in_app_or in Hy as [Hy|Hy]; apply in_or_app; [left; exact Hy | right; apply (IH g); exact Hy].
  - cbn [arg_binds app] in *. right. apply IH. exact Hy.
  - apply in_app_or in Hy as [Hy|Hy]; apply in_or_app; [left; exact Hy | right; apply (IH g); exact Hy].
Qed.
Lemma wild_args_fsyms : forall args g, flat_map arg_fsyms (fst (wild_args g args)) = flat_map arg_fsyms args.
Proof.
  induction args as [|a args IH]; intro g; [reflexivity|].
  destruct a as [t| |p]; [rewrite wild_args_other by discriminate | rewrite wild_args_wild | rewrite wild_args_other by discriminate];
    cbn [fst snd flat_map arg_fsyms app]; rewrite IH; reflexivity.
Qed.

Lemma wild_items_facts : forall items g, Forall no_disj items -> Forall item_no_pat items ->
  Forall no_disj (wild_items g items) /\ Forall clause_AT (wild_items g items) /\ Forall2 item_le items (wild_items g items)
  /\ (forall y, In y (items_ids (wild_items g items)) -> In y (items_ids items) \/ In y (gen_trace g (wkeys items)))
  /\ (conds_okb items = true -> conds_okb (wild_items g items) = true)
  /\ incl (items_fsyms (wild_items g items)) (items_fsyms items).
Proof.
  induction items as [|it items IH]; intros g Hnd Hnp.
  - cbn. repeat split; try constructor; auto. intros y [].
  - inversion Hnd as [|? ? Hit Hrest]; subst. inversion Hnp as [|? ? Hnp1 Hnp2]; subst.
    destruct it as [r args cs|c|x gg xs|out a bound r args|r args|ds]; try (destruct Hit; fail).
    + rewrite wild_items_clause. destruct (IH (snd (wild_args g args)) Hrest Hnp2) as [A [B [C [D [E F]]]]].
      change (wkeys (IClause r args cs :: items)) with (wkeys_args args ++ wkeys items). rewrite gen_trace_app, <- wild_args_state.
      repeat split.
      * constructor; [exact Logic.I | exact A].
      * constructor; [apply wild_args_AT; exact Hnp1 | exact B].
      * constructor; [|exact C]. split; [apply wild_args_le|]. cbn [item_binds]. apply incl_app_app; [apply incl_refl | apply wild_args_binds].
      * intros y Hy. unfold items_ids in *. cbn [flat_map item_ids] in Hy |- *.
        apply in_app_or in Hy as [Hy|Hy].
        -- apply in_app_or in Hy as [Hy|Hy].
           ++ destruct (wild_args_ids args g y Hy) as [H|H]; [left; apply in_or_app; left; apply in_or_app; left; exact H | right; apply in_or_app; left; exact H].
           ++ left. apply in_or_app. left. apply in_or_app. right. exact Hy.
        -- destruct (D y Hy) as [H|H]; [left; apply in_or_app; right; exact H | right; apply in_or_app; right; exact H].
      * intro Hok. cbn [conds_okb forallb] in Hok |- *. apply andb_true_iff in Hok as [O1 O2]. rewrite O1. apply E. exact O2.
      * unfold items_fsyms in *. cbn [flat_map item_fsyms]. rewrite wild_args_fsyms. apply incl_app_app; [apply incl_refl | exact F].
    + cbn [wild_items]. destruct (IH g Hrest Hnp2) as [A [B [C [D [E F]]]]]. change (wkeys (ICond c :: items)) with (wkeys items). repeat split.
      * constructor; [exact Logic.I | exact A].
      * constructor; [exact Logic.I | exact B].
      * constructor; [left; reflexivity | exact C].
      * intros y Hy. unfold items_ids in *. cbn [flat_map] in *. apply in_app_or in Hy as [Hy|Hy]; [left; apply in_or_app; left; exact Hy|].
        destruct (D y Hy) as [H|H]; [left; apply in_or_app; right; exact H | right; exact H].
      * intro Hok. cbn [conds_okb forallb] in Hok |- *. apply andb_true_iff in Hok as [O1 O2]. rewrite O1. apply E. exact O2.
      * unfold items_fsyms in *. cbn [flat_map]. apply incl_app_app; [apply incl_refl | exact F].
    + cbn [wild_items]. destruct (IH g Hrest Hnp2) as [A [B [C [D [E F]]]]]. change (wkeys (IGen x gg xs :: items)) with (wkeys items). repeat split.
      * constructor; [exact Logic.I | exact A].
      * constructor; [exact Logic.I | exact B].
      * constructor; [left; reflexivity | exact C].
      * intros y Hy. unfold items_ids in *. cbn [flat_map] in *. apply in_app_or in Hy as [Hy|Hy]; [left; apply in_or_app; left; exact Hy|].
        destruct (D y Hy) as [H|H]; [left; apply in_or_app; right; exact H | right; exact H].
      * intro Hok. cbn [conds_okb forallb] in Hok |- *. apply E. exact Hok.
      * unfold items_fsyms in *. cbn [flat_map]. apply incl_app_app; [apply incl_refl | exact F].
    + cbn [wild_items]. destruct (IH g Hrest Hnp2) as [A [B [C [D [E F]]]]]. change (wkeys (IAgg out a bound r args :: items)) with (wkeys items). repeat split.
      * constructor; [exact Logic.I | exact A].
      * constructor; [exact Logic.I | exact B].
      * constructor; [left; reflexivity | exact C].
      * intros y Hy. unfold items_ids in *. cbn [flat_map] in *. apply in_app_or in Hy as [Hy|Hy]; [left; apply in_or_app; left; exact Hy|].
        destruct (D y Hy) as [H|H]; [left; apply in_or_app; right; exact H | right; exact H].
      * intro Hok. cbn [conds_okb forallb] in Hok |- *. apply E. exact Hok.
      * unfold items_fsyms in *. cbn [flat_map]. apply incl_app_app; [apply incl_refl | exact F].
    + cbn [wild_items]. destruct (IH g Hrest Hnp2) as [A [B [C [D [E F]]]]]. change (wkeys (INeg r args :: items)) with (wkeys items). repeat split.
      * constructor; [exact Logic.I | exact A].
      * constructor; [exact Logic.I | exact B].
      * constructor; [left; reflexivity | exact C].
      * intros y Hy. unfold items_ids in *. cbn [flat_map] in *. apply in_app_or in Hy as [Hy|Hy]; [left; apply in_or_app; left; exact Hy|].
        destruct (D y Hy) as [H|H]; [left; apply in_or_app; right; exact H | right; exact H].
      * intro Hok. cbn [conds_okb forallb] in Hok |- *. apply E. exact Hok.
      * unfold items_fsyms in *. cbn [flat_map]. apply incl_app_app; [apply incl_refl | exact F].
Qed.

(* ---------- pass 4 ---------- *)
Definition item_no_neg (it : sitem) : Prop := match it with INeg _ _ => False | _ => True end.
Lemma neg_arg_ids : forall args, flat_map aarg_ids (map neg_arg args) = flat_map narg_ids args.
Proof. induction args as [|a args IH]; [reflexivity|]. cbn [map flat_map]. rewrite IH. destruct a; reflexivity. Qed.
Lemma neg_items_facts : forall items, Forall no_disj items -> Forall clause_AT items ->
  Forall no_disj (map neg_item items) /\ Forall clause_AT (map neg_item items) /\ Forall item_no_neg (map neg_item items)
  /\ Forall2 item_le items (map neg_item items)
  /\ items_ids (map neg_item items) = items_ids items
  /\ conds_okb (map neg_item items) = conds_okb items
  /\ items_fsyms (map neg_item items) = items_fsyms items.
Proof.
  induction items as [|it items IH]; intros Hnd Hat.
  - cbn. repeat split; constructor.
  - inversion Hnd as [|? ? Hit Hrest]; subst. inversion Hat as [|? ? Hat1 Hat2]; subst. destruct (IH Hrest Hat2) as [A [B [C [D [E [F G]]]]]].
    cbn [map]. unfold items_ids, items_fsyms in *. cbn [flat_map conds_okb forallb]. fold (conds_okb (map neg_item items)). fold (conds_okb items).
    rewrite E, F, G.
    destruct it as [r args cs|c|x gg xs|out a bound r args|r args|ds]; try (destruct Hit; fail); cbn [neg_item];
      refine (conj _ (conj _ (conj _ (conj _ (conj _ (conj _ _))))));
      try (constructor; [exact Logic.I | assumption]); try (constructor; [exact Hat1 | assumption]); try reflexivity.
    + constructor; [|exact D]. split; [|apply incl_refl]. clear. induction args as [|a args IHa]; constructor; [apply arg_le_refl | exact IHa].
    + constructor; [left; reflexivity | exact D].
    + constructor; [left; reflexivity | exact D].
    + constructor; [left; reflexivity | exact D].
    + constructor; [right; reflexivity | exact D].
    + cbn [item_ids out_ids app]. rewrite neg_arg_ids. reflexivity.
Qed.

(* ---------- pass 5 ---------- *)
Lemma cond_okb_ok : forall c, cond_okb c = true -> cond_ok c.
Proof. intros [p xs|x f xs|p v|v [y|c|f xs]] H; cbn in *; try exact Logic.I. discriminate. Qed.
Lemma rkeys_args_ids : forall args G here y, Forall is_AT args -> In y (fst (rkeys_args G here args)) ->
  In y (flat_map arg_ids args) \/ y = expr_replaced_key.
Proof.
  induction args as [|a args IH]; intros G here y HF Hy; [destruct Hy|]. inversion HF as [|? ? Ha HF']; subst.
  destruct a as [t| |p]; try destruct Ha. cbn [rkeys_args] in Hy. cbn [flat_map arg_ids]. destruct (replaced here t).
  - cbn [fst] in Hy. destruct Hy as [<-|Hy].
    + destruct t as [x|c|f xs]; cbn [expr_prefix]; [left; left; reflexivity | right; reflexivity | right; reflexivity].
    + destruct (IH G here y HF' Hy) as [H|H]; [left; apply in_or_app; right; exact H | right; exact H].
  - destruct (IH G _ y HF' Hy) as [H|H]; [left; apply in_or_app; right; exact H | right; exact H].
Qed.
Lemma rkeys_ids : forall items G y, Forall clause_AT items -> In y (rkeys G items) -> In y (items_ids items) \/ y = expr_replaced_key.
Proof.
  induction items as [|it items IH]; intros G y HF Hy; [destruct Hy|]. inversion HF as [|? ? Ha HF']; subst.
  unfold items_ids. cbn [flat_map].
  destruct it as [r args cs|c|x gg xs|out a bound r args|r args|ds]; cbn [rkeys] in Hy;
    try (destruct (IH _ y HF' Hy) as [H|H]; [left; apply in_or_app; right; exact H | right; exact H]).
  apply in_app_or in Hy as [Hy|Hy].
  - destruct (rkeys_args_ids args G [] y Ha Hy) as [H|H]; [left; apply in_or_app; left; cbn [item_ids]; apply in_or_app; left; exact H | right; exact H].
  - destruct (IH _ y HF' Hy) as [H|H]; [left; apply in_or_app; right; exact H | right; exact H].
Qed.

Lemma rep_args_conds : forall args G here cs, Forall is_AT args ->
  Forall cond_ok (rc (rep_args G here cs args)) /\ incl (flat_map cond_fsyms (rc (rep_args G here cs args))) (flat_map arg_fsyms args).
Proof.
  induction args as [|a args IH]; intros G here cs HF; [split; [constructor | intros y []]|]. inversion HF as [|? ? Ha HF']; subst.
  destruct a as [t| |p]; try destruct Ha. destruct (replaced here t) eqn:E.
  - rewrite rep_args_repl by exact E. cbn [rc fst snd]. destruct (IH G here (snd (gensym_next tr_default cs (expr_prefix t))) HF') as [A B]. split.
    + constructor; [|exact A]. destruct t as [x|c|f xs]; try exact Logic.I. discriminate E.
    + cbn [flat_map]. apply incl_app_app; [|exact B]. destruct t as [x|c|f xs]; cbn [cond_fsyms arg_fsyms]; [intros y [] | intros y [] | apply incl_refl].
  - rewrite rep_args_keep by exact E. cbn [rc fst snd]. destruct (IH G (here_upd G here t) cs HF') as [A B]. split; [exact A|].
    cbn [flat_map]. intros y Hy. apply in_or_app. right. apply B. exact Hy.
Qed.

Lemma rep_items_facts : forall items G cs, Forall no_disj items -> Forall clause_AT items -> Forall item_no_neg items -> conds_okb items = true ->
  Forall core_frag_item (fst (rep_items G cs items))
  /\ incl (flat_map (fun it => match it with IClause _ _ cs => flat_map cond_fsyms cs | ICond c => cond_fsyms c | _ => [] end) (fst (rep_items G cs items)))
          (items_fsyms items).
Proof.
  induction items as [|it items IH]; intros G cs Hnd Hat Hnn Hok.
  - cbn. split; [constructor | intros y []].
  - inversion Hnd as [|? ? Hit Hrest]; subst. inversion Hat as [|? ? Hat1 Hat2]; subst. inversion Hnn as [|? ? Hnn1 Hnn2]; subst.
    cbn [conds_okb forallb] in Hok. apply andb_true_iff in Hok as [O1 O2]. fold (conds_okb items) in O2.
    destruct it as [r args conds|c|x gg xs|out a bound r args|r args|ds]; try (destruct Hit; fail); try (destruct Hnn1; fail).
    + rewrite rep_items_clause. cbn [fst]. destruct (IH (flat_map cond_grounds conds ++ rh (rep_args G [] cs args) ++ G) (rs (rep_args G [] cs args)) Hrest Hat2 Hnn2 O2) as [A B].
      destruct (rep_args_conds args G [] cs Hat1) as [C D]. split.
      * constructor; [|exact A]. split; [apply rep_args_AT; exact Hat1|]. apply Forall_app. split; [exact C|].
        apply Forall_forall. intros c Hc. apply cond_okb_ok. rewrite forallb_forall in O1. apply O1. exact Hc.
      * cbn [flat_map]. unfold items_fsyms. cbn [flat_map item_fsyms]. rewrite flat_map_app.
        intros y Hy. apply in_app_or in Hy as [Hy|Hy]; [|apply in_or_app; right; apply B; exact Hy].
        apply in_or_app. left. apply in_app_or in Hy as [Hy|Hy]; apply in_or_app; [left; apply D; exact Hy | right; exact Hy].
    + rewrite rep_items_other by discriminate. cbn [fst]. destruct (IH (item_grounds (ICond c) ++ G) cs Hrest Hat2 Hnn2 O2) as [A B]. split.
      * constructor; [apply cond_okb_ok; exact O1 | exact A].
      * cbn [flat_map]. unfold items_fsyms. cbn [flat_map item_fsyms]. apply incl_app_app; [apply incl_refl | exact B].
    + rewrite rep_items_other by discriminate. cbn [fst]. destruct (IH (item_grounds (IGen x gg xs) ++ G) cs Hrest Hat2 Hnn2 O2) as [A B]. split.
      * constructor; [exact Logic.I | exact A].
      * cbn [flat_map]. unfold items_fsyms. cbn [flat_map item_fsyms app]. exact B.
    + rewrite rep_items_other by discriminate. cbn [fst]. destruct (IH (item_grounds (IAgg out a bound r args) ++ G) cs Hrest Hat2 Hnn2 O2) as [A B]. split.
      * constructor; [exact Logic.I | exact A].
      * cbn [flat_map]. unfold items_fsyms. cbn [flat_map item_fsyms app]. exact B.
Qed.
