(* C07 — pass 3 (wildcards): `_` replaced by the per-rule fresh names __1, __2, ... *)
From Coq Require Import List ZArith Bool Arith Ascii Lia.
From AV Require Import Engine.Core.
From AV Require Import Engine.Sem.
From AV Require Import Syntax.Surface.
From AV Require Import Syntax.Desugar.
From AV Require Import Syntax.ToCore.
From AV Require Import Syntax.SimBase.
From AV Require Import Syntax.SimRel.
From AV Require Import Syntax.Names.
Import ListNotations.

Definition wkeys_args (args : list sarg) : list ident :=
  flat_map (fun a => match a with AWildS => [wild_key] | _ => [] end) args.
Definition wkeys (items : list sitem) : list ident :=
  flat_map (fun it => match it with IClause _ args _ => wkeys_args args | _ => [] end) items.

Lemma wild_args_wild : forall g rest,
  wild_args g (AWildS :: rest) =
  (AT (SVar (fst (gensym_next tr_default g wild_key))) :: fst (wild_args (snd (gensym_next tr_default g wild_key)) rest),
   snd (wild_args (snd (gensym_next tr_default g wild_key)) rest)).
Proof. intros. cbn [wild_args]. destruct (gensym_next tr_default g wild_key). cbn [fst snd]. destruct (wild_args c rest). reflexivity. Qed.
Lemma wild_args_other : forall g a rest, a <> AWildS ->
  wild_args g (a :: rest) = (a :: fst (wild_args g rest), snd (wild_args g rest)).
Proof. intros g a rest H. destruct a; try contradiction; cbn [wild_args]; destruct (wild_args g rest); reflexivity. Qed.
Lemma wild_args_state : forall args g, snd (wild_args g args) = gen_state g (wkeys_args args).
Proof.
  induction args as [|a args IH]; intro g; [reflexivity|]. destruct a as [t| |p].
  - rewrite wild_args_other by discriminate. cbn [snd]. apply IH.
  - rewrite wild_args_wild. cbn [snd]. unfold wkeys_args. cbn [flat_map app gen_state]. apply IH.
  - rewrite wild_args_other by discriminate. cbn [snd]. apply IH.
Qed.
Lemma wild_items_clause : forall g r args cs rest,
  wild_items g (IClause r args cs :: rest) = IClause r (fst (wild_args g args)) cs :: wild_items (snd (wild_args g args)) rest.
Proof. intros. cbn [wild_items]. destruct (wild_args g args). reflexivity. Qed.

Section Wild.
Variable I : interp.
Variable db : rel -> list tuple.
Variable X : ident -> Prop.

Lemma wild_args_sim : forall args g tup e e' T,
  (forall y, In y (flat_map arg_ids args) -> ~ X y) ->
  NoDup (gen_trace g (wkeys_args args) ++ T) -> (forall y, In y (gen_trace g (wkeys_args args) ++ T) -> X y) ->
  srel X (gen_trace g (wkeys_args args) ++ T) e e' ->
  orel (srel X T) (smatch_args I e args tup) (smatch_args I e' (fst (wild_args g args)) tup).
Proof.
  induction args as [|a args IH]; intros g tup e e' T Hi Hnd HX [Ha Ht]; destruct tup as [|v tup].
  - cbn. split; assumption.
  - cbn. exact Logic.I.
  - destruct a; [rewrite wild_args_other by discriminate | rewrite wild_args_wild | rewrite wild_args_other by discriminate]; cbn; exact Logic.I.
  - assert (Hrest : forall y, In y (flat_map arg_ids args) -> ~ X y).
    { intros y Hy. apply Hi. cbn [flat_map]. apply in_or_app. right. exact Hy. }
    assert (Hhd : forall y, In y (arg_ids a) -> ~ X y).
    { intros y Hy. apply Hi. cbn [flat_map]. apply in_or_app. left. exact Hy. }
    destruct a as [t| |p].
    + rewrite wild_args_other by discriminate. cbn [fst].
      change (wkeys_args (AT t :: args)) with (wkeys_args args) in *.
      assert (Et : seval_term I e t = seval_term I e' t).
      { apply seval_term_ext. intros x Hx. apply Ha. apply Hhd. exact Hx. }
      destruct t as [x|c|f xs]; cbn [smatch_args].
      * cbn [seval_term] in Et. rewrite <- Et. destruct (e x) eqn:Ex.
        -- destruct (Z.eqb z v); [|exact Logic.I]. apply IH; try assumption. split; assumption.
        -- apply IH; try assumption. split; [apply agree_bind; exact Ha|].
           intros y Hy. rewrite sbind_neq; [apply Ht; exact Hy|]. intro E. subst y. apply (Hhd x); [left; reflexivity | apply HX; exact Hy].
      * rewrite <- Et. destruct (seval_term I e (SConst c)); [|exact Logic.I]. destruct (Z.eqb z v); [|exact Logic.I].
        apply IH; try assumption. split; assumption.
      * rewrite <- Et. destruct (seval_term I e (SFun f xs)); [|exact Logic.I]. destruct (Z.eqb z v); [|exact Logic.I].
        apply IH; try assumption. split; assumption.
    + rewrite wild_args_wild. cbn [fst].
      change (wkeys_args (AWildS :: args)) with (wild_key :: wkeys_args args) in *. cbn [gen_trace app] in *.
      set (v0 := fst (gensym_next tr_default g wild_key)) in *. set (g1 := snd (gensym_next tr_default g wild_key)) in *.
      cbn [smatch_args]. rewrite (Ht v0 (or_introl eq_refl)).
      inversion Hnd as [|? ? Hnotin Hnd']; subst.
      apply IH; try assumption.
      * intros y Hy. apply HX. right. exact Hy.
      * split; [apply agree_bind_r; [apply HX; left; reflexivity | exact Ha]|].
        intros y Hy. rewrite sbind_neq; [apply Ht; right; exact Hy|]. intro E. subst y. contradiction.
    + rewrite wild_args_other by discriminate. cbn [fst].
      change (wkeys_args (APat p :: args)) with (wkeys_args args) in *. cbn [smatch_args].
      pose proof (pat_match_agree I X p v e e' Ha) as Hp.
      destruct (pat_match I p v e) as [e0|], (pat_match I p v e') as [e0'|] eqn:Ep'; cbn in Hp; try contradiction; [|exact Logic.I].
      apply IH; try assumption. split; [exact Hp|].
      intros y Hy. rewrite (pat_match_frame I p v e' e0' Ep' y); [apply Ht; exact Hy|].
      intro Hin. apply (Hhd y); [exact Hin | apply HX; exact Hy].
Qed.

Lemma wild_items_sim : forall items g e e',
  Forall no_disj items -> (forall y, In y (items_ids items) -> ~ X y) ->
  NoDup (gen_trace g (wkeys items)) -> (forall y, In y (gen_trace g (wkeys items)) -> X y) ->
  srel X (gen_trace g (wkeys items)) e e' ->
  sim2 (srel X []) (all_envs_s I db items e) (all_envs_s I db (wild_items g items) e').
Proof.
  induction items as [|it items IH]; intros g e e' Hnd Hi Hdup HX Hr.
  - cbn. apply sim2_single. exact Hr.
  - inversion Hnd as [|? ? Hit Hrest]; subst.
    assert (Hi1 : forall y, In y (item_ids it) -> ~ X y).
    { intros y Hy. apply Hi. unfold items_ids. cbn [flat_map]. apply in_or_app. left. exact Hy. }
    assert (Hi2 : forall y, In y (items_ids items) -> ~ X y).
    { intros y Hy. apply Hi. unfold items_ids. cbn [flat_map]. apply in_or_app. right. exact Hy. }
    destruct it as [r args cs|c|x gg xs|out a bound r args|r args|ds]; try (destruct Hit; fail).
    + rewrite wild_items_clause. cbn [all_envs_s].
      change (wkeys (IClause r args cs :: items)) with (wkeys_args args ++ wkeys items) in *.
      rewrite gen_trace_app in *. rewrite <- wild_args_state in *.
      set (T := gen_trace (snd (wild_args g args)) (wkeys items)) in *.
      apply (sim2_flat_map (srel X T)).
      * apply sim2_clause. intro tup. unfold clause_env.
        pose proof (wild_args_sim args g tup e e' T (fun y Hy => Hi1 y (in_or_app _ _ _ (or_introl Hy))) Hdup HX Hr) as Hm.
        destruct (smatch_args I e args tup) as [e0|], (smatch_args I e' (fst (wild_args g args)) tup) as [e0'|]; cbn in Hm; try contradiction; [|exact Logic.I].
        apply ssat_conds_rel; [intros y Hy; apply HX; apply in_or_app; right; exact Hy | | exact Hm].
        intros y Hy. apply Hi1. cbn [item_ids]. apply in_or_app. right. exact Hy.
      * intros a b Hab. apply IH; try assumption.
        -- exact (nodup_app_r _ _ _ Hdup).
        -- intros y Hy. apply HX. apply in_or_app. right. exact Hy.
    + cbn [wild_items all_envs_s]. change (wkeys (ICond c :: items)) with (wkeys items) in *.
      apply (sim2_flat_map (srel X (gen_trace g (wkeys items)))); [apply item_envs_rel; assumption|].
      intros a b Hab. apply IH; assumption.
    + cbn [wild_items all_envs_s]. change (wkeys (IGen x gg xs :: items)) with (wkeys items) in *.
      apply (sim2_flat_map (srel X (gen_trace g (wkeys items)))); [apply item_envs_rel; assumption|].
      intros a b Hab. apply IH; assumption.
    + cbn [wild_items all_envs_s]. change (wkeys (IAgg out a bound r args :: items)) with (wkeys items) in *.
      apply (sim2_flat_map (srel X (gen_trace g (wkeys items)))); [apply item_envs_rel; assumption|].
      intros a0 b Hab. apply IH; assumption.
    + cbn [wild_items all_envs_s]. change (wkeys (INeg r args :: items)) with (wkeys items) in *.
      apply (sim2_flat_map (srel X (gen_trace g (wkeys items)))); [apply item_envs_rel; assumption|].
      intros a b Hab. apply IH; assumption.
Qed.
End Wild.
