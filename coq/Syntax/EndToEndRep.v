(* END-TO-END (B10) — pass 5 (repeated variables / same-clause expressions, Desugar.rep_items) establishes the strict
   discipline: afterwards a new variable occurs once among the arguments of its clause and expression arguments mention
   variables of earlier items only.  The pass decides with its own bookkeeping ([G] = grounded by earlier items, [here] =
   grounded by this clause); the proof relates it to the bound sets: G is bound, newly bound variables are in [here]. *)
From Coq Require Import List ZArith Bool Arith Ascii Lia.
From AV Require Import Engine.Core.
From AV Require Import Engine.Eval.
From AV Require Import Engine.Validate.
From AV Require Import Syntax.Surface.
From AV Require Import Syntax.Desugar.
From AV Require Import Syntax.ToCore.
From AV Require Import Syntax.SimBase.
From AV Require Import Syntax.SimRel.
From AV Require Import Syntax.Names.
From AV Require Import Syntax.RepProof.
From AV Require Import Syntax.PassLemmas.
From AV Require Import Syntax.EndToEndDefs.
From AV Require Import Syntax.EndToEndPasses.
Import ListNotations.
Close Scope Z_scope.
Open Scope nat_scope.

Lemma here_upd_incl : forall G here t, incl here (here_upd G here t).
Proof. intros G here [x|k|f xs]; cbn [here_upd]; try apply incl_refl. destruct (imem x G); [apply incl_refl | apply incl_tl, incl_refl]. Qed.
Lemma here_upd_in : forall G here t y, In y (here_upd G here t) -> In y here \/ (t = SVar y /\ imem y G = false).
Proof.
  intros G here [x|k|f xs] y H; cbn [here_upd] in H; try (left; exact H). destruct (imem x G) eqn:E; [left; exact H|].
  destruct H as [<-|H]; [right; split; [reflexivity | exact E] | left; exact H].
Qed.
Lemma rep_args_length : forall args G here cs, Forall is_AT args -> length (ra (rep_args G here cs args)) = length args.
Proof.
  induction args as [|a args IH]; intros G here cs HF; [reflexivity|]. inversion HF as [|? ? Ha HF']; subst.
  destruct a as [t| |p]; try destruct Ha. destruct (replaced here t) eqn:E.
  - rewrite rep_args_repl by exact E. cbn [ra fst length]. f_equal. apply IH. exact HF'.
  - rewrite rep_args_keep by exact E. cbn [ra fst length]. f_equal. apply IH. exact HF'.
Qed.

Section PassRep.
Variable X : ident -> Prop.
Variable ar : list (rel * nat).

Lemma rep_args_strict : forall args G here cs B B' newv snewv nv,
  Forall is_AT args ->
  (forall y, In y (flat_map arg_ids args) -> ~ X y) ->
  NoDup (gen_trace cs (fst (rkeys_args G here args))) ->
  (forall v, In v (gen_trace cs (fst (rkeys_args G here args))) -> X v /\ ~ In v B' /\ ~ In v snewv) ->
  eqv X B B' ->
  (forall x, In x G -> In x B') ->
  eqv X (newv ++ B) (snewv ++ B') ->
  (forall x, In x newv -> In x here) ->
  (forall x, In x here -> In x (snewv ++ B')) ->
  (forall x, In x snewv -> In x here \/ X x) ->
  bargs B newv args = Some nv ->
  exists snv, sargs B' snewv (ra (rep_args G here cs args)) = Some snv
    /\ eqv X (nv ++ B) (snv ++ B')
    /\ (forall x, In x (rh (rep_args G here cs args)) -> In x (snv ++ B'))
    /\ (forall y, In y snv -> In y snewv \/ ~ X y \/ In y (gen_trace cs (fst (rkeys_args G here args))))
    /\ Forall (fun c => bcond (snv ++ B') c = Some (snv ++ B')) (rc (rep_args G here cs args)).
Proof.
  induction args as [|a args IH]; intros G here cs B B' newv snewv nv HF Hi Hnd HT He HG I1 I2 I3 I4 Hb.
  - cbn in *. inversion Hb; subst. exists snewv. split; [reflexivity|]. split; [exact I1|]. split; [exact I3|]. split; [intros y Hy; left; exact Hy | constructor].
  - inversion HF as [|? ? Ha HF']; subst. destruct a as [t| |p]; try destruct Ha.
    assert (Hi2 : forall y, In y (flat_map arg_ids args) -> ~ X y) by (intros y Hy; apply Hi; cbn [flat_map]; apply in_or_app; right; exact Hy).
    assert (Hit : forall y, In y (expr_vars t) -> ~ X y) by (intros y Hy; apply Hi; cbn [flat_map arg_ids]; apply in_or_app; left; exact Hy).
    cbn [rkeys_args] in *. destruct (replaced here t) eqn:E.
    + (* replaced by a fresh variable *)
      rewrite rep_args_repl by exact E. cbn [ra rc rh fst snd]. cbn [fst snd gen_trace] in *.
      set (v0 := fst (gensym_next tr_default cs (expr_prefix t))) in *. set (cs1 := snd (gensym_next tr_default cs (expr_prefix t))) in *.
      destruct (HT v0 (or_introl eq_refl)) as [HX0 [HB0 HS0]]. inversion Hnd as [|? ? Hnotin Hnd']; subst.
      assert (Hvars : forall x, In x (expr_vars t) -> In x (snewv ++ B')).
      { destruct t as [x|k|f xs]; cbn [expr_vars] in *.
        - intros y [<-|[]]. unfold replaced in E. cbn [expr_vars existsb] in E. rewrite orb_false_r in E. apply I3. apply imem_In. exact E.
        - intros y [].
        - cbn [bargs] in Hb. destruct (isub xs (newv ++ B)) eqn:Es; [|discriminate]. intros y Hy.
          apply (eqv_in X _ _ y I1 (Hit y Hy)). exact (proj1 (isub_In xs _) Es y Hy). }
      assert (Hb' : bargs B newv args = Some nv).
      { destruct t as [x|k|f xs]; cbn [bargs] in Hb.
        - assert (Hx : In x (newv ++ B)). { apply (eqv_in X _ _ x (fun y Hy => iff_sym (I1 y Hy))); [apply Hit; left; reflexivity | apply Hvars; left; reflexivity]. }
          assert (Em : imem x B || imem x newv = true).
          { apply in_app_or in Hx as [Hx|Hx]; apply imem_In in Hx; rewrite Hx; [apply orb_true_r | reflexivity]. }
          rewrite Em in Hb. exact Hb.
        - exact Hb.
        - destruct (isub xs (newv ++ B)); [exact Hb | discriminate]. }
      destruct (IH G here cs1 B B' newv (v0 :: snewv) nv HF' Hi2 Hnd') as [snv [K1 [K2 [K3 [K4 K5]]]]]; try assumption.
      * intros v Hv. destruct (HT v (or_intror Hv)) as [H1 [H2 H3]]. split; [exact H1|]. split; [exact H2|]. intros [<-|H4]; [contradiction | contradiction].
      * cbn [app]. apply eqv_cons_r; assumption.
      * intros x Hx. cbn [app]. right. apply I3. exact Hx.
      * intros x [<-|Hx]; [right; exact HX0 | apply I4; exact Hx].
      * exists snv. cbn [sargs]. assert (E1 : imem v0 B' = false) by (apply imem_false; exact HB0). assert (E2 : imem v0 snewv = false) by (apply imem_false; exact HS0).
        rewrite E1, E2. split; [exact K1|]. split; [exact K2|]. split; [exact K3|]. split.
        -- intros y Hy. destruct (K4 y Hy) as [[<-|H]|[H|H]]; [right; right; left; reflexivity | left; exact H | right; left; exact H | right; right; right; exact H].
        -- constructor; [|exact K5]. pose proof (sargs_mono _ _ _ _ K1) as Hm. cbn [bcond].
           assert (M1 : imem v0 (snv ++ B') = true) by (apply imem_In; apply in_or_app; left; apply Hm; left; reflexivity).
           assert (M2 : isub (expr_vars t) (snv ++ B') = true).
           { apply isub_In. intros x Hx. specialize (Hvars x Hx). apply in_app_or in Hvars as [H|H]; apply in_or_app; [left; apply Hm; right; exact H | right; exact H]. }
           rewrite M1, M2. reflexivity.
    + (* kept *)
      rewrite rep_args_keep by exact E. cbn [ra rc rh fst snd].
      assert (Hnh : forall x, In x (expr_vars t) -> ~ In x here).
      { intros x Hx Hin. unfold replaced in E. assert (existsb (fun x => imem x here) (expr_vars t) = true); [|congruence].
        apply existsb_exists. exists x. split; [exact Hx | apply imem_In; exact Hin]. }
      assert (I2' : forall x, In x newv -> In x (here_upd G here t)) by (intros x Hx; apply here_upd_incl; apply I2; exact Hx).
      destruct t as [x|k|f xs].
      * assert (Hx : ~ X x) by (apply Hit; left; reflexivity). assert (Hxh : ~ In x here) by (apply Hnh; left; reflexivity).
        assert (Hxn : imem x newv = false) by (apply imem_false; intro H; apply Hxh; apply I2; exact H).
        cbn [bargs] in Hb. cbn [sargs]. rewrite Hxn, orb_false_r, (eqv_imem X B B' x He Hx) in Hb. destruct (imem x B') eqn:EB.
        -- apply (IH G (here_upd G here (SVar x)) cs B B' newv snewv nv HF' Hi2 Hnd HT He HG I1 I2'); [| |exact Hb].
           ++ intros y Hy. apply here_upd_in in Hy as [Hy|[Hy _]]; [apply I3; exact Hy|]. inversion Hy; subst. apply in_or_app. right. apply imem_In. exact EB.
           ++ intros y Hy. destruct (I4 y Hy) as [H|H]; [left; apply here_upd_incl; exact H | right; exact H].
        -- assert (HxG : imem x G = false). { apply imem_false. intro H. apply HG in H. apply imem_In in H. congruence. }
           assert (Hxs : imem x snewv = false). { apply imem_false. intro H. destruct (I4 x H) as [H'|H']; contradiction. }
           rewrite Hxs. cbn [here_upd] in *. rewrite HxG in *.
           destruct (IH G (x :: here) cs B B' (x :: newv) (x :: snewv) nv HF' Hi2 Hnd) as [snv [K1 [K2 [K3 [K4 K5]]]]]; try assumption.
           ++ intros v Hv. destruct (HT v Hv) as [H1 [H2 H3]]. split; [exact H1|]. split; [exact H2|]. intros [<-|H4]; contradiction.
           ++ cbn [app]. apply eqv_cons. exact I1.
           ++ intros y [<-|Hy]; [left; reflexivity | right; apply I2; exact Hy].
           ++ intros y [<-|Hy]; [left; reflexivity | cbn [app]; right; apply I3; exact Hy].
           ++ intros y [<-|Hy]; [left; left; reflexivity|]. destruct (I4 y Hy) as [H|H]; [left; right; exact H | right; exact H].
           ++ exists snv. split; [exact K1|]. split; [exact K2|]. split; [exact K3|]. split; [|exact K5].
              intros y Hy. destruct (K4 y Hy) as [[<-|H]|H]; [right; left; exact Hx | left; exact H | right; exact H].
      * cbn [bargs sargs expr_vars isub forallb here_upd] in *.
        exact (IH G here cs B B' newv snewv nv HF' Hi2 Hnd HT He HG I1 I2 I3 I4 Hb).
      * cbn [bargs sargs expr_vars here_upd] in *. destruct (isub xs (newv ++ B)) eqn:Es; [|discriminate].
        assert (Es' : isub xs B' = true).
        { apply isub_In. intros y Hy. pose proof (proj1 (isub_In xs _) Es y Hy) as Hin. apply in_app_or in Hin as [Hin|Hin].
          - exfalso. exact (Hnh y Hy (I2 y Hin)).
          - exact (eqv_in X B B' y He (Hit y Hy) Hin). }
        rewrite Es'. exact (IH G here cs B B' newv snewv nv HF' Hi2 Hnd HT He HG I1 I2 I3 I4 Hb).
Qed.

Lemma rep_items_strict : forall items G cs B B' B1,
  Forall no_disj items -> Forall clause_AT items ->
  (forall y, In y (items_ids items) -> ~ X y) ->
  NoDup (gen_trace cs (rkeys G items)) -> (forall v, In v (gen_trace cs (rkeys G items)) -> X v /\ ~ In v B') ->
  eqv X B B' -> (forall x, In x G -> In x B') ->
  bbody ar B items = Some B1 ->
  exists B1', strict_body ar B' (fst (rep_items G cs items)) = Some B1' /\ eqv X B1 B1'.
Proof.
  induction items as [|it items IH]; intros G cs B B' B1 Hnd Hat Hi Hdup HT He HG Hb.
  - cbn in *. inversion Hb; subst. exists B'. auto.
  - inversion Hnd as [|? ? Hit Hrest]; subst. inversion Hat as [|? ? Hat1 Hat2]; subst.
    assert (Hi1 : forall y, In y (item_ids it) -> ~ X y) by (intros y Hy; apply Hi; unfold items_ids; cbn [flat_map]; apply in_or_app; left; exact Hy).
    assert (Hi2 : forall y, In y (items_ids items) -> ~ X y) by (intros y Hy; apply Hi; unfold items_ids; cbn [flat_map]; apply in_or_app; right; exact Hy).
    cbn [bbody] in Hb. destruct (bitem ar B it) as [B0|] eqn:E0; [|discriminate].
    assert (Hother : forall it0, it0 = it -> (forall r args conds, it0 <> IClause r args conds) -> rkeys G (it0 :: items) = rkeys (item_grounds it0 ++ G) items ->
              exists B1', strict_body ar B' (fst (rep_items G cs (it0 :: items))) = Some B1' /\ eqv X B1 B1').
    { intros it0 -> Hnc Hrk. rewrite Hrk in Hdup, HT. rewrite rep_items_other by exact Hnc. cbn [fst strict_body].
      assert (E0' : bother ar B it = Some B0). { destruct it; try exact E0. exfalso. eapply Hnc. reflexivity. }
      assert (Es : strict_item ar B' it = bother ar B' it). { destruct it; try reflexivity. exfalso. eapply Hnc. reflexivity. }
      destruct (bother_eqv X ar it B B' B0 E0' He Hi1) as [B0' [M1 M2]]. rewrite Es, M1.
      destruct (bother_mono ar it B' B0' M1) as [N1 N2].
      apply (IH (item_grounds it ++ G) cs B0 B0' B1 Hrest Hat2 Hi2 Hdup); [| exact M2 | | exact Hb].
      - intros v Hv. destruct (HT v Hv) as [H1 H2]. split; [exact H1|]. intro Hin. destruct (bother_in ar it B' B0' M1 v Hin) as [K|K]; [contradiction | exact (Hi1 v K H1)].
      - intros x Hx. apply in_app_or in Hx as [Hx|Hx]; [apply N2; exact Hx | apply N1; apply HG; exact Hx]. }
    destruct it as [r args conds|c|x gg xs|out a bound r args|r args|ds]; try (destruct Hit; fail);
      try (apply (Hother _ eq_refl); [discriminate | reflexivity]).
    rewrite rep_items_clause. cbn [fst strict_body strict_item]. cbn [rkeys] in Hdup, HT. rewrite gen_trace_app in Hdup, HT.
    destruct (rep_args_state args G [] cs Hat1) as [Es Eh]. rewrite <- Es, <- Eh in Hdup, HT.
    set (R := rep_args G [] cs args) in *. cbn [bitem] in E0. unfold bclause in E0. unfold sclause. cbn [clause_AT] in Hat1.
    unfold R at 1. rewrite (rep_args_length args G [] cs Hat1). fold R.
    destruct (arity_ok ar r (length args)); [|discriminate]. destruct (bargs B [] args) as [nv|] eqn:En; [|discriminate].
    rewrite (bpats_no_pat _ _ (is_AT_no_pat args Hat1)) in E0. cbn [item_ids] in Hi1.
    assert (Hia : forall y, In y (flat_map arg_ids args) -> ~ X y) by (intros y Hy; apply Hi1; apply in_or_app; left; exact Hy).
    assert (Hic : forall y, In y (flat_map cond_ids conds) -> ~ X y) by (intros y Hy; apply Hi1; apply in_or_app; right; exact Hy).
    destruct (rep_args_strict args G [] cs B B' [] [] nv Hat1 Hia (nodup_app_l _ _ _ Hdup)) as [snv [K1 [K2 [K3 [K4 K5]]]]]; try assumption.
    + intros v Hv. destruct (HT v (in_or_app _ _ _ (or_introl Hv))) as [H1 H2]. split; [exact H1|]. split; [exact H2 | intros []].
    + intros x [].
    + intros x [].
    + intros x [].
    + fold R in K1, K3, K5. rewrite K1. rewrite bconds_app, (bconds_skip _ _ K5).
      destruct (bconds_eqv X conds (nv ++ B) (snv ++ B') B0 E0 K2 Hic) as [B0' [M1 M2]]. rewrite M1.
      destruct (bconds_mono conds (snv ++ B') B0' M1) as [N1 N2].
      apply (IH (flat_map cond_grounds conds ++ rh R ++ G) (rs R) B0 B0' B1 Hrest Hat2 Hi2 (nodup_app_r _ _ _ Hdup)); [| exact M2 | | exact Hb].
      * intros v Hv. destruct (HT v (in_or_app _ _ _ (or_intror Hv))) as [H1 H2]. split; [exact H1|]. intro Hin.
        destruct (bconds_in conds (snv ++ B') B0' M1 v Hin) as [K|K]; [|exact (Hic v K H1)].
        apply in_app_or in K as [K|K]; [|contradiction]. destruct (K4 v K) as [[]|[H|H]]; [contradiction|].
        exact (nodup_app_disj _ _ _ v Hdup H Hv).
      * intros x Hx. apply in_app_or in Hx as [Hx|Hx]; [apply N2; exact Hx|]. apply N1. apply in_app_or in Hx as [Hx|Hx]; [apply K3; exact Hx|].
        apply in_or_app. right. apply HG. exact Hx.
Qed.
End PassRep.
