(* END-TO-END (B10) — statements PROPOSED for coq/Props/C07.v (names c07_..) and coq/Props/C01.v (names c01_..), compiled here.
   Property-file style: `Theorem .. Proof. exact lemma. Qed.` + vm_compute Examples + Print Assumptions.
   Proofs: Syntax/EndToEnd{Defs,Passes,Rep,Core,Wf,NoAgg}.v, Syntax/EndToEnd.v, Syntax/EndToEndSugared.v. *)
From Coq Require Import List ZArith Bool Arith Ascii String.
From AV Require Import Engine.Core.
From AV Require Import Engine.Sem.
From AV Require Import Engine.Eval.
From AV Require Import Engine.Naive.
From AV Require Import Engine.InterfaceAgg.
From AV Require Import Engine.MainAgg.
From AV Require Import Engine.Vocab.
From AV Require Import Plan.PlanModel.
From AV Require Import Plan.PlanWf.
From AV Require Import Syntax.Surface.
From AV Require Import Syntax.Desugar.
From AV Require Import Syntax.ToCore.
From AV Require Import Syntax.C07Main.
From AV Require Import Syntax.C07Example.
From AV Require Import Syntax.EndToEndDefs.
From AV Require Import Syntax.EndToEndWf.
From AV Require Import Syntax.EndToEndNoAgg.
From AV Require Import Syntax.EndToEnd.
From AV Require Import Syntax.EndToEndSugared.
Import ListNotations.

(* ================= proposed for Props/C07.v ================= *)
(* THE DESUGARER'S OUTPUT IS A WELL-FORMED CORE PROGRAM, for every state of the process-wide name counters: relations used
   with their arity, variables bound before use, a binder never rebinds, a new variable occurs once among the arguments of
   its clause, heads bound (Plan/PlanWf.v wf_core = the hypothesis of the planner theorem PlanProofs.compile_model_valid).
   Surface hypotheses (boolean): names outside the generated name space of their rule (ToCore.names_ok, a conjunct of
   wf_surface) and the binding discipline EndToEndDefs.wf_binding (arities; bound before use; `let` / `if let` / `for` /
   aggregate results / ?pattern variables NEW) on every conjunction of the disjunction product. *)
Theorem c07_desugar_output_wf_core : forall arities P cs Pc,
  forallb names_ok P = true -> wf_binding arities P = true ->
  core_of_prog (desugar_prog cs P) = Some Pc -> wf_core arities Pc = true.
Proof. exact desugar_output_wf_core. Qed.
(* no aggregation / negation in the source (through disjunctions) -> none in the core program *)
Theorem c07_desugar_output_no_agg : forall P cs Pc,
  no_agg_surface P = true -> core_of_prog (desugar_prog cs P) = Some Pc -> no_agg Pc = true.
Proof. exact desugar_output_no_agg. Qed.
(* non-vacuity: C07's example with every surface form satisfies the discipline and its desugaring is wf_core by computation *)
Example c07_example_wf_binding : wf_binding ex_arities ex_prog = true.
Proof. exact ex_wf_binding. Qed.
Example c07_example_output_wf_core : exists Pc, core_of_prog (desugar_prog [] ex_prog) = Some Pc /\ wf_core ex_arities Pc = true.
Proof. exact ex_output_wf_core. Qed.
(* wf_surface alone does not give wf_core:  res(x, y) <-- foo(x, y), let y = f(x)  rebinds y *)
Example c07_wf_surface_not_enough :
  wf_surface shadow_prog = true /\ wf_binding ex_arities shadow_prog = false
  /\ exists Pc, core_of_prog (desugar_prog [] shadow_prog) = Some Pc /\ wf_core ex_arities Pc = false.
Proof. exact wf_surface_not_enough. Qed.

(* ================= proposed for Props/C01.v ================= *)
(* END TO END, relations only.  For every surface program without aggregation / negation meeting the two boolean
   well-formedness predicates, every interpretation in which `==` is equality, not() negation and `let` evaluates its
   expression, every state of the name counters: the front end's output translates to a core program Pc that is
   well formed, and for EVERY SCC partition accepted by sccs_ok, every input of the declared arities, every join-order
   oracle and fuel: if the run of the plan COMPUTED by the planner model terminates within the fuel, its rows are the least
   model of the SURFACE program under its direct denotation, and they extend the input without duplicates. *)
Theorem c01_end_to_end_least_model : forall (I : interp) swap arities P cs,
  wf_surface P = true -> wf_binding arities P = true -> no_agg_surface P = true -> interp_ok I (prog_fsyms P) ->
  exists Pc, core_of_prog (desugar_prog cs P) = Some Pc /\ wf_core arities Pc = true /\ no_agg Pc = true
    /\ forall sccs fuel F0 st,
         arities_functional arities -> wf_facts arities F0 = true -> sccs_ok Pc sccs = true ->
         run_plan I swap fuel (compile_model arities Pc sccs) (init_state F0) = Some st ->
         sleast_model I P F0 (rows st)
         /\ exists added, rows st = F0 ++ added /\ NoDup added /\ (forall f, In f added -> ~ In f F0).
Proof. exact end_to_end_least_model. Qed.
(* the same, written with the function to_core = core translation of the desugared program *)
Theorem c01_end_to_end_least_model_fn : forall (I : interp) swap arities P cs sccs fuel F0 st,
  wf_surface P = true -> wf_binding arities P = true -> no_agg_surface P = true -> interp_ok I (prog_fsyms P) ->
  arities_functional arities -> wf_facts arities F0 = true -> sccs_ok (to_core cs P) sccs = true ->
  run_plan I swap fuel (compile_model arities (to_core cs P) sccs) (init_state F0) = Some st ->
  sleast_model I P F0 (rows st)
  /\ exists added, rows st = F0 ++ added /\ NoDup added /\ (forall f, In f added -> ~ In f F0).
Proof. exact end_to_end_least_model_fn. Qed.
(* hence the result does not depend on the counter state, the SCC partition, the join-order oracle or the fuel *)
Theorem c01_end_to_end_deterministic : forall (I : interp) swap swap' arities P cs cs' sccs sccs' fuel fuel' F0 st st',
  wf_surface P = true -> wf_binding arities P = true -> no_agg_surface P = true -> interp_ok I (prog_fsyms P) ->
  arities_functional arities -> wf_facts arities F0 = true ->
  sccs_ok (to_core cs P) sccs = true -> sccs_ok (to_core cs' P) sccs' = true ->
  run_plan I swap fuel (compile_model arities (to_core cs P) sccs) (init_state F0) = Some st ->
  run_plan I swap' fuel' (compile_model arities (to_core cs' P) sccs') (init_state F0) = Some st' ->
  forall f, In f (rows st) <-> In f (rows st').
Proof. exact end_to_end_deterministic. Qed.

(* END TO END with aggregation / negation, EVERY sccs_ok partition.  An arbitrary partition may put two rules of the disjunction
   product of one sugared rule into different SCCs, so the strata are groups of DESUGARED rules: the rows are the stratified
   model (aggregated relations of a stratum held fixed) of the strata the partition induces on desugar_prog cs P read with the
   DIRECT surface denotation, and the desugared program derives from every fact set exactly what P derives. *)
Theorem c01_end_to_end_strat_model_desugared : forall (I : interp) swap arities P cs,
  wf_surface P = true -> wf_binding arities P = true -> interp_ok I (prog_fsyms P) ->
  exists Pc, core_of_prog (desugar_prog cs P) = Some Pc /\ wf_core arities Pc = true
    /\ (forall F f, sderives I P F f <-> sderives I (desugar_prog cs P) F f)
    /\ forall sccs fuel F0 st,
         arities_functional arities -> wf_facts arities F0 = true -> NoDup F0 -> agg_perm_invariant I -> sccs_ok Pc sccs = true ->
         run_plan I swap fuel (compile_model arities Pc sccs) (init_state F0) = Some st ->
         sstrat_model_fixed I (surface_strata (desugar_prog cs P) sccs) F0 (rows st)
         /\ NoDup (rows st) /\ exists added, rows st = F0 ++ added.
Proof. exact end_to_end_strat_model. Qed.

(* END TO END with aggregation / negation, strata of P's OWN sugared rules: for every ordered grouping [groups] of the rule
   numbers of P, the partition whose SCCs are the rule numbers (in the desugared program) of the disjunction products of each
   group's rules: if it is sccs_ok and the run terminates, the rows are the stratified model of the groups of SUGARED rules under
   the direct denotation, the relations a group aggregates or negates held fixed in its stratum. *)
Theorem c01_end_to_end_strat_model_sugared :
  forall (I : interp) swap arities P cs (groups : list (list nat)) fuel F0 st,
    wf_surface P = true -> wf_binding arities P = true -> interp_ok I (prog_fsyms P) ->
    arities_functional arities -> wf_facts arities F0 = true -> NoDup F0 -> agg_perm_invariant I ->
    let sccs := map (fun g => flat_map (fun k => nth k (block_numbers cs P 0) []) g) groups in
    sccs_ok (to_core cs P) sccs = true ->
    run_plan I swap fuel (compile_model arities (to_core cs P) sccs) (init_state F0) = Some st ->
    sstrat_model_sugared I (map (fun g => filter_map (fun k => nth_error P k) g) groups) F0 (rows st).
Proof. exact end_to_end_strat_model_sugared. Qed.

(* ================= an instance, by computation =================
   edge = 0 (arity 2), path = 1 (2), node = 2 (1), loop = 3 (1)
     path(x, y) <-- (edge(x, y) | edge(y, x));          disjunction
     path(x, z) <-- edge(x, y), path(y, z);             transitive closure
     node(x)    <-- edge(x, _);                         wildcard
     loop(x)    <-- path(x, x);                         repeated variable                                        *)
Open Scope Z_scope.
Definition va (s : string) : sarg := AT (SVar (i s)).
Definition tv (s : string) : sterm := SVar (i s).
Definition tc_prog : list srule :=
  [ {| sheads := [(1%nat, [tv "x"; tv "y"])]; sbody := [IDisj [[IClause 0%nat [va "x"; va "y"] []]; [IClause 0%nat [va "y"; va "x"] []]]] |};
    {| sheads := [(1%nat, [tv "x"; tv "z"])]; sbody := [IClause 0%nat [va "x"; va "y"] []; IClause 1%nat [va "y"; va "z"] []] |};
    {| sheads := [(2%nat, [tv "x"])]; sbody := [IClause 0%nat [va "x"; AWildS] []] |};
    {| sheads := [(3%nat, [tv "x"])]; sbody := [IClause 1%nat [va "x"; va "x"] []] |} ].
Definition tc_arities : list (rel * nat) := [(0, 2); (1, 2); (2, 1); (3, 1)]%nat.
(* 5 desugared rules: the two disjuncts and the recursive rule form the SCC of path *)
Definition tc_sccs : list (list nat) := [[0; 1; 2]; [3]; [4]]%nat.
Definition tc_input : list fact := [(0%nat, [1; 2]); (0%nat, [2; 3]); (0%nat, [4; 4])].
Definition tc_rows : list fact :=
  [(0%nat, [1; 2]); (0%nat, [2; 3]); (0%nat, [4; 4]); (1%nat, [1; 2]); (1%nat, [2; 3]); (1%nat, [4; 4]);
   (1%nat, [2; 1]); (1%nat, [3; 2]); (1%nat, [1; 3]); (1%nat, [1; 1]); (1%nat, [2; 2]); (2%nat, [1]);
   (2%nat, [2]); (2%nat, [4]); (3%nat, [4]); (3%nat, [1]); (3%nat, [2])].
Definition same_set (a b : list fact) : bool := forallb (fun f => mem_fact f b) a && forallb (fun f => mem_fact f a) b.

(* the hypotheses hold by computation; the pipeline desugar -> to_core -> compile_model -> run_plan yields tc_rows; the naive
   fix-point of the SURFACE program under its direct denotation has the same facts *)
Example e2e_example_hypotheses :
  wf_surface tc_prog = true /\ wf_binding tc_arities tc_prog = true /\ no_agg_surface tc_prog = true
  /\ List.length (to_core [] tc_prog) = 5%nat /\ sccs_ok (to_core [] tc_prog) tc_sccs = true /\ wf_facts tc_arities tc_input = true.
Proof. repeat split; vm_compute; reflexivity. Qed.
Example e2e_example_runs :
  option_map rows (run_plan std_interp std_swap 50 (compile_model tc_arities (to_core [] tc_prog) tc_sccs) (init_state tc_input)) = Some tc_rows
  /\ exists M, snaive_fix std_interp 50 tc_prog tc_input = Some M /\ same_set M tc_rows = true.
Proof. split; [vm_compute; reflexivity|]. eexists. split; vm_compute; reflexivity. Qed.
Lemma std_interp_ok_nil : interp_ok std_interp [].
Proof. split; [intros a b; reflexivity|]. split; [intros [|t ts]; reflexivity | intros f vs []]. Qed.
Lemma arities_functional_dec : forall ar,
  forallb (fun p => forallb (fun q => negb (Nat.eqb (fst p) (fst q)) || Nat.eqb (snd p) (snd q)) ar) ar = true -> arities_functional ar.
Proof.
  intros ar H r n m Hn Hm. rewrite forallb_forall in H. specialize (H _ Hn). rewrite forallb_forall in H. specialize (H _ Hm). cbn [fst snd] in H.
  rewrite Nat.eqb_refl in H. cbn [negb orb] in H. apply Nat.eqb_eq. exact H.
Qed.
Lemma tc_arities_functional : arities_functional tc_arities.
Proof. apply arities_functional_dec. vm_compute. reflexivity. Qed.
(* and by the theorem, tc_rows is the least model of the sugared program over the input *)
Example e2e_example_least_model : sleast_model std_interp tc_prog tc_input tc_rows.
Proof.
  destruct (run_plan std_interp std_swap 50 (compile_model tc_arities (to_core [] tc_prog) tc_sccs) (init_state tc_input)) as [st|] eqn:E.
  - assert (Hr : rows st = tc_rows). { pose proof (proj1 e2e_example_runs) as H. rewrite E in H. cbn [option_map] in H. inversion H. reflexivity. }
    rewrite <- Hr. destruct e2e_example_hypotheses as [H1 [H2 [H3 [_ [H5 H6]]]]].
    exact (proj1 (end_to_end_least_model_fn std_interp std_swap tc_arities tc_prog [] tc_sccs 50 tc_input st H1 H2 H3 std_interp_ok_nil
                    tc_arities_functional H6 H5 E)).
  - pose proof (proj1 e2e_example_runs) as H. rewrite E in H. discriminate H.
Qed.

(* with negation, strata of the SUGARED rules:   unreach(x) <-- node(x), !path(1, x);   unreach = 4 (arity 1) *)
Definition neg_rule : srule :=
  {| sheads := [(4%nat, [tv "x"])]; sbody := [IClause 2%nat [va "x"] []; INeg 1%nat [NKey (SConst 1); NKey (SVar (i "x"))]] |}.
Definition neg_prog : list srule := tc_prog ++ [neg_rule].
Definition neg_arities : list (rel * nat) := tc_arities ++ [(4, 1)]%nat.
Definition neg_groups : list (list nat) := [[0; 1]; [2]; [3]; [4]]%nat.                 (* groups of SUGARED rules *)
Definition neg_sccs : list (list nat) := map (fun g => flat_map (fun k => nth k (block_numbers [] neg_prog 0) []) g) neg_groups.
Definition neg_rows : list fact := tc_rows ++ [(4%nat, [4])].
Example e2e_example_neg_hypotheses :
  wf_surface neg_prog = true /\ wf_binding neg_arities neg_prog = true /\ neg_sccs = [[0; 1; 2]; [3]; [4]; [5]]%nat
  /\ sccs_ok (to_core [] neg_prog) neg_sccs = true /\ wf_facts neg_arities tc_input = true.
Proof. repeat split; vm_compute; reflexivity. Qed.
Example e2e_example_neg_runs :
  option_map rows (run_plan std_interp std_swap 50 (compile_model neg_arities (to_core [] neg_prog) neg_sccs) (init_state tc_input)) = Some neg_rows
  /\ exists M, sstrat_fix std_interp 50 (map (fun g => filter_map (fun k => nth_error neg_prog k) g) neg_groups) tc_input = Some M
              /\ same_set M neg_rows = true.
Proof. split; [vm_compute; reflexivity|]. eexists. split; vm_compute; reflexivity. Qed.
Example e2e_example_neg_strat_model :
  sstrat_model_sugared std_interp (map (fun g => filter_map (fun k => nth_error neg_prog k) g) neg_groups) tc_input neg_rows.
Proof.
  destruct (run_plan std_interp std_swap 50 (compile_model neg_arities (to_core [] neg_prog) neg_sccs) (init_state tc_input)) as [st|] eqn:E.
  - assert (Hr : rows st = neg_rows). { pose proof (proj1 e2e_example_neg_runs) as H. rewrite E in H. cbn [option_map] in H. inversion H. reflexivity. }
    rewrite <- Hr. destruct e2e_example_neg_hypotheses as [H1 [H2 [_ [H4 H5]]]].
    assert (Har : arities_functional neg_arities) by (apply arities_functional_dec; vm_compute; reflexivity).
    assert (Hnd : NoDup tc_input). { repeat constructor; cbn; intuition discriminate. }
    exact (end_to_end_strat_model_sugared std_interp std_swap neg_arities neg_prog [] neg_groups 50%nat tc_input st H1 H2 std_interp_ok_nil
             Har H5 Hnd std_interp_agg_perm_invariant H4 E).
  - pose proof (proj1 e2e_example_neg_runs) as H. rewrite E in H. discriminate H.
Qed.

Print Assumptions c07_desugar_output_wf_core. Print Assumptions c07_desugar_output_no_agg.
Print Assumptions c07_example_wf_binding. Print Assumptions c07_example_output_wf_core. Print Assumptions c07_wf_surface_not_enough.
Print Assumptions c01_end_to_end_least_model. Print Assumptions c01_end_to_end_least_model_fn. Print Assumptions c01_end_to_end_deterministic.
Print Assumptions c01_end_to_end_strat_model_desugared. Print Assumptions c01_end_to_end_strat_model_sugared.
Print Assumptions e2e_example_hypotheses. Print Assumptions e2e_example_runs. Print Assumptions e2e_example_least_model.
Print Assumptions e2e_example_neg_hypotheses. Print Assumptions e2e_example_neg_runs. Print Assumptions e2e_example_neg_strat_model.
