(* C07 — pass 5 (repeated variables / expressions over variables of the same clause): the argument is replaced by a
   fresh variable (process-wide counters) and the condition `if fresh == x` / `if fresh.eq(&(expr))` is put in front
   of the clause's conditions.  The direct denotation tests the equality at the argument's position; the desugared
   clause binds the fresh variable and tests afterwards: the proof carries the list of pending equality tests. *)
From Coq Require Import List ZArith Bool Arith Ascii Lia.
From AV Require Import Engine.Core.
From AV Require Import Engine.Sem.
From AV Require Import Syntax.Surface.
From AV Require Import Syntax.Desugar.
From AV Require Import Syntax.ToCore.
From AV Require Import Syntax.SimBase.
From AV Require Import Syntax.SimRel.
From AV Require Import Syntax.Names.
Import ListNotations.

Definition replaced (here : list ident) (t : sterm) : bool := existsb (fun x => imem x here) (expr_vars t).
Definition here_upd (G here : list ident) (t : sterm) : list ident :=
  match t with SVar x => if imem x G then here else x :: here | _ => here end.

(* the requests to the name supply and the final `here`, independent of the counters *)
Fixpoint rkeys_args (G here : list ident) (args : list sarg) : list ident * list ident :=
  match args with
  | [] => ([], here)
  | AT t :: rest => if replaced here t then (expr_prefix t :: fst (rkeys_args G here rest), snd (rkeys_args G here rest))
                    else rkeys_args G (here_upd G here t) rest
  | _ :: rest => rkeys_args G here rest
  end.
Definition item_grounds (it : sitem) : list ident :=
  match it with
  | ICond c => cond_grounds c
  | IGen x _ _ => [x]
  | IAgg (Some x) _ _ _ _ => [x]
  | _ => []
  end.
Fixpoint rkeys (G : list ident) (items : list sitem) : list ident :=
  match items with
  | [] => []
  | IClause _ args conds :: rest => fst (rkeys_args G [] args) ++ rkeys (flat_map cond_grounds conds ++ snd (rkeys_args G [] args) ++ G) rest
  | it :: rest => rkeys (item_grounds it ++ G) rest
  end.

Definition ra (x : list sarg * list scond * list ident * counters) := fst (fst (fst x)).
Definition rc (x : list sarg * list scond * list ident * counters) := snd (fst (fst x)).
Definition rh (x : list sarg * list scond * list ident * counters) := snd (fst x).
Definition rs (x : list sarg * list scond * list ident * counters) := snd x.

Lemma rep_args_repl : forall G here cs t rest, replaced here t = true ->
  rep_args G here cs (AT t :: rest) =
  let v := fst (gensym_next tr_default cs (expr_prefix t)) in
  let R := rep_args G here (snd (gensym_next tr_default cs (expr_prefix t))) rest in
  (AT (SVar v) :: ra R, SIfEq v t :: rc R, rh R, rs R).
Proof.
  intros G here cs t rest H. cbn [rep_args]. unfold replaced in H. rewrite H. unfold fresh_ident.
  destruct (gensym_next tr_default cs (expr_prefix t)) as [v cs1]. cbn [fst snd].
  destruct (rep_args G here cs1 rest) as [[[a c] h] s]. reflexivity.
Qed.
Lemma rep_args_keep : forall G here cs t rest, replaced here t = false ->
  rep_args G here cs (AT t :: rest) =
  let R := rep_args G (here_upd G here t) cs rest in (AT t :: ra R, rc R, rh R, rs R).
Proof.
  intros G here cs t rest H. cbn [rep_args]. unfold replaced in H. rewrite H. fold (here_upd G here t).
  destruct (rep_args G (here_upd G here t) cs rest) as [[[a c] h] s]. reflexivity.
Qed.
Lemma rep_args_state : forall args G here cs, Forall is_AT args ->
  rs (rep_args G here cs args) = gen_state cs (fst (rkeys_args G here args)) /\ rh (rep_args G here cs args) = snd (rkeys_args G here args).
Proof.
  induction args as [|a args IH]; intros G here cs HF; [split; reflexivity|]. inversion HF as [|? ? Ha HF']; subst.
  destruct a as [t| |p]; try destruct Ha. cbn [rkeys_args]. destruct (replaced here t) eqn:E.
  - rewrite rep_args_repl by exact E. cbn [rs rh fst snd gen_state]. apply IH. exact HF'.
  - rewrite rep_args_keep by exact E. cbn [rs rh fst snd]. apply IH. exact HF'.
Qed.

Section Rep.
Variable I : interp.
Variable db : rel -> list tuple.
Variable X : ident -> Prop.

(* pending test: fresh variable, expression, column value, value of the expression *)
Definition pend := list (ident * sterm * Z * Z).
Definition pend_conds (L : pend) : list scond := map (fun q => SIfEq (fst (fst (fst q))) (snd (fst (fst q)))) L.
Definition pend_st (L : pend) (e' : senv) : Prop :=
  forall q, In q L -> e' (fst (fst (fst q))) = Some (snd (fst q)) /\ seval_term I e' (snd (fst (fst q))) = Some (snd q).
Definition pend_good (L : pend) : bool := forallb (fun q => Z.eqb (snd (fst q)) (snd q)) L.

Lemma seval_term_bound : forall e t u, seval_term I e t = Some u -> forall x, In x (expr_vars t) -> e x <> None.
Proof.
  intros e [x|c|f xs] u H y Hy; cbn [seval_term expr_vars] in *.
  - destruct Hy as [<-|[]]. congruence.
  - destruct Hy.
  - destruct (seval_vars e xs) eqn:E; [|discriminate]. exact (seval_vars_some e xs l E y Hy).
Qed.
Lemma seval_term_bind : forall e t u x v, seval_term I e t = Some u -> e x = None -> seval_term I (sbind x v e) t = Some u.
Proof.
  intros e t u x v H Hx. rewrite <- H. apply seval_term_ext. intros y Hy. apply sbind_neq. intro E. subst y.
  exact (seval_term_bound e t u H x Hy Hx).
Qed.
Lemma pend_st_bind : forall L e' x v, pend_st L e' -> e' x = None -> pend_st L (sbind x v e').
Proof.
  intros L e' x v H Hx q Hq. destruct (H q Hq) as [H1 H2]. split.
  - rewrite sbind_neq; [exact H1|]. intro E. rewrite E in H1. congruence.
  - apply seval_term_bind; assumption.
Qed.
Lemma conds_pend : forall L e' cs, pend_st L e' ->
  ssat_conds I e' (pend_conds L ++ cs) = if pend_good L then ssat_conds I e' cs else None.
Proof.
  induction L as [|q L IH]; intros e' cs H; [reflexivity|]. cbn [pend_conds map app ssat_conds ssat_cond pend_good forallb].
  destruct (H q (or_introl eq_refl)) as [H1 H2]. rewrite H1, H2. destruct (Z.eqb (snd (fst q)) (snd q)); cbn [andb]; [|reflexivity].
  apply IH. intros q' Hq'. apply H. right. exact Hq'.
Qed.
Lemma pend_conds_app : forall L v t w u cs, pend_conds (L ++ [(v, t, w, u)]) ++ cs = pend_conds L ++ SIfEq v t :: cs.
Proof. intros. unfold pend_conds. rewrite map_app, <- app_assoc. reflexivity. Qed.
Lemma pend_good_app : forall L q, pend_good (L ++ [q]) = pend_good L && Z.eqb (snd (fst q)) (snd q).
Proof. intros. unfold pend_good. rewrite forallb_app. cbn [forallb]. rewrite andb_true_r. reflexivity. Qed.

Definition dclause (e' : senv) (G here : list ident) (cs0 : counters) (args : list sarg) (L : pend) (conds : list scond) (tup : tuple) : option senv :=
  match smatch_args I e' (ra (rep_args G here cs0 args)) tup with
  | Some e1' => ssat_conds I e1' (pend_conds L ++ rc (rep_args G here cs0 args) ++ conds)
  | None => None
  end.

(* matching arguments (no patterns) only binds unbound variables: pending tests keep their values *)
Lemma smatch_pend_st : forall args tup e' e1' L, Forall is_AT args ->
  smatch_args I e' args tup = Some e1' -> pend_st L e' -> pend_st L e1'.
Proof.
  induction args as [|a args IH]; intros tup e' e1' L HF Hm Hst; destruct tup as [|v tup]; cbn [smatch_args] in Hm; try discriminate.
  - inversion Hm; subst. exact Hst.
  - inversion HF as [|? ? Ha HF']; subst. destruct a as [t| |p]; try destruct Ha. destruct t as [x|c|f xs].
    + destruct (e' x) eqn:Ex.
      * destruct (Z.eqb z v); [|discriminate]. exact (IH tup e' e1' L HF' Hm Hst).
      * apply (IH tup _ e1' L HF' Hm). apply pend_st_bind; assumption.
    + destruct (seval_term I e' (SConst c)); [|discriminate]. destruct (Z.eqb z v); [|discriminate]. exact (IH tup e' e1' L HF' Hm Hst).
    + destruct (seval_term I e' (SFun f xs)); [|discriminate]. destruct (Z.eqb z v); [|discriminate]. exact (IH tup e' e1' L HF' Hm Hst).
Qed.
Lemma dclause_bad : forall e' G here cs0 args L conds tup, Forall is_AT (ra (rep_args G here cs0 args)) ->
  pend_st L e' -> pend_good L = false -> dclause e' G here cs0 args L conds tup = None.
Proof.
  intros e' G here cs0 args L conds tup HF Hst Hbad. unfold dclause.
  destruct (smatch_args I e' (ra (rep_args G here cs0 args)) tup) as [e1'|] eqn:Em; [|reflexivity].
  rewrite conds_pend by exact (smatch_pend_st _ tup e' e1' L HF Em Hst). rewrite Hbad. reflexivity.
Qed.
Lemma rep_args_AT : forall args G here cs0, Forall is_AT args -> Forall is_AT (ra (rep_args G here cs0 args)).
Proof.
  induction args as [|a args IH]; intros G here cs0 HF; [constructor|]. inversion HF as [|? ? Ha HF']; subst.
  destruct a as [t| |p]; try destruct Ha. destruct (replaced here t) eqn:E.
  - rewrite rep_args_repl by exact E. cbn [ra fst]. constructor; [exact Logic.I | apply IH; exact HF'].
  - rewrite rep_args_keep by exact E. cbn [ra fst]. constructor; [exact Logic.I | apply IH; exact HF'].
Qed.

Lemma rep_args_sim : forall args G here cs0 tup e e' L T conds bnd,
  Forall is_AT args ->
  (forall y, In y (flat_map arg_ids args) -> ~ X y) -> (forall y, In y (flat_map cond_ids conds) -> ~ X y) ->
  NoDup (gen_trace cs0 (fst (rkeys_args G here args)) ++ T) ->
  (forall y, In y (gen_trace cs0 (fst (rkeys_args G here args)) ++ T) -> X y /\ e' y = None) ->
  scoped_args bnd args = true -> (forall x, In x bnd -> e x <> None) -> (forall x, In x here -> In x bnd) ->
  pend_st L e' -> pend_good L = true -> agree X e e' ->
  orel (srel X T) (clause_env I e args conds tup) (dclause e' G here cs0 args L conds tup).
Proof.
  induction args as [|a args IH]; intros G here cs0 tup e e' L T conds bnd HF Hi Hcs Hnd Ht Hsc Hbnd Hhere Hst Hgood Hag; destruct tup as [|v tup].
  - unfold clause_env, dclause. cbn [rep_args ra rc fst snd smatch_args app]. rewrite conds_pend by exact Hst. rewrite Hgood.
    apply ssat_conds_rel; [exact (fun y Hy => proj1 (Ht y Hy)) | exact Hcs|]. split; [exact Hag | exact (fun y Hy => proj2 (Ht y Hy))].
  - unfold clause_env, dclause. cbn. exact Logic.I.
  - inversion HF as [|? ? Ha HF']; subst. destruct a as [t| |p]; try destruct Ha. unfold clause_env, dclause.
    destruct (replaced here t) eqn:E; [rewrite rep_args_repl by exact E | rewrite rep_args_keep by exact E]; cbn; exact Logic.I.
  - inversion HF as [|? ? Ha HF']; subst. destruct a as [t| |p]; try destruct Ha.
    assert (Hi2 : forall y, In y (flat_map arg_ids args) -> ~ X y).
    { intros y Hy. apply Hi. cbn [flat_map]. apply in_or_app. right. exact Hy. }
    assert (Hit : forall y, In y (expr_vars t) -> ~ X y).
    { intros y Hy. apply Hi. cbn [flat_map arg_ids]. apply in_or_app. left. exact Hy. }
    assert (Et : seval_term I e t = seval_term I e' t).
    { apply seval_term_ext. intros x Hx. apply Hag. apply Hit. exact Hx. }
    cbn [scoped_args] in Hsc. apply andb_true_iff in Hsc as [Hsc1 Hsc2].
    cbn [rkeys_args] in *. destruct (replaced here t) eqn:E.
    + (* replaced: all variables of t are bound, the direct denotation tests here *)
      unfold dclause. rewrite rep_args_repl by exact E. cbn [ra rc fst snd app]. cbn [fst snd gen_trace app] in *.
      set (v0 := fst (gensym_next tr_default cs0 (expr_prefix t))) in *. set (cs1 := snd (gensym_next tr_default cs0 (expr_prefix t))) in *.
      destruct (Ht v0 (or_introl eq_refl)) as [HX0 Hn0]. inversion Hnd as [|? ? Hnotin Hnd']; subst.
      assert (Hdef : exists u, seval_term I e t = Some u).
      { destruct t as [x|c|f xs].
        - unfold replaced in E. cbn [expr_vars existsb] in E. rewrite orb_false_r in E. apply imem_In in E.
          cbn [seval_term]. destruct (e x) eqn:Ex; [eexists; reflexivity | exfalso; exact (Hbnd x (Hhere x E) Ex)].
        - discriminate E.
        - cbn [seval_term]. pose proof (proj1 (isub_In xs bnd) Hsc1) as Hs1. destruct (seval_vars_defined e xs) as [vs Hvs]; [intros x Hx; apply Hbnd; apply Hs1; exact Hx|].
          rewrite Hvs. eexists. reflexivity. }
      destruct Hdef as [u Hu].
      assert (Hst1 : pend_st (L ++ [(v0, t, v, u)]) (sbind v0 v e')).
      { intros q Hq. apply in_app_or in Hq as [Hq|[<-|[]]].
        - exact (pend_st_bind L e' v0 v Hst Hn0 q Hq).
        - cbn [fst snd]. split; [apply sbind_eq|]. apply seval_term_bind; [rewrite <- Et; exact Hu | exact Hn0]. }
      assert (Hdirect : clause_env I e (AT t :: args) conds (v :: tup) = if Z.eqb u v then clause_env I e args conds tup else None).
      { unfold clause_env. destruct t as [x|c|f xs]; cbn [smatch_args].
        - cbn [seval_term] in Hu. rewrite Hu. destruct (Z.eqb u v); reflexivity.
        - rewrite Hu. destruct (Z.eqb u v); reflexivity.
        - rewrite Hu. destruct (Z.eqb u v); reflexivity. }
      rewrite Hdirect. cbn [smatch_args]. rewrite Hn0.
      assert (Hshape : forall e1', ssat_conds I e1' (pend_conds L ++ SIfEq v0 t :: rc (rep_args G here cs1 args) ++ conds)
                                 = ssat_conds I e1' (pend_conds (L ++ [(v0, t, v, u)]) ++ rc (rep_args G here cs1 args) ++ conds)).
      { intro e1'. rewrite pend_conds_app. reflexivity. }
      destruct (Z.eqb u v) eqn:Euv.
      * pose proof (IH G here cs1 tup e (sbind v0 v e') (L ++ [(v0, t, v, u)]) T conds (arg_binds (AT t) ++ bnd) HF' Hi2 Hcs Hnd') as Hrec.
        unfold dclause in Hrec.
        destruct (smatch_args I (sbind v0 v e') (ra (rep_args G here cs1 args)) tup) as [e1'|] eqn:Em.
        -- rewrite Hshape. apply Hrec; try assumption.
           ++ intros y Hy. destruct (Ht y (or_intror Hy)) as [H1 H2]. split; [exact H1|]. rewrite sbind_neq; [exact H2|]. intro Ey. subst. contradiction.
           ++ intros x Hx. apply in_app_or in Hx as [Hx|Hx]; [|apply Hbnd; exact Hx].
              destruct t as [x0|c|f xs]; cbn [arg_binds] in Hx; try (destruct Hx; fail). destruct Hx as [<-|[]].
              cbn [seval_term] in Hu. congruence.
           ++ intros x Hx. apply in_or_app. right. apply Hhere. exact Hx.
           ++ rewrite pend_good_app, Hgood. cbn [fst snd andb]. rewrite Z.eqb_sym. exact Euv.
           ++ apply agree_bind_r; assumption.
        -- apply Hrec; try assumption.
           ++ intros y Hy. destruct (Ht y (or_intror Hy)) as [H1 H2]. split; [exact H1|]. rewrite sbind_neq; [exact H2|]. intro Ey. subst. contradiction.
           ++ intros x Hx. apply in_app_or in Hx as [Hx|Hx]; [|apply Hbnd; exact Hx].
              destruct t as [x0|c|f xs]; cbn [arg_binds] in Hx; try (destruct Hx; fail). destruct Hx as [<-|[]].
              cbn [seval_term] in Hu. congruence.
           ++ intros x Hx. apply in_or_app. right. apply Hhere. exact Hx.
           ++ rewrite pend_good_app, Hgood. cbn [fst snd andb]. rewrite Z.eqb_sym. exact Euv.
           ++ apply agree_bind_r; assumption.
      * pose proof (dclause_bad (sbind v0 v e') G here cs1 args (L ++ [(v0, t, v, u)]) conds tup (rep_args_AT args G here cs1 HF') Hst1) as Hbad.
        unfold dclause in Hbad.
        destruct (smatch_args I (sbind v0 v e') (ra (rep_args G here cs1 args)) tup) as [e1'|] eqn:Em; [|exact Logic.I].
        rewrite Hshape, Hbad; [exact Logic.I|]. rewrite pend_good_app, Hgood. cbn [fst snd andb]. rewrite Z.eqb_sym. exact Euv.
    + (* kept *)
      unfold dclause. rewrite rep_args_keep by exact E. cbn [ra rc fst snd].
      assert (Hrec : forall e2 e2', (forall y, In y (gen_trace cs0 (fst (rkeys_args G (here_upd G here t) args)) ++ T) -> X y /\ e2' y = None) ->
                     (forall x, In x (arg_binds (AT t) ++ bnd) -> e2 x <> None) -> pend_st L e2' -> agree X e2 e2' ->
                     orel (srel X T) (clause_env I e2 args conds tup) (dclause e2' G (here_upd G here t) cs0 args L conds tup)).
      { intros e2 e2' Ht2 Hb2 Hst2 Hag2. apply (IH G (here_upd G here t) cs0 tup e2 e2' L T conds (arg_binds (AT t) ++ bnd)); try assumption.
        intros x Hx. destruct t as [x0|c|f xs]; cbn [here_upd arg_binds app] in *; try (apply Hhere; exact Hx).
        destruct (imem x0 G); [right; apply Hhere; exact Hx|]. destruct Hx as [<-|Hx]; [left; reflexivity | right; apply Hhere; exact Hx]. }
      unfold dclause in Hrec. unfold clause_env in *.
      destruct t as [x|c|f xs]; cbn [smatch_args].
      * cbn [seval_term] in Et. rewrite <- Et. destruct (e x) eqn:Ex.
        -- destruct (Z.eqb z v); [|exact Logic.I]. apply Hrec; try assumption.
           intros x0 Hx0. cbn [arg_binds app] in Hx0. destruct Hx0 as [<-|Hx0]; [congruence | apply Hbnd; exact Hx0].
        -- assert (HXx : ~ X x) by (apply Hit; left; reflexivity).
           apply Hrec.
           ++ intros y Hy. destruct (Ht y Hy) as [H1 H2]. split; [exact H1|]. rewrite sbind_neq; [exact H2|]. intro Ey. subst. contradiction.
           ++ intros x0 Hx0. cbn [arg_binds app] in Hx0. destruct Hx0 as [<-|Hx0]; [rewrite sbind_eq; discriminate | apply sbind_some; apply Hbnd; exact Hx0].
           ++ apply pend_st_bind; [exact Hst | symmetry; exact Et].
           ++ apply agree_bind. exact Hag.
      * rewrite <- Et. destruct (seval_term I e (SConst c)); [|exact Logic.I]. destruct (Z.eqb z v); [|exact Logic.I].
        apply Hrec; try assumption.
      * rewrite <- Et. destruct (seval_term I e (SFun f xs)); [|exact Logic.I]. destruct (Z.eqb z v); [|exact Logic.I].
        apply Hrec; try assumption.
Qed.

Definition clause_AT (it : sitem) : Prop := match it with IClause _ args _ => Forall is_AT args | _ => True end.
Definition bnd (B : list ident) (e : senv) : Prop := forall x, In x B -> e x <> None.

Lemma sim2_strengthen : forall (R : senv -> senv -> Prop) (P : senv -> Prop) l l',
  sim2 R l l' -> (forall a, In a l -> P a) -> sim2 (fun a b => R a b /\ P a) l l'.
Proof.
  intros R P l l' [F B] HP. split.
  - intros a Ha. destruct (F a Ha) as [b [Hb Hr]]. exists b. split; [exact Hb | split; [exact Hr | apply HP; exact Ha]].
  - intros b Hb. destruct (B b Hb) as [a [Ha Hr]]. exists a. split; [exact Ha | split; [exact Hr | apply HP; exact Ha]].
Qed.
Lemma item_envs_bnd : forall it B e e1, no_disj it -> bnd B e -> In e1 (item_envs I db it e) -> bnd (item_binds it ++ B) e1.
Proof.
  intros it B e e1 Hnd Hb Hin x Hx. destruct (item_envs_mono I db it e e1 Hnd Hin) as [M1 M2].
  apply in_app_or in Hx as [Hx|Hx]; [apply M2; exact Hx | apply M1; apply Hb; exact Hx].
Qed.

Lemma rep_items_clause : forall G cs r args conds rest,
  rep_items G cs (IClause r args conds :: rest) =
  let R := rep_args G [] cs args in
  (IClause r (ra R) (rc R ++ conds) :: fst (rep_items (flat_map cond_grounds conds ++ rh R ++ G) (rs R) rest),
   snd (rep_items (flat_map cond_grounds conds ++ rh R ++ G) (rs R) rest)).
Proof.
  intros. cbn [rep_items]. destruct (rep_args G [] cs args) as [[[a c] h] s]. cbn [ra rc rh rs fst snd].
  destruct (rep_items (flat_map cond_grounds conds ++ h ++ G) s rest). reflexivity.
Qed.
Lemma rep_items_other : forall G cs it rest, (forall r args conds, it <> IClause r args conds) ->
  rep_items G cs (it :: rest) = (it :: fst (rep_items (item_grounds it ++ G) cs rest), snd (rep_items (item_grounds it ++ G) cs rest)).
Proof.
  intros G cs it rest H. destruct it as [r args conds|c|x g xs|out a bound r args|r args|ds]; cbn [rep_items item_grounds app].
  - exfalso. exact (H r args conds eq_refl).
  - destruct (rep_items (cond_grounds c ++ G) cs rest). reflexivity.
  - destruct (rep_items (x :: G) cs rest). reflexivity.
  - destruct out as [o|]; cbn [app]; [destruct (rep_items (o :: G) cs rest) | destruct (rep_items G cs rest)]; reflexivity.
  - destruct (rep_items G cs rest). reflexivity.
  - destruct (rep_items G cs rest). reflexivity.
Qed.

Lemma rep_items_sim : forall items G cs0 e e' B,
  Forall no_disj items -> Forall clause_AT items -> (forall y, In y (items_ids items) -> ~ X y) ->
  NoDup (gen_trace cs0 (rkeys G items)) -> (forall y, In y (gen_trace cs0 (rkeys G items)) -> X y) ->
  scoped B items = true -> bnd B e -> srel X (gen_trace cs0 (rkeys G items)) e e' ->
  sim2 (srel X []) (all_envs_s I db items e) (all_envs_s I db (fst (rep_items G cs0 items)) e').
Proof.
  induction items as [|it items IH]; intros G cs0 e e' B Hnd Hat Hi Hdup HX Hsc Hb Hr.
  - cbn. apply sim2_single. exact Hr.
  - inversion Hnd as [|? ? Hit Hrest]; subst. inversion Hat as [|? ? Hat1 Hat2]; subst.
    cbn [scoped] in Hsc. apply andb_true_iff in Hsc as [Hsc1 Hsc2].
    assert (Hi1 : forall y, In y (item_ids it) -> ~ X y).
    { intros y Hy. apply Hi. unfold items_ids. cbn [flat_map]. apply in_or_app. left. exact Hy. }
    assert (Hi2 : forall y, In y (items_ids items) -> ~ X y).
    { intros y Hy. apply Hi. unfold items_ids. cbn [flat_map]. apply in_or_app. right. exact Hy. }
    destruct it as [r args conds|c|x gg xs|out a bound r args|r args|ds]; try (destruct Hit; fail).
    + rewrite rep_items_clause. cbn [fst all_envs_s]. cbn [rkeys] in *. rewrite gen_trace_app in *.
      destruct (rep_args_state args G [] cs0 Hat1) as [Es Eh]. rewrite <- Es, <- Eh in *.
      set (R := rep_args G [] cs0 args) in *.
      set (T := gen_trace (rs R) (rkeys (flat_map cond_grounds conds ++ rh R ++ G) items)) in *.
      destruct Hr as [Hag Htodo].
      apply (sim2_flat_map (fun a b => srel X T a b /\ bnd (item_binds (IClause r args conds) ++ B) a)).
      * apply sim2_clause. intro tup.
        pose proof (rep_args_sim args G [] cs0 tup e e' [] T conds B Hat1) as Hm. unfold dclause in Hm. cbn [pend_conds map app] in Hm.
        fold R in Hm. unfold clause_env at 2.
        assert (Hm' : orel (srel X T) (clause_env I e args conds tup)
                        match smatch_args I e' (ra R) tup with Some e1' => ssat_conds I e1' (rc R ++ conds) | None => None end).
        { apply Hm; try assumption.
          - intros y Hy. apply Hi1. cbn [item_ids]. apply in_or_app. left. exact Hy.
          - intros y Hy. apply Hi1. cbn [item_ids]. apply in_or_app. right. exact Hy.
          - intros y Hy. split; [apply HX; exact Hy | apply Htodo; exact Hy].
          - intros x [].
          - intros q [].
          - reflexivity. }
        destruct (clause_env I e args conds tup) as [e1|] eqn:E1;
          destruct (match smatch_args I e' (ra R) tup with Some e1' => ssat_conds I e1' (rc R ++ conds) | None => None end) as [e1'|];
          cbn in Hm' |- *; try contradiction; [|exact Logic.I].
        split; [exact Hm'|]. intros x Hx. destruct (clause_env_mono I args conds tup e e1 E1) as [M1 M2]. cbn [item_binds] in Hx.
        apply in_app_or in Hx as [Hx|Hx]; [apply M2; exact Hx | apply M1; apply Hb; exact Hx].
      * intros a b [Hab Hba]. apply (IH (flat_map cond_grounds conds ++ rh R ++ G) (rs R) a b (item_binds (IClause r args conds) ++ B)); try assumption.
        -- exact (nodup_app_r _ _ _ Hdup).
        -- intros y Hy. apply HX. apply in_or_app. right. exact Hy.
    + rewrite rep_items_other by discriminate. cbn [fst all_envs_s]. cbn [rkeys] in *.
      apply (sim2_flat_map (fun a b => srel X (gen_trace cs0 (rkeys (item_grounds (ICond c) ++ G) items)) a b /\ bnd (item_binds (ICond c) ++ B) a)).
      * apply sim2_strengthen; [apply item_envs_rel; assumption|]. intros a Ha. exact (item_envs_bnd _ B e a Hit Hb Ha).
      * intros a b [Hab Hba]. apply (IH _ cs0 a b (item_binds (ICond c) ++ B)); assumption.
    + rewrite rep_items_other by discriminate. cbn [fst all_envs_s]. cbn [rkeys] in *.
      apply (sim2_flat_map (fun a b => srel X (gen_trace cs0 (rkeys (item_grounds (IGen x gg xs) ++ G) items)) a b /\ bnd (item_binds (IGen x gg xs) ++ B) a)).
      * apply sim2_strengthen; [apply item_envs_rel; assumption|]. intros a Ha. exact (item_envs_bnd _ B e a Hit Hb Ha).
      * intros a b [Hab Hba]. apply (IH _ cs0 a b (item_binds (IGen x gg xs) ++ B)); assumption.
    + rewrite rep_items_other by discriminate. cbn [fst all_envs_s]. cbn [rkeys] in *.
      apply (sim2_flat_map (fun a0 b => srel X (gen_trace cs0 (rkeys (item_grounds (IAgg out a bound r args) ++ G) items)) a0 b /\ bnd (item_binds (IAgg out a bound r args) ++ B) a0)).
      * apply sim2_strengthen; [apply item_envs_rel; assumption|]. intros a0 Ha. exact (item_envs_bnd _ B e a0 Hit Hb Ha).
      * intros a0 b [Hab Hba]. apply (IH _ cs0 a0 b (item_binds (IAgg out a bound r args) ++ B)); assumption.
    + rewrite rep_items_other by discriminate. cbn [fst all_envs_s]. cbn [rkeys] in *.
      apply (sim2_flat_map (fun a b => srel X (gen_trace cs0 (rkeys (item_grounds (INeg r args) ++ G) items)) a b /\ bnd (item_binds (INeg r args) ++ B) a)).
      * apply sim2_strengthen; [apply item_envs_rel; assumption|]. intros a Ha. exact (item_envs_bnd _ B e a Hit Hb Ha).
      * intros a b [Hab Hba]. apply (IH _ cs0 a b (item_binds (INeg r args) ++ B)); assumption.
Qed.
End Rep.
