(* END-TO-END (B10) — the boolean binding discipline of a surface program that makes the desugarer's output a
   well-formed core program (Plan/PlanWf.v wf_core).  No proofs in this file.

   [wf_binding arities P] (the ADDITIONAL decidable hypothesis of the end-to-end theorem, next to ToCore.wf_surface):
   for every conjunction b of the disjunction product of every rule (Desugar.disj_items), reading the items left to right
   with the list B of variables bound so far:
     - relations are used with a declared arity (body clauses, aggregated / negated relations, heads);
     - a clause argument that is a variable binds it (first occurrence) or tests it (bound before / repeated);
       an expression argument f(xs) mentions only variables bound before or by EARLIER arguments of the clause;
     - the variable of a binding pattern argument ?P(x) is new (not bound before, not bound by the clause, not by
       an earlier pattern of the clause);
     - `if p(xs)`, `if v == t`: variables bound;  `let x = f(xs)` / `if let P(x) = v`: operands bound and x NEW
       (Rust would shadow; the core language and the engine's plan validator have no rebinding);
     - `for x in g(xs)`: xs bound, x new;  `agg out = a(bound) in r(args)`: key expressions over bound variables, out new;
       `!r(args)`: key expressions over bound variables;
     - head arguments mention bound variables only.
   [strict_conj] is the same discipline on the desugarer's OUTPUT fragment (arguments are expressions only, and now a
   new variable occurs once among the arguments of its clause, an expression argument mentions variables bound by EARLIER
   ITEMS only): the string-identifier mirror of PlanWf.wf_rule. *)
From Coq Require Import List ZArith Bool Arith Ascii.
From AV Require Import Engine.Core.
From AV Require Import Engine.Eval.
From AV Require Import Engine.Validate.
From AV Require Import Syntax.Surface.
From AV Require Import Syntax.Desugar.
From AV Require Import Syntax.ToCore.
Import ListNotations.

(* ---- conditions (shared by both disciplines) ---- *)
Definition bcond (B : list ident) (c : scond) : option (list ident) :=
  match c with
  | SIf _ xs => if isub xs B then Some B else None
  | SBind x _ xs => if isub xs B && negb (imem x B) then Some (x :: B) else None
  | SIfLet (PTest _) v => if imem v B then Some B else None
  | SIfLet (PBind x _) v => if imem v B && negb (imem x B) then Some (x :: B) else None
  | SIfEq v t => if imem v B && isub (expr_vars t) B then Some B else None
  end.
Fixpoint bconds (B : list ident) (cs : list scond) : option (list ident) :=
  match cs with [] => Some B | c :: cs' => match bcond B c with Some B' => bconds B' cs' | None => None end end.

(* ---- items other than clauses (shared) ---- *)
Definition bkeys (B : list ident) (args : list saarg) : bool :=
  forallb (fun a => match a with SAKey t => isub (expr_vars t) B | _ => true end) args.
Definition bother (ar : list (rel * nat)) (B : list ident) (it : sitem) : option (list ident) :=
  match it with
  | ICond c => bcond B c
  | IGen x _ xs => if isub xs B && negb (imem x B) then Some (x :: B) else None
  | IAgg out _ _ r args =>
      if arity_ok ar r (List.length args) && bkeys B args
      then match out with Some x => if imem x B then None else Some (x :: B) | None => Some B end
      else None
  | INeg r args => if arity_ok ar r (List.length args) && bkeys B (map neg_arg args) then Some B else None
  | _ => None
  end.
Definition bheads (ar : list (rel * nat)) (B : list ident) (hs : list (rel * list sterm)) : bool :=
  forallb (fun h => arity_ok ar (fst h) (List.length (snd h)) && forallb (fun t => isub (expr_vars t) B) (snd h)) hs.

(* ---- the surface discipline ---- *)
(* the variables newly bound by the arguments of a clause (latest first) *)
Fixpoint bargs (B newv : list ident) (args : list sarg) : option (list ident) :=
  match args with
  | [] => Some newv
  | AT (SVar x) :: rest => bargs B (if imem x B || imem x newv then newv else x :: newv) rest
  | AT (SFun _ xs) :: rest => if isub xs (newv ++ B) then bargs B newv rest else None
  | _ :: rest => bargs B newv rest
  end.
(* the binders of the pattern arguments, in argument order, after the arguments *)
Fixpoint bpats (B : list ident) (args : list sarg) : option (list ident) :=
  match args with
  | [] => Some B
  | APat (PBind x _) :: rest => if imem x B then None else bpats (x :: B) rest
  | _ :: rest => bpats B rest
  end.
Definition bclause (ar : list (rel * nat)) (B : list ident) (r : rel) (args : list sarg) (cs : list scond) : option (list ident) :=
  if arity_ok ar r (List.length args) then
    match bargs B [] args with
    | Some nv => match bpats (nv ++ B) args with Some B1 => bconds B1 cs | None => None end
    | None => None
    end
  else None.
Definition bitem (ar : list (rel * nat)) (B : list ident) (it : sitem) : option (list ident) :=
  match it with IClause r args cs => bclause ar B r args cs | _ => bother ar B it end.
Fixpoint bbody (ar : list (rel * nat)) (B : list ident) (items : list sitem) : option (list ident) :=
  match items with [] => Some B | it :: rest => match bitem ar B it with Some B' => bbody ar B' rest | None => None end end.
Definition bwf_conj (ar : list (rel * nat)) (hs : list (rel * list sterm)) (b : list sitem) : bool :=
  match bbody ar [] b with Some B => bheads ar B hs | None => false end.
Definition wf_binding_rule (ar : list (rel * nat)) (r : srule) : bool := forallb (bwf_conj ar (sheads r)) (disj_items (sbody r)).
Definition wf_binding (ar : list (rel * nat)) (P : list srule) : bool := forallb (wf_binding_rule ar) P.

(* ---- the discipline of the desugared fragment (mirror of PlanWf.wf_args / wf_item / wf_rule on identifiers) ---- *)
Fixpoint sargs (B newv : list ident) (args : list sarg) : option (list ident) :=
  match args with
  | [] => Some newv
  | AT (SVar x) :: rest =>
      if imem x B then sargs B newv rest else if imem x newv then None else sargs B (x :: newv) rest
  | AT t :: rest => if isub (expr_vars t) B then sargs B newv rest else None
  | _ :: _ => None
  end.
Definition sclause (ar : list (rel * nat)) (B : list ident) (r : rel) (args : list sarg) (cs : list scond) : option (list ident) :=
  if arity_ok ar r (List.length args) then
    match sargs B [] args with Some nv => bconds (nv ++ B) cs | None => None end
  else None.
Definition strict_item (ar : list (rel * nat)) (B : list ident) (it : sitem) : option (list ident) :=
  match it with IClause r args cs => sclause ar B r args cs | _ => bother ar B it end.
Fixpoint strict_body (ar : list (rel * nat)) (B : list ident) (items : list sitem) : option (list ident) :=
  match items with [] => Some B | it :: rest => match strict_item ar B it with Some B' => strict_body ar B' rest | None => None end end.
Definition strict_conj (ar : list (rel * nat)) (hs : list (rel * list sterm)) (b : list sitem) : bool :=
  match strict_body ar [] b with Some B => bheads ar B hs | None => false end.

(* ---- no aggregation / negation, through disjunctions (the fragment of the least-model theorem) ---- *)
Fixpoint sno_agg_item (it : sitem) : bool :=
  match it with
  | IAgg _ _ _ _ _ => false
  | INeg _ _ => false
  | IDisj ds => forallb (fix conj (l : list sitem) : bool := match l with [] => true | it' :: rest => sno_agg_item it' && conj rest end) ds
  | _ => true
  end.
Definition no_agg_surface (P : list srule) : bool := forallb (fun r => forallb sno_agg_item (sbody r)) P.
