(* C07 — surface (sugared) rule language on top of Engine/Core.v, with a DIRECT denotation.

   Identifiers are strings (lists of characters): the desugaring passes of the macro build new
   identifiers by string concatenation ("x" -> "x_", "x_1", ...; "__arg_pattern_", "__1", ...), and
   whether such a name collides with a user identifier is exactly what the freshness lemmas are about.

   Surface forms: disjunction  (a, b | c)            = some disjunct holds
                  ?pattern argument                  = the column matches the pattern (binding its variable)
                  _                                  = any value
                  repeated variable / expression arg = the column equals the (already bound) variable / the value
                  !r(args)                           = no tuple of r matches
                  several head clauses               = every head is derived
                  no body                            = the heads hold unconditionally.
   Patterns are symbols like every interpreted Rust fragment: [PTest p] is a refutable pattern without
   bindings (a literal, a range: matches v iff pint p [v]); [PBind x f] a refutable pattern binding one
   variable (x @ 1..=2, Some(x): matches v iff bint f [v] = Some w, and binds x := w).
   No proofs in this file. *)
From Coq Require Import List ZArith Bool Arith Ascii.
From AV Require Import Engine.Core.
From AV Require Import Engine.Sem.
Import ListNotations.
Open Scope Z_scope.

Definition ident := list ascii.
Fixpoint ieqb (a b : ident) : bool :=
  match a, b with
  | [], [] => true
  | x :: a', y :: b' => Ascii.eqb x y && ieqb a' b'
  | _, _ => false
  end.
Definition imem (x : ident) (l : list ident) : bool := existsb (ieqb x) l.

Inductive sterm := SVar (x : ident) | SConst (c : Z) | SFun (f : nat) (xs : list ident).
Inductive spat := PTest (p : nat) | PBind (x : ident) (f : nat).
Inductive sarg := AT (t : sterm) | AWildS | APat (p : spat).
(* if p(xs) | let x = f(xs) / if let Some(x) = f(xs) | if let pat = v | if v == t  /  if v.eq(&(t)) *)
Inductive scond :=
| SIf (p : nat) (xs : list ident)
| SBind (x : ident) (f : nat) (xs : list ident)
| SIfLet (p : spat) (v : ident)
| SIfEq (v : ident) (t : sterm).
Inductive saarg := SAWild | SABound (x : ident) | SAKey (t : sterm).
Inductive snarg := NWild | NKey (t : sterm).
Inductive sitem :=
| IClause (r : rel) (args : list sarg) (cs : list scond)
| ICond (c : scond)
| IGen (x : ident) (g : nat) (xs : list ident)
| IAgg (out : option ident) (a : nat) (bound : list ident) (r : rel) (args : list saarg)
| INeg (r : rel) (args : list snarg)
| IDisj (ds : list (list sitem)).
Record srule := { sheads : list (rel * list sterm); sbody : list sitem }.

(* ---- direct denotation ---- *)
Definition senv := ident -> option Z.
Definition sempty : senv := fun _ => None.
Definition sbind (x : ident) (v : Z) (e : senv) : senv := fun y => if ieqb y x then Some v else e y.

Fixpoint seval_vars (e : senv) (xs : list ident) : option (list Z) :=
  match xs with
  | [] => Some []
  | x :: xs' => match e x, seval_vars e xs' with Some v, Some vs => Some (v :: vs) | _, _ => None end
  end.
Definition seval_term (I : interp) (e : senv) (t : sterm) : option Z :=
  match t with
  | SVar x => e x
  | SConst c => Some c
  | SFun f xs => option_map (fint I f) (seval_vars e xs)
  end.
Fixpoint seval_terms (I : interp) (e : senv) (ts : list sterm) : option (list Z) :=
  match ts with
  | [] => Some []
  | t :: ts' => match seval_term I e t, seval_terms I e ts' with Some v, Some vs => Some (v :: vs) | _, _ => None end
  end.
Definition seval_head (I : interp) (e : senv) (h : rel * list sterm) : option fact :=
  option_map (fun vs => (fst h, vs)) (seval_terms I e (snd h)).

(* a value against a pattern *)
Definition pat_match (I : interp) (p : spat) (v : Z) (e : senv) : option senv :=
  match p with
  | PTest q => if pint I q [v] then Some e else None
  | PBind x f => match bint I f [v] with Some w => Some (sbind x w e) | None => None end
  end.

Definition ssat_cond (I : interp) (e : senv) (c : scond) : option senv :=
  match c with
  | SIf p xs => match seval_vars e xs with Some vs => if pint I p vs then Some e else None | None => None end
  | SBind x f xs => match seval_vars e xs with
                    | Some vs => match bint I f vs with Some v => Some (sbind x v e) | None => None end
                    | None => None end
  | SIfLet p v => match e v with Some w => pat_match I p w e | None => None end
  | SIfEq v t => match e v, seval_term I e t with
                 | Some a, Some b => if Z.eqb a b then Some e else None
                 | _, _ => None end
  end.
Fixpoint ssat_conds (I : interp) (e : senv) (cs : list scond) : option senv :=
  match cs with
  | [] => Some e
  | c :: cs' => match ssat_cond I e c with Some e' => ssat_conds I e' cs' | None => None end
  end.

(* arguments of a body clause against a tuple, left to right: the first occurrence of a variable binds it,
   a bound (in particular: repeated) variable, a constant, an expression test equality with the column,
   _ accepts every value, ?pat matches the column against the pattern *)
Fixpoint smatch_args (I : interp) (e : senv) (args : list sarg) (tup : tuple) : option senv :=
  match args, tup with
  | [], [] => Some e
  | a :: args', v :: tup' =>
      match a with
      | AT (SVar x) => match e x with
                       | Some w => if Z.eqb w v then smatch_args I e args' tup' else None
                       | None => smatch_args I (sbind x v e) args' tup'
                       end
      | AT t => match seval_term I e t with
                | Some w => if Z.eqb w v then smatch_args I e args' tup' else None
                | None => None
                end
      | AWildS => smatch_args I e args' tup'
      | APat p => match pat_match I p v e with Some e1 => smatch_args I e1 args' tup' | None => None end
      end
  | _, _ => None
  end.

Fixpoint sagg_match (I : interp) (e : senv) (args : list saarg) (tup : tuple) : bool :=
  match args, tup with
  | [], [] => true
  | a :: args', v :: tup' =>
      match a with
      | SAKey t => match seval_term I e t with Some w => Z.eqb w v && sagg_match I e args' tup' | None => false end
      | _ => sagg_match I e args' tup'
      end
  | _, _ => false
  end.
Fixpoint sagg_col (x : ident) (args : list saarg) (tup : tuple) : option Z :=
  match args, tup with
  | SABound y :: args', v :: tup' => if ieqb x y then Some v else sagg_col x args' tup'
  | _ :: args', _ :: tup' => sagg_col x args' tup'
  | _, _ => None
  end.
Definition sagg_input (bound : list ident) (args : list saarg) (tup : tuple) : list Z :=
  filter_map (fun x => sagg_col x args tup) bound.
Definition sbind_out (out : option ident) (v : Z) (e : senv) : senv :=
  match out with Some x => sbind x v e | None => e end.

(* !r(args): a tuple matches when every non-wildcard argument evaluates to its column *)
Fixpoint sneg_match (I : interp) (e : senv) (args : list snarg) (tup : tuple) : bool :=
  match args, tup with
  | [], [] => true
  | a :: args', v :: tup' =>
      match a with
      | NKey t => match seval_term I e t with Some w => Z.eqb w v && sneg_match I e args' tup' | None => false end
      | NWild => sneg_match I e args' tup'
      end
  | _, _ => false
  end.

Section Denote.
Variable I : interp.
Variable db : rel -> list tuple.

(* the environments one body item produces from an environment *)
Fixpoint item_envs (it : sitem) (e : senv) {struct it} : list senv :=
  match it with
  | IClause r args cs =>
      flat_map (fun tup => match smatch_args I e args tup with
                           | Some e1 => match ssat_conds I e1 cs with Some e2 => [e2] | None => [] end
                           | None => [] end) (db r)
  | ICond c => match ssat_cond I e c with Some e' => [e'] | None => [] end
  | IGen x g xs => match seval_vars e xs with
                   | Some vs => map (fun v => sbind x v e) (gint I g vs)
                   | None => [] end
  | IAgg out a bound r args =>
      let matching := dedup_tuples (filter (sagg_match I e args) (db r)) in
      map (fun v => sbind_out out v e) (aint I a (map (sagg_input bound args) matching))
  | INeg r args => if existsb (sneg_match I e args) (db r) then [] else [e]
  | IDisj ds =>
      flat_map (fun d => (fix go (l : list sitem) (e0 : senv) {struct l} : list senv :=
                            match l with
                            | [] => [e0]
                            | it' :: rest => flat_map (go rest) (item_envs it' e0)
                            end) d e) ds
  end.

Fixpoint all_envs_s (items : list sitem) (e : senv) : list senv :=
  match items with
  | [] => [e]
  | it :: rest => flat_map (all_envs_s rest) (item_envs it e)
  end.

Definition sderive_rule (r : srule) : list fact :=
  flat_map (fun e => filter_map (seval_head I e) (sheads r)) (all_envs_s (sbody r) sempty).
End Denote.

Definition sderives (I : interp) (P : list srule) (F : list fact) (f : fact) : Prop :=
  exists r, In r P /\ In f (sderive_rule I (db_of F) r).
Definition sclosed (I : interp) (P : list srule) (F : list fact) : Prop := forall f, sderives I P F f -> In f F.
Definition sleast_model (I : interp) (P : list srule) (F0 M : list fact) : Prop :=
  incl F0 M /\ sclosed I P M /\ forall M', incl F0 M' -> sclosed I P M' -> incl M M'.

(* executable fix-points on the surface program (used by the tie) *)
Definition snaive_step (I : interp) (P : list srule) (F : list fact) : list fact :=
  add_new (flat_map (sderive_rule I (db_of F)) P) F.
Fixpoint snaive_fix (I : interp) (fuel : nat) (P : list srule) (F : list fact) : option (list fact) :=
  match fuel with
  | O => None
  | S n => let F' := snaive_step I P F in if Nat.eqb (length F') (length F) then Some F else snaive_fix I n P F'
  end.
Fixpoint sstrat_fix (I : interp) (fuel : nat) (strata : list (list srule)) (F : list fact) : option (list fact) :=
  match strata with
  | [] => Some F
  | s :: rest => match snaive_fix I fuel s F with Some F' => sstrat_fix I fuel rest F' | None => None end
  end.
