(* C07 — printing of surface rules as generic labelled trees (read back by gen/c07_*.py). No proofs. *)
From Coq Require Import List ZArith Bool Arith Ascii String.
From AV Require Import Engine.Core.
From AV Require Import Syntax.Surface.
Import ListNotations.

Inductive sx := SX (label : string) (num : Z) (kids : list sx).
Definition sid (x : ident) : sx := SX (string_of_list_ascii x) 0 [].
Definition snat (n : nat) : sx := SX "" (Z.of_nat n) [].
Definition show_term (t : sterm) : sx :=
  match t with
  | SVar x => SX "v" 0 [sid x]
  | SConst c => SX "c" c []
  | SFun f xs => SX "f" (Z.of_nat f) (map sid xs)
  end.
Definition show_pat (p : spat) : sx :=
  match p with PTest q => SX "ptest" (Z.of_nat q) [] | PBind x f => SX "pbind" (Z.of_nat f) [sid x] end.
Definition show_arg (a : sarg) : sx :=
  match a with AT t => show_term t | AWildS => SX "w" 0 [] | APat p => SX "pat" 0 [show_pat p] end.
Definition show_cond (c : scond) : sx :=
  match c with
  | SIf p xs => SX "if" (Z.of_nat p) (map sid xs)
  | SBind x f xs => SX "bind" (Z.of_nat f) (sid x :: map sid xs)
  | SIfLet p v => SX "iflet" 0 [show_pat p; sid v]
  | SIfEq v t => SX "ifeq" 0 [sid v; show_term t]
  end.
Definition show_aarg (a : saarg) : sx :=
  match a with SAWild => SX "w" 0 [] | SABound x => SX "b" 0 [sid x] | SAKey t => SX "k" 0 [show_term t] end.
Definition show_narg (a : snarg) : sx :=
  match a with NWild => SX "w" 0 [] | NKey t => SX "k" 0 [show_term t] end.
Fixpoint show_item (it : sitem) : sx :=
  match it with
  | IClause r args cs => SX "clause" (Z.of_nat r) [SX "args" 0 (map show_arg args); SX "conds" 0 (map show_cond cs)]
  | ICond c => SX "cond" 0 [show_cond c]
  | IGen x g xs => SX "gen" (Z.of_nat g) (sid x :: map sid xs)
  | IAgg out a bound r args =>
      SX "agg" (Z.of_nat a) [SX "out" 0 (match out with Some x => [sid x] | None => [] end); SX "bound" 0 (map sid bound);
                             snat r; SX "args" 0 (map show_aarg args)]
  | INeg r args => SX "neg" (Z.of_nat r) (map show_narg args)
  | IDisj ds => SX "disj" 0 (map (fun d => SX "alt" 0 ((fix go (l : list sitem) : list sx :=
                                                        match l with [] => [] | it' :: rest => show_item it' :: go rest end) d)) ds)
  end.
Definition show_rule (r : srule) : sx :=
  SX "rule" 0 [SX "heads" 0 (map (fun h => SX "head" (Z.of_nat (fst h)) (map show_term (snd h))) (sheads r));
               SX "body" 0 (map show_item (sbody r))].
Definition show_prog (P : list srule) : list sx := map show_rule P.
