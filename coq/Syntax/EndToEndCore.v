(* END-TO-END (B10) — the translation ToCore.core_of_rule maps the strict binding discipline on identifiers
   (EndToEndDefs.strict_conj) to the well-formedness of core rules the planner theorem asks for (PlanWf.wf_rule):
   identifiers are numbered injectively below N = number of identifiers of the rule, temporaries from N upwards. *)
From Coq Require Import List ZArith Bool Arith Ascii Lia.
From AV Require Import Engine.Core.
From AV Require Import Engine.Eval.
From AV Require Import Engine.Validate.
From AV Require Import Engine.EnvLemmas.
From AV Require Import Plan.PlanWf.
From AV Require Import Syntax.Surface.
From AV Require Import Syntax.Desugar.
From AV Require Import Syntax.ToCore.
From AV Require Import Syntax.SimBase.
From AV Require Import Syntax.CoreProof.
From AV Require Import Syntax.EndToEndDefs.
Import ListNotations.
Close Scope Z_scope.
Open Scope nat_scope.

Lemma check_conds_app : forall l1 l2 B, check_conds B (l1 ++ l2) = match check_conds B l1 with Some B1 => check_conds B1 l2 | None => None end.
Proof.
  induction l1 as [|c l1 IH]; intros l2 B; cbn [app check_conds]; [reflexivity|].
  destruct (check_cond B c); [apply IH | reflexivity].
Qed.
Lemma wf_body_app_eq : forall ar l1 l2 B, wf_body ar B (l1 ++ l2) = match wf_body ar B l1 with Some B1 => wf_body ar B1 l2 | None => None end.
Proof.
  intros ar. induction l1 as [|b l1 IH]; intros l2 B; cbn [app wf_body]; [reflexivity|].
  destruct (wf_item ar B b); [apply IH | reflexivity].
Qed.
Lemma wf_body_conds : forall ar l B, wf_body ar B (map BCond l) = check_conds B l.
Proof.
  intros ar. induction l as [|c l IH]; intro B; cbn [map wf_body check_conds wf_item]; [reflexivity|].
  destruct (check_cond B c); [apply IH | reflexivity].
Qed.

Section ToCoreWf.
Variable ar : list (rel * nat).
Variable names : list ident.
Notation rho := (rho_of names).
Notation N := (length names).

(* string bound set / core bound set; every core variable in use lies below the next temporary n *)
Definition Rb (n : nat) (Bs : list ident) (Bc : list var) : Prop :=
  (forall x, In x names -> (In x Bs <-> In (rho x) Bc)) /\ (forall m, In m Bc -> m < n).

Lemma Rb_imem : forall n Bs Bc x, Rb n Bs Bc -> In x names -> memv (rho x) Bc = imem x Bs.
Proof.
  intros n Bs Bc x [H _] Hx. destruct (imem x Bs) eqn:E.
  - apply memv_In. apply H; [exact Hx|]. apply imem_In. exact E.
  - destruct (memv (rho x) Bc) eqn:E'; [|reflexivity]. apply memv_In in E'. apply H in E'; [|exact Hx]. apply imem_In in E'. congruence.
Qed.
Lemma Rb_isub : forall n Bs Bc xs, Rb n Bs Bc -> incl xs names -> subv (map rho xs) Bc = isub xs Bs.
Proof.
  intros n Bs Bc xs HR. induction xs as [|x xs IH]; intro Hi; [reflexivity|]. unfold subv, isub in *. cbn [map forallb].
  rewrite (Rb_imem n Bs Bc x HR (Hi x (or_introl eq_refl))). rewrite IH; [reflexivity|]. intros y Hy. apply Hi. right. exact Hy.
Qed.
Lemma Rb_cons : forall n Bs Bc x, Rb n Bs Bc -> In x names -> N <= n -> Rb n (x :: Bs) (rho x :: Bc).
Proof.
  intros n Bs Bc x [H1 H2] Hx Hn. split.
  - intros y Hy. cbn [In]. split.
    + intros [->|Hin]; [left; reflexivity | right; apply H1; assumption].
    + intros [E|Hin]; [left; apply (rho_inj names x y Hx E) | right; apply H1; assumption].
  - intros m [<-|Hm]; [pose proof (rho_lt names x Hx); lia | apply H2; exact Hm].
Qed.
Lemma Rb_tmp : forall n Bs Bc, Rb n Bs Bc -> N <= n -> Rb (S n) Bs (n :: Bc).
Proof.
  intros n Bs Bc [H1 H2] Hn. split.
  - intros y Hy. cbn [In]. split.
    + intro Hin. right. apply H1; assumption.
    + intros [E|Hin]; [pose proof (rho_lt names y Hy); lia | apply H1; assumption].
  - intros m [<-|Hm]; [lia | specialize (H2 m Hm); lia].
Qed.
Lemma Rb_fresh : forall n Bs Bc, Rb n Bs Bc -> memv n Bc = false.
Proof.
  intros n Bs Bc [_ H2]. destruct (memv n Bc) eqn:E; [|reflexivity]. apply memv_In in E. specialize (H2 n E). lia.
Qed.
Lemma memv_map_rho : forall x l, In x names -> memv (rho x) (map rho l) = imem x l.
Proof.
  intros x l Hx. destruct (imem x l) eqn:E.
  - apply memv_In. apply in_map. apply imem_In. exact E.
  - destruct (memv (rho x) (map rho l)) eqn:E'; [|reflexivity]. apply memv_In in E'. apply in_map_iff in E' as [y [Ey Hy]].
    symmetry in Ey. apply (rho_inj names x y Hx) in Ey. subst y. apply imem_In in Hy. congruence.
Qed.
Lemma Rb_app : forall n Bs Bc nv, Rb n Bs Bc -> incl nv names -> N <= n -> Rb n (nv ++ Bs) (map rho nv ++ Bc).
Proof.
  intros n Bs Bc nv HR. induction nv as [|x nv IH]; intros Hi Hn; [exact HR|]. cbn [app map].
  apply Rb_cons; [apply IH; [intros y Hy; apply Hi; right; exact Hy | exact Hn] | apply Hi; left; reflexivity | exact Hn].
Qed.

(* ---- conditions ---- *)
Lemma c_cond_wf : forall n c l n1 Bs Bs1 Bc,
  c_cond rho n c = Some (l, n1) -> bcond Bs c = Some Bs1 -> Rb n Bs Bc -> N <= n -> incl (cond_ids c) names ->
  exists Bc1, check_conds Bc l = Some Bc1 /\ Rb n1 Bs1 Bc1 /\ n <= n1.
Proof.
  intros n c l n1 Bs Bs1 Bc Hc Hb HR Hn Hi.
  destruct c as [p xs|x f xs|[q|x f] v|v [y|k|f xs]]; cbn [c_cond bcond cond_ids pat_ids expr_vars] in *; inversion Hc; subst; clear Hc;
    cbn [check_conds check_cond].
  - rewrite (Rb_isub _ Bs Bc xs HR Hi). destruct (isub xs Bs); inversion Hb; subst. exists Bc. auto.
  - assert (Hx : In x names) by (apply Hi; left; reflexivity).
    rewrite (Rb_isub _ Bs Bc xs HR) by (intros y Hy; apply Hi; right; exact Hy). rewrite (Rb_imem _ Bs Bc x HR Hx).
    destruct (isub xs Bs && negb (imem x Bs)); inversion Hb; subst. exists (rho x :: Bc). split; [reflexivity|]. split; [apply Rb_cons; assumption | lia].
  - assert (Hv : In v names) by (apply Hi; left; reflexivity). unfold subv. cbn [forallb]. rewrite (Rb_imem _ Bs Bc v HR Hv).
    destruct (imem v Bs); inversion Hb; subst. exists Bc. auto.
  - assert (Hv : In v names) by (apply Hi; left; reflexivity). assert (Hx : In x names) by (apply Hi; right; left; reflexivity).
    unfold subv. cbn [forallb]. rewrite (Rb_imem _ Bs Bc v HR Hv), (Rb_imem _ Bs Bc x HR Hx). rewrite andb_true_r.
    destruct (imem v Bs && negb (imem x Bs)); inversion Hb; subst. exists (rho x :: Bc). split; [reflexivity|]. split; [apply Rb_cons; assumption | lia].
  - assert (Hv : In v names) by (apply Hi; left; reflexivity). assert (Hy : In y names) by (apply Hi; right; left; reflexivity).
    unfold subv, isub in *. cbn [forallb] in *. rewrite (Rb_imem _ Bs Bc v HR Hv), (Rb_imem _ Bs Bc y HR Hy).
    destruct (imem v Bs && (imem y Bs && true)); inversion Hb; subst. exists Bc. auto.
  - assert (Hv : In v names) by (apply Hi; left; reflexivity).
    rewrite (Rb_isub _ Bs Bc xs HR) by (intros y Hy; apply Hi; right; exact Hy). rewrite (Rb_fresh _ Bs Bc HR).
    destruct (imem v Bs) eqn:Ev; cbn [andb] in Hb; [|discriminate]. destruct (isub xs Bs); inversion Hb; subst. cbn [andb negb].
    unfold subv. cbn [forallb]. rewrite !memv_cons. rewrite (Rb_imem _ Bs1 Bc v HR Hv), Ev, Nat.eqb_refl. rewrite orb_true_r. cbn [andb orb].
    exists (n :: Bc). split; [reflexivity|]. split; [apply Rb_tmp; assumption | lia].
Qed.
Lemma Rb_mono_N : forall n n1, N <= n -> n <= n1 -> N <= n1.
Proof. intros. lia. Qed.
Lemma c_conds_wf : forall cs n l n1 Bs Bs1 Bc,
  c_conds rho n cs = Some (l, n1) -> bconds Bs cs = Some Bs1 -> Rb n Bs Bc -> N <= n -> incl (flat_map cond_ids cs) names ->
  exists Bc1, check_conds Bc l = Some Bc1 /\ Rb n1 Bs1 Bc1 /\ n <= n1.
Proof.
  induction cs as [|c cs IH]; intros n l n1 Bs Bs1 Bc Hc Hb HR Hn Hi; cbn [c_conds bconds] in *.
  - inversion Hc; inversion Hb; subst. exists Bc. auto.
  - destruct (c_cond rho n c) as [[lc nc]|] eqn:Ec; [|discriminate]. destruct (c_conds rho nc cs) as [[l' n2]|] eqn:Ecs; [|discriminate].
    inversion Hc; subst; clear Hc. destruct (bcond Bs c) as [Bs0|] eqn:Eb; [|discriminate].
    destruct (c_cond_wf n c lc nc Bs Bs0 Bc Ec Eb HR Hn) as [Bc0 [H1 [H2 H3]]]; [intros y Hy; apply Hi; cbn [flat_map]; apply in_or_app; left; exact Hy|].
    destruct (IH nc l' n1 Bs0 Bs1 Bc0 Ecs Hb H2) as [Bc1 [K1 [K2 K3]]]; [lia | intros y Hy; apply Hi; cbn [flat_map]; apply in_or_app; right; exact Hy|].
    exists Bc1. rewrite check_conds_app, H1. split; [exact K1|]. split; [exact K2 | lia].
Qed.

(* ---- clause arguments ---- *)
Lemma sargs_incl : forall args B nv nv1, sargs B nv args = Some nv1 -> forall y, In y nv1 -> In y nv \/ In y (flat_map arg_ids args).
Proof.
  induction args as [|a args IH]; intros B nv nv1 H y Hy; cbn [sargs] in H; [inversion H; subst; left; exact Hy|].
  destruct a as [[x|k|f xs]| |p]; try discriminate; cbn [flat_map arg_ids expr_vars].
  - destruct (imem x B).
    + destruct (IH B nv nv1 H y Hy) as [K|K]; [left; exact K | right; right; exact K].
    + destruct (imem x nv); [discriminate|]. destruct (IH B (x :: nv) nv1 H y Hy) as [[<-|K]|K]; [right; left; reflexivity | left; exact K | right; right; exact K].
  - destruct (isub (expr_vars (SConst k)) B); [|discriminate]. exact (IH B nv nv1 H y Hy).
  - destruct (isub (expr_vars (SFun f xs)) B); [|discriminate].
    destruct (IH B nv nv1 H y Hy) as [K|K]; [left; exact K | right; apply in_or_app; right; exact K].
Qed.
Lemma c_args_length : forall args a, c_args rho args = Some a -> length a = length args.
Proof.
  induction args as [|x args IH]; intros a H; cbn [c_args] in H; [inversion H; reflexivity|].
  destruct x as [t| |p]; try discriminate. destruct (c_args rho args) as [l|]; [|discriminate]. inversion H; subst. cbn [length]. rewrite (IH l eq_refl). reflexivity.
Qed.
Lemma c_args_wf : forall args a n Bs Bc nvs nvs1,
  c_args rho args = Some a -> sargs Bs nvs args = Some nvs1 -> Rb n Bs Bc -> incl (flat_map arg_ids args) names ->
  wf_args Bc (map rho nvs) a = Some (map rho nvs1).
Proof.
  induction args as [|x args IH]; intros a n Bs Bc nvs nvs1 Hc Hs HR Hi; cbn [c_args sargs] in *.
  - inversion Hc; inversion Hs; subst. reflexivity.
  - destruct x as [t| |p]; try discriminate. destruct (c_args rho args) as [l|] eqn:El; [|discriminate]. inversion Hc; subst; clear Hc.
    assert (Hi2 : incl (flat_map arg_ids args) names) by (intros y Hy; apply Hi; cbn [flat_map]; apply in_or_app; right; exact Hy).
    assert (Hit : incl (expr_vars t) names) by (intros y Hy; apply Hi; cbn [flat_map arg_ids]; apply in_or_app; left; exact Hy).
    destruct t as [y|k|f xs]; cbn [c_term wf_args term_vars].
    + assert (Hy : In y names) by (apply Hit; left; reflexivity). rewrite (Rb_imem n Bs Bc y HR Hy). destruct (imem y Bs).
      * exact (IH l n Bs Bc nvs nvs1 eq_refl Hs HR Hi2).
      * rewrite (memv_map_rho y nvs Hy). destruct (imem y nvs); [discriminate|].
        exact (IH l n Bs Bc (y :: nvs) nvs1 eq_refl Hs HR Hi2).
    + cbn [subv forallb]. cbn [expr_vars isub forallb] in Hs. exact (IH l n Bs Bc nvs nvs1 eq_refl Hs HR Hi2).
    + cbn [expr_vars] in Hs, Hit. rewrite (Rb_isub n Bs Bc xs HR Hit). destruct (isub xs Bs); [|discriminate].
      exact (IH l n Bs Bc nvs nvs1 eq_refl Hs HR Hi2).
Qed.

(* ---- items ---- *)
Lemma bkeys_core : forall n Bs Bc args, Rb n Bs Bc -> incl (flat_map aarg_ids args) names ->
  forallb (fun a => match a with AKey t => subv (term_vars t) Bc | _ => true end) (map (c_aarg rho) args) = bkeys Bs args.
Proof.
  intros n Bs Bc args HR. unfold bkeys. induction args as [|a args IH]; intro Hi; [reflexivity|]. cbn [map forallb].
  rewrite IH by (intros y Hy; apply Hi; cbn [flat_map]; apply in_or_app; right; exact Hy). f_equal.
  assert (Ha : incl (aarg_ids a) names) by (intros y Hy; apply Hi; cbn [flat_map]; apply in_or_app; left; exact Hy).
  destruct a as [|x|[y|k|f xs]]; cbn [c_aarg c_term term_vars expr_vars aarg_ids] in *; try reflexivity.
  - unfold subv, isub. cbn [forallb]. rewrite (Rb_imem n Bs Bc y HR (Ha y (or_introl eq_refl))). reflexivity.
  - exact (Rb_isub n Bs Bc xs HR Ha).
Qed.

Lemma c_item_wf : forall it n l n1 Bs Bs1 Bc,
  c_item rho n it = Some (l, n1) -> strict_item ar Bs it = Some Bs1 -> Rb n Bs Bc -> N <= n -> incl (item_ids it) names ->
  exists Bc1, wf_body ar Bc l = Some Bc1 /\ Rb n1 Bs1 Bc1 /\ n <= n1.
Proof.
  intros it n l n1 Bs Bs1 Bc Hc Hs HR Hn Hi.
  destruct it as [r args cs|c|x g xs|out a bnd r args|r args|ds]; cbn [c_item strict_item bother item_ids] in *; try discriminate.
  - destruct (c_args rho args) as [ca|] eqn:Ea; [|discriminate]. destruct (c_conds rho n cs) as [[lc nc]|] eqn:Ecs; [|discriminate].
    inversion Hc; subst; clear Hc. unfold sclause in Hs. cbn [wf_body wf_item]. rewrite (c_args_length args ca Ea).
    destruct (arity_ok ar r (length args)); [|discriminate]. destruct (sargs Bs [] args) as [nv|] eqn:En; [|discriminate].
    assert (Hia : incl (flat_map arg_ids args) names) by (intros y Hy; apply Hi; apply in_or_app; left; exact Hy).
    pose proof (c_args_wf args ca n Bs Bc [] nv Ea En HR Hia) as Hw. cbn [map] in Hw.
    match goal with |- context [wf_args ?a ?b ?c] => replace (wf_args a b c) with (Some (map rho nv)) by (symmetry; exact Hw) end.
    assert (Hnv : incl nv names). { intros y Hy. destruct (sargs_incl args Bs [] nv En y Hy) as [[]|K]. apply Hia. exact K. }
    destruct (c_conds_wf cs n lc n1 (nv ++ Bs) Bs1 (map rho nv ++ Bc) Ecs Hs (Rb_app n Bs Bc nv HR Hnv Hn) Hn) as [Bc1 [K1 [K2 K3]]];
      [intros y Hy; apply Hi; apply in_or_app; right; exact Hy|].
    exists Bc1. match goal with |- context [check_conds ?a ?b] => replace (check_conds a b) with (Some Bc1) by (symmetry; exact K1) end. auto.
  - destruct (c_cond rho n c) as [[lc nc]|] eqn:Ec; [|discriminate]. inversion Hc; subst; clear Hc.
    destruct (c_cond_wf n c lc n1 Bs Bs1 Bc Ec Hs HR Hn Hi) as [Bc1 [K1 K2]]. exists Bc1. rewrite wf_body_conds. auto.
  - inversion Hc; subst; clear Hc. cbn [wf_body wf_item]. assert (Hx : In x names) by (apply Hi; left; reflexivity).
    rewrite (Rb_isub _ Bs Bc xs HR) by (intros y Hy; apply Hi; right; exact Hy). rewrite (Rb_imem _ Bs Bc x HR Hx).
    destruct (isub xs Bs && negb (imem x Bs)); inversion Hs; subst. exists (rho x :: Bc). split; [reflexivity|]. split; [apply Rb_cons; assumption | lia].
  - inversion Hc; subst; clear Hc. cbn [wf_body wf_item]. rewrite map_length.
    rewrite (bkeys_core _ Bs Bc args HR) by (intros y Hy; apply Hi; apply in_or_app; right; apply in_or_app; right; exact Hy).
    destruct (arity_ok ar r (length args) && bkeys Bs args); [|discriminate]. destruct out as [o|]; cbn [option_map].
    + assert (Ho : In o names) by (apply Hi; left; reflexivity). rewrite (Rb_imem _ Bs Bc o HR Ho). destruct (imem o Bs); inversion Hs; subst.
      exists (rho o :: Bc). split; [reflexivity|]. split; [apply Rb_cons; assumption | lia].
    + inversion Hs; subst. exists Bc. auto.
Qed.
Lemma c_items_wf : forall items n l Bs Bs1 Bc,
  c_items rho n items = Some l -> strict_body ar Bs items = Some Bs1 -> Rb n Bs Bc -> N <= n -> incl (items_ids items) names ->
  exists Bc1 n1, wf_body ar Bc l = Some Bc1 /\ Rb n1 Bs1 Bc1.
Proof.
  induction items as [|it items IH]; intros n l Bs Bs1 Bc Hc Hs HR Hn Hi; cbn [c_items strict_body] in *.
  - inversion Hc; inversion Hs; subst. exists Bc, n. auto.
  - destruct (c_item rho n it) as [[li ni]|] eqn:Ei; [|discriminate]. destruct (c_items rho ni items) as [l'|] eqn:Er; [|discriminate].
    inversion Hc; subst; clear Hc. destruct (strict_item ar Bs it) as [Bs0|] eqn:Es; [|discriminate].
    destruct (c_item_wf it n li ni Bs Bs0 Bc Ei Es HR Hn) as [Bc0 [H1 [H2 H3]]]; [intros y Hy; apply Hi; unfold items_ids; cbn [flat_map]; apply in_or_app; left; exact Hy|].
    destruct (IH ni l' Bs0 Bs1 Bc0 Er Hs H2) as [Bc1 [n1 [K1 K2]]]; [lia | intros y Hy; apply Hi; unfold items_ids; cbn [flat_map]; apply in_or_app; right; exact Hy|].
    exists Bc1, n1. rewrite wf_body_app_eq, H1. auto.
Qed.

Lemma bheads_core : forall n Bs Bc hs, Rb n Bs Bc -> incl (heads_ids hs) names ->
  heads_ok ar Bc (map (fun h => (fst h, map (c_term rho) (snd h))) hs) = bheads ar Bs hs.
Proof.
  intros n Bs Bc hs HR. unfold heads_ok, bheads. induction hs as [|h hs IH]; intro Hi; [reflexivity|]. cbn [map forallb fst snd].
  rewrite IH by (intros y Hy; apply Hi; unfold heads_ids; cbn [flat_map]; apply in_or_app; right; exact Hy). f_equal. rewrite map_length. f_equal.
  assert (Hh : incl (flat_map expr_vars (snd h)) names) by (intros y Hy; apply Hi; unfold heads_ids; cbn [flat_map]; apply in_or_app; left; exact Hy).
  revert Hh. generalize (snd h) as ts. induction ts as [|t ts IHt]; intro Hh; [reflexivity|]. cbn [map forallb].
  rewrite IHt by (intros y Hy; apply Hh; cbn [flat_map]; apply in_or_app; right; exact Hy). f_equal.
  assert (Ht : incl (expr_vars t) names) by (intros y Hy; apply Hh; cbn [flat_map]; apply in_or_app; left; exact Hy).
  destruct t as [y|k|f xs]; cbn [c_term term_vars expr_vars] in *; try reflexivity.
  - unfold subv, isub. cbn [forallb]. rewrite (Rb_imem n Bs Bc y HR (Ht y (or_introl eq_refl))). reflexivity.
  - exact (Rb_isub n Bs Bc xs HR Ht).
Qed.
End ToCoreWf.

(* the rule *)
Theorem core_of_rule_wf : forall ar r c, core_of_rule r = Some c -> strict_conj ar (sheads r) (sbody r) = true -> PlanWf.wf_rule ar c = true.
Proof.
  intros ar r c Hc Hs. rewrite core_of_rule_unfold in Hc.
  destruct (c_items (rho_of (rule_ids r)) (length (rule_ids r)) (sbody r)) as [b|] eqn:Eb; [|discriminate]. inversion Hc; subst; clear Hc.
  unfold strict_conj in Hs. destruct (strict_body ar [] (sbody r)) as [Bs1|] eqn:Es; [|discriminate].
  assert (HR0 : Rb (rule_ids r) (length (rule_ids r)) [] []). { split; [intros x _; split; intros [] | intros m []]. }
  destruct (c_items_wf ar (rule_ids r) (sbody r) (length (rule_ids r)) b [] Bs1 [] Eb Es HR0 (le_n _)) as [Bc1 [n1 [K1 K2]]];
    [intros y Hy; unfold rule_ids; apply in_or_app; left; exact Hy|].
  unfold PlanWf.wf_rule. cbn [body heads]. rewrite K1.
  rewrite (bheads_core ar (rule_ids r) n1 Bs1 Bc1 (sheads r) K2); [exact Hs|]. intros y Hy. unfold rule_ids. apply in_or_app. right. exact Hy.
Qed.
Print Assumptions core_of_rule_wf.
