(* C07 — pass 2 (pattern arguments): `?pat` replaced by a fresh variable __arg_pattern_k and the condition
   `if let pat = __arg_pattern_k` put in front of the clause's own conditions.  The direct denotation matches the
   pattern at its position; the desugared clause first binds all fresh variables and tests the patterns afterwards:
   the proof carries the list of pending pattern tests. *)
From Coq Require Import List ZArith Bool Arith Ascii Lia.
From AV Require Import Engine.Core.
From AV Require Import Engine.Sem.
From AV Require Import Syntax.Surface.
From AV Require Import Syntax.Desugar.
From AV Require Import Syntax.ToCore.
From AV Require Import Syntax.SimBase.
From AV Require Import Syntax.SimRel.
From AV Require Import Syntax.Names.
Import ListNotations.

Definition pkeys_args (args : list sarg) : list ident :=
  flat_map (fun a => match a with APat _ => [arg_pattern_key] | _ => [] end) args.
Definition pkeys (items : list sitem) : list ident :=
  flat_map (fun it => match it with IClause _ args _ => pkeys_args args | _ => [] end) items.
Definition avars (args : list sarg) : list ident := flat_map (fun b => match b with AT t => expr_vars t | _ => [] end) args.
Definition pvars (args : list sarg) : list ident := flat_map (fun b => match b with APat p => pat_ids p | _ => [] end) args.

Lemma pat_args_pat : forall g p rest,
  pat_args g (APat p :: rest) =
  let v := fst (gensym_next tr_default g arg_pattern_key) in let g1 := snd (gensym_next tr_default g arg_pattern_key) in
  (AT (SVar v) :: fst (fst (pat_args g1 rest)), SIfLet p v :: snd (fst (pat_args g1 rest)), snd (pat_args g1 rest)).
Proof. intros. cbn [pat_args]. destruct (gensym_next tr_default g arg_pattern_key). cbn [fst snd]. destruct (pat_args c rest) as [[a c'] g2]. reflexivity. Qed.
Lemma pat_args_other : forall g a rest, (forall p, a <> APat p) ->
  pat_args g (a :: rest) = (a :: fst (fst (pat_args g rest)), snd (fst (pat_args g rest)), snd (pat_args g rest)).
Proof. intros g a rest H. destruct a; try (exfalso; eapply H; reflexivity); cbn [pat_args]; destruct (pat_args g rest) as [[a' c'] g2]; reflexivity. Qed.
Lemma pat_args_state : forall args g, snd (pat_args g args) = gen_state g (pkeys_args args).
Proof.
  induction args as [|a args IH]; intro g; [reflexivity|]. destruct a as [t| |p].
  - rewrite pat_args_other by discriminate. cbn [snd]. apply IH.
  - rewrite pat_args_other by discriminate. cbn [snd]. apply IH.
  - rewrite pat_args_pat. cbn [snd]. unfold pkeys_args. cbn [flat_map app gen_state]. apply IH.
Qed.
Lemma pat_items_clause : forall g r args cs rest,
  pat_items g (IClause r args cs :: rest) =
  IClause r (fst (fst (pat_args g args))) (snd (fst (pat_args g args)) ++ cs) :: pat_items (snd (pat_args g args)) rest.
Proof. intros. cbn [pat_items]. destruct (pat_args g args) as [[a c] g1]. reflexivity. Qed.

Section Pat.
Variable I : interp.
Variable db : rel -> list tuple.
Variable X : ident -> Prop.

Definition pend := list (spat * ident * Z).
Definition pend_conds (L : pend) : list scond := map (fun q => SIfLet (fst (fst q)) (snd (fst q))) L.
Fixpoint apply_pend (L : pend) (e : senv) : option senv :=
  match L with
  | [] => Some e
  | q :: L' => match pat_match I (fst (fst q)) (snd q) e with Some e1 => apply_pend L' e1 | None => None end
  end.
Definition pend_vars (L : pend) : list ident := flat_map (fun q => pat_ids (fst (fst q))) L.
Definition pend_bound (L : pend) (e' : senv) : Prop := forall q, In q L -> e' (snd (fst q)) = Some (snd q) /\ X (snd (fst q)).

Lemma pat_match_none_indep : forall p w e e2, pat_match I p w e = None -> pat_match I p w e2 = None.
Proof. intros [q|x f] w e e2 H; cbn [pat_match] in *; [destruct (pint I q [w]) | destruct (bint I f [w])]; try discriminate; reflexivity. Qed.

Lemma apply_pend_frame : forall L e e1, apply_pend L e = Some e1 -> forall z, ~ In z (pend_vars L) -> e1 z = e z.
Proof.
  induction L as [|q L IH]; intros e e1 H z Hz; cbn [apply_pend] in H; [inversion H; reflexivity|].
  destruct (pat_match I (fst (fst q)) (snd q) e) as [e0|] eqn:Ep; [|discriminate].
  rewrite (IH e0 e1 H z). 2:{ intro Hin. apply Hz. unfold pend_vars. cbn [flat_map]. apply in_or_app. right. exact Hin. }
  apply (pat_match_frame I _ _ e e0 Ep). intro Hin. apply Hz. unfold pend_vars. cbn [flat_map]. apply in_or_app. left. exact Hin.
Qed.
Lemma apply_pend_fail : forall L q, In q L -> (forall e, pat_match I (fst (fst q)) (snd q) e = None) -> forall e, apply_pend L e = None.
Proof.
  induction L as [|q0 L IH]; intros q Hq Hf e; [destruct Hq|]. cbn [apply_pend]. destruct Hq as [->|Hq].
  - rewrite Hf. reflexivity.
  - destruct (pat_match I (fst (fst q0)) (snd q0) e); [apply (IH q Hq Hf) | reflexivity].
Qed.
Lemma apply_pend_app : forall L q e, apply_pend (L ++ [q]) e =
  match apply_pend L e with Some e1 => pat_match I (fst (fst q)) (snd q) e1 | None => None end.
Proof.
  induction L as [|q0 L IH]; intros q e; cbn [app apply_pend].
  - destruct (pat_match I (fst (fst q)) (snd q) e); reflexivity.
  - destruct (pat_match I (fst (fst q0)) (snd q0) e); [apply IH | reflexivity].
Qed.
(* binding a variable that no pending pattern binds commutes with the pending patterns *)
Lemma apply_pend_bind : forall L x v e eb, ~ In x (pend_vars L) -> (forall z, eb z = sbind x v e z) ->
  orel (fun a b => forall z, b z = sbind x v a z) (apply_pend L e) (apply_pend L eb).
Proof.
  induction L as [|q L IH]; intros x v e eb Hx Hb; cbn [apply_pend]; [exact Hb|].
  assert (Hx1 : ~ In x (pat_ids (fst (fst q)))). { intro Hin. apply Hx. unfold pend_vars. cbn [flat_map]. apply in_or_app. left. exact Hin. }
  assert (Hx2 : ~ In x (pend_vars L)). { intro Hin. apply Hx. unfold pend_vars. cbn [flat_map]. apply in_or_app. right. exact Hin. }
  destruct (fst (fst q)) as [p|y f]; cbn [pat_match pat_ids] in *.
  - destruct (pint I p [snd q]); [apply IH; assumption | exact Logic.I].
  - destruct (bint I f [snd q]) as [u|]; [|exact Logic.I]. apply IH; [exact Hx2|].
    intro z. unfold sbind at 1 2. rewrite Hb. unfold sbind. destruct (ieqb z y) eqn:E1, (ieqb z x) eqn:E2; try reflexivity.
    apply ieqb_eq in E1, E2. subst. exfalso. apply Hx1. left. reflexivity.
Qed.

Lemma conds_pend : forall L e' cs, pend_bound L e' -> (forall y, In y (pend_vars L) -> ~ X y) ->
  ssat_conds I e' (pend_conds L ++ cs) = match apply_pend L e' with Some e2 => ssat_conds I e2 cs | None => None end.
Proof.
  induction L as [|q L IH]; intros e' cs Hb Hv; [reflexivity|]. cbn [pend_conds map app ssat_conds ssat_cond apply_pend].
  destruct (Hb q (or_introl eq_refl)) as [Hq _]. rewrite Hq.
  destruct (pat_match I (fst (fst q)) (snd q) e') as [e1|] eqn:Ep; [|reflexivity]. apply IH.
  - intros q' Hq'. destruct (Hb q' (or_intror Hq')) as [H1 H2]. split; [|exact H2].
    rewrite (pat_match_frame I _ _ e' e1 Ep); [exact H1|]. intro Hin. apply (Hv (snd (fst q'))); [|exact H2].
    unfold pend_vars. cbn [flat_map]. apply in_or_app. left. exact Hin.
  - intros y Hy. apply Hv. unfold pend_vars. cbn [flat_map]. apply in_or_app. right. exact Hy.
Qed.
Lemma pend_conds_app : forall L p v w cs, pend_conds (L ++ [(p, v, w)]) ++ cs = pend_conds L ++ SIfLet p v :: cs.
Proof. intros. unfold pend_conds. rewrite map_app, <- app_assoc. reflexivity. Qed.
Lemma pend_vars_app : forall L p v w, pend_vars (L ++ [(p, v, w)]) = pend_vars L ++ pat_ids p.
Proof. intros. unfold pend_vars. rewrite flat_map_app. cbn [flat_map fst]. rewrite app_nil_r. reflexivity. Qed.

Definition dclause (e' : senv) (g : counters) (args : list sarg) (L : pend) (cs : list scond) (tup : tuple) : option senv :=
  match smatch_args I e' (fst (fst (pat_args g args))) tup with
  | Some e1' => ssat_conds I e1' (pend_conds L ++ snd (fst (pat_args g args)) ++ cs)
  | None => None
  end.

Lemma pat_args_fail : forall args g tup e' L cs q,
  In q L -> (forall e, pat_match I (fst (fst q)) (snd q) e = None) ->
  pend_bound L e' -> (forall y, In y (pend_vars L ++ pvars args) -> ~ X y) ->
  (forall y, In y (avars args) -> ~ X y) ->
  NoDup (gen_trace g (pkeys_args args)) -> (forall y, In y (gen_trace g (pkeys_args args)) -> X y /\ e' y = None) ->
  dclause e' g args L cs tup = None.
Proof.
  induction args as [|a args IH]; intros g tup e' L cs q Hq Hf Hb Hv Ha Hnd Ht; destruct tup as [|v tup]; unfold dclause.
  - cbn [pat_args fst snd smatch_args app]. rewrite conds_pend; [|exact Hb|].
    + rewrite (apply_pend_fail L q Hq Hf). reflexivity.
    + intros y Hy. apply Hv. apply in_or_app. left. exact Hy.
  - reflexivity.
  - destruct a; [rewrite pat_args_other by discriminate | rewrite pat_args_other by discriminate | rewrite pat_args_pat]; reflexivity.
  - assert (Hv' : forall L', (forall y, In y (pend_vars L') -> In y (pend_vars L ++ pvars (a :: args))) ->
                  forall y, In y (pend_vars L' ++ pvars args) -> In y (pend_vars L' ++ pvars args) -> True) by auto.
    clear Hv'.
    destruct a as [t| |p].
    + rewrite pat_args_other by discriminate. cbn [fst snd].
      assert (Hrec : forall e2, pend_bound L e2 -> (forall y, In y (gen_trace g (pkeys_args args)) -> X y /\ e2 y = None) ->
                     dclause e2 g args L cs tup = None).
      { intros e2 Hb2 Ht2. apply (IH g tup e2 L cs q Hq Hf Hb2); try assumption.
        intros y Hy. apply Ha. unfold avars. cbn [flat_map]. apply in_or_app. right. exact Hy. }
      unfold dclause in Hrec. destruct t as [x|c|f xs]; cbn [smatch_args].
      * destruct (e' x) eqn:Ex.
        -- destruct (Z.eqb z v); [apply Hrec; assumption | reflexivity].
        -- assert (Hx : ~ X x). { apply Ha. unfold avars. cbn [flat_map expr_vars]. left. reflexivity. }
           apply Hrec.
           ++ intros q' Hq'. destruct (Hb q' Hq') as [H1 H2]. split; [|exact H2]. rewrite sbind_neq; [exact H1|]. intro E. rewrite E in H2. contradiction.
           ++ intros y Hy. destruct (Ht y Hy) as [H1 H2]. split; [exact H1|]. rewrite sbind_neq; [exact H2|]. intro E. subst. contradiction.
      * destruct (seval_term I e' (SConst c)); [|reflexivity]. destruct (Z.eqb z v); [apply Hrec; assumption | reflexivity].
      * destruct (seval_term I e' (SFun f xs)); [|reflexivity]. destruct (Z.eqb z v); [apply Hrec; assumption | reflexivity].
    + rewrite pat_args_other by discriminate. cbn [fst snd smatch_args].
      apply (IH g tup e' L cs q Hq Hf Hb); assumption.
    + rewrite pat_args_pat. cbn [fst snd smatch_args].
      change (pkeys_args (APat p :: args)) with (arg_pattern_key :: pkeys_args args) in *. cbn [gen_trace] in *.
      set (v0 := fst (gensym_next tr_default g arg_pattern_key)) in *. set (g1 := snd (gensym_next tr_default g arg_pattern_key)) in *.
      destruct (Ht v0 (or_introl eq_refl)) as [HX0 Hn0]. rewrite Hn0.
      inversion Hnd as [|? ? Hnotin Hnd']; subst.
      cbn [app]. rewrite <- pend_conds_app with (w := v).
      apply (IH g1 tup (sbind v0 v e') (L ++ [(p, v0, v)]) cs q); try assumption.
      * apply in_or_app. left. exact Hq.
      * intros q' Hq'. apply in_app_or in Hq' as [Hq'|[<-|[]]].
        -- destruct (Hb q' Hq') as [H1 H2]. split; [|exact H2]. rewrite sbind_neq; [exact H1|]. intro E. rewrite E in H1. congruence.
        -- cbn [fst snd]. split; [apply sbind_eq | exact HX0].
      * intros y Hy. apply Hv. rewrite pend_vars_app in Hy. unfold pvars. cbn [flat_map]. rewrite <- app_assoc in Hy. exact Hy.
      * intros y Hy. destruct (Ht y (or_intror Hy)) as [H1 H2]. split; [exact H1|]. rewrite sbind_neq; [exact H2|]. intro E. subst. contradiction.
Qed.

Lemma pat_args_sim : forall args g tup e e' L T cs,
  (forall y, In y (pend_vars L ++ pvars args) -> ~ X y /\ ~ In y (avars args)) ->
  (forall y, In y (avars args) -> ~ X y) ->
  (forall y, In y (flat_map cond_ids cs) -> ~ X y) ->
  NoDup (gen_trace g (pkeys_args args) ++ T) -> (forall y, In y (gen_trace g (pkeys_args args) ++ T) -> X y /\ e' y = None) ->
  pend_bound L e' ->
  (exists e2, apply_pend L e' = Some e2 /\ agree X e e2) ->
  orel (srel X T) (clause_env I e args cs tup) (dclause e' g args L cs tup).
Proof.
  induction args as [|a args IH]; intros g tup e e' L T cs Hv Ha Hcs Hnd Ht Hb [e2 [Hap Hag]]; destruct tup as [|v tup]; unfold clause_env, dclause.
  - cbn [pat_args fst snd smatch_args app]. rewrite conds_pend; [|exact Hb | exact (fun y Hy => proj1 (Hv y (in_or_app _ _ _ (or_introl Hy))))].
    rewrite Hap. apply ssat_conds_rel; [exact (fun y Hy => proj1 (Ht y Hy)) | exact Hcs|].
    split; [exact Hag|]. intros y Hy. destruct (Ht y Hy) as [H1 H2].
    rewrite (apply_pend_frame L e' e2 Hap y); [exact H2|]. intro Hin. exact (proj1 (Hv y (in_or_app _ _ _ (or_introl Hin))) H1).
  - cbn. exact Logic.I.
  - destruct a; [rewrite pat_args_other by discriminate | rewrite pat_args_other by discriminate | rewrite pat_args_pat]; cbn; exact Logic.I.
  - assert (Hv2 : forall y, In y (pend_vars L ++ pvars args) -> ~ X y /\ ~ In y (avars args)).
    { intros y Hy. assert (Hy' : In y (pend_vars L ++ pvars (a :: args))).
      { apply in_app_or in Hy as [Hy|Hy]; apply in_or_app; [left; exact Hy | right; unfold pvars; cbn [flat_map]; apply in_or_app; right; exact Hy]. }
      destruct (Hv y Hy') as [H1 H2]. split; [exact H1|]. intro Hin. apply H2. unfold avars. cbn [flat_map]. apply in_or_app. right. exact Hin. }
    assert (Ha2 : forall y, In y (avars args) -> ~ X y).
    { intros y Hy. apply Ha. unfold avars. cbn [flat_map]. apply in_or_app. right. exact Hy. }
    (* a variable used by a non-pattern argument reads the same on both sides *)
    assert (Hsame : forall x, In x (avars (a :: args)) -> e x = e' x).
    { intros x Hx. rewrite (Hag x (Ha x Hx)). apply (apply_pend_frame L e' e2 Hap). intro Hin.
      destruct (Hv x (in_or_app _ _ _ (or_introl Hin))) as [_ H2]. contradiction. }
    destruct a as [t| |p].
    + rewrite pat_args_other by discriminate. cbn [fst snd].
      change (pkeys_args (AT t :: args)) with (pkeys_args args) in *.
      assert (Hin_t : forall x, In x (expr_vars t) -> In x (avars (AT t :: args))).
      { intros x Hx. unfold avars. cbn [flat_map]. apply in_or_app. left. exact Hx. }
      assert (Et : seval_term I e t = seval_term I e' t).
      { apply seval_term_ext. intros x Hx. apply Hsame. apply Hin_t. exact Hx. }
      assert (Hrec : orel (srel X T) (clause_env I e args cs tup) (dclause e' g args L cs tup)).
      { apply IH; try assumption. exists e2. split; assumption. }
      unfold clause_env, dclause in Hrec.
      destruct t as [x|c|f xs]; cbn [smatch_args].
      * cbn [seval_term] in Et. rewrite <- Et. destruct (e x) eqn:Ex.
        -- destruct (Z.eqb z v); [exact Hrec | exact Logic.I].
        -- assert (HXx : ~ X x). { apply Ha. apply Hin_t. left. reflexivity. }
           assert (Hxp : ~ In x (pend_vars L)).
           { intro Hin. destruct (Hv x (in_or_app _ _ _ (or_introl Hin))) as [_ H2]. apply H2. apply Hin_t. left. reflexivity. }
           pose proof (apply_pend_bind L x v e' (sbind x v e') Hxp (fun z => eq_refl)) as Hpb. rewrite Hap in Hpb.
           destruct (apply_pend L (sbind x v e')) as [e2b|] eqn:Eb; cbn in Hpb; [|contradiction].
           pose proof (IH g tup (sbind x v e) (sbind x v e') L T cs Hv2 Ha2 Hcs Hnd) as Hrec2.
           unfold clause_env, dclause in Hrec2. apply Hrec2.
           ++ intros y Hy. destruct (Ht y Hy) as [H1 H2]. split; [exact H1|]. rewrite sbind_neq; [exact H2|]. intro E. subst. contradiction.
           ++ intros q' Hq'. destruct (Hb q' Hq') as [H1 H2]. split; [|exact H2]. rewrite sbind_neq; [exact H1|]. intro E. rewrite E in H2. contradiction.
           ++ exists e2b. split; [exact Eb|]. intros z Hz. rewrite Hpb. unfold sbind. destruct (ieqb z x); [reflexivity | apply Hag; exact Hz].
      * rewrite <- Et. destruct (seval_term I e (SConst c)); [|exact Logic.I]. destruct (Z.eqb z v); [exact Hrec | exact Logic.I].
      * rewrite <- Et. destruct (seval_term I e (SFun f xs)); [|exact Logic.I]. destruct (Z.eqb z v); [exact Hrec | exact Logic.I].
    + rewrite pat_args_other by discriminate. cbn [fst snd smatch_args].
      pose proof (IH g tup e e' L T cs Hv2 Ha2 Hcs Hnd Ht Hb (ex_intro _ e2 (conj Hap Hag))) as Hrec.
      unfold clause_env, dclause in Hrec. exact Hrec.
    + rewrite pat_args_pat. cbn [fst snd smatch_args].
      change (pkeys_args (APat p :: args)) with (arg_pattern_key :: pkeys_args args) in *. cbn [gen_trace app] in *.
      set (v0 := fst (gensym_next tr_default g arg_pattern_key)) in *. set (g1 := snd (gensym_next tr_default g arg_pattern_key)) in *.
      destruct (Ht v0 (or_introl eq_refl)) as [HX0 Hn0]. rewrite Hn0.
      inversion Hnd as [|? ? Hnotin Hnd']; subst.
      assert (Hb1 : pend_bound (L ++ [(p, v0, v)]) (sbind v0 v e')).
      { intros q' Hq'. apply in_app_or in Hq' as [Hq'|[<-|[]]].
        - destruct (Hb q' Hq') as [H1 H2]. split; [|exact H2]. rewrite sbind_neq; [exact H1|]. intro E. rewrite E in H1. congruence.
        - cbn [fst snd]. split; [apply sbind_eq | exact HX0]. }
      assert (Ht1 : forall y, In y (gen_trace g1 (pkeys_args args) ++ T) -> X y /\ sbind v0 v e' y = None).
      { intros y Hy. destruct (Ht y (or_intror Hy)) as [H1 H2]. split; [exact H1|]. rewrite sbind_neq; [exact H2|]. intro E. subst. contradiction. }
      assert (Hv1 : forall y, In y (pend_vars (L ++ [(p, v0, v)]) ++ pvars args) -> ~ X y /\ ~ In y (avars args)).
      { intros y Hy. rewrite pend_vars_app, <- app_assoc in Hy.
        assert (Hy' : In y (pend_vars L ++ pvars (APat p :: args))) by exact Hy.
        destruct (Hv y Hy') as [H1 H2]. split; [exact H1|]. intro Hin. apply H2. exact Hin. }
      cbn [app]. rewrite <- pend_conds_app with (w := v).
      destruct (pat_match I p v e) as [e1|] eqn:Ep.
      * pose proof (IH g1 tup e1 (sbind v0 v e') (L ++ [(p, v0, v)]) T cs Hv1 Ha2 Hcs Hnd' Ht1 Hb1) as Hrec.
        unfold clause_env, dclause in Hrec. apply Hrec. clear Hrec.
        assert (Hv0p : ~ In v0 (pend_vars L)).
        { intro Hin. destruct (Hv v0 (in_or_app _ _ _ (or_introl Hin))) as [H1 _]. contradiction. }
        pose proof (apply_pend_bind L v0 v e' (sbind v0 v e') Hv0p (fun z => eq_refl)) as Hpb. rewrite Hap in Hpb.
        destruct (apply_pend L (sbind v0 v e')) as [e2b|] eqn:Eb; cbn in Hpb; [|contradiction].
        rewrite apply_pend_app, Eb. cbn [fst snd].
        assert (Hag2 : agree X e e2b).
        { intros z Hz. rewrite Hpb, sbind_neq; [apply Hag; exact Hz|]. intro E. subst. contradiction. }
        pose proof (pat_match_agree I X p v e e2b Hag2) as Hpm. rewrite Ep in Hpm.
        destruct (pat_match I p v e2b) as [e3|]; cbn in Hpm; [|contradiction]. exists e3. split; [reflexivity | exact Hpm].
      * cbn. pose proof (pat_args_fail args g1 tup (sbind v0 v e') (L ++ [(p, v0, v)]) cs (p, v0, v)) as Hfail.
        unfold dclause in Hfail. rewrite Hfail; [exact Logic.I | apply in_or_app; right; left; reflexivity | | exact Hb1 | | exact Ha2 | | ].
        -- intros e3. cbn [fst snd]. exact (pat_match_none_indep p v e e3 Ep).
        -- intros y Hy. apply Hv1. exact Hy.
        -- exact (nodup_app_l _ _ _ Hnd').
        -- intros y Hy. apply Ht1. apply in_or_app. left. exact Hy.
Qed.

Lemma pat_items_sim : forall items g e e',
  Forall no_disj items -> pats_ok items = true -> (forall y, In y (items_ids items) -> ~ X y) ->
  NoDup (gen_trace g (pkeys items)) -> (forall y, In y (gen_trace g (pkeys items)) -> X y) ->
  srel X (gen_trace g (pkeys items)) e e' ->
  sim2 (srel X []) (all_envs_s I db items e) (all_envs_s I db (pat_items g items) e').
Proof.
  induction items as [|it items IH]; intros g e e' Hnd Hpo Hi Hdup HX Hr.
  - cbn. apply sim2_single. exact Hr.
  - inversion Hnd as [|? ? Hit Hrest]; subst. cbn [pats_ok forallb] in Hpo. apply andb_true_iff in Hpo as [Hpo1 Hpo2].
    assert (Hi1 : forall y, In y (item_ids it) -> ~ X y).
    { intros y Hy. apply Hi. unfold items_ids. cbn [flat_map]. apply in_or_app. left. exact Hy. }
    assert (Hi2 : forall y, In y (items_ids items) -> ~ X y).
    { intros y Hy. apply Hi. unfold items_ids. cbn [flat_map]. apply in_or_app. right. exact Hy. }
    destruct it as [r args cs|c|x gg xs|out a bound r args|r args|ds]; try (destruct Hit; fail).
    + rewrite pat_items_clause. cbn [all_envs_s].
      change (pkeys (IClause r args cs :: items)) with (pkeys_args args ++ pkeys items) in *.
      rewrite gen_trace_app in *. rewrite <- pat_args_state in *.
      set (T := gen_trace (snd (pat_args g args)) (pkeys items)) in *.
      destruct Hr as [Hag Htodo].
      apply (sim2_flat_map (srel X T)).
      * apply sim2_clause. intro tup.
        pose proof (pat_args_sim args g tup e e' [] T cs) as Hm. unfold dclause in Hm. cbn [pend_conds map app] in Hm.
        unfold clause_env at 2. apply Hm.
        -- intros y Hy. cbn [pend_vars flat_map app] in Hy. split.
           ++ apply Hi1. cbn [item_ids]. apply in_or_app. left. unfold pvars in Hy. apply in_flat_map in Hy as [b [Hb Hy]].
              apply in_flat_map. exists b. split; [exact Hb|]. destruct b; try (destruct Hy; fail). exact Hy.
           ++ unfold clause_pats_ok in Hpo1. rewrite forallb_forall in Hpo1. unfold pvars in Hy. apply in_flat_map in Hy as [b [Hb Hy]].
              specialize (Hpo1 b Hb). destruct b as [| |p]; try (destruct Hy; fail). rewrite forallb_forall in Hpo1.
              specialize (Hpo1 y Hy). apply negb_true_iff in Hpo1. apply imem_false in Hpo1. exact Hpo1.
        -- intros y Hy. apply Hi1. cbn [item_ids]. apply in_or_app. left. unfold avars in Hy. apply in_flat_map in Hy as [b [Hb Hy]].
           apply in_flat_map. exists b. split; [exact Hb|]. destruct b; try (destruct Hy; fail). exact Hy.
        -- intros y Hy. apply Hi1. cbn [item_ids]. apply in_or_app. right. exact Hy.
        -- exact Hdup.
        -- intros y Hy. split; [apply HX; exact Hy | apply Htodo; exact Hy].
        -- intros q [].
        -- exists e'. split; [reflexivity | exact Hag].
      * intros a b Hab. apply IH; try assumption.
        -- exact (nodup_app_r _ _ _ Hdup).
        -- intros y Hy. apply HX. apply in_or_app. right. exact Hy.
    + cbn [pat_items all_envs_s]. change (pkeys (ICond c :: items)) with (pkeys items) in *.
      apply (sim2_flat_map (srel X (gen_trace g (pkeys items)))); [apply item_envs_rel; assumption|].
      intros a b Hab. apply IH; assumption.
    + cbn [pat_items all_envs_s]. change (pkeys (IGen x gg xs :: items)) with (pkeys items) in *.
      apply (sim2_flat_map (srel X (gen_trace g (pkeys items)))); [apply item_envs_rel; assumption|].
      intros a b Hab. apply IH; assumption.
    + cbn [pat_items all_envs_s]. change (pkeys (IAgg out a bound r args :: items)) with (pkeys items) in *.
      apply (sim2_flat_map (srel X (gen_trace g (pkeys items)))); [apply item_envs_rel; assumption|].
      intros a0 b Hab. apply IH; assumption.
    + cbn [pat_items all_envs_s]. change (pkeys (INeg r args :: items)) with (pkeys items) in *.
      apply (sim2_flat_map (srel X (gen_trace g (pkeys items)))); [apply item_envs_rel; assumption|].
      intros a b Hab. apply IH; assumption.
Qed.
End Pat.
