(* C07 — a well-formed program using every surface form, with the vocabulary of the correspondence runs:
   the hypotheses of the main theorem are satisfiable and its conclusion is observed by computation. *)
From Coq Require Import List ZArith Bool Arith Ascii String.
From AV Require Import Engine.Core.
From AV Require Import Engine.Sem.
From AV Require Import Engine.Strat.
From AV Require Import Engine.Vocab.
From AV Require Import Syntax.Surface.
From AV Require Import Syntax.Desugar.
From AV Require Import Syntax.ToCore.
From AV Require Import Syntax.C07Vocab.
Import ListNotations.
Open Scope Z_scope.

Definition xv (s : string) : sarg := AT (SVar (i s)).
(* relations: foo = 0 (arity 2), bar = 1 (1), foo3 = 2 (3), res = 3 (2), one = 4 (1)
   res(x, z), one(x) <-- (foo(x, y) | foo(y, x), (bar(x) | bar(y))), foo(y, _), foo3(z, z, (z + 1).min(7)) if z < y,
                         !bar(z), foo(?w @ 0..=2, ?3);
   bar(1);                                                                                                   *)
Definition ex_rule : srule :=
  {| sheads := [(3%nat, [SVar (i "x"); SVar (i "z")]); (4%nat, [SVar (i "x")])];
     sbody := [IDisj [[IClause 0%nat [xv "x"; xv "y"] []];
                      [IClause 0%nat [xv "y"; xv "x"] []; IDisj [[IClause 1%nat [xv "x"] []]; [IClause 1%nat [xv "y"] []]]]];
               IClause 0%nat [xv "y"; AWildS] [];
               IClause 2%nat [xv "z"; xv "z"; AT (SFun 0%nat [i "z"])] [SIf 0%nat [i "z"; i "y"]];
               INeg 1%nat [NKey (SVar (i "z"))];
               IClause 0%nat [APat (PBind (i "w") 110%nat); APat (PTest 23%nat)] []] |}.
Definition ex_fact : srule := {| sheads := [(1%nat, [SConst 1])]; sbody := [] |}.
Definition ex_prog : list srule := [ex_fact; ex_rule].
Definition ex_input : list fact :=
  [(0%nat, [2; 3]); (0%nat, [3; 1]); (0%nat, [1; 3]); (0%nat, [4; 4]); (2%nat, [0; 0; 1]); (2%nat, [2; 2; 3]); (2%nat, [1; 1; 1]); (2%nat, [1; 1; 2])].

Lemma ex_wf : wf_surface ex_prog = true.
Proof. vm_compute. reflexivity. Qed.
Lemma ex_interp_ok : interp_ok c07_interp (prog_fsyms ex_prog).
Proof.
  split; [intros a b; reflexivity|]. split; [intros [|t ts]; reflexivity|].
  intros f vs Hf. vm_compute in Hf. destruct Hf as [<-|[]]. reflexivity.
Qed.
(* 3 desugared rules + the fact; the (stratified) fix-points of the surface program and of the core translation of its
   desugaring coincide (bar is complete before it is negated) *)
Lemma ex_runs :
  exists Pc, core_of_prog (desugar_prog [] ex_prog) = Some Pc /\ List.length Pc = 4%nat
    /\ exists M, sstrat_fix c07_interp 20 [[ex_fact]; [ex_rule]] ex_input = Some M
         /\ strat_fix c07_interp 20 [firstn 1 Pc; skipn 1 Pc] ex_input = Some M
         /\ List.length M = 20%nat.
Proof. eexists. split; [vm_compute; reflexivity|]. split; [reflexivity|]. eexists. split; [vm_compute; reflexivity|]. split; vm_compute; reflexivity. Qed.
