(* C07 — the name supplies: every generated name reads stem ++ "_" ++ digits and determines its stem and its
   counter; names generated in sequence (whatever the initial counter state) are pairwise distinct. *)
From Coq Require Import List ZArith Bool Arith Ascii String Lia.
From Coq Require Decimal DecimalNat.
From AV Require Import Engine.Core.
From AV Require Import Syntax.Surface.
From AV Require Import Syntax.Desugar.
From AV Require Import Syntax.ToCore.
From AV Require Import Syntax.SimBase.
Import ListNotations.
Close Scope Z_scope.
Open Scope nat_scope.

Definition us : ascii := "_"%char.
Lemma tr_default_eq : forall p, tr_default p = p ++ [us].
Proof. reflexivity. Qed.

(* ---------- decimal digits ---------- *)
Lemma uint_chars_digits : forall u, forallb is_digit (uint_chars u) = true.
Proof. induction u; cbn [uint_chars forallb]; try reflexivity; rewrite IHu; reflexivity. Qed.
Lemma uint_chars_inj : forall u u', uint_chars u = uint_chars u' -> u = u'.
Proof.
  induction u; destruct u'; cbn [uint_chars]; intro H; try reflexivity; try discriminate;
    inversion H as [H1]; f_equal; apply IHu; exact H1.
Qed.
Lemma show_nat_digits : forall n, forallb is_digit (show_nat n) = true.
Proof. intro n. apply uint_chars_digits. Qed.
Lemma show_nat_inj : forall n m, show_nat n = show_nat m -> n = m.
Proof.
  intros n m H. apply uint_chars_inj in H. rewrite <- (DecimalNat.Unsigned.of_to n), <- (DecimalNat.Unsigned.of_to m), H. reflexivity.
Qed.
Lemma show_nat_nonempty : forall n, show_nat n <> [].
Proof.
  intros n H. unfold show_nat in H. destruct (Nat.to_uint n) eqn:E; cbn [uint_chars] in H; try discriminate.
  pose proof (DecimalNat.Unsigned.to_of (Nat.to_uint n)) as Hn. rewrite DecimalNat.Unsigned.of_to, E in Hn. cbn in Hn. discriminate.
Qed.

(* ---------- parse_gen ---------- *)
Lemma drop_digits_app : forall ds rest, forallb is_digit ds = true -> is_digit us = false ->
  drop_digits (ds ++ us :: rest) = us :: rest.
Proof.
  induction ds as [|d ds IH]; intros rest Hd Hu; cbn [app drop_digits].
  - rewrite Hu. reflexivity.
  - cbn [forallb] in Hd. apply andb_true_iff in Hd as [H1 H2]. rewrite H1. apply IH; assumption.
Qed.
Lemma forallb_rev : forall (A : Type) (f : A -> bool) l, forallb f l = true -> forallb f (rev l) = true.
Proof.
  intros A f l H. apply forallb_forall. intros x Hx. apply in_rev in Hx. rewrite forallb_forall in H. apply H. exact Hx.
Qed.
Lemma parse_gen_mk : forall p ds, forallb is_digit ds = true -> parse_gen (p ++ us :: ds) = Some p.
Proof.
  intros p ds Hd. unfold parse_gen. rewrite rev_app_distr. cbn [rev]. rewrite <- app_assoc. cbn [app].
  rewrite (drop_digits_app (rev ds) (rev p) (forallb_rev _ _ _ Hd) eq_refl).
  change (Ascii.eqb us "_"%char) with true. cbn. rewrite rev_involutive. reflexivity.
Qed.

(* ---------- generated names ---------- *)
Definition gen_name (p : ident) (c : option nat) : ident :=
  match c with None => tr_default p | Some n => tr_default p ++ show_nat n end.
Definition lvl (c : option nat) : nat := match c with None => O | Some n => S n end.

Lemma gen_name_shape : forall p c, exists ds, gen_name p c = p ++ us :: ds /\ forallb is_digit ds = true.
Proof.
  intros p [n|]; cbn [gen_name]; rewrite tr_default_eq.
  - exists (show_nat n). rewrite <- app_assoc. split; [reflexivity | apply show_nat_digits].
  - exists []. split; reflexivity.
Qed.
Lemma parse_gen_name : forall p c, parse_gen (gen_name p c) = Some p.
Proof. intros p c. destruct (gen_name_shape p c) as [ds [-> Hd]]. apply parse_gen_mk. exact Hd. Qed.
Lemma gen_name_inj : forall p c q c', gen_name p c = gen_name q c' -> p = q /\ c = c'.
Proof.
  intros p c q c' H. assert (Hp : p = q).
  { pose proof (parse_gen_name p c) as H1. rewrite H, parse_gen_name in H1. congruence. }
  subst q. split; [reflexivity|]. destruct c as [n|], c' as [m|]; cbn [gen_name] in H.
  - apply app_inv_head in H. apply show_nat_inj in H. congruence.
  - rewrite <- (app_nil_r (tr_default p)) in H at 2. apply app_inv_head in H. exfalso. exact (show_nat_nonempty n H).
  - rewrite <- (app_nil_r (tr_default p)) in H at 1. apply app_inv_head in H. exfalso. exact (show_nat_nonempty m (eq_sym H)).
  - reflexivity.
Qed.

(* ---------- counters ---------- *)
Lemma cget_cset_same : forall p n g m, cget p g = Some m -> cget p (cset p n g) = Some n.
Proof.
  intros p n. induction g as [|[q k] g IH]; intros m H; cbn [cget cset] in *; [discriminate|].
  destruct (ieqb p q) eqn:E; cbn [cget]; rewrite E; [reflexivity | exact (IH m H)].
Qed.
Lemma cget_cset_other : forall p q n g, q <> p -> cget q (cset p n g) = cget q g.
Proof.
  intros p q n. induction g as [|[r k] g IH]; intro H; cbn [cget cset]; [reflexivity|].
  destruct (ieqb p r) eqn:E; cbn [cget].
  - apply ieqb_eq in E. subst r. apply ieqb_neq in H. rewrite H. reflexivity.
  - destruct (ieqb q r); [reflexivity | exact (IH H)].
Qed.
Lemma gensym_next_name : forall g p, fst (gensym_next tr_default g p) = gen_name p (cget p g).
Proof. intros g p. unfold gensym_next. destruct (cget p g); reflexivity. Qed.
Lemma gensym_next_lvl_same : forall g p, lvl (cget p g) < lvl (cget p (snd (gensym_next tr_default g p))).
Proof.
  intros g p. unfold gensym_next. destruct (cget p g) as [n|] eqn:E; cbn [snd].
  - rewrite (cget_cset_same p (S n) g n E). cbn [lvl]. lia.
  - cbn [cget]. rewrite ieqb_refl. cbn [lvl]. lia.
Qed.
Lemma gensym_next_lvl_other : forall g p q, q <> p -> cget q (snd (gensym_next tr_default g p)) = cget q g.
Proof.
  intros g p q H. unfold gensym_next. destruct (cget p g) as [n|] eqn:E; cbn [snd].
  - apply cget_cset_other. exact H.
  - cbn [cget]. apply ieqb_neq in H. rewrite H. reflexivity.
Qed.

(* names generated by a sequence of requests for the keys ks *)
Fixpoint gen_trace (g : counters) (ks : list ident) : list ident :=
  match ks with
  | [] => []
  | p :: ks' => fst (gensym_next tr_default g p) :: gen_trace (snd (gensym_next tr_default g p)) ks'
  end.
Fixpoint gen_state (g : counters) (ks : list ident) : counters :=
  match ks with [] => g | p :: ks' => gen_state (snd (gensym_next tr_default g p)) ks' end.
Lemma gen_trace_app : forall ks1 ks2 g, gen_trace g (ks1 ++ ks2) = gen_trace g ks1 ++ gen_trace (gen_state g ks1) ks2.
Proof. induction ks1 as [|p ks1 IH]; intros ks2 g; cbn [app gen_trace gen_state]; [reflexivity|]. rewrite IH. reflexivity. Qed.
Lemma gen_state_app : forall ks1 ks2 g, gen_state g (ks1 ++ ks2) = gen_state (gen_state g ks1) ks2.
Proof. induction ks1 as [|p ks1 IH]; intros ks2 g; cbn [app gen_state]; [reflexivity|]. apply IH. Qed.

Lemma gen_trace_lvl : forall ks g w, In w (gen_trace g ks) ->
  exists q c, In q ks /\ w = gen_name q c /\ lvl (cget q g) <= lvl c.
Proof.
  induction ks as [|p ks IH]; intros g w Hw; [destruct Hw|]. cbn [gen_trace] in Hw. destruct Hw as [<-|Hw].
  - exists p, (cget p g). split; [left; reflexivity|]. split; [apply gensym_next_name | lia].
  - destruct (IH _ w Hw) as [q [c [Hq [-> Hl]]]]. exists q, c. split; [right; exact Hq|]. split; [reflexivity|].
    destruct (ident_dec q p) as [->|Hne].
    + pose proof (gensym_next_lvl_same g p). lia.
    + rewrite (gensym_next_lvl_other g p q Hne) in Hl. exact Hl.
Qed.
Theorem gen_trace_nodup : forall ks g, NoDup (gen_trace g ks).
Proof.
  induction ks as [|p ks IH]; intro g; cbn [gen_trace]; constructor; [|apply IH].
  intro Hin. destruct (gen_trace_lvl ks _ _ Hin) as [q [c [_ [E Hl]]]]. rewrite gensym_next_name in E.
  apply gen_name_inj in E as [<- <-]. pose proof (gensym_next_lvl_same g p). lia.
Qed.
Lemma gen_trace_stem : forall ks g w, In w (gen_trace g ks) -> exists q, In q ks /\ parse_gen w = Some q.
Proof.
  intros ks g w Hw. destruct (gen_trace_lvl ks g w Hw) as [q [c [Hq [-> _]]]]. exists q. split; [exact Hq | apply parse_gen_name].
Qed.

(* ---------- consequences of name_ok ---------- *)
Lemma name_ok_stem : forall ids s p, name_ok ids s = true -> parse_gen s = Some p ->
  ~ In p ids /\ ~ In p fixed_stems /\ parse_gen p = None.
Proof.
  intros ids s p H Hp. unfold name_ok in H. rewrite Hp in H. apply andb_true_iff in H as [_ H].
  apply negb_true_iff in H. apply orb_false_iff in H as [H H3]. apply orb_false_iff in H as [H1 H2].
  split; [apply imem_false; exact H1|]. split; [apply imem_false; exact H2|].
  unfold is_gen_shaped in H3. destruct (parse_gen p); [discriminate | reflexivity].
Qed.
Lemma name_ok_not_keys : forall ids s, name_ok ids s = true -> s <> arg_pattern_key /\ s <> wild_key.
Proof.
  intros ids s H. unfold name_ok in H. apply andb_true_iff in H as [H _]. apply andb_true_iff in H as [H1 H2].
  apply negb_true_iff in H1, H2. split; apply ieqb_neq; assumption.
Qed.
