(* C07 — model of the code the macro generates for a negated clause, over the kinds of index it can be compiled against.

   `!r(args)` is desugared to `agg () = ::ascent::aggregators::not() in r(args)` (Syntax/Desugar.v, theorem c07_negation);
   every non-wildcard argument of the negation is a key column of the index the clause reads.  The generated code
   (ascent_codegen.rs, MirBodyItem::Agg) is

       let __matching = index.index_get(&key);                      // Option<iterator>
       let __agg_args = __matching.into_iter().flatten().map(..);
       for () in not(__agg_args) { <rest of the rule> }             // not(it) = if it.next().is_some() {None} else {Some(())}

   What `index_get` answers for a key that no row has depends on the index type:
     IxHash    : a map whose entries are created by inserts (RelIndexType / RelFullIndexType, CRelIndex / CRelFullIndex,
                 the keyed views of the BYODS providers): None;
     IxKeyless : the index on no column (`[]`) of ascent_par! (CRelNoIndex) and of every BYODS provider (EqRelIndNone,
                 TrRelIndNone, ByodsBinRelIndNone, the ternary adaptors): ALWAYS Some(iterator over all rows), also when the
                 relation is empty.
   No proofs in this file. *)
From Coq Require Import List ZArith Bool.
From AV Require Import Engine.Core.
From AV Require Import Syntax.Surface.
Import ListNotations.
Open Scope Z_scope.

(* key columns with the value looked up in each *)
Definition keyvals := list (nat * Z).

(* position and value of every non-wildcard argument of a negation; None: an argument does not evaluate (rejected by rustc) *)
Fixpoint neg_key (I : interp) (e : senv) (args : list snarg) (pos : nat) : option keyvals :=
  match args with
  | [] => Some []
  | NWild :: args' => neg_key I e args' (S pos)
  | NKey t :: args' =>
      match seval_term I e t, neg_key I e args' (S pos) with
      | Some w, Some l => Some ((pos, w) :: l)
      | _, _ => None
      end
  end.

Definition key_matches (kv : keyvals) (t : tuple) : bool :=
  forallb (fun cw => Z.eqb (nth (fst cw) t 0) (snd cw)) kv.

Inductive index_kind := IxHash | IxKeyless.

(* a key-less index exists for the empty column list only *)
Definition kind_ok (k : index_kind) (kv : keyvals) : Prop :=
  match k with IxHash => True | IxKeyless => kv = [] end.

Definition index_get (k : index_kind) (kv : keyvals) (rows : list tuple) : option (list tuple) :=
  match k with
  | IxHash => match filter (key_matches kv) rows with [] => None | m => Some m end
  | IxKeyless => Some rows
  end.

(* ascent::aggregators::not *)
Definition not_aggregator {A : Type} (it : list A) : list unit :=
  match it with [] => [tt] | _ :: _ => [] end.

(* the generated code: does the rule go on?  (`into_iter().flatten()` of the Option, then the aggregator) *)
Definition neg_code (k : index_kind) (kv : keyvals) (rows : list tuple) : bool :=
  match not_aggregator (match index_get k kv rows with Some m => m | None => [] end) with
  | [] => false
  | _ :: _ => true
  end.

(* the short cut that only looks at the Option (`index_get(key).is_none()`) *)
Definition neg_fast_path (k : index_kind) (kv : keyvals) (rows : list tuple) : bool :=
  match index_get k kv rows with None => true | Some _ => false end.

(* specification of a negation: no row matches the key *)
Definition neg_spec (kv : keyvals) (rows : list tuple) : bool := negb (existsb (key_matches kv) rows).
