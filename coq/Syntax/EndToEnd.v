(* END-TO-END (B10) — surface program -> desugar (Syntax/Desugar.v, mirror of desugar_ascent_program) -> core syntax
   (Syntax/ToCore.v) -> planner model (Plan/PlanModel.v compile_model, mirror of compile_hir_to_mir) -> engine model
   (Engine/Eval.v run_plan, model of the generated code)  =  the least / stratified model of the SURFACE program under
   its DIRECT denotation (Syntax/Surface.v).

   Composition of
     (1) C07   Syntax/C07Main.v       desugar_models / desugar_prog_sem / core_of_rule_sem
     (2) B10   Syntax/EndToEndWf.v    desugar_output_wf_core        (the link that was missing)
               Syntax/EndToEndNoAgg.v desugar_output_no_agg
     (3) Plan  Plan/PlanMain.v        planner_engine_correct / planner_engine_strat_correct
               (= PlanProofs.compile_model_valid + Engine/Main.v run_plan_correct_full / MainAgg.v run_plan_strat_correct_full).

   Hypotheses on the surface program, all boolean except the interpretation of the symbols:
     wf_surface P            (C07: names outside the generated name space, scoped expression arguments, pattern variables)
     wf_binding arities P    (B10: arities, bound before use, binders new; EndToEndDefs.v)
     no_agg_surface P        (first theorem only)
     interp_ok I (prog_fsyms P)   (`==` is equality, not() is negation, `let` evaluates its expression).
   Like the engine theorems these are partial-correctness statements: `run_plan .. = Some st` says the fuel sufficed. *)
From Coq Require Import List ZArith Bool Arith Ascii Permutation.
From AV Require Import Engine.Core.
From AV Require Import Engine.Sem.
From AV Require Import Engine.Eval.
From AV Require Import Engine.Validate.
From AV Require Import Engine.Naive.
From AV Require Import Engine.NaiveLemmas.
From AV Require Import Engine.Strat.
From AV Require Import Engine.StratFixed.
From AV Require Import Engine.SemiNaiveAgg.
From AV Require Import Engine.InterfaceAgg.
From AV Require Import Plan.PlanModel.
From AV Require Import Plan.PlanWf.
From AV Require Import Plan.PlanProofs.
From AV Require Import Plan.PlanMain.
From AV Require Import Syntax.Surface.
From AV Require Import Syntax.Desugar.
From AV Require Import Syntax.ToCore.
From AV Require Import Syntax.SimBase.
From AV Require Import Syntax.CoreProof.
From AV Require Import Syntax.C07Main.
From AV Require Import Syntax.EndToEndDefs.
From AV Require Import Syntax.EndToEndWf.
From AV Require Import Syntax.EndToEndNoAgg.
Import ListNotations.

(* the core program the front end hands to the planner ([] outside the domain of the translation; under wf_surface the
   translation is defined: C07 desugar_derives) *)
Definition to_core (cs : counters) (P : list srule) : list rule :=
  match core_of_prog (desugar_prog cs P) with Some Pc => Pc | None => [] end.

(* ================= relations only: the least model ================= *)
Theorem end_to_end_least_model : forall (I : interp) swap arities P cs,
  wf_surface P = true -> wf_binding arities P = true -> no_agg_surface P = true -> interp_ok I (prog_fsyms P) ->
  exists Pc, core_of_prog (desugar_prog cs P) = Some Pc /\ wf_core arities Pc = true /\ no_agg Pc = true
    /\ forall sccs fuel F0 st,
         arities_functional arities -> wf_facts arities F0 = true -> sccs_ok Pc sccs = true ->
         run_plan I swap fuel (compile_model arities Pc sccs) (init_state F0) = Some st ->
         sleast_model I P F0 (rows st)
         /\ exists added, rows st = F0 ++ added /\ NoDup added /\ (forall f, In f added -> ~ In f F0).
Proof.
  intros I swap ar P cs Hwf Hb Hna Hi. destruct (desugar_models I P cs Hwf Hi) as [Pc [E [M _]]]. exists Pc. split; [exact E|].
  pose proof (desugar_output_wf_core_surface ar P cs Pc Hwf Hb E) as Hwc. pose proof (desugar_output_no_agg P cs Pc Hna E) as Hnc.
  split; [exact Hwc|]. split; [exact Hnc|]. intros sccs fuel F0 st Har HF Hok Hrun.
  destruct (planner_engine_correct I swap ar Pc sccs fuel F0 st Har HF Hnc Hwc Hok Hrun) as [L A]. split; [apply M; exact L | exact A].
Qed.

(* the same in the form `run_plan (compile_model arities (to_core (desugar P)) sccs) (init_state F0) = Some st -> ..` *)
Corollary end_to_end_least_model_fn : forall (I : interp) swap arities P cs sccs fuel F0 st,
  wf_surface P = true -> wf_binding arities P = true -> no_agg_surface P = true -> interp_ok I (prog_fsyms P) ->
  arities_functional arities -> wf_facts arities F0 = true -> sccs_ok (to_core cs P) sccs = true ->
  run_plan I swap fuel (compile_model arities (to_core cs P) sccs) (init_state F0) = Some st ->
  sleast_model I P F0 (rows st)
  /\ exists added, rows st = F0 ++ added /\ NoDup added /\ (forall f, In f added -> ~ In f F0).
Proof.
  intros I swap ar P cs sccs fuel F0 st Hwf Hb Hna Hi Har HF Hok Hrun.
  destruct (end_to_end_least_model I swap ar P cs Hwf Hb Hna Hi) as [Pc [E [_ [_ H]]]]. unfold to_core in *. rewrite E in *.
  exact (H sccs fuel F0 st Har HF Hok Hrun).
Qed.

(* least models are unique as sets: the rows of any two successful runs (any two SCC partitions, join-order oracles,
   counter states, fuels) of the pipeline contain the same facts *)
Corollary end_to_end_deterministic : forall (I : interp) swap swap' arities P cs cs' sccs sccs' fuel fuel' F0 st st',
  wf_surface P = true -> wf_binding arities P = true -> no_agg_surface P = true -> interp_ok I (prog_fsyms P) ->
  arities_functional arities -> wf_facts arities F0 = true ->
  sccs_ok (to_core cs P) sccs = true -> sccs_ok (to_core cs' P) sccs' = true ->
  run_plan I swap fuel (compile_model arities (to_core cs P) sccs) (init_state F0) = Some st ->
  run_plan I swap' fuel' (compile_model arities (to_core cs' P) sccs') (init_state F0) = Some st' ->
  forall f, In f (rows st) <-> In f (rows st').
Proof.
  intros I swap swap' ar P cs cs' sccs sccs' fuel fuel' F0 st st' Hwf Hb Hna Hi Har HF Hok Hok' Hrun Hrun'.
  destruct (end_to_end_least_model_fn I swap ar P cs sccs fuel F0 st Hwf Hb Hna Hi Har HF Hok Hrun) as [[A1 [A2 A3]] _].
  destruct (end_to_end_least_model_fn I swap' ar P cs' sccs' fuel' F0 st' Hwf Hb Hna Hi Har HF Hok' Hrun') as [[B1 [B2 B3]] _].
  intro f. split; intro H; [exact (A3 _ B1 B2 f H) | exact (B3 _ A1 A2 f H)].
Qed.

(* ================= with aggregation / negation: the stratified model ================= *)
(* relations aggregated (after desugaring: also negated) by a rule / a stratum of desugared rules *)
Definition srule_agg_rels (r : srule) : list rel :=
  flat_map (fun it => match it with IAgg _ _ _ q _ => [q] | _ => [] end) (sbody r).
Definition sstratum_agg_rels (s : list srule) : list rel := flat_map srule_agg_rels s.
(* the stratified model under the DIRECT surface denotation, the aggregated relations of each stratum held fixed
   (C07Main.sleast_model_fixed = StratFixed.least_model_fixed with sclosed for closed) *)
Fixpoint sstrat_model_fixed (I : interp) (strata : list (list srule)) (F0 M : list fact) : Prop :=
  match strata with
  | [] => incl F0 M /\ incl M F0
  | s :: rest => exists M1, sleast_model_fixed I (sstratum_agg_rels s) s F0 M1 /\ sstrat_model_fixed I rest M1 M
  end.
(* the strata an SCC partition (lists of rule numbers) induces on a list of rules *)
Definition surface_strata (Q : list srule) (sccs : list (list nat)) : list (list srule) :=
  map (fun scc => filter_map (fun j => nth_error Q j) scc) sccs.

Definition stratum_rel (I : interp) (S : list rule) (SS : list srule) : Prop :=
  (forall F f, derives I S F f <-> sderives I SS F f) /\ (forall q, In q (stratum_agg_rels S) <-> In q (sstratum_agg_rels SS)).

Lemma agree_on_ext : forall qs qs' F M, (forall q, In q qs <-> In q qs') -> (agree_on qs F M <-> agree_on qs' F M).
Proof. intros qs qs' F M H. unfold agree_on. split; intros K f Hf; apply K; apply H; exact Hf. Qed.
Lemma least_model_fixed_transfer : forall I S SS F M, stratum_rel I S SS ->
  (least_model_fixed I S F M <-> sleast_model_fixed I (sstratum_agg_rels SS) SS F M).
Proof.
  intros I S SS F M [D A]. assert (C : forall M0, closed I S M0 <-> sclosed I SS M0).
  { intro M0. unfold closed, sclosed. split; intros H f Hf; apply H; apply D; exact Hf. }
  unfold least_model_fixed, sleast_model_fixed. split; intros [H1 [H2 [H3 H4]]].
  - split; [exact H1|]. split; [apply (agree_on_ext _ _ F M A); exact H2|]. split; [apply C; exact H3|].
    intros M' K1 K2 K3. apply H4; [exact K1 | apply (agree_on_ext _ _ F M' A); exact K2 | apply C; exact K3].
  - split; [exact H1|]. split; [apply (agree_on_ext _ _ F M A); exact H2|]. split; [apply C; exact H3|].
    intros M' K1 K2 K3. apply H4; [exact K1 | apply (agree_on_ext _ _ F M' A); exact K2 | apply C; exact K3].
Qed.
Lemma strat_model_fixed_transfer : forall I strata sstrata, Forall2 (stratum_rel I) strata sstrata ->
  forall F0 M, strat_model_fixed I strata F0 M <-> sstrat_model_fixed I sstrata F0 M.
Proof.
  intros I strata sstrata HF. induction HF as [|S SS strata sstrata HS HF IH]; intros F0 M; cbn [strat_model_fixed sstrat_model_fixed]; [reflexivity|].
  split; intros [M1 [H1 H2]]; exists M1; (split; [apply (least_model_fixed_transfer I S SS F0 M1 HS); exact H1 | apply IH; exact H2]).
Qed.

(* rule by rule: a desugared rule and its core translation *)
Definition rule_pair (I : interp) (r : srule) (c : rule) : Prop :=
  (forall db f, In f (sderive_rule I db r) <-> In f (derive_rule I db c)) /\ rule_agg_rels c = srule_agg_rels r.

Lemma c_items_agg_rels : forall rho items n l, c_items rho n items = Some l ->
  flat_map (fun b => match b with BAgg _ _ _ q _ => [q] | _ => [] end) l
  = flat_map (fun it => match it with IAgg _ _ _ q _ => [q] | _ => [] end) items.
Proof.
  intros rho. induction items as [|it items IH]; intros n l Hc; cbn [c_items] in Hc; [inversion Hc; reflexivity|].
  destruct (c_item rho n it) as [[li ni]|] eqn:Ei; [|discriminate]. destruct (c_items rho ni items) as [l'|] eqn:El; [|discriminate].
  inversion Hc; subst. rewrite flat_map_app, (IH ni l' El). cbn [flat_map]. f_equal.
  destruct it as [r args cs|c|x gg xs|out a bound r args|r args|ds]; cbn [c_item] in Ei; try discriminate.
  - destruct (c_args rho args); [|discriminate]. destruct (c_conds rho n cs) as [[lc nc]|]; [|discriminate]. inversion Ei; subst. reflexivity.
  - destruct (c_cond rho n c) as [[lc nc]|]; [|discriminate]. inversion Ei; subst. clear. induction lc as [|c lc IHc]; [reflexivity | exact IHc].
  - inversion Ei; subst. reflexivity.
  - inversion Ei; subst. reflexivity.
Qed.
Lemma core_of_rule_agg_rels : forall r c, core_of_rule r = Some c -> rule_agg_rels c = srule_agg_rels r.
Proof.
  intros r c Hc. unfold core_of_rule in Hc. destruct (c_items _ _ (sbody r)) as [b|] eqn:Eb; [|discriminate]. inversion Hc; subst.
  unfold rule_agg_rels, srule_agg_rels. cbn [body]. exact (c_items_agg_rels _ _ _ _ Eb).
Qed.

Lemma core_of_prog_pairs : forall I FS Q Qc,
  (forall a b, pint I eq_pred_sym [a; b] = Z.eqb a b) -> (forall f vs, In f FS -> bint I f vs = Some (fint I f vs)) ->
  Forall (out_ok FS) Q -> core_of_prog Q = Some Qc -> Forall2 (rule_pair I) Q Qc.
Proof.
  intros I FS Q Qc Heq Hlet. revert Qc. induction Q as [|r Q IH]; intros Qc HF Hc; cbn [core_of_prog] in Hc; [inversion Hc; constructor|].
  inversion HF as [|? ? [Hr1 Hr2] HQ]; subst. destruct (core_of_rule r) as [c|] eqn:Ec; [|discriminate]. destruct (core_of_prog Q) as [l|] eqn:El; [|discriminate].
  inversion Hc; subst. constructor; [|exact (IH l HQ eq_refl)]. split; [|exact (core_of_rule_agg_rels r c Ec)].
  intros db f. exact (core_of_rule_sem I db r c Heq (fun f0 vs Hf => Hlet f0 vs (Hr2 f0 Hf)) Ec f).
Qed.
Lemma Forall2_nth_l : forall (A B : Type) (R : A -> B -> Prop) l l' j a, Forall2 R l l' -> nth_error l j = Some a -> exists b, nth_error l' j = Some b /\ R a b.
Proof.
  intros A B R l l' j a H. revert j. induction H as [|x y l l' Hxy H IH]; intros j Hj; destruct j as [|j]; cbn [nth_error] in *; try discriminate.
  - inversion Hj; subst. exists y. auto.
  - exact (IH j Hj).
Qed.
Lemma Forall2_nth_r : forall (A B : Type) (R : A -> B -> Prop) l l' j b, Forall2 R l l' -> nth_error l' j = Some b -> exists a, nth_error l j = Some a /\ R a b.
Proof.
  intros A B R l l' j b H. revert j. induction H as [|x y l l' Hxy H IH]; intros j Hj; destruct j as [|j]; cbn [nth_error] in *; try discriminate.
  - inversion Hj; subst. exists x. auto.
  - exact (IH j Hj).
Qed.

Lemma stratum_rel_of_pairs : forall I Q Qc S scc, Forall2 (rule_pair I) Q Qc ->
  (forall c, In c S <-> exists j, In j scc /\ nth_error Qc j = Some c) ->
  stratum_rel I S (filter_map (fun j => nth_error Q j) scc).
Proof.
  intros I Q Qc S scc HP HS. split.
  - intros F f. unfold derives, sderives. split.
    + intros [c [Hc Hf]]. apply HS in Hc as [j [Hj Hn]]. destruct (Forall2_nth_r _ _ _ _ _ j c HP Hn) as [r [Hr [Hd _]]].
      exists r. split; [apply in_filter_map; exists j; split; assumption | apply Hd; exact Hf].
    + intros [r [Hr Hf]]. apply in_filter_map in Hr as [j [Hj Hn]]. destruct (Forall2_nth_l _ _ _ _ _ j r HP Hn) as [c [Hc [Hd _]]].
      exists c. split; [apply HS; exists j; split; assumption | apply Hd; exact Hf].
  - intro q. unfold stratum_agg_rels, sstratum_agg_rels. rewrite !in_flat_map. split.
    + intros [c [Hc Hq]]. apply HS in Hc as [j [Hj Hn]]. destruct (Forall2_nth_r _ _ _ _ _ j c HP Hn) as [r [Hr [_ Ha]]].
      exists r. split; [apply in_filter_map; exists j; split; assumption | rewrite <- Ha; exact Hq].
    + intros [r [Hr Hq]]. apply in_filter_map in Hr as [j [Hj Hn]]. destruct (Forall2_nth_l _ _ _ _ _ j r HP Hn) as [c [Hc [_ Ha]]].
      exists c. split; [apply HS; exists j; split; assumption | rewrite Ha; exact Hq].
Qed.

(* STATEMENT PROVED.  For EVERY SCC partition accepted by sccs_ok the strata are groups of DESUGARED rules (an arbitrary
   partition may put two rules of the disjunction product of one sugared rule into different SCCs), so the theorem is
   stated on the desugared program Q = desugar_prog cs P, a program of the surface language read with the DIRECT
   denotation, together with: Q and P derive the same facts from every fact set (hence have the same closed sets). *)
Theorem end_to_end_strat_model : forall (I : interp) swap arities P cs,
  wf_surface P = true -> wf_binding arities P = true -> interp_ok I (prog_fsyms P) ->
  exists Pc, core_of_prog (desugar_prog cs P) = Some Pc /\ wf_core arities Pc = true
    /\ (forall F f, sderives I P F f <-> sderives I (desugar_prog cs P) F f)
    /\ forall sccs fuel F0 st,
         arities_functional arities -> wf_facts arities F0 = true -> NoDup F0 -> agg_perm_invariant I -> sccs_ok Pc sccs = true ->
         run_plan I swap fuel (compile_model arities Pc sccs) (init_state F0) = Some st ->
         sstrat_model_fixed I (surface_strata (desugar_prog cs P) sccs) F0 (rows st)
         /\ NoDup (rows st) /\ exists added, rows st = F0 ++ added.
Proof.
  intros I swap ar P cs Hwf Hb Hi. destruct (desugar_derives I P cs Hwf Hi) as [Pc [E D]]. exists Pc. split; [exact E|].
  pose proof (desugar_output_wf_core_surface ar P cs Pc Hwf Hb E) as Hwc. split; [exact Hwc|].
  destruct Hi as [Heq [Hnot Hlet]].
  assert (Hout : Forall (out_ok (prog_fsyms P)) (desugar_prog cs P)).
  { exact (proj2 (desugar_prog_sem I (fun _ => []) (prog_fsyms P) Hnot P cs Hwf (incl_refl _))). }
  pose proof (core_of_prog_pairs I (prog_fsyms P) _ Pc Heq Hlet Hout E) as HP.
  split.
  { intros F f. unfold sderives. exact (proj1 (desugar_prog_sem I (db_of F) (prog_fsyms P) Hnot P cs Hwf (incl_refl _)) f). }
  intros sccs fuel F0 st Har HF Hnd Hperm Hok Hrun.
  destruct (planner_engine_strat_correct I swap ar Pc sccs fuel F0 st Har HF Hnd Hperm Hwc Hok Hrun) as [_ [_ [HS [HN HA]]]].
  split; [|split; assumption].
  apply (strat_model_fixed_transfer I (plan_strata Pc (compile_model ar Pc sccs)) (surface_strata (desugar_prog cs P) sccs)); [|exact HS].
  pose proof (plan_strata_compile std_free_ident ar Pc sccs Hok) as HF2. change (compile_model_gen std_free_ident ar Pc sccs) with (compile_model ar Pc sccs) in HF2.
  unfold surface_strata. revert HF2. generalize (plan_strata Pc (compile_model ar Pc sccs)) as strata. generalize sccs as l.
  induction l as [|scc l IH]; intros strata HF2; inversion HF2 as [|S ? strata' ? HS1 HF2']; subst; cbn [map]; constructor.
  - exact (stratum_rel_of_pairs I _ Pc S scc HP HS1).
  - exact (IH strata' HF2').
Qed.

(* programs deriving the same facts have the same fixed-aggregate least models (to move between P and its desugaring) *)
Lemma sleast_model_fixed_ext : forall I qs qs' P Q F M,
  (forall q, In q qs <-> In q qs') -> (forall F0 f, sderives I P F0 f <-> sderives I Q F0 f) ->
  sleast_model_fixed I qs Q F M -> sleast_model_fixed I qs' P F M.
Proof.
  intros I qs qs' P Q F M A D [H1 [H2 [H3 H4]]]. assert (C : forall M0, sclosed I P M0 <-> sclosed I Q M0).
  { intro M0. unfold sclosed. split; intros H f Hf; apply H; apply D; exact Hf. }
  split; [exact H1|]. split; [apply (agree_on_ext _ _ F M A); exact H2|]. split; [apply C; exact H3|].
  intros M' K1 K2 K3. apply H4; [exact K1 | apply (agree_on_ext _ _ F M' A); exact K2 | apply C; exact K3].
Qed.

(* STRATA OF P's OWN SUGARED RULES (statement here, proof in Syntax/EndToEndSugared.v end_to_end_strat_model_sugared).
   [groups] = an ordered grouping of the rule numbers of P; the SCC handed to the planner for a group consists of the rule
   numbers, in the desugared program, of the disjunction products of the group's rules ([block_numbers]): the partitions that
   do not split a disjunction product.  (end_to_end_strat_model above is what holds for EVERY sccs_ok partition.)
   The relations held fixed in a stratum are those its sugared rules aggregate or negate ([sagg_rels_sugared]). *)
Fixpoint block_numbers (cs : counters) (P : list srule) (off : nat) : list (list nat) :=
  match P with
  | [] => []
  | r :: rest => let (rs, cs1) := desugar_rule cs r in seq off (List.length rs) :: block_numbers cs1 rest (off + List.length rs)
  end.
Definition sagg_rels_sugared (r : srule) : list rel :=
  flat_map (fun b => flat_map (fun it => match it with IAgg _ _ _ q _ => [q] | INeg q _ => [q] | _ => [] end) b) (disj_items (sbody r)).
Fixpoint sstrat_model_sugared (I : interp) (strata : list (list srule)) (F0 M : list fact) : Prop :=
  match strata with
  | [] => incl F0 M /\ incl M F0
  | s :: rest => exists M1, sleast_model_fixed I (flat_map sagg_rels_sugared s) s F0 M1 /\ sstrat_model_sugared I rest M1 M
  end.
Definition end_to_end_strat_model_sugared_stmt : Prop :=
  forall (I : interp) swap arities P cs (groups : list (list nat)) fuel F0 st,
    wf_surface P = true -> wf_binding arities P = true -> interp_ok I (prog_fsyms P) ->
    arities_functional arities -> wf_facts arities F0 = true -> NoDup F0 -> agg_perm_invariant I ->
    let sccs := map (fun g => flat_map (fun k => nth k (block_numbers cs P 0) []) g) groups in
    sccs_ok (to_core cs P) sccs = true ->
    run_plan I swap fuel (compile_model arities (to_core cs P) sccs) (init_state F0) = Some st ->
    sstrat_model_sugared I (map (fun g => filter_map (fun k => nth_error P k) g) groups) F0 (rows st).

Print Assumptions end_to_end_least_model.
Print Assumptions end_to_end_least_model_fn.
Print Assumptions end_to_end_deterministic.
Print Assumptions end_to_end_strat_model.
