(* C07 — basic lemmas about the direct denotation: identifiers, string environments, agreement of
   environments outside a set of names, frame / congruence / boundness lemmas for body items. *)
From Coq Require Import List ZArith Bool Arith Ascii Lia.
From AV Require Import Engine.Core.
From AV Require Import Engine.Sem.
From AV Require Import Syntax.Surface.
From AV Require Import Syntax.Desugar.
From AV Require Import Syntax.ToCore.
Import ListNotations.
Open Scope Z_scope.

(* ---------- identifiers ---------- *)
Lemma ieqb_eq : forall a b, ieqb a b = true <-> a = b.
Proof.
  induction a as [|x a IH]; destruct b as [|y b]; cbn [ieqb]; split; intro H; try reflexivity; try discriminate.
  - apply andb_true_iff in H as [H1 H2]. apply Ascii.eqb_eq in H1. apply IH in H2. subst. reflexivity.
  - inversion H; subst. rewrite Ascii.eqb_refl. cbn. apply IH. reflexivity.
Qed.
Lemma ieqb_refl : forall a, ieqb a a = true.
Proof. intro a. apply ieqb_eq. reflexivity. Qed.
Lemma ieqb_neq : forall a b, ieqb a b = false <-> a <> b.
Proof.
  intros a b. split.
  - intros H E. subst. rewrite ieqb_refl in H. discriminate.
  - intros H. destruct (ieqb a b) eqn:E; [|reflexivity]. apply ieqb_eq in E. contradiction.
Qed.
Lemma ieqb_sym : forall a b, ieqb a b = ieqb b a.
Proof.
  intros a b. destruct (ieqb a b) eqn:E.
  - apply ieqb_eq in E. subst. symmetry. apply ieqb_refl.
  - apply ieqb_neq in E. symmetry. apply ieqb_neq. congruence.
Qed.
Lemma ident_dec : forall a b : ident, {a = b} + {a <> b}.
Proof. intros a b. destruct (ieqb a b) eqn:E; [left; apply ieqb_eq; exact E | right; apply ieqb_neq; exact E]. Qed.
Lemma imem_In : forall x l, imem x l = true <-> In x l.
Proof.
  intros x l. unfold imem. rewrite existsb_exists. split.
  - intros [y [Hy He]]. apply ieqb_eq in He. subst. exact Hy.
  - intros H. exists x. split; [exact H | apply ieqb_refl].
Qed.
Lemma imem_false : forall x l, imem x l = false <-> ~ In x l.
Proof.
  intros x l. split.
  - intros H Hin. apply imem_In in Hin. congruence.
  - intros H. destruct (imem x l) eqn:E; [|reflexivity]. apply imem_In in E. contradiction.
Qed.
Lemma isub_In : forall xs B, isub xs B = true <-> forall x, In x xs -> In x B.
Proof.
  intros xs B. unfold isub. rewrite forallb_forall. split; intros H x Hx.
  - apply imem_In. apply H. exact Hx.
  - apply imem_In. apply H. exact Hx.
Qed.

(* ---------- environments ---------- *)
Lemma sbind_eq : forall x v e, sbind x v e x = Some v.
Proof. intros. unfold sbind. rewrite ieqb_refl. reflexivity. Qed.
Lemma sbind_neq : forall x y v e, y <> x -> sbind x v e y = e y.
Proof. intros x y v e H. unfold sbind. apply ieqb_neq in H. rewrite H. reflexivity. Qed.
Lemma sbind_some : forall x v e y, e y <> None -> sbind x v e y <> None.
Proof. intros x v e y H. unfold sbind. destruct (ieqb y x); [discriminate | exact H]. Qed.

Lemma seval_vars_ext : forall e e' xs, (forall x, In x xs -> e x = e' x) -> seval_vars e xs = seval_vars e' xs.
Proof.
  intros e e'. induction xs as [|x xs IH]; intro H; [reflexivity|]. cbn [seval_vars].
  rewrite (H x (or_introl eq_refl)). rewrite IH; [reflexivity|]. intros y Hy. apply H. right. exact Hy.
Qed.
Lemma seval_term_ext : forall I e e' t, (forall x, In x (expr_vars t) -> e x = e' x) -> seval_term I e t = seval_term I e' t.
Proof.
  intros I e e' [x|c|f xs] H; cbn [seval_term]; [apply H; left; reflexivity | reflexivity |].
  rewrite (seval_vars_ext e e' xs H). reflexivity.
Qed.
Lemma seval_terms_ext : forall I e e' ts, (forall x, In x (flat_map expr_vars ts) -> e x = e' x) -> seval_terms I e ts = seval_terms I e' ts.
Proof.
  intros I e e'. induction ts as [|t ts IH]; intro H; [reflexivity|]. cbn [seval_terms].
  rewrite (seval_term_ext I e e' t). 2:{ intros x Hx. apply H. cbn [flat_map]. apply in_or_app. left. exact Hx. }
  rewrite IH; [reflexivity|]. intros x Hx. apply H. cbn [flat_map]. apply in_or_app. right. exact Hx.
Qed.
Lemma seval_vars_some : forall e xs vs, seval_vars e xs = Some vs -> forall x, In x xs -> e x <> None.
Proof.
  intros e. induction xs as [|x xs IH]; intros vs H y Hy; [destruct Hy|]. cbn [seval_vars] in H.
  destruct (e x) eqn:Ex; [|discriminate]. destruct (seval_vars e xs) eqn:Es; [|discriminate].
  destruct Hy as [<-|Hy]; [congruence | exact (IH _ eq_refl y Hy)].
Qed.
Lemma seval_vars_defined : forall e xs, (forall x, In x xs -> e x <> None) -> exists vs, seval_vars e xs = Some vs.
Proof.
  intros e. induction xs as [|x xs IH]; intro H; [exists []; reflexivity|]. cbn [seval_vars].
  destruct (e x) eqn:Ex; [|exfalso; exact (H x (or_introl eq_refl) Ex)].
  destruct IH as [vs Hvs]; [intros y Hy; apply H; right; exact Hy|]. rewrite Hvs. eexists. reflexivity.
Qed.

(* relation on option results *)
Definition orel {A B : Type} (R : A -> B -> Prop) (o : option A) (o' : option B) : Prop :=
  match o, o' with Some a, Some b => R a b | None, None => True | _, _ => False end.

(* agreement outside a set of names *)
Definition agree (X : ident -> Prop) (e e' : senv) : Prop := forall y, ~ X y -> e y = e' y.
Lemma agree_refl : forall X e, agree X e e.
Proof. intros X e y _. reflexivity. Qed.
Lemma agree_sym : forall X e e', agree X e e' -> agree X e' e.
Proof. intros X e e' H y Hy. symmetry. apply H. exact Hy. Qed.
Lemma agree_bind : forall X e e' x v, agree X e e' -> agree X (sbind x v e) (sbind x v e').
Proof. intros X e e' x v H y Hy. unfold sbind. destruct (ieqb y x); [reflexivity | apply H; exact Hy]. Qed.
Lemma agree_bind_r : forall (X : ident -> Prop) e e' x v, X x -> agree X e e' -> agree X e (sbind x v e').
Proof.
  intros X e e' x v Hx H y Hy. rewrite sbind_neq; [apply H; exact Hy|]. intro E. subst. contradiction.
Qed.

(* ---------- flat_map ---------- *)
Lemma in_all_envs_cons : forall I db it rest e e1,
  In e1 (all_envs_s I db (it :: rest) e) <-> exists e0, In e0 (item_envs I db it e) /\ In e1 (all_envs_s I db rest e0).
Proof. intros. cbn [all_envs_s]. apply in_flat_map. Qed.
Lemma in_all_envs_app : forall I db a b e e1,
  In e1 (all_envs_s I db (a ++ b) e) <-> exists e0, In e0 (all_envs_s I db a e) /\ In e1 (all_envs_s I db b e0).
Proof.
  intros I db. induction a as [|it a IH]; intros b e e1.
  - cbn [app all_envs_s]. split.
    + intro H. exists e. split; [left; reflexivity | exact H].
    + intros [e0 [[<-|[]] H]]. exact H.
  - cbn [app]. rewrite in_all_envs_cons. split.
    + intros [e0 [H0 H1]]. apply IH in H1 as [e2 [H2 H3]]. exists e2. split; [|exact H3].
      apply in_all_envs_cons. exists e0. split; assumption.
    + intros [e2 [H2 H3]]. apply in_all_envs_cons in H2 as [e0 [H0 H2]]. exists e0. split; [exact H0|].
      apply IH. exists e2. split; assumption.
Qed.
Lemma item_envs_disj : forall I db ds e, item_envs I db (IDisj ds) e = flat_map (fun d => all_envs_s I db d e) ds.
Proof. reflexivity. Qed.

Definition no_disj (it : sitem) : Prop := match it with IDisj _ => False | _ => True end.

(* ---------- conditions ---------- *)
Lemma pat_match_agree : forall I X p v e e', agree X e e' -> orel (agree X) (pat_match I p v e) (pat_match I p v e').
Proof.
  intros I X [q|x f] v e e' H; cbn [pat_match].
  - destruct (pint I q [v]); cbn; [exact H | exact Logic.I].
  - destruct (bint I f [v]); cbn; [apply agree_bind; exact H | exact Logic.I].
Qed.
Lemma ssat_cond_agree : forall I X c e e', agree X e e' -> (forall y, In y (cond_ids c) -> ~ X y) ->
  orel (agree X) (ssat_cond I e c) (ssat_cond I e' c).
Proof.
  intros I X c e e' H Hc. destruct c as [p xs|x f xs|p v|v t]; cbn [ssat_cond cond_ids] in *.
  - rewrite (seval_vars_ext e e' xs) by (intros x Hx; apply H; apply Hc; exact Hx).
    destruct (seval_vars e' xs); [|exact Logic.I]. destruct (pint I p l); cbn; [exact H | exact Logic.I].
  - rewrite (seval_vars_ext e e' xs) by (intros y Hy; apply H; apply Hc; right; exact Hy).
    destruct (seval_vars e' xs); [|exact Logic.I]. destruct (bint I f l); cbn; [apply agree_bind; exact H | exact Logic.I].
  - rewrite (H v) by (apply Hc; left; reflexivity). destruct (e' v); [|exact Logic.I]. apply pat_match_agree. exact H.
  - rewrite (H v) by (apply Hc; left; reflexivity).
    rewrite (seval_term_ext I e e' t) by (intros x Hx; apply H; apply Hc; right; exact Hx).
    destruct (e' v); [|exact Logic.I]. destruct (seval_term I e' t); [|exact Logic.I]. destruct (Z.eqb z z0); cbn; [exact H | exact Logic.I].
Qed.
Lemma ssat_conds_agree : forall I X cs e e', agree X e e' -> (forall y, In y (flat_map cond_ids cs) -> ~ X y) ->
  orel (agree X) (ssat_conds I e cs) (ssat_conds I e' cs).
Proof.
  intros I X. induction cs as [|c cs IH]; intros e e' H Hc; cbn [ssat_conds]; [exact H|].
  pose proof (ssat_cond_agree I X c e e' H) as Hs.
  destruct (ssat_cond I e c) as [e1|], (ssat_cond I e' c) as [e1'|]; cbn in Hs;
    try (exfalso; apply Hs; intros y Hy; apply Hc; cbn [flat_map]; apply in_or_app; left; exact Hy);
    try (specialize (Hs (fun y Hy => Hc y (in_or_app _ _ _ (or_introl Hy)))); try contradiction).
  - apply IH; [exact Hs|]. intros y Hy. apply Hc. cbn [flat_map]. apply in_or_app. right. exact Hy.
  - exact Logic.I.
Qed.

(* frame: a condition only changes the variables it binds *)
Lemma pat_match_frame : forall I p v e e1, pat_match I p v e = Some e1 -> forall y, ~ In y (pat_ids p) -> e1 y = e y.
Proof.
  intros I [q|x f] v e e1 H y Hy; cbn [pat_match pat_ids] in *.
  - destruct (pint I q [v]); inversion H; reflexivity.
  - destruct (bint I f [v]); inversion H. apply sbind_neq. intro E. apply Hy. left. congruence.
Qed.
Lemma ssat_cond_frame : forall I c e e1, ssat_cond I e c = Some e1 -> forall y, ~ In y (cond_binds c) -> e1 y = e y.
Proof.
  intros I [p xs|x f xs|p v|v t] e e1 H y Hy; cbn [ssat_cond cond_binds] in *.
  - destruct (seval_vars e xs); [|discriminate]. destruct (pint I p l); inversion H; reflexivity.
  - destruct (seval_vars e xs); [|discriminate]. destruct (bint I f l); inversion H. apply sbind_neq. intro E. apply Hy. left. congruence.
  - destruct (e v); [|discriminate]. exact (pat_match_frame I p z e e1 H y Hy).
  - destruct (e v); [|discriminate]. destruct (seval_term I e t); [|discriminate]. destruct (Z.eqb z z0); inversion H; reflexivity.
Qed.
Lemma ssat_conds_frame : forall I cs e e1, ssat_conds I e cs = Some e1 -> forall y, ~ In y (flat_map cond_binds cs) -> e1 y = e y.
Proof.
  intros I. induction cs as [|c cs IH]; intros e e1 H y Hy; cbn [ssat_conds] in H; [inversion H; reflexivity|].
  destruct (ssat_cond I e c) as [e0|] eqn:Ec; [|discriminate].
  rewrite (IH e0 e1 H y). 2:{ intro Hin. apply Hy. cbn [flat_map]. apply in_or_app. right. exact Hin. }
  apply (ssat_cond_frame I c e e0 Ec). intro Hin. apply Hy. cbn [flat_map]. apply in_or_app. left. exact Hin.
Qed.
(* monotone: bound variables stay bound; binders are bound afterwards *)
Lemma pat_match_mono : forall I p v e e1, pat_match I p v e = Some e1 ->
  (forall y, e y <> None -> e1 y <> None) /\ (forall y, In y (pat_ids p) -> e1 y <> None).
Proof.
  intros I [q|x f] v e e1 H; cbn [pat_match pat_ids] in *.
  - destruct (pint I q [v]); inversion H; subst. split; [auto | intros y []].
  - destruct (bint I f [v]); inversion H; subst. split; [intros y Hy; apply sbind_some; exact Hy|].
    intros y [<-|[]]. rewrite sbind_eq. discriminate.
Qed.
Lemma ssat_cond_mono : forall I c e e1, ssat_cond I e c = Some e1 ->
  (forall y, e y <> None -> e1 y <> None) /\ (forall y, In y (cond_binds c) -> e1 y <> None).
Proof.
  intros I [p xs|x f xs|p v|v t] e e1 H; cbn [ssat_cond cond_binds] in *.
  - destruct (seval_vars e xs); [|discriminate]. destruct (pint I p l); inversion H; subst. split; [auto | intros y []].
  - destruct (seval_vars e xs); [|discriminate]. destruct (bint I f l); inversion H; subst.
    split; [intros y Hy; apply sbind_some; exact Hy|]. intros y [<-|[]]. rewrite sbind_eq. discriminate.
  - destruct (e v); [|discriminate]. exact (pat_match_mono I p z e e1 H).
  - destruct (e v); [|discriminate]. destruct (seval_term I e t); [|discriminate]. destruct (Z.eqb z z0); inversion H; subst.
    split; [auto | intros y []].
Qed.
Lemma ssat_conds_mono : forall I cs e e1, ssat_conds I e cs = Some e1 ->
  (forall y, e y <> None -> e1 y <> None) /\ (forall y, In y (flat_map cond_binds cs) -> e1 y <> None).
Proof.
  intros I. induction cs as [|c cs IH]; intros e e1 H; cbn [ssat_conds] in H.
  - inversion H; subst. split; [auto | intros y []].
  - destruct (ssat_cond I e c) as [e0|] eqn:Ec; [|discriminate].
    destruct (ssat_cond_mono I c e e0 Ec) as [M1 M2]. destruct (IH e0 e1 H) as [N1 N2]. split.
    + intros y Hy. apply N1. apply M1. exact Hy.
    + intros y Hy. cbn [flat_map] in Hy. apply in_app_or in Hy as [Hy|Hy]; [apply N1; apply M2; exact Hy | apply N2; exact Hy].
Qed.

(* ---------- clause arguments ---------- *)
Lemma smatch_args_agree : forall I X args tup e e', agree X e e' -> (forall y, In y (flat_map arg_ids args) -> ~ X y) ->
  orel (agree X) (smatch_args I e args tup) (smatch_args I e' args tup).
Proof.
  intros I X. induction args as [|a args IH]; intros tup e e' H Ha; destruct tup as [|v tup]; cbn [smatch_args]; try exact Logic.I; [exact H|].
  assert (Hrest : forall y, In y (flat_map arg_ids args) -> ~ X y).
  { intros y Hy. apply Ha. cbn [flat_map]. apply in_or_app. right. exact Hy. }
  assert (Hhd : forall y, In y (arg_ids a) -> ~ X y).
  { intros y Hy. apply Ha. cbn [flat_map]. apply in_or_app. left. exact Hy. }
  destruct a as [t| |p].
  - assert (Et : seval_term I e t = seval_term I e' t).
    { apply seval_term_ext. intros x Hx. apply H. apply Hhd. exact Hx. }
    destruct t as [x|c|f xs].
    + cbn [seval_term] in Et. rewrite <- Et. destruct (e x).
      * destruct (Z.eqb z v); [apply IH; assumption | exact Logic.I].
      * apply IH; [apply agree_bind; exact H | exact Hrest].
    + rewrite <- Et. destruct (seval_term I e (SConst c)); [|exact Logic.I]. destruct (Z.eqb z v); [apply IH; assumption | exact Logic.I].
    + rewrite <- Et. destruct (seval_term I e (SFun f xs)); [|exact Logic.I]. destruct (Z.eqb z v); [apply IH; assumption | exact Logic.I].
  - apply IH; assumption.
  - pose proof (pat_match_agree I X p v e e' H) as Hp.
    destruct (pat_match I p v e), (pat_match I p v e'); cbn in Hp; try contradiction; [|exact Logic.I]. apply IH; assumption.
Qed.
Lemma smatch_args_frame : forall I args tup e e1, smatch_args I e args tup = Some e1 ->
  forall y, ~ In y (flat_map arg_binds args) -> e1 y = e y.
Proof.
  intros I. induction args as [|a args IH]; intros tup e e1 H y Hy; destruct tup as [|v tup]; cbn [smatch_args] in H; try discriminate.
  - inversion H; reflexivity.
  - assert (Hy' : ~ In y (flat_map arg_binds args)). { intro Hin. apply Hy. cbn [flat_map]. apply in_or_app. right. exact Hin. }
    assert (Hya : ~ In y (arg_binds a)). { intro Hin. apply Hy. cbn [flat_map]. apply in_or_app. left. exact Hin. }
    destruct a as [t| |p].
    + destruct t as [x|c|f xs].
      * destruct (e x) eqn:Ex.
        -- destruct (Z.eqb z v); [|discriminate]. exact (IH tup e e1 H y Hy').
        -- rewrite (IH tup _ e1 H y Hy'). apply sbind_neq. intro E. apply Hya. left. congruence.
      * destruct (seval_term I e (SConst c)); [|discriminate]. destruct (Z.eqb z v); [|discriminate]. exact (IH tup e e1 H y Hy').
      * destruct (seval_term I e (SFun f xs)); [|discriminate]. destruct (Z.eqb z v); [|discriminate]. exact (IH tup e e1 H y Hy').
    + exact (IH tup e e1 H y Hy').
    + destruct (pat_match I p v e) as [e0|] eqn:Ep; [|discriminate].
      rewrite (IH tup e0 e1 H y Hy'). exact (pat_match_frame I p v e e0 Ep y Hya).
Qed.
Lemma smatch_args_mono : forall I args tup e e1, smatch_args I e args tup = Some e1 ->
  (forall y, e y <> None -> e1 y <> None) /\ (forall y, In y (flat_map arg_binds args) -> e1 y <> None).
Proof.
  intros I. induction args as [|a args IH]; intros tup e e1 H; destruct tup as [|v tup]; cbn [smatch_args] in H; try discriminate.
  - inversion H; subst. split; [auto | intros y []].
  - destruct a as [t| |p].
    + destruct t as [x|c|f xs].
      * destruct (e x) eqn:Ex.
        -- destruct (Z.eqb z v); [|discriminate]. destruct (IH tup e e1 H) as [M1 M2]. split; [exact M1|].
           intros y Hy. cbn [flat_map arg_binds] in Hy. apply in_app_or in Hy as [[<-|[]]|Hy]; [apply M1; congruence | apply M2; exact Hy].
        -- destruct (IH tup _ e1 H) as [M1 M2]. split; [intros y Hy; apply M1; apply sbind_some; exact Hy|].
           intros y Hy. cbn [flat_map arg_binds] in Hy. apply in_app_or in Hy as [[<-|[]]|Hy]; [apply M1; rewrite sbind_eq; discriminate | apply M2; exact Hy].
      * destruct (seval_term I e (SConst c)); [|discriminate]. destruct (Z.eqb z v); [|discriminate]. exact (IH tup e e1 H).
      * destruct (seval_term I e (SFun f xs)); [|discriminate]. destruct (Z.eqb z v); [|discriminate]. exact (IH tup e e1 H).
    + exact (IH tup e e1 H).
    + destruct (pat_match I p v e) as [e0|] eqn:Ep; [|discriminate].
      destruct (pat_match_mono I p v e e0 Ep) as [P1 P2]. destruct (IH tup e0 e1 H) as [M1 M2]. split.
      * intros y Hy. apply M1. apply P1. exact Hy.
      * intros y Hy. cbn [flat_map arg_binds] in Hy. apply in_app_or in Hy as [Hy|Hy]; [apply M1; apply P2; exact Hy | apply M2; exact Hy].
Qed.

(* ---------- items ---------- *)
Lemma sagg_match_ext : forall I e e' args tup, (forall x, In x (flat_map aarg_ids args) -> e x = e' x) ->
  sagg_match I e args tup = sagg_match I e' args tup.
Proof.
  intros I e e'. induction args as [|a args IH]; intros tup H; destruct tup as [|v tup]; cbn [sagg_match]; try reflexivity.
  assert (Hr : forall x, In x (flat_map aarg_ids args) -> e x = e' x).
  { intros x Hx. apply H. cbn [flat_map]. apply in_or_app. right. exact Hx. }
  destruct a as [|x|t]; try (apply IH; exact Hr).
  rewrite (seval_term_ext I e e' t). 2:{ intros x Hx. apply H. cbn [flat_map aarg_ids]. apply in_or_app. left. exact Hx. }
  destruct (seval_term I e' t); [|reflexivity]. rewrite (IH tup Hr). reflexivity.
Qed.
Lemma sneg_match_ext : forall I e e' args tup, (forall x, In x (flat_map narg_ids args) -> e x = e' x) ->
  sneg_match I e args tup = sneg_match I e' args tup.
Proof.
  intros I e e'. induction args as [|a args IH]; intros tup H; destruct tup as [|v tup]; cbn [sneg_match]; try reflexivity.
  assert (Hr : forall x, In x (flat_map narg_ids args) -> e x = e' x).
  { intros x Hx. apply H. cbn [flat_map]. apply in_or_app. right. exact Hx. }
  destruct a as [|t]; try (apply IH; exact Hr).
  rewrite (seval_term_ext I e e' t). 2:{ intros x Hx. apply H. cbn [flat_map narg_ids]. apply in_or_app. left. exact Hx. }
  destruct (seval_term I e' t); [|reflexivity]. rewrite (IH tup Hr). reflexivity.
Qed.
Lemma filter_ext_in' : forall (A : Type) (f g : A -> bool) l, (forall a, f a = g a) -> filter f l = filter g l.
Proof. intros A f g l H. induction l as [|a l IH]; cbn; [reflexivity|]. rewrite H, IH. reflexivity. Qed.
Lemma existsb_ext' : forall (A : Type) (f g : A -> bool) l, (forall a, f a = g a) -> existsb f l = existsb g l.
Proof. intros A f g l H. induction l as [|a l IH]; cbn; [reflexivity|]. rewrite H, IH. reflexivity. Qed.

Definition clause_env (I : interp) (e : senv) (args : list sarg) (cs : list scond) (tup : tuple) : option senv :=
  match smatch_args I e args tup with Some e1 => ssat_conds I e1 cs | None => None end.
Lemma in_clause_envs : forall I db r args cs e e1,
  In e1 (item_envs I db (IClause r args cs) e) <-> exists tup, In tup (db r) /\ clause_env I e args cs tup = Some e1.
Proof.
  intros. cbn [item_envs]. rewrite in_flat_map. unfold clause_env. split; intros [tup [Ht H]]; exists tup; (split; [exact Ht|]).
  - destruct (smatch_args I e args tup); [|destruct H]. destruct (ssat_conds I s cs); [|destruct H]. destruct H as [<-|[]]. reflexivity.
  - destruct (smatch_args I e args tup); [|discriminate]. rewrite H. left. reflexivity.
Qed.
Lemma clause_env_agree : forall I X args cs tup e e', agree X e e' ->
  (forall y, In y (flat_map arg_ids args ++ flat_map cond_ids cs) -> ~ X y) ->
  orel (agree X) (clause_env I e args cs tup) (clause_env I e' args cs tup).
Proof.
  intros I X args cs tup e e' H Hi. unfold clause_env.
  pose proof (smatch_args_agree I X args tup e e' H (fun y Hy => Hi y (in_or_app _ _ _ (or_introl Hy)))) as Hm.
  destruct (smatch_args I e args tup) as [e0|], (smatch_args I e' args tup) as [e0'|]; cbn in Hm; try contradiction; [|exact Logic.I].
  exact (ssat_conds_agree I X cs e0 e0' Hm (fun y Hy => Hi y (in_or_app _ _ _ (or_intror Hy)))).
Qed.
Lemma clause_env_frame : forall I args cs tup e e1, clause_env I e args cs tup = Some e1 ->
  forall y, ~ In y (flat_map cond_binds cs ++ flat_map arg_binds args) -> e1 y = e y.
Proof.
  intros I args cs tup e e1 H y Hy. unfold clause_env in H. destruct (smatch_args I e args tup) as [e0|] eqn:E0; [|discriminate].
  rewrite (ssat_conds_frame I cs e0 e1 H y) by (intro Hin; apply Hy; apply in_or_app; left; exact Hin).
  apply (smatch_args_frame I args tup e e0 E0). intro Hin. apply Hy. apply in_or_app. right. exact Hin.
Qed.
Lemma clause_env_mono : forall I args cs tup e e1, clause_env I e args cs tup = Some e1 ->
  (forall y, e y <> None -> e1 y <> None) /\ (forall y, In y (flat_map cond_binds cs ++ flat_map arg_binds args) -> e1 y <> None).
Proof.
  intros I args cs tup e e1 H. unfold clause_env in H. destruct (smatch_args I e args tup) as [e0|] eqn:E0; [|discriminate].
  destruct (smatch_args_mono I args tup e e0 E0) as [M1 M2]. destruct (ssat_conds_mono I cs e0 e1 H) as [N1 N2]. split.
  - intros y Hy. apply N1. apply M1. exact Hy.
  - intros y Hy. apply in_app_or in Hy as [Hy|Hy]; [apply N2; exact Hy | apply N1; apply M2; exact Hy].
Qed.

(* congruence: an item that does not mention names of X maps environments agreeing outside X to such *)
Lemma item_envs_agree : forall I db X it e e', no_disj it -> agree X e e' -> (forall y, In y (item_ids it) -> ~ X y) ->
  forall e1, In e1 (item_envs I db it e) -> exists e1', In e1' (item_envs I db it e') /\ agree X e1 e1'.
Proof.
  intros I db X it e e' Hnd H Hi e1 Hin. destruct it as [r args cs|c|x g xs|out a bound r args|r args|ds].
  - apply in_clause_envs in Hin as [tup [Htup Hc]].
    pose proof (clause_env_agree I X args cs tup e e' H Hi) as Hm. rewrite Hc in Hm.
    destruct (clause_env I e' args cs tup) as [e1'|] eqn:Ec'; cbn in Hm; [|contradiction].
    exists e1'. split; [|exact Hm]. apply in_clause_envs. exists tup. split; assumption.
  - cbn [item_envs item_ids] in *. pose proof (ssat_cond_agree I X c e e' H Hi) as Hs.
    destruct (ssat_cond I e c) as [e0|]; [|destruct Hin]. destruct Hin as [<-|[]].
    destruct (ssat_cond I e' c) as [e0'|]; cbn in Hs; [|contradiction]. exists e0'. split; [left; reflexivity | exact Hs].
  - cbn [item_envs item_ids] in *. rewrite <- (seval_vars_ext e e' xs) by (intros y Hy; apply H; apply Hi; right; exact Hy).
    destruct (seval_vars e xs); [|destruct Hin]. apply in_map_iff in Hin as [v [<- Hv]].
    exists (sbind x v e'). split; [apply (in_map (fun v => sbind x v e')); exact Hv | apply agree_bind; exact H].
  - cbn [item_envs item_ids] in *.
    rewrite (filter_ext_in' _ (sagg_match I e' args) (sagg_match I e args)).
    2:{ intro tup. symmetry. apply sagg_match_ext. intros y Hy. apply H. apply Hi. apply in_or_app. right. apply in_or_app. right. exact Hy. }
    apply in_map_iff in Hin as [v [<- Hv]]. exists (sbind_out out v e'). split; [apply (in_map (fun v => sbind_out out v e')); exact Hv|].
    destruct out; cbn [sbind_out]; [apply agree_bind; exact H | exact H].
  - cbn [item_envs item_ids] in *.
    rewrite (existsb_ext' _ (sneg_match I e' args) (sneg_match I e args)).
    2:{ intro tup. symmetry. apply sneg_match_ext. intros y Hy. apply H. apply Hi. exact Hy. }
    destruct (existsb (sneg_match I e args) (db r)); [destruct Hin|]. destruct Hin as [<-|[]]. exists e'. split; [left; reflexivity | exact H].
  - destruct Hnd.
Qed.

(* frame and monotonicity of items *)
Lemma item_envs_frame : forall I db it e e1, no_disj it -> In e1 (item_envs I db it e) ->
  forall y, ~ In y (item_binds it) -> e1 y = e y.
Proof.
  intros I db it e e1 Hnd Hin y Hy. destruct it as [r args cs|c|x g xs|out a bound r args|r args|ds]; cbn [item_binds] in Hy.
  - apply in_clause_envs in Hin as [tup [_ Hc]]. exact (clause_env_frame I args cs tup e e1 Hc y Hy).
  - cbn [item_envs] in Hin. destruct (ssat_cond I e c) as [e0|] eqn:Ec; [|destruct Hin]. destruct Hin as [<-|[]].
    exact (ssat_cond_frame I c e e0 Ec y Hy).
  - cbn [item_envs] in Hin. destruct (seval_vars e xs); [|destruct Hin]. apply in_map_iff in Hin as [v [<- _]].
    apply sbind_neq. intro E. apply Hy. left. congruence.
  - cbn [item_envs] in Hin. apply in_map_iff in Hin as [v [<- _]]. destruct out as [x|]; cbn [sbind_out]; [|reflexivity].
    apply sbind_neq. intro E. apply Hy. left. congruence.
  - cbn [item_envs] in Hin. destruct (existsb _ _); [destruct Hin|]. destruct Hin as [<-|[]]. reflexivity.
  - destruct Hnd.
Qed.
Lemma item_envs_mono : forall I db it e e1, no_disj it -> In e1 (item_envs I db it e) ->
  (forall y, e y <> None -> e1 y <> None) /\ (forall y, In y (item_binds it) -> e1 y <> None).
Proof.
  intros I db it e e1 Hnd Hin. destruct it as [r args cs|c|x g xs|out a bound r args|r args|ds]; cbn [item_binds].
  - apply in_clause_envs in Hin as [tup [_ Hc]]. exact (clause_env_mono I args cs tup e e1 Hc).
  - cbn [item_envs] in Hin. destruct (ssat_cond I e c) as [e0|] eqn:Ec; [|destruct Hin]. destruct Hin as [<-|[]].
    exact (ssat_cond_mono I c e e0 Ec).
  - cbn [item_envs] in Hin. destruct (seval_vars e xs); [|destruct Hin]. apply in_map_iff in Hin as [v [<- _]].
    split; [intros y Hy; apply sbind_some; exact Hy|]. intros y [<-|[]]. rewrite sbind_eq. discriminate.
  - cbn [item_envs] in Hin. apply in_map_iff in Hin as [v [<- _]]. destruct out as [x|]; cbn [sbind_out out_ids].
    + split; [intros y Hy; apply sbind_some; exact Hy|]. intros y [<-|[]]. rewrite sbind_eq. discriminate.
    + split; [auto | intros y []].
  - cbn [item_envs] in Hin. destruct (existsb _ _); [destruct Hin|]. destruct Hin as [<-|[]]. split; [auto | intros y []].
  - destruct Hnd.
Qed.

(* ---------- derived facts ---------- *)
Definition same_facts (l l' : list fact) : Prop := forall f, In f l <-> In f l'.
Lemma in_sderive : forall I db r f,
  In f (sderive_rule I db r) <-> exists e h, In e (all_envs_s I db (sbody r) sempty) /\ In h (sheads r) /\ seval_head I e h = Some f.
Proof.
  intros I db r f. unfold sderive_rule. rewrite in_flat_map. split.
  - intros [e [He Hf]]. revert Hf. generalize (sheads r) as hs. induction hs as [|h hs IH]; cbn [filter_map]; intro Hf; [destruct Hf|].
    destruct (seval_head I e h) as [g|] eqn:Eh.
    + destruct Hf as [<-|Hf]; [exists e, h; repeat split; [exact He | left; reflexivity | exact Eh]|].
      destruct (IH Hf) as [e' [h' [H1 [H2 H3]]]]. exists e', h'. repeat split; [exact H1 | right; exact H2 | exact H3].
    + destruct (IH Hf) as [e' [h' [H1 [H2 H3]]]]. exists e', h'. repeat split; [exact H1 | right; exact H2 | exact H3].
  - intros [e [h [He [Hh Hf]]]]. exists e. split; [exact He|]. revert Hh. generalize (sheads r) as hs.
    induction hs as [|h' hs IH]; intro Hh; [destruct Hh|]. cbn [filter_map]. destruct Hh as [->|Hh].
    + rewrite Hf. left. reflexivity.
    + destruct (seval_head I e h'); [right|]; apply IH; exact Hh.
Qed.
Lemma seval_head_agree : forall I (X : ident -> Prop) e e' h, agree X e e' -> (forall y, In y (flat_map expr_vars (snd h)) -> ~ X y) ->
  seval_head I e h = seval_head I e' h.
Proof.
  intros I X e e' h H Hh. unfold seval_head. rewrite (seval_terms_ext I e e' (snd h)); [reflexivity|].
  intros x Hx. apply H. apply Hh. exact Hx.
Qed.
(* two bodies whose environments correspond up to agreement outside X derive the same facts *)
Lemma sderive_sim : forall I db (X : ident -> Prop) hs b b',
  (forall y, In y (heads_ids hs) -> ~ X y) ->
  (forall e1, In e1 (all_envs_s I db b sempty) -> exists e1', In e1' (all_envs_s I db b' sempty) /\ agree X e1 e1') ->
  (forall e1', In e1' (all_envs_s I db b' sempty) -> exists e1, In e1 (all_envs_s I db b sempty) /\ agree X e1 e1') ->
  same_facts (sderive_rule I db {| sheads := hs; sbody := b |}) (sderive_rule I db {| sheads := hs; sbody := b' |}).
Proof.
  intros I db X hs b b' Hh F B f. rewrite !in_sderive. cbn [sheads sbody].
  assert (Hhd : forall h, In h hs -> forall y, In y (flat_map expr_vars (snd h)) -> ~ X y).
  { intros h Hin y Hy. apply Hh. unfold heads_ids. apply in_flat_map. exists h. split; assumption. }
  split; intros [e [h [He [Hin Hf]]]].
  - destruct (F e He) as [e' [He' Ha]]. exists e', h. repeat split; [exact He' | exact Hin|].
    rewrite <- (seval_head_agree I X e e' h Ha (Hhd h Hin)). exact Hf.
  - destruct (B e He) as [e0 [He0 Ha]]. exists e0, h. repeat split; [exact He0 | exact Hin|].
    rewrite (seval_head_agree I X e0 e h Ha (Hhd h Hin)). exact Hf.
Qed.
