(* C07 — executable mirror of ascent_macro/src/ascent_syntax.rs desugar_ascent_program (after macro
   expansion, which is C08's subject) with its passes in the order the macro applies them, per rule:

     rule_desugar_disjunction_nodes  (nested product; one rule per choice of disjuncts)
     rule_desugar_pattern_args       (per-rule GenSym, names "__arg_pattern_", "__arg_pattern_1", ...)
     rule_desugar_wildcards          (per-rule GenSym moved past "__": names "__1", "__2", ...)
     rule_desugar_negation           (!r(args)  ->  agg () = not() in r(args))
     rule_desugar_repeated_vars      (process-wide counters IDENT_COUNTERS: prefix x -> "x_", "x_1", ...;
                                      non-variable expressions use the prefix "expr_replaced")

   and the three name supplies.  The process-wide counter map is an explicit argument threaded through the
   program (its initial content is whatever earlier macro invocations of the same compiler process left).
   No proofs in this file. *)
From Coq Require Import List ZArith Bool Arith Ascii String Decimal.
From AV Require Import Engine.Core.
From AV Require Import Syntax.Surface.
Import ListNotations.

Definition i (s : string) : ident := list_ascii_of_string s.

(* ---- decimal numerals, as `format!("{}", n)` prints them ---- *)
Fixpoint uint_chars (u : Decimal.uint) : ident :=
  match u with
  | Nil => []
  | D0 u' => "0"%char :: uint_chars u' | D1 u' => "1"%char :: uint_chars u' | D2 u' => "2"%char :: uint_chars u'
  | D3 u' => "3"%char :: uint_chars u' | D4 u' => "4"%char :: uint_chars u' | D5 u' => "5"%char :: uint_chars u'
  | D6 u' => "6"%char :: uint_chars u' | D7 u' => "7"%char :: uint_chars u' | D8 u' => "8"%char :: uint_chars u'
  | D9 u' => "9"%char :: uint_chars u'
  end.
Definition show_nat (n : nat) : ident := uint_chars (Nat.to_uint n).

(* ---- name supplies ---- *)
Definition counters := list (ident * nat).
Fixpoint cget (p : ident) (g : counters) : option nat :=
  match g with [] => None | (q, n) :: g' => if ieqb p q then Some n else cget p g' end.
Fixpoint cset (p : ident) (n : nat) (g : counters) : counters :=
  match g with [] => [] | (q, m) :: g' => if ieqb p q then (q, n) :: g' else (q, m) :: cset p n g' end.

(* GenSym::next with transformer tr:  unseen key -> tr(key), counter := 1;  seen with counter n -> tr(key) ++ n, counter := n+1 *)
Definition gensym_next (tr : ident -> ident) (g : counters) (p : ident) : ident * counters :=
  match cget p g with
  | Some n => (tr p ++ show_nat n, cset p (S n) g)
  | None => (tr p, (p, 1%nat) :: g)
  end.
Definition tr_default (p : ident) : ident := p ++ i "_".
(* fresh_ident(prefix): unseen -> prefix ++ "_" ++ "", counter := 1;  seen with counter n -> prefix ++ "_" ++ n, counter := n+1 *)
Definition fresh_ident (cs : counters) (p : ident) : ident * counters := gensym_next tr_default cs p.

(* ---- pass 1: disjunctions (the macro recurses on the prefix of the item list; the product below
   enumerates the same conjunctions in the same order) ---- *)
Fixpoint disj_item (it : sitem) : list (list sitem) :=
  match it with
  | IDisj ds =>
      flat_map (fix conj (l : list sitem) : list (list sitem) :=
                  match l with
                  | [] => [[]]
                  | it' :: rest => flat_map (fun a => map (@List.app sitem a) (conj rest)) (disj_item it')
                  end) ds
  | _ => [[it]]
  end.
Fixpoint disj_items (l : list sitem) : list (list sitem) :=
  match l with
  | [] => [[]]
  | it :: rest => flat_map (fun a => map (@List.app sitem a) (disj_items rest)) (disj_item it)
  end.
Definition rule_desugar_disj (r : srule) : list srule :=
  map (fun b => {| sheads := sheads r; sbody := b |}) (disj_items (sbody r)).

(* ---- pass 2: pattern arguments ---- *)
Definition arg_pattern_key : ident := i "__arg_pattern".
Fixpoint pat_args (g : counters) (args : list sarg) : list sarg * list scond * counters :=
  match args with
  | [] => ([], [], g)
  | APat p :: rest =>
      let (v, g1) := gensym_next tr_default g arg_pattern_key in
      let '(a', c', g2) := pat_args g1 rest in
      (AT (SVar v) :: a', SIfLet p v :: c', g2)
  | a :: rest => let '(a', c', g2) := pat_args g rest in (a :: a', c', g2)
  end.
Fixpoint pat_items (g : counters) (items : list sitem) : list sitem :=
  match items with
  | [] => []
  | IClause r args cs :: rest => let '(a', c', g1) := pat_args g args in IClause r a' (c' ++ cs) :: pat_items g1 rest
  | it :: rest => it :: pat_items g rest
  end.
Definition rule_desugar_pat (r : srule) : srule := {| sheads := sheads r; sbody := pat_items [] (sbody r) |}.

(* ---- pass 3: wildcards ---- *)
Definition wild_key : ident := i "_".
Definition wild_gensym0 : counters := snd (gensym_next tr_default [] wild_key).      (* gensym.next("_"): move past "__" *)
Fixpoint wild_args (g : counters) (args : list sarg) : list sarg * counters :=
  match args with
  | [] => ([], g)
  | AWildS :: rest =>
      let (v, g1) := gensym_next tr_default g wild_key in
      let (a', g2) := wild_args g1 rest in (AT (SVar v) :: a', g2)
  | a :: rest => let (a', g2) := wild_args g rest in (a :: a', g2)
  end.
Fixpoint wild_items (g : counters) (items : list sitem) : list sitem :=
  match items with
  | [] => []
  | IClause r args cs :: rest => let (a', g1) := wild_args g args in IClause r a' cs :: wild_items g1 rest
  | it :: rest => it :: wild_items g rest
  end.
Definition rule_desugar_wild (r : srule) : srule := {| sheads := sheads r; sbody := wild_items wild_gensym0 (sbody r) |}.

(* ---- pass 4: negation ---- *)
Definition agg_not_sym : nat := 4.          (* ::ascent::aggregators::not, Engine/Vocab.v std_aint 4 *)
Definition neg_arg (a : snarg) : saarg := match a with NWild => SAWild | NKey t => SAKey t end.
Definition neg_item (it : sitem) : sitem :=
  match it with INeg r args => IAgg None agg_not_sym [] r (map neg_arg args) | _ => it end.
Definition rule_desugar_neg (r : srule) : srule := {| sheads := sheads r; sbody := map neg_item (sbody r) |}.

(* ---- pass 5: repeated variables / expressions over variables of the same clause ----
   grounded_vars : HashMap<Ident, usize> maps a variable to the index of the body item that grounded it
   first; "grounded by THIS clause" is the list [here], "grounded by an earlier item" the list [G]. *)
Definition expr_vars (t : sterm) : list ident := match t with SVar x => [x] | SConst _ => [] | SFun _ xs => xs end.
Definition expr_replaced_key : ident := i "expr_replaced".
Definition expr_prefix (t : sterm) : ident := match t with SVar x => x | _ => expr_replaced_key end.

Fixpoint rep_args (G here : list ident) (cs : counters) (args : list sarg)
  : list sarg * list scond * list ident * counters :=
  match args with
  | [] => ([], [], here, cs)
  | AT t :: rest =>
      if existsb (fun x => imem x here) (expr_vars t) then
        let (v, cs1) := fresh_ident cs (expr_prefix t) in
        let '(a', c', h', cs2) := rep_args G here cs1 rest in
        (AT (SVar v) :: a', SIfEq v t :: c', h', cs2)
      else
        let here' := match t with SVar x => if imem x G then here else x :: here | _ => here end in
        let '(a', c', h', cs2) := rep_args G here' cs rest in
        (AT t :: a', c', h', cs2)
  | a :: rest =>      (* not reachable after passes 2 and 3 (the macro would panic in unwrap_expr_ref on a pattern) *)
      let '(a', c', h', cs2) := rep_args G here cs rest in (a :: a', c', h', cs2)
  end.

Definition cond_grounds (c : scond) : list ident :=
  match c with
  | SBind x _ _ => [x]
  | SIfLet (PBind x _) _ => [x]
  | _ => []
  end.

Fixpoint rep_items (G : list ident) (cs : counters) (items : list sitem) : list sitem * counters :=
  match items with
  | [] => ([], cs)
  | IClause r args conds :: rest =>
      let '(a', c', here, cs1) := rep_args G [] cs args in
      (* variables bound by the conditions attached to the clause (on entry of this pass: the user's let / if-let and the
         `if let pat = __arg_pattern_k` of pass 2) are grounded for the items that follow (since /repo fd71eb0) *)
      let (rest', cs2) := rep_items (flat_map cond_grounds conds ++ here ++ G) cs1 rest in
      (IClause r a' (c' ++ conds) :: rest', cs2)
  | ICond c :: rest => let (rest', cs2) := rep_items (cond_grounds c ++ G) cs rest in (ICond c :: rest', cs2)
  | IGen x g xs :: rest => let (rest', cs2) := rep_items (x :: G) cs rest in (IGen x g xs :: rest', cs2)
  | IAgg out a bound r args :: rest =>
      let (rest', cs2) := rep_items (match out with Some x => x :: G | None => G end) cs rest in
      (IAgg out a bound r args :: rest', cs2)
  | it :: rest =>     (* INeg: gone after pass 4; IDisj: gone after pass 1 (the macro panics on it) *)
      let (rest', cs2) := rep_items G cs rest in (it :: rest', cs2)
  end.
Definition rule_desugar_rep (cs : counters) (r : srule) : srule * counters :=
  let (b, cs') := rep_items [] cs (sbody r) in ({| sheads := sheads r; sbody := b |}, cs').

(* ---- the pipeline:  flat_map(disj).map(pat).map(wild).map(neg).map(rep), rule after rule ---- *)
Definition pre_rep (r : srule) : srule := rule_desugar_neg (rule_desugar_wild (rule_desugar_pat r)).
Fixpoint rep_rules (cs : counters) (rs : list srule) : list srule * counters :=
  match rs with
  | [] => ([], cs)
  | r :: rest => let (r', cs1) := rule_desugar_rep cs (pre_rep r) in
                 let (rest', cs2) := rep_rules cs1 rest in (r' :: rest', cs2)
  end.
Definition desugar_rule (cs : counters) (r : srule) : list srule * counters := rep_rules cs (rule_desugar_disj r).
Fixpoint desugar_prog_cs (cs : counters) (P : list srule) : list srule * counters :=
  match P with
  | [] => ([], cs)
  | r :: rest => let (rs, cs1) := desugar_rule cs r in
                 let (rest', cs2) := desugar_prog_cs cs1 rest in (rs ++ rest', cs2)
  end.
Definition desugar_prog (cs : counters) (P : list srule) : list srule := fst (desugar_prog_cs cs P).
