(* END-TO-END (B10) — a surface program without aggregation and negation (EndToEndDefs.no_agg_surface, through
   disjunctions) desugars to a core program without aggregation (Engine/Naive.v no_agg): the fragment of the
   least-model engine theorem Main.run_plan_correct_full. *)
From Coq Require Import List ZArith Bool Arith Ascii Lia.
From AV Require Import Engine.Core.
From AV Require Import Engine.Naive.
From AV Require Import Syntax.Surface.
From AV Require Import Syntax.Desugar.
From AV Require Import Syntax.ToCore.
From AV Require Import Syntax.SimBase.
From AV Require Import Syntax.DisjProof.
From AV Require Import Syntax.PatProof.
From AV Require Import Syntax.WildProof.
From AV Require Import Syntax.RepProof.
From AV Require Import Syntax.EndToEndDefs.
Import ListNotations.
Close Scope Z_scope.
Open Scope nat_scope.

Definition plain (it : sitem) : Prop := match it with IClause _ _ _ | ICond _ | IGen _ _ _ => True | _ => False end.

Lemma sno_agg_disj : forall ds, sno_agg_item (IDisj ds) = forallb (forallb sno_agg_item) ds.
Proof.
  intro ds. cbn [sno_agg_item]. induction ds as [|d ds IH]; [reflexivity|]. cbn [forallb]. rewrite <- IH. f_equal.
Qed.

Definition item_pl (it : sitem) : Prop := sno_agg_item it = true -> forall c, In c (disj_item it) -> Forall plain c.
Lemma items_pl : forall items, Forall item_pl items -> forallb sno_agg_item items = true -> forall c, In c (disj_items items) -> Forall plain c.
Proof.
  induction items as [|it rest IH]; intros HF Hb c Hc.
  - destruct Hc as [<-|[]]. constructor.
  - inversion HF as [|? ? Hit Hrest]; subst. cbn [forallb] in Hb. apply andb_true_iff in Hb as [Hb1 Hb2].
    apply in_disj_items_cons in Hc as [a [b [Ha [Hb' ->]]]]. apply Forall_app. split; [exact (Hit Hb1 a Ha) | exact (IH Hrest Hb2 b Hb')].
Qed.
Lemma item_pl_all : forall it, item_pl it.
Proof.
  apply (sitem_ind' item_pl).
  - intros r args cs _ c [<-|[]]. repeat constructor.
  - intros c0 _ c [<-|[]]. repeat constructor.
  - intros x g xs _ c [<-|[]]. repeat constructor.
  - intros out a bound r args H. discriminate H.
  - intros r args H. discriminate H.
  - intros ds HF Hb c Hc. rewrite sno_agg_disj in Hb. rewrite disj_item_disj in Hc. apply in_flat_map in Hc as [d [Hd Hc]].
    rewrite Forall_forall in HF. rewrite forallb_forall in Hb. exact (items_pl d (HF d Hd) (Hb d Hd) c Hc).
Qed.
Lemma disj_items_plain : forall items c, forallb sno_agg_item items = true -> In c (disj_items items) -> Forall plain c.
Proof. intros items c Hb Hc. apply (items_pl items); [apply Forall_forall; intros it _; apply item_pl_all | exact Hb | exact Hc]. Qed.

Lemma pat_items_plain : forall items g, Forall plain items -> Forall plain (pat_items g items).
Proof.
  induction items as [|it items IH]; intros g H; [constructor|]. inversion H as [|? ? H1 H2]; subst.
  destruct it as [r args cs|c|x gg xs|out a bound r args|r args|ds]; try destruct H1.
  - rewrite pat_items_clause. constructor; [exact Logic.I | apply IH; exact H2].
  - cbn [pat_items]. constructor; [exact Logic.I | apply IH; exact H2].
  - cbn [pat_items]. constructor; [exact Logic.I | apply IH; exact H2].
Qed.
Lemma wild_items_plain : forall items g, Forall plain items -> Forall plain (wild_items g items).
Proof.
  induction items as [|it items IH]; intros g H; [constructor|]. inversion H as [|? ? H1 H2]; subst.
  destruct it as [r args cs|c|x gg xs|out a bound r args|r args|ds]; try destruct H1.
  - rewrite wild_items_clause. constructor; [exact Logic.I | apply IH; exact H2].
  - cbn [wild_items]. constructor; [exact Logic.I | apply IH; exact H2].
  - cbn [wild_items]. constructor; [exact Logic.I | apply IH; exact H2].
Qed.
Lemma neg_items_plain : forall items, Forall plain items -> Forall plain (map neg_item items).
Proof.
  induction items as [|it items IH]; intro H; [constructor|]. inversion H as [|? ? H1 H2]; subst. cbn [map].
  constructor; [|apply IH; exact H2]. destruct it; try destruct H1; exact Logic.I.
Qed.
Lemma rep_items_plain : forall items G cs, Forall plain items -> Forall plain (fst (rep_items G cs items)).
Proof.
  induction items as [|it items IH]; intros G cs H; [constructor|]. inversion H as [|? ? H1 H2]; subst.
  destruct it as [r args conds|c|x gg xs|out a bound r args|r args|ds]; try destruct H1.
  - rewrite rep_items_clause. cbn [fst]. constructor; [exact Logic.I | apply IH; exact H2].
  - rewrite rep_items_other by discriminate. cbn [fst]. constructor; [exact Logic.I | apply IH; exact H2].
  - rewrite rep_items_other by discriminate. cbn [fst]. constructor; [exact Logic.I | apply IH; exact H2].
Qed.

Lemma c_items_plain : forall rho items n l, Forall plain items -> c_items rho n items = Some l -> forallb no_agg_item l = true.
Proof.
  intros rho. induction items as [|it items IH]; intros n l H Hc; cbn [c_items] in Hc; [inversion Hc; reflexivity|].
  inversion H as [|? ? H1 H2]; subst. destruct (c_item rho n it) as [[li ni]|] eqn:Ei; [|discriminate].
  destruct (c_items rho ni items) as [l'|] eqn:El; [|discriminate]. inversion Hc; subst. rewrite forallb_app, (IH ni l' H2 El), andb_true_r.
  destruct it as [r args cs|c|x gg xs|out a bound r args|r args|ds]; try destruct H1; cbn [c_item] in Ei.
  - destruct (c_args rho args); [|discriminate]. destruct (c_conds rho n cs) as [[lc nc]|]; [|discriminate]. inversion Ei; subst. reflexivity.
  - destruct (c_cond rho n c) as [[lc nc]|]; [|discriminate]. inversion Ei; subst. clear. induction lc as [|c lc IHc]; [reflexivity | exact IHc].
  - inversion Ei; subst. reflexivity.
Qed.

Definition plain_rule (r : srule) : Prop := Forall plain (sbody r).
Lemma rep_rules_plain : forall rs cs, Forall plain_rule rs -> Forall plain_rule (fst (rep_rules cs rs)).
Proof.
  induction rs as [|r rs IH]; intros cs HF; [constructor|]. inversion HF as [|? ? Hr Hrs]; subst. cbn [rep_rules].
  assert (Hp : plain_rule (fst (rule_desugar_rep cs (pre_rep r)))).
  { unfold rule_desugar_rep, pre_rep, rule_desugar_neg, rule_desugar_wild, rule_desugar_pat, plain_rule. cbn [sheads sbody].
    pose proof (rep_items_plain (map neg_item (wild_items wild_gensym0 (pat_items [] (sbody r)))) [] cs
                  (neg_items_plain _ (wild_items_plain _ _ (pat_items_plain _ _ Hr)))) as K.
    destruct (rep_items [] cs (map neg_item (wild_items wild_gensym0 (pat_items [] (sbody r))))). exact K. }
  destruct (rule_desugar_rep cs (pre_rep r)) as [r' cs1]. cbn [fst] in Hp. specialize (IH cs1 Hrs).
  destruct (rep_rules cs1 rs) as [rest' cs2]. cbn [fst] in *. constructor; assumption.
Qed.
Lemma desugar_prog_plain : forall P cs, no_agg_surface P = true -> Forall plain_rule (desugar_prog cs P).
Proof.
  unfold desugar_prog, no_agg_surface. induction P as [|r P IH]; intros cs Hb; [constructor|].
  cbn [forallb] in Hb. apply andb_true_iff in Hb as [Hb1 Hb2]. cbn [desugar_prog_cs]. unfold desugar_rule.
  assert (A : Forall plain_rule (rule_desugar_disj r)).
  { apply Forall_forall. intros r' Hr'. unfold rule_desugar_disj in Hr'. apply in_map_iff in Hr' as [b [<- Hb']]. exact (disj_items_plain (sbody r) b Hb1 Hb'). }
  pose proof (rep_rules_plain (rule_desugar_disj r) cs A) as B. destruct (rep_rules cs (rule_desugar_disj r)) as [rs cs1]. cbn [fst] in B.
  specialize (IH cs1 Hb2). destruct (desugar_prog_cs cs1 P) as [rest cs2]. cbn [fst] in *. apply Forall_app. split; assumption.
Qed.
Lemma core_of_prog_no_agg : forall Q Qc, Forall plain_rule Q -> core_of_prog Q = Some Qc -> no_agg Qc = true.
Proof.
  induction Q as [|r Q IH]; intros Qc HF Hc; cbn [core_of_prog] in Hc; [inversion Hc; reflexivity|].
  inversion HF as [|? ? Hr HQ]; subst. destruct (core_of_rule r) as [c|] eqn:Ec; [|discriminate]. destruct (core_of_prog Q) as [l|] eqn:El; [|discriminate].
  inversion Hc; subst. pose proof (IH l HQ eq_refl) as K. unfold no_agg in *. cbn [forallb]. rewrite K, andb_true_r.
  unfold core_of_rule in Ec. destruct (c_items _ _ (sbody r)) as [b|] eqn:Eb; [|discriminate]. inversion Ec; subst.
  unfold no_agg_rule. cbn [body]. exact (c_items_plain _ _ _ _ Hr Eb).
Qed.

Theorem desugar_output_no_agg : forall P cs Pc, no_agg_surface P = true -> core_of_prog (desugar_prog cs P) = Some Pc -> no_agg Pc = true.
Proof. intros P cs Pc H Hc. exact (core_of_prog_no_agg _ Pc (desugar_prog_plain P cs H) Hc). Qed.
Print Assumptions desugar_output_no_agg.
