(* C07 — the simulation relation shared by the name-introducing passes: environments agree outside the
   names X of the pass, and the names still to be generated (T) are unbound on the desugared side. *)
From Coq Require Import List ZArith Bool Arith Ascii Lia.
From AV Require Import Engine.Core.
From AV Require Import Engine.Sem.
From AV Require Import Syntax.Surface.
From AV Require Import Syntax.Desugar.
From AV Require Import Syntax.ToCore.
From AV Require Import Syntax.SimBase.
Import ListNotations.

Definition srel (X : ident -> Prop) (T : list ident) (e e' : senv) : Prop :=
  agree X e e' /\ (forall y, In y T -> e' y = None).

Definition sim2 (R : senv -> senv -> Prop) (l l' : list senv) : Prop :=
  (forall a, In a l -> exists b, In b l' /\ R a b) /\ (forall b, In b l' -> exists a, In a l /\ R a b).

Lemma sim2_flat_map : forall (R R' : senv -> senv -> Prop) f f' l l',
  sim2 R l l' -> (forall a b, R a b -> sim2 R' (f a) (f' b)) -> sim2 R' (flat_map f l) (flat_map f' l').
Proof.
  intros R R' f f' l l' [F B] H. split.
  - intros a Ha. apply in_flat_map in Ha as [a0 [Ha0 Ha]]. destruct (F a0 Ha0) as [b0 [Hb0 Hr]].
    destruct (H a0 b0 Hr) as [F' _]. destruct (F' a Ha) as [b [Hb Hr']]. exists b. split; [|exact Hr'].
    apply in_flat_map. exists b0. split; assumption.
  - intros b Hb. apply in_flat_map in Hb as [b0 [Hb0 Hb]]. destruct (B b0 Hb0) as [a0 [Ha0 Hr]].
    destruct (H a0 b0 Hr) as [_ B']. destruct (B' b Hb) as [a [Ha Hr']]. exists a. split; [|exact Hr'].
    apply in_flat_map. exists a0. split; assumption.
Qed.
Lemma sim2_weaken : forall (R R' : senv -> senv -> Prop) l l', (forall a b, R a b -> R' a b) -> sim2 R l l' -> sim2 R' l l'.
Proof.
  intros R R' l l' H [F B]. split.
  - intros a Ha. destruct (F a Ha) as [b [Hb Hr]]. exists b. split; [exact Hb | apply H; exact Hr].
  - intros b Hb. destruct (B b Hb) as [a [Ha Hr]]. exists a. split; [exact Ha | apply H; exact Hr].
Qed.
Lemma sim2_single : forall (R : senv -> senv -> Prop) a b, R a b -> sim2 R [a] [b].
Proof.
  intros R a b H. split.
  - intros a' [<-|[]]. exists b. split; [left; reflexivity | exact H].
  - intros b' [<-|[]]. exists a. split; [left; reflexivity | exact H].
Qed.
(* two clauses over the same relation whose per-tuple results correspond *)
Lemma sim2_clause : forall I db (R : senv -> senv -> Prop) r args cs args' cs' e e',
  (forall tup, orel R (clause_env I e args cs tup) (clause_env I e' args' cs' tup)) ->
  sim2 R (item_envs I db (IClause r args cs) e) (item_envs I db (IClause r args' cs') e').
Proof.
  intros I db R r args cs args' cs' e e' H. split.
  - intros a Ha. apply in_clause_envs in Ha as [tup [Ht Hc]]. specialize (H tup). rewrite Hc in H.
    destruct (clause_env I e' args' cs' tup) as [b|] eqn:Eb; cbn in H; [|contradiction].
    exists b. split; [apply in_clause_envs; exists tup; split; assumption | exact H].
  - intros b Hb. apply in_clause_envs in Hb as [tup [Ht Hc]]. specialize (H tup). rewrite Hc in H.
    destruct (clause_env I e args cs tup) as [a|] eqn:Ea; cbn in H; [|contradiction].
    exists a. split; [apply in_clause_envs; exists tup; split; assumption | exact H].
Qed.

Lemma nodup_app_r : forall (A : Type) (a b : list A), NoDup (a ++ b) -> NoDup b.
Proof. intros A a b. induction a as [|x a IH]; cbn [app]; intro H; [exact H|]. inversion H; subst. apply IH. assumption. Qed.
Lemma nodup_app_l : forall (A : Type) (a b : list A), NoDup (a ++ b) -> NoDup a.
Proof.
  intros A a b. induction a as [|x a IH]; cbn [app]; intro H; [constructor|]. inversion H as [|? ? Hn Hd]; subst. constructor.
  - intro Hin. apply Hn. apply in_or_app. left. exact Hin.
  - apply IH. exact Hd.
Qed.
Lemma nodup_app_disj : forall (A : Type) (a b : list A) x, NoDup (a ++ b) -> In x a -> ~ In x b.
Proof.
  intros A a b x. induction a as [|y a IH]; cbn [app]; intros H Hx; [destruct Hx|]. inversion H as [|? ? Hn Hd]; subst.
  destruct Hx as [->|Hx]; [intro Hb; apply Hn; apply in_or_app; right; exact Hb | apply IH; assumption].
Qed.
Lemma cond_binds_ids : forall c y, In y (cond_binds c) -> In y (cond_ids c).
Proof.
  intros [p xs|x f xs|p v|v t] y H; cbn [cond_binds cond_ids] in *; try (destruct H; fail).
  - destruct H as [<-|[]]. left. reflexivity.
  - right. exact H.
Qed.
Lemma arg_binds_ids : forall a y, In y (arg_binds a) -> In y (arg_ids a).
Proof.
  intros [[x|c|f xs]| |p] y H; cbn [arg_binds arg_ids expr_vars] in *; try (destruct H; fail); exact H.
Qed.
Lemma item_binds_ids : forall it y, In y (item_binds it) -> In y (item_ids it).
Proof.
  intros [r args cs|c|x g xs|out a bound r args|r args|ds] y H; cbn [item_binds item_ids] in *; try (destruct H; fail).
  - apply in_app_or in H as [H|H]; apply in_or_app.
    + right. apply in_flat_map in H as [c [Hc H]]. apply in_flat_map. exists c. split; [exact Hc | apply cond_binds_ids; exact H].
    + left. apply in_flat_map in H as [a [Ha H]]. apply in_flat_map. exists a. split; [exact Ha | apply arg_binds_ids; exact H].
  - apply cond_binds_ids. exact H.
  - destruct H as [<-|[]]. left. reflexivity.
  - apply in_or_app. left. exact H.
Qed.

Section Rel.
Variable I : interp.
Variable db : rel -> list tuple.
Variable X : ident -> Prop.

(* conditions not mentioning X keep the relation *)
Lemma ssat_conds_rel : forall T cs e e', (forall y, In y T -> X y) -> (forall y, In y (flat_map cond_ids cs) -> ~ X y) ->
  srel X T e e' -> orel (srel X T) (ssat_conds I e cs) (ssat_conds I e' cs).
Proof.
  intros T cs e e' HT Hc [Ha Ht]. pose proof (ssat_conds_agree I X cs e e' Ha Hc) as H.
  destruct (ssat_conds I e cs) as [e1|], (ssat_conds I e' cs) as [e1'|] eqn:E'; cbn in H |- *; try contradiction; [|exact Logic.I].
  split; [exact H|]. intros y Hy. rewrite (ssat_conds_frame I cs e' e1' E' y); [apply Ht; exact Hy|].
  intro Hin. apply in_flat_map in Hin as [c [Hc1 Hc2]]. apply (Hc y); [|apply HT; exact Hy].
  apply in_flat_map. exists c. split; [exact Hc1 | apply cond_binds_ids; exact Hc2].
Qed.

(* an unchanged item not mentioning X keeps the relation *)
Lemma item_envs_rel : forall T it e e', no_disj it -> (forall y, In y T -> X y) -> (forall y, In y (item_ids it) -> ~ X y) ->
  srel X T e e' -> sim2 (srel X T) (item_envs I db it e) (item_envs I db it e').
Proof.
  intros T it e e' Hnd HT Hi [Ha Ht].
  assert (Hfr : forall e1', In e1' (item_envs I db it e') -> forall y, In y T -> e1' y = None).
  { intros e1' Hin y Hy. rewrite (item_envs_frame I db it e' e1' Hnd Hin y); [apply Ht; exact Hy|].
    intro Hb. apply (Hi y); [apply item_binds_ids; exact Hb | apply HT; exact Hy]. }
  split.
  - intros e1 Hin. destruct (item_envs_agree I db X it e e' Hnd Ha Hi e1 Hin) as [e1' [Hin' Hag]].
    exists e1'. split; [exact Hin'|]. split; [exact Hag | apply Hfr; exact Hin'].
  - intros e1' Hin'. destruct (item_envs_agree I db X it e' e Hnd (agree_sym X e e' Ha) Hi e1' Hin') as [e1 [Hin Hag]].
    exists e1. split; [exact Hin|]. split; [apply agree_sym; exact Hag | apply Hfr; exact Hin'].
Qed.
End Rel.
