(* C07 — the ORDER of the index columns the planner picks for a repeated variable across clauses.

   A variable of clause 1 repeated in clause 2 is an equality test; the generated code implements it by an index on the
   shared columns.  ascent_hir.rs builds the column list of every index by walking the clause's arguments left to right
   (compile_rule_to_ir_rule for an ordinary clause = Plan/PlanModel.v [clause_indices]; get_indices_given_grounded_variables
   for the first clause of a simple join = [indices_given]), so every list is strictly ASCENDING, whatever the order in
   which the other clause mentions the variables (`r(x, y), s(y, x)`).  The code generator depends on that:
   IrRelation::is_full_index is `field_types.len() == indices.len()` (length only), and head_update_code skips every index
   with is_full_index — THE full index [0, .., n-1] is written separately through insert_if_not_present.  An index of full
   length in another column order would be declared, merged every iteration, filled from the rows present when run()
   starts, and never receive a derived row.

   Here: (1) both column lists are strictly ascending and, when of full length, ARE [0, .., n-1]; (2) a model of the head
   update (which indices receive a derived row) keeps every index complete under that invariant; (3) the variant that
   lays the columns out in the order of the OTHER clause's variables (same set of columns) is refuted: it yields a
   full-length index that the head update never writes.  No axioms. *)
From Coq Require Import List ZArith Bool Arith Lia Sorted Permutation.
From AV Require Import Engine.Core.
From AV Require Import Engine.Validate.
From AV Require Import Plan.PlanModel.
Import ListNotations.
Local Open Scope nat_scope.

(* IrRelation::is_full_index *)
Definition is_full_index (arity : nat) (cols : list nat) : bool := Nat.eqb (length cols) arity.

Fixpoint cols_eq (a b : list nat) : bool :=
  match a, b with
  | [], [] => true
  | x :: a', y :: b' => Nat.eqb x y && cols_eq a' b'
  | _, _ => false
  end.

Lemma cols_eq_refl : forall a, cols_eq a a = true.
Proof. induction a as [|x a IH]; cbn [cols_eq]; [reflexivity|]. rewrite Nat.eqb_refl, IH. reflexivity. Qed.

Lemma cols_eq_eq : forall a b, cols_eq a b = true -> a = b.
Proof.
  induction a as [|x a IH]; destruct b as [|y b]; cbn [cols_eq]; intros H; try reflexivity; try discriminate.
  apply andb_true_iff in H as [H1 H2]. apply Nat.eqb_eq in H1. subst y. f_equal. apply IH. exact H2.
Qed.

(* ---------- (1) the column lists are ascending ---------- *)

Lemma indices_given_bounds : forall args vars pos i,
  In i (indices_given args vars pos) -> pos <= i < pos + length args.
Proof.
  induction args as [|t args IH]; intros vars pos i H; cbn [indices_given] in H; [contradiction|].
  cbn [length].
  destruct t as [x|c|f xs].
  - destruct (memv x vars).
    + destruct H as [H|H]; [subst i; lia|]. apply IH in H. lia.
    + apply IH in H. lia.
  - destruct H as [H|H]; [subst i; lia|]. apply IH in H. lia.
  - destruct H as [H|H]; [subst i; lia|]. apply IH in H. lia.
Qed.

Lemma indices_given_ascending : forall args vars pos, StronglySorted lt (indices_given args vars pos).
Proof.
  induction args as [|t args IH]; intros vars pos; cbn [indices_given]; [constructor|].
  assert (Hc : StronglySorted lt (pos :: indices_given args vars (S pos))).
  { constructor; [apply IH|]. apply Forall_forall. intros i Hi. apply indices_given_bounds in Hi. lia. }
  destruct t as [x|c|f xs]; [destruct (memv x vars)|idtac|idtac]; try exact Hc. apply IH.
Qed.

Lemma indices_given_length : forall args vars pos, length (indices_given args vars pos) <= length args.
Proof.
  induction args as [|t args IH]; intros vars pos; cbn [indices_given length]; [lia|].
  specialize (IH vars (S pos)).
  destruct t as [x|c|f xs]; [destruct (memv x vars)|idtac|idtac]; cbn [length]; lia.
Qed.

Lemma indices_given_full_seq : forall args vars pos,
  length (indices_given args vars pos) = length args -> indices_given args vars pos = seq pos (length args).
Proof.
  induction args as [|t args IH]; intros vars pos H; cbn [indices_given length seq] in *; [reflexivity|].
  pose proof (indices_given_length args vars (S pos)) as Hl.
  destruct t as [x|c|f xs]; [destruct (memv x vars)|idtac|idtac]; cbn [length] in H; try lia;
    f_equal; apply IH; lia.
Qed.

(* the first clause of a simple join: an index of full length IS the full index *)
Theorem simple_join_full_index_canonical : forall args vars,
  is_full_index (length args) (indices_given args vars 0) = true ->
  indices_given args vars 0 = seq 0 (length args).
Proof. intros args vars H. apply indices_given_full_seq. apply Nat.eqb_eq. exact H. Qed.

(* the same for every other clause (the main loop of compile_rule_to_ir_rule) *)
Lemma clause_indices_bounds : forall args G pos i,
  In i (fst (clause_indices G args pos)) -> pos <= i < pos + length args.
Proof.
  induction args as [|t args IH]; intros G pos i H; cbn [clause_indices] in H; [contradiction|].
  cbn [length].
  destruct t as [x|c|f xs].
  - destruct (memv x G).
    + destruct (clause_indices G args (S pos)) as [ix G'] eqn:E. cbn [fst] in H.
      destruct H as [H|H]; [subst i; lia|].
      specialize (IH G (S pos) i). rewrite E in IH. apply IH in H. lia.
    + apply IH in H. lia.
  - destruct (clause_indices G args (S pos)) as [ix G'] eqn:E. cbn [fst] in H.
    destruct H as [H|H]; [subst i; lia|].
    specialize (IH G (S pos) i). rewrite E in IH. apply IH in H. lia.
  - destruct (clause_indices G args (S pos)) as [ix G'] eqn:E. cbn [fst] in H.
    destruct H as [H|H]; [subst i; lia|].
    specialize (IH G (S pos) i). rewrite E in IH. apply IH in H. lia.
Qed.

Lemma clause_indices_length : forall args G pos, length (fst (clause_indices G args pos)) <= length args.
Proof.
  induction args as [|t args IH]; intros G pos; cbn [clause_indices length]; [cbn; lia|].
  destruct t as [x|c|f xs].
  - destruct (memv x G).
    + specialize (IH G (S pos)). destruct (clause_indices G args (S pos)) as [ix G']. cbn [fst length] in *. lia.
    + specialize (IH (x :: G) (S pos)). lia.
  - specialize (IH G (S pos)). destruct (clause_indices G args (S pos)) as [ix G']. cbn [fst length] in *. lia.
  - specialize (IH G (S pos)). destruct (clause_indices G args (S pos)) as [ix G']. cbn [fst length] in *. lia.
Qed.

Lemma clause_indices_full_seq : forall args G pos,
  length (fst (clause_indices G args pos)) = length args -> fst (clause_indices G args pos) = seq pos (length args).
Proof.
  induction args as [|t args IH]; intros G pos H; cbn [clause_indices length seq] in *; [reflexivity|].
  destruct t as [x|c|f xs].
  - destruct (memv x G).
    + specialize (IH G (S pos)). destruct (clause_indices G args (S pos)) as [ix G']. cbn [fst length] in *.
      f_equal. apply IH. lia.
    + pose proof (clause_indices_length args (x :: G) (S pos)). lia.
  - specialize (IH G (S pos)). destruct (clause_indices G args (S pos)) as [ix G']. cbn [fst length] in *.
    f_equal. apply IH. lia.
  - specialize (IH G (S pos)). destruct (clause_indices G args (S pos)) as [ix G']. cbn [fst length] in *.
    f_equal. apply IH. lia.
Qed.

Theorem clause_full_index_canonical : forall G args,
  is_full_index (length args) (fst (clause_indices G args 0)) = true ->
  fst (clause_indices G args 0) = seq 0 (length args).
Proof. intros G args H. apply clause_indices_full_seq. apply Nat.eqb_eq. exact H. Qed.

(* ---------- (2) which indices of a relation receive a derived row ---------- *)

(* one physical index of a relation: its column list (= its identity: field rel_indices_<cols>) and the rows it holds *)
Definition pindex := (list nat * list (list Z))%type.

(* ascent_codegen.rs head_update_code, for one new row of a relation of the given arity:
     - `insert_if_not_present` into relations_full_indices[rel] = the index [0, .., arity-1];
     - `for rel_ind in rel_indices { if rel_ind.is_full_index() { continue }; index_insert(rel_ind_new, ..) }` *)
Definition head_update (arity : nat) (t : list Z) (ixs : list pindex) : list pindex :=
  map (fun ix : pindex =>
         if is_full_index arity (fst ix)
         then (if cols_eq (fst ix) (seq 0 arity) then (fst ix, t :: snd ix) else ix)
         else (fst ix, t :: snd ix)) ixs.

Definition full_is_canonical (arity : nat) (ixs : list pindex) : Prop :=
  forall ix, In ix ixs -> is_full_index arity (fst ix) = true -> fst ix = seq 0 arity.

(* under the invariant, a derived row reaches EVERY index of its relation *)
Theorem head_update_complete : forall arity t ixs,
  full_is_canonical arity ixs -> forall ix, In ix (head_update arity t ixs) -> In t (snd ix).
Proof.
  intros arity t ixs Hc ix Hin. unfold head_update in Hin. apply in_map_iff in Hin as [ix0 [E Hin0]].
  destruct (is_full_index arity (fst ix0)) eqn:Hf.
  - rewrite (Hc ix0 Hin0 Hf), cols_eq_refl in E. subst ix. cbn [snd]. left. reflexivity.
  - subst ix. cbn [snd]. left. reflexivity.
Qed.

(* the indices the planner creates for a clause satisfy the invariant *)
Theorem planner_indices_canonical : forall G args vars rows1 rows2,
  full_is_canonical (length args) [(indices_given args vars 0, rows1); (fst (clause_indices G args 0), rows2)].
Proof.
  intros G args vars rows1 rows2 ix [H|[H|[]]] Hf; subst ix; cbn [fst] in *.
  - apply simple_join_full_index_canonical. exact Hf.
  - apply clause_full_index_canonical. exact Hf.
Qed.

(* ---------- (3) the columns laid out in the order of the other clause's variables: refuted ---------- *)

Fixpoint column_of (x : var) (args : list term) (pos : nat) : option nat :=
  match args with
  | [] => None
  | TVar y :: args' => if Nat.eqb x y then Some pos else column_of x args' (S pos)
  | _ :: args' => column_of x args' (S pos)
  end.
Fixpoint expr_columns (args : list term) (pos : nat) : list nat :=
  match args with
  | [] => []
  | TVar _ :: args' => expr_columns args' (S pos)
  | _ :: args' => pos :: expr_columns args' (S pos)
  end.
(* `vars.iter().filter_map(column_of).chain(expr_columns)` *)
Definition indices_by_vars (args : list term) (vars : list var) : list nat :=
  flat_map (fun x => match column_of x args 0 with Some i => [i] | None => [] end) vars ++ expr_columns args 0.

(* r(x, y), s(y, x): the same SET of columns, of full length, not the full index; a derived row never reaches it *)
Theorem indices_by_vars_refuted :
  exists args vars t rows,
    Permutation (indices_by_vars args vars) (indices_given args vars 0)
    /\ is_full_index (length args) (indices_by_vars args vars) = true
    /\ indices_by_vars args vars <> seq 0 (length args)
    /\ ~ full_is_canonical (length args) [(indices_by_vars args vars, rows)]
    /\ ~ In t (snd (hd ([], []) (head_update (length args) t [(indices_by_vars args vars, rows)]))).
Proof.
  exists [TVar 0; TVar 1], [1; 0], [7%Z; 8%Z], [].
  split; [vm_compute; apply perm_swap|].
  split; [reflexivity|].
  split; [vm_compute; discriminate|].
  split.
  - intros H. specialize (H ([1; 0], []) (or_introl eq_refl) eq_refl). vm_compute in H. discriminate.
  - vm_compute. intros [].
Qed.

(* with the ascending layout the same rule gets the full index, which the head update writes *)
Example mutual_ascending :
  indices_given [TVar 0; TVar 1] [1; 0] 0 = [0; 1]
  /\ head_update 2 [7%Z; 8%Z] [(indices_given [TVar 0; TVar 1] [1; 0] 0, [])] = [([0; 1], [[7%Z; 8%Z]])].
Proof. split; reflexivity. Qed.
