(* END-TO-END (B10) — with aggregation / negation, strata of P's OWN sugared rules: closes
   EndToEnd.end_to_end_strat_model_sugared_stmt for the SCC partitions that are unions of whole disjunction products
   (sccs = the rule numbers, in the desugared program, of the products of the rules of each group).
   desugar_prog cs P is the concatenation of the per-rule outputs ([block_numbers] = their rule numbers); per source rule
   C07Main.desugar_rule_sem gives the same derived facts; the relations aggregated (after pass 4: or negated) by the
   products are those aggregated or negated by the sugared rule. *)
From Coq Require Import List ZArith Bool Arith Ascii Lia.
From AV Require Import Engine.Core.
From AV Require Import Engine.Sem.
From AV Require Import Engine.Eval.
From AV Require Import Engine.Naive.
From AV Require Import Engine.NaiveLemmas.
From AV Require Import Engine.StratFixed.
From AV Require Import Engine.InterfaceAgg.
From AV Require Import Plan.PlanModel.
From AV Require Import Plan.PlanWf.
From AV Require Import Syntax.Surface.
From AV Require Import Syntax.Desugar.
From AV Require Import Syntax.ToCore.
From AV Require Import Syntax.SimBase.
From AV Require Import Syntax.PatProof.
From AV Require Import Syntax.WildProof.
From AV Require Import Syntax.RepProof.
From AV Require Import Syntax.C07Main.
From AV Require Import Syntax.EndToEndDefs.
From AV Require Import Syntax.EndToEnd.
Import ListNotations.
Close Scope Z_scope.
Open Scope nat_scope.

(* ---------- aggregated relations through the passes ---------- *)
Definition agg1 (it : sitem) : list rel := match it with IAgg _ _ _ q _ => [q] | _ => [] end.
Definition aggneg (it : sitem) : list rel := match it with IAgg _ _ _ q _ => [q] | INeg q _ => [q] | _ => [] end.

Lemma pat_items_aggneg : forall items g, flat_map aggneg (pat_items g items) = flat_map aggneg items.
Proof.
  induction items as [|it items IH]; intro g; [reflexivity|]. destruct it as [r args cs|c|x gg xs|out a bound r args|r args|ds].
  - rewrite pat_items_clause. cbn [flat_map aggneg app]. apply IH.
  - cbn [pat_items flat_map]. rewrite IH. reflexivity.
  - cbn [pat_items flat_map]. rewrite IH. reflexivity.
  - cbn [pat_items flat_map]. rewrite IH. reflexivity.
  - cbn [pat_items flat_map]. rewrite IH. reflexivity.
  - cbn [pat_items flat_map]. rewrite IH. reflexivity.
Qed.
Lemma wild_items_aggneg : forall items g, flat_map aggneg (wild_items g items) = flat_map aggneg items.
Proof.
  induction items as [|it items IH]; intro g; [reflexivity|]. destruct it as [r args cs|c|x gg xs|out a bound r args|r args|ds].
  - rewrite wild_items_clause. cbn [flat_map aggneg app]. apply IH.
  - cbn [wild_items flat_map]. rewrite IH. reflexivity.
  - cbn [wild_items flat_map]. rewrite IH. reflexivity.
  - cbn [wild_items flat_map]. rewrite IH. reflexivity.
  - cbn [wild_items flat_map]. rewrite IH. reflexivity.
  - cbn [wild_items flat_map]. rewrite IH. reflexivity.
Qed.
Lemma neg_items_agg1 : forall items, flat_map agg1 (map neg_item items) = flat_map aggneg items.
Proof. induction items as [|it items IH]; [reflexivity|]. cbn [map flat_map]. rewrite IH. destruct it; reflexivity. Qed.
Lemma rep_items_agg1 : forall items G cs, flat_map agg1 (fst (rep_items G cs items)) = flat_map agg1 items.
Proof.
  induction items as [|it items IH]; intros G cs; [reflexivity|]. destruct it as [r args conds|c|x gg xs|out a bound r args|r args|ds].
  - rewrite rep_items_clause. cbn [fst flat_map agg1 app]. apply IH.
  - rewrite rep_items_other by discriminate. cbn [fst flat_map]. rewrite IH. reflexivity.
  - rewrite rep_items_other by discriminate. cbn [fst flat_map]. rewrite IH. reflexivity.
  - rewrite rep_items_other by discriminate. cbn [fst flat_map]. rewrite IH. reflexivity.
  - rewrite rep_items_other by discriminate. cbn [fst flat_map]. rewrite IH. reflexivity.
  - rewrite rep_items_other by discriminate. cbn [fst flat_map]. rewrite IH. reflexivity.
Qed.
Lemma rule_desugar_rep_agg : forall cs r, srule_agg_rels (fst (rule_desugar_rep cs (pre_rep r))) = flat_map aggneg (sbody r).
Proof.
  intros cs r. unfold rule_desugar_rep, pre_rep, rule_desugar_neg, rule_desugar_wild, rule_desugar_pat. cbn [sheads sbody].
  pose proof (rep_items_agg1 (map neg_item (wild_items wild_gensym0 (pat_items [] (sbody r)))) [] cs) as K.
  destruct (rep_items [] cs (map neg_item (wild_items wild_gensym0 (pat_items [] (sbody r))))) as [b cs']. cbn [fst] in *.
  unfold srule_agg_rels. cbn [sbody]. fold agg1. rewrite K, neg_items_agg1, wild_items_aggneg, pat_items_aggneg. reflexivity.
Qed.
Lemma rep_rules_agg : forall rs cs, sstratum_agg_rels (fst (rep_rules cs rs)) = flat_map (fun rb => flat_map aggneg (sbody rb)) rs.
Proof.
  induction rs as [|r rs IH]; intro cs; [reflexivity|]. cbn [rep_rules]. pose proof (rule_desugar_rep_agg cs r) as K.
  destruct (rule_desugar_rep cs (pre_rep r)) as [r' cs1]. cbn [fst] in K. specialize (IH cs1). destruct (rep_rules cs1 rs) as [rest cs2]. cbn [fst] in *.
  unfold sstratum_agg_rels in *. cbn [flat_map]. rewrite K, IH. reflexivity.
Qed.
Lemma desugar_rule_agg : forall cs r, sstratum_agg_rels (fst (desugar_rule cs r)) = sagg_rels_sugared r.
Proof.
  intros cs r. unfold desugar_rule. rewrite rep_rules_agg. unfold rule_desugar_disj, sagg_rels_sugared. fold aggneg.
  induction (disj_items (sbody r)) as [|b l IH]; [reflexivity|]. cbn [map flat_map sbody]. rewrite IH. reflexivity.
Qed.

(* ---------- the desugared program as a concatenation of blocks ---------- *)
Lemma filter_map_nth_seq : forall (A : Type) (a b c : list A), filter_map (fun j => nth_error (a ++ b ++ c) j) (seq (length a) (length b)) = b.
Proof.
  intros A a b. revert a. induction b as [|x b IH]; intros a c; [reflexivity|]. cbn [length seq filter_map].
  rewrite nth_error_app2 by lia. rewrite Nat.sub_diag. cbn [app nth_error]. f_equal.
  specialize (IH (a ++ [x]) c). rewrite app_length in IH. cbn [length] in IH. rewrite Nat.add_1_r in IH. rewrite <- app_assoc in IH. cbn [app] in IH. exact IH.
Qed.

(* the block of source rule k, read off the desugared program, is the output of desugar_rule on it (some counter state) *)
Lemma block_spec : forall P cs pre k r, nth_error P k = Some r ->
  exists csk, filter_map (fun j => nth_error (pre ++ fst (desugar_prog_cs cs P)) j) (nth k (block_numbers cs P (length pre)) []) = fst (desugar_rule csk r).
Proof.
  induction P as [|r0 P IH]; intros cs pre k r Hk; [destruct k; discriminate|]. cbn [block_numbers desugar_prog_cs].
  destruct (desugar_rule cs r0) as [rs cs1] eqn:E0. destruct (desugar_prog_cs cs1 P) as [rest cs2] eqn:E1. cbn [fst]. destruct k as [|k].
  - cbn [nth_error] in Hk. inversion Hk; subst. cbn [nth]. exists cs. rewrite E0. cbn [fst]. apply filter_map_nth_seq.
  - cbn [nth_error nth] in *. destruct (IH cs1 (pre ++ rs) k r Hk) as [csk Hc]. exists csk. rewrite E1 in Hc. cbn [fst] in Hc.
    rewrite app_length in Hc. rewrite <- app_assoc in Hc. exact Hc.
Qed.
Lemma block_numbers_length : forall P cs off, length (block_numbers cs P off) = length P.
Proof.
  induction P as [|r P IH]; intros cs off; [reflexivity|]. cbn [block_numbers]. destruct (desugar_rule cs r) as [rs cs1]. cbn [length]. rewrite IH. reflexivity.
Qed.

Lemma in_filter_map_flat_map : forall (A B : Type) (f : nat -> option B) (h : A -> list nat) (g : list A) b,
  In b (filter_map f (flat_map h g)) <-> exists k, In k g /\ In b (filter_map f (h k)).
Proof.
  intros A B f h g b. rewrite in_filter_map. split.
  - intros [j [Hj Hf]]. apply in_flat_map in Hj as [k [Hk Hj]]. exists k. split; [exact Hk|]. apply in_filter_map. exists j. auto.
  - intros [k [Hk Hb]]. apply in_filter_map in Hb as [j [Hj Hf]]. exists j. split; [apply in_flat_map; exists k; auto | exact Hf].
Qed.

Lemma wf_surface_nth : forall P k r, wf_surface P = true -> nth_error P k = Some r -> ToCore.wf_rule r = true.
Proof. intros P k r H Hk. unfold wf_surface in H. rewrite forallb_forall in H. apply H. exact (nth_error_In P k Hk). Qed.
Lemma prog_fsyms_nth : forall P k r, nth_error P k = Some r -> incl (items_fsyms (sbody r)) (prog_fsyms P).
Proof. intros P k r Hk y Hy. unfold prog_fsyms. apply in_flat_map. exists r. split; [exact (nth_error_In P k Hk) | exact Hy]. Qed.

Lemma sstrat_sugared_transfer : forall I A B,
  Forall2 (fun SQ SP => (forall F f, sderives I SP F f <-> sderives I SQ F f)
                        /\ (forall q, In q (sstratum_agg_rels SQ) <-> In q (flat_map sagg_rels_sugared SP))) A B ->
  forall F0 M, sstrat_model_fixed I A F0 M -> sstrat_model_sugared I B F0 M.
Proof.
  intros I A B HF. induction HF as [|SQ SP A B [D G] HF IH]; intros F0 M H; cbn [sstrat_model_fixed sstrat_model_sugared] in *; [exact H|].
  destruct H as [M1 [H1 H2]]. exists M1. split; [|apply IH; exact H2].
  exact (sleast_model_fixed_ext I (sstratum_agg_rels SQ) (flat_map sagg_rels_sugared SP) SP SQ F0 M1 G D H1).
Qed.
Lemma Forall2_map_same : forall (A B C : Type) (R : B -> C -> Prop) (f : A -> B) (g : A -> C) l,
  (forall a, In a l -> R (f a) (g a)) -> Forall2 R (map f l) (map g l).
Proof. intros A B C R f g l. induction l as [|a l IH]; intro H; cbn [map]; constructor; [apply H; left; reflexivity | apply IH; intros x Hx; apply H; right; exact Hx]. Qed.

(* ---------- the theorem ---------- *)
Theorem end_to_end_strat_model_sugared : end_to_end_strat_model_sugared_stmt.
Proof.
  intros I swap ar P cs groups fuel F0 st Hwf Hb Hi Har HF Hnd Hperm sccs Hok Hrun.
  destruct (end_to_end_strat_model I swap ar P cs Hwf Hb Hi) as [Pc [E [_ [_ H]]]]. unfold to_core in *. rewrite E in *.
  destruct (H sccs fuel F0 st Har HF Hnd Hperm Hok Hrun) as [HS _]. clear H.
  apply (sstrat_sugared_transfer I (surface_strata (desugar_prog cs P) sccs)); [|exact HS].
  unfold surface_strata, sccs. rewrite map_map. apply Forall2_map_same. intros g _.
  destruct Hi as [Heq [Hnot Hlet]].
  set (Q := desugar_prog cs P). set (blocks := block_numbers cs P 0).
  assert (Hblock : forall k r, nth_error P k = Some r -> exists csk, filter_map (fun j => nth_error Q j) (nth k blocks []) = fst (desugar_rule csk r)).
  { intros k r Hk. exact (block_spec P cs [] k r Hk). }
  assert (Hout : forall k, nth_error P k = None -> nth k blocks [] = []).
  { intros k Hk. apply nth_overflow. unfold blocks. rewrite block_numbers_length. apply nth_error_None. exact Hk. }
  split.
  - intros F f. unfold sderives. split.
    + intros [r [Hr Hf]]. apply in_filter_map in Hr as [k [Hk Hn]]. destruct (Hblock k r Hn) as [csk Ek].
      destruct (desugar_rule_sem I (db_of F) (prog_fsyms P) Hnot r csk (wf_surface_nth P k r Hwf Hn) (prog_fsyms_nth P k r Hn)) as [S _].
      destruct (proj1 (S f) Hf) as [r' [Hr' Hf']]. exists r'. split; [|exact Hf']. apply in_filter_map_flat_map. exists k. split; [exact Hk|]. rewrite Ek. exact Hr'.
    + intros [r' [Hr' Hf']]. apply in_filter_map_flat_map in Hr' as [k [Hk Hr']]. destruct (nth_error P k) as [r|] eqn:Hn.
      * destruct (Hblock k r Hn) as [csk Ek]. rewrite Ek in Hr'.
        destruct (desugar_rule_sem I (db_of F) (prog_fsyms P) Hnot r csk (wf_surface_nth P k r Hwf Hn) (prog_fsyms_nth P k r Hn)) as [S _].
        exists r. split; [apply in_filter_map; exists k; auto | apply (proj2 (S f)); exists r'; auto].
      * rewrite (Hout k Hn) in Hr'. destruct Hr'.
  - intro q. unfold sstratum_agg_rels. rewrite !in_flat_map. split.
    + intros [r' [Hr' Hq]]. apply in_filter_map_flat_map in Hr' as [k [Hk Hr']]. destruct (nth_error P k) as [r|] eqn:Hn.
      * destruct (Hblock k r Hn) as [csk Ek]. rewrite Ek in Hr'. exists r. split; [apply in_filter_map; exists k; auto|].
        rewrite <- (desugar_rule_agg csk r). unfold sstratum_agg_rels. apply in_flat_map. exists r'. auto.
      * rewrite (Hout k Hn) in Hr'. destruct Hr'.
    + intros [r [Hr Hq]]. apply in_filter_map in Hr as [k [Hk Hn]]. destruct (Hblock k r Hn) as [csk Ek].
      rewrite <- (desugar_rule_agg csk r) in Hq. unfold sstratum_agg_rels in Hq. apply in_flat_map in Hq as [r' [Hr' Hq]].
      exists r'. split; [|exact Hq]. apply in_filter_map_flat_map. exists k. split; [exact Hk|]. rewrite Ek. exact Hr'.
Qed.
Print Assumptions end_to_end_strat_model_sugared.
