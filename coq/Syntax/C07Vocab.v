(* C07 — the vocabulary of the correspondence runs: Engine/Vocab.v plus pattern symbols
   (implemented once here and once in gen/c07_gen.py as Rust patterns).  No proofs. *)
From Coq Require Import List ZArith Bool Arith.
From AV Require Import Engine.Core.
From AV Require Import Engine.Vocab.
Import ListNotations.
Open Scope Z_scope.

(* refutable patterns without bindings (PTest):  20+c: the literal c (0 <= c <= 9);  30: 0..=2;  31: 1..=3;  32: 1 | 4 *)
Definition c07_pint (p : nat) (l : list Z) : bool :=
  if Nat.leb 20 p && Nat.leb p 29 then Z.eqb (arg 0 l) (Z.of_nat (p - 20))
  else match p with
       | 30%nat => Z.leb 0 (arg 0 l) && Z.leb (arg 0 l) 2
       | 31%nat => Z.leb 1 (arg 0 l) && Z.leb (arg 0 l) 3
       | 32%nat => Z.eqb (arg 0 l) 1 || Z.eqb (arg 0 l) 4
       | _ => std_pint p l
       end.
(* refutable patterns binding the column (PBind):  110: x @ 0..=2;  111: x @ 1..=3;  112: x @ (1 | 4) *)
Definition c07_bint (f : nat) (l : list Z) : option Z :=
  match f with
  | 110%nat => if Z.leb 0 (arg 0 l) && Z.leb (arg 0 l) 2 then Some (arg 0 l) else None
  | 111%nat => if Z.leb 1 (arg 0 l) && Z.leb (arg 0 l) 3 then Some (arg 0 l) else None
  | 112%nat => if Z.eqb (arg 0 l) 1 || Z.eqb (arg 0 l) 4 then Some (arg 0 l) else None
  | _ => std_bint f l
  end.
Definition c07_interp : interp :=
  {| fint := std_fint; pint := c07_pint; bint := c07_bint; gint := std_gint; aint := std_aint |}.
