(* C07 — assembly: freshness of the three name supplies under wf_rule, correctness of the pass pipeline on a
   disjunction-free rule for EVERY state of the process-wide counters, rules, programs. *)
From Coq Require Import List ZArith Bool Arith Ascii Lia.
From AV Require Import Engine.Core.
From AV Require Import Engine.Sem.
From AV Require Import Syntax.Surface.
From AV Require Import Syntax.Desugar.
From AV Require Import Syntax.ToCore.
From AV Require Import Syntax.SimBase.
From AV Require Import Syntax.SimRel.
From AV Require Import Syntax.Names.
From AV Require Import Syntax.DisjProof.
From AV Require Import Syntax.PatProof.
From AV Require Import Syntax.WildProof.
From AV Require Import Syntax.NegProof.
From AV Require Import Syntax.RepProof.
From AV Require Import Syntax.PassLemmas.
Import ListNotations.

(* ---------- the stems ---------- *)
Lemma pkeys_all : forall items k, In k (pkeys items) -> k = arg_pattern_key.
Proof.
  intros items k H. unfold pkeys in H. apply in_flat_map in H as [it [_ H]]. destruct it; try (destruct H; fail).
  unfold pkeys_args in H. apply in_flat_map in H as [a [_ H]]. destruct a; try (destruct H; fail). destruct H as [<-|[]]. reflexivity.
Qed.
Lemma wkeys_all : forall items k, In k (wkeys items) -> k = wild_key.
Proof.
  intros items k H. unfold wkeys in H. apply in_flat_map in H as [it [_ H]]. destruct it; try (destruct H; fail).
  unfold wkeys_args in H. apply in_flat_map in H as [a [_ H]]. destruct a; try (destruct H; fail). destruct H as [<-|[]]. reflexivity.
Qed.
Lemma keys_distinct : wild_key <> arg_pattern_key /\ expr_replaced_key <> arg_pattern_key /\ expr_replaced_key <> wild_key.
Proof. repeat split; intro H; vm_compute in H; discriminate H. Qed.
Lemma parse_gen_keys : parse_gen arg_pattern_key = None /\ parse_gen wild_key = Some [] /\ parse_gen expr_replaced_key = None.
Proof. repeat split; vm_compute; reflexivity. Qed.
Lemma fixed_stems_in : In arg_pattern_key fixed_stems /\ In wild_key fixed_stems /\ In expr_replaced_key fixed_stems.
Proof. unfold fixed_stems. repeat split; [left | right; left | right; right; left]; reflexivity. Qed.

Section Fresh.
Variable L0 : list ident.                     (* the identifiers of the rule *)
Hypothesis Hok : forall s, In s L0 -> name_ok L0 s = true.

Lemma fresh_fixed : forall y k, In k fixed_stems -> parse_gen y = Some k -> ~ In y L0.
Proof. intros y k Hk Hp Hin. destruct (name_ok_stem L0 y k (Hok y Hin) Hp) as [_ [H _]]. contradiction. Qed.

(* names of the process-wide supply: the stem is an identifier of the pre_rep rule (an identifier of the rule, a pattern
   name, a wildcard name) or "expr_replaced" *)
Lemma fresh_rep : forall y p Tp Tw,
  parse_gen y = Some p ->
  (forall z, In z Tp -> parse_gen z = Some arg_pattern_key) -> (forall z, In z Tw -> parse_gen z = Some wild_key) ->
  (In p L0 \/ In p Tp \/ In p Tw \/ p = expr_replaced_key) ->
  ~ In y L0 /\ ~ In y Tp /\ ~ In y Tw.
Proof.
  intros y p Tp Tw Hp HTp HTw Hstem. destruct keys_distinct as [K1 [K2 K3]]. destruct parse_gen_keys as [G1 [G2 G3]].
  destruct fixed_stems_in as [F1 [F2 F3]]. repeat split.
  - intro Hin. destruct (name_ok_stem L0 y p (Hok y Hin) Hp) as [N1 [N2 N3]].
    destruct Hstem as [H|[H|[H|H]]]; [contradiction | rewrite (HTp p H) in N3; discriminate | rewrite (HTw p H) in N3; discriminate | subst p; contradiction].
  - intro Hin. rewrite (HTp y Hin) in Hp. inversion Hp; subst p.
    destruct Hstem as [H|[H|[H|H]]].
    + destruct (name_ok_not_keys L0 _ (Hok _ H)) as [N _]. apply N. reflexivity.
    + rewrite (HTp _ H) in G1. discriminate.
    + rewrite (HTw _ H) in G1. discriminate.
    + apply K2. symmetry. exact H.
  - intro Hin. rewrite (HTw y Hin) in Hp. inversion Hp; subst p.
    destruct Hstem as [H|[H|[H|H]]].
    + destruct (name_ok_not_keys L0 _ (Hok _ H)) as [_ N]. apply N. reflexivity.
    + rewrite (HTp _ H) in G2. vm_compute in G2. discriminate G2.
    + rewrite (HTw _ H) in G2. vm_compute in G2. discriminate G2.
    + apply K3. symmetry. exact H.
Qed.
End Fresh.

Section Conj.
Variable I : interp.
Variable db : rel -> list tuple.
Hypothesis Hnot : forall ts, aint I agg_not_sym ts = match ts with [] => [0%Z] | _ => [] end.

Lemma sim2_agree : forall X l l', sim2 (srel X []) l l' ->
  (forall a, In a l -> exists b, In b l' /\ agree X a b) /\ (forall b, In b l' -> exists a, In a l /\ agree X a b).
Proof.
  intros X l l' [F B]. split.
  - intros a Ha. destruct (F a Ha) as [b [Hb [Hr _]]]. exists b. split; assumption.
  - intros b Hb. destruct (B b Hb) as [a [Ha [Hr _]]]. exists a. split; assumption.
Qed.
Lemma same_facts_trans : forall a b c, same_facts a b -> same_facts b c -> same_facts a c.
Proof. intros a b c H1 H2 f. rewrite (H1 f). apply H2. Qed.

(* the pipeline pat -> wild -> neg -> rep on a disjunction-free body, for every counter state *)
Theorem conj_pipeline : forall (L0 : list ident) hs b cs,
  (forall s, In s L0 -> name_ok L0 s = true) -> incl (items_ids b) L0 -> incl (heads_ids hs) L0 ->
  Forall no_disj b -> pats_ok b = true -> scoped [] b = true -> conds_okb b = true ->
  let r4 := fst (rule_desugar_rep cs (pre_rep {| sheads := hs; sbody := b |})) in
  same_facts (sderive_rule I db {| sheads := hs; sbody := b |}) (sderive_rule I db r4)
  /\ sheads r4 = hs /\ Forall core_frag_item (sbody r4) /\ incl (rule_eq_fsyms r4) (items_fsyms b).
Proof.
  intros L0 hs b cs Hok Hb Hh Hnd Hpo Hsc Hco.
  set (b1 := pat_items [] b). set (b2 := wild_items wild_gensym0 b1). set (b3 := map neg_item b2).
  set (Tp := gen_trace [] (pkeys b)). set (Tw := gen_trace wild_gensym0 (wkeys b1)). set (Tr := gen_trace cs (rkeys [] b3)).
  destruct (pat_items_facts b [] Hnd) as [P1 [P2 [P3 [P4 [P5 P6]]]]]. fold b1 in P1, P2, P3, P4, P5, P6. fold Tp in P4.
  destruct (wild_items_facts b1 wild_gensym0 P1 P2) as [W1 [W2 [W3 [W4 [W5 W6]]]]]. fold b2 in W1, W2, W3, W4, W5, W6. fold Tw in W4.
  destruct (neg_items_facts b2 W1 W2) as [N1 [N2 [N3 [N4 [N5 [N6 N7]]]]]]. fold b3 in N1, N2, N3, N4, N5, N6, N7.
  destruct fixed_stems_in as [F1 [F2 F3]].
  assert (HTp : forall z, In z Tp -> parse_gen z = Some arg_pattern_key).
  { intros z Hz. destruct (gen_trace_stem _ _ z Hz) as [q [Hq Hp]]. rewrite (pkeys_all b q Hq) in Hp. exact Hp. }
  assert (HTw : forall z, In z Tw -> parse_gen z = Some wild_key).
  { intros z Hz. destruct (gen_trace_stem _ _ z Hz) as [q [Hq Hp]]. rewrite (wkeys_all b1 q Hq) in Hp. exact Hp. }
  assert (Hb1 : forall y, In y (items_ids b1) -> In y L0 \/ In y Tp).
  { intros y Hy. destruct (P4 y Hy) as [H|H]; [left; apply Hb; exact H | right; exact H]. }
  assert (Hb3 : forall y, In y (items_ids b3) -> In y L0 \/ In y Tp \/ In y Tw).
  { intros y Hy. rewrite N5 in Hy. destruct (W4 y Hy) as [H|H]; [destruct (Hb1 y H) as [H'|H']; auto | right; right; exact H]. }
  assert (HTr : forall z, In z Tr -> ~ In z L0 /\ ~ In z Tp /\ ~ In z Tw).
  { intros z Hz. destruct (gen_trace_stem _ _ z Hz) as [q [Hq Hp]]. apply (fresh_rep L0 Hok z q Tp Tw Hp HTp HTw).
    destruct (rkeys_ids b3 [] q N2 Hq) as [H|H]; [|right; right; right; exact H].
    destruct (Hb3 q H) as [H'|[H'|H']]; auto. }
  (* step 1: patterns *)
  assert (S1 : same_facts (sderive_rule I db {| sheads := hs; sbody := b |}) (sderive_rule I db {| sheads := hs; sbody := b1 |})).
  { destruct (sim2_agree (fun y => In y Tp) _ _
      (pat_items_sim I db (fun y => In y Tp) b [] sempty sempty Hnd Hpo
         (fun y Hy Hin => fresh_fixed L0 Hok y _ F1 (HTp y Hin) (Hb y Hy))
         (gen_trace_nodup _ _) (fun y Hy => Hy) (conj (agree_refl _ _) (fun y _ => eq_refl)))) as [Fw Bw].
    apply (sderive_sim I db (fun y => In y Tp) hs b b1); [|exact Fw | exact Bw].
    intros y Hy Hin. exact (fresh_fixed L0 Hok y _ F1 (HTp y Hin) (Hh y Hy)). }
  (* step 2: wildcards *)
  assert (S2 : same_facts (sderive_rule I db {| sheads := hs; sbody := b1 |}) (sderive_rule I db {| sheads := hs; sbody := b2 |})).
  { assert (Hfr : forall y, In y Tw -> ~ In y L0 /\ ~ In y Tp).
    { intros y Hy. split; [exact (fresh_fixed L0 Hok y _ F2 (HTw y Hy))|]. intro Hin. pose proof (HTw y Hy) as E. rewrite (HTp y Hin) in E.
      destruct keys_distinct as [K _]. apply K. congruence. }
    destruct (sim2_agree (fun y => In y Tw) _ _
      (wild_items_sim I db (fun y => In y Tw) b1 wild_gensym0 sempty sempty P1
         (fun y Hy Hin => match Hb1 y Hy with or_introl H => proj1 (Hfr y Hin) H | or_intror H => proj2 (Hfr y Hin) H end)
         (gen_trace_nodup _ _) (fun y Hy => Hy) (conj (agree_refl _ _) (fun y _ => eq_refl)))) as [Fw Bw].
    apply (sderive_sim I db (fun y => In y Tw) hs b1 b2); [|exact Fw | exact Bw].
    intros y Hy Hin. exact (proj1 (Hfr y Hin) (Hh y Hy)). }
  (* step 3: negation *)
  assert (S3 : same_facts (sderive_rule I db {| sheads := hs; sbody := b2 |}) (sderive_rule I db {| sheads := hs; sbody := b3 |})).
  { intro f. pose proof (rule_desugar_neg_sem I db Hnot {| sheads := hs; sbody := b2 |}) as E. unfold rule_desugar_neg in E. cbn [sheads sbody] in E.
    fold b3 in E. rewrite E. reflexivity. }
  (* step 4: repeated variables *)
  assert (Hsc3 : scoped [] b3 = true).
  { apply (scoped_mono b2 b3 [] [] (incl_refl _) N4). apply (scoped_mono b1 b2 [] [] (incl_refl _) W3).
    apply (scoped_mono b b1 [] [] (incl_refl _) P3). exact Hsc. }
  assert (Heq : rule_desugar_rep cs (pre_rep {| sheads := hs; sbody := b |}) = ({| sheads := hs; sbody := fst (rep_items [] cs b3) |}, snd (rep_items [] cs b3))).
  { unfold rule_desugar_rep, pre_rep, rule_desugar_neg, rule_desugar_wild, rule_desugar_pat. cbn [sheads sbody]. fold b1. fold b2. fold b3.
    destruct (rep_items [] cs b3). reflexivity. }
  rewrite Heq. cbn [fst].
  assert (S4 : same_facts (sderive_rule I db {| sheads := hs; sbody := b3 |}) (sderive_rule I db {| sheads := hs; sbody := fst (rep_items [] cs b3) |})).
  { destruct (sim2_agree (fun y => In y Tr) _ _
      (rep_items_sim I db (fun y => In y Tr) b3 [] cs sempty sempty [] N1 N2
         (fun y Hy Hin => match Hb3 y Hy with
                          | or_introl H => proj1 (HTr y Hin) H
                          | or_intror (or_introl H) => proj1 (proj2 (HTr y Hin)) H
                          | or_intror (or_intror H) => proj2 (proj2 (HTr y Hin)) H end)
         (gen_trace_nodup _ _) (fun y Hy => Hy) Hsc3 (fun x Hx => match Hx with end) (conj (agree_refl _ _) (fun y _ => eq_refl)))) as [Fw Bw].
    apply (sderive_sim I db (fun y => In y Tr) hs b3 (fst (rep_items [] cs b3))); [|exact Fw | exact Bw].
    intros y Hy Hin. exact (proj1 (HTr y Hin) (Hh y Hy)). }
  assert (Hco3 : conds_okb b3 = true). { rewrite N6. apply W5. apply P5. exact Hco. }
  destruct (rep_items_facts b3 [] cs N1 N2 N3 Hco3) as [R1 R2].
  split; [exact (same_facts_trans _ _ _ S1 (same_facts_trans _ _ _ S2 (same_facts_trans _ _ _ S3 S4)))|].
  split; [reflexivity|]. split; [exact R1|].
  unfold rule_eq_fsyms. cbn [sbody]. intros y Hy. apply P6. apply W6. rewrite <- N7. apply R2. exact Hy.
Qed.
End Conj.
