(* C07 — (1) identifiers of a rule; (2) the decidable well-formedness predicate of the main theorem;
   (3) the translation of desugared rules (no disjunction / pattern / wildcard / negation left) to the
   core language of Engine/Core.v, whose variables are numbers: identifiers are numbered in order of
   first occurrence in the rule, temporaries (needed for `if v.eq(&(f(xs)))`, which the core language
   writes `let t = f(xs), if v == t`) are numbered above all identifiers.  No proofs in this file. *)
From Coq Require Import List ZArith Bool Arith Ascii String.
From AV Require Import Engine.Core.
From AV Require Import Syntax.Surface.
From AV Require Import Syntax.Desugar.
Import ListNotations.

(* ---- identifiers ---- *)
Definition pat_ids (p : spat) : list ident := match p with PTest _ => [] | PBind x _ => [x] end.
Definition arg_ids (a : sarg) : list ident := match a with AT t => expr_vars t | AWildS => [] | APat p => pat_ids p end.
Definition cond_ids (c : scond) : list ident :=
  match c with
  | SIf _ xs => xs
  | SBind x _ xs => x :: xs
  | SIfLet p v => v :: pat_ids p
  | SIfEq v t => v :: expr_vars t
  end.
Definition aarg_ids (a : saarg) : list ident := match a with SAWild => [] | SABound x => [x] | SAKey t => expr_vars t end.
Definition narg_ids (a : snarg) : list ident := match a with NWild => [] | NKey t => expr_vars t end.
Definition out_ids (o : option ident) : list ident := match o with Some x => [x] | None => [] end.
Fixpoint item_ids (it : sitem) : list ident :=
  match it with
  | IClause _ args cs => flat_map arg_ids args ++ flat_map cond_ids cs
  | ICond c => cond_ids c
  | IGen x _ xs => x :: xs
  | IAgg out _ bound _ args => out_ids out ++ bound ++ flat_map aarg_ids args
  | INeg _ args => flat_map narg_ids args
  | IDisj ds => flat_map (fix go (l : list sitem) : list ident :=
                            match l with [] => [] | it' :: rest => item_ids it' ++ go rest end) ds
  end.
Definition items_ids (l : list sitem) : list ident := flat_map item_ids l.
Definition heads_ids (hs : list (rel * list sterm)) : list ident := flat_map (fun h => flat_map expr_vars (snd h)) hs.
Definition rule_ids (r : srule) : list ident := items_ids (sbody r) ++ heads_ids (sheads r).

(* ---- the generated name space ----
   every generated name is  stem ++ "_" ++ digits  (digits possibly empty); [parse_gen] recovers the stem *)
Definition is_digit (c : ascii) : bool := let n := nat_of_ascii c in Nat.leb 48 n && Nat.leb n 57.
Fixpoint drop_digits (l : list ascii) : list ascii :=
  match l with c :: l' => if is_digit c then drop_digits l' else l | [] => [] end.
Definition parse_gen (s : ident) : option ident :=
  match drop_digits (rev s) with
  | c :: p => if Ascii.eqb c "_"%char then Some (rev p) else None
  | [] => None
  end.
Definition fixed_stems : list ident := [arg_pattern_key; wild_key; expr_replaced_key].
Definition is_gen_shaped (s : ident) : bool := match parse_gen s with Some _ => true | None => false end.
(* an identifier of the rule lies in the generated name space of the rule when it reads stem_digits with the stem
   an identifier of the rule, one of the three fixed stems, or itself of that shape; the two names "_" and
   "__arg_pattern" would, as stems of a repeated variable, collide with the other two supplies *)
Definition name_ok (ids : list ident) (s : ident) : bool :=
  negb (ieqb s arg_pattern_key) && negb (ieqb s wild_key) &&
  match parse_gen s with
  | None => true
  | Some p => negb (imem p ids || imem p fixed_stems || is_gen_shaped p)
  end.
Definition names_ok (r : srule) : bool := forallb (name_ok (rule_ids r)) (rule_ids r).

(* ---- scoping (on disjunction-free bodies) ---- *)
Definition isub (xs B : list ident) : bool := forallb (fun x => imem x B) xs.
Definition arg_binds (a : sarg) : list ident := match a with AT (SVar x) => [x] | APat p => pat_ids p | _ => [] end.
Definition cond_binds (c : scond) : list ident :=
  match c with SBind x _ _ => [x] | SIfLet p _ => pat_ids p | _ => [] end.
Definition item_binds (it : sitem) : list ident :=
  match it with
  | IClause _ args cs => flat_map cond_binds cs ++ flat_map arg_binds args
  | ICond c => cond_binds c
  | IGen x _ _ => [x]
  | IAgg out _ _ _ _ => out_ids out
  | _ => []
  end.
(* an expression argument mentions only variables bound by earlier items or by earlier arguments of its clause *)
Definition arg_svar (a : sarg) : list ident := match a with AT (SVar x) => [x] | _ => [] end.
Fixpoint scoped_args (B : list ident) (args : list sarg) : bool :=
  match args with
  | [] => true
  | a :: rest => (match a with AT (SFun _ xs) => isub xs B | _ => true end) && scoped_args (arg_svar a ++ B) rest
  end.
Fixpoint scoped (B : list ident) (items : list sitem) : bool :=
  match items with
  | [] => true
  | it :: rest => (match it with IClause _ args _ => scoped_args B args | _ => true end) && scoped (item_binds it ++ B) rest
  end.
(* the variable of a binding pattern is not an argument variable of its own clause *)
Definition clause_pats_ok (args : list sarg) : bool :=
  forallb (fun a => match a with APat p => forallb (fun y => negb (imem y (flat_map (fun b => match b with AT t => expr_vars t | _ => [] end) args))) (pat_ids p) | _ => true end) args.
Definition pats_ok (items : list sitem) : bool :=
  forallb (fun it => match it with IClause _ args _ => clause_pats_ok args | _ => true end) items.

(* `if v == constant` is not a form the macro generates and has no core counterpart here *)
Definition cond_okb (c : scond) : bool := match c with SIfEq _ (SConst _) => false | _ => true end.
Definition conds_okb (items : list sitem) : bool :=
  forallb (fun it => match it with IClause _ _ cs => forallb cond_okb cs | ICond c => cond_okb c | _ => true end) items.

Definition wf_rule (r : srule) : bool :=
  names_ok r && forallb (fun b => pats_ok b && scoped [] b && conds_okb b) (disj_items (sbody r)).
Definition wf_surface (P : list srule) : bool := forallb wf_rule P.

(* ---- translation to Engine/Core.v ---- *)
Fixpoint index_of (x : ident) (l : list ident) : nat :=
  match l with [] => O | y :: l' => if ieqb x y then O else S (index_of x l') end.
Definition eq_pred_sym : nat := 4.          (* Engine/Vocab.v std_pint 4: equality *)

Section Core.
Variable rho : ident -> nat.
Definition c_term (t : sterm) : term :=
  match t with SVar x => TVar (rho x) | SConst c => TConst c | SFun f xs => TFun f (map rho xs) end.
(* n = next temporary *)
Definition c_cond (n : nat) (c : scond) : option (list cond * nat) :=
  match c with
  | SIf p xs => Some ([CIf p (map rho xs)], n)
  | SBind x f xs => Some ([CBind (rho x) f (map rho xs)], n)
  | SIfLet (PTest p) v => Some ([CIf p [rho v]], n)
  | SIfLet (PBind x f) v => Some ([CBind (rho x) f [rho v]], n)
  | SIfEq v (SVar y) => Some ([CIf eq_pred_sym [rho v; rho y]], n)
  | SIfEq v (SFun f xs) => Some ([CBind n f (map rho xs); CIf eq_pred_sym [rho v; n]], S n)
  | SIfEq v (SConst _) => None
  end.
Fixpoint c_conds (n : nat) (cs : list scond) : option (list cond * nat) :=
  match cs with
  | [] => Some ([], n)
  | c :: rest => match c_cond n c with
                 | Some (l, n1) => match c_conds n1 rest with Some (l', n2) => Some (l ++ l', n2) | None => None end
                 | None => None end
  end.
Fixpoint c_args (args : list sarg) : option (list term) :=
  match args with
  | [] => Some []
  | AT t :: rest => match c_args rest with Some l => Some (c_term t :: l) | None => None end
  | _ :: _ => None
  end.
Definition c_aarg (a : saarg) : aarg :=
  match a with SAWild => AWild | SABound x => ABound (rho x) | SAKey t => AKey (c_term t) end.
Definition c_item (n : nat) (it : sitem) : option (list bitem * nat) :=
  match it with
  | IClause r args cs => match c_args args, c_conds n cs with
                         | Some a, Some (l, n1) => Some ([BClause r a l], n1)
                         | _, _ => None end
  | ICond c => match c_cond n c with Some (l, n1) => Some (map BCond l, n1) | None => None end
  | IGen x g xs => Some ([BGen (rho x) g (map rho xs)], n)
  | IAgg out a bound r args => Some ([BAgg (option_map rho out) a (map rho bound) r (map c_aarg args)], n)
  | INeg _ _ => None
  | IDisj _ => None
  end.
Fixpoint c_items (n : nat) (items : list sitem) : option (list bitem) :=
  match items with
  | [] => Some []
  | it :: rest => match c_item n it with
                  | Some (l, n1) => match c_items n1 rest with Some l' => Some (l ++ l') | None => None end
                  | None => None end
  end.
End Core.

Definition core_of_rule (r : srule) : option rule :=
  let names := rule_ids r in
  let rho := fun x => index_of x names in
  match c_items rho (List.length names) (sbody r) with
  | Some b => Some {| heads := map (fun h => (fst h, map (c_term rho) (snd h))) (sheads r); body := b |}
  | None => None
  end.
Fixpoint core_of_prog (P : list srule) : option (list rule) :=
  match P with
  | [] => Some []
  | r :: rest => match core_of_rule r, core_of_prog rest with Some c, Some l => Some (c :: l) | _, _ => None end
  end.

(* the symbols whose interpretation the desugared forms rely on *)
Definition interp_ok (I : interp) (fsyms : list nat) : Prop :=
  (forall a b, pint I eq_pred_sym [a; b] = Z.eqb a b)
  /\ (forall ts, aint I agg_not_sym ts = match ts with [] => [0%Z] | _ => [] end)
  /\ (forall f vs, In f fsyms -> bint I f vs = Some (fint I f vs)).
Definition arg_fsyms (a : sarg) : list nat := match a with AT (SFun f _) => [f] | _ => [] end.
Definition cond_fsyms (c : scond) : list nat := match c with SIfEq _ (SFun f _) => [f] | _ => [] end.
Fixpoint item_fsyms (it : sitem) : list nat :=
  match it with
  | IClause _ args cs => flat_map arg_fsyms args ++ flat_map cond_fsyms cs
  | ICond c => cond_fsyms c
  | IDisj ds => flat_map (fix go (l : list sitem) : list nat :=
                            match l with [] => [] | it' :: rest => item_fsyms it' ++ go rest end) ds
  | _ => []
  end.
Definition items_fsyms (l : list sitem) : list nat := flat_map item_fsyms l.
Definition prog_fsyms (P : list srule) : list nat := flat_map (fun r => items_fsyms (sbody r)) P.

(* the fragment the translation is defined on (what desugaring leaves) *)
Definition is_AT (a : sarg) : Prop := match a with AT _ => True | _ => False end.
Definition cond_ok (c : scond) : Prop := match c with SIfEq _ (SConst _) => False | _ => True end.
Definition core_frag_item (it : sitem) : Prop :=
  match it with
  | IClause _ args cs => Forall is_AT args /\ Forall cond_ok cs
  | ICond c => cond_ok c
  | IGen _ _ _ => True
  | IAgg _ _ _ _ _ => True
  | INeg _ _ => False
  | IDisj _ => False
  end.
(* function symbols f of conditions `if v.eq(&(f(xs)))` of a rule *)
Definition rule_eq_fsyms (r : srule) : list nat :=
  flat_map (fun it => match it with IClause _ _ cs => flat_map cond_fsyms cs | ICond c => cond_fsyms c | _ => [] end) (sbody r).
