(* C07 — main theorem: for every well-formed surface program, every state of the process-wide counters and every
   fact set, the rules of the surface program (direct denotation) derive exactly what the core translation of
   `desugar P` derives with respect to Engine/Sem.v; hence closedness, least models and stratified models coincide. *)
From Coq Require Import List ZArith Bool Arith Ascii Lia.
From AV Require Import Engine.Core.
From AV Require Import Engine.Sem.
From AV Require Import Engine.Strat.
From AV Require Import Engine.StratFixed.
From AV Require Import Syntax.Surface.
From AV Require Import Syntax.Desugar.
From AV Require Import Syntax.ToCore.
From AV Require Import Syntax.SimBase.
From AV Require Import Syntax.DisjProof.
From AV Require Import Syntax.DesugarProofs.
From AV Require Import Syntax.CoreProof.
Import ListNotations.

Section Main.
Variable I : interp.
Variable db : rel -> list tuple.
Variable FS : list nat.
Hypothesis Hnot : forall ts, aint I agg_not_sym ts = match ts with [] => [0%Z] | _ => [] end.

Definition out_ok (r' : srule) : Prop := Forall core_frag_item (sbody r') /\ incl (rule_eq_fsyms r') FS.
Definition conj_ok (r : srule) : Prop :=
  exists L0, (forall s, In s L0 -> name_ok L0 s = true) /\ incl (items_ids (sbody r)) L0 /\ incl (heads_ids (sheads r)) L0
  /\ Forall no_disj (sbody r) /\ pats_ok (sbody r) = true /\ scoped [] (sbody r) = true /\ conds_okb (sbody r) = true
  /\ incl (items_fsyms (sbody r)) FS.

Lemma rep_rules_sem : forall rs cs, Forall conj_ok rs ->
  (forall f, (exists r, In r rs /\ In f (sderive_rule I db r)) <-> (exists r', In r' (fst (rep_rules cs rs)) /\ In f (sderive_rule I db r')))
  /\ Forall out_ok (fst (rep_rules cs rs)).
Proof.
  induction rs as [|r rs IH]; intros cs HF.
  - cbn. split; [|constructor]. intro f. split; intros [x [[] _]].
  - inversion HF as [|? ? Hr Hrs]; subst. cbn [rep_rules].
    destruct Hr as [L0 [H1 [H2 [H3 [H4 [H5 [H6 [H7 H8]]]]]]]].
    assert (Er : r = {| sheads := sheads r; sbody := sbody r |}) by (destruct r; reflexivity).
    pose proof (conj_pipeline I db Hnot L0 (sheads r) (sbody r) cs H1 H2 H3 H4 H5 H6 H7) as Hp. cbn zeta in Hp. rewrite <- Er in Hp.
    destruct (rule_desugar_rep cs (pre_rep r)) as [r' cs1]. cbn [fst] in Hp. destruct Hp as [S [_ [C Fs]]].
    destruct (IH cs1 Hrs) as [IH1 IH2]. destruct (rep_rules cs1 rs) as [rest' cs2]. cbn [fst] in *. split.
    + intro f. split.
      * intros [x [[<-|Hx] Hf]]; [exists r'; split; [left; reflexivity | apply S; exact Hf]|].
        destruct (proj1 (IH1 f) (ex_intro _ x (conj Hx Hf))) as [y [Hy Hfy]]. exists y. split; [right; exact Hy | exact Hfy].
      * intros [y [[<-|Hy] Hf]]; [exists r; split; [left; reflexivity | apply S; exact Hf]|].
        destruct (proj2 (IH1 f) (ex_intro _ y (conj Hy Hf))) as [x [Hx Hfx]]. exists x. split; [right; exact Hx | exact Hfx].
    + constructor; [|exact IH2]. split; [exact C|]. intros y Hy. apply H8. apply Fs. exact Hy.
Qed.

Lemma wf_rule_conj : forall r, wf_rule r = true -> incl (items_fsyms (sbody r)) FS -> Forall conj_ok (rule_desugar_disj r).
Proof.
  intros r Hwf Hfs. unfold wf_rule in Hwf. apply andb_true_iff in Hwf as [Hn Hb]. apply Forall_forall. intros r' Hr'.
  unfold rule_desugar_disj in Hr'. apply in_map_iff in Hr' as [b [<- Hb']]. rewrite forallb_forall in Hb. specialize (Hb b Hb').
  apply andb_true_iff in Hb as [Hb Hc]. apply andb_true_iff in Hb as [Hp Hs].
  destruct (disj_items_nd (sbody r) b Hb') as [Hnd Hids]. exists (rule_ids r). cbn [sheads sbody]. repeat split; try assumption.
  - unfold names_ok in Hn. rewrite forallb_forall in Hn. exact Hn.
  - intros y Hy. unfold rule_ids. apply in_or_app. left. apply Hids. exact Hy.
  - intros y Hy. unfold rule_ids. apply in_or_app. right. exact Hy.
  - intros y Hy. apply Hfs. exact (disj_items_fsyms (sbody r) b Hb' y Hy).
Qed.

Lemma desugar_rule_sem : forall r cs, wf_rule r = true -> incl (items_fsyms (sbody r)) FS ->
  (forall f, In f (sderive_rule I db r) <-> (exists r', In r' (fst (desugar_rule cs r)) /\ In f (sderive_rule I db r')))
  /\ Forall out_ok (fst (desugar_rule cs r)).
Proof.
  intros r cs Hwf Hfs. unfold desugar_rule. destruct (rep_rules_sem (rule_desugar_disj r) cs (wf_rule_conj r Hwf Hfs)) as [A B].
  split; [|exact B]. intro f. rewrite (rule_desugar_disj_sem I db r f). apply A.
Qed.

Lemma desugar_prog_sem : forall P cs, wf_surface P = true -> incl (prog_fsyms P) FS ->
  (forall f, (exists r, In r P /\ In f (sderive_rule I db r)) <-> (exists r', In r' (desugar_prog cs P) /\ In f (sderive_rule I db r')))
  /\ Forall out_ok (desugar_prog cs P).
Proof.
  unfold desugar_prog. induction P as [|r P IH]; intros cs Hwf Hfs.
  - cbn. split; [|constructor]. intro f. split; intros [x [[] _]].
  - cbn [wf_surface forallb] in Hwf. apply andb_true_iff in Hwf as [Hr HP]. cbn [desugar_prog_cs].
    assert (Hfs1 : incl (items_fsyms (sbody r)) FS). { intros y Hy. apply Hfs. unfold prog_fsyms. cbn [flat_map]. apply in_or_app. left. exact Hy. }
    assert (Hfs2 : incl (prog_fsyms P) FS). { intros y Hy. apply Hfs. unfold prog_fsyms. cbn [flat_map]. apply in_or_app. right. exact Hy. }
    destruct (desugar_rule_sem r cs Hr Hfs1) as [A B]. destruct (desugar_rule cs r) as [rs cs1]. cbn [fst] in A, B.
    destruct (IH cs1 HP Hfs2) as [C D]. destruct (desugar_prog_cs cs1 P) as [rest cs2]. cbn [fst] in *. split.
    + intro f. split.
      * intros [x [[<-|Hx] Hf]].
        -- destruct (proj1 (A f) Hf) as [y [Hy Hfy]]. exists y. split; [apply in_or_app; left; exact Hy | exact Hfy].
        -- destruct (proj1 (C f) (ex_intro _ x (conj Hx Hf))) as [y [Hy Hfy]]. exists y. split; [apply in_or_app; right; exact Hy | exact Hfy].
      * intros [y [Hy Hf]]. apply in_app_or in Hy as [Hy|Hy].
        -- exists r. split; [left; reflexivity | apply A; exists y; split; assumption].
        -- destruct (proj2 (C f) (ex_intro _ y (conj Hy Hf))) as [x [Hx Hfx]]. exists x. split; [right; exact Hx | exact Hfx].
    + apply Forall_app. split; assumption.
Qed.

(* the translation to the core language is defined on what desugaring leaves, and keeps the derived facts *)
Hypothesis Heq : forall a b, pint I eq_pred_sym [a; b] = Z.eqb a b.
Hypothesis Hlet : forall f vs, In f FS -> bint I f vs = Some (fint I f vs).

Lemma core_of_prog_sem : forall Q, Forall out_ok Q ->
  exists Qc, core_of_prog Q = Some Qc /\
    forall f, (exists r', In r' Q /\ In f (sderive_rule I db r')) <-> (exists c, In c Qc /\ In f (derive_rule I db c)).
Proof.
  induction Q as [|r Q IH]; intro HF.
  - exists []. split; [reflexivity|]. intro f. split; intros [x [[] _]].
  - inversion HF as [|? ? [Hr1 Hr2] HQ]; subst. destruct (IH HQ) as [Qc [E S]]. destruct (core_of_rule_some r Hr1) as [c Ec].
    exists (c :: Qc). split; [cbn [core_of_prog]; rewrite Ec, E; reflexivity|].
    pose proof (core_of_rule_sem I db r c Heq (fun f vs Hf => Hlet f vs (Hr2 f Hf)) Ec) as Sr. intro f. split.
    + intros [x [[<-|Hx] Hf]]; [exists c; split; [left; reflexivity | apply Sr; exact Hf]|].
      destruct (proj1 (S f) (ex_intro _ x (conj Hx Hf))) as [y [Hy Hfy]]. exists y. split; [right; exact Hy | exact Hfy].
    + intros [y [[<-|Hy] Hf]]; [exists r; split; [left; reflexivity | apply Sr; exact Hf]|].
      destruct (proj2 (S f) (ex_intro _ y (conj Hy Hf))) as [x [Hx Hfx]]. exists x. split; [right; exact Hx | exact Hfx].
Qed.
End Main.

(* ---------- the property ---------- *)
Theorem desugar_derives : forall (I : interp) P cs, wf_surface P = true -> interp_ok I (prog_fsyms P) ->
  exists Pc, core_of_prog (desugar_prog cs P) = Some Pc /\ forall F f, sderives I P F f <-> derives I Pc F f.
Proof.
  intros I P cs Hwf [Heq [Hnot Hlet]].
  assert (Hout : Forall (out_ok (prog_fsyms P)) (desugar_prog cs P)).
  { exact (proj2 (desugar_prog_sem I (fun _ => []) (prog_fsyms P) Hnot P cs Hwf (incl_refl _))). }
  assert (Hex : exists Pc, core_of_prog (desugar_prog cs P) = Some Pc).
  { destruct (core_of_prog_sem I (fun _ => []) (prog_fsyms P) Heq Hlet _ Hout) as [Pc [E _]]. exists Pc. exact E. }
  destruct Hex as [Pc E]. exists Pc. split; [exact E|]. intros F f. unfold sderives, derives.
  destruct (desugar_prog_sem I (db_of F) (prog_fsyms P) Hnot P cs Hwf (incl_refl _)) as [A _].
  destruct (core_of_prog_sem I (db_of F) (prog_fsyms P) Heq Hlet _ Hout) as [Pc' [E' B]]. rewrite E in E'. inversion E'; subst Pc'.
  rewrite (A f). apply B.
Qed.

Theorem desugar_correct : forall (I : interp) P cs, wf_surface P = true -> interp_ok I (prog_fsyms P) ->
  exists Pc, core_of_prog (desugar_prog cs P) = Some Pc /\ forall F, sclosed I P F <-> closed I Pc F.
Proof.
  intros I P cs Hwf Hi. destruct (desugar_derives I P cs Hwf Hi) as [Pc [E D]]. exists Pc. split; [exact E|].
  intro F. unfold sclosed, closed. split; intros H f Hf; apply H; apply D; exact Hf.
Qed.

(* hence the same least models, and stratum by stratum the same stratified models *)
Definition sleast_model_fixed (I : interp) (qs : list rel) (P : list srule) (F M : list fact) : Prop :=
  incl F M /\ agree_on qs F M /\ sclosed I P M /\ forall M', incl F M' -> agree_on qs F M' -> sclosed I P M' -> incl M M'.

Theorem desugar_models : forall (I : interp) P cs, wf_surface P = true -> interp_ok I (prog_fsyms P) ->
  exists Pc, core_of_prog (desugar_prog cs P) = Some Pc
    /\ (forall F0 M, sleast_model I P F0 M <-> least_model I Pc F0 M)
    /\ (forall F0 M, sleast_model_fixed I (stratum_agg_rels Pc) P F0 M <-> least_model_fixed I Pc F0 M).
Proof.
  intros I P cs Hwf Hi. destruct (desugar_correct I P cs Hwf Hi) as [Pc [E C]]. exists Pc. split; [exact E|]. split.
  - intros F0 M. unfold sleast_model, least_model. split; intros [H1 [H2 H3]]; (split; [exact H1|]; split; [apply C; exact H2|]);
      intros M' HM' Hc; apply H3; [exact HM' | apply C; exact Hc | exact HM' | apply C; exact Hc].
  - intros F0 M. unfold sleast_model_fixed, least_model_fixed. split; intros [H1 [H2 [H3 H4]]];
      (split; [exact H1|]; split; [exact H2|]; split; [apply C; exact H3|]);
      intros M' HM' Ha Hc; apply H4; try assumption; apply C; exact Hc.
Qed.

(* ---------- forms that desugaring leaves alone ---------- *)
(* several head clauses = one rule per head clause *)
Theorem multi_head_rule : forall I db hs b f,
  In f (sderive_rule I db {| sheads := hs; sbody := b |}) <-> exists h, In h hs /\ In f (sderive_rule I db {| sheads := [h]; sbody := b |}).
Proof.
  intros I db hs b f. rewrite in_sderive. cbn [sheads sbody]. split.
  - intros [e [h [He [Hh Hf]]]]. exists h. split; [exact Hh|]. apply in_sderive. exists e, h. cbn [sheads sbody]. repeat split; [exact He | left; reflexivity | exact Hf].
  - intros [h [Hh Hf]]. apply in_sderive in Hf as [e [h' [He [[<-|[]] Hf]]]]. exists e, h. auto.
Qed.
(* no body = the heads hold unconditionally: they are evaluated in the empty environment, whatever the relations contain *)
Theorem bodyless_rule : forall I db hs, sderive_rule I db {| sheads := hs; sbody := [] |} = filter_map (seval_head I sempty) hs ++ [].
Proof. reflexivity. Qed.
