(* C07 — the freshness lemmas are FALSE without the well-formedness guard: the generated names are ordinary
   identifiers and capture user variables of the same spelling (all three supplies).  Computed witnesses. *)
From Coq Require Import List ZArith Bool Arith Ascii String.
From AV Require Import Engine.Core.
From AV Require Import Engine.Sem.
From AV Require Import Engine.Vocab.
From AV Require Import Syntax.Surface.
From AV Require Import Syntax.Desugar.
From AV Require Import Syntax.ToCore.
Import ListNotations.
Open Scope Z_scope.

Definition av (s : string) : sarg := AT (SVar (i s)).
(* relations: foo = 0, bar = 1, res = 2 *)
(* W1  res(x) <-- foo(x, _), bar(__1);        the wildcard becomes __1 and joins with the user's __1 *)
Definition w_wild : srule :=
  {| sheads := [(2%nat, [SVar (i "x")])]; sbody := [IClause 0%nat [av "x"; AWildS] []; IClause 1%nat [av "__1"] []] |}.
(* W2  res(x) <-- foo(x, ?0..=2), bar(__arg_pattern_);   (pattern symbol 30 of C07Vocab; here any test symbol) *)
Definition w_pat : srule :=
  {| sheads := [(2%nat, [SVar (i "x")])]; sbody := [IClause 0%nat [av "x"; APat (PTest 2%nat)] []; IClause 1%nat [av "__arg_pattern_"] []] |}.
(* W3  res(x, x_) <-- foo3(x, x, x_);   fresh_ident("x") = x_ in a fresh process (DESIGN F9; the real macro then panics) *)
Definition w_rep : srule :=
  {| sheads := [(2%nat, [SVar (i "x"); SVar (i "x_")])]; sbody := [IClause 0%nat [av "x"; av "x"; av "x_"] []] |}.

Definition captured (r : srule) (cs : counters) (F : list fact) (missing : fact) : Prop :=
  wf_surface [r] = false
  /\ exists Pc, core_of_prog (desugar_prog cs [r]) = Some Pc
       /\ closed std_interp Pc F                         (* the desugared program derives nothing new *)
       /\ In missing (sderive_rule std_interp (db_of F) r) /\ ~ In missing F.   (* the surface rule does *)

Ltac solve_captured :=
  split; [vm_compute; reflexivity|]; eexists; split; [vm_compute; reflexivity|]; split;
  [ intros f [c [[<-|[]] Hf]]; vm_compute in Hf; destruct Hf
  | split; [vm_compute; left; reflexivity | vm_compute; intros H; repeat (destruct H as [H|H]; [discriminate H|]); exact H ] ].

Lemma wild_capture : captured w_wild [] [(0%nat, [1; 2]); (1%nat, [5])] (2%nat, [1]).
Proof. solve_captured. Qed.
Lemma pat_capture : captured w_pat [] [(0%nat, [1; 2]); (1%nat, [5])] (2%nat, [1]).
Proof. solve_captured. Qed.
Lemma rep_capture : captured w_rep [] [(0%nat, [1; 1; 2])] (2%nat, [1; 2]).
Proof. solve_captured. Qed.
(* the numbered names of the process-wide supply capture as well: it only depends on the counter *)
Definition w_rep3 : srule :=
  {| sheads := [(2%nat, [SVar (i "x"); SVar (i "x_3")])]; sbody := [IClause 0%nat [av "x"; av "x"; av "x_3"] []] |}.
Lemma rep_capture_numbered : captured w_rep3 [(i "x", 3%nat)] [(0%nat, [1; 1; 2])] (2%nat, [1; 2]).
Proof. solve_captured. Qed.

(* the bare freshness statement "a generated name is not an identifier of the rule" fails *)
Lemma fresh_ident_not_fresh : In (fst (fresh_ident [] (i "x"))) (rule_ids w_rep).
Proof. vm_compute. right. right. left. reflexivity. Qed.

(* consequently the unguarded correctness statement is false *)
Theorem desugar_correct_unguarded_refuted :
  ~ (forall P cs Pc F, core_of_prog (desugar_prog cs P) = Some Pc -> (sclosed std_interp P F <-> closed std_interp Pc F)).
Proof.
  intro H. destruct rep_capture as [_ [Pc [E [Hc [Hd Hn]]]]].
  apply Hn. apply (proj2 (H [w_rep] [] Pc _ E) Hc). exists w_rep. split; [left; reflexivity | exact Hd].
Qed.
