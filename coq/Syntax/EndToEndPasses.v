(* END-TO-END (B10) — the desugaring passes 2-5 (Desugar.v) turn the surface binding discipline
   (EndToEndDefs.bwf_conj) into the strict discipline of the desugared fragment (EndToEndDefs.strict_conj).
   Bound sets before and after a pass are compared outside the set X of names the pass generates ([eqv X]). *)
From Coq Require Import List ZArith Bool Arith Ascii Lia.
From AV Require Import Engine.Core.
From AV Require Import Engine.Eval.
From AV Require Import Engine.Validate.
From AV Require Import Syntax.Surface.
From AV Require Import Syntax.Desugar.
From AV Require Import Syntax.ToCore.
From AV Require Import Syntax.SimBase.
From AV Require Import Syntax.SimRel.
From AV Require Import Syntax.Names.
From AV Require Import Syntax.PatProof.
From AV Require Import Syntax.WildProof.
From AV Require Import Syntax.RepProof.
From AV Require Import Syntax.PassLemmas.
From AV Require Import Syntax.EndToEndDefs.
Import ListNotations.
Close Scope Z_scope.
Open Scope nat_scope.

(* ---------- bound sets up to generated names ---------- *)
Definition eqv (X : ident -> Prop) (B B' : list ident) : Prop := forall y, ~ X y -> (In y B <-> In y B').

Section Eqv.
Variable X : ident -> Prop.
Lemma eqv_refl : forall B, eqv X B B.
Proof. intros B y _. reflexivity. Qed.
Lemma eqv_imem : forall B B' y, eqv X B B' -> ~ X y -> imem y B = imem y B'.
Proof.
  intros B B' y H Hy. destruct (imem y B') eqn:E.
  - apply imem_In. apply (H y Hy). apply imem_In. exact E.
  - apply imem_false. intro Hin. apply (H y Hy) in Hin. apply imem_In in Hin. congruence.
Qed.
Lemma eqv_isub : forall B B' xs, eqv X B B' -> (forall y, In y xs -> ~ X y) -> isub xs B = isub xs B'.
Proof.
  intros B B' xs H. induction xs as [|x xs IH]; intro Hx; [reflexivity|]. unfold isub in *. cbn [forallb].
  rewrite (eqv_imem B B' x H (Hx x (or_introl eq_refl))). rewrite IH; [reflexivity|]. intros y Hy. apply Hx. right. exact Hy.
Qed.
Lemma eqv_cons : forall B B' x, eqv X B B' -> eqv X (x :: B) (x :: B').
Proof. intros B B' x H y Hy. cbn [In]. rewrite (H y Hy). reflexivity. Qed.
Lemma eqv_cons_r : forall B B' v, X v -> eqv X B B' -> eqv X B (v :: B').
Proof.
  intros B B' v Hv H y Hy. cbn [In]. rewrite (H y Hy). split; [intro K; right; exact K|]. intros [E|K]; [subst; contradiction | exact K].
Qed.
Lemma eqv_app : forall A A' B B', eqv X A A' -> eqv X B B' -> eqv X (A ++ B) (A' ++ B').
Proof. intros A A' B B' H1 H2 y Hy. rewrite !in_app_iff, (H1 y Hy), (H2 y Hy). reflexivity. Qed.
Lemma eqv_in : forall B B' y, eqv X B B' -> ~ X y -> In y B -> In y B'.
Proof. intros B B' y H Hy Hin. apply (H y Hy). exact Hin. Qed.

(* ---------- conditions ---------- *)
Lemma bcond_eqv : forall c B B' B1, bcond B c = Some B1 -> eqv X B B' -> (forall y, In y (cond_ids c) -> ~ X y) ->
  exists B1', bcond B' c = Some B1' /\ eqv X B1 B1'.
Proof.
  intros c B B' B1 Hb He Hi. destruct c as [p xs|x f xs|[q|x f] v|v t]; cbn [bcond cond_ids pat_ids] in *.
  - rewrite <- (eqv_isub B B' xs He Hi). destruct (isub xs B); inversion Hb; subst. exists B'. auto.
  - rewrite <- (eqv_isub B B' xs He) by (intros y Hy; apply Hi; right; exact Hy). rewrite <- (eqv_imem B B' x He) by (apply Hi; left; reflexivity).
    destruct (isub xs B && negb (imem x B)); inversion Hb; subst. exists (x :: B'). split; [reflexivity | apply eqv_cons; exact He].
  - rewrite <- (eqv_imem B B' v He) by (apply Hi; left; reflexivity). destruct (imem v B); inversion Hb; subst. exists B'. auto.
  - rewrite <- (eqv_imem B B' v He) by (apply Hi; left; reflexivity). rewrite <- (eqv_imem B B' x He) by (apply Hi; right; left; reflexivity).
    destruct (imem v B && negb (imem x B)); inversion Hb; subst. exists (x :: B'). split; [reflexivity | apply eqv_cons; exact He].
  - rewrite <- (eqv_imem B B' v He) by (apply Hi; left; reflexivity). rewrite <- (eqv_isub B B' (expr_vars t) He) by (intros y Hy; apply Hi; right; exact Hy).
    destruct (imem v B && isub (expr_vars t) B); inversion Hb; subst. exists B'. auto.
Qed.
Lemma bconds_eqv : forall cs B B' B1, bconds B cs = Some B1 -> eqv X B B' -> (forall y, In y (flat_map cond_ids cs) -> ~ X y) ->
  exists B1', bconds B' cs = Some B1' /\ eqv X B1 B1'.
Proof.
  induction cs as [|c cs IH]; intros B B' B1 Hb He Hi; cbn [bconds] in *.
  - inversion Hb; subst. exists B'. auto.
  - destruct (bcond B c) as [B0|] eqn:E; [|discriminate].
    destruct (bcond_eqv c B B' B0 E He) as [B0' [K1 K2]]; [intros y Hy; apply Hi; cbn [flat_map]; apply in_or_app; left; exact Hy|].
    rewrite K1. apply (IH B0 B0' B1 Hb K2). intros y Hy. apply Hi. cbn [flat_map]. apply in_or_app. right. exact Hy.
Qed.
Lemma bkeys_eqv : forall args B B', eqv X B B' -> (forall y, In y (flat_map aarg_ids args) -> ~ X y) -> bkeys B args = bkeys B' args.
Proof.
  intros args B B' He. unfold bkeys. induction args as [|a args IH]; intro Hi; [reflexivity|]. cbn [forallb].
  rewrite IH by (intros y Hy; apply Hi; cbn [flat_map]; apply in_or_app; right; exact Hy). f_equal.
  destruct a as [|x|t]; try reflexivity. apply (eqv_isub B B' _ He). intros y Hy. apply Hi. cbn [flat_map aarg_ids]. apply in_or_app. left. exact Hy.
Qed.
End Eqv.

Lemma bcond_in : forall c B B1, bcond B c = Some B1 -> forall y, In y B1 -> In y B \/ In y (cond_ids c).
Proof.
  intros c B B1 Hb y Hy. destruct c as [p xs|x f xs|[q|x f] v|v t]; cbn [bcond cond_ids pat_ids] in *.
  - destruct (isub xs B); inversion Hb; subst. left. exact Hy.
  - destruct (isub xs B && negb (imem x B)); inversion Hb; subst. destruct Hy as [<-|Hy]; [right; left; reflexivity | left; exact Hy].
  - destruct (imem v B); inversion Hb; subst. left. exact Hy.
  - destruct (imem v B && negb (imem x B)); inversion Hb; subst. destruct Hy as [<-|Hy]; [right; right; left; reflexivity | left; exact Hy].
  - destruct (imem v B && isub (expr_vars t) B); inversion Hb; subst. left. exact Hy.
Qed.
Lemma bcond_mono : forall c B B1, bcond B c = Some B1 -> incl B B1 /\ incl (cond_grounds c) B1.
Proof.
  intros c B B1 Hb. destruct c as [p xs|x f xs|[q|x f] v|v t]; cbn [bcond cond_grounds] in *.
  - destruct (isub xs B); inversion Hb; subst. split; [apply incl_refl | intros y []].
  - destruct (isub xs B && negb (imem x B)); inversion Hb; subst. split; [apply incl_tl, incl_refl | intros y [<-|[]]; left; reflexivity].
  - destruct (imem v B); inversion Hb; subst. split; [apply incl_refl | intros y []].
  - destruct (imem v B && negb (imem x B)); inversion Hb; subst. split; [apply incl_tl, incl_refl | intros y [<-|[]]; left; reflexivity].
  - destruct (imem v B && isub (expr_vars t) B); inversion Hb; subst. split; [apply incl_refl | intros y []].
Qed.
Lemma bconds_in : forall cs B B1, bconds B cs = Some B1 -> forall y, In y B1 -> In y B \/ In y (flat_map cond_ids cs).
Proof.
  induction cs as [|c cs IH]; intros B B1 Hb y Hy; cbn [bconds] in Hb; [inversion Hb; subst; left; exact Hy|].
  destruct (bcond B c) as [B0|] eqn:E; [|discriminate]. cbn [flat_map]. destruct (IH B0 B1 Hb y Hy) as [K|K]; [|right; apply in_or_app; right; exact K].
  destruct (bcond_in c B B0 E y K) as [K'|K']; [left; exact K' | right; apply in_or_app; left; exact K'].
Qed.
Lemma bconds_mono : forall cs B B1, bconds B cs = Some B1 -> incl B B1 /\ incl (flat_map cond_grounds cs) B1.
Proof.
  induction cs as [|c cs IH]; intros B B1 Hb; cbn [bconds] in Hb; [inversion Hb; subst; split; [apply incl_refl | intros y []]|].
  destruct (bcond B c) as [B0|] eqn:E; [|discriminate]. destruct (bcond_mono c B B0 E) as [M1 M2]. destruct (IH B0 B1 Hb) as [N1 N2]. split.
  - intros y Hy. apply N1. apply M1. exact Hy.
  - intros y Hy. cbn [flat_map] in Hy. apply in_app_or in Hy as [Hy|Hy]; [apply N1; apply M2; exact Hy | apply N2; exact Hy].
Qed.
Lemma bconds_app : forall l1 l2 B, bconds B (l1 ++ l2) = match bconds B l1 with Some B1 => bconds B1 l2 | None => None end.
Proof.
  induction l1 as [|c l1 IH]; intros l2 B; cbn [app bconds]; [reflexivity|]. destruct (bcond B c); [apply IH | reflexivity].
Qed.
Lemma bconds_skip : forall l S, Forall (fun c => bcond S c = Some S) l -> bconds S l = Some S.
Proof. induction l as [|c l IH]; intros S H; [reflexivity|]. inversion H as [|? ? H1 H2]; subst. cbn [bconds]. rewrite H1. apply IH. exact H2. Qed.

(* ---------- items other than clauses ---------- *)
Section Other.
Variable X : ident -> Prop.
Variable ar : list (rel * nat).
Lemma bother_eqv : forall it B B' B1, bother ar B it = Some B1 -> eqv X B B' -> (forall y, In y (item_ids it) -> ~ X y) ->
  exists B1', bother ar B' it = Some B1' /\ eqv X B1 B1'.
Proof.
  intros it B B' B1 Hb He Hi. destruct it as [r args cs|c|x g xs|out a bnd r args|r args|ds]; cbn [bother item_ids] in *; try discriminate.
  - exact (bcond_eqv X c B B' B1 Hb He Hi).
  - rewrite <- (eqv_isub X B B' xs He) by (intros y Hy; apply Hi; right; exact Hy). rewrite <- (eqv_imem X B B' x He) by (apply Hi; left; reflexivity).
    destruct (isub xs B && negb (imem x B)); inversion Hb; subst. exists (x :: B'). split; [reflexivity | apply eqv_cons; exact He].
  - rewrite <- (bkeys_eqv X args B B' He) by (intros y Hy; apply Hi; apply in_or_app; right; apply in_or_app; right; exact Hy).
    destruct (arity_ok ar r (length args) && bkeys B args); [|discriminate]. destruct out as [o|].
    + rewrite <- (eqv_imem X B B' o He) by (apply Hi; left; reflexivity). destruct (imem o B); inversion Hb; subst.
      exists (o :: B'). split; [reflexivity | apply eqv_cons; exact He].
    + inversion Hb; subst. exists B'. auto.
  - rewrite <- (bkeys_eqv X (map neg_arg args) B B' He) by (intros y Hy; rewrite neg_arg_ids in Hy; apply Hi; exact Hy).
    destruct (arity_ok ar r (length args) && bkeys B (map neg_arg args)); inversion Hb; subst. exists B'. auto.
Qed.
End Other.
Lemma bother_in : forall ar it B B1, bother ar B it = Some B1 -> forall y, In y B1 -> In y B \/ In y (item_ids it).
Proof.
  intros ar it B B1 Hb y Hy. destruct it as [r args cs|c|x g xs|out a bnd r args|r args|ds]; cbn [bother item_ids] in *; try discriminate.
  - exact (bcond_in c B B1 Hb y Hy).
  - destruct (isub xs B && negb (imem x B)); inversion Hb; subst. destruct Hy as [<-|Hy]; [right; left; reflexivity | left; exact Hy].
  - destruct (arity_ok ar r (length args) && bkeys B args); [|discriminate]. destruct out as [o|].
    + destruct (imem o B); inversion Hb; subst. destruct Hy as [<-|Hy]; [right; left; reflexivity | left; exact Hy].
    + inversion Hb; subst. left. exact Hy.
  - destruct (arity_ok ar r (length args) && bkeys B (map neg_arg args)); inversion Hb; subst. left. exact Hy.
Qed.
Lemma bother_mono : forall ar it B B1, bother ar B it = Some B1 -> incl B B1 /\ incl (item_grounds it) B1.
Proof.
  intros ar it B B1 Hb. destruct it as [r args cs|c|x g xs|out a bnd r args|r args|ds]; cbn [bother item_grounds] in *; try discriminate.
  - exact (bcond_mono c B B1 Hb).
  - destruct (isub xs B && negb (imem x B)); inversion Hb; subst. split; [apply incl_tl, incl_refl | intros y [<-|[]]; left; reflexivity].
  - destruct (arity_ok ar r (length args) && bkeys B args); [|discriminate]. destruct out as [o|].
    + destruct (imem o B); inversion Hb; subst. split; [apply incl_tl, incl_refl | intros y [<-|[]]; left; reflexivity].
    + inversion Hb; subst. split; [apply incl_refl | intros y []].
  - destruct (arity_ok ar r (length args) && bkeys B (map neg_arg args)); inversion Hb; subst. split; [apply incl_refl | intros y []].
Qed.

(* ---------- arguments: general facts ---------- *)
Lemma bargs_mono : forall args B nv nv1, bargs B nv args = Some nv1 -> incl nv nv1.
Proof.
  induction args as [|a args IH]; intros B nv nv1 H; cbn [bargs] in H; [inversion H; subst; apply incl_refl|].
  destruct a as [[x|k|f xs]| |p]; try exact (IH B nv nv1 H).
  - destruct (imem x B || imem x nv); [exact (IH B nv nv1 H)|]. intros y Hy. apply (IH B (x :: nv) nv1 H). right. exact Hy.
  - destruct (isub xs (nv ++ B)); [exact (IH B nv nv1 H) | discriminate].
Qed.
Lemma sargs_mono : forall args B nv nv1, sargs B nv args = Some nv1 -> incl nv nv1.
Proof.
  induction args as [|a args IH]; intros B nv nv1 H; cbn [sargs] in H; [inversion H; subst; apply incl_refl|].
  destruct a as [[x|k|f xs]| |p]; try discriminate.
  - destruct (imem x B); [exact (IH B nv nv1 H)|]. destruct (imem x nv); [discriminate|]. intros y Hy. apply (IH B (x :: nv) nv1 H). right. exact Hy.
  - destruct (isub (expr_vars (SConst k)) B); [exact (IH B nv nv1 H) | discriminate].
  - destruct (isub (expr_vars (SFun f xs)) B); [exact (IH B nv nv1 H) | discriminate].
Qed.
Lemma bpats_no_pat : forall args B, Forall no_pat args -> bpats B args = Some B.
Proof.
  induction args as [|a args IH]; intros B H; [reflexivity|]. inversion H as [|? ? Ha Hr]; subst.
  destruct a as [t| |p]; cbn [bpats]; try (apply IH; exact Hr). destruct Ha.
Qed.
Lemma is_AT_no_pat : forall args, Forall is_AT args -> Forall no_pat args.
Proof. intros args H. apply Forall_forall. intros a Ha. rewrite Forall_forall in H. specialize (H a Ha). destruct a; try destruct H; exact Logic.I. Qed.

(* ---------- pass 2: pattern arguments ---------- *)
Section PassPat.
Variable X : ident -> Prop.
Variable ar : list (rel * nat).

Lemma pat_args_length : forall args g, length (fst (fst (pat_args g args))) = length args.
Proof.
  induction args as [|a args IH]; intro g; [reflexivity|].
  destruct a as [t| |p]; [rewrite pat_args_other by discriminate | rewrite pat_args_other by discriminate | rewrite pat_args_pat]; cbn [fst snd length]; rewrite IH; reflexivity.
Qed.
Lemma pat_args_bargs : forall args g B B' newv newv' nv,
  (forall y, In y (flat_map arg_ids args) -> ~ X y) -> (forall v, In v (gen_trace g (pkeys_args args)) -> X v) ->
  eqv X B B' -> eqv X newv newv' -> bargs B newv args = Some nv ->
  exists nv', bargs B' newv' (fst (fst (pat_args g args))) = Some nv' /\ eqv X nv nv'
    /\ (forall v, In v (gen_trace g (pkeys_args args)) -> In v (nv' ++ B')).
Proof.
  induction args as [|a args IH]; intros g B B' newv newv' nv Hi HX He Hn Hb.
  - cbn in *. inversion Hb; subst. exists newv'. split; [reflexivity|]. split; [exact Hn | intros v []].
  - assert (Hi2 : forall y, In y (flat_map arg_ids args) -> ~ X y) by (intros y Hy; apply Hi; cbn [flat_map]; apply in_or_app; right; exact Hy).
    destruct a as [t| |p].
    + rewrite pat_args_other by discriminate. cbn [fst snd]. change (pkeys_args (AT t :: args)) with (pkeys_args args) in *.
      assert (Hit : forall y, In y (expr_vars t) -> ~ X y) by (intros y Hy; apply Hi; cbn [flat_map arg_ids]; apply in_or_app; left; exact Hy).
      destruct t as [x|k|f xs]; cbn [bargs] in *.
      * assert (Hx : ~ X x) by (apply Hit; left; reflexivity). rewrite <- (eqv_imem X B B' x He Hx), <- (eqv_imem X newv newv' x Hn Hx).
        destruct (imem x B || imem x newv); [exact (IH g B B' newv newv' nv Hi2 HX He Hn Hb)|].
        exact (IH g B B' (x :: newv) (x :: newv') nv Hi2 HX He (eqv_cons X _ _ x Hn) Hb).
      * exact (IH g B B' newv newv' nv Hi2 HX He Hn Hb).
      * cbn [expr_vars] in Hit. rewrite <- (eqv_isub X (newv ++ B) (newv' ++ B') xs (eqv_app X _ _ _ _ Hn He) Hit).
        destruct (isub xs (newv ++ B)); [|discriminate]. exact (IH g B B' newv newv' nv Hi2 HX He Hn Hb).
    + rewrite pat_args_other by discriminate. cbn [fst snd bargs] in *. change (pkeys_args (AWildS :: args)) with (pkeys_args args) in *.
      exact (IH g B B' newv newv' nv Hi2 HX He Hn Hb).
    + rewrite pat_args_pat. cbn [fst snd bargs] in *. change (pkeys_args (APat p :: args)) with (arg_pattern_key :: pkeys_args args) in *.
      cbn [gen_trace] in *. set (v0 := fst (gensym_next tr_default g arg_pattern_key)) in *. set (g1 := snd (gensym_next tr_default g arg_pattern_key)) in *.
      assert (HX0 : X v0) by (apply HX; left; reflexivity).
      destruct (IH g1 B B' newv (if imem v0 B' || imem v0 newv' then newv' else v0 :: newv') nv Hi2 (fun v Hv => HX v (or_intror Hv)) He) as [nv' [K1 [K2 K3]]].
      * destruct (imem v0 B' || imem v0 newv'); [exact Hn | apply eqv_cons_r; assumption].
      * exact Hb.
      * exists nv'. split; [exact K1|]. split; [exact K2|]. intros v [<-|Hv]; [|exact (K3 v Hv)].
        pose proof (bargs_mono _ _ _ _ K1) as Hm. destruct (imem v0 B') eqn:E1; cbn [orb] in Hm.
        -- apply in_or_app. right. apply imem_In. exact E1.
        -- apply in_or_app. left. apply Hm. destruct (imem v0 newv') eqn:E2; [apply imem_In; exact E2 | left; reflexivity].
Qed.
Lemma pat_args_bpats : forall args g Bs Bs' B1,
  (forall y, In y (flat_map arg_ids args) -> ~ X y) -> eqv X Bs Bs' -> (forall v, In v (gen_trace g (pkeys_args args)) -> In v Bs') ->
  bpats Bs args = Some B1 ->
  exists B1', bconds Bs' (snd (fst (pat_args g args))) = Some B1' /\ eqv X B1 B1'.
Proof.
  induction args as [|a args IH]; intros g Bs Bs' B1 Hi He Hv Hb.
  - cbn in *. inversion Hb; subst. exists Bs'. auto.
  - assert (Hi2 : forall y, In y (flat_map arg_ids args) -> ~ X y) by (intros y Hy; apply Hi; cbn [flat_map]; apply in_or_app; right; exact Hy).
    destruct a as [t| |p].
    + rewrite pat_args_other by discriminate. cbn [fst snd bpats] in *. exact (IH g Bs Bs' B1 Hi2 He Hv Hb).
    + rewrite pat_args_other by discriminate. cbn [fst snd bpats] in *. exact (IH g Bs Bs' B1 Hi2 He Hv Hb).
    + rewrite pat_args_pat. cbn [fst snd bconds]. change (pkeys_args (APat p :: args)) with (arg_pattern_key :: pkeys_args args) in Hv.
      cbn [gen_trace] in Hv. set (v0 := fst (gensym_next tr_default g arg_pattern_key)) in *. set (g1 := snd (gensym_next tr_default g arg_pattern_key)) in *.
      assert (Hv0 : imem v0 Bs' = true) by (apply imem_In; apply Hv; left; reflexivity).
      destruct p as [q|x f]; cbn [bpats bcond] in *; rewrite Hv0; cbn [andb].
      * exact (IH g1 Bs Bs' B1 Hi2 He (fun v H => Hv v (or_intror H)) Hb).
      * assert (Hx : ~ X x) by (apply Hi; cbn [flat_map arg_ids pat_ids]; left; reflexivity).
        rewrite <- (eqv_imem X Bs Bs' x He Hx). destruct (imem x Bs); [discriminate|]. cbn [negb].
        apply (IH g1 (x :: Bs) (x :: Bs') B1 Hi2 (eqv_cons X _ _ x He)); [|exact Hb]. intros v H. right. exact (Hv v (or_intror H)).
Qed.

Lemma pat_items_bbody : forall items g B B' B1, Forall no_disj items ->
  (forall y, In y (items_ids items) -> ~ X y) -> (forall v, In v (gen_trace g (pkeys items)) -> X v) ->
  eqv X B B' -> bbody ar B items = Some B1 ->
  exists B1', bbody ar B' (pat_items g items) = Some B1' /\ eqv X B1 B1'.
Proof.
  induction items as [|it items IH]; intros g B B' B1 Hnd Hi HX He Hb.
  - cbn in *. inversion Hb; subst. exists B'. auto.
  - inversion Hnd as [|? ? Hit Hrest]; subst.
    assert (Hi1 : forall y, In y (item_ids it) -> ~ X y) by (intros y Hy; apply Hi; unfold items_ids; cbn [flat_map]; apply in_or_app; left; exact Hy).
    assert (Hi2 : forall y, In y (items_ids items) -> ~ X y) by (intros y Hy; apply Hi; unfold items_ids; cbn [flat_map]; apply in_or_app; right; exact Hy).
    cbn [bbody] in Hb. destruct (bitem ar B it) as [B0|] eqn:E0; [|discriminate].
    destruct it as [r args cs|c|x gg xs|out a bound r args|r args|ds]; try (destruct Hit; fail).
    + rewrite pat_items_clause. cbn [bbody bitem]. cbn [bitem] in E0. unfold bclause in *. rewrite pat_args_length.
      change (pkeys (IClause r args cs :: items)) with (pkeys_args args ++ pkeys items) in HX. rewrite gen_trace_app, <- pat_args_state in HX.
      destruct (arity_ok ar r (length args)); [|discriminate]. destruct (bargs B [] args) as [nv|] eqn:En; [|discriminate].
      destruct (bpats (nv ++ B) args) as [Bp|] eqn:Ep; [|discriminate]. cbn [item_ids] in Hi1.
      assert (Hia : forall y, In y (flat_map arg_ids args) -> ~ X y) by (intros y Hy; apply Hi1; apply in_or_app; left; exact Hy).
      destruct (pat_args_bargs args g B B' [] [] nv Hia (fun v Hv => HX v (in_or_app _ _ _ (or_introl Hv))) He (eqv_refl X []) En) as [nv' [K1 [K2 K3]]].
      rewrite K1. rewrite (bpats_no_pat _ _ (pat_args_no_pat args g)).
      destruct (pat_args_bpats args g (nv ++ B) (nv' ++ B') Bp Hia (eqv_app X _ _ _ _ K2 He) K3 Ep) as [Bp' [L1 L2]].
      rewrite bconds_app, L1.
      destruct (bconds_eqv X cs Bp Bp' B0 E0 L2) as [B0' [M1 M2]]; [intros y Hy; apply Hi1; apply in_or_app; right; exact Hy|].
      rewrite M1. exact (IH _ B0 B0' B1 Hrest Hi2 (fun v Hv => HX v (in_or_app _ _ _ (or_intror Hv))) M2 Hb).
    + cbn [pat_items bbody bitem] in *. change (pkeys (ICond c :: items)) with (pkeys items) in HX.
      destruct (bother_eqv X ar _ B B' B0 E0 He Hi1) as [B0' [M1 M2]]. rewrite M1. exact (IH g B0 B0' B1 Hrest Hi2 HX M2 Hb).
    + cbn [pat_items bbody bitem] in *. change (pkeys (IGen x gg xs :: items)) with (pkeys items) in HX.
      destruct (bother_eqv X ar _ B B' B0 E0 He Hi1) as [B0' [M1 M2]]. rewrite M1. exact (IH g B0 B0' B1 Hrest Hi2 HX M2 Hb).
    + cbn [pat_items bbody bitem] in *. change (pkeys (IAgg out a bound r args :: items)) with (pkeys items) in HX.
      destruct (bother_eqv X ar _ B B' B0 E0 He Hi1) as [B0' [M1 M2]]. rewrite M1. exact (IH g B0 B0' B1 Hrest Hi2 HX M2 Hb).
    + cbn [pat_items bbody bitem] in *. change (pkeys (INeg r args :: items)) with (pkeys items) in HX.
      destruct (bother_eqv X ar _ B B' B0 E0 He Hi1) as [B0' [M1 M2]]. rewrite M1. exact (IH g B0 B0' B1 Hrest Hi2 HX M2 Hb).
Qed.
End PassPat.

(* ---------- pass 3: wildcards ---------- *)
Section PassWild.
Variable X : ident -> Prop.
Variable ar : list (rel * nat).

Lemma wild_args_length : forall args g, length (fst (wild_args g args)) = length args.
Proof.
  induction args as [|a args IH]; intro g; [reflexivity|].
  destruct a as [t| |p]; [rewrite wild_args_other by discriminate | rewrite wild_args_wild | rewrite wild_args_other by discriminate]; cbn [fst snd length]; rewrite IH; reflexivity.
Qed.
Lemma wild_args_no_pat : forall args g, Forall no_pat args -> Forall no_pat (fst (wild_args g args)).
Proof. intros args g H. apply is_AT_no_pat. apply wild_args_AT. exact H. Qed.
Lemma wild_args_bargs : forall args g B B' newv newv' nv,
  (forall y, In y (flat_map arg_ids args) -> ~ X y) -> (forall v, In v (gen_trace g (wkeys_args args)) -> X v) ->
  eqv X B B' -> eqv X newv newv' -> bargs B newv args = Some nv ->
  exists nv', bargs B' newv' (fst (wild_args g args)) = Some nv' /\ eqv X nv nv'.
Proof.
  induction args as [|a args IH]; intros g B B' newv newv' nv Hi HX He Hn Hb.
  - cbn in *. inversion Hb; subst. exists newv'. auto.
  - assert (Hi2 : forall y, In y (flat_map arg_ids args) -> ~ X y) by (intros y Hy; apply Hi; cbn [flat_map]; apply in_or_app; right; exact Hy).
    destruct a as [t| |p].
    + rewrite wild_args_other by discriminate. cbn [fst snd]. change (wkeys_args (AT t :: args)) with (wkeys_args args) in *.
      assert (Hit : forall y, In y (expr_vars t) -> ~ X y) by (intros y Hy; apply Hi; cbn [flat_map arg_ids]; apply in_or_app; left; exact Hy).
      destruct t as [x|k|f xs]; cbn [bargs] in *.
      * assert (Hx : ~ X x) by (apply Hit; left; reflexivity). rewrite <- (eqv_imem X B B' x He Hx), <- (eqv_imem X newv newv' x Hn Hx).
        destruct (imem x B || imem x newv); [exact (IH g B B' newv newv' nv Hi2 HX He Hn Hb)|].
        exact (IH g B B' (x :: newv) (x :: newv') nv Hi2 HX He (eqv_cons X _ _ x Hn) Hb).
      * exact (IH g B B' newv newv' nv Hi2 HX He Hn Hb).
      * cbn [expr_vars] in Hit. rewrite <- (eqv_isub X (newv ++ B) (newv' ++ B') xs (eqv_app X _ _ _ _ Hn He) Hit).
        destruct (isub xs (newv ++ B)); [|discriminate]. exact (IH g B B' newv newv' nv Hi2 HX He Hn Hb).
    + rewrite wild_args_wild. cbn [fst snd bargs] in *. change (wkeys_args (AWildS :: args)) with (wild_key :: wkeys_args args) in *.
      cbn [gen_trace] in *. set (v0 := fst (gensym_next tr_default g wild_key)) in *. set (g1 := snd (gensym_next tr_default g wild_key)) in *.
      assert (HX0 : X v0) by (apply HX; left; reflexivity).
      apply (IH g1 B B' newv _ nv Hi2 (fun v Hv => HX v (or_intror Hv)) He); [|exact Hb].
      destruct (imem v0 B' || imem v0 newv'); [exact Hn | apply eqv_cons_r; assumption].
    + rewrite wild_args_other by discriminate. cbn [fst snd bargs] in *. change (wkeys_args (APat p :: args)) with (wkeys_args args) in *.
      exact (IH g B B' newv newv' nv Hi2 HX He Hn Hb).
Qed.

Lemma wild_items_bbody : forall items g B B' B1, Forall no_disj items -> Forall item_no_pat items ->
  (forall y, In y (items_ids items) -> ~ X y) -> (forall v, In v (gen_trace g (wkeys items)) -> X v) ->
  eqv X B B' -> bbody ar B items = Some B1 ->
  exists B1', bbody ar B' (wild_items g items) = Some B1' /\ eqv X B1 B1'.
Proof.
  induction items as [|it items IH]; intros g B B' B1 Hnd Hnp Hi HX He Hb.
  - cbn in *. inversion Hb; subst. exists B'. auto.
  - inversion Hnd as [|? ? Hit Hrest]; subst. inversion Hnp as [|? ? Hnp1 Hnp2]; subst.
    assert (Hi1 : forall y, In y (item_ids it) -> ~ X y) by (intros y Hy; apply Hi; unfold items_ids; cbn [flat_map]; apply in_or_app; left; exact Hy).
    assert (Hi2 : forall y, In y (items_ids items) -> ~ X y) by (intros y Hy; apply Hi; unfold items_ids; cbn [flat_map]; apply in_or_app; right; exact Hy).
    cbn [bbody] in Hb. destruct (bitem ar B it) as [B0|] eqn:E0; [|discriminate].
    destruct it as [r args cs|c|x gg xs|out a bound r args|r args|ds]; try (destruct Hit; fail).
    + rewrite wild_items_clause. cbn [bbody bitem]. cbn [bitem] in E0. unfold bclause in *. rewrite wild_args_length.
      change (wkeys (IClause r args cs :: items)) with (wkeys_args args ++ wkeys items) in HX. rewrite gen_trace_app, <- wild_args_state in HX.
      destruct (arity_ok ar r (length args)); [|discriminate]. destruct (bargs B [] args) as [nv|] eqn:En; [|discriminate].
      cbn [item_no_pat] in Hnp1. rewrite (bpats_no_pat _ _ Hnp1) in E0. cbn [item_ids] in Hi1.
      assert (Hia : forall y, In y (flat_map arg_ids args) -> ~ X y) by (intros y Hy; apply Hi1; apply in_or_app; left; exact Hy).
      destruct (wild_args_bargs args g B B' [] [] nv Hia (fun v Hv => HX v (in_or_app _ _ _ (or_introl Hv))) He (eqv_refl X []) En) as [nv' [K1 K2]].
      rewrite K1. rewrite (bpats_no_pat _ _ (wild_args_no_pat args g Hnp1)).
      destruct (bconds_eqv X cs (nv ++ B) (nv' ++ B') B0 E0 (eqv_app X _ _ _ _ K2 He)) as [B0' [M1 M2]]; [intros y Hy; apply Hi1; apply in_or_app; right; exact Hy|].
      rewrite M1. exact (IH _ B0 B0' B1 Hrest Hnp2 Hi2 (fun v Hv => HX v (in_or_app _ _ _ (or_intror Hv))) M2 Hb).
    + cbn [wild_items bbody bitem] in *. change (wkeys (ICond c :: items)) with (wkeys items) in HX.
      destruct (bother_eqv X ar _ B B' B0 E0 He Hi1) as [B0' [M1 M2]]. rewrite M1. exact (IH g B0 B0' B1 Hrest Hnp2 Hi2 HX M2 Hb).
    + cbn [wild_items bbody bitem] in *. change (wkeys (IGen x gg xs :: items)) with (wkeys items) in HX.
      destruct (bother_eqv X ar _ B B' B0 E0 He Hi1) as [B0' [M1 M2]]. rewrite M1. exact (IH g B0 B0' B1 Hrest Hnp2 Hi2 HX M2 Hb).
    + cbn [wild_items bbody bitem] in *. change (wkeys (IAgg out a bound r args :: items)) with (wkeys items) in HX.
      destruct (bother_eqv X ar _ B B' B0 E0 He Hi1) as [B0' [M1 M2]]. rewrite M1. exact (IH g B0 B0' B1 Hrest Hnp2 Hi2 HX M2 Hb).
    + cbn [wild_items bbody bitem] in *. change (wkeys (INeg r args :: items)) with (wkeys items) in HX.
      destruct (bother_eqv X ar _ B B' B0 E0 He Hi1) as [B0' [M1 M2]]. rewrite M1. exact (IH g B0 B0' B1 Hrest Hnp2 Hi2 HX M2 Hb).
Qed.
End PassWild.

(* ---------- pass 4: negation ---------- *)
Lemma neg_items_bbody : forall ar items B, bbody ar B (map neg_item items) = bbody ar B items.
Proof.
  intros ar. induction items as [|it items IH]; intro B; [reflexivity|]. cbn [map bbody].
  assert (E : bitem ar B (neg_item it) = bitem ar B it).
  { destruct it as [r args cs|c|x gg xs|out a bound r args|r args|ds]; try reflexivity. cbn [neg_item bitem bother]. rewrite map_length. reflexivity. }
  rewrite E. destruct (bitem ar B it); [apply IH | reflexivity].
Qed.
