(* C07 — pass 4 (negation): !r(args) is the aggregate `agg () = not() in r(args)`. *)
From Coq Require Import List ZArith Bool Arith Ascii Lia.
From AV Require Import Engine.Core.
From AV Require Import Engine.Sem.
From AV Require Import Engine.EnvLemmas.
From AV Require Import Syntax.Surface.
From AV Require Import Syntax.Desugar.
From AV Require Import Syntax.ToCore.
From AV Require Import Syntax.SimBase.
Import ListNotations.

Section Neg.
Variable I : interp.
Variable db : rel -> list tuple.
Hypothesis Hnot : forall ts, aint I agg_not_sym ts = match ts with [] => [0%Z] | _ => [] end.

Lemma sagg_match_neg : forall e args tup, sagg_match I e (map neg_arg args) tup = sneg_match I e args tup.
Proof.
  intros e. induction args as [|a args IH]; intros tup; destruct tup as [|v tup]; cbn [map sagg_match sneg_match]; try reflexivity.
  destruct a as [|t]; cbn [neg_arg]; [apply IH|]. destruct (seval_term I e t); [|reflexivity]. rewrite IH. reflexivity.
Qed.

Lemma neg_item_envs : forall it e, item_envs I db (neg_item it) e = item_envs I db it e.
Proof.
  intros it e. destruct it as [r args cs|c|x g xs|out a bound r args|r args|ds]; try reflexivity.
  cbn [neg_item item_envs]. rewrite Hnot.
  rewrite (filter_ext_in' _ (sagg_match I e (map neg_arg args)) (sneg_match I e args) (db r) (sagg_match_neg e args)).
  destruct (existsb (sneg_match I e args) (db r)) eqn:Ex.
  - apply existsb_exists in Ex as [tup [Ht Hm]].
    assert (Hin : In tup (dedup_tuples (filter (sneg_match I e args) (db r)))).
    { apply dedup_tuples_In. apply filter_In. split; assumption. }
    destruct (dedup_tuples (filter (sneg_match I e args) (db r))); [destruct Hin | reflexivity].
  - assert (Hf : filter (sneg_match I e args) (db r) = []).
    { induction (db r) as [|t l IHl]; [reflexivity|]. cbn [existsb] in Ex. apply orb_false_iff in Ex as [E1 E2].
      cbn [filter]. rewrite E1. apply IHl. exact E2. }
    rewrite Hf. reflexivity.
Qed.

Lemma neg_items_envs : forall items e, all_envs_s I db (map neg_item items) e = all_envs_s I db items e.
Proof.
  induction items as [|it items IH]; intro e; [reflexivity|]. cbn [map all_envs_s]. rewrite neg_item_envs.
  apply flat_map_ext. intro e0. apply IH.
Qed.

Theorem rule_desugar_neg_sem : forall r, sderive_rule I db (rule_desugar_neg r) = sderive_rule I db r.
Proof. intro r. unfold sderive_rule, rule_desugar_neg. cbn [sheads sbody]. rewrite neg_items_envs. reflexivity. Qed.
End Neg.
