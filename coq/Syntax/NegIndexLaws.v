(* C07 — laws of Syntax/NegIndexModel.v: the code generated for a negated clause decides "no row matches" over EVERY kind
   of index, and is the direct denotation of `!r(args)` (Syntax/Surface.v); the `is_none()` short cut is the same
   decision over hash indices only. *)
From Coq Require Import List ZArith Bool Lia.
From AV Require Import Engine.Core.
From AV Require Import Syntax.Surface.
From AV Require Import Syntax.NegIndexModel.
Import ListNotations.
Open Scope Z_scope.

Lemma existsb_ext_in_local : forall (A : Type) (f g : A -> bool) l, (forall x, In x l -> f x = g x) -> existsb f l = existsb g l.
Proof.
  intros A f g l. induction l as [|a l IH]; intros H; simpl; [reflexivity|].
  rewrite (H a (or_introl eq_refl)). rewrite IH; [reflexivity|]. intros x Hx. apply H. right. exact Hx.
Qed.

Lemma filter_nil_existsb : forall (A : Type) (f : A -> bool) l, filter f l = [] <-> existsb f l = false.
Proof.
  intros A f l. induction l as [|a l IH]; simpl; [tauto|].
  destruct (f a) eqn:Ha; simpl.
  - split; intros H; discriminate H.
  - exact IH.
Qed.

(* the argument-wise match of Surface.v is the key match of the index *)
Lemma sneg_match_key : forall I e args pos kv pre tup,
  neg_key I e args pos = Some kv -> length pre = pos -> length tup = length args ->
  sneg_match I e args tup = key_matches kv (pre ++ tup).
Proof.
  intros I e args. induction args as [|a args IH]; intros pos kv pre tup Hk Hp Hl; subst pos.
  - destruct tup; [|discriminate Hl]. simpl in Hk. inversion Hk; subst. reflexivity.
  - destruct tup as [|v tup]; [discriminate Hl|]. simpl in Hl. injection Hl as Hl.
    assert (Happ : pre ++ v :: tup = (pre ++ [v]) ++ tup) by (rewrite <- app_assoc; reflexivity).
    assert (Hlen : length (pre ++ [v]) = S (length pre)) by (rewrite app_length; simpl; lia).
    destruct a as [|t]; simpl in Hk |- *.
    + rewrite Happ. apply (IH (S (length pre)) kv (pre ++ [v]) tup Hk Hlen Hl).
    + destruct (seval_term I e t) as [w|] eqn:Hw; [|discriminate Hk].
      destruct (neg_key I e args (S (length pre))) as [l|] eqn:Hr; [|discriminate Hk].
      inversion Hk; subst kv. unfold key_matches. simpl.
      assert (Hn : nth (length pre) (pre ++ v :: tup) 0 = v).
      { rewrite app_nth2 by lia. rewrite Nat.sub_diag. reflexivity. }
      rewrite Hn. rewrite (Z.eqb_sym v w). f_equal.
      rewrite Happ. apply (IH (S (length pre)) l (pre ++ [v]) tup Hr Hlen Hl).
Qed.

Lemma neg_code_spec : forall k kv rows, kind_ok k kv -> neg_code k kv rows = neg_spec kv rows.
Proof.
  intros k kv rows Hk. unfold neg_code, neg_spec. destruct k; simpl in *.
  - destruct (filter (key_matches kv) rows) as [|m ms] eqn:Hf.
    + apply filter_nil_existsb in Hf. rewrite Hf. reflexivity.
    + destruct (existsb (key_matches kv) rows) eqn:He; [reflexivity|].
      apply filter_nil_existsb in He. rewrite He in Hf. discriminate Hf.
  - subst kv. destruct rows as [|r rows]; reflexivity.
Qed.

Lemma neg_fast_path_hash : forall kv rows, neg_fast_path IxHash kv rows = neg_spec kv rows.
Proof.
  intros kv rows. unfold neg_fast_path, neg_spec. simpl.
  destruct (filter (key_matches kv) rows) as [|m ms] eqn:Hf.
  - apply filter_nil_existsb in Hf. rewrite Hf. reflexivity.
  - destruct (existsb (key_matches kv) rows) eqn:He; [reflexivity|].
    apply filter_nil_existsb in He. rewrite He in Hf. discriminate Hf.
Qed.

(* over a key-less index the short cut never lets the rule go on: wrong exactly when the relation is empty *)
Lemma neg_fast_path_keyless : forall rows, neg_fast_path IxKeyless [] rows = false /\ (neg_spec [] rows = true <-> rows = []).
Proof.
  intros rows. split; [reflexivity|]. unfold neg_spec. destruct rows as [|r rows]; simpl; split; intros H; try reflexivity; discriminate H.
Qed.

Lemma neg_fast_path_refuted : exists k kv rows, kind_ok k kv /\ neg_fast_path k kv rows <> neg_spec kv rows /\ neg_code k kv rows = neg_spec kv rows.
Proof. exists IxKeyless, [], []. split; [reflexivity|]. split; [discriminate|reflexivity]. Qed.

(* the generated code of `agg () = not() in r(args)` = the direct denotation of `!r(args)`, whatever index serves r *)
Lemma neg_code_denotes : forall I db e r args kv k,
  neg_key I e args 0 = Some kv -> (forall t, In t (db r) -> length t = length args) -> kind_ok k kv ->
  item_envs I db (INeg r args) e = if neg_code k kv (db r) then [e] else [].
Proof.
  intros I db e r args kv k Hkey Hlen Hk. rewrite (neg_code_spec k kv (db r) Hk). unfold neg_spec. simpl.
  rewrite (existsb_ext_in_local _ (sneg_match I e args) (key_matches kv) (db r)).
  - destruct (existsb (key_matches kv) (db r)); reflexivity.
  - intros t Ht. apply (sneg_match_key I e args 0%nat kv [] t Hkey eq_refl (Hlen t Ht)).
Qed.
