(* Strata.v generalised to programs with aggregation: one SCC of the engine model
   computes the least model (with the aggregated relations held fixed,
   StratFixed.least_model_fixed) of the SCC's rules over the rows present at entry.
   Additionally tracks the multiplicity invariant (NoDup of the stored contents),
   which is the premise of the per-variant hypothesis eval_variant_spec_agg_stmt. *)
From Coq Require Import List ZArith Bool Arith Lia Permutation.
From AV Require Import Engine.Core Engine.Sem Engine.Eval Engine.Validate Engine.Naive Engine.Interface Engine.Strat.
From AV Require Import Engine.InterfaceAgg Engine.NaiveLemmas Engine.Strata Engine.StratFixed Engine.AggLemmas.
Import ListNotations.
Local Open Scope nat_scope.

(* the rules evaluated by an SCC (one entry of InterfaceAgg.plan_strata) *)
Definition stratum_of (P : list rule) (sc : pscc) : list rule :=
  filter_map (fun j => nth_error P j) (rules_of_scc sc).

Section SccAgg.
Variable I : interp.
Variable swap : list tuple -> list tuple -> bool.
Hypothesis Hspec : eval_variant_spec_agg_stmt I swap.
Hypothesis Hperm : agg_perm_invariant I.
Variable arities : list (rel * nat).
Variable P : list rule.
Hypothesis Hfun : arities_functional arities.
Variable sc : pscc.
Hypothesis Hok : scc_ok arities P sc = true.

Let dyn := s_dyn sc.
Let hr := scc_head_rels P sc.
Let stratum := stratum_of P sc.
Let aggs := stratum_agg_rels stratum.

(* ----- unpacking the validator ----- *)
Lemma scc_ok_parts_agg :
  forallb (variant_ok arities P dyn) (s_vars sc) = true
  /\ forallb (fun q => is_dyn dyn q) hr = true
  /\ forallb (fun j =>
       match nth_error P j with
       | Some r =>
           let n := length (filter (is_dyn dyn) (body_clause_rels r)) in
           let ws := map (fun v => dyn_versions dyn (v_items v)) (filter (fun v => Nat.eqb (v_rule v) j) (s_vars sc)) in
           covers n ws && (s_loop sc || Nat.eqb n 0)
           && forallb (fun q => negb (is_dyn dyn q)) (body_agg_rels r)
       | None => false
       end) (rules_of_scc sc) = true.
Proof.
  unfold scc_ok in Hok. fold dyn in Hok. fold hr in Hok.
  apply andb_true_iff in Hok as [H123 H4]. apply andb_true_iff in H123 as [H12 H3].
  apply andb_true_iff in H12 as [H1 H2]. auto.
Qed.

Lemma scc_ok_variant_agg : forall v, In v (s_vars sc) -> variant_ok arities P dyn v = true.
Proof.
  intros v Hv. destruct scc_ok_parts_agg as [H _]. rewrite forallb_forall in H. exact (H v Hv).
Qed.

Lemma hr_dyn_agg : forall q, In q hr -> is_dyn dyn q = true.
Proof.
  intros q Hq. destruct scc_ok_parts_agg as [_ [H _]]. rewrite forallb_forall in H. exact (H q Hq).
Qed.

Lemma scc_ok_rule_agg : forall j, In j (rules_of_scc sc) ->
  exists r, nth_error P j = Some r
    /\ covers (ndyn_items dyn (body r))
              (map (fun v => dyn_versions dyn (v_items v)) (filter (fun v => Nat.eqb (v_rule v) j) (s_vars sc))) = true
    /\ (s_loop sc = true \/ ndyn_items dyn (body r) = 0)
    /\ (forall q, In q (agg_rels (body r)) -> is_dyn dyn q = false).
Proof.
  intros j Hj. destruct scc_ok_parts_agg as [_ [_ H]]. rewrite forallb_forall in H. specialize (H j Hj).
  destruct (nth_error P j) as [r|]; [|discriminate]. exists r. split; [reflexivity|].
  cbv zeta in H. apply andb_true_iff in H as [H H3]. apply andb_true_iff in H as [H1 H2].
  split; [exact H1|]. split.
  - apply orb_true_iff in H2 as [H2 | H2]; [left; exact H2 | right; apply Nat.eqb_eq; exact H2].
  - intros q Hq. rewrite forallb_forall in H3. rewrite <- body_agg_rels_eq in Hq. apply H3 in Hq.
    apply negb_true_iff in Hq. exact Hq.
Qed.

Lemma rule_aggs_static : forall j r q, In j (rules_of_scc sc) -> nth_error P j = Some r ->
  In q (agg_rels (body r)) -> is_dyn dyn q = false.
Proof.
  intros j r q Hj Hr Hq. destruct (scc_ok_rule_agg j Hj) as [r' [Hr' [_ [_ H]]]].
  rewrite Hr in Hr'. injection Hr' as <-. apply H. exact Hq.
Qed.

Lemma stratum_in : forall j r, In j (rules_of_scc sc) -> nth_error P j = Some r -> In r stratum.
Proof. intros j r Hj Hr. unfold stratum, stratum_of. apply in_filter_map. exists j. split; assumption. Qed.

Lemma stratum_inv : forall r, In r stratum -> exists j, In j (rules_of_scc sc) /\ nth_error P j = Some r.
Proof. intros r Hr. unfold stratum, stratum_of in Hr. apply in_filter_map in Hr. exact Hr. Qed.

Lemma rule_aggs_in : forall j r q, In j (rules_of_scc sc) -> nth_error P j = Some r ->
  In q (agg_rels (body r)) -> In q aggs.
Proof.
  intros j r q Hj Hr Hq. unfold aggs, stratum_agg_rels. apply in_flat_map. exists r.
  split; [eapply stratum_in; eassumption | exact Hq].
Qed.

Lemma aggs_static : forall q, In q aggs -> is_dyn dyn q = false.
Proof.
  intros q Hq. unfold aggs, stratum_agg_rels in Hq. apply in_flat_map in Hq as [r [Hr Hq]].
  apply stratum_inv in Hr as [j [Hj Hr]]. eapply rule_aggs_static; eassumption.
Qed.

Lemma variant_ok_unpack_agg : forall v, variant_ok arities P dyn v = true ->
  exists r, nth_error P (v_rule v) = Some r /\ map item_of (v_items v) = body r /\ v_heads v = heads r
    /\ variant_wf_agg arities dyn v = true
    /\ (forall h, In h (v_heads v) -> arity_ok arities (fst h) (length (snd h)) = true).
Proof.
  intros v H. unfold variant_ok, rule_of_variant in H.
  destruct (nth_error P (v_rule v)) as [r|] eqn:Hr; [|discriminate]. exists r. split; [reflexivity|].
  apply andb_true_iff in H as [H123 H4]. apply andb_true_iff in H123 as [H12 H3].
  apply andb_true_iff in H12 as [H1 H2].
  apply (list_eqb_eq _ _ bitem_eqb_eq) in H1. apply (list_eqb_eq _ _ head_eqb_eq) in H2.
  split; [exact H1|]. split; [exact H2|].
  destruct (check_from arities [] (v_items v) (v_sj v) (v_reord v)) as [B|] eqn:Hc; [|discriminate].
  split.
  - unfold variant_wf_agg. rewrite H3, Hc, H4. reflexivity.
  - intros h Hh. unfold heads_ok in H4. rewrite forallb_forall in H4. specialize (H4 h Hh).
    apply andb_true_iff in H4 as [H4 _]. exact H4.
Qed.

Lemma variant_rule_in_agg : forall v, In v (s_vars sc) -> In (v_rule v) (rules_of_scc sc).
Proof.
  intros v Hv. unfold rules_of_scc. apply dedup_nat_In. apply in_map. exact Hv.
Qed.

Lemma cover_variant_agg : forall j r a,
  In j (rules_of_scc sc) -> nth_error P j = Some r ->
  length a = ndyn_items dyn (body r) ->
  has_delta a = true \/ ndyn_items dyn (body r) = 0 ->
  exists v, In v (s_vars sc) /\ v_rule v = j /\ admits (dyn_versions dyn (v_items v)) a = true.
Proof.
  intros j r a Hj Hr Hlen Hd. destruct (scc_ok_rule_agg j Hj) as [r' [Hr' [Hcov _]]].
  rewrite Hr in Hr'. injection Hr' as <-.
  destruct (covers_spec _ _ a Hcov) as [w [Hw Hadm]]; [| exact Hlen | exact Hd |].
  - intros w Hw. apply in_map_iff in Hw as [v [<- Hv]]. apply filter_In in Hv as [Hv Hvj].
    apply Nat.eqb_eq in Hvj. destruct (variant_ok_unpack_agg v (scc_ok_variant_agg v Hv)) as [r' [Hr' [Hit _]]].
    rewrite Hvj, Hr in Hr'. injection Hr' as <-. rewrite dyn_versions_length, Hit. reflexivity.
  - apply in_map_iff in Hw as [v [<- Hv]]. apply filter_In in Hv as [Hv Hvj]. apply Nat.eqb_eq in Hvj.
    exists v. auto.
Qed.

(* ----- facts derived by a variant ----- *)
Lemma variant_fact_props_agg : forall S T D v f,
  In v (s_vars sc) -> In f (derive_variant I (contents S T D dyn) dyn v) ->
  In (fst f) hr /\ wf_fact arities f = true.
Proof.
  intros S T D v f Hv Hf. destruct (variant_ok_unpack_agg v (scc_ok_variant_agg v Hv)) as [r [Hr [Hit [Hhd [_ Har]]]]].
  unfold derive_variant in Hf. apply in_heads_of_envs in Hf as [e [h [_ [Hh Hev]]]].
  apply eval_head_shape in Hev as [Hfst Hlen]. split.
  - unfold hr, scc_head_rels. apply in_flat_map. exists (v_rule v). split; [apply variant_rule_in_agg; exact Hv|].
    rewrite Hr. unfold head_rels. rewrite Hfst. apply in_map. rewrite <- Hhd. exact Hh.
  - apply (wf_fact_of_arity arities f (fst h) (length (snd h))); [apply Har; exact Hh | exact Hfst | exact Hlen].
Qed.

Lemma variant_fact_sound_agg : forall S T D v f M,
  In v (s_vars sc) -> closed I stratum M -> incl S M -> incl T M -> incl D M ->
  (forall g, In (fst g) aggs -> In g M -> In g S) ->
  In f (derive_variant I (contents S T D dyn) dyn v) -> In f M.
Proof.
  intros S T D v f M Hv Hcl HS HT HD Hagr Hf.
  destruct (variant_ok_unpack_agg v (scc_ok_variant_agg v Hv)) as [r [Hr [Hit [Hhd _]]]].
  pose proof (variant_rule_in_agg v Hv) as Hj.
  unfold derive_variant in Hf. rewrite Hit, Hhd in Hf. apply in_heads_of_envs in Hf as [e [h [He [Hh Hev]]]].
  apply Hcl. exists r. split; [eapply stratum_in; eassumption|]. unfold derive_rule.
  apply in_heads_of_envs. exists e, h. split; [|split; assumption].
  revert He. apply all_envs_a_into_sem_agg; [exact Hperm | |].
  - intros q Hq t. unfold contents. rewrite (rule_aggs_static _ _ q Hj Hr Hq). rewrite !in_db_of. split.
    + apply HS.
    + apply (Hagr (q, t)). cbn [fst]. eapply rule_aggs_in; eassumption.
  - intros q ver _. apply contents_incl_db; assumption.
Qed.

(* ----- the stratum: static facts S, rows at entry R0 ----- *)
Variable S : list fact.
Variable R0 : list fact.
Hypothesis HwfS : forall f, In f S -> wf_fact arities f = true.
Hypothesis HndS : NoDup S.
Hypothesis HS_R0 : incl S R0.
Hypothesis HS_static : forall f, In f S -> fact_dyn dyn f = false.
Hypothesis HR0_static : forall f, In f R0 -> fact_dyn dyn f = false -> In f S.

Lemma eval_in_derive_agg : forall T D v f,
  (forall g, In g (T ++ D) -> wf_fact arities g = true) -> In v (s_vars sc) ->
  (In f (eval_variant I swap (contents S T D dyn) v) <-> In f (derive_variant I (contents S T D dyn) dyn v)).
Proof.
  intros T D v f Hwf Hv. destruct (variant_ok_unpack_agg v (scc_ok_variant_agg v Hv)) as [r [Hr [Hit [_ [Hvwf _]]]]].
  apply (Hspec arities S T D dyn v Hfun).
  - apply wf_facts_forall. exact HwfS.
  - apply wf_facts_forall. intros g Hg. apply Hwf. apply in_or_app. left. exact Hg.
  - apply wf_facts_forall. intros g Hg. apply Hwf. apply in_or_app. right. exact Hg.
  - exact Hvwf.
  - intros q Hq. rewrite variant_agg_rels_eq, Hit in Hq. unfold contents.
    rewrite (rule_aggs_static _ _ q (variant_rule_in_agg v Hv) Hr Hq). apply db_of_NoDup. exact HndS.
Qed.

Definition InvA (X R : list fact) : Prop :=
  (forall f, In f X -> wf_fact arities f = true)
  /\ NoDup X
  /\ (forall f, In f X <-> In f R /\ fact_dyn dyn f = true)
  /\ (exists A, R = R0 ++ A /\ NoDup A /\ forall f, In f A -> ~ In f R0 /\ In (fst f) hr)
  /\ (forall M, closed I stratum M -> incl R0 M -> agree_on aggs R0 M -> incl R M).

Definition SNA (T D : list fact) : Prop :=
  forall j r f, In j (rules_of_scc sc) -> nth_error P j = Some r -> ndyn_items dyn (body r) <> 0 ->
    In f (derive_rule I (sdb S T dyn) r) -> In f (T ++ D).

Definition FullClosedA (X Y : list fact) : Prop :=
  forall j r f, In j (rules_of_scc sc) -> nth_error P j = Some r ->
    In f (derive_rule I (sdb S X dyn) r) -> In f Y.

Lemma step_inv_agg : forall T D R N R',
  InvA (T ++ D) R -> scc_iteration I swap sc S T D R = (N, R') -> InvA ((T ++ D) ++ N) R'.
Proof.
  intros T D R N R' [Hwf [HndX [Hidx [[A [HR [HndA HA]]] Hsnd]]]] Hit.
  destruct (scc_iteration_spec _ _ _ _ _ _ _ _ _ Hit) as [HR' [HndN [HN _]]]. fold dyn in HN.
  assert (HNp : forall f, In f N -> In (fst f) hr /\ wf_fact arities f = true
                 /\ forall M, closed I stratum M -> incl R0 M -> agree_on aggs R0 M -> In f M).
  { intros f Hf. destruct (HN f Hf) as [[v [Hv Hev]] _]. apply (eval_in_derive_agg T D v f Hwf Hv) in Hev.
    destruct (variant_fact_props_agg S T D v f Hv Hev) as [H1 H2]. split; [exact H1|]. split; [exact H2|].
    intros M Hcl HM Hagr. assert (HRM : incl R M) by (apply Hsnd; assumption).
    assert (HX : incl (T ++ D) M). { intros g Hg. apply HRM. apply Hidx. exact Hg. }
    apply (variant_fact_sound_agg S T D v f M Hv Hcl).
    - intros g Hg. apply HM. apply HS_R0. exact Hg.
    - intros g Hg. apply HX. apply in_or_app. left. exact Hg.
    - intros g Hg. apply HX. apply in_or_app. right. exact Hg.
    - intros g Hga Hg. apply HR0_static; [apply (Hagr g Hga); exact Hg|].
      unfold fact_dyn. apply aggs_static. exact Hga.
    - exact Hev. }
  assert (HNnot : forall f, In f N -> ~ In f (T ++ D)).
  { intros f Hf Hin. destruct (HN f Hf) as [_ [H1 H2]]. apply in_app_or in Hin as [Hin | Hin]; auto. }
  assert (Hdynhr : forall f, In (fst f) hr -> fact_dyn dyn f = true).
  { intros f Hf. unfold fact_dyn. apply hr_dyn_agg. exact Hf. }
  split; [|split; [|split; [|split]]].
  - intros f Hf. apply in_app_or in Hf as [Hf | Hf]; [apply Hwf; exact Hf | apply HNp; exact Hf].
  - apply NoDup_app_intro; [exact HndX | exact HndN |]. intros f HfX HfN. exact (HNnot f HfN HfX).
  - intros f. rewrite HR'. split.
    + intros Hf. apply in_app_or in Hf as [Hf | Hf].
      * apply Hidx in Hf as [H1 H2]. split; [apply in_or_app; left; exact H1 | exact H2].
      * split; [apply in_or_app; right; exact Hf|]. apply Hdynhr. apply HNp. exact Hf.
    + intros [Hf Hd]. apply in_app_or in Hf as [Hf | Hf]; apply in_or_app.
      * left. apply Hidx. split; assumption.
      * right. exact Hf.
  - exists (A ++ N). split; [rewrite HR', HR, app_assoc; reflexivity|]. split.
    + apply NoDup_app_intro; [exact HndA | exact HndN |].
      intros f HfA HfN. apply (HNnot f HfN). apply Hidx. split.
      * rewrite HR. apply in_or_app. right. exact HfA.
      * apply Hdynhr. apply HA. exact HfA.
    + intros f Hf. apply in_app_or in Hf as [Hf | Hf]; [apply HA; exact Hf|]. split; [|apply HNp; exact Hf].
      intro Hin. apply (HNnot f Hf). apply Hidx. split.
      * rewrite HR. apply in_or_app. left. exact Hin.
      * apply Hdynhr. apply HNp. exact Hf.
  - intros M Hcl HM Hagr. rewrite HR'. apply incl_app; [apply Hsnd; assumption|].
    intros f Hf. apply HNp; assumption.
Qed.

Lemma step_sn_agg : forall T D R N R',
  (forall g, In g (T ++ D) -> wf_fact arities g = true) ->
  SNA T D -> scc_iteration I swap sc S T D R = (N, R') -> FullClosedA (T ++ D) ((T ++ D) ++ N).
Proof.
  intros T D R N R' Hwf Hsn Hit j r f Hj Hr Hf.
  destruct (scc_iteration_spec _ _ _ _ _ _ _ _ _ Hit) as [_ [_ [_ Hcov]]]. fold dyn in Hcov.
  pose proof (rule_aggs_static j r) as Hst. specialize (fun q => Hst q Hj Hr).
  unfold derive_rule in Hf. apply in_heads_of_envs in Hf as [e [h [He [Hh Hev]]]].
  destruct (extract_assignment_agg I S T D dyn (body r) [] e Hst He) as [a [Hlen Ha]].
  assert (Hcase : (has_delta a = true \/ ndyn_items dyn (body r) = 0)
                  \/ (has_delta a = false /\ ndyn_items dyn (body r) <> 0)).
  { destruct (has_delta a); [left; left; reflexivity|].
    destruct (Nat.eq_dec (ndyn_items dyn (body r)) 0) as [Hz | Hz]; [left; right; exact Hz | right; auto]. }
  destruct Hcase as [Hc | [Hnd Hnz]].
  - destruct (cover_variant_agg j r a Hj Hr Hlen Hc) as [v [Hv [Hvj Hadm]]].
    destruct (variant_ok_unpack_agg v (scc_ok_variant_agg v Hv)) as [r' [Hr' [Hitm [Hhd _]]]].
    rewrite Hvj, Hr in Hr'. injection Hr' as <-.
    assert (Hdv : In f (derive_variant I (contents S T D dyn) dyn v)).
    { unfold derive_variant. rewrite Hitm, Hhd. apply in_heads_of_envs. exists e, h.
      split; [|split; assumption]. revert Ha. apply admits_incl_agg; assumption. }
    apply (eval_in_derive_agg T D v f Hwf Hv) in Hdv.
    destruct (Hcov v f Hv Hdv) as [Hc' | [Hc' | Hc']]; apply in_or_app.
    + left. apply in_or_app. left. exact Hc'.
    + left. apply in_or_app. right. exact Hc'.
    + right. exact Hc'.
  - apply in_or_app. left. apply (Hsn j r f Hj Hr Hnz). unfold derive_rule. apply in_heads_of_envs.
    exists e, h. split; [|split; assumption]. revert Ha. apply no_delta_reads_total_agg; assumption.
Qed.

Lemma sn_init_agg : forall D, SNA [] D.
Proof.
  intros D j r f Hj Hr Hnz Hf. unfold derive_rule in Hf.
  rewrite (all_envs_empty_dyn I (sdb S [] dyn) dyn) in Hf; [destruct Hf | | exact Hnz].
  intros q Hq. unfold sdb. rewrite Hq. reflexivity.
Qed.

Lemma scc_loop_inv_agg : forall (Q : list fact -> list fact -> list fact -> Prop),
  (forall T D R N R', Q T D R -> scc_iteration I swap sc S T D R = (N, R') -> Q (T ++ D) N R') ->
  forall fuel T D R T' R', Q T D R -> scc_loop I swap fuel sc S T D R = Some (T', R') ->
  exists T1 D1 R1, Q T1 D1 R1 /\ scc_iteration I swap sc S T1 D1 R1 = ([], R') /\ T' = T1 ++ D1.
Proof.
  intros Q Hstep. induction fuel as [|fuel IH]; intros T D R T' R' HQ H; [discriminate|].
  cbn [scc_loop] in H. destruct (scc_iteration I swap sc S T D R) as [N R''] eqn:Hit.
  destruct N as [|f N].
  - injection H as <- <-. exists T, D, R. auto.
  - apply (IH _ _ _ _ _ (Hstep _ _ _ _ _ HQ Hit) H).
Qed.

Definition PostA (T' R' : list fact) : Prop := InvA T' R' /\ FullClosedA T' T'.

Lemma scc_loop_post_agg : forall fuel T D R T' R',
  InvA (T ++ D) R -> SNA T D -> scc_loop I swap fuel sc S T D R = Some (T', R') -> PostA T' R'.
Proof.
  intros fuel T D R T' R' Hinv Hsn H.
  assert (Hstep : forall T D R N R', InvA (T ++ D) R /\ SNA T D -> scc_iteration I swap sc S T D R = (N, R') ->
                    InvA ((T ++ D) ++ N) R' /\ SNA (T ++ D) N).
  { intros T0 D0 R1 N R2 [Hi Hs] Hit. split; [eapply step_inv_agg; eassumption|].
    intros j r f Hj Hr _ Hf. destruct Hi as [Hwf _]. exact (step_sn_agg _ _ _ _ _ Hwf Hs Hit j r f Hj Hr Hf). }
  destruct (scc_loop_inv_agg (fun T D R => InvA (T ++ D) R /\ SNA T D) Hstep fuel T D R T' R' (conj Hinv Hsn) H)
    as [T1 [D1 [R1 [[Hi1 Hs1] [Hit ->]]]]].
  pose proof (step_inv_agg _ _ _ _ _ Hi1 Hit) as Hi2. destruct Hi1 as [Hwf _].
  pose proof (step_sn_agg _ _ _ _ _ Hwf Hs1 Hit) as Hfc. rewrite app_nil_r in Hi2, Hfc. split; assumption.
Qed.

Lemma scc_once_post_agg : forall D R N R',
  s_loop sc = false -> InvA ([] ++ D) R -> scc_iteration I swap sc S [] D R = (N, R') -> PostA (D ++ N) R'.
Proof.
  intros D R N R' Hl Hinv Hit. pose proof (step_inv_agg _ _ _ _ _ Hinv Hit) as Hi2. destruct Hinv as [Hwf _].
  pose proof (step_sn_agg _ _ _ _ _ Hwf (sn_init_agg D) Hit) as Hfc. cbn [app] in Hi2, Hfc. split; [exact Hi2|].
  intros j r f Hj Hr Hf. apply (Hfc j r f Hj Hr).
  destruct (scc_ok_rule_agg j Hj) as [r' [Hr' [_ [Hz Hst]]]]. rewrite Hr in Hr'. injection Hr' as <-.
  destruct Hz as [Hz | Hz]; [congruence|].
  revert Hf. apply derive_rule_mono_agg; [exact Hperm | |].
  - intros q Hq t. rewrite body_agg_rels_eq in Hq. unfold sdb. rewrite (Hst q Hq). reflexivity.
  - intros q Hq. rewrite body_clause_rels_eq in Hq. unfold sdb. rewrite (ndyn_zero_static dyn _ q Hz Hq).
    apply incl_refl.
Qed.

(* ----- from the post-condition to the stored indices and the rows ----- *)
Lemma post_static_rows_agg : forall T' R' f, PostA T' R' -> In f R' -> fact_dyn dyn f = false -> In f S.
Proof.
  intros T' R' f [[_ [_ [_ [[A [HR [_ HA]]] _]]]] _] Hf Hd. rewrite HR in Hf. apply in_app_or in Hf as [Hf | Hf].
  - apply HR0_static; assumption.
  - exfalso. destruct (HA f Hf) as [_ Hh]. unfold fact_dyn in Hd. rewrite (hr_dyn_agg _ Hh) in Hd. discriminate.
Qed.

Lemma post_stored_agg : forall T' R', PostA T' R' -> forall f, In f (S ++ T') <-> In f R'.
Proof.
  intros T' R' HP f. pose proof HP as [[_ [_ [Hidx [[A [HR _]] _]]]] _]. split.
  - intros Hf. apply in_app_or in Hf as [Hf | Hf].
    + rewrite HR. apply in_or_app. left. apply HS_R0. exact Hf.
    + apply Hidx. exact Hf.
  - intros Hf. apply in_or_app. destruct (fact_dyn dyn f) eqn:Hd.
    + right. apply Hidx. split; assumption.
    + left. eapply post_static_rows_agg; eassumption.
Qed.

Lemma post_stored_nodup : forall T' R', PostA T' R' -> NoDup (S ++ T').
Proof.
  intros T' R' [[_ [Hnd [Hidx _]]] _]. apply NoDup_app_intro; [exact HndS | exact Hnd |].
  intros f HfS HfT. apply Hidx in HfT as [_ Hd]. rewrite (HS_static f HfS) in Hd. discriminate.
Qed.

Lemma post_wf_agg : forall T' R', (forall f, In f R0 -> wf_fact arities f = true) -> PostA T' R' ->
  forall f, In f R' -> wf_fact arities f = true.
Proof.
  intros T' R' HwfR0 [[Hwf [_ [Hidx [[A [HR [_ HA]]] _]]]] _] f Hf. pose proof Hf as Hf'. rewrite HR in Hf'.
  apply in_app_or in Hf' as [Hf' | Hf']; [apply HwfR0; exact Hf'|].
  apply Hwf. apply Hidx. split; [exact Hf|]. unfold fact_dyn. apply hr_dyn_agg. apply HA. exact Hf'.
Qed.

Lemma post_closed_agg : forall T' R', PostA T' R' -> closed I stratum R'.
Proof.
  intros T' R' HP f [r [Hrs Hf]]. apply stratum_inv in Hrs as [j [Hj Hr]].
  pose proof HP as [[_ [_ [Hidx [[A [HR _]] _]]]] Hfc].
  apply Hidx. apply (Hfc j r f Hj Hr). revert Hf. apply derive_rule_mono_agg; [exact Hperm | |].
  - intros q Hq t. rewrite body_agg_rels_eq in Hq. unfold sdb. rewrite (rule_aggs_static j r q Hj Hr Hq).
    rewrite !in_db_of. split.
    + intros Ht. eapply post_static_rows_agg; [exact HP | exact Ht |].
      unfold fact_dyn. cbn [fst]. exact (rule_aggs_static j r q Hj Hr Hq).
    + intros Ht. rewrite HR. apply in_or_app. left. apply HS_R0. exact Ht.
  - intros q _ t Ht. apply in_db_of in Ht. unfold sdb. destruct (is_dyn dyn q) eqn:Hd; apply in_db_of.
    + apply Hidx. split; [exact Ht | exact Hd].
    + eapply post_static_rows_agg; [exact HP | exact Ht | exact Hd].
Qed.

Lemma post_agree : forall T' R', PostA T' R' -> agree_on aggs R0 R'.
Proof.
  intros T' R' [[_ [_ [_ [[A [HR [_ HA]]] _]]]] _] f Hf. rewrite HR. split.
  - intros Hin. apply in_app_or in Hin as [Hin | Hin]; [exact Hin|]. exfalso.
    destruct (HA f Hin) as [_ Hh]. pose proof (hr_dyn_agg _ Hh) as Hd.
    rewrite (aggs_static _ Hf) in Hd. discriminate.
  - intros Hin. apply in_or_app. left. exact Hin.
Qed.

Lemma inv_init_agg : forall D0,
  (forall f, In f R0 -> wf_fact arities f = true) -> NoDup D0 ->
  (forall f, In f D0 <-> In f R0 /\ fact_dyn dyn f = true) ->
  InvA ([] ++ D0) R0.
Proof.
  intros D0 HwfR0 Hnd HD0. cbn [app]. split; [|split; [|split; [|split]]].
  - intros f Hf. apply HwfR0. apply HD0. exact Hf.
  - exact Hnd.
  - exact HD0.
  - exists []. rewrite app_nil_r. split; [reflexivity|]. split; [constructor | intros f []].
  - intros M _ HM _. exact HM.
Qed.
End SccAgg.

(* ---------- specification of run_scc, aggregates allowed ---------- *)
Theorem run_scc_spec_agg : forall I swap arities P sc fuel st st',
  eval_variant_spec_agg_stmt I swap -> agg_perm_invariant I -> arities_functional arities ->
  scc_ok arities P sc = true ->
  (forall f, In f (stored st) <-> In f (rows st)) ->
  (forall f, In f (rows st) -> wf_fact arities f = true) ->
  NoDup (stored st) ->
  run_scc I swap fuel sc st = Some st' ->
  (forall f, In f (stored st') <-> In f (rows st'))
  /\ (forall f, In f (rows st') -> wf_fact arities f = true)
  /\ NoDup (stored st')
  /\ (exists A, rows st' = rows st ++ A /\ NoDup A /\ forall f, In f A -> ~ In f (rows st))
  /\ least_model_fixed I (stratum_of P sc) (rows st) (rows st').
Proof.
  intros I swap arities P sc fuel st st' Hspec Hperm Hfun Hok Hsr Hwf Hnds Hrun.
  set (dyn := s_dyn sc) in *.
  set (D0 := filter (fact_dyn dyn) (stored st)).
  set (S := filter (fun f => negb (fact_dyn dyn f)) (stored st)).
  assert (HwfS : forall f, In f S -> wf_fact arities f = true).
  { intros f Hf. apply filter_In in Hf as [Hf _]. apply Hwf. apply Hsr. exact Hf. }
  assert (HndS : NoDup S) by (apply NoDup_filter; exact Hnds).
  assert (HndD0 : NoDup D0) by (apply NoDup_filter; exact Hnds).
  assert (HS_R0 : incl S (rows st)).
  { intros f Hf. apply filter_In in Hf as [Hf _]. apply Hsr. exact Hf. }
  assert (HS_static : forall f, In f S -> fact_dyn dyn f = false).
  { intros f Hf. apply filter_In in Hf as [_ Hf]. apply negb_true_iff in Hf. exact Hf. }
  assert (HR0_static : forall f, In f (rows st) -> fact_dyn dyn f = false -> In f S).
  { intros f Hf Hd. apply filter_In. split; [apply Hsr; exact Hf | rewrite Hd; reflexivity]. }
  assert (HD0 : forall f, In f D0 <-> In f (rows st) /\ fact_dyn dyn f = true).
  { intros f. unfold D0. rewrite filter_In, Hsr. reflexivity. }
  pose proof (inv_init_agg I arities P sc (rows st) D0 Hwf HndD0 HD0) as Hinit.
  assert (HPost : exists T', stored st' = S ++ T' /\ PostA I arities P sc S (rows st) T' (rows st')).
  { unfold run_scc in Hrun. fold dyn in Hrun. fold D0 in Hrun. fold S in Hrun.
    destruct (s_loop sc) eqn:Hl.
    - destruct (scc_loop I swap fuel sc S [] D0 (rows st)) as [[T' R']|] eqn:Hloop; [|discriminate].
      injection Hrun as <-. exists T'. split; [reflexivity|]. cbn [rows].
      apply (scc_loop_post_agg I swap Hspec Hperm arities P Hfun sc Hok S (rows st) HwfS HndS HS_R0 HR0_static
               fuel [] D0 (rows st) T' R' Hinit).
      + apply sn_init_agg.
      + exact Hloop.
    - destruct (scc_iteration I swap sc S [] D0 (rows st)) as [N R'] eqn:Hit.
      injection Hrun as <-. exists (D0 ++ N). split; [reflexivity|]. cbn [rows].
      apply (scc_once_post_agg I swap Hspec Hperm arities P Hfun sc Hok S (rows st) HwfS HndS HS_R0 HR0_static
               D0 (rows st) N R' Hl Hinit Hit). }
  destruct HPost as [T' [Hst' HP]].
  split; [|split; [|split; [|split]]].
  - intros f. rewrite Hst'. apply (post_stored_agg I arities P sc Hok S (rows st) HS_R0 HR0_static T' (rows st') HP).
  - apply (post_wf_agg I arities P sc Hok S (rows st) T' (rows st') Hwf HP).
  - rewrite Hst'. apply (post_stored_nodup I arities P sc S (rows st) HndS HS_static T' (rows st') HP).
  - destruct HP as [[_ [_ [_ [[A [HR [Hnd HA]]] _]]]] _]. exists A. split; [exact HR|]. split; [exact Hnd|].
    intros f Hf. apply HA. exact Hf.
  - split; [|split; [|split]].
    + destruct HP as [[_ [_ [_ [[A [HR _]] _]]]] _]. rewrite HR. apply incl_appl. apply incl_refl.
    + apply (post_agree I arities P sc Hok S (rows st) T' (rows st') HP).
    + apply (post_closed_agg I Hperm arities P sc Hok S (rows st) HS_R0 HR0_static T' (rows st') HP).
    + intros M HM Hagr Hcl. destruct HP as [[_ [_ [_ [_ Hsnd]]]] _]. apply Hsnd; assumption.
Qed.
