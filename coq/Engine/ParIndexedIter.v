(* B12, part 2 of the proofs: ONE parallel iteration over the per-index sharded store (ParIndexedModel.istep / irun).
   For every schedule (interleaving of the workers' atomic steps), every thread index below the size of the run pool,
   every hash, every distribution of the work:
     - no step panics (no frozen / out-of-range shard / missing variable);
     - the state abstracts to the state ParStep.run_sched reaches for the SAME work under the schedule [coarsen] extracts
       (the fine schedule with the index_insert / __changed.store steps, which ParStep performs together with the push,
       removed);
     - every index of new denotes the facts inserted so far minus the ones whose index_insert is still pending
       (lock-step at quiescence). *)
From Coq Require Import List ZArith Bool Arith Lia Permutation.
From AV Require Import Index.MultiMap.
From AV Require Import Index.IndexModel.
From AV Require Import Index.IndexRefine.
From AV Require Import Index.ConcIndex.
From AV Require Import Engine.Core Engine.Sem Engine.Eval Engine.NaiveLemmas Engine.IndexedBase.
From AV Require Import Engine.ParStep Engine.ParSched.
From AV Require Import Engine.ParIndexedModel Engine.ParIndexedValue.
Import ListNotations.
Local Open Scope nat_scope.

(* ---------- list helpers ---------- *)
Lemma nth_error_upd_nth {A} (f : A -> A) : forall l i j,
  nth_error (upd_nth i f l) j = if Nat.eqb i j then option_map f (nth_error l j) else nth_error l j.
Proof.
  induction l as [|x l IH]; intros i j.
  - destruct i, j; cbn; try reflexivity; destruct (Nat.eqb i j); reflexivity.
  - destruct i as [|i], j as [|j]; cbn [upd_nth nth_error Nat.eqb option_map]; try reflexivity. apply IH.
Qed.

Lemma map_upd_nth_same {A B} (g : A -> B) (f : A -> A) : (forall x, g (f x) = g x) ->
  forall l i, map g (upd_nth i f l) = map g l.
Proof. intros H. induction l as [|x l IH]; intros [|i]; cbn [upd_nth map]; try reflexivity; [rewrite H|rewrite IH]; reflexivity. Qed.

Lemma map_set_nth {A B} (g : A -> B) : forall i x l, map g (set_nth i x l) = set_nth i (g x) (map g l).
Proof. induction i as [|i IH]; intros x [|y l]; cbn [set_nth map]; try reflexivity. rewrite IH. reflexivity. Qed.

Lemma set_nth_same {A} : forall i (x : A) l, nth_error l i = Some x -> set_nth i x l = l.
Proof.
  induction i as [|i IH]; intros x [|y l] H; cbn [set_nth nth_error] in *; try discriminate.
  - injection H as ->. reflexivity.
  - rewrite (IH x l H). reflexivity.
Qed.

Lemma find_pos_map {A B} (g : A -> B) p : forall l, find_pos p (map g l) = find_pos (fun a => p (g a)) l.
Proof. induction l as [|a l IH]; [reflexivity|]. cbn [map find_pos]. rewrite IH. reflexivity. Qed.

Lemma find_pos_ext {A} (p q : A -> bool) : (forall a, p a = q a) -> forall l, find_pos p l = find_pos q l.
Proof. intros H. induction l as [|a l IH]; [reflexivity|]. cbn [find_pos]. rewrite H, IH. reflexivity. Qed.

Lemma find_pos_some {A} (p : A -> bool) : forall l j, find_pos p l = Some j ->
  (exists a, nth_error l j = Some a /\ p a = true) /\ forall j' a', j' < j -> nth_error l j' = Some a' -> p a' = false.
Proof.
  induction l as [|a l IH]; intros j H; [discriminate|]. cbn [find_pos] in H. destruct (p a) eqn:Pa.
  - injection H as <-. split; [exists a; split; [reflexivity|exact Pa]|]. intros j' a' Hlt. lia.
  - destruct (find_pos p l) as [k|] eqn:Fk; [|discriminate]. injection H as <-. destruct (IH k eq_refl) as [I1 I2]. split.
    + exact I1.
    + intros [|j'] a' Hlt Hn; cbn [nth_error] in Hn; [injection Hn as <-; exact Pa|]. apply (I2 j' a'); [lia|exact Hn].
Qed.

Lemma find_pos_complete {A} (p : A -> bool) : forall l j a, nth_error l j = Some a -> p a = true ->
  exists j', find_pos p l = Some j' /\ j' <= j.
Proof.
  induction l as [|x l IH]; intros [|j] a H Pa; cbn [nth_error] in H; try discriminate; cbn [find_pos].
  - injection H as ->. rewrite Pa. exists 0. split; [reflexivity|lia].
  - destruct (p x); [exists 0; split; [reflexivity|lia]|]. destruct (IH j a H Pa) as [j' [E L]]. rewrite E. exists (S j'). split; [reflexivity|lia].
Qed.

Lemma db_of_app : forall A B r, db_of (A ++ B) r = db_of A r ++ db_of B r.
Proof. intros A B r. unfold db_of. rewrite filter_app, map_app. reflexivity. Qed.

Lemma db_of_one : forall q t r, db_of [(q, t)] r = if Nat.eqb q r then [t] else [].
Proof. intros q t r. unfold db_of. cbn [filter fst]. destruct (Nat.eqb q r); reflexivity. Qed.

Lemma existsb_set_nth_same {A} (p : A -> bool) i x y l : nth_error l i = Some x -> p y = p x ->
  existsb p (set_nth i y l) = existsb p l.
Proof.
  intros Hn Hp. destruct (set_nth_split _ _ _ _ Hn) as [l1 [l2 [E S]]]. rewrite S, E, !existsb_app. cbn [existsb]. rewrite Hp. reflexivity.
Qed.

Lemma existsb_set_nth_true {A} (p : A -> bool) i x y l : nth_error l i = Some x -> p y = true ->
  existsb p (set_nth i y l) = true.
Proof.
  intros Hn Hp. destruct (set_nth_split _ _ _ _ Hn) as [l1 [l2 [E S]]]. rewrite S, existsb_app. cbn [existsb]. rewrite Hp.
  rewrite orb_true_r. reflexivity.
Qed.

Lemma existsb_nth_true {A} (p : A -> bool) i x l : nth_error l i = Some x -> p x = true -> existsb p l = true.
Proof. intros Hn Hp. apply existsb_exists. exists x. split; [eapply nth_error_In; exact Hn|exact Hp]. Qed.

Lemma irun_cons hash enc nomod st it r st1 : istep hash enc nomod st it = Ok st1 ->
  irun hash enc nomod st (it :: r) = irun hash enc nomod st1 r.
Proof. intros E. unfold irun. cbn [fold_left rbind IndexModel.bind]. rewrite E. reflexivity. Qed.

(* the ghost grows only by a head fact whose relation has a full index variable *)
Lemma istep_iN hash enc nomod st it st' : istep hash enc nomod st it = Ok st' ->
  iN st' = iN st \/ exists f j, iN st' = iN st ++ [f] /\ find_pos (is_full_of (fst f)) (istore st) = Some j.
Proof.
  unfold istep, rbind, IndexModel.bind. intros H.
  repeat match type of H with
         | context [match ?x with _ => _ end] => destruct x eqn:?; try discriminate
         end;
  try (injection H as <-; cbn [iN]; auto; right; eauto).
Qed.

(* ---------- abstraction to ParStep ---------- *)
Definition absw (w : iworker) : worker :=
  {| todo := w_todo w;
     pending := match w_pend w with
                | Some p => match p_stage p with None => Some (p_fact p) | Some _ => None end
                | None => None
                end |}.
Definition postpush (w : iworker) : bool :=
  match w_pend w with Some p => match p_stage p with Some _ => true | None => false end | None => false end.
Definition abs_state (st : istate) : pstate :=
  {| pN := iN st; pR := iR st; pws := map absw (iws st); pchanged := ichanged st || existsb postpush (iws st) |}.
(* does the next atomic step of worker i correspond to a step of ParStep (a frozen-read + insert_if_not_present step, or
   the push), or is it one of the steps ParStep performs together with the push (index_insert, __changed.store)? *)
Definition visible (st : istate) (i : nat) : bool :=
  match nth_error (iws st) i with
  | Some w => match w_pend w with
              | Some p => match p_stage p with None => true | Some _ => false end
              | None => match w_todo w with [] => false | _ => true end
              end
  | None => false
  end.

Definition erase (e : sentry) : sentry := set_new (XN (false, [])) e.
Definition skel (e : sentry) : xdecl * bool := (s_d e, e_isdyn e).

Lemma erase_set_new n e : erase (set_new n e) = erase e.
Proof. unfold erase, set_new. destruct e as [d [t dl n0|t]]; reflexivity. Qed.
Lemma is_full_of_erase r e : is_full_of r (erase e) = is_full_of r e.
Proof. destruct e as [d [t dl n0|t]]; reflexivity. Qed.
Lemma is_other_of_erase r e : is_other_of r (erase e) = is_other_of r e.
Proof. destruct e as [d [t dl n0|t]]; reflexivity. Qed.

Lemma find_full_erase r s : find_pos (is_full_of r) (map erase s) = find_pos (is_full_of r) s.
Proof. rewrite find_pos_map. apply find_pos_ext. intros a. apply is_full_of_erase. Qed.
Lemma in_others_erase s r j : in_others (map erase s) r j = in_others s r j.
Proof. unfold in_others. rewrite nth_error_map. destruct (nth_error s j) as [e|]; [apply is_other_of_erase|reflexivity]. Qed.
Lemma others_of_erase s r : others_of (map erase s) r = others_of s r.
Proof. unfold others_of. rewrite map_length. apply filter_ext. intros j. apply in_others_erase. Qed.

Lemma erase_eq_inv e e0 : erase e = erase e0 ->
  s_d e = s_d e0 /\
  (forall t dl n, s_v e = SDyn t dl n -> exists n0, s_v e0 = SDyn t dl n0) /\
  (forall t, s_v e = SBody t -> s_v e0 = SBody t).
Proof.
  destruct e as [d [t dl n|t]], e0 as [d0 [t0 dl0 n0|t0]]; unfold erase, set_new; cbn [s_d s_v]; intros H; inversion H; subst.
  - split; [reflexivity|]. split; [intros ? ? ? E; inversion E; subst; eexists; reflexivity|intros ? E; discriminate].
  - split; [reflexivity|]. split; [intros ? ? ? E; discriminate|intros ? E; exact E].
Qed.

Lemma existsb_others s r j : existsb (Nat.eqb j) (others_of s r) = in_others s r j.
Proof.
  destruct (in_others s r j) eqn:E.
  - apply existsb_exists. exists j. split; [|apply Nat.eqb_refl]. unfold others_of. apply filter_In. split; [|exact E].
    apply in_seq. unfold in_others in E. destruct (nth_error s j) eqn:N; [|discriminate].
    assert (j < length s) by (apply nth_error_Some; congruence). lia.
  - destruct (existsb (Nat.eqb j) (others_of s r)) eqn:X; [|reflexivity]. apply existsb_exists in X as [x [Hx Ex]].
    apply Nat.eqb_eq in Ex. subst x. unfold others_of in Hx. apply filter_In in Hx as [_ Hx]. congruence.
Qed.

Section Iter.
Variable sh : forall A : Type, list A -> list A.
Hypothesis sh_perm : forall A (l : list A), Permutation (sh A l) l.
Variable hash : Z -> nat.
Variable enc : list Z -> Z.
Hypothesis enc_inj : forall a b, enc a = enc b -> a = b.
Variable nsh : nat.
Hypothesis nsh_pos : nsh <> 0.
Variable nomod : bool.
Variable pool : nat.
Variables T D : list fact.          (* the row-level contents of total and delta *)
Variable s0 : store.                (* the store at the start of the iteration, after freeze_code *)

Local Notation xshape := (xshape hash nsh pool).
Local Notation xden := (xden hash enc).
Local Notation istep := (istep hash enc nomod).
Local Notation irun := (irun hash enc nomod).

(* total and delta: frozen, of the run pool's shape, denoting T and D *)
Hypothesis Hctx : forall j e0 t dl n0, nth_error s0 j = Some e0 -> s_v e0 = SDyn t dl n0 ->
  (xshape (s_d e0) t /\ xflag t = true /\ xden (s_d e0) t (db_of T (x_rel (s_d e0)))) /\
  (xshape (s_d e0) dl /\ xflag dl = true /\ xden (s_d e0) dl (db_of D (x_rel (s_d e0)))).
(* one full index variable per dynamic relation *)
Hypothesis Hfu : forall j e r, nth_error s0 j = Some e -> is_full_of r e = true -> find_pos (is_full_of r) s0 = Some j.

Definition waits (j : nat) (w : iworker) : list tuple :=
  match w_pend w with
  | Some p => match p_stage p with
              | None => if in_others s0 (fst (p_fact p)) j then [snd (p_fact p)] else []
              | Some (_, lft) => if existsb (Nat.eqb j) lft then [snd (p_fact p)] else []
              end
  | None => []
  end.
Definition waiting (j : nat) (ws : list iworker) : list tuple := flat_map (waits j) ws.

Definition new_inv (st : istate) (j : nat) (d : xdecl) (n : xval) : Prop :=
  xshape d n /\ xflag n = false /\
  match x_kind d with
  | KFull => xden d n (db_of (iN st) (x_rel d))
  | _ => exists L', xden d n L' /\ Permutation (db_of (iN st) (x_rel d)) (L' ++ waiting j (iws st))
  end.

Definition Inv (st : istate) : Prop :=
  map erase (istore st) = map erase s0
  /\ (forall j e t dl n, nth_error (istore st) j = Some e -> s_v e = SDyn t dl n -> new_inv st j (s_d e) n)
  /\ (forall w p row lft, In w (iws st) -> w_pend w = Some p -> p_stage p = Some (row, lft) ->
        NoDup lft /\ forall j, In j lft -> in_others s0 (fst (p_fact p)) j = true).

Lemma new_inv_ext st st' j d n : iN st' = iN st -> waiting j (iws st') = waiting j (iws st) ->
  new_inv st j d n -> new_inv st' j d n.
Proof. intros E1 E2 H. unfold new_inv in *. rewrite E1, E2. exact H. Qed.

Lemma waiting_split j l1 w l2 : waiting j (l1 ++ w :: l2) = waiting j l1 ++ waits j w ++ waiting j l2.
Proof. unfold waiting. rewrite flat_map_app. reflexivity. Qed.

Lemma store_nth st j e : map erase (istore st) = map erase s0 -> nth_error (istore st) j = Some e ->
  exists e0, nth_error s0 j = Some e0 /\ erase e = erase e0.
Proof.
  intros HE Hn. assert (H : nth_error (map erase s0) j = Some (erase e)) by (rewrite <- HE, nth_error_map, Hn; reflexivity).
  rewrite nth_error_map in H. destruct (nth_error s0 j) as [e0|]; [|discriminate]. exists e0. split; [reflexivity|]. cbn in H. congruence.
Qed.

Lemma store_nth0 st j e0 : map erase (istore st) = map erase s0 -> nth_error s0 j = Some e0 ->
  exists e, nth_error (istore st) j = Some e /\ erase e = erase e0.
Proof.
  intros HE Hn. assert (H : nth_error (map erase (istore st)) j = Some (erase e0)) by (rewrite HE, nth_error_map, Hn; reflexivity).
  rewrite nth_error_map in H. destruct (nth_error (istore st) j) as [e|]; [|discriminate]. exists e. split; [reflexivity|]. cbn in H. congruence.
Qed.

Lemma erase_dyn e e0 : erase e = erase e0 -> e_isdyn e = e_isdyn e0 /\ e_isfull e = e_isfull e0 /\ forall r, is_other_of r e = is_other_of r e0.
Proof.
  intros H. split; [|split].
  - assert (X : forall x, e_isdyn (erase x) = e_isdyn x) by (intros [d [? ? ?|?]]; reflexivity).
    rewrite <- (X e), <- (X e0), H. reflexivity.
  - unfold e_isfull. destruct (erase_eq_inv _ _ H) as [-> _]. reflexivity.
  - intros r. rewrite <- (is_other_of_erase r e), <- (is_other_of_erase r e0), H. reflexivity.
Qed.

Lemma kind_full_isfull e : e_isfull e = true <-> x_kind (s_d e) = KFull.
Proof. unfold e_isfull. destruct (x_kind (s_d e)); split; intros H; try reflexivity; discriminate. Qed.

Lemma xden_full_ext d x L L' : x_kind d = KFull -> xshape d x -> (forall t, In t L <-> In t L') -> xden d x L -> xden d x L'.
Proof.
  intros K Hs HL H. destruct (full_is_XF hash nsh pool d x K Hs) as [c [-> _]]. cbn [ParIndexedValue.xden] in *.
  intros k. rewrite H. split; intros [t [Ht E]]; exists t; (split; [apply HL; exact Ht|exact E]).
Qed.

(* the record equalities of the simulation, factored *)
Lemma abs_eq st N' R' ws' ch' pst :
  pN pst = N' -> pR pst = R' -> pws pst = map absw ws' -> pchanged pst = ch' || existsb postpush ws' ->
  abs_state {| iN := N'; iR := R'; istore := st; iws := ws'; ichanged := ch' |} = pst.
Proof. intros <- <- E1 E2. destruct pst as [a b c d]. cbn in *. unfold abs_state. cbn. rewrite <- E1, <- E2. reflexivity. Qed.

(* [head_ok st i]: the head fact worker i is about to process belongs to a relation with a full index variable *)
Definition head_ok (st : istate) (i : nat) : Prop :=
  forall w f rest, nth_error (iws st) i = Some w -> w_pend w = None -> w_todo w = f :: rest ->
    find_pos (is_full_of (fst f)) s0 <> None.

Theorem istep_sim st i tid : Inv st -> tid < Nat.max pool 1 -> head_ok st i ->
  exists st', istep st (i, tid) = Ok st' /\ Inv st' /\
    abs_state st' = if visible st i then step_worker T D (abs_state st) i else abs_state st.
Proof.
  intros Hinv Htid HT. pose proof Hinv as [HE [HN HP]]. unfold ParIndexedModel.istep, visible, set_worker. cbn [fst snd].
  destruct (nth_error (iws st) i) as [w|] eqn:Hw; [|exists st; split; [reflexivity|split; [exact Hinv|reflexivity]]].
  destruct (set_nth_split _ _ _ _ Hw) as [l1 [l2 [Ews Eset]]].
  assert (Habsw : nth_error (pws (abs_state st)) i = Some (absw w)) by (cbn; rewrite nth_error_map, Hw; reflexivity).
  assert (Hin : In w (iws st)) by (eapply nth_error_In; exact Hw).
  destruct (w_pend w) as [p|] eqn:Hp.
  - destruct (p_stage p) as [[row [|j0 lft]]|] eqn:Hs.
    + (* __changed.store(true) *)
      eexists. split; [reflexivity|]. split.
      * split; [exact HE|]. cbn [istore iws iN]. split.
        -- intros j e t dl n Hn Hv. apply (new_inv_ext st); [reflexivity| |apply (HN j e t dl n Hn Hv)]. cbn [iws].
           rewrite Eset, Ews, !waiting_split. f_equal. f_equal. unfold waits. cbn [w_pend]. rewrite Hp, Hs. reflexivity.
        -- intros w' p' row' lft' Hin' Hp' Hs'. rewrite Eset in Hin'. apply in_app_or in Hin' as [Hin'|[<-|Hin']].
           ++ apply (HP w' p' row' lft'); [rewrite Ews; apply in_or_app; left; exact Hin'|exact Hp'|exact Hs'].
           ++ cbn [w_pend] in Hp'. discriminate.
           ++ apply (HP w' p' row' lft'); [rewrite Ews; apply in_or_app; right; right; exact Hin'|exact Hp'|exact Hs'].
      * apply abs_eq; cbn [abs_state pN pR pws pchanged]; try reflexivity.
        -- rewrite map_set_nth. symmetry. apply set_nth_same. rewrite nth_error_map, Hw. cbn [option_map]. f_equal.
           unfold absw. cbn [w_todo w_pend]. rewrite Hp, Hs. reflexivity.
        -- cbn [orb]. rewrite (existsb_nth_true postpush i w _ Hw); [apply orb_true_r|]. unfold postpush. rewrite Hp, Hs. reflexivity.
    + (* index_insert into the other index j0 of new *)
      destruct (HP w p row (j0 :: lft) Hin Hp Hs) as [Hnd Hoth].
      assert (Hj0 : in_others s0 (fst (p_fact p)) j0 = true) by (apply Hoth; left; reflexivity).
      unfold in_others in Hj0. destruct (nth_error s0 j0) as [e0|] eqn:Hn0; [|discriminate].
      destruct (store_nth0 st j0 e0 HE Hn0) as [e [Hne Hee]]. rewrite Hne.
      destruct (erase_dyn _ _ Hee) as [Hdy [Hfl Hot]]. rewrite <- Hot in Hj0. unfold is_other_of in Hj0.
      apply andb_true_iff in Hj0 as [Hj0 Hdyn]. apply andb_true_iff in Hj0 as [Hrel Hnf].
      unfold e_isdyn in Hdyn. destruct (s_v e) as [t dl n|] eqn:Hv; [|discriminate].
      destruct (HN j0 e t dl n Hne Hv) as [A [B C]].
      assert (Hk : x_kind (s_d e) <> KFull). { intros K. apply kind_full_isfull in K. rewrite K in Hnf. discriminate. }
      assert (C' : exists L', xden (s_d e) n L' /\ Permutation (db_of (iN st) (x_rel (s_d e))) (L' ++ waiting j0 (iws st))).
      { destruct (x_kind (s_d e)); [congruence|exact C|exact C]. }
      destruct C' as [L' [C1 C2]].
      destruct (xinsert_spec hash enc nsh nsh_pos nomod pool (s_d e) tid (snd (p_fact p)) n L' A B Htid C1) as [n' [En [A' [B' C1']]]].
      rewrite En. cbn [rbind IndexModel.bind]. eexists. split; [reflexivity|]. split.
      * unfold Inv. cbn [istore iws iN]. split; [|split].
        -- unfold store_set_new. rewrite map_upd_nth_same; [exact HE|apply erase_set_new].
        -- intros j e' t' dl' n'' Hn Hv'. unfold store_set_new in Hn. rewrite nth_error_upd_nth in Hn.
           destruct (Nat.eqb_spec j0 j) as [<-|Hne'].
           ++ rewrite Hne in Hn. cbn [option_map] in Hn. injection Hn as <-. unfold set_new in Hv'. rewrite Hv in Hv'.
              cbn [s_v] in Hv'. injection Hv' as <- <- <-. unfold set_new. rewrite Hv. cbn [s_d].
              split; [exact A'|]. split; [exact B'|].
              assert (G : exists L'', xden (s_d e) n' L'' /\
                            Permutation (db_of (iN st) (x_rel (s_d e)))
                              (L'' ++ waiting j0 (l1 ++ {| w_todo := w_todo w; w_pend := Some {| p_fact := p_fact p; p_stage := Some (row, lft) |} |} :: l2))).
              { exists (snd (p_fact p) :: L'). split; [exact C1'|]. rewrite waiting_split. rewrite Ews, waiting_split in C2.
                unfold waits in C2. rewrite Hp, Hs in C2. cbn [existsb] in C2. rewrite Nat.eqb_refl in C2. cbn [orb] in C2.
                unfold waits. cbn [w_pend p_stage p_fact].
                assert (Hni : existsb (Nat.eqb j0) lft = false).
                { destruct (existsb (Nat.eqb j0) lft) eqn:X; [|reflexivity]. apply existsb_exists in X as [x [Hx Ex]]. apply Nat.eqb_eq in Ex. subst x.
                  inversion Hnd; contradiction. }
                rewrite Hni. cbn [app]. rewrite C2. apply Permutation_sym. rewrite !(app_assoc L' (waiting j0 l1)).
                cbn [app]. apply Permutation_cons_app. apply Permutation_refl. }
              rewrite Eset. destruct (x_kind (s_d e)); [congruence|exact G|exact G].
           ++ apply (new_inv_ext st); [reflexivity| |apply (HN j e' t' dl' n'' Hn Hv')]. cbn [iws].
              rewrite Eset, Ews, !waiting_split. f_equal. f_equal. unfold waits. cbn [w_pend p_stage p_fact]. rewrite Hp, Hs. cbn [existsb].
              replace (Nat.eqb j j0) with false by (symmetry; apply Nat.eqb_neq; congruence). reflexivity.
        -- intros w' p' row' lft' Hin' Hp' Hs'. rewrite Eset in Hin'. apply in_app_or in Hin' as [Hin'|[<-|Hin']].
           ++ apply (HP w' p' row' lft'); [rewrite Ews; apply in_or_app; left; exact Hin'|exact Hp'|exact Hs'].
           ++ cbn [w_pend] in Hp'. injection Hp' as <-. cbn [p_stage] in Hs'. injection Hs' as <- <-. cbn [p_fact]. split.
              ** inversion Hnd; assumption.
              ** intros j Hj. apply Hoth. right. exact Hj.
           ++ apply (HP w' p' row' lft'); [rewrite Ews; apply in_or_app; right; right; exact Hin'|exact Hp'|exact Hs'].
      * apply abs_eq; cbn [abs_state pN pR pws pchanged]; try reflexivity.
        -- rewrite map_set_nth. symmetry. apply set_nth_same. rewrite nth_error_map, Hw. cbn [option_map]. f_equal.
           unfold absw. cbn [w_todo w_pend p_stage]. rewrite Hp, Hs. reflexivity.
        -- f_equal. symmetry. apply (existsb_set_nth_same postpush i w _ _ Hw). unfold postpush. cbn [w_pend p_stage]. rewrite Hp, Hs. reflexivity.
    + (* the push *)
      eexists. split; [reflexivity|]. split.
      * unfold Inv. cbn [istore iws iN]. split; [exact HE|]. split.
        -- intros j e t dl n Hn Hv. apply (new_inv_ext st); [reflexivity| |apply (HN j e t dl n Hn Hv)]. cbn [iws].
           rewrite Eset, Ews, !waiting_split. f_equal. f_equal. unfold waits. cbn [w_pend p_stage p_fact]. rewrite Hp, Hs.
           rewrite existsb_others, <- in_others_erase, HE, in_others_erase. reflexivity.
        -- intros w' p' row' lft' Hin' Hp' Hs'. rewrite Eset in Hin'. apply in_app_or in Hin' as [Hin'|[<-|Hin']].
           ++ apply (HP w' p' row' lft'); [rewrite Ews; apply in_or_app; left; exact Hin'|exact Hp'|exact Hs'].
           ++ cbn [w_pend] in Hp'. injection Hp' as <-. cbn [p_stage] in Hs'. injection Hs' as <- <-. cbn [p_fact]. split.
              ** unfold others_of. apply NoDup_filter. apply seq_NoDup.
              ** intros j Hj. unfold others_of in Hj. apply filter_In in Hj as [_ Hj].
                 rewrite <- in_others_erase, HE, in_others_erase in Hj. exact Hj.
           ++ apply (HP w' p' row' lft'); [rewrite Ews; apply in_or_app; right; right; exact Hin'|exact Hp'|exact Hs'].
      * unfold step_worker. rewrite Habsw. unfold absw at 1. cbn [pending w_pend]. rewrite Hp, Hs.
        apply abs_eq; cbn [abs_state pN pR pws pchanged todo]; try reflexivity.
        -- rewrite map_set_nth. f_equal.
        -- symmetry. rewrite existsb_set_nth_true with (x := w); [apply orb_true_r|exact Hw|reflexivity].
  - destruct (w_todo w) as [|f rest] eqn:Ht.
    + exists st. split; [reflexivity|]. split; [exact Hinv|reflexivity].
    + (* frozen reads of total and delta, then insert_if_not_present on the full index of new *)
      assert (Hff : find_pos (is_full_of (fst f)) s0 <> None) by (apply (HT w f rest Hw Hp Ht)).
      rewrite <- find_full_erase, HE, find_full_erase.
      destruct (find_pos (is_full_of (fst f)) s0) as [j0|] eqn:Hfp; [|congruence].
      destruct (find_pos_some _ _ _ Hfp) as [[e0 [Hn0 Hfull0]] _].
      destruct (store_nth0 st j0 e0 HE Hn0) as [e [Hne Hee]]. rewrite Hne.
      assert (Hfull : is_full_of (fst f) e = true) by (rewrite <- is_full_of_erase, Hee, is_full_of_erase; exact Hfull0).
      unfold is_full_of in Hfull. apply andb_true_iff in Hfull as [Hfull Hdyn]. apply andb_true_iff in Hfull as [Hrel Hfl].
      apply Nat.eqb_eq in Hrel. apply kind_full_isfull in Hfl.
      unfold e_isdyn in Hdyn. destruct (s_v e) as [t dl n|] eqn:Hv; [|discriminate].
      destruct (erase_eq_inv _ _ Hee) as [Hd [Hdynv _]]. destruct (Hdynv t dl n Hv) as [n00 Hv0].
      destruct (Hctx j0 e0 t dl n00 Hn0 Hv0) as [[At [Bt Ct]] [Ad [Bd Cd]]]. rewrite <- Hd in At, Ct, Ad, Cd.
      destruct (HN j0 e t dl n Hne Hv) as [An [Bn Cn]]. rewrite Hfl in Cn.
      rewrite (xcontains_spec hash enc enc_inj nsh nsh_pos pool (s_d e) (snd f) t _ Hfl At Bt Ct). cbn [rbind IndexModel.bind].
      destruct f as [r tup]. cbn [fst snd] in *. subst r.
      assert (HmT : mem_fact (x_rel (s_d e), tup) T = mem_tuple tup (db_of T (x_rel (s_d e)))) by apply mem_fact_db.
      assert (HmD : mem_fact (x_rel (s_d e), tup) D = mem_tuple tup (db_of D (x_rel (s_d e)))) by apply mem_fact_db.
      assert (HmN : mem_fact (x_rel (s_d e), tup) (iN st) = mem_tuple tup (db_of (iN st) (x_rel (s_d e)))) by apply mem_fact_db.
      (* the invariant after a step that leaves the worker without a pending update and the ghost unchanged *)
      assert (Hskip : forall s', map erase s' = map erase s0 ->
                (forall j e' t' dl' n', nth_error s' j = Some e' -> s_v e' = SDyn t' dl' n' -> new_inv st j (s_d e') n') ->
                Inv {| iN := iN st; iR := iR st; istore := s'; iws := set_nth i {| w_todo := rest; w_pend := None |} (iws st); ichanged := ichanged st |}).
      { intros s' HE' HN'. unfold Inv. cbn [istore iws iN]. split; [exact HE'|]. split.
        - intros j e' t' dl' n' Hn Hv'. apply (new_inv_ext st); [reflexivity| |apply (HN' j e' t' dl' n' Hn Hv')]. cbn [iws].
          rewrite Eset, Ews, !waiting_split. f_equal. f_equal. unfold waits. cbn [w_pend]. rewrite Hp. reflexivity.
        - intros w' p' row' lft' Hin' Hp' Hs'. rewrite Eset in Hin'. apply in_app_or in Hin' as [Hin'|[<-|Hin']].
          + apply (HP w' p' row' lft'); [rewrite Ews; apply in_or_app; left; exact Hin'|exact Hp'|exact Hs'].
          + cbn [w_pend] in Hp'. discriminate.
          + apply (HP w' p' row' lft'); [rewrite Ews; apply in_or_app; right; right; exact Hin'|exact Hp'|exact Hs']. }
      assert (Habs_skip : forall s', abs_state {| iN := iN st; iR := iR st; istore := s'; iws := set_nth i {| w_todo := rest; w_pend := None |} (iws st); ichanged := ichanged st |}
                = {| pN := iN st; pR := iR st; pws := set_nth i {| todo := rest; pending := None |} (map absw (iws st)); pchanged := pchanged (abs_state st) |}).
      { intros s'. apply abs_eq; cbn [pN pR pws pchanged abs_state]; try reflexivity.
        - rewrite map_set_nth. reflexivity.
        - f_equal. symmetry. apply (existsb_set_nth_same postpush i w _ _ Hw). unfold postpush. cbn [w_pend]. rewrite Hp. reflexivity. }
      unfold step_worker. rewrite Habsw. cbn [absw pending todo]. rewrite Hp, Ht.
      cbn [abs_state pN pR pws pchanged]. rewrite HmT, HmD.
      destruct (mem_tuple tup (db_of T (x_rel (s_d e)))) eqn:MT; cbn [orb].
      { eexists. split; [reflexivity|]. split; [apply Hskip; [exact HE|exact HN]|apply Habs_skip]. }
      rewrite (xcontains_spec hash enc enc_inj nsh nsh_pos pool (s_d e) tup dl _ Hfl Ad Bd Cd). cbn [rbind IndexModel.bind].
      destruct (mem_tuple tup (db_of D (x_rel (s_d e)))) eqn:MD; cbn [orb].
      { eexists. split; [reflexivity|]. split; [apply Hskip; [exact HE|exact HN]|apply Habs_skip]. }
      destruct (xinsert_np_spec hash enc enc_inj nsh nsh_pos pool (s_d e) tup n _ Hfl An Bn Cn) as [n' [En [An' [Bn' Cn']]]].
      rewrite En. cbn [rbind IndexModel.bind fst snd]. rewrite HmN.
      assert (HE' : map erase (store_set_new (istore st) j0 n') = map erase s0).
      { unfold store_set_new. rewrite map_upd_nth_same; [exact HE|apply erase_set_new]. }
      destruct (mem_tuple tup (db_of (iN st) (x_rel (s_d e)))) eqn:MN; cbn [negb].
      * (* another insert won: the set is unchanged *)
        eexists. split; [reflexivity|]. split; [|apply Habs_skip]. apply Hskip; [exact HE'|].
        intros j e' t' dl' n'' Hn Hv'. unfold store_set_new in Hn. rewrite nth_error_upd_nth in Hn.
        destruct (Nat.eqb_spec j0 j) as [<-|Hne'].
        -- rewrite Hne in Hn. cbn [option_map] in Hn. injection Hn as <-. unfold set_new in Hv'. rewrite Hv in Hv'.
           cbn [s_v] in Hv'. injection Hv' as <- <- <-. unfold set_new. rewrite Hv. cbn [s_d].
           split; [exact An'|]. split; [exact Bn'|]. rewrite Hfl.
           apply (xden_full_ext (s_d e) n' (db_of (iN st) (x_rel (s_d e)) ++ [tup]) (db_of (iN st) (x_rel (s_d e))) Hfl An'); [|exact Cn'].
           intros x. rewrite in_app_iff. split; [intros [H|[<-|[]]]; [exact H|apply mem_tuple_In; exact MN]|intros H; left; exact H].
        -- apply (HN j e' t' dl' n'' Hn Hv').
      * (* the insert succeeded *)
        eexists. split; [reflexivity|]. split.
        -- unfold Inv. cbn [istore iws iN]. split; [exact HE'|]. split.
           ++ intros j e' t' dl' n'' Hn Hv'. unfold new_inv. cbn [iN iws]. unfold store_set_new in Hn. rewrite nth_error_upd_nth in Hn.
              destruct (Nat.eqb_spec j0 j) as [<-|Hne'].
              ** rewrite Hne in Hn. cbn [option_map] in Hn. injection Hn as <-. unfold set_new in Hv'. rewrite Hv in Hv'.
                 cbn [s_v] in Hv'. injection Hv' as <- <- <-. unfold set_new. rewrite Hv. cbn [s_d].
                 split; [exact An'|]. split; [exact Bn'|]. rewrite Hfl. rewrite db_of_app, db_of_one, Nat.eqb_refl. exact Cn'.
              ** destruct (HN j e' t' dl' n'' Hn Hv') as [A2 [B2 C2]]. split; [exact A2|]. split; [exact B2|].
                 destruct (store_nth st j e' HE Hn) as [e0' [Hn0' Hee']].
                 rewrite db_of_app, db_of_one.
                 assert (Hws : waiting j (set_nth i {| w_todo := rest; w_pend := Some {| p_fact := (x_rel (s_d e), tup); p_stage := None |} |} (iws st))
                               = waiting j l1 ++ (if in_others s0 (x_rel (s_d e)) j then [tup] else []) ++ waiting j l2).
                 { rewrite Eset, waiting_split. reflexivity. }
                 assert (Hws0 : waiting j (iws st) = waiting j l1 ++ waiting j l2).
                 { rewrite Ews, waiting_split. unfold waits. rewrite Hp. reflexivity. }
                 rewrite Hws. rewrite Hws0 in C2.
                 assert (Hio : in_others s0 (x_rel (s_d e)) j = is_other_of (x_rel (s_d e)) e').
                 { unfold in_others. rewrite Hn0'. destruct (erase_dyn _ _ Hee') as [_ [_ G]]. symmetry. apply G. }
                 rewrite Hio. unfold is_other_of.
                 assert (Hdy' : e_isdyn e' = true) by (unfold e_isdyn; rewrite Hv'; reflexivity). rewrite Hdy', andb_true_r.
                 destruct (x_kind (s_d e')) eqn:K'.
                 --- (* another full index: of another relation *)
                     destruct (Nat.eqb_spec (x_rel (s_d e)) (x_rel (s_d e'))) as [Er|Nr]; [|rewrite app_nil_r; exact C2].
                     exfalso. apply Hne'.
                     assert (Hf0' : is_full_of (x_rel (s_d e)) e0' = true).
                     { rewrite <- is_full_of_erase, <- Hee', is_full_of_erase. unfold is_full_of. rewrite Er, Nat.eqb_refl, Hdy'.
                       assert (X : e_isfull e' = true) by (apply kind_full_isfull; exact K'). rewrite X. reflexivity. }
                     pose proof (Hfu j e0' (x_rel (s_d e)) Hn0' Hf0') as G. rewrite Hfp in G. congruence.
                 --- assert (X : e_isfull e' = false) by (unfold e_isfull; rewrite K'; reflexivity). rewrite X. cbn [negb]. rewrite andb_true_r.
                     destruct C2 as [L' [C21 C22]]. exists L'. split; [exact C21|].
                     rewrite (Nat.eqb_sym (x_rel (s_d e')) (x_rel (s_d e))).
                     destruct (Nat.eqb (x_rel (s_d e)) (x_rel (s_d e'))); [|rewrite app_nil_r; exact C22].
                     rewrite C22. rewrite <- !app_assoc. apply Permutation_app_head. apply Permutation_app_head.
                     cbn [app]. apply Permutation_sym. apply Permutation_cons_append.
                 --- assert (X : e_isfull e' = false) by (unfold e_isfull; rewrite K'; reflexivity). rewrite X. cbn [negb]. rewrite andb_true_r.
                     destruct C2 as [L' [C21 C22]]. exists L'. split; [exact C21|].
                     rewrite (Nat.eqb_sym (x_rel (s_d e')) (x_rel (s_d e))).
                     destruct (Nat.eqb (x_rel (s_d e)) (x_rel (s_d e'))); [|rewrite app_nil_r; exact C22].
                     rewrite C22. rewrite <- !app_assoc. apply Permutation_app_head. apply Permutation_app_head.
                     cbn [app]. apply Permutation_sym. apply Permutation_cons_append.
           ++ intros w' p' row' lft' Hin' Hp' Hs'. rewrite Eset in Hin'. apply in_app_or in Hin' as [Hin'|[<-|Hin']].
              ** apply (HP w' p' row' lft'); [rewrite Ews; apply in_or_app; left; exact Hin'|exact Hp'|exact Hs'].
              ** cbn [w_pend] in Hp'. injection Hp' as <-. cbn [p_stage] in Hs'. discriminate.
              ** apply (HP w' p' row' lft'); [rewrite Ews; apply in_or_app; right; right; exact Hin'|exact Hp'|exact Hs'].
        -- apply abs_eq; cbn [pN pR pws pchanged abs_state]; try reflexivity.
           ++ rewrite map_set_nth. reflexivity.
           ++ f_equal. symmetry. apply (existsb_set_nth_same postpush i w _ _ Hw). unfold postpush. cbn [w_pend p_stage]. rewrite Hp. reflexivity.
Qed.
(* ---------- a whole schedule ---------- *)
(* the ParStep schedule a fine schedule corresponds to: the steps ParStep does not perform separately are dropped *)
Fixpoint coarsen (st : istate) (sched : list (nat * nat)) : list nat :=
  match sched with
  | [] => []
  | it :: r => match istep st it with
               | Ok st' => (if visible st (fst it) then [fst it] else []) ++ coarsen st' r
               | _ => []
               end
  end.

Lemma irun_not_ok : forall sched r, (forall st, r <> Ok st) ->
  forall st', fold_left (fun r it => rbind r (fun s => istep s it)) sched r <> Ok st'.
Proof.
  induction sched as [|it sched IH]; intros r H st'; cbn [fold_left]; [apply H|]. apply IH. intros st.
  destruct r as [x| |]; cbn; [exfalso; apply (H x); reflexivity|discriminate|discriminate].
Qed.

Lemma head_ok_of_ok st i tid st' : map erase (istore st) = map erase s0 -> istep st (i, tid) = Ok st' -> head_ok st i.
Proof.
  intros HE E w f rest Hw Hp Ht Hnone. unfold ParIndexedModel.istep in E. cbn [fst snd] in E. rewrite Hw, Hp, Ht in E.
  rewrite <- find_full_erase, HE, find_full_erase, Hnone in E. discriminate.
Qed.

Lemma run_sched_cons st i sched : run_sched T D st (i :: sched) = run_sched T D (step_worker T D st i) sched.
Proof. reflexivity. Qed.

(* partial correctness: a schedule that ran to the end without an error *)
Theorem irun_sim_ok : forall sched st st', tids_ok pool sched -> Inv st -> irun st sched = Ok st' ->
  Inv st' /\ abs_state st' = run_sched T D (abs_state st) (coarsen st sched)
  /\ (forall f, In f (iN st') -> In f (iN st) \/ find_pos (is_full_of (fst f)) s0 <> None).
Proof.
  induction sched as [|[i tid] sched IH]; intros st st' Htid Hinv E.
  - cbn in E. injection E as <-. split; [exact Hinv|]. split; [reflexivity|]. intros f Hf. left. exact Hf.
  - destruct (istep st (i, tid)) as [st1| |] eqn:E1.
    + rewrite (irun_cons _ _ _ _ _ _ _ E1) in E.
      assert (Ht : tid < Nat.max pool 1) by (apply (Htid (i, tid)); left; reflexivity).
      destruct (istep_sim st i tid Hinv Ht (head_ok_of_ok st i tid st1 (proj1 Hinv) E1)) as [st1' [E1' [Hinv1 Habs1]]].
      rewrite E1 in E1'. injection E1' as <-.
      destruct (IH st1 st' (fun it H => Htid it (or_intror H)) Hinv1 E) as [Hinv' [Habs' HN']]. split; [exact Hinv'|]. split.
      * cbn [coarsen]. rewrite E1. cbn [fst]. rewrite Habs', Habs1. destruct (visible st i); reflexivity.
      * intros f Hf. destruct (HN' f Hf) as [Hf1|Hok]; [|right; exact Hok].
        destruct (istep_iN _ _ _ _ _ _ E1) as [EN|[g [j [EN Hg]]]]; rewrite EN in Hf1; [left; exact Hf1|].
        apply in_app_or in Hf1 as [Hf1|[<-|[]]]; [left; exact Hf1|]. right.
        rewrite <- find_full_erase, <- (proj1 Hinv), find_full_erase, Hg. discriminate.
    + exfalso. unfold ParIndexedModel.irun in E. cbn [fold_left rbind IndexModel.bind] in E. rewrite E1 in E.
      revert E. apply irun_not_ok. intros; discriminate.
    + exfalso. unfold ParIndexedModel.irun in E. cbn [fold_left rbind IndexModel.bind] in E. rewrite E1 in E.
      revert E. apply irun_not_ok. intros; discriminate.
Qed.

(* totality: EVERY schedule whose thread indices are below the size of the run pool runs without an error, provided every
   head fact belongs to a relation with a full index variable (what the macro guarantees: heads are dynamic) *)
Theorem irun_sim_total R all : (forall f, In f all -> find_pos (is_full_of (fst f)) s0 <> None) ->
  forall sched st, tids_ok pool sched -> Inv st -> SInv T D R all (abs_state st) ->
  exists st', irun st sched = Ok st' /\ Inv st' /\ SInv T D R all (abs_state st') /\
              abs_state st' = run_sched T D (abs_state st) (coarsen st sched).
Proof.
  intros Hall. induction sched as [|[i tid] sched IH]; intros st Htid Hinv HS.
  - exists st. split; [reflexivity|]. split; [exact Hinv|]. split; [exact HS|reflexivity].
  - assert (Ht : tid < Nat.max pool 1) by (apply (Htid (i, tid)); left; reflexivity).
    assert (Hh : head_ok st i).
    { intros w f rest Hw Hp Htd. apply Hall. destruct HS as [_ [_ [_ [Hincl _]]]]. apply Hincl. unfold todos. apply in_flat_map.
      exists (absw w). split; [cbn [abs_state pws]; apply in_map; eapply nth_error_In; exact Hw|]. cbn [absw todo]. rewrite Htd. left. reflexivity. }
    destruct (istep_sim st i tid Hinv Ht Hh) as [st1 [E1 [Hinv1 Habs1]]].
    assert (HS1 : SInv T D R all (abs_state st1)).
    { rewrite Habs1. destruct (visible st i); [apply step_worker_inv; exact HS|exact HS]. }
    destruct (IH st1 (fun it H => Htid it (or_intror H)) Hinv1 HS1) as [st' [E [Hinv' [HS' Habs']]]].
    exists st'. split; [rewrite (irun_cons _ _ _ _ _ _ _ E1); exact E|]. split; [exact Hinv'|]. split; [exact HS'|].
    cbn [coarsen]. rewrite E1. cbn [fst]. rewrite Habs', Habs1. destruct (visible st i); reflexivity.
Qed.

(* ---------- quiescence ---------- *)
Lemma ifinished_abs st : ifinished st = true ->
  finished (abs_state st) = true /\ existsb postpush (iws st) = false /\ forall j, waiting j (iws st) = [].
Proof.
  unfold ifinished, finished. cbn [abs_state pws]. induction (iws st) as [|w ws IH]; intros H; [repeat split; reflexivity|].
  cbn [forallb] in H. apply andb_true_iff in H as [Hw H]. destruct (IH H) as [I1 [I2 I3]].
  unfold iworker_done in Hw. destruct (w_todo w) eqn:Ht; [|discriminate]. destruct (w_pend w) eqn:Hp; [discriminate|].
  cbn [map forallb existsb]. split; [|split].
  - rewrite I1. unfold worker_done, absw. cbn [todo pending]. rewrite Ht, Hp. reflexivity.
  - rewrite I2. unfold postpush. rewrite Hp. reflexivity.
  - intros j. unfold waiting. cbn [flat_map]. fold (waiting j ws). rewrite I3. unfold waits. rewrite Hp. reflexivity.
Qed.

(* at quiescence every index variable of new denotes exactly the facts added in this iteration: lock-step *)
Lemma new_inv_finished st j d n : (forall j, waiting j (iws st) = []) -> new_inv st j d n ->
  xshape d n /\ xflag n = false /\ xden d n (db_of (iN st) (x_rel d)).
Proof.
  intros Hw [A [B C]]. split; [exact A|]. split; [exact B|]. destruct (x_kind d); [exact C| |];
    destruct C as [L' [C1 C2]]; rewrite Hw, app_nil_r in C2; apply (xden_perm hash enc d n L' _ (Permutation_sym C2) C1).
Qed.

(* ---------- the initial state of an iteration ---------- *)
Lemma abs_init R work : abs_state (iinit R s0 work) = par_init R work.
Proof.
  unfold abs_state, iinit, par_init. cbn [iN iR iws ichanged]. f_equal.
  - rewrite map_map. reflexivity.
  - induction work as [|l work IH]; [reflexivity|]. cbn [map existsb]. exact IH.
Qed.

Lemma inv_init R work :
  (forall j e t dl n, nth_error s0 j = Some e -> s_v e = SDyn t dl n -> xshape (s_d e) n /\ xflag n = false /\ xden (s_d e) n []) ->
  Inv (iinit R s0 work).
Proof.
  intros Hn. unfold Inv, iinit. cbn [istore iws iN]. split; [reflexivity|]. split.
  - intros j e t dl n Hj Hv. destruct (Hn j e t dl n Hj Hv) as [A [B C]]. unfold new_inv. cbn [iN iws]. split; [exact A|]. split; [exact B|].
    assert (Hw : waiting j (map (fun l => {| w_todo := l; w_pend := None |}) work) = []).
    { induction work as [|l work IH]; [reflexivity|]. cbn [map]. unfold waiting in *. cbn [flat_map]. rewrite IH. reflexivity. }
    rewrite Hw. destruct (x_kind (s_d e)); [exact C|exists []; split; [exact C|constructor]|exists []; split; [exact C|constructor]].
  - intros w p row lft Hin Hp. apply in_map_iff in Hin as [l [<- _]]. discriminate.
Qed.
End Iter.
