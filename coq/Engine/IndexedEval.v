(* Executable model of the generated evaluation code WITH PER-INDEX STATE (serial relations, default
   data structure provider; no lattices, no BYODS).  Engine/Eval.v keeps one multiset per relation and
   version and reads every index as a view of it; here every physical index the macro plans for a
   relation (one per distinct column set used by a clause or an aggregate, plus the full index) has its
   own stored copy in the program value and its own total / delta / new contents inside an SCC, and the
   generated code paths write each of them separately, as ascent_macro/src/ascent_codegen.rs does:

     compile_update_indices_function_body   every index field := Default; every row inserted into every index
     compile_mir_scc                        dynamic relations: delta := take(field), total := new := Default;
                                            body-only relations: total := take(field);
                                            per index merge_delta_to_total_new_to_delta; field := total
     head_update_code                       contains_key on the FULL index total, then delta;
                                            insert_if_not_present on the full index new; push the row;
                                            index_insert into every other index of new; changed := true
     compile_mir_rule_inner                 every clause (and aggregate) reads through ITS OWN index

   Content of an index (ascent/src/internal.rs): RelIndexType1<K, V> = HashMap<K, Vec<V>> is the list of its
   entries (key, tuple) in insertion order (MultiMap.mmap with list keys; index_get = the entries under the
   key, iter_all = every entry once); RelFullIndexType<K, ()> is a set of keys (an entry (k, k): the tuple
   is rebuilt from the key).  The serial no-index `[]` is the first kind with the unit key.  As in
   Engine/Eval.v, hash-map iteration order is not modelled (entries are kept in insertion order; the
   swap-on-size of move_index_contents changes only that order, C19) and the len_estimate comparison of a
   reorderable simple join is the same oracle, applied to the tuples held by the two indices read.

   [faults] injects the two code changes the lock-step argument excludes (used by the _refuted examples
   only; run_plan_idx is the fault-free instance).  No proofs in this file. *)
From Coq Require Import List ZArith Bool Arith.
From AV Require Import Engine.Core Engine.Sem Engine.Eval.
Import ListNotations.
Open Scope Z_scope.

(* ---------- one physical index ---------- *)
Definition ients := list (list Z * tuple).

Definition key_eqb (k : list Z) (e : list Z * tuple) : bool := zlist_eqb (fst e) k.
Definition ix_has (k : list Z) (es : ients) : bool := existsb (key_eqb k) es.          (* contains_key *)
Definition ix_get (k : list Z) (es : ients) : list tuple := map snd (filter (key_eqb k) es).   (* index_get *)
Definition ix_all (es : ients) : list tuple := map snd es.                               (* iter_all, flattened *)
Definition ix_empty (es : ients) : bool := match es with [] => true | _ => false end.   (* is_empty *)
(* RelIndexWrite::index_insert: hash index = push under the key; full index = HashMap::insert of (key, ()) *)
Definition ix_insert (full : bool) (k : list Z) (t : tuple) (es : ients) : ients :=
  if full then (if ix_has k es then es else es ++ [(k, k)]) else es ++ [(k, t)].
(* RelIndexMerge::move_index_contents(from, to) *)
Definition ix_move (full : bool) (from to : ients) : ients :=
  if full then fold_left (fun acc e => ix_insert true (fst e) (snd e) acc) from to else to ++ from.
(* len_estimate = HashMap::len: number of keys *)
Fixpoint distinct_keys (es : ients) : list (list Z) :=
  match es with [] => [] | e :: r => if ix_has (fst e) r then distinct_keys r else fst e :: distinct_keys r end.
Definition ix_len (es : ients) : nat := length (distinct_keys es).

Fixpoint cols_eqb (a b : list nat) : bool :=
  match a, b with [], [] => true | x :: a', y :: b' => Nat.eqb x y && cols_eqb a' b' | _, _ => false end.

(* a stored index field of the program value, and the three variables of an index inside an SCC *)
Record pidx := { p_rel : rel; p_arity : nat; p_cols : list nat; p_ents : ients }.
Record lidx := { l_rel : rel; l_arity : nat; l_cols : list nat; l_tot : ients; l_del : ients; l_new : ients }.
Definition is_full (arity : nat) (cols : list nat) : bool := Nat.eqb (length cols) arity.   (* IrRelation::is_full_index *)

Record istate := { irows : list fact; istored : list pidx }.

(* the two excluded code changes: head update skips the insertion into index (r, cols) of new;
   update_indices does not reset index (r, cols) *)
Record faults := { f_skip : rel -> list nat -> bool; f_noclear : rel -> list nat -> bool }.
Definition no_faults : faults := {| f_skip := fun _ _ => false; f_noclear := fun _ _ => false |}.

Section IEval.
Variable I : interp.
Variable swap_oracle : list tuple -> list tuple -> bool.
Variable flt : faults.

(* ---------- reads ---------- *)
Definition l_is (r : rel) (cols : list nat) (l : lidx) : bool := Nat.eqb (l_rel l) r && cols_eqb (l_cols l) cols.
Definition find_idx (store : list lidx) (r : rel) (cols : list nat) : option lidx := find (l_is r cols) store.

(* expr_for_rel: <ir_name>_total / _delta / RelIndexCombined(total, delta); a relation that is not dynamic
   in the SCC only has its total variable *)
Definition l_ver (dyn : list rel) (l : lidx) (v : version) : ients :=
  if is_dyn dyn (l_rel l) then
    match v with VTotal => l_tot l | VDelta => l_del l | VTotalDelta => l_tot l ++ l_del l end
  else l_tot l.

Section Items.
Variable store : list lidx.
Variable dyn : list rel.

Definition cents (r : rel) (idx : list nat) (ver : version) : ients :=
  match find_idx store r idx with Some l => l_ver dyn l ver | None => [] end.

Definition eval_clause_idx_i (k : env -> list env) (e : env) r args cs idx ver : list env :=
  match eval_key I e args idx with
  | None => []
  | Some key =>
      flat_map (fun tup => match sat_conds I (bind_new e args tup) cs with Some e2 => k e2 | None => [] end)
               (ix_get key (cents r idx ver))
  end.

(* first clause of a simple join: iter_all over the clause's own index *)
Definition eval_clause_all_i (k : env -> list env) (e : env) r args cs idx ver : list env :=
  flat_map (fun tup => match sat_conds I (bind_new e args tup) cs with Some e2 => k e2 | None => [] end)
           (ix_all (cents r idx ver)).

Fixpoint eval_items_i (items : list pitem) (e : env) : list env :=
  match items with
  | [] => [e]
  | PClause r args cs idx ver :: rest => eval_clause_idx_i (eval_items_i rest) e r args cs idx ver
  | PCond c :: rest => match sat_cond I e c with Some e' => eval_items_i rest e' | None => [] end
  | PGen x g xs :: rest =>
      match eval_vars e xs with
      | Some vs => flat_map (fun v => eval_items_i rest (bind x v e)) (gint I g vs)
      | None => [] end
  | PAgg out a bound r args idx :: rest =>
      match agg_key I e args idx with
      | None => []
      | Some key =>
          let matching := ix_get key (cents r idx VTotal) in
          flat_map (fun v => eval_items_i rest (bind_out out v e)) (aint I a (map (Sem.agg_input bound args) matching))
      end
  end.

Definition eval_simple_join_i (items : list pitem) (reord : bool) (e : env) : list env :=
  match items with
  | PClause r1 a1 c1 i1 v1 :: PClause r2 a2 c2 i2 v2 :: rest =>
      if reord && negb (swap_oracle (ix_all (cents r1 i1 v1)) (ix_all (cents r2 i2 v2))) then
        eval_clause_all_i (fun e1 => eval_clause_idx_i (eval_items_i rest) e1 r1 a1 c1 i1 v1) e r2 a2 c2 i2 v2
      else
        eval_clause_all_i (fun e1 => eval_clause_idx_i (eval_items_i rest) e1 r2 a2 c2 i2 v2) e r1 a1 c1 i1 v1
  | _ => eval_items_i items e
  end.

Fixpoint eval_from_i (items : list pitem) (sj : option nat) (reord : bool) (e : env) : list env :=
  match sj with
  | None => eval_items_i items e
  | Some O => eval_simple_join_i items reord e
  | Some (S n) =>
      match items with
      | [] => [e]
      | PCond c :: rest => match sat_cond I e c with Some e' => eval_from_i rest (Some n) reord e' | None => [] end
      | PGen x g xs :: rest =>
          match eval_vars e xs with
          | Some vs => flat_map (fun v => eval_from_i rest (Some n) reord (bind x v e)) (gint I g vs)
          | None => [] end
      | PAgg out a bound r args idx :: rest =>
          match agg_key I e args idx with
          | None => []
          | Some key =>
              let matching := ix_get key (cents r idx VTotal) in
              flat_map (fun v => eval_from_i rest (Some n) reord (bind_out out v e))
                       (aint I a (map (Sem.agg_input bound args) matching))
          end
      | PClause r args cs idx ver :: rest =>
          eval_clause_idx_i (eval_from_i rest (Some n) reord) e r args cs idx ver
      end
  end.

Definition clause_empty_i (p : pitem) : bool :=
  match p with PClause r _ _ idx ver => ix_empty (cents r idx ver) | _ => false end.

Definition eval_variant_i (v : variant) : list fact :=
  let ncl := length (filter is_clause (v_items v)) in
  let can_help := Nat.ltb 1 ncl && negb (match v_sj v with Some _ => Nat.eqb ncl 2 | None => false end) in
  if can_help && existsb clause_empty_i (v_items v) then []
  else flat_map (fun e => filter_map (eval_head I e) (v_heads v)) (eval_from_i (v_items v) (v_sj v) (v_reord v) []).
End Items.

(* ---------- writes ---------- *)
(* key under which a row enters an index: the full index is keyed by the row itself (insert_if_not_present(&__new_row)),
   the others by the selected columns (__new_row.i for i in the index) *)
Definition new_key (l : lidx) (t : tuple) : list Z := if is_full (l_arity l) (l_cols l) then t else proj (l_cols l) t.
Definition insert_new (l : lidx) (t : tuple) : lidx :=
  {| l_rel := l_rel l; l_arity := l_arity l; l_cols := l_cols l; l_tot := l_tot l; l_del := l_del l;
     l_new := ix_insert (is_full (l_arity l) (l_cols l)) (new_key l t) t (l_new l) |}.

Definition full_of (store : list lidx) (r : rel) : option lidx :=
  find (fun l => Nat.eqb (l_rel l) r && is_full (l_arity l) (l_cols l)) store.

(* head_update_code for a relation head; acc = (SCC-local indices, rows, __changed) *)
Definition head_update_i (acc : list lidx * list fact * bool) (f : fact) : list lidx * list fact * bool :=
  let '(store, R, ch) := acc in
  match full_of store (fst f) with
  | None => acc                                   (* no such variable: the generated code would not compile *)
  | Some lf =>
      if ix_has (snd f) (l_tot lf) || ix_has (snd f) (l_del lf) then acc
      else if ix_has (snd f) (l_new lf) then acc
      else (map (fun l => if Nat.eqb (l_rel l) (fst f) && negb (f_skip flt (l_rel l) (l_cols l)) then insert_new l (snd f) else l) store,
            R ++ [f], true)
  end.

Definition scc_iteration_i (sc : pscc) (store : list lidx) (R : list fact) : list lidx * list fact * bool :=
  fold_left (fun acc v => fold_left head_update_i (eval_variant_i (fst (fst acc)) (s_dyn sc) v) acc)
            (s_vars sc) (store, R, false).

(* RelIndexMerge::merge_delta_to_total_new_to_delta, emitted for every index of a dynamic relation *)
Definition merge_l (dyn : list rel) (l : lidx) : lidx :=
  if is_dyn dyn (l_rel l) then
    {| l_rel := l_rel l; l_arity := l_arity l; l_cols := l_cols l;
       l_tot := ix_move (is_full (l_arity l) (l_cols l)) (l_del l) (l_tot l); l_del := l_new l; l_new := [] |}
  else l.

Fixpoint scc_loop_i (fuel : nat) (sc : pscc) (store : list lidx) (R : list fact) : option (list lidx * list fact) :=
  match fuel with
  | O => None
  | S n => let '(store1, R1, ch) := scc_iteration_i sc store R in
           let store2 := map (merge_l (s_dyn sc)) store1 in
           if ch then scc_loop_i n sc store2 R1 else Some (store2, R1)
  end.

Definition enter_scc (dyn : list rel) (p : pidx) : lidx :=
  if is_dyn dyn (p_rel p) then
    {| l_rel := p_rel p; l_arity := p_arity p; l_cols := p_cols p; l_tot := []; l_del := p_ents p; l_new := [] |}
  else
    {| l_rel := p_rel p; l_arity := p_arity p; l_cols := p_cols p; l_tot := p_ents p; l_del := []; l_new := [] |}.
Definition leave_scc (l : lidx) : pidx :=
  {| p_rel := l_rel l; p_arity := l_arity l; p_cols := l_cols l; p_ents := l_tot l |}.

Definition run_scc_i (fuel : nat) (sc : pscc) (st : istate) : option istate :=
  let store0 := map (enter_scc (s_dyn sc)) (istored st) in
  if s_loop sc then
    match scc_loop_i fuel sc store0 (irows st) with
    | Some (store, R) => Some {| irows := R; istored := map leave_scc store |}
    | None => None
    end
  else
    let '(store1, R, _) := scc_iteration_i sc store0 (irows st) in
    let store2 := map (merge_l (s_dyn sc)) (map (merge_l (s_dyn sc)) store1) in
    Some {| irows := R; istored := map leave_scc store2 |}.

Fixpoint run_sccs_i (fuel : nat) (pl : plan) (st : istate) : option istate :=
  match pl with
  | [] => Some st
  | sc :: pl' => match run_scc_i fuel sc st with Some st' => run_sccs_i fuel pl' st' | None => None end
  end.

(* the index built by inserting the tuples one after the other *)
Definition build_from (arity : nat) (cols : list nat) (ts : list tuple) (es : ients) : ients :=
  fold_left (fun es t => ix_insert (is_full arity cols) (proj cols t) t es) ts es.
Definition build_index (arity : nat) (cols : list nat) (ts : list tuple) : ients := build_from arity cols ts [].

(* update_indices_priv: every index field := Default::default(), then every row into every index of its relation *)
Definition update_indices_i (st : istate) : istate :=
  {| irows := irows st;
     istored := map (fun p => {| p_rel := p_rel p; p_arity := p_arity p; p_cols := p_cols p;
                                 p_ents := build_from (p_arity p) (p_cols p) (db_of (irows st) (p_rel p))
                                             (if f_noclear flt (p_rel p) (p_cols p) then p_ents p else []) |})
                    (istored st) |}.

Definition run_plan_i (fuel : nat) (pl : plan) (st : istate) : option istate := run_sccs_i fuel pl (update_indices_i st).
End IEval.

(* ---------- the fault-free model ---------- *)
Definition idecl := (rel * nat * list nat)%type.     (* relation, arity, index columns *)
Definition init_istate (decls : list idecl) (F0 : list fact) : istate :=
  {| irows := F0;
     istored := map (fun d => {| p_rel := fst (fst d); p_arity := snd (fst d); p_cols := snd d; p_ents := [] |}) decls |}.
Definition push_facts_i (fs : list fact) (st : istate) : istate := {| irows := irows st ++ fs; istored := istored st |}.

Definition run_plan_idx (I : interp) (swap : list tuple -> list tuple -> bool) (fuel : nat) (pl : plan) (st : istate) : option istate :=
  run_plan_i I swap no_faults fuel pl st.

(* ---------- well-formedness of a plan with respect to the declared indices (executable; evaluated by the tie
   on every dumped plan) ---------- *)
Definition declared (decls : list idecl) (r : rel) (arity : nat) (cols : list nat) : bool :=
  existsb (fun d => Nat.eqb (fst (fst d)) r && Nat.eqb (snd (fst d)) arity && cols_eqb (snd d) cols) decls.
Definition decl_ok (decls : list idecl) (d : idecl) : bool :=
  let '(r, a, cols) := d in
  declared decls r a (seq 0 a)                                          (* the relation has its full index *)
  && forallb (fun d' => negb (Nat.eqb (fst (fst d')) r) || Nat.eqb (snd (fst d')) a) decls   (* one arity per relation *)
  && (negb (Nat.eqb (length cols) a) || cols_eqb cols (seq 0 a)).        (* |cols| = arity only for the full index *)
Definition item_ok (decls : list idecl) (p : pitem) : bool :=
  match p with
  | PClause r args _ idx _ => declared decls r (length args) idx
  | PAgg _ _ _ r args idx => declared decls r (length args) idx
  | _ => true
  end.
Definition head_ok (decls : list idecl) (dyn : list rel) (h : rel * list term) : bool :=
  is_dyn dyn (fst h) && declared decls (fst h) (length (snd h)) (seq 0 (length (snd h))).
Definition variant_idx_ok (decls : list idecl) (dyn : list rel) (v : variant) : bool :=
  forallb (item_ok decls) (v_items v) && forallb (head_ok decls dyn) (v_heads v).
Definition plan_idx_ok (decls : list idecl) (pl : plan) : bool :=
  forallb (decl_ok decls) decls
  && forallb (fun sc => forallb (variant_idx_ok decls (s_dyn sc)) (s_vars sc)) pl.
Definition fact_idx_ok (decls : list idecl) (f : fact) : bool :=
  declared decls (fst f) (length (snd f)) (seq 0 (length (snd f))).

(* ---------- "all indices of a relation agree" as an executable test: every stored index of relation r holds
   what inserting the tuples held by the relation's first hash index (or, when it has only its full index, that one)
   would give; used by the examples and the tie ---------- *)
Definition rel_witness (st : list pidx) (r : rel) : list tuple :=
  match find (fun p => Nat.eqb (p_rel p) r && negb (is_full (p_arity p) (p_cols p))) st with
  | Some p => ix_all (p_ents p)
  | None => match find (fun p => Nat.eqb (p_rel p) r) st with Some p => ix_all (p_ents p) | None => [] end
  end.
Fixpoint ients_eqb (a b : ients) : bool :=
  match a, b with
  | [], [] => true
  | (k, t) :: a', (k', t') :: b' => zlist_eqb k k' && zlist_eqb t t' && ients_eqb a' b'
  | _, _ => false
  end.
Definition indices_agree_b (st : list pidx) : bool :=
  forallb (fun p => ients_eqb (p_ents p) (build_index (p_arity p) (p_cols p) (rel_witness st (p_rel p)))) st.

(* ---------- histories and dumps for the tie ---------- *)
Definition dump_stored (st : istate) : list (rel * list nat * ients) :=
  map (fun p => (p_rel p, p_cols p, p_ents p)) (istored st).
Definition dump_lens (st : istate) : list (rel * list nat * nat) :=
  map (fun p => (p_rel p, p_cols p, if is_full (p_arity p) (p_cols p) then length (p_ents p) else ix_len (p_ents p))) (istored st).

Inductive istep := IRun | IPush (fs : list fact).
(* snapshots (rows, stored indices) after every run *)
Fixpoint run_script_idx (I : interp) (swap : list tuple -> list tuple -> bool) (fuel : nat) (pl : plan)
         (steps : list istep) (st : istate) : option (list (list fact * list (rel * list nat * ients))) :=
  match steps with
  | [] => Some []
  | IPush fs :: rest => run_script_idx I swap fuel pl rest (push_facts_i fs st)
  | IRun :: rest =>
      match run_plan_idx I swap fuel pl st with
      | Some st' => option_map (cons (irows st', dump_stored st')) (run_script_idx I swap fuel pl rest st')
      | None => None
      end
  end.
