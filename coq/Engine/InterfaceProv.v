(* Statement of the engine theorem with a provider-backed relation (C10-C12), proved in Engine/ProvProofs.v *)
From Coq Require Import List ZArith Bool Arith.
From AV Require Import Engine.Core Engine.Sem Engine.Eval Engine.Validate Engine.Naive Engine.Interface Byods.Provider Engine.EvalProv.
Import ListNotations.

(* the tuples of r0 are closed under the provider's closure operator *)
Definition cl_closed (cl : list tuple -> list tuple) (r0 : rel) (M : list fact) : Prop :=
  incl (cl (db_of M r0)) (db_of M r0).

(* least set of facts containing the input, closed under the rules AND under the closure operator on r0:
   the least model of the program extended with the explicit closure rules of the provider *)
Definition least_model_cl (I : interp) (P : list rule) (cl : list tuple -> list tuple) (r0 : rel) (F0 M : list fact) : Prop :=
  incl F0 M /\ closed I P M /\ cl_closed cl r0 M
  /\ forall M', incl F0 M' -> closed I P M' -> cl_closed cl r0 M' -> incl M M'.

(* the closure operator keeps tuples at the relation's arity *)
Definition cl_arity (cl : list tuple -> list tuple) (n : nat) : Prop :=
  forall s t, (forall u, In u s -> length u = n) -> In t (cl s) -> length t = n.

Definition prun_plan_correct_stmt (I : interp) (swap : list tuple -> list tuple -> bool) : Prop :=
  forall (PV : provider tuple) (cl : list tuple -> list tuple) (r0 : rel) (n0 : nat) arities P pl fuel F0 st,
    closure_op tuple cl -> provider_ok tuple PV cl -> cl_arity cl n0 -> In (r0, n0) arities ->
    arities_functional arities -> wf_facts arities F0 = true -> no_agg P = true ->
    (forall f, In f F0 -> fst f <> r0) ->
    validate arities P pl = true ->
    prun_plan I swap PV r0 fuel pl F0 = Some st ->
    least_model_cl I P cl r0 F0 (pfacts PV r0 st).
