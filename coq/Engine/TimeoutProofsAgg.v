(* C14 with aggregation / negation: whatever the clock does, run_timeout leaves the input
   as a prefix, duplicate-free well-formed rows that are included in the stratified model;
   the flag `true` means the stratified model; resuming with run() reaches the members of
   the stratified model (same as an uninterrupted run). *)
From Coq Require Import List ZArith Bool Arith Lia Permutation.
From AV Require Import Engine.Core Engine.Sem Engine.Eval Engine.Validate Engine.Naive Engine.Interface Engine.Strat.
From AV Require Import Engine.InterfaceAgg Engine.StratFixed Engine.Timeout.
From AV Require Import Engine.NaiveLemmas Engine.Strata Engine.SemiNaive Engine.AggLemmas Engine.StrataAgg.
From AV Require Import Engine.SemiNaiveAgg Engine.StratFixedLemmas Engine.TimeoutProofs Engine.StratInterp.
Import ListNotations.
Local Open Scope nat_scope.

Definition run_timeout_strat_stmt (I : interp) (swap : list tuple -> list tuple -> bool) : Prop :=
  forall (deadline : nat -> bool) arities P pl fuel F0 b st,
    arities_functional arities -> wf_facts arities F0 = true -> NoDup F0 -> agg_perm_invariant I ->
    validate arities P pl = true ->
    run_timeout I swap deadline fuel pl (init_state F0) = Some (b, st) ->
    (* (i) *)
    (exists added, rows st = F0 ++ added) /\ NoDup (rows st) /\ wf_facts arities (rows st) = true
    (* (ii) *)
    /\ (b = true -> strat_model_fixed I (plan_strata P pl) F0 (rows st))
    (* (iii) an interrupted state holds only facts of the stratified model *)
    /\ (forall M, strat_model_fixed I (plan_strata P pl) F0 M -> incl (rows st) M)
    (* (iv) resuming reaches the stratified model *)
    /\ (forall fuel' st' M, run_plan I swap fuel' pl st = Some st' ->
          strat_model_fixed I (plan_strata P pl) F0 M -> forall f, In f (rows st') <-> In f M).

(* ---------- the timed-out SCC ---------- *)
Section SccTA.
Variable I : interp.
Variable swap : list tuple -> list tuple -> bool.
Hypothesis Hspec : eval_variant_spec_agg_stmt I swap.
Hypothesis Hperm : agg_perm_invariant I.
Variable deadline : nat -> bool.
Variable arities : list (rel * nat).
Variable P : list rule.
Hypothesis Hfun : arities_functional arities.
Variable sc : pscc.
Hypothesis Hok : scc_ok arities P sc = true.
Variable S : list fact.
Variable R0 : list fact.
Hypothesis HwfS : forall f, In f S -> wf_fact arities f = true.
Hypothesis HndS : NoDup S.
Hypothesis HS_R0 : incl S R0.
Hypothesis HR0_static : forall f, In f R0 -> fact_dyn (s_dyn sc) f = false -> In f S.

Lemma scc_loop_t_out_agg : forall fuel T D R k R',
  InvA I arities P sc R0 (T ++ D) R ->
  scc_loop_t I swap deadline fuel sc S T D R k = Some (inr R') ->
  exists X, InvA I arities P sc R0 X R'.
Proof.
  induction fuel as [|fuel IH]; intros T D R k R' Hinv H; [discriminate|].
  cbn [scc_loop_t] in H. destruct (scc_iteration I swap sc S T D R) as [N R''] eqn:Hit.
  pose proof (step_inv_agg I swap Hspec Hperm arities P Hfun sc Hok S R0 HwfS HndS HS_R0 HR0_static T D R N R'' Hinv Hit)
    as Hinv'.
  destruct N as [|f N]; [discriminate|]. destruct (deadline k).
  - injection H as <-. exists ((T ++ D) ++ f :: N). exact Hinv'.
  - apply (IH _ _ _ _ _ Hinv' H).
Qed.

Lemma inv_rows_agg : forall X R,
  (forall f, In f R0 -> wf_fact arities f = true) ->
  InvA I arities P sc R0 X R ->
  (forall f, In f R -> wf_fact arities f = true)
  /\ (exists A, R = R0 ++ A /\ NoDup A /\ forall f, In f A -> ~ In f R0)
  /\ (forall M, closed I (stratum_of P sc) M -> incl R0 M ->
        agree_on (stratum_agg_rels (stratum_of P sc)) R0 M -> incl R M).
Proof.
  intros X R HwfR0 Hinv. unfold InvA in Hinv. cbv zeta in Hinv.
  destruct Hinv as [Hwf [_ [Hidx [[A [HR [Hnd HA]]] Hsnd]]]]. split; [|split].
  - intros f Hf. pose proof Hf as Hf'. rewrite HR in Hf'. apply in_app_or in Hf' as [Hf' | Hf'].
    + apply HwfR0. exact Hf'.
    + apply Hwf. apply Hidx. split; [exact Hf|]. unfold fact_dyn. apply (hr_dyn_agg arities P sc Hok).
      apply HA. exact Hf'.
  - exists A. split; [exact HR|]. split; [exact Hnd|]. intros f Hf. apply HA. exact Hf.
  - exact Hsnd.
Qed.
End SccTA.

Lemma run_scc_t_out_agg : forall I swap deadline arities P sc fuel st k R,
  eval_variant_spec_agg_stmt I swap -> agg_perm_invariant I -> arities_functional arities ->
  scc_ok arities P sc = true ->
  (forall f, In f (stored st) <-> In f (rows st)) ->
  (forall f, In f (rows st) -> wf_fact arities f = true) ->
  NoDup (stored st) ->
  run_scc_t I swap deadline fuel sc st k = TOut R ->
  (forall f, In f R -> wf_fact arities f = true)
  /\ (exists A, R = rows st ++ A /\ NoDup A /\ forall f, In f A -> ~ In f (rows st))
  /\ (forall M, closed I (stratum_of P sc) M -> incl (rows st) M ->
        agree_on (stratum_agg_rels (stratum_of P sc)) (rows st) M -> incl R M).
Proof.
  intros I swap deadline arities P sc fuel st k R Hspec Hperm Hfun Hok Hsr Hwf Hnds Hrun.
  set (dyn := s_dyn sc) in *.
  set (D0 := filter (fact_dyn dyn) (stored st)).
  set (S := filter (fun f => negb (fact_dyn dyn f)) (stored st)).
  assert (HwfS : forall f, In f S -> wf_fact arities f = true).
  { intros f Hf. apply filter_In in Hf as [Hf _]. apply Hwf. apply Hsr. exact Hf. }
  assert (HndS : NoDup S) by (apply NoDup_filter; exact Hnds).
  assert (HndD0 : NoDup D0) by (apply NoDup_filter; exact Hnds).
  assert (HS_R0 : incl S (rows st)).
  { intros f Hf. apply filter_In in Hf as [Hf _]. apply Hsr. exact Hf. }
  assert (HR0_static : forall f, In f (rows st) -> fact_dyn dyn f = false -> In f S).
  { intros f Hf Hd. apply filter_In. split; [apply Hsr; exact Hf | rewrite Hd; reflexivity]. }
  assert (HD0 : forall f, In f D0 <-> In f (rows st) /\ fact_dyn dyn f = true).
  { intros f. unfold D0. rewrite filter_In, Hsr. reflexivity. }
  pose proof (inv_init_agg I arities P sc (rows st) D0 Hwf HndD0 HD0) as Hinit.
  assert (HX : exists X, InvA I arities P sc (rows st) X R).
  { unfold run_scc_t in Hrun. fold dyn in Hrun. fold D0 in Hrun. fold S in Hrun. destruct (s_loop sc).
    - destruct (scc_loop_t I swap deadline fuel sc S [] D0 (rows st) k) as [[[[T R1] k1] | R1]|] eqn:Hl;
        try discriminate. injection Hrun as <-.
      apply (scc_loop_t_out_agg I swap Hspec Hperm deadline arities P Hfun sc Hok S (rows st) HwfS HndS HS_R0 HR0_static
               fuel [] D0 (rows st) k R1 Hinit Hl).
    - destruct (scc_iteration I swap sc S [] D0 (rows st)) as [N R1] eqn:Hit.
      destruct (deadline k); [|discriminate]. injection Hrun as <-. exists (([] ++ D0) ++ N).
      apply (step_inv_agg I swap Hspec Hperm arities P Hfun sc Hok S (rows st) HwfS HndS HS_R0 HR0_static
               [] D0 (rows st) N R1 Hinit Hit). }
  destruct HX as [X HX]. apply (inv_rows_agg I arities P sc Hok (rows st) X R Hwf HX).
Qed.

(* ---------- across SCCs ---------- *)
Section RunTA.
Variable I : interp.
Variable swap : list tuple -> list tuple -> bool.
Hypothesis Hspec : eval_variant_spec_agg_stmt I swap.
Hypothesis Hperm : agg_perm_invariant I.
Variable deadline : nat -> bool.
Variable arities : list (rel * nat).
Variable P : list rule.
Hypothesis Hfun : arities_functional arities.

Lemma run_sccs_t_agg : forall fuel rest st k b st',
  forallb (scc_ok arities P) rest = true -> K arities st ->
  run_sccs_t I swap deadline fuel rest st k = Some (b, st') ->
  NoDup (rows st') /\ (forall f, In f (rows st') -> wf_fact arities f = true)
  /\ (exists A, rows st' = rows st ++ A)
  /\ (forall F M, (forall f, In f F <-> In f (rows st)) ->
        strat_model_fixed I (plan_strata P rest) F M -> incl (rows st') M).
Proof.
  intros fuel. induction rest as [|sc rest IH]; intros st k b st' Hoks [Hsr [Hwf [Hnds Hndr]]] Hrun.
  - cbn [run_sccs_t] in Hrun. injection Hrun as _ <-. split; [exact Hndr|]. split; [exact Hwf|].
    split; [exists []; rewrite app_nil_r; reflexivity|].
    intros F M HF [H1 _] f Hf. apply H1. apply HF. exact Hf.
  - cbn [run_sccs_t] in Hrun. cbn [forallb] in Hoks. apply andb_true_iff in Hoks as [Hok Hoks].
    destruct (run_scc_t I swap deadline fuel sc st k) as [st1 k1 | R |] eqn:H1; [| |discriminate].
    + apply run_scc_t_done in H1.
      destruct (run_scc_spec_agg I swap arities P sc fuel st st1 Hspec Hperm Hfun Hok Hsr Hwf Hnds H1)
        as [Hsr1 [Hwf1 [Hnds1 [[A [HR [HndA HA]]] Hlm]]]].
      assert (Hndr1 : NoDup (rows st1)).
      { rewrite HR. apply NoDup_app_intro; [exact Hndr | exact HndA |]. intros f Hf HfA. exact (HA f HfA Hf). }
      destruct (IH st1 k1 b st' Hoks (conj Hsr1 (conj Hwf1 (conj Hnds1 Hndr1))) Hrun) as [Hnd' [Hwf' [[A' HR'] Hsnd']]].
      split; [exact Hnd'|]. split; [exact Hwf'|]. split; [exists (A ++ A'); rewrite HR', HR, app_assoc; reflexivity|].
      intros F M HF HM. rewrite plan_strata_eq in HM. cbn [map strat_model_fixed] in HM. rewrite <- plan_strata_eq in HM.
      destruct HM as [M1 [Hl1 Hs1]]. apply (Hsnd' M1 M); [|exact Hs1].
      intros f. split.
      * apply (least_model_fixed_unique I _ F (rows st) M1 (rows st1) HF Hl1 Hlm).
      * apply (least_model_fixed_unique I _ (rows st) F (rows st1) M1 (fun g => iff_sym (HF g)) Hlm Hl1).
    + injection Hrun as _ <-. cbn [rows].
      destruct (run_scc_t_out_agg I swap deadline arities P sc fuel st k R Hspec Hperm Hfun Hok Hsr Hwf Hnds H1)
        as [Hwf1 [[A [HR [HndA HA]]] Hsnd1]].
      split; [rewrite HR; apply NoDup_app_intro; [exact Hndr | exact HndA | intros f Hf HfA; exact (HA f HfA Hf)]|].
      split; [exact Hwf1|]. split; [exists A; exact HR|].
      intros F M HF HM. rewrite plan_strata_eq in HM. cbn [map strat_model_fixed] in HM. rewrite <- plan_strata_eq in HM.
      destruct HM as [M1 [[HF1 [Hag1 [Hcl1 _]]] Hs1]].
      eapply incl_tran; [|apply (smf_incl I _ _ _ Hs1)]. apply Hsnd1.
      * exact Hcl1.
      * intros f Hf. apply HF1. apply HF. exact Hf.
      * intros f Hf. rewrite (Hag1 f Hf). apply HF.
Qed.
End RunTA.

Theorem run_timeout_strat : forall I swap, eval_variant_spec_agg_stmt I swap -> run_timeout_strat_stmt I swap.
Proof.
  intros I swap Hspec deadline arities P pl fuel F0 b st Hfun HwfF0 HndF0 Hperm Hval Hrun.
  unfold run_timeout in Hrun.
  assert (HK : K arities (update_indices (init_state F0))).
  { unfold K, update_indices, init_state. cbn [rows stored app]. split; [intros f; reflexivity|].
    split; [apply wf_facts_forall; exact HwfF0|]. split; exact HndF0. }
  assert (Hoks : forallb (scc_ok arities P) pl = true).
  { unfold validate in Hval. apply andb_true_iff in Hval as [H _]. exact H. }
  destruct (run_sccs_t_agg I swap Hspec Hperm deadline arities P Hfun fuel pl _ 0 b st Hoks HK Hrun)
    as [Hnd [Hwf [[A HR] Hsnd]]]. cbn [update_indices init_state rows] in HR, Hsnd.
  assert (Hiii : forall M, strat_model_fixed I (plan_strata P pl) F0 M -> incl (rows st) M).
  { intros M HM. apply (Hsnd F0 M); [intros f; reflexivity | exact HM]. }
  split; [exists A; exact HR|]. split; [exact Hnd|]. split; [apply wf_facts_forall; exact Hwf|].
  split; [|split; [exact Hiii|]].
  - intros ->. apply run_sccs_t_true in Hrun.
    destruct (run_plan_strat_correct_fixed I swap Hspec arities P pl fuel F0 st Hfun HwfF0 HndF0 Hperm Hval Hrun)
      as [_ [_ [Hsm _]]]. exact Hsm.
  - intros fuel' st' M Hres HM.
    change (run_plan I swap fuel' pl st) with (run_plan I swap fuel' pl (init_state (rows st))) in Hres.
    destruct (run_plan_strat_correct_fixed I swap Hspec arities P pl fuel' (rows st) st' Hfun
                (proj2 (wf_facts_forall arities (rows st)) Hwf) Hnd Hperm Hval Hres) as [Hstr [_ [Hsm' _]]].
    apply (smf_interp I Hperm (plan_strata P pl) F0 M (rows st) (rows st') Hstr HM Hsm').
    + rewrite HR. apply incl_appl. apply incl_refl.
    + apply Hiii. exact HM.
Qed.

(* interrupted + resumed = uninterrupted, as sets of facts *)
Corollary resume_same_as_uninterrupted : forall I swap deadline arities P pl fuel fuel' fuel'' F0 b st st' st_u,
  eval_variant_spec_agg_stmt I swap ->
  arities_functional arities -> wf_facts arities F0 = true -> NoDup F0 -> agg_perm_invariant I ->
  validate arities P pl = true ->
  run_timeout I swap deadline fuel pl (init_state F0) = Some (b, st) ->
  run_plan I swap fuel' pl st = Some st' ->
  run_plan I swap fuel'' pl (init_state F0) = Some st_u ->
  forall f, In f (rows st') <-> In f (rows st_u).
Proof.
  intros I swap deadline arities P pl fuel fuel' fuel'' F0 b st st' st_u Hspec Hfun Hwf Hnd Hperm Hval Ht Hres Hu.
  destruct (run_timeout_strat I swap Hspec deadline arities P pl fuel F0 b st Hfun Hwf Hnd Hperm Hval Ht)
    as [_ [_ [_ [_ [_ Hiv]]]]].
  destruct (run_plan_strat_correct_fixed I swap Hspec arities P pl fuel'' F0 st_u Hfun Hwf Hnd Hperm Hval Hu)
    as [_ [_ [Hsm _]]].
  exact (Hiv fuel' st' (rows st_u) Hres Hsm).
Qed.

Print Assumptions run_timeout_strat.
Print Assumptions resume_same_as_uninterrupted.
