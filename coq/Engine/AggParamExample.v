(* Parameterised aggregators (C04): a concrete instance of Engine/AggParam.v agg_param_stratified_model (the hypotheses are
   satisfiable, the engine model runs on the translated plan) and the refutation of "memoise the aggregate per index key,
   ignoring the aggregator's parameters" (the seeded change C04_agg_memoised_by_key_ignores_aggregator_params). *)
From Coq Require Import List ZArith Bool Arith Lia Permutation.
From AV Require Import Engine.Core.
From AV Require Import Engine.Sem.
From AV Require Import Engine.Eval.
From AV Require Import Engine.Validate.
From AV Require Import Engine.Naive.
From AV Require Import Engine.Interface.
From AV Require Import Engine.InterfaceAgg.
From AV Require Import Engine.Strat.
From AV Require Import Engine.StratFixed.
From AV Require Import Engine.Vocab.
From AV Require Import Engine.MainAgg.
From AV Require Import Engine.AggParamModel.
From AV Require Import Engine.AggParam.
From AV Require Import Engine.AggParamVocab.
Import ListNotations.
Local Open Scope Z_scope.

(* parameterised aggregators of the example vocabulary (the tie's gen/c04_param.py has the same ones in Rust):
   0 = nth(n): the n-th smallest value of the column, if there is one;   1 = at_least(t): every value >= t (multi-valued) *)
Definition ex_paint (a : nat) (pv : list Z) (rows : list (list Z)) : list Z :=
  let xs := isort (col0 rows) in
  match a with
  | 0%nat => let n := arg 0 pv in if (0 <=? n) && (n <? Z.of_nat (length xs)) then [nth (Z.to_nat n) xs 0] else []
  | 1%nat => filter (fun x => arg 0 pv <=? x) xs
  | _ => []
  end.
Definition ex_PI : pinterp := {| pbase := std_interp; paint := ex_paint |}.

Lemma ex_PI_perm : p_agg_perm_invariant ex_PI.
Proof.
  split; [exact std_interp_agg_perm_invariant|]. intros a pv l l' H. cbn [paint ex_PI]. unfold ex_paint.
  rewrite (isort_perm_inv (col0 l) (col0 l') (col0_perm l l' H)). reflexivity.
Qed.

(* relations raw = 0 (k, x), want = 1 (k, p), out = 2 (k, p, v); variables k = 0, p = 1, v = 2, x = 3; temporaries from 4
     out(k, p, v) <-- want(k, p), agg v = (nth(p))(x) in raw(k, x);  *)
Definition ex_arities : list (rel * nat) := [(0%nat, 2%nat); (1%nat, 2%nat); (2%nat, 3%nat)].
Definition ex_rule (a : nat) : prule :=
  {| pheads := [(2%nat, [TVar 0%nat; TVar 1%nat; TVar 2%nat])];
     pbody := [PB (BClause 1%nat [TVar 0%nat; TVar 1%nat] []); PBAggP 2%nat a [1%nat] [3%nat] 0%nat [AKey (TVar 0%nat); ABound 3%nat]] |}.
Definition ex_PP : list prule := [ex_rule 0%nat].
(* the plan of the two-step code: index [0] of raw for the key, then the loop over the aggregator's results *)
Definition ex_plan : plan :=
  [{| s_vars := [{| v_rule := 0%nat; v_heads := [(2%nat, [TVar 0%nat; TVar 1%nat; TVar 2%nat])];
                    v_items := [PClause 1%nat [TVar 0%nat; TVar 1%nat] [] [] VTotal;
                                PAgg (Some 4%nat) collect_sym [3%nat] 0%nat [AKey (TVar 0%nat); ABound 3%nat] [0%nat];
                                PGen 2%nat 1%nat [1%nat; 4%nat]];
                    v_sj := None; v_reord := false |}];
      s_dyn := [2%nat]; s_loop := false |}].
(* two bindings share the key 1 and differ in the parameter *)
Definition ex_F0 : list fact := [(0%nat, [1; 1]); (0%nat, [1; 2]); (0%nat, [1; 3]); (0%nat, [2; 2]); (1%nat, [1; 0]); (1%nat, [1; 2]); (1%nat, [2; 0])].

Example ex_translated : tr_prog 4%nat ex_PP =
  [{| heads := [(2%nat, [TVar 0%nat; TVar 1%nat; TVar 2%nat])];
      body := [BClause 1%nat [TVar 0%nat; TVar 1%nat] []; BAgg (Some 4%nat) 1%nat [3%nat] 0%nat [AKey (TVar 0%nat); ABound 3%nat];
               BGen 2%nat 1%nat [1%nat; 4%nat]] |}].
Proof. reflexivity. Qed.

Example ex_hyps : validate ex_arities (tr_prog 4%nat ex_PP) ex_plan = true /\ wf_facts ex_arities ex_F0 = true.
Proof. vm_compute. split; reflexivity. Qed.

Example ex_run : option_map (fun st => db_of (rows st) 2%nat) (run_plan (tr_interp ex_PI) std_swap 10 ex_plan (init_state ex_F0))
                 = Some [[1; 0; 1]; [1; 2; 3]; [2; 0; 2]].
Proof. vm_compute. reflexivity. Qed.

(* the specification semantics of the source rule, directly *)
Example ex_spec : p_derive_rule ex_PI (db_of ex_F0) (ex_rule 0%nat) = [(2%nat, [1; 0; 1]); (2%nat, [1; 2; 3]); (2%nat, [2; 0; 2])].
Proof. vm_compute. reflexivity. Qed.

Lemma ex_arities_functional : arities_functional ex_arities.
Proof.
  intros r n m Hn Hm. unfold ex_arities in Hn, Hm. cbn [In] in Hn, Hm.
  repeat match goal with H : _ \/ _ |- _ => destruct H as [H|H] end;
    try (exfalso; assumption); repeat match goal with H : (_, _) = (_, _) |- _ => inversion H; clear H end; subst; try reflexivity; try discriminate; try lia.
Qed.

Lemma ex_F0_nodup : NoDup ex_F0.
Proof.
  unfold ex_F0. repeat (constructor; [cbn [In]; intros H; repeat (destruct H as [H|H]; [discriminate H|]); exact H|]). constructor.
Qed.

Lemma ex_below : forall r, In r ex_PP -> prule_below 4%nat r.
Proof.
  intros r [<-|[]]. split; cbn [ex_rule pbody pheads].
  - constructor; [|constructor; [|constructor]].
    + cbn [pbitem_below bitem_below]. split; [|constructor]. constructor; [cbn; lia|]. constructor; [cbn; lia|]. constructor.
    + cbn [pbitem_below]. split.
      * intros x [<-|[]]. lia.
      * constructor; [cbn; lia|]. constructor; [exact Logic.I|]. constructor.
  - constructor; [|constructor]. cbn [snd]. repeat (constructor; [cbn; lia|]). constructor.
Qed.

(* non-vacuity of agg_param_stratified_model: every hypothesis holds for the example, the run of the engine model on the
   translated plan exists, and its rows are the stratified model of the SOURCE program *)
Theorem agg_param_example : exists st,
  run_plan (tr_interp ex_PI) std_swap 10 ex_plan (init_state ex_F0) = Some st
  /\ p_strat_model_fixed ex_PI (p_plan_strata ex_PP ex_plan) ex_F0 (rows st)
  /\ db_of (rows st) 2%nat = [[1; 0; 1]; [1; 2; 3]; [2; 0; 2]].
Proof.
  destruct (run_plan (tr_interp ex_PI) std_swap 10 ex_plan (init_state ex_F0)) as [st|] eqn:E; [|vm_compute in E; discriminate E].
  exists st. split; [reflexivity|].
  destruct ex_hyps as [Hv Hw].
  destruct (agg_param_stratified_model ex_PI std_swap ex_arities ex_PP 4%nat ex_plan 10%nat ex_F0 st
              ex_arities_functional Hw ex_F0_nodup ex_PI_perm ex_below Hv E) as [_ [_ [Hm _]]].
  split; [exact Hm|].
  pose proof ex_run as R. rewrite E in R. cbn [option_map] in R. injection R as R. exact R.
Qed.

(* ------------------------------------------------------------------ the memo table keyed by the index key only *)
(* with the multi-valued at_least(p): the second binding (key 1, p = 2) gets the values computed for the first one (p = 0):
   spurious tuples (1, 2, 1) and (1, 2, 2) *)
Example memo_by_key_run : memo_derive_rule ex_PI false (db_of ex_F0) (ex_rule 1%nat)
  = [(2%nat, [1; 0; 1]); (2%nat, [1; 0; 2]); (2%nat, [1; 0; 3]); (2%nat, [1; 2; 1]); (2%nat, [1; 2; 2]); (2%nat, [1; 2; 3]); (2%nat, [2; 0; 2])].
Proof. vm_compute. reflexivity. Qed.
Example memo_spec_run : p_derive_rule ex_PI (db_of ex_F0) (ex_rule 1%nat)
  = [(2%nat, [1; 0; 1]); (2%nat, [1; 0; 2]); (2%nat, [1; 0; 3]); (2%nat, [1; 2; 2]); (2%nat, [1; 2; 3]); (2%nat, [2; 0; 2])].
Proof. vm_compute. reflexivity. Qed.
(* a table keyed by index key AND parameter values agrees with the specification on the witness *)
Example memo_by_key_and_param_run :
  memo_derive_rule ex_PI true (db_of ex_F0) (ex_rule 1%nat) = p_derive_rule ex_PI (db_of ex_F0) (ex_rule 1%nat)
  /\ memo_derive_rule ex_PI true (db_of ex_F0) (ex_rule 0%nat) = p_derive_rule ex_PI (db_of ex_F0) (ex_rule 0%nat).
Proof. vm_compute. split; reflexivity. Qed.

Theorem agg_memo_by_key_refuted : exists (PI : pinterp) (F : list fact) (r : prule),
  p_agg_perm_invariant PI /\ NoDup F
  /\ ~ (forall f, In f (memo_derive_rule PI false (db_of F) r) <-> In f (p_derive_rule PI (db_of F) r)).
Proof.
  exists ex_PI, ex_F0, (ex_rule 1%nat). split; [exact ex_PI_perm|]. split; [exact ex_F0_nodup|].
  intros H. specialize (H (2%nat, [1; 2; 1])). rewrite memo_by_key_run, memo_spec_run in H.
  destruct H as [H _].
  assert (Hin : In (2%nat, [1; 2; 1]) [(2%nat, [1; 0; 1]); (2%nat, [1; 0; 2]); (2%nat, [1; 0; 3]); (2%nat, [1; 2; 1]); (2%nat, [1; 2; 2]); (2%nat, [1; 2; 3]); (2%nat, [2; 0; 2])])
    by (cbn [In]; tauto).
  apply H in Hin. cbn [In] in Hin. repeat (destruct Hin as [Hin|Hin]; [discriminate Hin|]). exact Hin.
Qed.

(* with a parameter-free aggregator nothing is lost: for the single-valued nth the same table also goes wrong (value of the
   first binding reused), so the defect is not specific to multi-valued aggregators *)
Example memo_by_key_nth : memo_derive_rule ex_PI false (db_of ex_F0) (ex_rule 0%nat) = [(2%nat, [1; 0; 1]); (2%nat, [1; 2; 1]); (2%nat, [2; 0; 2])].
Proof. vm_compute. reflexivity. Qed.

(* the tie's vocabulary (Engine/AggParamVocab.v) meets the permutation hypothesis *)
Lemma pv_perm : forall lits, p_agg_perm_invariant (pv_interp lits).
Proof.
  intros lits. split.
  - intros a l l' H. exact (std_interp_agg_perm_invariant a l l' H).
  - intros a pv l l' H. cbn [paint pv_interp]. unfold pv_paint.
    rewrite (isort_perm_inv (col0 l) (col0 l') (col0_perm l l' H)).
    rewrite (Permutation_length H).
    rewrite (isort_perm_inv _ _ (Permutation_map (fun r => if col1 r =? arg 0 pv then nth 0 r 0 else 0) H)).
    reflexivity.
Qed.

Print Assumptions pv_perm. Print Assumptions agg_param_example. Print Assumptions agg_memo_by_key_refuted.
