(* InterfaceAgg.run_plan_strat_correct_stmt is false as written: for the program
     h(n) <-- agg n = count() in q(_)          (relations: q = 0, h = 1)
   over the input {q(1)} the validator accepts the obvious one-SCC plan and the run
   produces {q(1); h(1)}, but NO M1 satisfies Sem.least_model [rule] {q(1)} M1:
   {q(1); h(1)} and {q(1); q(2); h(2)} are both closed supersets of the input, a least
   model would be included in both, hence contain neither h(1) nor h(2), yet it has to
   contain h(count of its q facts). *)
From Coq Require Import List ZArith Bool Arith Lia Permutation.
From AV Require Import Engine.Core Engine.Sem Engine.Eval Engine.Validate Engine.Naive Engine.Interface Engine.Strat.
From AV Require Import Engine.InterfaceAgg.
Import ListNotations.
Local Open Scope nat_scope.

Definition cnt_interp : interp :=
  {| fint := fun _ _ => 0%Z; pint := fun _ _ => true; bint := fun _ _ => None; gint := fun _ _ => [];
     aint := fun _ l => [Z.of_nat (length l)] |}.
Definition cnt_swap (c1 c2 : list tuple) : bool := true.

Definition cnt_rule : rule := {| heads := [(1, [TVar 0])]; body := [BAgg (Some 0) 0 [] 0 [AWild]] |}.
Definition cnt_variant : variant :=
  {| v_rule := 0; v_heads := heads cnt_rule; v_items := [PAgg (Some 0) 0 [] 0 [AWild] []];
     v_sj := None; v_reord := false |}.
Definition cnt_plan : plan := [ {| s_vars := [cnt_variant]; s_dyn := [1]; s_loop := false |} ].
Definition cnt_arities : list (rel * nat) := [(0, 1); (1, 1)].
Definition cnt_F0 : list fact := [(0, [1%Z])].

Lemma cnt_perm : agg_perm_invariant cnt_interp.
Proof. intros a l l' H. cbn [aint cnt_interp]. rewrite (Permutation_length H). reflexivity. Qed.

Lemma cnt_validate : validate cnt_arities [cnt_rule] cnt_plan = true.
Proof. vm_compute. reflexivity. Qed.

Lemma cnt_run : option_map (@rows) (run_plan cnt_interp cnt_swap 1 cnt_plan (init_state cnt_F0))
                = Some [(0, [1%Z]); (1, [1%Z])].
Proof. vm_compute. reflexivity. Qed.

Lemma cnt_derive : forall M,
  derive_rule cnt_interp (db_of M) cnt_rule
  = [(1, [Z.of_nat (length (dedup_tuples (filter (agg_match cnt_interp [] [AWild]) (db_of M 0))))])].
Proof.
  intros M. unfold derive_rule, cnt_rule. cbn [body heads all_envs aint cnt_interp flat_map app].
  rewrite map_length. reflexivity.
Qed.

Lemma cnt_no_least_model : forall M1, ~ least_model cnt_interp [cnt_rule] cnt_F0 M1.
Proof.
  intros M1 [_ [Hcl Hleast]].
  set (n := length (dedup_tuples (filter (agg_match cnt_interp [] [AWild]) (db_of M1 0)))).
  assert (Hh : In (1, [Z.of_nat n]) M1).
  { apply Hcl. exists cnt_rule. split; [left; reflexivity|]. rewrite cnt_derive. left. reflexivity. }
  assert (Ha : incl M1 [(0, [1%Z]); (1, [1%Z])]).
  { apply Hleast.
    - intros f [<- | []]. left. reflexivity.
    - intros f [r [[<- | []] Hf]]. vm_compute in Hf. destruct Hf as [<- | []]. right. left. reflexivity. }
  assert (Hb : incl M1 [(0, [1%Z]); (0, [2%Z]); (1, [2%Z])]).
  { apply Hleast.
    - intros f [<- | []]. left. reflexivity.
    - intros f [r [[<- | []] Hf]]. vm_compute in Hf. destruct Hf as [<- | []]. right. right. left. reflexivity. }
  apply Ha in Hh as Hh1. apply Hb in Hh as Hh2.
  destruct Hh1 as [Hh1 | [Hh1 | []]]; [discriminate|].
  destruct Hh2 as [Hh2 | [Hh2 | [Hh2 | []]]]; try discriminate.
  injection Hh1 as Hh1. injection Hh2 as Hh2. lia.
Qed.

Theorem run_plan_strat_correct_stmt_refuted : exists I swap, ~ run_plan_strat_correct_stmt I swap.
Proof.
  exists cnt_interp, cnt_swap. intro H.
  destruct (run_plan cnt_interp cnt_swap 1 cnt_plan (init_state cnt_F0)) as [st|] eqn:Hrun;
    [|vm_compute in Hrun; discriminate].
  assert (Hfun : arities_functional cnt_arities).
  { intros r n m Hn Hm. cbn in Hn, Hm.
    destruct Hn as [Hn | [Hn | []]]; destruct Hm as [Hm | [Hm | []]]; congruence. }
  assert (Hnd : NoDup cnt_F0) by (constructor; [intros [] | constructor]).
  destruct (H cnt_arities [cnt_rule] cnt_plan 1 cnt_F0 st Hfun eq_refl Hnd cnt_perm cnt_validate Hrun)
    as [_ [_ [Hsm _]]].
  cbn [plan_strata map cnt_plan strat_model] in Hsm. destruct Hsm as [M1 [Hlm _]].
  vm_compute in Hlm. exact (cnt_no_least_model M1 Hlm).
Qed.

Print Assumptions run_plan_strat_correct_stmt_refuted.
