(* B12: closed instances of the per-index parallel iteration (ParIndexedModel.iteration_fn), evaluated by vm_compute.
   One relation r0 of arity 2 with the three kinds of index the macro plans in parallel mode: the full index [0,1]
   (CRelFullIndex), the hash index [0] (CRelIndex) and the no-index [] (CRelNoIndex); nsh = 2 DashMap shards; run pool of
   2 threads; two workers on threads 0 and 1. *)
From Coq Require Import List ZArith Bool Arith.
From AV Require Import Index.IndexModel.
From AV Require Import Index.ConcIndex.
From AV Require Import Engine.Core Engine.Eval Engine.ParStep Engine.ConcreteEval.
From AV Require Import Engine.ParIndexedModel Engine.ParIndexedIter.
Import ListNotations.
Local Open Scope nat_scope.

Definition ex_hash (k : Z) : nat := Z.to_nat (Z.abs k).
Definition d_full : xdecl := {| x_rel := 0; x_arity := 2; x_cols := [0; 1] |}.
Definition d_hash : xdecl := {| x_rel := 0; x_arity := 2; x_cols := [0] |}.
Definition d_no : xdecl := {| x_rel := 0; x_arity := 2; x_cols := [] |}.
(* an index created in a pool of [cpool] threads into which the given (thread, row) inserts were made *)
Definition ex_fill (cpool : nat) (d : xdecl) (ins : list (nat * tuple)) : xval :=
  match ui_field ex_hash enc_list 2 false cpool d ins with Ok x => x | _ => xdefault 2 cpool d end.
(* the store at the head of the loop: total empty, delta = the given inserts, new empty; delta created in a pool of
   [dpool] threads, total and new in a pool of [cpool] threads *)
Definition ex_store (cpool dpool : nat) (ins : list (nat * tuple)) : store :=
  map (fun d => {| s_d := d; s_v := SDyn (xdefault 2 cpool d) (ex_fill dpool d ins) (xdefault 2 cpool d) |}) [d_full; d_hash; d_no].
Definition ex_rows : list fact := [(0, [1; 2]%Z)].
Definition ex_work : list (list fact) := [[(0, [1; 2]%Z); (0, [3; 4]%Z)]; [(0, [3; 4]%Z); (0, [5; 6]%Z)]].
(* (worker, thread index) *)
Definition ex_sched : list (nat * nat) :=
  [(0,0); (1,1); (0,0); (1,1); (1,1); (0,0); (1,1); (1,1); (1,1); (1,1); (1,1); (1,1); (1,1); (1,1); (0,0)].

(* the content of an index, decoded: full = its keys, hash = (key, value) entries, no-index = the values of all shards *)
Definition xdump (x : xval) : list (list Z * list Z) :=
  match x with
  | XF c => map (fun kv => (dec_list (fst kv), [])) (cfi_entries c)
  | XH c => map (fun kv => (dec_list (fst kv), dec_list (snd kv))) (cri_abs c)
  | XN c => map (fun v => ([], dec_list v)) (cni_abs c)
  end.
Definition sdump (s : store) :=
  map (fun e => match s_v e with SDyn t d n => (xdump t, xdump d, xdump n) | SBody t => (xdump t, [], []) end) s.

(* 2 workers, 3 indices: (1,2) is in delta (skipped), both workers derive (3,4) (one insert_if_not_present wins), worker 1
   derives (5,6).  After the merge: total = {(1,2)} and delta = {(3,4), (5,6)} in ALL THREE indices, new is empty. *)
Example ex_iteration_three_indices :
  exists s', iteration_fn sh_id ex_hash enc_list false ex_rows (ex_store 2 2 [(0, [1; 2]%Z)]) ex_work ex_sched
             = Ok ([(0, [3; 4]%Z); (0, [5; 6]%Z)], [(0, [1; 2]%Z); (0, [3; 4]%Z); (0, [5; 6]%Z)], true, s')
    /\ sdump s' = [ ([([1; 2]%Z, [])],      [([3; 4]%Z, []); ([5; 6]%Z, [])],         []);
                    ([([1]%Z, [2]%Z)],      [([3]%Z, [4]%Z); ([5]%Z, [6]%Z)],         []);
                    ([([], [1; 2]%Z)],      [([], [3; 4]%Z); ([], [5; 6]%Z)],         []) ].
Proof. eexists. split; vm_compute; reflexivity. Qed.

(* the ParStep run it refines: the same work under the schedule with the index_insert / __changed.store steps removed *)
Example ex_iteration_coarse :
  let c := coarsen ex_hash enc_list false (iinit ex_rows (map freeze_entry (ex_store 2 2 [(0, [1; 2]%Z)])) ex_work) ex_sched in
  let p := run_sched [] [(0, [1; 2]%Z)] (par_init ex_rows ex_work) c in
  c = [0; 1; 0; 1; 1; 1] /\ finished p = true /\ pN p = [(0, [3; 4]%Z); (0, [5; 6]%Z)]
  /\ pR p = [(0, [1; 2]%Z); (0, [3; 4]%Z); (0, [5; 6]%Z)] /\ pchanged p = true.
Proof. vm_compute. repeat split; reflexivity. Qed.

(* ---- refuted without the pool hypothesis, 1: the no-index variables were created for a pool of ONE thread (e.g. a shard
        count cached process-wide in the first, smaller pool) and the insert indexes the shard vector with the raw thread
        index (no `% len`): thread 1 of the run pool hits shard 1 of a 1-shard vector — the model's Panic.  The real insert
        (modulo) on the same store and schedule succeeds with the same result as above. *)
Example ex_small_pool_nomod_refuted :
  iteration_fn sh_id ex_hash enc_list true ex_rows (ex_store 1 1 [(0, [1; 2]%Z)]) ex_work ex_sched = Panic
  /\ exists s', iteration_fn sh_id ex_hash enc_list false ex_rows (ex_store 1 1 [(0, [1; 2]%Z)]) ex_work ex_sched
                = Ok ([(0, [3; 4]%Z); (0, [5; 6]%Z)], [(0, [1; 2]%Z); (0, [3; 4]%Z); (0, [5; 6]%Z)], true, s').
Proof. split; [vm_compute; reflexivity|eexists; vm_compute; reflexivity]. Qed.

(* ---- refuted without the pool hypothesis, 2: delta (a field kept from a run / construction in a pool of TWO threads, its
        row (1,2) inserted by thread 1, i.e. in shard 1) is merged shard-wise into a total created in a pool of ONE thread:
        the zip moves shard 0 only.  After the merge the full and hash index of total hold (1,2), the no-index holds nothing:
        the indices of one relation version no longer denote the same set (the row sits in the variable that becomes new
        and is dropped at the end of the SCC). *)
Example ex_large_pool_merge_refuted :
  exists s', iteration_fn sh_id ex_hash enc_list false ex_rows (ex_store 1 2 [(1, [1; 2]%Z)]) [[]; []] [] = Ok ([], ex_rows, false, s')
    /\ sdump s' = [ ([([1; 2]%Z, [])],  [],  []);
                    ([([1]%Z, [2]%Z)],  [],  []);
                    ([],                [],  [([], [1; 2]%Z)]) ].
Proof. eexists. split; vm_compute; reflexivity. Qed.

(* with delta created in the run pool (pool hypothesis) the same merge keeps the row in all three *)
Example ex_same_pool_merge :
  exists s', iteration_fn sh_id ex_hash enc_list false ex_rows (ex_store 2 2 [(1, [1; 2]%Z)]) [[]; []] [] = Ok ([], ex_rows, false, s')
    /\ sdump s' = [ ([([1; 2]%Z, [])],  [],  []);
                    ([([1]%Z, [2]%Z)],  [],  []);
                    ([([], [1; 2]%Z)],  [],  []) ].
Proof. eexists. split; vm_compute; reflexivity. Qed.
