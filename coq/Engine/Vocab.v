(* The fixed vocabulary of interpreted symbols used by the correspondence runs
   (implemented once here and once in gen/dl.py as Rust expression templates).
   Theorems never mention it: they quantify over every interp. *)
From Coq Require Import List ZArith Bool Arith.
From AV Require Import Engine.Core Agg.AggModel.
Import ListNotations.
Open Scope Z_scope.

Definition arg (n : nat) (l : list Z) : Z := nth n l 0.

Definition std_fint (f : nat) (l : list Z) : Z :=
  match f with
  | 0%nat => Z.min (arg 0 l + 1) 7                 (* incs *)
  | 1%nat => (arg 0 l + arg 1 l) mod 7              (* addm *)
  | 2%nat => (arg 0 l) mod 3                        (* mod3 *)
  | 3%nat => Z.max (arg 0 l - 1) 0                  (* decs *)
  | 4%nat => Z.max (arg 0 l) (arg 1 l)              (* max2 *)
  | 5%nat => arg 0 l                                (* asi32: `c as i32` on an aggregate result *)
  | _ => 0
  end.

Definition std_pint (p : nat) (l : list Z) : bool :=
  match p with
  | 0%nat => Z.ltb (arg 0 l) (arg 1 l)             (* lt *)
  | 1%nat => negb (Z.eqb (arg 0 l) (arg 1 l))      (* ne *)
  | 2%nat => Z.eqb ((arg 0 l) mod 2) 0             (* even *)
  | 3%nat => Z.leb (arg 0 l) (arg 1 l)             (* le *)
  | 4%nat => Z.eqb (arg 0 l) (arg 1 l)             (* eq: produced by desugaring repeated variables *)
  | _ => false
  end.

(* let x = f(..) uses the total functions; ids >= 100 are the partial ones of if-let *)
Definition std_bint (f : nat) (l : list Z) : option Z :=
  if Nat.leb 200 f then Some (Z.of_nat (f - 200)) else       (* let x = <constant c>: id 200 + c *)
  match f with
  | 100%nat => if Z.ltb 0 (arg 0 l) then Some (arg 0 l - 1) else None        (* predpos *)
  | 101%nat => if Z.eqb ((arg 0 l) mod 2) 0 then Some ((arg 0 l) / 2) else None  (* half *)
  | 102%nat => Some (arg 0 l)                                                (* identity: ?pattern binding a column *)
  | _ => Some (std_fint f l)
  end.

Fixpoint zrange (lo : Z) (n : nat) : list Z := match n with O => [] | S k => lo :: zrange (lo + 1) k end.
Definition std_gint (g : nat) (l : list Z) : list Z :=
  match g with
  | 0%nat => zrange 0 (Z.to_nat (Z.min (arg 0 l) 4))     (* upto: 0..min(a,4) *)
  | 1%nat => [arg 0 l; arg 1 l]                          (* pair *)
  | 2%nat => [0; 1; 2]                                   (* range3: 0..3 *)
  | _ => []
  end.

Definition col0 (ts : list (list Z)) : list Z := map (fun t => nth 0 t 0) ts.
Definition std_aint (a : nat) (ts : list (list Z)) : list Z :=
  match a with
  | 0%nat => [Z.of_nat (length ts)]                      (* count (the hint shortcut is C17's subject) *)
  | 1%nat => agg_sum (col0 ts)
  | 2%nat => agg_min (col0 ts)
  | 3%nat => agg_max (col0 ts)
  | 4%nat => agg_not (Z.of_nat (length ts))              (* not(): unit rendered as 0 *)
  | _ => []
  end.

Definition std_interp : interp :=
  {| fint := std_fint; pint := std_pint; bint := std_bint; gint := std_gint; aint := std_aint |}.

(* len_estimate comparison of a reorderable simple join; the model's answer does not depend on it *)
Definition std_swap (c1 c2 : list tuple) : bool := Nat.leb (length c1) (length c2).
