(* Lemmas about the specification semantics (Sem.all_envs) and the versioned
   naive semantics (Naive.all_envs_a) for bodies without aggregates:
   boolean-equality specs, monotonicity in the relation contents, the bridge
   all_envs = all_envs_a over a version-independent database, extraction of a
   Total/Delta assignment from a derivation over T ++ D, admits / covers. *)
From Coq Require Import List ZArith Bool Arith Lia.
From AV Require Import Engine.Core Engine.Sem Engine.Eval Engine.Validate Engine.Naive Engine.Interface.
Import ListNotations.
Local Open Scope nat_scope.

(* ---------- boolean equalities ---------- *)
Lemma zlist_eqb_eq : forall a b, zlist_eqb a b = true <-> a = b.
Proof.
  induction a as [|x a IH]; destruct b as [|y b]; cbn [zlist_eqb]; split; intro H;
    try reflexivity; try discriminate.
  - apply andb_true_iff in H as [H1 H2]. apply Z.eqb_eq in H1. apply IH in H2. subst. reflexivity.
  - injection H as -> ->. apply andb_true_iff. split; [apply Z.eqb_refl | apply IH; reflexivity].
Qed.

Lemma fact_eqb_eq : forall f g, fact_eqb f g = true <-> f = g.
Proof.
  intros [r t] [r' t']. unfold fact_eqb. cbn [fst snd]. rewrite andb_true_iff, Nat.eqb_eq, zlist_eqb_eq.
  split; [intros [-> ->]; reflexivity | intros H; injection H as -> ->; split; reflexivity].
Qed.

Lemma mem_fact_In : forall f l, mem_fact f l = true <-> In f l.
Proof.
  intros f l. unfold mem_fact. rewrite existsb_exists. split.
  - intros [g [Hg He]]. apply fact_eqb_eq in He. subst. exact Hg.
  - intros H. exists f. split; [exact H | apply fact_eqb_eq; reflexivity].
Qed.

Lemma mem_fact_false : forall f l, mem_fact f l = false <-> ~ In f l.
Proof.
  intros f l. rewrite <- mem_fact_In. destruct (mem_fact f l); split; intro H; try reflexivity; try discriminate.
  exfalso. apply H. reflexivity.
Qed.

Lemma is_dyn_In : forall dyn r, is_dyn dyn r = true <-> In r dyn.
Proof.
  intros dyn r. unfold is_dyn. rewrite existsb_exists. split.
  - intros [q [Hq He]]. apply Nat.eqb_eq in He. subst. exact Hq.
  - intros H. exists r. split; [exact H | apply Nat.eqb_refl].
Qed.

Lemma existsb_nat_In : forall x l, existsb (Nat.eqb x) l = true <-> In x l.
Proof. intros x l. exact (is_dyn_In l x). Qed.

Lemma nats_eqb_eq : forall a b, nats_eqb a b = true -> a = b.
Proof.
  induction a as [|x a IH]; destruct b as [|y b]; cbn [nats_eqb]; intro H; try reflexivity; try discriminate.
  apply andb_true_iff in H as [H1 H2]. apply Nat.eqb_eq in H1. apply IH in H2. subst. reflexivity.
Qed.

Lemma list_eqb_eq : forall (A : Type) (eqb : A -> A -> bool),
  (forall x y, eqb x y = true -> x = y) -> forall a b, list_eqb eqb a b = true -> a = b.
Proof.
  intros A eqb Heq. induction a as [|x a IH]; destruct b as [|y b]; cbn [list_eqb]; intro H;
    try reflexivity; try discriminate.
  apply andb_true_iff in H as [H1 H2]. apply Heq in H1. apply IH in H2. subst. reflexivity.
Qed.

Lemma term_eqb_eq : forall s t, term_eqb s t = true -> s = t.
Proof.
  intros [x|c|f xs] [y|d|g ys]; cbn [term_eqb]; intro H; try discriminate.
  - apply Nat.eqb_eq in H. subst. reflexivity.
  - apply Z.eqb_eq in H. subst. reflexivity.
  - apply andb_true_iff in H as [H1 H2]. apply Nat.eqb_eq in H1. apply nats_eqb_eq in H2. subst. reflexivity.
Qed.

Lemma cond_eqb_eq : forall c d, cond_eqb c d = true -> c = d.
Proof.
  intros [p xs|x f xs] [q ys|y g ys]; cbn [cond_eqb]; intro H; try discriminate.
  - apply andb_true_iff in H as [H1 H2]. apply Nat.eqb_eq in H1. apply nats_eqb_eq in H2. subst. reflexivity.
  - apply andb_true_iff in H as [H12 H3]. apply andb_true_iff in H12 as [H1 H2].
    apply Nat.eqb_eq in H1. apply Nat.eqb_eq in H2. apply nats_eqb_eq in H3. subst. reflexivity.
Qed.

Lemma aarg_eqb_eq : forall a b, aarg_eqb a b = true -> a = b.
Proof.
  intros [|x|s] [|y|t]; cbn [aarg_eqb]; intro H; try discriminate; try reflexivity.
  - apply Nat.eqb_eq in H. subst. reflexivity.
  - apply term_eqb_eq in H. subst. reflexivity.
Qed.

Lemma optnat_eqb_eq : forall a b, optnat_eqb a b = true -> a = b.
Proof.
  intros [x|] [y|]; cbn [optnat_eqb]; intro H; try discriminate; try reflexivity.
  apply Nat.eqb_eq in H. subst. reflexivity.
Qed.

Lemma bitem_eqb_eq : forall a b, bitem_eqb a b = true -> a = b.
Proof.
  intros [r args cs|c|x g xs|o a bd r args] [r' args' cs'|d|y h ys|o' a' bd' r' args']; cbn [bitem_eqb]; intro H;
    try discriminate.
  - apply andb_true_iff in H as [H12 H3]. apply andb_true_iff in H12 as [H1 H2].
    apply Nat.eqb_eq in H1. apply (list_eqb_eq _ _ term_eqb_eq) in H2. apply (list_eqb_eq _ _ cond_eqb_eq) in H3.
    subst. reflexivity.
  - apply cond_eqb_eq in H. subst. reflexivity.
  - apply andb_true_iff in H as [H12 H3]. apply andb_true_iff in H12 as [H1 H2].
    apply Nat.eqb_eq in H1. apply Nat.eqb_eq in H2. apply nats_eqb_eq in H3. subst. reflexivity.
  - apply andb_true_iff in H as [H1234 H5]. apply andb_true_iff in H1234 as [H123 H4].
    apply andb_true_iff in H123 as [H12 H3]. apply andb_true_iff in H12 as [H1 H2].
    apply optnat_eqb_eq in H1. apply Nat.eqb_eq in H2. apply nats_eqb_eq in H3. apply Nat.eqb_eq in H4.
    apply (list_eqb_eq _ _ aarg_eqb_eq) in H5. subst. reflexivity.
Qed.

Lemma head_eqb_eq : forall h g, head_eqb h g = true -> h = g.
Proof.
  intros [r ts] [r' ts']. unfold head_eqb. cbn [fst snd]. intro H.
  apply andb_true_iff in H as [H1 H2]. apply Nat.eqb_eq in H1. apply (list_eqb_eq _ _ term_eqb_eq) in H2.
  subst. reflexivity.
Qed.

(* ---------- lists ---------- *)
Lemma in_filter_map : forall (A B : Type) (f : A -> option B) l b,
  In b (filter_map f l) <-> exists a, In a l /\ f a = Some b.
Proof.
  intros A B f l b. induction l as [|a l IH]; cbn [filter_map].
  - split; [intros [] | intros [a [[] _]]].
  - destruct (f a) as [b'|] eqn:Hfa.
    + cbn [In]. rewrite IH. split.
      * intros [-> | [a' [Ha' Hf]]]; [exists a; split; [left; reflexivity | exact Hfa] | exists a'; split; [right; exact Ha' | exact Hf]].
      * intros [a' [[-> | Ha'] Hf]]; [left; congruence | right; exists a'; split; assumption].
    + rewrite IH. split.
      * intros [a' [Ha' Hf]]. exists a'. split; [right; exact Ha' | exact Hf].
      * intros [a' [[-> | Ha'] Hf]]; [congruence | exists a'; split; assumption].
Qed.

Lemma flat_map_nil_all : forall (A B : Type) (f : A -> list B) l,
  (forall x, In x l -> f x = []) -> flat_map f l = [].
Proof.
  intros A B f l H. induction l as [|a l IH]; cbn [flat_map]; [reflexivity|].
  rewrite (H a (or_introl eq_refl)). cbn [app]. apply IH. intros x Hx. apply H. right. exact Hx.
Qed.

Lemma nth_tl : forall (A : Type) k (a : list A) d, nth k (tl a) d = nth (S k) a d.
Proof. intros A k [|x a] d; destruct k; reflexivity. Qed.

Lemma hd_nth : forall (A : Type) (a : list A) d, hd d a = nth 0 a d.
Proof. intros A [|x a] d; reflexivity. Qed.

(* ---------- db_of ---------- *)
Lemma in_db_of : forall F r t, In t (db_of F r) <-> In (r, t) F.
Proof.
  intros F r t. unfold db_of. rewrite in_map_iff. split.
  - intros [[q u] [Hu Hin]]. cbn [snd] in Hu. subst u. apply filter_In in Hin as [Hin He].
    cbn [fst] in He. apply Nat.eqb_eq in He. subst q. exact Hin.
  - intros H. exists (r, t). split; [reflexivity|]. apply filter_In. split; [exact H | apply Nat.eqb_refl].
Qed.

Lemma db_of_app : forall F G r, db_of (F ++ G) r = db_of F r ++ db_of G r.
Proof. intros F G r. unfold db_of. rewrite filter_app, map_app. reflexivity. Qed.

Lemma db_of_incl : forall F G r, incl F G -> incl (db_of F r) (db_of G r).
Proof. intros F G r H t Ht. apply in_db_of. apply H. apply in_db_of. exact Ht. Qed.

(* ---------- head instantiation ---------- *)
Lemma in_heads_of_envs : forall I hs envs f,
  In f (flat_map (fun e => filter_map (eval_head I e) hs) envs)
  <-> exists e h, In e envs /\ In h hs /\ eval_head I e h = Some f.
Proof.
  intros I hs envs f. rewrite in_flat_map. split.
  - intros [e [He Hf]]. apply in_filter_map in Hf as [h [Hh Hev]]. exists e, h. auto.
  - intros [e [h [He [Hh Hev]]]]. exists e. split; [exact He|]. apply in_filter_map. exists h. auto.
Qed.

Lemma eval_terms_length : forall I e ts vs, eval_terms I e ts = Some vs -> length vs = length ts.
Proof.
  intros I e. induction ts as [|t ts IH]; cbn [eval_terms]; intros vs H.
  - injection H as <-. reflexivity.
  - destruct (eval_term I e t); [|discriminate]. destruct (eval_terms I e ts) as [vs'|]; [|discriminate].
    injection H as <-. cbn [length]. f_equal. apply IH. reflexivity.
Qed.

Lemma eval_head_shape : forall I e h f, eval_head I e h = Some f -> fst f = fst h /\ length (snd f) = length (snd h).
Proof.
  intros I e h f. unfold eval_head. destruct (eval_terms I e (snd h)) as [vs|] eqn:Hvs; cbn [option_map]; intro H;
    [|discriminate].
  injection H as <-. cbn [fst snd]. split; [reflexivity | eapply eval_terms_length; exact Hvs].
Qed.

(* ---------- clause relations, number of dynamic clauses ---------- *)
Definition clause_rels (items : list bitem) : list rel :=
  flat_map (fun b => match b with BClause q _ _ => [q] | _ => [] end) items.

Lemma body_clause_rels_eq : forall r, body_clause_rels r = clause_rels (body r).
Proof. reflexivity. Qed.

Definition ndyn_items (dyn : list rel) (items : list bitem) : nat :=
  length (filter (is_dyn dyn) (clause_rels items)).

Lemma ndyn_items_clause : forall dyn r args cs rest,
  ndyn_items dyn (BClause r args cs :: rest) = (if is_dyn dyn r then 1 else 0) + ndyn_items dyn rest.
Proof.
  intros. unfold ndyn_items, clause_rels. cbn [flat_map app filter]. destruct (is_dyn dyn r); reflexivity.
Qed.

Lemma ndyn_items_other : forall dyn b rest,
  match b with BClause _ _ _ => False | _ => True end ->
  ndyn_items dyn (b :: rest) = ndyn_items dyn rest.
Proof. intros dyn [r args cs|c|x g xs|o a bd r args] rest H; [destruct H | reflexivity ..]. Qed.

Lemma dyn_versions_length : forall dyn items,
  length (dyn_versions dyn items) = ndyn_items dyn (map item_of items).
Proof.
  intros dyn. induction items as [|p items IH]; [reflexivity|].
  unfold dyn_versions. cbn [flat_map map]. rewrite app_length. fold (dyn_versions dyn items). rewrite IH.
  destruct p as [r args cs idx v|c|x g xs|o a bd r args idx]; cbn [item_of].
  - rewrite ndyn_items_clause. destruct (is_dyn dyn r); reflexivity.
  - reflexivity.
  - reflexivity.
  - reflexivity.
Qed.

Lemma ndyn_zero_static : forall dyn items r,
  ndyn_items dyn items = 0 -> In r (clause_rels items) -> is_dyn dyn r = false.
Proof.
  intros dyn items r H Hin. unfold ndyn_items in H. apply length_zero_iff_nil in H.
  destruct (is_dyn dyn r) eqn:Hd; [|reflexivity].
  assert (Hf : In r (filter (is_dyn dyn) (clause_rels items))) by (apply filter_In; split; assumption).
  rewrite H in Hf. destruct Hf.
Qed.

Lemma clause_rels_cons_incl : forall b rest r, In r (clause_rels rest) -> In r (clause_rels (b :: rest)).
Proof. intros b rest r H. unfold clause_rels. cbn [flat_map]. apply in_or_app. right. exact H. Qed.

(* ---------- monotonicity of the versioned naive semantics ---------- *)
Section Mono.
Variable I : interp.
Variables c1 c2 : rel -> version -> list tuple.
Variable dyn : list rel.

Lemma all_envs_a_mono : forall items a1 a2 e,
  forallb no_agg_item items = true ->
  (forall r, In r (clause_rels items) -> is_dyn dyn r = false -> incl (c1 r VTotal) (c2 r VTotal)) ->
  (forall k r, In r (clause_rels items) -> is_dyn dyn r = true -> incl (c1 r (nth k a1 VTotal)) (c2 r (nth k a2 VTotal))) ->
  incl (all_envs_a I c1 dyn a1 items e) (all_envs_a I c2 dyn a2 items e).
Proof.
  induction items as [|b rest IH]; intros a1 a2 e Hna Hst Hdy.
  - cbn [all_envs_a]. apply incl_refl.
  - cbn [forallb] in Hna. apply andb_true_iff in Hna as [Hb Hna].
    assert (Hst' : forall r, In r (clause_rels rest) -> is_dyn dyn r = false -> incl (c1 r VTotal) (c2 r VTotal)).
    { intros r Hr. apply Hst. apply clause_rels_cons_incl. exact Hr. }
    destruct b as [r args cs|c|x g xs|o ag bd r args].
    + assert (Hr : In r (clause_rels (BClause r args cs :: rest))) by (left; reflexivity).
      cbn [all_envs_a]. intros e' Hin. apply in_flat_map in Hin as [tup [Htup Hin]]. apply in_flat_map.
      exists tup. destruct (is_dyn dyn r) eqn:Hd.
      * split.
        -- rewrite hd_nth. apply (Hdy 0 r Hr Hd). rewrite <- hd_nth. exact Htup.
        -- destruct (match_args I e args tup) as [e1|]; [|exact Hin].
           destruct (sat_conds I e1 cs) as [e2|]; [|exact Hin].
           revert Hin. apply IH; [exact Hna | exact Hst' |].
           intros k q Hq Hqd. rewrite !nth_tl. apply Hdy; [apply clause_rels_cons_incl; exact Hq | exact Hqd].
      * split.
        -- apply (Hst r Hr Hd). exact Htup.
        -- destruct (match_args I e args tup) as [e1|]; [|exact Hin].
           destruct (sat_conds I e1 cs) as [e2|]; [|exact Hin].
           revert Hin. apply IH; [exact Hna | exact Hst' |].
           intros k q Hq Hqd. apply Hdy; [apply clause_rels_cons_incl; exact Hq | exact Hqd].
    + cbn [all_envs_a]. destruct (sat_cond I e c) as [e'|]; [|apply incl_refl].
      apply IH; [exact Hna | exact Hst' |]. intros k q Hq. apply Hdy. apply clause_rels_cons_incl. exact Hq.
    + cbn [all_envs_a]. destruct (eval_vars e xs) as [vs|]; [|apply incl_refl].
      intros e' Hin. apply in_flat_map in Hin as [v [Hv Hin]]. apply in_flat_map. exists v. split; [exact Hv|].
      revert Hin. apply IH; [exact Hna | exact Hst' |]. intros k q Hq. apply Hdy. apply clause_rels_cons_incl. exact Hq.
    + discriminate Hb.
Qed.
End Mono.

(* the specification semantics is the versioned one over a version-independent database *)
Lemma all_envs_as_a : forall I db dyn items a e,
  all_envs I db items e = all_envs_a I (fun r _ => db r) dyn a items e.
Proof.
  intros I db dyn. induction items as [|b rest IH]; intros a e; [reflexivity|].
  destruct b as [r args cs|c|x g xs|o ag bd r args]; cbn [all_envs all_envs_a].
  - apply flat_map_ext. intro tup. destruct (match_args I e args tup) as [e1|]; [|reflexivity].
    destruct (sat_conds I e1 cs) as [e2|]; [|reflexivity]. apply IH.
  - destruct (sat_cond I e c); [apply IH | reflexivity].
  - destruct (eval_vars e xs); [|reflexivity]. apply flat_map_ext. intro v. apply IH.
  - apply flat_map_ext. intro v. apply IH.
Qed.

Lemma all_envs_mono : forall I db1 db2 items e,
  forallb no_agg_item items = true ->
  (forall r, In r (clause_rels items) -> incl (db1 r) (db2 r)) ->
  incl (all_envs I db1 items e) (all_envs I db2 items e).
Proof.
  intros I db1 db2 items e Hna H.
  rewrite (all_envs_as_a I db1 [] items [] e), (all_envs_as_a I db2 [] items [] e).
  apply all_envs_a_mono; [exact Hna | intros r Hr _; apply H; exact Hr | intros k r Hr _; apply H; exact Hr].
Qed.

(* versioned semantics into the specification semantics over any database containing every version *)
Lemma all_envs_a_into_sem : forall I cont dyn db items a e,
  forallb no_agg_item items = true ->
  (forall r v, In r (clause_rels items) -> incl (cont r v) (db r)) ->
  incl (all_envs_a I cont dyn a items e) (all_envs I db items e).
Proof.
  intros I cont dyn db items a e Hna H. rewrite (all_envs_as_a I db dyn items a e).
  apply all_envs_a_mono; [exact Hna | intros r Hr _; apply H; exact Hr | intros k r Hr _; apply H; exact Hr].
Qed.

Lemma derive_rule_mono : forall I db1 db2 r f,
  no_agg_rule r = true ->
  (forall q, In q (body_clause_rels r) -> incl (db1 q) (db2 q)) ->
  In f (derive_rule I db1 r) -> In f (derive_rule I db2 r).
Proof.
  intros I db1 db2 r f Hna H Hf. unfold derive_rule in *. apply in_heads_of_envs in Hf as [e [h [He [Hh Hev]]]].
  apply in_heads_of_envs. exists e, h. split; [|split; assumption].
  revert He. apply all_envs_mono; [exact Hna | exact H].
Qed.

(* ---------- the database of a stratum: S for static relations, X for dynamic ones ---------- *)
Definition sdb (S X : list fact) (dyn : list rel) (r : rel) : list tuple :=
  if is_dyn dyn r then db_of X r else db_of S r.

Definition vers (a : list bool) : list version := map (fun b : bool => if b then VDelta else VTotal) a.

Lemma vers_no_delta : forall a k, has_delta a = false -> nth k (vers a) VTotal = VTotal.
Proof.
  unfold has_delta. induction a as [|b a IH]; intros k H; [destruct k; reflexivity|].
  cbn [existsb] in H. apply orb_false_iff in H as [Hb Ha]. subst b.
  destruct k; cbn [vers map nth]; [reflexivity | apply IH; exact Ha].
Qed.

Section Extract.
Variable I : interp.
Variables S T D : list fact.
Variable dyn : list rel.

(* (3) assignment extraction *)
Lemma extract_assignment : forall items e e',
  forallb no_agg_item items = true ->
  In e' (all_envs I (sdb S (T ++ D) dyn) items e) ->
  exists a, length a = ndyn_items dyn items /\
            In e' (all_envs_a I (contents S T D dyn) dyn (vers a) items e).
Proof.
  induction items as [|b rest IH]; intros e e' Hna Hin.
  - exists []. split; [reflexivity | exact Hin].
  - cbn [forallb] in Hna. apply andb_true_iff in Hna as [Hb Hna].
    destruct b as [r args cs|c|x g xs|o ag bd r args].
    + cbn [all_envs] in Hin. apply in_flat_map in Hin as [tup [Htup Hin]].
      destruct (match_args I e args tup) as [e1|] eqn:Hm; [|destruct Hin].
      destruct (sat_conds I e1 cs) as [e2|] eqn:Hs; [|destruct Hin].
      destruct (IH e2 e' Hna Hin) as [a' [Hlen Hin']].
      rewrite ndyn_items_clause. unfold sdb in Htup. destruct (is_dyn dyn r) eqn:Hd.
      * rewrite db_of_app in Htup. apply in_app_or in Htup as [Ht | Ht].
        -- exists (false :: a'). split; [cbn [length]; lia|].
           cbn [vers map all_envs_a]. rewrite Hd. cbn [hd tl]. apply in_flat_map. exists tup. split.
           ++ unfold contents. rewrite Hd. exact Ht.
           ++ rewrite Hm, Hs. exact Hin'.
        -- exists (true :: a'). split; [cbn [length]; lia|].
           cbn [vers map all_envs_a]. rewrite Hd. cbn [hd tl]. apply in_flat_map. exists tup. split.
           ++ unfold contents. rewrite Hd. exact Ht.
           ++ rewrite Hm, Hs. exact Hin'.
      * exists a'. split; [lia|]. cbn [all_envs_a]. rewrite Hd. apply in_flat_map. exists tup. split.
        -- unfold contents. rewrite Hd. exact Htup.
        -- rewrite Hm, Hs. exact Hin'.
    + cbn [all_envs] in Hin. destruct (sat_cond I e c) as [e1|] eqn:Hc; [|destruct Hin].
      destruct (IH e1 e' Hna Hin) as [a' [Hlen Hin']]. exists a'. split; [exact Hlen|].
      cbn [all_envs_a]. rewrite Hc. exact Hin'.
    + cbn [all_envs] in Hin. destruct (eval_vars e xs) as [vs|] eqn:Hv; [|destruct Hin].
      apply in_flat_map in Hin as [v [Hvin Hin]].
      destruct (IH _ e' Hna Hin) as [a' [Hlen Hin']]. exists a'. split; [exact Hlen|].
      cbn [all_envs_a]. rewrite Hv. apply in_flat_map. exists v. split; assumption.
    + discriminate Hb.
Qed.

(* an assignment without Delta reads T everywhere *)
Lemma no_delta_reads_total : forall items a e,
  forallb no_agg_item items = true -> has_delta a = false ->
  incl (all_envs_a I (contents S T D dyn) dyn (vers a) items e) (all_envs I (sdb S T dyn) items e).
Proof.
  intros items a e Hna Ha. rewrite (all_envs_as_a I (sdb S T dyn) dyn items (vers a) e).
  apply all_envs_a_mono; [exact Hna | |].
  - intros r _ Hd. unfold contents, sdb. rewrite Hd. apply incl_refl.
  - intros k r _ Hd. rewrite (vers_no_delta a k Ha). unfold contents, sdb. rewrite Hd. apply incl_refl.
Qed.

(* (4) admitted assignments are included in the variant's version vector *)
Lemma admits_nth : forall w a, admits w a = true ->
  forall k r, incl (contents S T D dyn r (nth k (vers a) VTotal)) (contents S T D dyn r (nth k w VTotal)).
Proof.
  induction w as [|v w IH]; destruct a as [|b a]; cbn [admits]; intros H k r; try discriminate.
  - apply incl_refl.
  - apply andb_true_iff in H as [Hv Hw]. destruct k as [|k]; cbn [vers map nth].
    + unfold contents. destruct (is_dyn dyn r); [|apply incl_refl].
      destruct v, b; cbn in Hv; try discriminate; try apply incl_refl;
        [apply incl_appr | apply incl_appl]; apply incl_refl.
    + apply (IH a Hw k r).
Qed.

Lemma admits_incl : forall w a items e,
  forallb no_agg_item items = true -> admits w a = true ->
  incl (all_envs_a I (contents S T D dyn) dyn (vers a) items e) (all_envs_a I (contents S T D dyn) dyn w items e).
Proof.
  intros w a items e Hna Hw. apply all_envs_a_mono; [exact Hna | intros; apply incl_refl |].
  intros k r _ _. apply admits_nth. exact Hw.
Qed.
End Extract.

(* no derivation when a dynamic clause reads an empty relation *)
Lemma all_envs_empty_dyn : forall I db dyn,
  (forall r, is_dyn dyn r = true -> db r = []) ->
  forall items e, ndyn_items dyn items <> 0 -> all_envs I db items e = [].
Proof.
  intros I db dyn Hdb. induction items as [|b rest IH]; intros e Hn; [exfalso; apply Hn; reflexivity|].
  destruct b as [r args cs|c|x g xs|o ag bd r args]; cbn [all_envs].
  - rewrite ndyn_items_clause in Hn. destruct (is_dyn dyn r) eqn:Hd.
    + rewrite (Hdb r Hd). reflexivity.
    + apply flat_map_nil_all. intros tup _. destruct (match_args I e args tup) as [e1|]; [|reflexivity].
      destruct (sat_conds I e1 cs) as [e2|]; [|reflexivity]. apply IH. exact Hn.
  - destruct (sat_cond I e c); [|reflexivity]. apply IH. exact Hn.
  - destruct (eval_vars e xs); [|reflexivity]. apply flat_map_nil_all. intros v _. apply IH. exact Hn.
  - apply flat_map_nil_all. intros v _. apply IH. exact Hn.
Qed.

(* ---------- covers ---------- *)
Lemma in_assignments : forall n a, length a = n -> In a (assignments n).
Proof.
  induction n as [|n IH]; intros a Hl.
  - destruct a; [left; reflexivity | discriminate].
  - destruct a as [|b a]; [discriminate|]. cbn [length] in Hl. injection Hl as Hl.
    cbn [assignments]. apply in_flat_map. exists a. split; [apply IH; exact Hl|].
    destruct b; [right; left; reflexivity | left; reflexivity].
Qed.

Lemma covers_spec : forall n ws a,
  covers n ws = true -> (forall w, In w ws -> length w = n) -> length a = n ->
  has_delta a = true \/ n = 0 ->
  exists w, In w ws /\ admits w a = true.
Proof.
  intros n ws a Hc Hws Hl Hd. destruct n as [|n].
  - cbn [covers] in Hc. destruct ws as [|w ws]; [discriminate|]. exists w. split; [left; reflexivity|].
    assert (Hw : length w = 0) by (apply Hws; left; reflexivity).
    destruct w; [|discriminate]. destruct a; [reflexivity | discriminate].
  - destruct Hd as [Hd | Hd]; [|discriminate]. cbn [covers] in Hc.
    rewrite forallb_forall in Hc. specialize (Hc a (in_assignments _ a Hl)). rewrite Hd in Hc. cbn [negb orb] in Hc.
    apply existsb_exists in Hc. exact Hc.
Qed.

(* ---------- well-formedness as a proposition ---------- *)
Lemma wf_facts_forall : forall arities F, wf_facts arities F = true <-> (forall f, In f F -> wf_fact arities f = true).
Proof. intros. unfold wf_facts. apply forallb_forall. Qed.

Lemma dedup_nat_In : forall x l, In x (dedup_nat l) <-> In x l.
Proof.
  intros x. induction l as [|y l IH]; cbn [dedup_nat]; [reflexivity|].
  destruct (existsb (Nat.eqb y) l) eqn:He.
  - rewrite IH. cbn [In]. split; [intro H; right; exact H|]. intros [-> | H]; [apply existsb_nat_In; exact He | exact H].
  - cbn [In]. rewrite IH. reflexivity.
Qed.

Lemma NoDup_app_intro : forall (A : Type) (l1 l2 : list A),
  NoDup l1 -> NoDup l2 -> (forall x, In x l1 -> In x l2 -> False) -> NoDup (l1 ++ l2).
Proof.
  intros A. induction l1 as [|a l1 IH]; intros l2 H1 H2 Hd; cbn [app]; [exact H2|].
  inversion H1 as [|a' l' Hna Hnd]; subst. constructor.
  - intro Hin. apply in_app_or in Hin as [Hin | Hin]; [contradiction|].
    apply (Hd a); [left; reflexivity | exact Hin].
  - apply IH; [exact Hnd | exact H2|]. intros x Hx1 Hx2. apply (Hd x); [right; exact Hx1 | exact Hx2].
Qed.
