(* Executable model of the generated evaluation code (ascent_codegen.rs:
   compile_mir / compile_mir_scc / compile_mir_rule_inner / head_update_code,
   compile_update_indices_function_body), for relations (not lattices).

   State: the rows of all relations in insertion order (the public Vec fields,
   flattened: the rows of relation r are the facts with first component r), and
   the contents of the stored indices (one multiset per relation shared by all
   of its indices; every index is a view: lookups filter by key, the full index
   deduplicates).  Hash-map iteration order is not modelled: results are
   compared as sets. *)
From Coq Require Import List ZArith Bool Arith.
From AV Require Import Engine.Core Engine.Sem.
Import ListNotations.
Open Scope Z_scope.

Inductive version := VTotal | VDelta | VTotalDelta.

Inductive pitem :=
| PClause (r : rel) (args : list term) (cs : list cond) (idx : list nat) (ver : version)
| PCond (c : cond)
| PGen (x : var) (g : nat) (xs : list var)
| PAgg (out : option var) (a : nat) (bound : list var) (r : rel) (args : list aarg) (idx : list nat).

Record variant := {
  v_rule : nat;                           (* index of the source rule *)
  v_heads : list (rel * list term);
  v_items : list pitem;
  v_sj : option nat;                      (* simple_join_start_index *)
  v_reord : bool                          (* reorderable *)
}.
Record pscc := { s_vars : list variant; s_dyn : list rel; s_loop : bool }.
Definition plan := list pscc.

Record state := { rows : list fact; stored : list fact }.

Section Eval.
Variable I : interp.
(* run-time choice `rel1.len_estimate() <= rel2.len_estimate()` of a reorderable simple join;
   the theorems hold for every such oracle *)
Variable swap_oracle : list tuple -> list tuple -> bool.

Definition is_dyn (dyn : list rel) (r : rel) : bool := existsb (Nat.eqb r) dyn.

(* contents of relation r in a given version, within an SCC with static facts S,
   total T and delta D (lists of facts) *)
Definition contents (S T D : list fact) (dyn : list rel) (r : rel) (v : version) : list tuple :=
  if is_dyn dyn r then
    match v with VTotal => db_of T r | VDelta => db_of D r | VTotalDelta => db_of T r ++ db_of D r end
  else db_of S r.

Definition proj (idx : list nat) (t : tuple) : list Z := map (fun i => nth i t 0) idx.

(* index_get: the entries stored under the key; the full index (all columns) is a set *)
Definition index_get (cont : list tuple) (arity : nat) (idx : list nat) (key : list Z) : list tuple :=
  let m := filter (fun t => zlist_eqb (proj idx t) key) cont in
  if Nat.eqb (length idx) arity then dedup_tuples m else m.

Fixpoint eval_key (e : env) (args : list term) (idx : list nat) : option (list Z) :=
  match idx with
  | [] => Some []
  | i :: idx' => match nth_error args i with
                 | Some t => match eval_term I e t, eval_key e args idx' with
                             | Some v, Some vs => Some (v :: vs) | _, _ => None end
                 | None => None end
  end.

(* new_vars_assignments: variables of the clause not bound before are assigned from the
   matched tuple; NO equality test is generated for any column *)
Fixpoint bind_new (e : env) (args : list term) (tup : tuple) : env :=
  match args, tup with
  | TVar x :: args', v :: tup' =>
      match lookup e x with Some _ => bind_new e args' tup' | None => bind_new (bind x v e) args' tup' end
  | _ :: args', _ :: tup' => bind_new e args' tup'
  | _, _ => e
  end.

Definition item_of (p : pitem) : bitem :=
  match p with
  | PClause r args cs _ _ => BClause r args cs
  | PCond c => BCond c
  | PGen x g xs => BGen x g xs
  | PAgg out a bound r args _ => BAgg out a bound r args
  end.

Fixpoint agg_key (e : env) (args : list aarg) (idx : list nat) : option (list Z) :=
  match idx with
  | [] => Some []
  | i :: idx' => match nth_error args i with
                 | Some (AKey t) => match eval_term I e t, agg_key e args idx' with
                                    | Some v, Some vs => Some (v :: vs) | _, _ => None end
                 | _ => None end
  end.

Section Items.
Variable cont : rel -> version -> list tuple.

(* a clause looked up through its index *)
Definition eval_clause_idx (k : env -> list env) (e : env) r args cs idx ver : list env :=
  match eval_key e args idx with
  | None => []
  | Some key =>
      flat_map (fun tup => match sat_conds I (bind_new e args tup) cs with Some e2 => k e2 | None => [] end)
               (index_get (cont r ver) (length args) idx key)
  end.

(* a clause iterated completely (iter_all: first clause of a simple join) *)
Definition eval_clause_all (k : env -> list env) (e : env) r args cs ver : list env :=
  flat_map (fun tup => match sat_conds I (bind_new e args tup) cs with Some e2 => k e2 | None => [] end)
           (cont r ver).

Fixpoint eval_items (items : list pitem) (e : env) : list env :=
  match items with
  | [] => [e]
  | PClause r args cs idx ver :: rest => eval_clause_idx (eval_items rest) e r args cs idx ver
  | PCond c :: rest => match sat_cond I e c with Some e' => eval_items rest e' | None => [] end
  | PGen x g xs :: rest =>
      match eval_vars e xs with
      | Some vs => flat_map (fun v => eval_items rest (bind x v e)) (gint I g vs)
      | None => [] end
  | PAgg out a bound r args idx :: rest =>
      match agg_key e args idx with
      | None => []
      | Some key =>
          let matching := index_get (cont r VTotal) (length args) idx key in
          flat_map (fun v => eval_items rest (bind_out out v e)) (aint I a (map (Sem.agg_input bound args) matching))
      end
  end.

(* simple join at position 0 of [items]: the first clause is iterated completely, the second is
   looked up by its index; when reorderable and the oracle says so, the two clauses are swapped *)
Definition eval_simple_join (items : list pitem) (reord : bool) (e : env) : list env :=
  match items with
  | PClause r1 a1 c1 i1 v1 :: PClause r2 a2 c2 i2 v2 :: rest =>
      if reord && negb (swap_oracle (cont r1 v1) (cont r2 v2)) then
        eval_clause_all (fun e1 => eval_clause_idx (eval_items rest) e1 r1 a1 c1 i1 v1) e r2 a2 c2 v2
      else
        eval_clause_all (fun e1 => eval_clause_idx (eval_items rest) e1 r2 a2 c2 i2 v2) e r1 a1 c1 v1
  | _ => eval_items items e
  end.

(* items before the simple join start are evaluated normally *)
Fixpoint eval_from (items : list pitem) (sj : option nat) (reord : bool) (e : env) : list env :=
  match sj with
  | None => eval_items items e
  | Some O => eval_simple_join items reord e
  | Some (S n) =>
      match items with
      | [] => [e]
      | PCond c :: rest => match sat_cond I e c with Some e' => eval_from rest (Some n) reord e' | None => [] end
      | PGen x g xs :: rest =>
          match eval_vars e xs with
          | Some vs => flat_map (fun v => eval_from rest (Some n) reord (bind x v e)) (gint I g vs)
          | None => [] end
      | PAgg out a bound r args idx :: rest =>
          match agg_key e args idx with
          | None => []
          | Some key =>
              let matching := index_get (cont r VTotal) (length args) idx key in
              flat_map (fun v => eval_from rest (Some n) reord (bind_out out v e))
                       (aint I a (map (Sem.agg_input bound args) matching))
          end
      | PClause r args cs idx ver :: rest =>    (* cannot happen: sj is the first clause *)
          eval_clause_idx (eval_from rest (Some n) reord) e r args cs idx ver
      end
  end.

Definition clause_empty (p : pitem) : bool :=
  match p with PClause r _ _ _ ver => match cont r ver with [] => true | _ => false end | _ => false end.
Definition is_clause (p : pitem) : bool := match p with PClause _ _ _ _ _ => true | _ => false end.

(* compile_mir_rule: optional any-relation-empty skip around the rule body *)
Definition eval_variant (v : variant) : list fact :=
  let ncl := length (filter is_clause (v_items v)) in
  let can_help := Nat.ltb 1 ncl && negb (match v_sj v with Some _ => Nat.eqb ncl 2 | None => false end) in
  if can_help && existsb clause_empty (v_items v) then []
  else flat_map (fun e => filter_map (eval_head I e) (v_heads v)) (eval_from (v_items v) (v_sj v) (v_reord v) []).
End Items.

(* head update for relations: contains(total), contains(delta), insert_if_not_present(new), push *)
Definition head_update (T D : list fact) (acc : list fact * list fact) (f : fact) : list fact * list fact :=
  let '(N, R) := acc in
  if mem_fact f T || mem_fact f D || mem_fact f N then (N, R) else (N ++ [f], R ++ [f]).

(* one evaluation of all rule variants of an SCC: new facts N and the extended rows *)
Definition scc_iteration (sc : pscc) (S T D : list fact) (R : list fact) : list fact * list fact :=
  fold_left (fun acc v => fold_left (head_update T D) (eval_variant (contents S T D (s_dyn sc)) v) acc)
            (s_vars sc) ([], R).

(* loop { evaluate; merge delta into total, new into delta; exit when nothing changed } *)
Fixpoint scc_loop (fuel : nat) (sc : pscc) (S T D R : list fact) : option (list fact * list fact) :=
  match fuel with
  | O => None
  | S n => let '(N, R') := scc_iteration sc S T D R in
           match N with
           | [] => Some (T ++ D, R')
           | _ => scc_loop n sc S (T ++ D) N R'
           end
  end.

Definition fact_dyn (dyn : list rel) (f : fact) : bool := is_dyn dyn (fst f).

(* compile_mir_scc: take the stored indices of the dynamic relations as delta, fresh total / new *)
Definition run_scc (fuel : nat) (sc : pscc) (st : state) : option state :=
  let D0 := filter (fact_dyn (s_dyn sc)) (stored st) in
  let S := filter (fun f => negb (fact_dyn (s_dyn sc) f)) (stored st) in
  if s_loop sc then
    match scc_loop fuel sc S [] D0 (rows st) with
    | Some (T, R) => Some {| rows := R; stored := S ++ T |}
    | None => None
    end
  else
    let '(N, R) := scc_iteration sc S [] D0 (rows st) in
    Some {| rows := R; stored := S ++ (D0 ++ N) |}.

Fixpoint run_sccs (fuel : nat) (pl : plan) (st : state) : option state :=
  match pl with
  | [] => Some st
  | sc :: pl' => match run_scc fuel sc st with Some st' => run_sccs fuel pl' st' | None => None end
  end.

(* run(): update_indices resets every index of the program value and inserts every row again
   (ascent_codegen.rs compile_update_indices_function_body), then the SCCs *)
Definition update_indices (st : state) : state := {| rows := rows st; stored := rows st |}.
Definition run_plan (fuel : nat) (pl : plan) (st : state) : option state := run_sccs fuel pl (update_indices st).
Definition init_state (F0 : list fact) : state := {| rows := F0; stored := [] |}.
End Eval.
