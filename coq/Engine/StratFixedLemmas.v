(* Sanity of StratFixed: without aggregates least_model_fixed is Sem.least_model
   (so the aggregate-free theorem C01 is the special case), and the stratified model
   is unique up to having the same members. *)
From Coq Require Import List ZArith Bool Arith.
From AV Require Import Engine.Core Engine.Sem Engine.Eval Engine.Strat Engine.Naive Engine.StratFixed Engine.InterfaceAgg.
Import ListNotations.

Lemma no_agg_rule_agg_rels : forall r, no_agg_rule r = true -> rule_agg_rels r = [].
Proof.
  intros r. unfold no_agg_rule, rule_agg_rels. induction (body r) as [|b items IH]; intro H; [reflexivity|].
  cbn [forallb] in H. apply andb_true_iff in H as [Hb H]. cbn [flat_map]. rewrite (IH H).
  destruct b; try reflexivity. discriminate Hb.
Qed.

Lemma no_agg_stratum_agg_rels : forall s, no_agg s = true -> stratum_agg_rels s = [].
Proof.
  unfold no_agg, stratum_agg_rels. induction s as [|r s IH]; intro H; [reflexivity|].
  cbn [forallb] in H. apply andb_true_iff in H as [Hr H]. cbn [flat_map].
  rewrite (no_agg_rule_agg_rels r Hr), (IH H). reflexivity.
Qed.

Lemma agree_on_nil : forall F M, agree_on [] F M.
Proof. intros F M f []. Qed.

Theorem least_model_fixed_no_agg : forall I s F M,
  no_agg s = true -> (least_model_fixed I s F M <-> least_model I s F M).
Proof.
  intros I s F M Hna. unfold least_model_fixed, least_model. rewrite (no_agg_stratum_agg_rels s Hna). split.
  - intros [H1 [_ [H3 H4]]]. split; [exact H1|]. split; [exact H3|].
    intros M' HM' Hcl. apply H4; [exact HM' | apply agree_on_nil | exact Hcl].
  - intros [H1 [H3 H4]]. split; [exact H1|]. split; [apply agree_on_nil|]. split; [exact H3|].
    intros M' HM' _ Hcl. apply H4; assumption.
Qed.

Theorem strat_model_fixed_no_agg : forall I strata F M,
  forallb no_agg strata = true ->
  (strat_model_fixed I strata F M <-> strat_model I strata F M).
Proof.
  intros I. induction strata as [|s rest IH]; intros F M H; [reflexivity|].
  cbn [forallb] in H. apply andb_true_iff in H as [Hs H]. cbn [strat_model_fixed strat_model]. split.
  - intros [M1 [H1 H2]]. exists M1. split; [apply least_model_fixed_no_agg; assumption | apply IH; assumption].
  - intros [M1 [H1 H2]]. exists M1. split; [apply least_model_fixed_no_agg; assumption | apply IH; assumption].
Qed.

(* uniqueness up to members; the lower strata only matter up to members too *)
Lemma least_model_fixed_unique : forall I s F F' M M',
  (forall f, In f F <-> In f F') ->
  least_model_fixed I s F M -> least_model_fixed I s F' M' -> incl M M'.
Proof.
  intros I s F F' M M' HF [_ [_ [_ Hleast]]] [Hin' [Hag' [Hcl' _]]]. apply Hleast.
  - intros f Hf. apply Hin'. apply HF. exact Hf.
  - intros f Hf. rewrite (Hag' f Hf). symmetry. apply HF.
  - exact Hcl'.
Qed.

Theorem strat_model_fixed_unique : forall I strata F F' M M',
  (forall f, In f F <-> In f F') ->
  strat_model_fixed I strata F M -> strat_model_fixed I strata F' M' -> forall f, In f M <-> In f M'.
Proof.
  intros I. induction strata as [|s rest IH]; intros F F' M M' HF H H' f.
  - cbn [strat_model_fixed] in H, H'. destruct H as [H1 H2]. destruct H' as [H1' H2']. split.
    + intros Hf. apply H1'. apply HF. apply H2. exact Hf.
    + intros Hf. apply H1. apply HF. apply H2'. exact Hf.
  - cbn [strat_model_fixed] in H, H'. destruct H as [M1 [Hl Hs]]. destruct H' as [M1' [Hl' Hs']].
    apply (IH M1 M1' M M'); [|exact Hs | exact Hs'].
    intros g. split.
    + apply (least_model_fixed_unique I s F F' M1 M1' HF Hl Hl').
    + apply (least_model_fixed_unique I s F' F M1' M1); [intros h; symmetry; apply HF | exact Hl' | exact Hl].
Qed.

Print Assumptions least_model_fixed_no_agg.
Print Assumptions strat_model_fixed_unique.
