(* Proofs about Engine/AggParamModel.v (parameterised aggregators, C04). *)
From Coq Require Import List ZArith Bool Arith Lia Permutation.
From AV Require Import Engine.Core.
From AV Require Import Engine.Sem.
From AV Require Import Engine.EnvLemmas.
From AV Require Import Engine.Eval.
From AV Require Import Engine.Validate.
From AV Require Import Engine.Naive.
From AV Require Import Engine.Interface.
From AV Require Import Engine.InterfaceAgg.
From AV Require Import Engine.Strat.
From AV Require Import Engine.StratFixed.
From AV Require Import Engine.InvarianceBase.
From AV Require Import Engine.InvarianceAlpha.
From AV Require Import Engine.MainAgg.
From AV Require Import Engine.AggParamModel.
Import ListNotations.
Local Open Scope Z_scope.

(* ------------------------------------------------------------------ the code *)
Lemma nat2z_z2nat : forall z, nat2z (z2nat z) = z.
Proof.
  intros z. unfold nat2z, z2nat.
  destruct (Z.ltb_spec z 0) as [Hz|Hz].
  - assert (E : N.to_nat (2 * Z.abs_N z + 1) = S (2 * (Z.abs_nat z))) by lia. rewrite E.
    rewrite Nat.odd_succ, Nat.even_mul. cbn [Nat.even orb]. rewrite Nat.div2_succ_double. lia.
  - assert (E : N.to_nat (2 * Z.abs_N z + 0) = (2 * (Z.abs_nat z))%nat) by lia. rewrite E.
    rewrite Nat.odd_mul. cbn [Nat.odd Nat.even negb andb]. rewrite Nat.div2_double. lia.
Qed.

Lemma dec_rep : forall a p, dec_nats (rep a p) = a :: dec_nats p.
Proof.
  intros a p. unfold rep. induction a as [|a IH]; [reflexivity|].
  change (Nat.iter (S a) xO (xI p)) with (xO (Nat.iter a xO (xI p))).
  change (dec_nats (xO (Nat.iter a xO (xI p)))) with (match dec_nats (Nat.iter a xO (xI p)) with a0 :: l => S a0 :: l | [] => [] end).
  rewrite IH. reflexivity.
Qed.

Lemma dec_enc_nats : forall l, dec_nats (enc_nats l) = l.
Proof. induction l as [|a l IH]; [reflexivity|]. cbn [enc_nats]. rewrite dec_rep, IH. reflexivity. Qed.

Lemma decL_encL : forall l, decL (encL l) = l.
Proof.
  intros l. unfold decL, encL. rewrite dec_enc_nats, map_map. rewrite <- (map_id l) at 2.
  apply map_ext. exact nat2z_z2nat.
Qed.

Lemma ins_perm : forall x l, Permutation (ins x l) (x :: l).
Proof.
  intros x l. induction l as [|y l IH]; [apply Permutation_refl|]. cbn [ins].
  destruct (Z.leb x y); [apply Permutation_refl|].
  eapply perm_trans; [apply perm_skip; exact IH | apply perm_swap].
Qed.

Lemma isort_perm : forall l, Permutation (isort l) l.
Proof.
  induction l as [|x l IH]; [constructor|]. cbn [isort].
  eapply perm_trans; [apply ins_perm | apply perm_skip; exact IH].
Qed.

Lemma ins_comm : forall l x y, ins x (ins y l) = ins y (ins x l).
Proof.
  induction l as [|z l IH]; intros x y; cbn [ins].
  - destruct (Z.leb_spec x y), (Z.leb_spec y x); try reflexivity; try lia. assert (x = y) by lia. subst. reflexivity.
  - destruct (Z.leb_spec y z) as [Hyz|Hyz], (Z.leb_spec x z) as [Hxz|Hxz]; cbn [ins].
    + destruct (Z.leb_spec x y), (Z.leb_spec y x); try lia.
      * assert (x = y) by lia. subst. reflexivity.
      * destruct (Z.leb_spec y z); [reflexivity | lia].
      * destruct (Z.leb_spec x z); [reflexivity | lia].
    + destruct (Z.leb_spec x y); [lia|]. destruct (Z.leb_spec x z); [lia|].
      destruct (Z.leb_spec y z); [reflexivity | lia].
    + destruct (Z.leb_spec y x); [lia|]. destruct (Z.leb_spec y z); [lia|].
      destruct (Z.leb_spec x z); [reflexivity | lia].
    + destruct (Z.leb_spec x z); [lia|]. destruct (Z.leb_spec y z); [lia|]. rewrite IH. reflexivity.
Qed.

Lemma isort_perm_inv : forall l l', Permutation l l' -> isort l = isort l'.
Proof.
  intros l l' H. induction H as [|x l l' _ IH|x y l|l l' l'' _ IH1 _ IH2]; cbn [isort].
  - reflexivity.
  - rewrite IH. reflexivity.
  - apply ins_comm.
  - rewrite IH1. exact IH2.
Qed.

Lemma enc_rows_perm_inv : forall l l', Permutation l l' -> enc_rows l = enc_rows l'.
Proof. intros l l' H. unfold enc_rows. rewrite (isort_perm_inv _ _ (Permutation_map encL H)). reflexivity. Qed.

Lemma dec_enc_rows : forall rows, Permutation (dec_rows (enc_rows rows)) rows.
Proof.
  intros rows. unfold dec_rows, enc_rows. rewrite decL_encL.
  eapply perm_trans; [apply Permutation_map; apply isort_perm|].
  rewrite map_map. rewrite (map_ext _ (fun x => x) decL_encL), map_id. apply Permutation_refl.
Qed.

(* ------------------------------------------------------------------ symbols *)
Lemma even_2x : forall n, Nat.even (2 * n) = true.
Proof. intros n. rewrite Nat.even_mul. reflexivity. Qed.
Lemma even_s2x : forall n, Nat.even (S (2 * n)) = false.
Proof. intros n. rewrite Nat.even_succ, Nat.odd_mul. reflexivity. Qed.

Lemma tr_gint_even : forall PI g vs, gint (tr_interp PI) (2 * g) vs = gint (pbase PI) g vs.
Proof. intros. cbn [tr_interp gint]. rewrite even_2x, Nat.div2_double. reflexivity. Qed.
Lemma tr_aint_even : forall PI a rows, aint (tr_interp PI) (2 * a) rows = aint (pbase PI) a rows.
Proof. intros. cbn [tr_interp aint]. rewrite even_2x, Nat.div2_double. reflexivity. Qed.
Lemma tr_aint_collect : forall PI rows, aint (tr_interp PI) collect_sym rows = [enc_rows rows].
Proof. intros. reflexivity. Qed.
Lemma tr_gint_apply : forall PI a pv c,
  gint (tr_interp PI) (S (2 * a)) (pv ++ [c]) = paint PI a pv (dec_rows c).
Proof.
  intros. cbn [tr_interp gint]. rewrite even_s2x, Nat.div2_succ_double, removelast_last, last_last. reflexivity.
Qed.

Lemma eval_vars_snoc : forall e xs w,
  eval_vars e (xs ++ [w]) = match eval_vars e xs, lookup e w with Some vs, Some c => Some (vs ++ [c]) | _, _ => None end.
Proof.
  intros e xs w. induction xs as [|x xs IH]; cbn [app eval_vars].
  - destruct (lookup e w); reflexivity.
  - rewrite IH. destruct (lookup e x), (eval_vars e xs), (lookup e w); reflexivity.
Qed.

(* ------------------------------------------------------------------ the translation preserves the meaning of a rule *)
Section Sim.
Variable PI : pinterp.
Hypothesis paint_perm : forall a pv l l', Permutation l l' -> paint PI a pv l = paint PI a pv l'.
Variable w0 : var.

Definition agr (e e' : env) : Prop := forall x, (x < w0)%nat -> lookup e' x = lookup e x.
Definition aopt (o o' : option env) : Prop :=
  match o, o' with Some e, Some e' => agr e e' | None, None => True | _, _ => False end.

Lemma agr_bind : forall e e' x v, agr e e' -> agr (bind x v e) (bind x v e').
Proof.
  intros e e' x v H y Hy. destruct (Nat.eq_dec x y) as [->|Hne]; [rewrite !lookup_bind_eq; reflexivity|].
  rewrite !lookup_bind_neq by exact Hne. apply H. exact Hy.
Qed.

Lemma agr_bind_tmp : forall e e' t v, agr e e' -> (w0 <= t)%nat -> agr e (bind t v e').
Proof. intros e e' t v H Ht y Hy. rewrite lookup_bind_neq by lia. apply H. exact Hy. Qed.

Lemma eval_vars_agr : forall e e' xs, agr e e' -> (forall x, In x xs -> (x < w0)%nat) -> eval_vars e' xs = eval_vars e xs.
Proof. intros e e' xs H Hxs. apply eval_vars_agree. intros x Hx. apply H. apply Hxs. exact Hx. Qed.

Lemma eval_term_agr : forall e e' t, agr e e' -> tvars_below w0 t ->
  eval_term (tr_interp PI) e' t = eval_term (pbase PI) e t.
Proof.
  intros e e' t H Ht. destruct t as [x|c|f xs]; cbn [eval_term tvars_below] in *; [apply H; exact Ht | reflexivity|].
  rewrite (eval_vars_agr e e' xs H Ht). reflexivity.
Qed.

Lemma eval_terms_agr : forall e e' ts, agr e e' -> Forall (tvars_below w0) ts ->
  eval_terms (tr_interp PI) e' ts = eval_terms (pbase PI) e ts.
Proof.
  intros e e' ts H Hts. induction Hts as [|t ts Ht _ IH]; [reflexivity|]. cbn [eval_terms].
  rewrite (eval_term_agr e e' t H Ht), IH. reflexivity.
Qed.

Lemma sat_cond_agr : forall e e' c, agr e e' -> cond_below w0 c ->
  aopt (sat_cond (pbase PI) e c) (sat_cond (tr_interp PI) e' c).
Proof.
  intros e e' c H Hc. destruct c as [p xs|x g xs]; cbn [sat_cond cond_below] in *; rewrite (eval_vars_agr e e' xs H Hc);
    destruct (eval_vars e xs) as [vs|]; cbn [aopt]; try exact Logic.I; cbn [tr_interp pint bint].
  - destruct (pint (pbase PI) p vs); cbn [aopt]; [exact H | exact Logic.I].
  - destruct (bint (pbase PI) g vs) as [v|]; cbn [aopt]; [apply agr_bind; exact H | exact Logic.I].
Qed.

Lemma sat_conds_agr : forall cs e e', agr e e' -> Forall (cond_below w0) cs ->
  aopt (sat_conds (pbase PI) e cs) (sat_conds (tr_interp PI) e' cs).
Proof.
  induction cs as [|c cs IH]; intros e e' H Hcs; cbn [sat_conds]; [exact H|].
  inversion Hcs as [|c0 cs0 Hc Hcs']; subst.
  pose proof (sat_cond_agr e e' c H Hc) as Hs.
  destruct (sat_cond (pbase PI) e c) as [e1|], (sat_cond (tr_interp PI) e' c) as [e1'|]; cbn [aopt] in Hs; try contradiction.
  - apply IH; assumption.
  - exact Logic.I.
Qed.

Lemma match_args_agr : forall args e e' tup, agr e e' -> Forall (tvars_below w0) args ->
  aopt (match_args (pbase PI) e args tup) (match_args (tr_interp PI) e' args tup).
Proof.
  induction args as [|a args IH]; intros e e' tup H Hargs.
  - destruct tup; cbn [match_args aopt]; [exact H | exact Logic.I].
  - inversion Hargs as [|a0 args0 Ha Hargs']; subst.
    destruct tup as [|v tup]; [cbn [match_args aopt]; exact Logic.I|].
    destruct a as [x|c|g xs]; cbn [match_args].
    + cbn [tvars_below] in Ha. rewrite (H x Ha). destruct (lookup e x) as [u|].
      * destruct (Z.eqb u v); [apply IH; assumption | exact Logic.I].
      * apply IH; [apply agr_bind; exact H | exact Hargs'].
    + cbn [eval_term]. destruct (Z.eqb c v); [apply IH; assumption | exact Logic.I].
    + rewrite (eval_term_agr e e' (TFun g xs) H Ha).
      destruct (eval_term (pbase PI) e (TFun g xs)) as [u|]; [|exact Logic.I].
      destruct (Z.eqb u v); [apply IH; assumption | exact Logic.I].
Qed.

Lemma agg_match_agr : forall args e e' tup, agr e e' -> Forall (aarg_below w0) args ->
  agg_match (tr_interp PI) e' args tup = agg_match (pbase PI) e args tup.
Proof.
  induction args as [|a args IH]; intros e e' tup H Hargs.
  - destruct tup; reflexivity.
  - inversion Hargs as [|a0 args0 Ha Hargs']; subst.
    destruct tup as [|v tup]; [reflexivity|].
    destruct a as [|x|t]; cbn [agg_match]; try (apply IH; assumption).
    cbn [aarg_below] in Ha. rewrite (eval_term_agr e e' t H Ha).
    destruct (eval_term (pbase PI) e t) as [u|]; [|reflexivity].
    rewrite (IH e e' tup H Hargs'). reflexivity.
Qed.

(* the environments of the source body and of the translated body, in the same order, agree below w0 *)
Lemma tr_items_sim : forall db items w e e', (w0 <= w)%nat -> Forall (pbitem_below w0) items -> agr e e' ->
  Forall2 agr (p_all_envs PI db items e) (all_envs (tr_interp PI) db (tr_items w items) e').
Proof.
  intros db items. induction items as [|it items IH]; intros w e e' Hw Hitems H.
  - cbn. constructor; [exact H | constructor].
  - inversion Hitems as [|it0 items0 Hit Hitems']; subst.
    destruct it as [b|out a ps bound r args].
    + destruct b as [r args cs|c|x g xs|out a bound r args]; cbn [tr_items tr_b p_all_envs all_envs pbitem_below bitem_below] in *.
      * destruct Hit as [Hargs Hcs]. apply Forall2_flat_map. intros tup _.
        pose proof (match_args_agr args e e' tup H Hargs) as Hm.
        destruct (match_args (pbase PI) e args tup) as [e1|], (match_args (tr_interp PI) e' args tup) as [e1'|];
          cbn [aopt] in Hm; try contradiction; [|constructor].
        pose proof (sat_conds_agr cs e1 e1' Hm Hcs) as Hc.
        destruct (sat_conds (pbase PI) e1 cs) as [e2|], (sat_conds (tr_interp PI) e1' cs) as [e2'|];
          cbn [aopt] in Hc; try contradiction; [|constructor].
        apply IH; assumption.
      * pose proof (sat_cond_agr e e' c H Hit) as Hc.
        destruct (sat_cond (pbase PI) e c) as [e1|], (sat_cond (tr_interp PI) e' c) as [e1'|];
          cbn [aopt] in Hc; try contradiction; [|constructor].
        apply IH; assumption.
      * rewrite (eval_vars_agr e e' xs H Hit). destruct (eval_vars e xs) as [vs|]; [|constructor].
        rewrite tr_gint_even. apply Forall2_flat_map. intros v _. apply IH; [exact Hw | exact Hitems' | apply agr_bind; exact H].
      * rewrite (filter_ext _ _ (fun tup => agg_match_agr args e e' tup H Hit)). rewrite tr_aint_even.
        apply Forall2_flat_map. intros v _. apply IH; [exact Hw | exact Hitems'|].
        destruct out as [x|]; cbn [bind_out]; [apply agr_bind|]; exact H.
    + cbn [tr_items p_all_envs all_envs pbitem_below] in *. destruct Hit as [Hps Hargs].
      rewrite (filter_ext _ _ (fun tup => agg_match_agr args e e' tup H Hargs)).
      rewrite tr_aint_collect. cbn [flat_map bind_out]. rewrite app_nil_r.
      set (rows := map (agg_input bound args) (dedup_tuples (filter (agg_match (pbase PI) e args) (db r)))).
      set (c := enc_rows rows).
      assert (Hc : agr e (bind w c e')) by (apply agr_bind_tmp; assumption).
      rewrite eval_vars_snoc, lookup_bind_eq, (eval_vars_agr e (bind w c e') ps Hc Hps).
      destruct (eval_vars e ps) as [pv|]; [|constructor].
      rewrite tr_gint_apply. unfold c. rewrite (paint_perm a pv _ _ (dec_enc_rows rows)).
      apply Forall2_flat_map. intros v _. apply IH; [lia | exact Hitems' | apply agr_bind; exact Hc].
Qed.

Lemma eval_head_agr : forall e e' h, agr e e' -> Forall (tvars_below w0) (snd h) ->
  eval_head (tr_interp PI) e' h = eval_head (pbase PI) e h.
Proof. intros e e' h H Hh. unfold eval_head. rewrite (eval_terms_agr e e' (snd h) H Hh). reflexivity. Qed.

Theorem tr_rule_derive : forall db r, prule_below w0 r ->
  derive_rule (tr_interp PI) db (tr_rule w0 r) = p_derive_rule PI db r.
Proof.
  intros db r [Hb Hh]. unfold derive_rule, p_derive_rule. cbn [heads body tr_rule].
  assert (Hnil : agr [] []) by (intros x _; reflexivity).
  pose proof (tr_items_sim db (pbody r) w0 [] [] (Nat.le_refl _) Hb Hnil) as HF.
  induction HF as [|e e' l l' He _ IH]; [reflexivity|].
  cbn [flat_map]. rewrite IH. f_equal.
  apply filter_map_ext. intros h Hin. apply eval_head_agr; [exact He|].
  rewrite Forall_forall in Hh. apply Hh. exact Hin.
Qed.
End Sim.

(* ------------------------------------------------------------------ programs: strata, stratified model *)
Definition tr_prog (w : var) (PP : list prule) : list rule := map (tr_rule w) PP.
Definition p_plan_strata (PP : list prule) (pl : plan) : list (list prule) :=
  map (fun sc => filter_map (fun j => nth_error PP j) (rules_of_scc sc)) pl.
Definition p_agg_perm_invariant (PI : pinterp) : Prop :=
  agg_perm_invariant (pbase PI) /\ forall a pv l l', Permutation l l' -> paint PI a pv l = paint PI a pv l'.

Lemma tr_interp_perm : forall PI, p_agg_perm_invariant PI -> agg_perm_invariant (tr_interp PI).
Proof.
  intros PI [Hb _] a l l' H. cbn [tr_interp aint]. destruct (Nat.even a); [apply Hb; exact H|].
  rewrite (enc_rows_perm_inv l l' H). reflexivity.
Qed.

Lemma filter_map_nth_map : forall (A B : Type) (f : A -> B) (l : list A) js,
  filter_map (fun j => nth_error (map f l) j) js = map f (filter_map (fun j => nth_error l j) js).
Proof.
  intros A B f l js. induction js as [|j js IH]; [reflexivity|]. cbn [filter_map].
  rewrite nth_error_map. destruct (nth_error l j); cbn [option_map map]; rewrite IH; reflexivity.
Qed.

Lemma plan_strata_tr : forall w PP pl, plan_strata (tr_prog w PP) pl = map (map (tr_rule w)) (p_plan_strata PP pl).
Proof.
  intros w PP pl. unfold plan_strata, p_plan_strata, tr_prog. rewrite map_map. apply map_ext.
  intros sc. apply filter_map_nth_map.
Qed.

Lemma tr_items_agg_rels : forall items w,
  flat_map (fun b => match b with BAgg _ _ _ q _ => [q] | _ => [] end) (tr_items w items) = flat_map p_item_agg_rels items.
Proof.
  induction items as [|it items IH]; intros w; [reflexivity|].
  destruct it as [b|out a ps bound r args]; cbn [tr_items flat_map p_item_agg_rels].
  - rewrite IH. destruct b; reflexivity.
  - cbn [app]. rewrite IH. reflexivity.
Qed.

Lemma tr_items_clause_rels : forall items w,
  flat_map (fun b => match b with BClause q _ _ => [q] | _ => [] end) (tr_items w items) = flat_map p_item_clause_rels items.
Proof.
  induction items as [|it items IH]; intros w; [reflexivity|].
  destruct it as [b|out a ps bound r args]; cbn [tr_items flat_map p_item_clause_rels].
  - rewrite IH. destruct b; reflexivity.
  - cbn [app]. rewrite IH. reflexivity.
Qed.

Lemma tr_rule_agg_rels : forall w r, rule_agg_rels (tr_rule w r) = p_rule_agg_rels r.
Proof. intros. apply tr_items_agg_rels. Qed.
Lemma tr_rule_clause_rels : forall w r, rule_clause_rels (tr_rule w r) = p_rule_clause_rels r.
Proof. intros. apply tr_items_clause_rels. Qed.
Lemma tr_rule_heads : forall w r, rule_heads (tr_rule w r) = p_rule_heads r.
Proof. reflexivity. Qed.

Lemma flat_map_tr : forall (C : Type) (f : rule -> list C) (g : prule -> list C) w l,
  (forall r, f (tr_rule w r) = g r) -> flat_map f (map (tr_rule w) l) = flat_map g l.
Proof. intros C f g w l H. rewrite flat_map_map. apply flat_map_ext. exact H. Qed.

Lemma stratified_tr : forall w strata, stratified (map (map (tr_rule w)) strata) = p_stratified strata.
Proof.
  intros w. induction strata as [|s rest IH]; [reflexivity|]. cbn [map stratified p_stratified]. rewrite IH. f_equal.
  rewrite <- concat_map.
  rewrite (flat_map_tr _ rule_heads p_rule_heads w (concat rest) (tr_rule_heads w)).
  rewrite (flat_map_tr _ rule_heads p_rule_heads w s (tr_rule_heads w)).
  generalize (flat_map p_rule_heads s) as hh. generalize (flat_map p_rule_heads (concat rest)) as lh. intros lh hh.
  induction s as [|r s IHs]; [reflexivity|]. cbn [map forallb]. rewrite IHs.
  rewrite tr_rule_agg_rels, tr_rule_clause_rels. reflexivity.
Qed.

Lemma stratum_agg_rels_tr : forall w s, stratum_agg_rels (map (tr_rule w) s) = p_stratum_agg_rels s.
Proof. intros w s. unfold stratum_agg_rels, p_stratum_agg_rels. apply flat_map_tr. apply tr_rule_agg_rels. Qed.

Section Models.
Variable PI : pinterp.
Hypothesis Hperm : p_agg_perm_invariant PI.
Variable w : var.

Lemma closed_tr : forall s M, (forall r, In r s -> prule_below w r) ->
  (closed (tr_interp PI) (map (tr_rule w) s) M <-> p_closed PI s M).
Proof.
  intros s M Hb. unfold closed, p_closed, derives, p_derives. split; intros H f [r [Hr Hf]].
  - apply H. exists (tr_rule w r). split; [apply in_map; exact Hr|].
    rewrite (tr_rule_derive PI (proj2 Hperm) w _ r (Hb r Hr)). exact Hf.
  - apply in_map_iff in Hr as [pr [<- Hpr]]. apply H. exists pr. split; [exact Hpr|].
    rewrite <- (tr_rule_derive PI (proj2 Hperm) w _ pr (Hb pr Hpr)). exact Hf.
Qed.

Lemma least_model_fixed_tr : forall s F M, (forall r, In r s -> prule_below w r) ->
  (least_model_fixed (tr_interp PI) (map (tr_rule w) s) F M <-> p_least_model_fixed PI s F M).
Proof.
  intros s F M Hb. unfold least_model_fixed, p_least_model_fixed. rewrite stratum_agg_rels_tr.
  rewrite (closed_tr s M Hb). split; intros [H1 [H2 [H3 H4]]]; (split; [exact H1|]; split; [exact H2|]; split; [exact H3|]);
    intros M' HF Hag Hcl; apply H4; try assumption; apply (closed_tr s M' Hb); exact Hcl.
Qed.

Lemma strat_model_fixed_tr : forall strata F M, (forall r, In r (concat strata) -> prule_below w r) ->
  (strat_model_fixed (tr_interp PI) (map (map (tr_rule w)) strata) F M <-> p_strat_model_fixed PI strata F M).
Proof.
  induction strata as [|s rest IH]; intros F M Hb; cbn [map strat_model_fixed p_strat_model_fixed]; [reflexivity|].
  assert (Hs : forall r, In r s -> prule_below w r) by (intros r Hr; apply Hb; cbn [concat]; apply in_or_app; left; exact Hr).
  assert (Hr : forall r, In r (concat rest) -> prule_below w r) by (intros r Hr; apply Hb; cbn [concat]; apply in_or_app; right; exact Hr).
  split; intros [M1 [Hl Hm]]; exists M1; (split; [apply (least_model_fixed_tr s F M1 Hs); exact Hl | apply (IH M1 M Hr); exact Hm]).
Qed.
End Models.

(* the translation is injective *)
Lemma tr_b_inj : forall b b', tr_b b = tr_b b' -> b = b'.
Proof.
  intros b b' H. destruct b, b'; cbn [tr_b] in H; try discriminate H; try exact H.
  - injection H as -> Hg ->. f_equal. lia.
  - injection H as -> Ha -> -> ->. f_equal. lia.
Qed.

Lemma tr_items_inj : forall items items' w, tr_items w items = tr_items w items' -> items = items'.
Proof.
  induction items as [|it items IH]; intros items' w H.
  - destruct items' as [|[b|? ? ? ? ? ?] items']; [reflexivity | discriminate H | discriminate H].
  - destruct it as [b|out a ps bound r args], items' as [|[b'|out' a' ps' bound' r' args'] items']; cbn [tr_items] in H; try discriminate H.
    + injection H as Hb Hr. apply tr_b_inj in Hb. subst. f_equal. apply (IH _ _ Hr).
    + exfalso. injection H as Hb _. destruct b; cbn [tr_b] in Hb; try discriminate Hb. injection Hb as _ Hb _ _ _. unfold collect_sym in Hb. lia.
    + exfalso. injection H as Hb _. destruct b'; cbn [tr_b] in Hb; try discriminate Hb. injection Hb as _ Hb _ _ _. unfold collect_sym in Hb. lia.
    + injection H as -> -> -> -> Ha Hps Hr. apply app_inv_tail in Hps. subst. apply IH in Hr. subst.
      assert (a = a') by lia. subst. reflexivity.
Qed.

Lemma tr_rule_inj : forall w r r', tr_rule w r = tr_rule w r' -> r = r'.
Proof.
  intros w [h b] [h' b'] H. unfold tr_rule in H. cbn [pheads pbody] in H. injection H as -> Hb.
  apply tr_items_inj in Hb. subst. reflexivity.
Qed.

Lemma p_plan_strata_in : forall PP pl r, In r (concat (p_plan_strata PP pl)) -> In r PP.
Proof.
  intros PP pl r H. apply in_concat in H as [s [Hs Hr]]. unfold p_plan_strata in Hs. apply in_map_iff in Hs as [sc [<- _]].
  induction (rules_of_scc sc) as [|j js IH]; [contradiction|]. cbn [filter_map] in Hr.
  destruct (nth_error PP j) as [r0|] eqn:E; [|apply IH; exact Hr].
  destruct Hr as [<-|Hr]; [eapply nth_error_In; exact E | apply IH; exact Hr].
Qed.

(* MAIN: a program with parameterised aggregates, run through the engine model on the translated plan (the plan of the
   two-step code the macro generates for such a clause), computes the stratified model of the SOURCE program, in which
   the aggregate of a binding is the aggregator of THAT binding applied to the distinct matching rows. *)
Theorem agg_param_stratified_model : forall (PI : pinterp) (swap : list tuple -> list tuple -> bool) arities (PP : list prule) w pl fuel F0 st,
  arities_functional arities -> wf_facts arities F0 = true -> NoDup F0 -> p_agg_perm_invariant PI ->
  (forall r, In r PP -> prule_below w r) ->
  validate arities (tr_prog w PP) pl = true ->
  run_plan (tr_interp PI) swap fuel pl (init_state F0) = Some st ->
  p_stratified (p_plan_strata PP pl) = true
  /\ (forall r, In r PP <-> In r (concat (p_plan_strata PP pl)))
  /\ p_strat_model_fixed PI (p_plan_strata PP pl) F0 (rows st)
  /\ NoDup (rows st)
  /\ exists added, rows st = F0 ++ added.
Proof.
  intros PI swap arities PP w pl fuel F0 st Hfun Hwf Hnd Hperm Hb Hval Hrun.
  destruct (run_plan_strat_correct_full (tr_interp PI) swap arities (tr_prog w PP) pl fuel F0 st Hfun Hwf Hnd
              (tr_interp_perm PI Hperm) Hval Hrun) as [H1 [H2 [H3 [H4 H5]]]].
  rewrite plan_strata_tr in H1, H2, H3. rewrite stratified_tr in H1.
  split; [exact H1|]. split; [|split; [|split; [exact H4 | exact H5]]].
  - intros r. rewrite <- concat_map in H2. split; intros Hr.
    + assert (Hin : In (tr_rule w r) (tr_prog w PP)) by (apply in_map; exact Hr).
      apply H2 in Hin. apply in_map_iff in Hin as [r' [E Hr']]. apply tr_rule_inj in E. subst. exact Hr'.
    + apply (p_plan_strata_in PP pl r Hr).
  - apply (strat_model_fixed_tr PI Hperm w); [|exact H3].
    intros r Hr. apply Hb. apply (p_plan_strata_in PP pl r Hr).
Qed.

(* programs without a parameterised aggregate: p-semantics = core semantics (the extension is conservative) *)
Lemma p_all_envs_core : forall PI db items e, p_all_envs PI db (map PB items) e = all_envs (pbase PI) db items e.
Proof.
  intros PI db items. induction items as [|b items IH]; intros e; [reflexivity|].
  destruct b; cbn [map p_all_envs all_envs].
  - apply flat_map_ext. intros tup. destruct (match_args (pbase PI) e args tup) as [e1|]; [|reflexivity].
    destruct (sat_conds (pbase PI) e1 cs) as [e2|]; [apply IH | reflexivity].
  - destruct (sat_cond (pbase PI) e c); [apply IH | reflexivity].
  - destruct (eval_vars e xs); [|reflexivity]. apply flat_map_ext. intros v. apply IH.
  - apply flat_map_ext. intros v. apply IH.
Qed.

Theorem p_derive_rule_core : forall PI db r,
  p_derive_rule PI db {| pheads := heads r; pbody := map PB (body r) |} = derive_rule (pbase PI) db r.
Proof. intros PI db r. unfold p_derive_rule, derive_rule. cbn [pheads pbody]. rewrite p_all_envs_core. reflexivity. Qed.
