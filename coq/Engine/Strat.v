(* Stratified specification semantics (C04): the rules are grouped into strata in
   dependency order; each stratum is evaluated to its fix-point on top of the
   completed lower strata, so that aggregates and negations range over final
   relations.  Executable oracle [strat_fix]; the strata themselves are computed
   outside (any grouping that respects the dependencies gives the same result). *)
From Coq Require Import List ZArith Bool Arith.
From AV Require Import Engine.Core Engine.Sem.
Import ListNotations.

Fixpoint strat_fix (I : interp) (fuel : nat) (strata : list (list rule)) (F : list fact) : option (list fact) :=
  match strata with
  | [] => Some F
  | s :: rest => match naive_fix I fuel s F with Some F' => strat_fix I fuel rest F' | None => None end
  end.

(* what makes a grouping a stratification: a relation aggregated (or negated) by a rule of stratum k
   is not in the head of any rule of a stratum >= k; a relation read by a clause is not in the head of
   any rule of a later stratum *)
Definition rule_heads (r : rule) : list rel := map fst (heads r).
Definition rule_agg_rels (r : rule) : list rel :=
  flat_map (fun b => match b with BAgg _ _ _ q _ => [q] | _ => [] end) (body r).
Definition rule_clause_rels (r : rule) : list rel :=
  flat_map (fun b => match b with BClause q _ _ => [q] | _ => [] end) (body r).
Definition memr (q : rel) (l : list rel) : bool := existsb (Nat.eqb q) l.

Fixpoint stratified (strata : list (list rule)) : bool :=
  match strata with
  | [] => true
  | s :: rest =>
      let later_heads := flat_map rule_heads (concat rest) in
      let here_heads := flat_map rule_heads s in
      forallb (fun r => forallb (fun q => negb (memr q later_heads) && negb (memr q here_heads)) (rule_agg_rels r)
                        && forallb (fun q => negb (memr q later_heads)) (rule_clause_rels r)) s
      && stratified rest
  end.
