(* Histories of a program value (C13): run(); push further facts into relation fields; run() again ...
   The engine state keeps the stored indices between runs exactly as the program value does. *)
From Coq Require Import List ZArith Bool Arith.
From AV Require Import Engine.Core Engine.Sem Engine.Eval.
Import ListNotations.

Inductive step := SRun | SPush (fs : list fact).

Definition push_facts (fs : list fact) (st : state) : state := {| rows := rows st ++ fs; stored := stored st |}.

(* snapshots of the rows after every run *)
Fixpoint run_script (I : interp) (swap : list tuple -> list tuple -> bool) (fuel : nat) (pl : plan)
         (steps : list step) (st : state) : option (list (list fact)) :=
  match steps with
  | [] => Some []
  | SPush fs :: rest => run_script I swap fuel pl rest (push_facts fs st)
  | SRun :: rest =>
      match run_plan I swap fuel pl st with
      | Some st' => option_map (cons (rows st')) (run_script I swap fuel pl rest st')
      | None => None
      end
  end.
