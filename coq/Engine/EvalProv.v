(* The engine with ONE relation backed by a custom data structure provider (`#[ds(..)] relation r0(..)`, C10-C12).
   The provider is an arbitrary record of Byods/Provider.v; the generated code drives it as follows
   (ascent_codegen.rs: rel_ind_common fields, compile_mir_scc, head_update_code):
     - the relation has no rows of its own (FakeVec): its tuples live in the provider state only;
     - an SCC in which r0 is dynamic starts with `delta := take(field); total, new := default; init` = PRestart,
       then every loop iteration ends with `merge_delta_to_total_new_to_delta` = PMerge (a non-looping SCC merges
       twice), and the SCC ends with `field := total`;
     - a body clause on r0 reads the version the plan says through an index view; here: the tuples the version
       serves, filtered by the key (law P4 relates the real keyed views to this);
     - a head update of r0 tests contains_key(total), contains_key(delta) and then insert_if_not_present(new):
       `changed` is set when the insertion is accepted.
   Everything else is Engine/Eval.v. *)
From Coq Require Import List ZArith Bool Arith.
From AV Require Import Engine.Core Engine.Sem Engine.Eval Byods.Provider.
Import ListNotations.

Section EvalProv.
Variable I : interp.
Variable swap_oracle : list tuple -> list tuple -> bool.
Variable PV : provider tuple.
Variable r0 : rel.

Record pstate := { prows : list fact; pstored : list fact; pps : St tuple PV }.

Definition pcontents (ps : St tuple PV) (S T D : list fact) (dyn : list rel) (r : rel) (v : version) : list tuple :=
  if Nat.eqb r r0 then
    match v with
    | Eval.VTotal => p_read tuple PV ps Provider.VTotal
    | Eval.VDelta => p_read tuple PV ps Provider.VDelta
    | Eval.VTotalDelta => p_read tuple PV ps Provider.VTotal ++ p_read tuple PV ps Provider.VDelta
    end
  else contents S T D dyn r v.

(* accumulator of one iteration: new facts and rows of the plain relations, provider state, changed flag *)
Definition phead_update (T D : list fact) (acc : list fact * list fact * St tuple PV * bool) (f : fact)
  : list fact * list fact * St tuple PV * bool :=
  let '(N, R, ps, ch) := acc in
  if Nat.eqb (fst f) r0 then
    if p_contains tuple PV ps Provider.VTotal (snd f) || p_contains tuple PV ps Provider.VDelta (snd f) then acc
    else let '(ps', b) := p_ins tuple PV ps (snd f) in (N, R, ps', ch || b)
  else
    if mem_fact f T || mem_fact f D || mem_fact f N then acc else (N ++ [f], R ++ [f], ps, true).

(* rule bodies read the provider state as it was at the start of the iteration (total and delta are not written
   during an iteration; insertions go to new) *)
Definition pscc_iteration (sc : pscc) (S T D R : list fact) (ps : St tuple PV) : list fact * list fact * St tuple PV * bool :=
  fold_left (fun acc v => fold_left (phead_update T D) (eval_variant I swap_oracle (pcontents ps S T D (s_dyn sc)) v) acc)
            (s_vars sc) ([], R, ps, false).

Definition pmerge (sc : pscc) (ps : St tuple PV) : St tuple PV :=
  if is_dyn (s_dyn sc) r0 then p_merge tuple PV ps else ps.

Fixpoint pscc_loop (fuel : nat) (sc : pscc) (S T D R : list fact) (ps : St tuple PV) : option (list fact * list fact * St tuple PV) :=
  match fuel with
  | O => None
  | S n => let '(N, R', ps1, ch) := pscc_iteration sc S T D R ps in
           let ps2 := pmerge sc ps1 in
           if ch then pscc_loop n sc S (T ++ D) N R' ps2 else Some (T ++ D ++ N, R', ps2)
  end.

Definition prun_scc (fuel : nat) (sc : pscc) (st : pstate) : option pstate :=
  let D0 := filter (fact_dyn (s_dyn sc)) (pstored st) in
  let S := filter (fun f => negb (fact_dyn (s_dyn sc) f)) (pstored st) in
  let ps0 := if is_dyn (s_dyn sc) r0 then p_restart tuple PV (pps st) else pps st in
  if s_loop sc then
    match pscc_loop fuel sc S [] D0 (prows st) ps0 with
    | Some (T, R, ps) => Some {| prows := R; pstored := S ++ T; pps := ps |}
    | None => None
    end
  else
    let '(N, R, ps1, _) := pscc_iteration sc S [] D0 (prows st) ps0 in
    Some {| prows := R; pstored := S ++ (D0 ++ N); pps := pmerge sc (pmerge sc ps1) |}.

Fixpoint prun_sccs (fuel : nat) (pl : plan) (st : pstate) : option pstate :=
  match pl with
  | [] => Some st
  | sc :: pl' => match prun_scc fuel sc st with Some st' => prun_sccs fuel pl' st' | None => None end
  end.

(* run() on a fresh program value with input rows F0 (no rows of r0: the relation has no Vec) *)
Definition prun_plan (fuel : nat) (pl : plan) (F0 : list fact) : option pstate :=
  prun_sccs fuel pl {| prows := F0; pstored := F0; pps := p_init tuple PV |}.

(* what the program value holds afterwards: the rows of the plain relations and what the provider's total serves *)
Definition pfacts (st : pstate) : list fact := prows st ++ map (fun t => (r0, t)) (p_read tuple PV (pps st) Provider.VTotal).
End EvalProv.
