(* C20, lattice half - the KEY MUTEX of the parallel lattice head update as a resource of the program VALUE.

   Engine/ParLat.v models the head update of one lattice relation during one parallel iteration with the key mutex always
   present: step (4) locks key_mutex[hash(k) % len], step (7) releases it.  In the generated code the mutexes are a FIELD of
   the program value (`__<rel>_mutex`, ascent_codegen.rs compile_mir: a Vec<Mutex<()>> of shards_count() entries, filled in
   Default::default()), i.e. they are created when the value is CONSTRUCTED, under whatever rayon pool is current there, and
   used when the value is RUN, by the workers of whatever pool is current then.  The number of workers of an iteration
   (the length of [work] in par_init) belongs to the run pool; the stripes belong to the construction.

   This file makes the stripe set a parameter: [lockof k] is the stripe that serialises the first insertion of key k, or
   None when no lock is taken for k (no stripes: the lock is elided).  [lstep] is ParLat.step with steps (4) and (7)
   following [lockof]; every other step is ParLat.step itself.  [stripe_lock hash n] is the assignment "hash(k) mod n" of a
   value with n stripes (n = 0: none).  Two sizing policies, both functions of what is known at CONSTRUCTION:
     stripes_process_constant n a         = n              the code: shards_count(), a process constant > 0, the construction
                                                           pool a is not consulted
     stripes_by_construction_pool a       = 0 if a <= 1,   a value that sizes (and for a single thread elides) the stripes by
                                            next_power_of_two(4 a) otherwise     the pool current at construction
   No proofs here (Engine/ParLatLocksProofs.v). *)
From Coq Require Import List ZArith Bool Arith.
From AV Require Import Engine.ParLat.
Import ListNotations.

Section ParLatLocks.
Context {K V : Type}.
Variable keqb : K -> K -> bool.
Variable jm : V -> V -> V * bool.
Variable lockof : K -> option nat.              (* stripe of the insertion lock of a key; None = no lock is taken *)
Variable kfirst : bool.
Variable setidx : bool.
Variables dl tt : K -> option nat.

Definition lstep (st : @pstate K V) (j : nat) : @pstate K V :=
  match nth_error (lws st) j with
  | None => st
  | Some w =>
      match wpc w with
      | PLock k v =>                                                                                 (* 4 *)
          match lockof k with
          | None => goto st j (todo w) (PRecheck k v)                 (* `lock` returns no guard: straight to the re-check *)
          | Some m =>
              if nmem m (lheld st) then st                            (* blocked *)
              else mk (lrows st) (lnkey st) (lother st) (m :: lheld st) (lchg st) st j (todo w) (PRecheck k v)
          end
      | PUnlock k =>                                                                                 (* 7 *)
          match lockof k with
          | None => goto st j (todo w) PIdle                          (* nothing to drop *)
          | Some m => mk (lrows st) (lnkey st) (lother st) (release m (lheld st)) (lchg st) st j (todo w) PIdle
          end
      | _ => step keqb jm (fun _ => O) kfirst setidx dl tt st j        (* every other step does not look at the mutexes *)
      end
  end.

Definition lrun_sched (st : @pstate K V) (sched : list nat) : @pstate K V := fold_left lstep sched st.
End ParLatLocks.

(* a value with n stripes: key k is serialised by stripe hash(k) mod n; no stripes, no lock *)
Definition stripe_lock {K : Type} (hash : K -> nat) (n : nat) (k : K) : option nat :=
  match n with O => None | S _ => Some (Nat.modulo (hash k) n) end.

(* sizing policies: number of stripes as a function of the pool current at CONSTRUCTION *)
Definition stripes_process_constant (n : nat) (construction_pool : nat) : nat := n.
Definition next_power_of_two (n : nat) : nat := Nat.pow 2 (Nat.log2_up n).
Definition stripes_by_construction_pool (construction_pool : nat) : nat :=
  if Nat.ltb 1 construction_pool then next_power_of_two (4 * construction_pool) else O.
