(* C06, specification level: injective renaming of the constants of a pure program. *)
From Coq Require Import List ZArith Bool Arith Lia.
From AV Require Import Engine.Core.
From AV Require Import Engine.Sem.
From AV Require Import Engine.Eval.
From AV Require Import Engine.Validate.
From AV Require Import Engine.Naive.
From AV Require Import Engine.Interface.
From AV Require Import Engine.EnvLemmas.
From AV Require Import Engine.NaiveLemmas.
From AV Require Import Engine.InterfaceInvariance.
From AV Require Import Engine.InvarianceBase.
Import ListNotations.
Local Open Scope Z_scope.

Section ConstRename.
Variable I : interp.
Variable f : Z -> Z.
Hypothesis f_inj : forall a b, f a = f b -> a = b.

Lemma f_eqb : forall a b, Z.eqb (f a) (f b) = Z.eqb a b.
Proof.
  intros a b. destruct (Z.eqb a b) eqn:E.
  - apply Z.eqb_eq in E. subst. apply Z.eqb_refl.
  - apply Z.eqb_neq. intros H. apply f_inj in H. apply Z.eqb_neq in E. contradiction.
Qed.

Definition menv (e : env) : env := map (option_map f) e.
Definition map_bitem (b : bitem) : bitem :=
  match b with BClause q args cs => BClause q (map (map_term f) args) cs | other => other end.

Lemma lookup_menv : forall e x, lookup (menv e) x = option_map f (lookup e x).
Proof.
  unfold lookup, menv. induction e as [|o e IH]; intros x; destruct x; cbn [map nth]; try reflexivity. apply IH.
Qed.

Lemma bind_menv : forall x v e, bind x (f v) (menv e) = menv (bind x v e).
Proof.
  unfold menv. induction x as [|n IH]; intros v e; destruct e as [|o e]; cbn [bind map option_map]; try reflexivity.
  - rewrite <- IH. reflexivity.
  - rewrite <- IH. reflexivity.
Qed.

Lemma eval_term_menv : forall e t, pure_term t = true ->
  eval_term I (menv e) (map_term f t) = option_map f (eval_term I e t).
Proof.
  intros e t Hp. destruct t as [x|c|g xs]; cbn in *; [apply lookup_menv | reflexivity | discriminate].
Qed.

Lemma eval_terms_menv : forall e ts, forallb pure_term ts = true ->
  eval_terms I (menv e) (map (map_term f) ts) = option_map (map f) (eval_terms I e ts).
Proof.
  intros e ts. induction ts as [|t ts IH]; intros Hp; [reflexivity|].
  cbn [forallb] in Hp. apply andb_true_iff in Hp as [Ht Hts].
  cbn [map eval_terms]. rewrite (eval_term_menv e t Ht), (IH Hts).
  destruct (eval_term I e t) as [v|]; cbn [option_map]; [|reflexivity].
  destruct (eval_terms I e ts) as [vs|]; reflexivity.
Qed.

Lemma match_args_menv : forall args e tup, forallb pure_term args = true ->
  match_args I (menv e) (map (map_term f) args) (map f tup) = option_map menv (match_args I e args tup).
Proof.
  induction args as [|a args IH]; intros e tup Hp.
  - destruct tup; reflexivity.
  - cbn [forallb] in Hp. apply andb_true_iff in Hp as [Ha Hargs].
    destruct tup as [|v tup]; [reflexivity|].
    destruct a as [x|c|g xs]; cbn [map map_term match_args].
    + rewrite lookup_menv. destruct (lookup e x) as [w|]; cbn [option_map].
      * rewrite f_eqb. destruct (Z.eqb w v); [apply IH; exact Hargs | reflexivity].
      * rewrite bind_menv. apply IH. exact Hargs.
    + cbn [eval_term]. rewrite f_eqb. destruct (Z.eqb c v); [apply IH; exact Hargs | reflexivity].
    + discriminate.
Qed.

Lemma all_envs_menv : forall db db' items e,
  (forall r, db' r = map (map f) (db r)) -> forallb pure_bitem items = true ->
  all_envs I db' (map map_bitem items) (menv e) = map menv (all_envs I db items e).
Proof.
  intros db db' items. induction items as [|b items IH]; intros e Hdb Hp; [reflexivity|].
  cbn [forallb] in Hp. apply andb_true_iff in Hp as [Hb Hitems].
  destruct b as [r args cs|c|x g xs|out a bound r args]; cbn [pure_bitem] in Hb; try discriminate.
  apply andb_true_iff in Hb as [Hargs Hcs]. destruct cs as [|c cs]; [|discriminate].
  cbn [map map_bitem all_envs]. rewrite Hdb, flat_map_map, map_flat_map.
  apply flat_map_ext. intros tup. rewrite (match_args_menv args e tup Hargs).
  destruct (match_args I e args tup) as [e1|]; cbn [option_map sat_conds]; [|reflexivity].
  apply IH; assumption.
Qed.

Lemma eval_head_menv : forall e h, forallb pure_term (snd h) = true ->
  eval_head I (menv e) (fst h, map (map_term f) (snd h)) = option_map (map_fact f) (eval_head I e h).
Proof.
  intros e h Hp. unfold eval_head. cbn [fst snd]. rewrite (eval_terms_menv e (snd h) Hp).
  destruct (eval_terms I e (snd h)) as [vs|]; reflexivity.
Qed.

Lemma map_rule_body : forall r, body (map_rule f r) = map map_bitem (body r).
Proof. reflexivity. Qed.

Lemma derive_rule_map : forall db db' r,
  (forall q, db' q = map (map f) (db q)) -> pure_rule r = true ->
  derive_rule I db' (map_rule f r) = map (map_fact f) (derive_rule I db r).
Proof.
  intros db db' r Hdb Hp. unfold pure_rule in Hp. apply andb_true_iff in Hp as [Hb Hh].
  unfold derive_rule. rewrite map_rule_body. cbn [heads map_rule].
  change (@nil (option Z)) with (menv []) at 1.
  rewrite (all_envs_menv db db' (body r) [] Hdb Hb), flat_map_map, map_flat_map.
  apply flat_map_ext. intros e. rewrite filter_map_map, map_filter_map.
  apply filter_map_ext. intros h Hin. apply eval_head_menv.
  rewrite forallb_forall in Hh. apply Hh. exact Hin.
Qed.

Lemma db_of_map_fact : forall F r, db_of (map (map_fact f) F) r = map (map f) (db_of F r).
Proof.
  intros F r. unfold db_of. induction F as [|[q t] F IH]; [reflexivity|].
  cbn [map filter map_fact fst snd]. destruct (Nat.eqb q r); cbn [map snd]; [f_equal|]; exact IH.
Qed.

Lemma pure_no_agg : forall r, pure_rule r = true -> no_agg_rule r = true.
Proof.
  intros r Hp. unfold pure_rule in Hp. apply andb_true_iff in Hp as [Hb _].
  unfold no_agg_rule. rewrite forallb_forall in *. intros b Hin. specialize (Hb b Hin).
  destruct b; cbn in *; try reflexivity; discriminate.
Qed.

Lemma pure_no_agg_map : forall r, pure_rule r = true -> no_agg_rule (map_rule f r) = true.
Proof.
  intros r Hp. unfold pure_rule in Hp. apply andb_true_iff in Hp as [Hb _].
  unfold no_agg_rule. rewrite map_rule_body. rewrite forallb_forall in *. intros b' Hin.
  apply in_map_iff in Hin as [b [<- Hin]]. specialize (Hb b Hin).
  destruct b; cbn in *; try reflexivity; discriminate.
Qed.

Theorem const_rename_least : forall P F0 M,
  forallb pure_rule P = true -> least_model I P F0 M ->
  least_model I (map (map_rule f) P) (map (map_fact f) F0) (map (map_fact f) M).
Proof.
  intros P F0 M Hpure [Hincl [Hclosed Hleast]]. rewrite forallb_forall in Hpure. split; [|split].
  - apply incl_map. exact Hincl.
  - intros g [r' [Hr' Hg]]. apply in_map_iff in Hr' as [r [<- Hr]].
    rewrite (derive_rule_map (db_of M) _ r (db_of_map_fact M) (Hpure r Hr)) in Hg.
    apply in_map_iff in Hg as [g0 [<- Hg0]]. apply in_map. apply Hclosed. exists r. split; assumption.
  - intros M' HF0 Hcl.
    set (N := filter (fun g => mem_fact (map_fact f g) M') M).
    assert (HNM : incl N M) by (intros g Hg; apply filter_In in Hg as [Hg _]; exact Hg).
    assert (HNM' : incl (map (map_fact f) N) M').
    { intros g' Hg'. apply in_map_iff in Hg' as [g [<- Hg]]. apply filter_In in Hg as [_ Hg].
      apply mem_fact_In. exact Hg. }
    assert (HN : incl M N).
    { apply Hleast.
      - intros g Hg. apply filter_In. split; [apply Hincl; exact Hg|]. apply mem_fact_In. apply HF0. apply in_map. exact Hg.
      - intros g [r [Hr Hg]]. apply filter_In. split.
        + apply Hclosed. exists r. split; [exact Hr|].
          eapply derive_rule_mono; [apply pure_no_agg; apply Hpure; exact Hr | | exact Hg].
          intros q _. apply db_of_incl. exact HNM.
        + apply mem_fact_In. apply Hcl. exists (map_rule f r). split; [apply in_map; exact Hr|].
          eapply derive_rule_mono with (db1 := db_of (map (map_fact f) N));
            [apply pure_no_agg_map; apply Hpure; exact Hr | intros q _; apply db_of_incl; exact HNM' |].
          rewrite (derive_rule_map (db_of N) _ r (db_of_map_fact N) (Hpure r Hr)). apply in_map. exact Hg. }
    intros g' Hg'. apply in_map_iff in Hg' as [g [<- Hg]]. apply HNM'. apply in_map. apply HN. exact Hg.
Qed.
End ConstRename.

Theorem const_rename_proof : const_rename_stmt.
Proof. intros I P F0 M f Hf Hp H. apply const_rename_least; assumption. Qed.
