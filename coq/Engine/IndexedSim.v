(* Per-index engine state, part 2: agreement between the SCC-local indices (total / delta / new of every physical
   index) and the abstract total / delta / new multisets of Engine/Eval.v, and the two facts the lock-step argument
   of DESIGN 3.3 consists of:
     variant_eq   a rule variant evaluated through the clauses' own indices yields the same list of head facts as
                  Eval.eval_variant on the abstract contents (reads);
     head_step / fold_step / iter_sim   a head update inserts the new row into EVERY index of the relation, so the
                  agreement is preserved (writes). *)
From Coq Require Import List ZArith Bool Arith Lia.
From AV Require Import Engine.Core Engine.Sem Engine.Eval Engine.NaiveLemmas Engine.IndexedEval Engine.IndexedBase.
Import ListNotations.
Open Scope Z_scope.

Definition shape (store : list lidx) : list idecl := map (fun l => (l_rel l, l_arity l, l_cols l)) store.
Definition pshape (st : list pidx) : list idecl := map (fun p => (p_rel p, p_arity p, p_cols p)) st.

Section Decls.
Variable I : interp.
Variable swap : list tuple -> list tuple -> bool.
Variable decls : list idecl.
Hypothesis Hdecls : forallb (decl_ok decls) decls = true.

Lemma declared_In : forall r a c, declared decls r a c = true <-> In (r, a, c) decls.
Proof.
  intros r a c. unfold declared. rewrite existsb_exists. split.
  - intros [[[r' a'] c'] [Hin H]]. cbn [fst snd] in H. apply andb_true_iff in H as [H Hc]. apply andb_true_iff in H as [Hr Ha].
    apply Nat.eqb_eq in Hr, Ha. apply cols_eqb_eq in Hc. subst. exact Hin.
  - intros Hin. exists (r, a, c). split; [exact Hin|]. cbn [fst snd]. rewrite !Nat.eqb_refl. cbn [andb]. apply cols_eqb_eq. reflexivity.
Qed.

Lemma decl_arity : forall r a c a' c', In (r, a, c) decls -> In (r, a', c') decls -> a' = a.
Proof.
  intros r a c a' c' H1 H2. rewrite forallb_forall in Hdecls. specialize (Hdecls _ H1). cbn [decl_ok] in Hdecls.
  apply andb_true_iff in Hdecls as [H _]. apply andb_true_iff in H as [_ H]. rewrite forallb_forall in H.
  specialize (H _ H2). cbn [fst snd] in H. rewrite Nat.eqb_refl in H. cbn [negb orb] in H. apply Nat.eqb_eq in H. exact H.
Qed.

Lemma decl_full_cols : forall r a c, In (r, a, c) decls -> is_full a c = true -> c = seq 0 a.
Proof.
  intros r a c H1 Hf. rewrite forallb_forall in Hdecls. specialize (Hdecls _ H1). cbn [decl_ok] in Hdecls.
  apply andb_true_iff in Hdecls as [_ H]. unfold is_full in Hf. rewrite Hf in H. cbn [negb orb] in H. apply cols_eqb_eq. exact H.
Qed.

Lemma decl_has_full : forall r a c, In (r, a, c) decls -> In (r, a, seq 0 a) decls.
Proof.
  intros r a c H1. rewrite forallb_forall in Hdecls. specialize (Hdecls _ H1). cbn [decl_ok] in Hdecls.
  apply andb_true_iff in Hdecls as [H _]. apply andb_true_iff in H as [H _]. apply declared_In. exact H.
Qed.

Definition fok (f : fact) : Prop := fact_idx_ok decls f = true.

Lemma fok_length : forall r t a c, fok (r, t) -> In (r, a, c) decls -> length t = a.
Proof.
  intros r t a c Hf Hin. unfold fok, fact_idx_ok in Hf. cbn [fst snd] in Hf. apply declared_In in Hf.
  exact (decl_arity r a c _ _ Hin Hf).
Qed.

Lemma good_db : forall r a c X, In (r, a, c) decls -> NoDup X -> (forall f, In f X -> fok f) -> good a c (db_of X r).
Proof.
  intros r a c X Hin Hnd Hok Hf. split; [apply NoDup_db_of; exact Hnd|].
  intros t Ht. apply in_db_of in Ht. rewrite (decl_full_cols r a c Hin Hf). apply proj_seq.
  apply (fok_length r t a c (Hok _ Ht) Hin).
Qed.

(* ---------- finding an index in the SCC-local store ---------- *)
Lemma find_declared : forall store r a c, shape store = decls -> declared decls r a c = true ->
  exists l, find_idx store r c = Some l /\ In l store /\ l_rel l = r /\ l_arity l = a /\ l_cols l = c.
Proof.
  intros store r a c Hsh Hd. apply declared_In in Hd. rewrite <- Hsh in Hd. unfold shape in Hd. apply in_map_iff in Hd as [l0 [He Hl0]].
  injection He as Hr Ha Hc. unfold find_idx. destruct (find (l_is r c) store) as [l|] eqn:Ef.
  - apply find_some in Ef as [Hin His]. unfold l_is in His. apply andb_true_iff in His as [H1 H2].
    apply Nat.eqb_eq in H1. apply cols_eqb_eq in H2. exists l. split; [reflexivity|]. split; [exact Hin|]. split; [exact H1|]. split; [|exact H2].
    assert (In (l_rel l, l_arity l, l_cols l) decls) as Hl by (rewrite <- Hsh; unfold shape; apply in_map_iff; exists l; split; [reflexivity|exact Hin]).
    assert (In (l_rel l0, l_arity l0, l_cols l0) decls) as Hl0' by (rewrite <- Hsh; unfold shape; apply in_map_iff; exists l0; split; [reflexivity|exact Hl0]).
    rewrite H1 in Hl. rewrite Hr, Ha in Hl0'. exact (decl_arity r a _ _ _ Hl0' Hl).
  - exfalso. pose proof (find_none _ _ Ef l0 Hl0) as Hn. unfold l_is in Hn. rewrite Hr, Hc, Nat.eqb_refl in Hn. cbn [andb] in Hn.
    assert (cols_eqb c c = true) by (apply cols_eqb_eq; reflexivity). congruence.
Qed.

Lemma store_decl : forall store l, shape store = decls -> In l store -> In (l_rel l, l_arity l, l_cols l) decls.
Proof. intros store l Hsh Hin. rewrite <- Hsh. unfold shape. apply in_map_iff. exists l. split; [reflexivity|exact Hin]. Qed.

(* ---------- agreement of the SCC-local indices with the abstract total / delta / new ---------- *)
Section Agree.
Variable dyn : list rel.
Variables S T D : list fact.

Definition lagree (N : list fact) (l : lidx) : Prop :=
  if is_dyn dyn (l_rel l) then
    l_tot l = repr (l_arity l) (l_cols l) (db_of T (l_rel l))
    /\ l_del l = repr (l_arity l) (l_cols l) (db_of D (l_rel l))
    /\ l_new l = repr (l_arity l) (l_cols l) (db_of N (l_rel l))
  else l_tot l = repr (l_arity l) (l_cols l) (db_of S (l_rel l)).

Definition sagree (N : list fact) (store : list lidx) : Prop := shape store = decls /\ forall l, In l store -> lagree N l.

Hypothesis HndS : NoDup S.
Hypothesis HndTD : NoDup (T ++ D).
Hypothesis HokS : forall f, In f S -> fok f.
Hypothesis HokTD : forall f, In f (T ++ D) -> fok f.

Definition cont := contents S T D dyn.

Lemma cents_repr : forall N store r a idx ver, sagree N store -> declared decls r a idx = true ->
  cents store dyn r idx ver = repr a idx (cont r ver) /\ good a idx (cont r ver).
Proof.
  intros N store r a idx ver [Hsh Hag] Hd. destruct (find_declared store r a idx Hsh Hd) as [l [Hf [Hin [Hr [Ha Hc]]]]].
  pose proof (Hag l Hin) as Hl. unfold lagree in Hl. unfold cents, cont, contents, l_ver. rewrite Hf, Hr. rewrite Hr, Ha, Hc in Hl.
  apply declared_In in Hd. destruct (NoDup_app_inv _ _ _ HndTD) as [HndT [HndD _]].
  destruct (is_dyn dyn r).
  - destruct Hl as [Ht [Hde _]]. destruct ver.
    + split; [exact Ht|]. apply good_db; [exact Hd|exact HndT|]. intros f Hf'. apply HokTD. apply in_or_app. left. exact Hf'.
    + split; [exact Hde|]. apply good_db; [exact Hd|exact HndD|]. intros f Hf'. apply HokTD. apply in_or_app. right. exact Hf'.
    + rewrite Ht, Hde, <- repr_app, <- db_of_app. split; [reflexivity|]. apply good_db; [exact Hd|exact HndTD|exact HokTD].
  - split; [exact Hl|]. apply good_db; [exact Hd|exact HndS|exact HokS].
Qed.

(* ---------- a rule variant evaluated through the indices = evaluated on the abstract contents ---------- *)
Section EvalEq.
Variable store : list lidx.
Hypothesis HC : forall r a idx ver, declared decls r a idx = true ->
  cents store dyn r idx ver = repr a idx (cont r ver) /\ good a idx (cont r ver).

Lemma clause_idx_eq : forall k k' e r args cs idx ver, declared decls r (length args) idx = true -> (forall e', k e' = k' e') ->
  eval_clause_idx_i I store dyn k e r args cs idx ver = eval_clause_idx I cont k' e r args cs idx ver.
Proof.
  intros k k' e r args cs idx ver Hd Hk. unfold eval_clause_idx_i, eval_clause_idx. destruct (eval_key I e args idx) as [key|]; [|reflexivity].
  destruct (HC r (length args) idx ver Hd) as [Hc Hg]. rewrite Hc, (repr_get _ _ _ key Hg).
  apply flat_map_ext. intros tup. destruct (sat_conds I (bind_new e args tup) cs); [apply Hk|reflexivity].
Qed.

Lemma clause_all_eq : forall k k' e r args cs idx ver, declared decls r (length args) idx = true -> (forall e', k e' = k' e') ->
  eval_clause_all_i I store dyn k e r args cs idx ver = eval_clause_all I cont k' e r args cs ver.
Proof.
  intros k k' e r args cs idx ver Hd Hk. unfold eval_clause_all_i, eval_clause_all.
  destruct (HC r (length args) idx ver Hd) as [Hc _]. rewrite Hc, repr_all.
  apply flat_map_ext. intros tup. destruct (sat_conds I (bind_new e args tup) cs); [apply Hk|reflexivity].
Qed.

Lemma agg_get_eq : forall r (args : list aarg) idx key, declared decls r (length args) idx = true ->
  ix_get key (cents store dyn r idx VTotal) = index_get (cont r VTotal) (length args) idx key.
Proof. intros r args idx key Hd. destruct (HC r (length args) idx VTotal Hd) as [Hc Hg]. rewrite Hc. apply repr_get. exact Hg. Qed.

Lemma items_eq : forall items, forallb (item_ok decls) items = true ->
  forall e, eval_items_i I store dyn items e = eval_items I cont items e.
Proof.
  induction items as [|p items IH]; intros Hok e; [reflexivity|]. cbn [forallb] in Hok. apply andb_true_iff in Hok as [Hp Hok].
  specialize (IH Hok). destruct p as [r args cs idx ver|c|x g xs|out a bound r args idx]; cbn [eval_items_i eval_items item_ok] in *.
  - apply clause_idx_eq; [exact Hp|exact IH].
  - destruct (sat_cond I e c); [apply IH|reflexivity].
  - destruct (eval_vars e xs); [|reflexivity]. apply flat_map_ext. intros v. apply IH.
  - destruct (agg_key I e args idx) as [key|]; [|reflexivity]. rewrite (agg_get_eq r args idx key Hp).
    apply flat_map_ext. intros v. apply IH.
Qed.

Lemma sj_eq : forall items reord, forallb (item_ok decls) items = true ->
  forall e, eval_simple_join_i I swap store dyn items reord e = eval_simple_join I swap cont items reord e.
Proof.
  intros items reord Hok e. destruct items as [|p1 items]; [reflexivity|].
  destruct p1 as [r1 a1 c1 i1 v1| | |]; try (apply (items_eq _ Hok)).
  destruct items as [|p2 items]; [apply (items_eq _ Hok)|].
  destruct p2 as [r2 a2 c2 i2 v2| | |]; try (apply (items_eq _ Hok)).
  cbn [forallb item_ok] in Hok. apply andb_true_iff in Hok as [H1 Hok]. apply andb_true_iff in Hok as [H2 Hok].
  cbn [eval_simple_join_i eval_simple_join].
  destruct (HC r1 (length a1) i1 v1 H1) as [Hc1 _]. destruct (HC r2 (length a2) i2 v2 H2) as [Hc2 _].
  rewrite Hc1, Hc2, !repr_all.
  destruct (reord && negb (swap (cont r1 v1) (cont r2 v2))).
  - apply clause_all_eq; [exact H2|]. intros e1. apply clause_idx_eq; [exact H1|]. apply (items_eq _ Hok).
  - apply clause_all_eq; [exact H1|]. intros e1. apply clause_idx_eq; [exact H2|]. apply (items_eq _ Hok).
Qed.

Lemma from_eq : forall items sj reord, forallb (item_ok decls) items = true ->
  forall e, eval_from_i I swap store dyn items sj reord e = eval_from I swap cont items sj reord e.
Proof.
  intros items sj reord. destruct sj as [n|].
  2:{ intros Hok e. destruct items; apply (items_eq _ Hok). }
  revert items. induction n as [|n IH]; intros items Hok e.
  - destruct items; apply (sj_eq _ _ Hok).
  - destruct items as [|p items]; [reflexivity|]. cbn [forallb] in Hok. apply andb_true_iff in Hok as [Hp Hok].
    specialize (IH items Hok). destruct p as [r args cs idx ver|c|x g xs|out a bound r args idx]; cbn [eval_from_i eval_from item_ok] in *.
    + apply clause_idx_eq; [exact Hp|exact IH].
    + destruct (sat_cond I e c); [apply IH|reflexivity].
    + destruct (eval_vars e xs); [|reflexivity]. apply flat_map_ext. intros v. apply IH.
    + destruct (agg_key I e args idx) as [key|]; [|reflexivity]. rewrite (agg_get_eq r args idx key Hp).
      apply flat_map_ext. intros v. apply IH.
Qed.

Lemma empty_eq : forall items, forallb (item_ok decls) items = true ->
  existsb (clause_empty_i store dyn) items = existsb (clause_empty cont) items.
Proof.
  induction items as [|p items IH]; intros Hok; [reflexivity|]. cbn [forallb] in Hok. apply andb_true_iff in Hok as [Hp Hok].
  cbn [existsb]. rewrite (IH Hok). f_equal. destruct p as [r args cs idx ver| | |]; try reflexivity.
  cbn [clause_empty_i clause_empty item_ok] in *. destruct (HC r (length args) idx ver Hp) as [Hc _]. rewrite Hc. apply repr_empty.
Qed.

Lemma variant_eq : forall dynv v, variant_idx_ok decls dynv v = true -> eval_variant_i I swap store dyn v = eval_variant I swap cont v.
Proof.
  intros dynv v Hok. unfold variant_idx_ok in Hok. apply andb_true_iff in Hok as [Hit _].
  unfold eval_variant_i, eval_variant. rewrite (empty_eq _ Hit), (from_eq _ _ _ Hit). reflexivity.
Qed.
End EvalEq.

(* ---------- head updates ---------- *)
Definition nonnil (N : list fact) : bool := match N with [] => false | _ => true end.

Definition Rel (N R : list fact) (acc : list lidx * list fact * bool) : Prop :=
  sagree N (fst (fst acc)) /\ snd (fst acc) = R /\ snd acc = nonnil N
  /\ NoDup N /\ (forall g, In g N -> fok g) /\ (forall g, In g N -> is_dyn dyn (fst g) = true)
  /\ (forall g, In g N -> ~ In g (T ++ D)).

Lemma full_of_found : forall N store r t, sagree N store -> fok (r, t) ->
  exists lf, full_of store r = Some lf /\ In lf store /\ l_rel lf = r /\ is_full (l_arity lf) (l_cols lf) = true.
Proof.
  intros N store r t [Hsh _] Hf. unfold fok, fact_idx_ok in Hf. cbn [fst snd] in Hf.
  destruct (find_declared store r _ _ Hsh Hf) as [l [_ [Hin [Hr [Ha Hc]]]]].
  unfold full_of. destruct (find (fun l0 => Nat.eqb (l_rel l0) r && is_full (l_arity l0) (l_cols l0)) store) as [lf|] eqn:Ef.
  - apply find_some in Ef as [Hin' H]. apply andb_true_iff in H as [H1 H2]. apply Nat.eqb_eq in H1.
    exists lf. repeat split; assumption.
  - exfalso. pose proof (find_none _ _ Ef l Hin) as Hn. cbv beta in Hn. rewrite Hr, Nat.eqb_refl, Ha, Hc in Hn. cbn [andb] in Hn.
    unfold is_full in Hn. rewrite seq_length, Nat.eqb_refl in Hn. discriminate.
Qed.

Lemma db_of_snoc_same : forall N r t, db_of (N ++ [(r, t)]) r = db_of N r ++ [t].
Proof. intros N r t. rewrite db_of_app. unfold db_of at 2. cbn [filter fst]. rewrite Nat.eqb_refl. reflexivity. Qed.

Lemma db_of_snoc_other : forall N r t r', r <> r' -> db_of (N ++ [(r, t)]) r' = db_of N r'.
Proof.
  intros N r t r' Hne. rewrite db_of_app. unfold db_of at 2. cbn [filter fst].
  destruct (Nat.eqb r r') eqn:E; [apply Nat.eqb_eq in E; contradiction|]. cbn [map]. apply app_nil_r.
Qed.

Lemma head_step : forall N R acc f, Rel N R acc -> fok f -> is_dyn dyn (fst f) = true ->
  Rel (fst (head_update T D (N, R) f)) (snd (head_update T D (N, R) f)) (head_update_i no_faults acc f).
Proof.
  intros N R [[store R0] ch] [r t] [Hag [HR [Hch [HndN [HokN [HdynN HdisN]]]]]] Hf Hdyn. cbn [fst snd] in *. subst R0 ch.
  destruct (full_of_found N store r t Hag Hf) as [lf [Hfo [Hin [Hr Hfull]]]].
  pose proof (proj2 Hag lf Hin) as Hl. unfold lagree in Hl. rewrite Hr, Hdyn in Hl. destruct Hl as [Ht [Hd Hn]].
  unfold head_update_i, head_update. cbn [fst snd]. rewrite Hfo, Ht, Hd, Hn, !(repr_has _ _ _ _ Hfull), <- !mem_fact_db.
  destruct (mem_fact (r, t) T) eqn:ET; cbn [orb].
  { cbn [fst snd]. repeat split; try assumption; apply Hag. }
  destruct (mem_fact (r, t) D) eqn:ED; cbn [orb].
  { cbn [fst snd]. repeat split; try assumption; apply Hag. }
  destruct (mem_fact (r, t) N) eqn:EN.
  { cbn [fst snd]. repeat split; try assumption; apply Hag. }
  unfold Rel. cbn [fst snd].
  assert (HndN' : NoDup (N ++ [(r, t)])).
  { apply NoDup_app_intro; [exact HndN | constructor; [intros []|constructor] |].
    intros g Hg [<-|[]]. apply mem_fact_false in EN. contradiction. }
  assert (HokN' : forall g, In g (N ++ [(r, t)]) -> fok g).
  { intros g Hg. apply in_app_or in Hg as [Hg|[<-|[]]]; [apply HokN; exact Hg | exact Hf]. }
  split; [|split; [reflexivity|split; [destruct N; reflexivity|split; [exact HndN'|split; [exact HokN'|split]]]]].
  - destruct Hag as [Hsh Hag]. split.
    + rewrite <- Hsh. unfold shape. rewrite map_map. apply map_ext. intros l.
      destruct (Nat.eqb (l_rel l) r && negb (f_skip no_faults (l_rel l) (l_cols l))); reflexivity.
    + intros l' Hl'. apply in_map_iff in Hl' as [l [<- Hl]]. pose proof (Hag l Hl) as Hla. unfold lagree in *.
      cbn [f_skip no_faults negb]. rewrite andb_true_r. destruct (Nat.eqb (l_rel l) r) eqn:Er.
      * apply Nat.eqb_eq in Er. cbn [insert_new l_rel l_arity l_cols l_tot l_del l_new]. rewrite Er in *. rewrite Hdyn in *.
        destruct Hla as [H1 [H2 H3]]. split; [exact H1|split; [exact H2|]]. rewrite H3, db_of_snoc_same. unfold new_key.
        apply repr_insert. rewrite <- db_of_snoc_same. apply (good_db r); [|exact HndN'|exact HokN'].
        rewrite <- Er. apply (store_decl store l Hsh Hl).
      * apply Nat.eqb_neq in Er. destruct (is_dyn dyn (l_rel l)); [|exact Hla].
        destruct Hla as [H1 [H2 H3]]. split; [exact H1|split; [exact H2|]]. rewrite db_of_snoc_other by congruence. exact H3.
  - intros g Hg. apply in_app_or in Hg as [Hg|[<-|[]]]; [apply HdynN; exact Hg | exact Hdyn].
  - intros g Hg. apply in_app_or in Hg as [Hg|[<-|[]]]; [apply HdisN; exact Hg|].
    intros Hin'. apply in_app_or in Hin' as [Hi|Hi]; [apply mem_fact_false in ET | apply mem_fact_false in ED]; contradiction.
Qed.

Lemma fold_step : forall fs, (forall f, In f fs -> fok f /\ is_dyn dyn (fst f) = true) ->
  forall N R acc, Rel N R acc ->
  Rel (fst (fold_left (head_update T D) fs (N, R))) (snd (fold_left (head_update T D) fs (N, R)))
      (fold_left (head_update_i no_faults) fs acc).
Proof.
  induction fs as [|f fs IH]; intros Hfs N R acc HR; [exact HR|]. cbn [fold_left].
  destruct (Hfs f (or_introl eq_refl)) as [Hf Hd]. pose proof (head_step N R acc f HR Hf Hd) as H1.
  destruct (head_update T D (N, R) f) as [N1 R1] eqn:E. cbn [fst snd] in H1.
  apply IH; [|exact H1]. intros g Hg. apply Hfs. right. exact Hg.
Qed.

Lemma variant_facts_ok : forall cnt v f, variant_idx_ok decls dyn v = true -> In f (eval_variant I swap cnt v) ->
  fok f /\ is_dyn dyn (fst f) = true.
Proof.
  intros cnt v f Hok Hin. unfold variant_idx_ok in Hok. apply andb_true_iff in Hok as [_ Hh]. rewrite forallb_forall in Hh.
  unfold eval_variant in Hin. match type of Hin with In _ (if ?b then _ else _) => destruct b end; [destruct Hin|].
  apply in_heads_of_envs in Hin as [e [h [_ [Hhin He]]]]. specialize (Hh h Hhin). unfold head_ok in Hh.
  apply andb_true_iff in Hh as [H1 H2]. apply eval_head_shape in He as [E1 E2]. split.
  - unfold fok, fact_idx_ok. rewrite E1, E2. exact H2.
  - rewrite E1. exact H1.
Qed.

Lemma iter_sim : forall vars, (forall v, In v vars -> variant_idx_ok decls dyn v = true) ->
  forall N R acc, Rel N R acc ->
  let NR := fold_left (fun a v => fold_left (head_update T D) (eval_variant I swap cont v) a) vars (N, R) in
  Rel (fst NR) (snd NR)
      (fold_left (fun a v => fold_left (head_update_i no_faults) (eval_variant_i I swap (fst (fst a)) dyn v) a) vars acc).
Proof.
  induction vars as [|v vars IH]; intros Hv N R acc HR; [exact HR|]. cbn [fold_left].
  assert (Hvo : variant_idx_ok decls dyn v = true) by (apply Hv; left; reflexivity).
  rewrite (variant_eq (fst (fst acc)) (fun r a idx ver Hd => cents_repr N (fst (fst acc)) r a idx ver (proj1 HR) Hd) dyn v Hvo).
  pose proof (fold_step (eval_variant I swap cont v) (fun f Hf => variant_facts_ok cont v f Hvo Hf) N R acc HR) as H1.
  destruct (fold_left (head_update T D) (eval_variant I swap cont v) (N, R)) as [N1 R1] eqn:E. cbn [fst snd] in H1.
  apply IH; [|exact H1]. intros v' Hv'. apply Hv. right. exact Hv'.
Qed.
End Agree.
End Decls.
