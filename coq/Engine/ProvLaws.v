(* What the engine proof really consumes from a provider (Byods/Provider.v), as a record of
   laws quantified over the histories the generated code can produce: an insertion is
   attempted only for a tuple that neither total nor delta contains at that moment
   (head_update tests contains_key on both first).  Weaker than provider_ok:
     - only guarded histories;
     - no exact characterisation of total (P3): after a merge total may already contain
       tuples that are also served as the new delta (total' <= served + delta'); total is
       only required to hold everything once the stratum is quiescent;
     - no keyed-view laws (P4): the model reads through p_read.
   provider_ok implies engine_laws (engine_laws_of_provider_ok). *)
From Coq Require Import List ZArith Bool Arith.
From AV Require Import Engine.Core Engine.Sem Engine.Eval Engine.Validate Engine.Naive Engine.Interface.
From AV Require Import Byods.Provider Engine.EvalProv Engine.InterfaceProv.
Import ListNotations.

Section Laws.
Variable PV : provider tuple.

(* the histories of the generated code *)
Inductive guarded : list (pop tuple) -> Prop :=
| guarded_nil : guarded []
| guarded_merge h : guarded h -> guarded (h ++ [PMerge])
| guarded_restart h : guarded h -> guarded (h ++ [PRestart])
| guarded_ins h t : guarded h ->
    p_contains tuple PV (run tuple PV h) Provider.VTotal t = false ->
    p_contains tuple PV (run tuple PV h) Provider.VDelta t = false ->
    guarded (h ++ [PIns t]).

Record engine_laws (cl : list tuple -> list tuple) : Prop := {
  (* contains_key decides membership in what the version serves *)
  el_contains : forall h v t, guarded h ->
    (p_contains tuple PV (run tuple PV h) v t = true <-> In t (p_read tuple PV (run tuple PV h) v));
  (* total + delta serve exactly the closure of everything merged so far *)
  el_served : forall h, guarded h ->
    same_set (served tuple PV (run tuple PV h)) (cl (g_td tuple (ghost_of tuple h)));
  (* the first insertion of a round (new is empty) is accepted: `changed` is set *)
  el_first_insert : forall h t, guarded h ->
    p_contains tuple PV (run tuple PV h) Provider.VTotal t = false ->
    p_contains tuple PV (run tuple PV h) Provider.VDelta t = false ->
    g_new tuple (ghost_of tuple h) = [] ->
    snd (p_ins tuple PV (run tuple PV h) t) = true;
  (* weak P3: whatever total serves after a merge was served before the merge, or is (also) in the new delta *)
  el_merge_total : forall h, guarded h ->
    incl (p_read tuple PV (run tuple PV (h ++ [PMerge])) Provider.VTotal)
         (served tuple PV (run tuple PV h) ++ p_read tuple PV (run tuple PV (h ++ [PMerge])) Provider.VDelta);
  (* quiescent exit: a merge after a round without insertions leaves everything in total *)
  el_quiescent : forall h, guarded h -> g_new tuple (ghost_of tuple h) = [] ->
    incl (served tuple PV (run tuple PV (h ++ [PMerge]))) (p_read tuple PV (run tuple PV (h ++ [PMerge])) Provider.VTotal);
  (* stratum boundary: the stored total is served again (as delta), and nothing is in total only *)
  el_restart_serves : forall h, guarded h ->
    incl (p_read tuple PV (run tuple PV h) Provider.VTotal) (served tuple PV (run tuple PV (h ++ [PRestart])));
  el_restart_total : forall h, guarded h ->
    incl (p_read tuple PV (run tuple PV (h ++ [PRestart])) Provider.VTotal)
         (p_read tuple PV (run tuple PV (h ++ [PRestart])) Provider.VDelta) }.

Theorem engine_laws_of_provider_ok : forall cl, closure_op tuple cl -> provider_ok tuple PV cl -> engine_laws cl.
Proof.
  intros cl Hcl Hok. constructor.
  - intros h v t _. apply (ok_P5 tuple PV cl Hok).
  - intros h _. apply (ok_P2 tuple PV cl Hok).
  - intros h t _ _ _ Hn. destruct (p_ins tuple PV (run tuple PV h) t) as [s' b] eqn:Hi. cbn [snd].
    exact (first_insert_succeeds tuple PV cl Hcl Hok h t s' b Hn Hi).
  - intros h _. destruct (merge_total tuple PV cl Hok h) as [H _]. apply incl_appl. exact H.
  - intros h _ Hn. destruct (quiescent_exit tuple PV cl Hok h Hn) as [_ H]. exact H.
  - intros h _. destruct (restart_serves tuple PV cl Hcl Hok h) as [[_ H] _]. exact H.
  - intros h _. destruct (restart_serves tuple PV cl Hcl Hok h) as [_ H]. rewrite H. intros t [].
Qed.
End Laws.

(* InterfaceProv.prun_plan_correct_stmt with provider_ok weakened to engine_laws *)
Definition prun_plan_correct_w_stmt (I : interp) (swap : list tuple -> list tuple -> bool) : Prop :=
  forall (PV : provider tuple) (cl : list tuple -> list tuple) (r0 : rel) (n0 : nat) arities P pl fuel F0 st,
    closure_op tuple cl -> engine_laws PV cl -> cl_arity cl n0 -> In (r0, n0) arities ->
    arities_functional arities -> wf_facts arities F0 = true -> no_agg P = true ->
    (forall f, In f F0 -> fst f <> r0) ->
    validate arities P pl = true ->
    prun_plan I swap PV r0 fuel pl F0 = Some st ->
    least_model_cl I P cl r0 F0 (pfacts PV r0 st).
