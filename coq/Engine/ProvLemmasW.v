(* ProvLemmas.v under the weaker ProvLaws.engine_laws: what the views serve along a
   GUARDED history, and the head-update fold, which only ever extends a guarded history
   by guarded insertions. *)
From Coq Require Import List ZArith Bool Arith Lia.
From AV Require Import Engine.Core Engine.Sem Engine.Eval Byods.Provider Engine.EvalProv Engine.InterfaceProv.
From AV Require Import Engine.NaiveLemmas Engine.ProvLemmas Engine.ProvLaws.
Import ListNotations.
Local Open Scope nat_scope.

Section HistW.
Variable PV : provider tuple.
Variable cl : list tuple -> list tuple.
Hypothesis Hcl : closure_op tuple cl.
Hypothesis HL : engine_laws PV cl.

Notation grd := (guarded PV).

Lemma srv_iff_w : forall h t, grd h -> (In t (srv PV h) <-> In t (cl (g_td tuple (gh h)))).
Proof. intros h t Hg. destruct (el_served PV cl HL h Hg) as [H1 H2]. split; [apply H1 | apply H2]. Qed.

Lemma srv_ins_w : forall h ins t, grd h -> grd (h ++ inss ins) -> (In t (srv PV (h ++ inss ins)) <-> In t (srv PV h)).
Proof.
  intros h ins t Hg Hg'. rewrite (srv_iff_w _ t Hg), (srv_iff_w _ t Hg').
  destruct (gh_ins ins h) as [_ [H _]]. rewrite H. reflexivity.
Qed.

Lemma srv_merge_mono_w : forall h t, grd h -> In t (srv PV h) -> In t (srv PV (h ++ [PMerge])).
Proof.
  intros h t Hg H. apply (srv_iff_w _ t (guarded_merge PV h Hg)). apply (srv_iff_w _ t Hg) in H.
  destruct (gh_merge h) as [_ [H2 _]]. rewrite H2. revert H. apply (cl_mono tuple cl Hcl). apply incl_appl. apply incl_refl.
Qed.

Lemma new_srv_merge_w : forall h t, grd h -> In t (g_new tuple (gh h)) -> In t (srv PV (h ++ [PMerge])).
Proof.
  intros h t Hg H. apply (srv_iff_w _ t (guarded_merge PV h Hg)). destruct (gh_merge h) as [_ [H2 _]]. rewrite H2.
  apply (cl_ext tuple cl Hcl). apply in_or_app. right. exact H.
Qed.

Lemma quiescent_w : forall h t, grd h -> g_new tuple (gh h) = [] ->
  In t (srv PV (h ++ [PMerge])) -> In t (rd PV (h ++ [PMerge]) Provider.VTotal).
Proof. intros h t Hg Hn H. exact (el_quiescent PV cl HL h Hg Hn t H). Qed.

Lemma contains_srv_w : forall h t, grd h ->
  (p_contains tuple PV (run tuple PV h) Provider.VTotal t || p_contains tuple PV (run tuple PV h) Provider.VDelta t = true
   <-> In t (srv PV h)).
Proof.
  intros h t Hg. rewrite orb_true_iff, !(el_contains PV cl HL h _ t Hg), srv_eq, in_app_iff. reflexivity.
Qed.

Lemma srv_len_w : forall n0 h t, grd h -> cl_arity cl n0 -> (forall u, In u (g_td tuple (gh h)) -> length u = n0) ->
  In t (srv PV h) -> length t = n0.
Proof. intros n0 h t Hg Har Hgd H. apply (srv_iff_w _ t Hg) in H. exact (Har _ t Hgd H). Qed.

Lemma srv_nil_w : forall t, ~ In t (srv PV []).
Proof.
  intros t H. apply (srv_iff_w [] t (guarded_nil PV)) in H. cbn in H. rewrite (cl_nil tuple cl Hcl) in H. exact H.
Qed.

(* ---------- the head-update fold ---------- *)
Variable r0 : rel.
Variables T D : list fact.

Lemma fold_phead_spec_w : forall fs N R h ch N' R' ps' ch',
  grd h ->
  fold_left (phead_update PV r0 T D) fs (N, R, run tuple PV h, ch) = (N', R', ps', ch') ->
  exists A ins, N' = N ++ A /\ R' = R ++ A /\ ps' = run tuple PV (h ++ inss ins) /\ grd (h ++ inss ins)
    /\ (forall f, In f A -> In f fs /\ fst f <> r0 /\ ~ In f T /\ ~ In f D /\ ~ In f N)
    /\ (forall t, In t ins -> In (r0, t) fs)
    /\ (forall f, In f fs -> fst f <> r0 -> In f T \/ In f D \/ In f N \/ In f A)
    /\ (forall f, In f fs -> fst f = r0 -> In (snd f) (srv PV h) \/ In (snd f) ins)
    /\ (ch' = false -> ch = false /\ A = [] /\ (g_new tuple (gh h) = [] -> ins = [])).
Proof.
  induction fs as [|a fs IH]; intros N R h ch N' R' ps' ch' Hg H.
  - cbn [fold_left] in H. injection H as <- <- <- <-. exists [], []. cbn [inss map]. rewrite !app_nil_r.
    repeat split; try reflexivity; try (intros ? []); auto.
  - cbn [fold_left] in H. rewrite (phead_update_eq PV r0 T D) in H. destruct (Nat.eqb (fst a) r0) eqn:Hr.
    + apply Nat.eqb_eq in Hr.
      destruct (p_contains tuple PV (run tuple PV h) Provider.VTotal (snd a)
                || p_contains tuple PV (run tuple PV h) Provider.VDelta (snd a)) eqn:Hc.
      * apply (contains_srv_w h _ Hg) in Hc.
        destruct (IH _ _ _ _ _ _ _ _ Hg H) as [A [ins [HN [HR [Hps [Hg' [HA [Hins [Hcp [Hcr Hch]]]]]]]]]].
        exists A, ins. split; [exact HN|]. split; [exact HR|]. split; [exact Hps|]. split; [exact Hg'|].
        split; [|split; [|split; [|split]]].
        -- intros f Hf. destruct (HA f Hf) as [H1 H2]. split; [right; exact H1 | exact H2].
        -- intros t Ht. right. apply Hins. exact Ht.
        -- intros f [<- | Hf] Hne; [contradiction | apply Hcp; assumption].
        -- intros f [<- | Hf] He; [left; exact Hc | apply Hcr; assumption].
        -- exact Hch.
      * apply orb_false_iff in Hc as [Hc1 Hc2].
        pose proof (guarded_ins PV h (snd a) Hg Hc1 Hc2) as Hg1.
        destruct (p_ins tuple PV (run tuple PV h) (snd a)) as [ps1 b] eqn:Hi.
        assert (Hps1 : ps1 = run tuple PV (h ++ [PIns (snd a)])).
        { rewrite run_snoc. cbn [step]. rewrite Hi. reflexivity. }
        rewrite Hps1 in H.
        destruct (IH _ _ _ _ _ _ _ _ Hg1 H) as [A [ins [HN [HR [Hps [Hg' [HA [Hins [Hcp [Hcr Hch]]]]]]]]]].
        assert (Happ : (h ++ [PIns (snd a)]) ++ inss ins = h ++ inss (snd a :: ins)).
        { cbn [inss map]. change (PIns (snd a) :: map (fun t0 => PIns t0) ins) with ([PIns (snd a)] ++ inss ins).
          rewrite app_assoc. reflexivity. }
        exists A, (snd a :: ins). split; [exact HN|]. split; [exact HR|].
        split; [rewrite Hps, Happ; reflexivity|]. split; [rewrite <- Happ; exact Hg'|].
        split; [|split; [|split; [|split]]].
        -- intros f Hf. destruct (HA f Hf) as [H1 H2]. split; [right; exact H1 | exact H2].
        -- intros t [<- | Ht]; [left; destruct a; cbn [fst snd] in *; subst; reflexivity | right; apply Hins; exact Ht].
        -- intros f [<- | Hf] Hne; [contradiction | apply Hcp; assumption].
        -- intros f [<- | Hf] He; [right; left; reflexivity|].
           destruct (Hcr f Hf He) as [Hs | Hs]; [left | right; right; exact Hs].
           change [PIns (snd a)] with (inss [snd a]) in Hs, Hg1. apply (srv_ins_w h [snd a] _ Hg Hg1) in Hs. exact Hs.
        -- intros Hf. destruct (Hch Hf) as [Hcf [HA0 _]]. apply orb_false_iff in Hcf as [Hcf Hb]. subst b.
           split; [exact Hcf|]. split; [exact HA0|]. intros Hn. exfalso.
           pose proof (el_first_insert PV cl HL h (snd a) Hg Hc1 Hc2 Hn) as Hacc. rewrite Hi in Hacc. discriminate.
    + apply Nat.eqb_neq in Hr.
      destruct (mem_fact a T || mem_fact a D || mem_fact a N) eqn:Hm.
      * destruct (IH _ _ _ _ _ _ _ _ Hg H) as [A [ins [HN [HR [Hps [Hg' [HA [Hins [Hcp [Hcr Hch]]]]]]]]]].
        exists A, ins. split; [exact HN|]. split; [exact HR|]. split; [exact Hps|]. split; [exact Hg'|].
        split; [|split; [|split; [|split]]].
        -- intros f Hf. destruct (HA f Hf) as [H1 H2]. split; [right; exact H1 | exact H2].
        -- intros t Ht. right. apply Hins. exact Ht.
        -- intros f [<- | Hf] Hne; [|apply Hcp; assumption].
           apply orb_true_iff in Hm as [Hm | Hm]; [apply orb_true_iff in Hm as [Hm | Hm]|];
             apply mem_fact_In in Hm; auto.
        -- intros f [<- | Hf] He; [contradiction | apply Hcr; assumption].
        -- exact Hch.
      * apply orb_false_iff in Hm as [Hm HmN]. apply orb_false_iff in Hm as [HmT HmD].
        apply mem_fact_false in HmT, HmD, HmN.
        destruct (IH _ _ _ _ _ _ _ _ Hg H) as [A [ins [HN [HR [Hps [Hg' [HA [Hins [Hcp [Hcr Hch]]]]]]]]]].
        exists (a :: A), ins. split; [rewrite HN, <- app_assoc; reflexivity|].
        split; [rewrite HR, <- app_assoc; reflexivity|]. split; [exact Hps|]. split; [exact Hg'|].
        split; [|split; [|split; [|split]]].
        -- intros f [<- | Hf]; [split; [left; reflexivity | auto]|].
           destruct (HA f Hf) as [H1 [H2 [H3 [H4 H5]]]]. split; [right; exact H1|]. split; [exact H2|].
           split; [exact H3|]. split; [exact H4|]. intro Hn. apply H5. apply in_or_app. left. exact Hn.
        -- intros t Ht. right. apply Hins. exact Ht.
        -- intros f [<- | Hf] Hne; [right; right; right; left; reflexivity|].
           destruct (Hcp f Hf Hne) as [Hc | [Hc | [Hc | Hc]]]; auto.
           ++ apply in_app_or in Hc as [Hc | [<- | []]]; auto. right. right. right. left. reflexivity.
           ++ right. right. right. right. exact Hc.
        -- intros f [<- | Hf] He; [contradiction | apply Hcr; assumption].
        -- intros Hf. destruct (Hch Hf) as [Hc1 _]. discriminate.
Qed.
End HistW.
