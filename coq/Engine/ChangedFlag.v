(* The `__changed` flag of compile_mir_scc / head_update_code made explicit.

   Engine/Eval.v scc_loop leaves the fixpoint loop of a looping SCC when an iteration produced no new fact (N = []).
   The generated code does not test that: every head update that inserts a row executes `__changed = true`
   (ascent_codegen.rs head_update_code, set_changed_true_code), and the loop is

       loop { __changed = false; <rules: write into *_new>;
              merge_delta_to_total_new_to_delta(..);       // total += delta, delta = new, new = {}
              if !__changed { break; } }
       _self.<index field> = <index>_total;                 // only TOTAL is written back

   so what a LATER stratum (negation, aggregation, plain clauses) reads is `total` at the exit; the last `delta` is dropped.
   That is sound exactly because of the invariant  "__changed = false  =>  every *_new was empty".
   Here the flag is a parameter: [flag sc r] says whether an insertion into relation r inside the SCC sc sets __changed.

   - flag_loop_eq / run_plan_flag_eq: when the flag is set by every head relation of every looping SCC (the generated code
     sets it for every head clause), the flagged engine IS Eval.run_plan - all theorems about run_plan apply to it.
   - changed_flag_read_in_scc_refuted: the tempting restriction "only relations that some rule of the SCC reads set the flag"
     (tuples of a written-but-unread head cannot enable further derivations in the SCC) is refuted with a computed
     witness: the tuples such a head receives in the last productive iteration stay in `delta`, never reach the stored
     index, and a count over that relation in the next stratum is wrong - the rows are not the stratified model. *)
From Coq Require Import List ZArith Bool Arith Lia.
From AV Require Import Engine.Core Engine.Sem Engine.Eval Engine.Validate Engine.Naive Engine.InterfaceAgg.
From AV Require Import Engine.Strat Engine.StratFixed Engine.StratFixedLemmas Engine.SemiNaiveAgg Engine.MainAgg Engine.Vocab.
Import ListNotations.
Open Scope Z_scope.

Section Flag.
Variable I : interp.
Variable swap_oracle : list tuple -> list tuple -> bool.
Variable flag : pscc -> rel -> bool.

(* head update: contains(total), contains(delta), insert_if_not_present(new), push, and then `__changed = true` if this head sets it *)
Definition head_update_flag (sc : pscc) (T D : list fact) (acc : list fact * list fact * bool) (f : fact) : list fact * list fact * bool :=
  let '(N, R, ch) := acc in
  if mem_fact f T || mem_fact f D || mem_fact f N then (N, R, ch) else (N ++ [f], R ++ [f], ch || flag sc (fst f)).

Definition scc_iteration_flag (sc : pscc) (S T D : list fact) (R : list fact) : list fact * list fact * bool :=
  fold_left (fun acc v => fold_left (head_update_flag sc T D) (eval_variant I swap_oracle (contents S T D (s_dyn sc)) v) acc)
            (s_vars sc) ([], R, false).

(* the loop as generated: the exit test looks at the flag only; the facts in N (shifted to delta by the merge) are not written back *)
Fixpoint scc_loop_flag (fuel : nat) (sc : pscc) (S T D R : list fact) : option (list fact * list fact) :=
  match fuel with
  | O => None
  | S n => let '(N, R', ch) := scc_iteration_flag sc S T D R in
           if ch then scc_loop_flag n sc S (T ++ D) N R' else Some (T ++ D, R')
  end.

Definition run_scc_flag (fuel : nat) (sc : pscc) (st : state) : option state :=
  let D0 := filter (fact_dyn (s_dyn sc)) (stored st) in
  let S := filter (fun f => negb (fact_dyn (s_dyn sc) f)) (stored st) in
  if s_loop sc then
    match scc_loop_flag fuel sc S [] D0 (rows st) with
    | Some (T, R) => Some {| rows := R; stored := S ++ T |}
    | None => None
    end
  else
    let '(N, R) := scc_iteration I swap_oracle sc S [] D0 (rows st) in
    Some {| rows := R; stored := S ++ (D0 ++ N) |}.

Fixpoint run_sccs_flag (fuel : nat) (pl : plan) (st : state) : option state :=
  match pl with
  | [] => Some st
  | sc :: pl' => match run_scc_flag fuel sc st with Some st' => run_sccs_flag fuel pl' st' | None => None end
  end.

Definition run_plan_flag (fuel : nat) (pl : plan) (st : state) : option state := run_sccs_flag fuel pl (update_indices st).

(* ------------------------------------------------------------------ the flag set by every head: the loop of Eval.v *)

Definition nonempty (l : list fact) : bool := match l with [] => false | _ => true end.

(* every head relation of the SCC sets the flag *)
Definition flag_covers (sc : pscc) : Prop :=
  forall v r, In v (s_vars sc) -> In r (map fst (v_heads v)) -> flag sc r = true.

Lemma in_filter_map_inv {A B} (g : A -> option B) (l : list A) (b : B) : In b (filter_map g l) -> exists a, In a l /\ g a = Some b.
Proof.
  induction l as [|a l IH]; cbn [filter_map]; intros H.
  - destruct H.
  - destruct (g a) as [b'|] eqn:E.
    + destruct H as [H|H].
      * exists a. split; [left; reflexivity|]. rewrite E. f_equal. exact H.
      * destruct (IH H) as [a' [Ha Hg]]. exists a'. split; [right; exact Ha|exact Hg].
    + destruct (IH H) as [a' [Ha Hg]]. exists a'. split; [right; exact Ha|exact Hg].
Qed.

Lemma eval_variant_head_rel cont v f : In f (eval_variant I swap_oracle cont v) -> In (fst f) (map fst (v_heads v)).
Proof.
  unfold eval_variant. intros H.
  match type of H with In _ (if ?c then _ else _) => destruct c end.
  - destruct H.
  - apply in_flat_map in H. destruct H as [e [_ H]].
    apply in_filter_map_inv in H. destruct H as [h [Hh He]].
    unfold eval_head in He. destruct (eval_terms I e (snd h)) as [vs|]; cbn [option_map] in He; [|discriminate He].
    inversion He; subst f. cbn [fst]. apply in_map. exact Hh.
Qed.

Lemma head_update_flag_step sc T D a f : flag sc (fst f) = true ->
  head_update_flag sc T D (a, nonempty (fst a)) f = (head_update T D a f, nonempty (fst (head_update T D a f))).
Proof.
  intros Hf. destruct a as [N R]. unfold head_update_flag, head_update. cbn [fst].
  destruct (mem_fact f T || mem_fact f D || mem_fact f N); cbn [fst].
  - reflexivity.
  - rewrite Hf. rewrite orb_true_r. destruct N; reflexivity.
Qed.

Lemma fold_head_update_flag sc T D fs : forall a, (forall f, In f fs -> flag sc (fst f) = true) ->
  fold_left (head_update_flag sc T D) fs (a, nonempty (fst a))
  = (fold_left (head_update T D) fs a, nonempty (fst (fold_left (head_update T D) fs a))).
Proof.
  induction fs as [|f fs IH]; intros a H; cbn [fold_left].
  - reflexivity.
  - rewrite head_update_flag_step by (apply H; left; reflexivity).
    apply IH. intros g Hg. apply H. right. exact Hg.
Qed.

Lemma fold_variants_flag sc cont T D vs : forall a, (forall v, In v vs -> In v (s_vars sc)) -> flag_covers sc ->
  fold_left (fun acc v => fold_left (head_update_flag sc T D) (eval_variant I swap_oracle cont v) acc) vs (a, nonempty (fst a))
  = (fold_left (fun acc v => fold_left (head_update T D) (eval_variant I swap_oracle cont v) acc) vs a,
     nonempty (fst (fold_left (fun acc v => fold_left (head_update T D) (eval_variant I swap_oracle cont v) acc) vs a))).
Proof.
  induction vs as [|v vs IH]; intros a Hin Hc; cbn [fold_left].
  - reflexivity.
  - rewrite fold_head_update_flag.
    + apply IH; [intros w Hw; apply Hin; right; exact Hw|exact Hc].
    + intros f Hf. apply (Hc v); [apply Hin; left; reflexivity|]. apply eval_variant_head_rel with (cont := cont). exact Hf.
Qed.

Lemma scc_iteration_flag_eq sc S T D R : flag_covers sc ->
  scc_iteration_flag sc S T D R = (scc_iteration I swap_oracle sc S T D R, nonempty (fst (scc_iteration I swap_oracle sc S T D R))).
Proof.
  intros Hc. unfold scc_iteration_flag, scc_iteration.
  change ([], R, false) with (([], R) : list fact * list fact, nonempty (fst (([], R) : list fact * list fact))).
  apply fold_variants_flag; [intros v Hv; exact Hv|exact Hc].
Qed.

Theorem flag_loop_eq : forall fuel sc S T D R, flag_covers sc ->
  scc_loop_flag fuel sc S T D R = scc_loop I swap_oracle fuel sc S T D R.
Proof.
  induction fuel as [|n IH]; intros sc S T D R Hc; cbn [scc_loop_flag scc_loop].
  - reflexivity.
  - rewrite scc_iteration_flag_eq by exact Hc.
    destruct (scc_iteration I swap_oracle sc S T D R) as [N R'] eqn:E. cbn [fst].
    destruct N as [|f N]; cbn [nonempty].
    + reflexivity.
    + apply IH. exact Hc.
Qed.

Definition plan_flag_covers (pl : plan) : Prop := forall sc, In sc pl -> s_loop sc = true -> flag_covers sc.

Lemma run_scc_flag_eq fuel sc st : (s_loop sc = true -> flag_covers sc) -> run_scc_flag fuel sc st = run_scc I swap_oracle fuel sc st.
Proof.
  intros Hc. unfold run_scc_flag, run_scc. destruct (s_loop sc) eqn:El.
  - rewrite flag_loop_eq by (apply Hc; reflexivity). reflexivity.
  - reflexivity.
Qed.

Lemma run_sccs_flag_eq fuel pl : forall st, plan_flag_covers pl -> run_sccs_flag fuel pl st = run_sccs I swap_oracle fuel pl st.
Proof.
  induction pl as [|sc pl IH]; intros st Hc; cbn [run_sccs_flag run_sccs].
  - reflexivity.
  - rewrite run_scc_flag_eq by (intros Hl; apply Hc; [left; reflexivity|exact Hl]).
    destruct (run_scc I swap_oracle fuel sc st) as [st'|]; [|reflexivity].
    apply IH. intros sc' Hin. apply Hc. right. exact Hin.
Qed.

Theorem run_plan_flag_eq : forall fuel pl st, plan_flag_covers pl -> run_plan_flag fuel pl st = run_plan I swap_oracle fuel pl st.
Proof. intros fuel pl st Hc. unfold run_plan_flag, run_plan. apply run_sccs_flag_eq. exact Hc. Qed.
End Flag.

(* the generated code: every head clause sets the flag *)
Definition flag_every_head : pscc -> rel -> bool := fun _ _ => true.

Theorem run_plan_flag_every_head : forall I swap fuel pl st,
  run_plan_flag I swap flag_every_head fuel pl st = run_plan I swap fuel pl st.
Proof. intros. apply run_plan_flag_eq. intros sc _ _ v r _ _. reflexivity. Qed.

(* with the flag set by every head relation of every looping SCC the flagged engine computes the stratified model (C04) *)
Theorem run_plan_flag_strat_correct : forall (I : interp) (swap : list tuple -> list tuple -> bool) flag arities P pl fuel F0 st,
  arities_functional arities -> wf_facts arities F0 = true -> NoDup F0 -> agg_perm_invariant I ->
  validate arities P pl = true -> plan_flag_covers flag pl ->
  run_plan_flag I swap flag fuel pl (init_state F0) = Some st ->
  stratified (plan_strata P pl) = true
  /\ (forall r, In r P <-> In r (concat (plan_strata P pl)))
  /\ strat_model_fixed I (plan_strata P pl) F0 (rows st)
  /\ NoDup (rows st)
  /\ exists added, rows st = F0 ++ added.
Proof.
  intros I swap flag arities P pl fuel F0 st Ha Hw Hn Hp Hv Hc Hr.
  rewrite run_plan_flag_eq in Hr by exact Hc.
  exact (run_plan_strat_correct_full I swap arities P pl fuel F0 st Ha Hw Hn Hp Hv Hr).
Qed.

(* ------------------------------------------------------------------ the restriction to relations read in the SCC *)

Definition item_reads (r : rel) (p : pitem) : bool := match p with PClause r' _ _ _ _ => Nat.eqb r r' | _ => false end.
(* set the flag only for a head relation that some body clause of a rule of the SCC reads (always in a non-looping SCC) *)
Definition flag_read_in_scc (sc : pscc) (r : rel) : bool :=
  negb (s_loop sc) || existsb (fun v => existsb (item_reads r) (v_items v)) (s_vars sc).

(* witness:   p(x, y) <-- e(x, y);   p(x, z), v(x, z, y) <-- p(x, y), e(y, z);   c(n as i32) <-- agg n = count() in v(_, _, _);
   (relations e = 0, p = 1, v = 2, c = 3; the plan is the one the macro computes for this program)
   on the edges 1->2, 2->4, 1->3, 3->5, 5->4:  p(1, 4) is derived through 2 in the second iteration and again through 5 in
   the third one, which therefore adds v(1, 4, 5) and nothing that the SCC reads *)
Definition w_arities : list (rel * nat) := [(0%nat, 2%nat); (1%nat, 2%nat); (2%nat, 3%nat); (3%nat, 1%nat)].
Definition w_prog : list rule :=
  [{| heads := [(1%nat, [TVar 0%nat; TVar 1%nat])]; body := [BClause 0%nat [TVar 0%nat; TVar 1%nat] []] |};
   {| heads := [(1%nat, [TVar 0%nat; TVar 2%nat]); (2%nat, [TVar 0%nat; TVar 2%nat; TVar 1%nat])];
      body := [BClause 1%nat [TVar 0%nat; TVar 1%nat] []; BClause 0%nat [TVar 1%nat; TVar 2%nat] []] |};
   {| heads := [(3%nat, [TFun 5%nat [0%nat]])]; body := [BAgg (Some 0%nat) 0%nat [] 2%nat [AWild; AWild; AWild]] |}].
Definition w_plan : plan :=
  [{| s_vars := [{| v_rule := 0%nat; v_heads := [(1%nat, [TVar 0%nat; TVar 1%nat])];
                    v_items := [PClause 0%nat [TVar 0%nat; TVar 1%nat] [] [] VTotal]; v_sj := None; v_reord := false |}];
      s_dyn := [1%nat]; s_loop := false |};
   {| s_vars := [{| v_rule := 1%nat; v_heads := [(1%nat, [TVar 0%nat; TVar 2%nat]); (2%nat, [TVar 0%nat; TVar 2%nat; TVar 1%nat])];
                    v_items := [PClause 1%nat [TVar 0%nat; TVar 1%nat] [] [1%nat] VDelta; PClause 0%nat [TVar 1%nat; TVar 2%nat] [] [0%nat] VTotal];
                    v_sj := (Some 0%nat); v_reord := true |}];
      s_dyn := [1%nat; 2%nat]; s_loop := true |};
   {| s_vars := [{| v_rule := 2%nat; v_heads := [(3%nat, [TFun 5%nat [0%nat]])];
                    v_items := [PAgg (Some 0%nat) 0%nat [] 2%nat [AWild; AWild; AWild] []]; v_sj := None; v_reord := false |}];
      s_dyn := [3%nat]; s_loop := false |}].
Definition w_F0 : list fact := [(0%nat, [1; 2]); (0%nat, [2; 4]); (0%nat, [1; 3]); (0%nat, [3; 5]); (0%nat, [5; 4])].

Definition w_flagged : option state := run_plan_flag std_interp std_swap flag_read_in_scc 20 w_plan (init_state w_F0).
Definition w_real : option state := run_plan std_interp std_swap 20 w_plan (init_state w_F0).

(* the run of Eval.v counts the four tuples of v; the flagged run counts three and its stored index of v misses v(1, 4, 5),
   which IS a row of v *)
Example w_real_count : option_map (fun st => db_of (rows st) 3%nat) w_real = Some [[4]].
Proof. vm_compute. reflexivity. Qed.
Example w_flagged_count : option_map (fun st => (db_of (rows st) 3%nat, mem_fact (2%nat, [1; 4; 5]) (rows st), mem_fact (2%nat, [1; 4; 5]) (stored st))) w_flagged
                          = Some ([[3]], true, false).
Proof. vm_compute. reflexivity. Qed.

Lemma w_arities_functional : arities_functional w_arities.
Proof.
  intros r n m Hn Hm. unfold w_arities in Hn, Hm. cbn [In] in Hn, Hm.
  repeat match goal with H : _ \/ _ |- _ => destruct H as [H|H] end;
    try (exfalso; assumption); repeat match goal with H : (_, _) = (_, _) |- _ => inversion H; clear H end; subst; try reflexivity; try discriminate; try lia.
Qed.

Lemma w_F0_nodup : NoDup w_F0.
Proof.
  unfold w_F0. repeat (constructor; [cbn [In]; intros H; repeat (destruct H as [H|H]; [discriminate H|]); exact H|]). constructor.
Qed.

Theorem changed_flag_read_in_scc_refuted : exists arities P pl F0 fuel st,
  arities_functional arities /\ wf_facts arities F0 = true /\ NoDup F0 /\ agg_perm_invariant std_interp /\ validate arities P pl = true
  /\ run_plan_flag std_interp std_swap flag_read_in_scc fuel pl (init_state F0) = Some st
  /\ ~ strat_model_fixed std_interp (plan_strata P pl) F0 (rows st).
Proof.
  destruct w_flagged as [stf|] eqn:Ef; [|vm_compute in Ef; discriminate Ef].
  destruct w_real as [str|] eqn:Er; [|vm_compute in Er; discriminate Er].
  exists w_arities, w_prog, w_plan, w_F0, 20%nat, stf.
  assert (Hv : validate w_arities w_prog w_plan = true) by (vm_compute; reflexivity).
  assert (Hw : wf_facts w_arities w_F0 = true) by (vm_compute; reflexivity).
  split; [exact w_arities_functional|]. split; [exact Hw|]. split; [exact w_F0_nodup|].
  split; [exact std_interp_agg_perm_invariant|]. split; [exact Hv|]. split; [exact Ef|].
  intros Hm.
  destruct (run_plan_strat_correct_full std_interp std_swap w_arities w_prog w_plan 20%nat w_F0 str
              w_arities_functional Hw w_F0_nodup std_interp_agg_perm_invariant Hv Er) as [_ [_ [Hm' _]]].
  assert (Hiff := strat_model_fixed_unique std_interp (plan_strata w_prog w_plan) w_F0 w_F0 (rows stf) (rows str)
                    (fun f => conj (fun H => H) (fun H => H)) Hm Hm' (3%nat, [3])).
  assert (Hin : In (3%nat, [3]) (rows stf)).
  { assert (E : w_flagged = Some stf) by exact Ef. vm_compute in E. inversion E; subst stf. cbn [rows]. cbv [In]. tauto. }
  apply Hiff in Hin.
  assert (E : w_real = Some str) by exact Er. vm_compute in E. inversion E; subst str. cbn [rows] in Hin. cbv [In] in Hin.
  repeat (destruct Hin as [Hin|Hin]; [discriminate Hin|]). exact Hin.
Qed.

Print Assumptions run_plan_flag_eq. Print Assumptions run_plan_flag_strat_correct. Print Assumptions changed_flag_read_in_scc_refuted.
