(* C03 / C02 / C05 - the parallel lattice head update when the key-index lookup of `new` is NOT reliable.

   Engine/ParLat.v models `new_key_index.get_cloned(k)` (CRelFullIndex::get_cloned = DashMap::get, which WAITS for a
   writer of the shard) as one atomic, reliable step: it returns the entry that is in the map.  Every theorem of
   Engine/ParLatProofs.v (one row per key, values = least upper bounds, ...) silently rests on that.  This file makes the
   assumption explicit: the same machine, but a scheduled event may carry a MISS flag, and a lookup of new's key index
   performed by a flagged step answers "absent" whatever the map holds (what a `try_get` that gives up on a write-locked
   shard does: seed C03_par_key_index_try_get_spurious_miss).  The machine looks a key up twice:
     (1) the first lookup, outside the key mutex;       [u1] = this lookup may miss spuriously
     (5) the re-check, holding the key mutex.            [u5] = this lookup may miss spuriously
   Results, for every key / value type, lattice, mutex assignment, insertion order, distribution and event list:
     lrun_reliable                      no flagged event (or u1 = u5 = false): the machine IS Engine/ParLat.v's (so all of
                                        ParLatProofs applies: the reliability of the lookup is now a stated hypothesis).
     lookup_first_miss_one_row_per_key  u5 = false (only the FIRST lookup is unreliable): still one row per key in every
     lookup_first_miss_values_lub       reachable state, and after every finishing event list each row holds the least
                                        upper bound: a miss at (1) only sends the worker to the mutex, where the re-check
                                        finds the row.  The re-check under the mutex is what carries the guarantee.
     lookup_recheck_miss_refuted        u5 = true: closed witness (2 workers, bitwise-or lattice on Z, key 5 receives 1, 2, 4)
                                        ending with TWO rows for key 5 holding 1 and 6: neither is the least upper bound 7,
                                        the key index points at the newer row only (the older one is orphaned), and both
                                        row numbers are in new's other indices.
   No axioms. *)
From Coq Require Import List ZArith Bool Arith Lia.
From AV Require Import Engine.ParLat.
From AV Require Import LatEngine.LatSem.
From AV Require Import Engine.ParLatProofs.
Import ListNotations.
Local Open Scope nat_scope.

Section Lookup.
Context {K V : Type}.
Variable keqb : K -> K -> bool.
Variable jm : V -> V -> V * bool.
Variable mx : K -> nat.
Variable kfirst : bool.
Variable setidx : bool.
Variables dl tt : K -> option nat.
Variables u1 u5 : bool.          (* which of the two lookups of new's key index may miss spuriously *)

Notation pstate := (@pstate K V).
Notation stepf := (step keqb jm mx kfirst setidx dl tt).

(* one scheduled event = (worker, miss flag) *)
Definition lstep (st : pstate) (ev : nat * bool) : pstate :=
  let (j, miss) := ev in
  match nth_error (lws st) j with
  | None => st
  | Some w =>
      match wpc w with
      | PIdle =>
          if miss && u1 then
            match todo w with
            | [] => st
            | (k, v) :: rest => goto st j rest (PLook k v None)          (* (1) answers "absent" *)
            end
          else stepf st j
      | PRecheck k v =>
          if miss && u5 then goto st j (todo w) (PPush k v)              (* (5) answers "absent" *)
          else stepf st j
      | _ => stepf st j
      end
  end.

Definition lrun (st : pstate) (evs : list (nat * bool)) : pstate := fold_left lstep evs st.

Lemma lstep_no_miss : forall st j, lstep st (j, false) = stepf st j.
Proof.
  intros st j. unfold lstep, step. destruct (nth_error (lws st) j) as [w|]; [|reflexivity].
  destruct (wpc w); reflexivity.
Qed.

Lemma lrun_reliable : forall sched st, lrun st (map (fun j => (j, false)) sched) = run_sched keqb jm mx kfirst setidx dl tt st sched.
Proof.
  unfold lrun, run_sched.
  induction sched as [|j sched IH]; intros st; cbn [map fold_left]; [reflexivity|].
  rewrite lstep_no_miss. apply IH.
Qed.
End Lookup.

(* with both lookups reliable the flags are irrelevant *)
Lemma lrun_flags_off : forall (K V : Type) keqb jm mx kfirst setidx dl tt (st : @pstate K V) evs,
  lrun keqb jm mx kfirst setidx dl tt false false st evs = run_sched keqb jm mx kfirst setidx dl tt st (map fst evs).
Proof.
  intros K V keqb jm mx kfirst setidx dl tt st evs. revert st. unfold lrun, run_sched.
  induction evs as [|[j m] evs IH]; intros st; cbn [fold_left map fst]; [reflexivity|].
  replace (lstep keqb jm mx kfirst setidx dl tt false false st (j, m)) with (step keqb jm mx kfirst setidx dl tt st j).
  - apply IH.
  - unfold lstep, step. destruct (nth_error (lws st) j) as [w|]; [|reflexivity].
    destruct (wpc w); rewrite ?andb_false_r; reflexivity.
Qed.

(* ---------- only the first lookup unreliable: every guarantee survives ---------- *)
Section FirstMiss.
Context {K V : Type}.
Variable keqb : K -> K -> bool.
Hypothesis keqb_spec : forall a b, keqb a b = true <-> a = b.
Variable le : V -> V -> Prop.
Variable jm : V -> V -> V * bool.
Hypothesis Hlaws : lat_laws le jm.
Variable mx : K -> nat.
Variable kfirst : bool.
Variable setidx : bool.
Variables dl tt : K -> option nat.
Variable u1 : bool.

Notation pstate := (@pstate K V).
Notation lstepf := (lstep keqb jm mx kfirst setidx dl tt u1 false).
Notation stepf := (step keqb jm mx kfirst setidx dl tt).

Lemma lstep_cases : forall (st : pstate) j miss,
  lstepf st (j, miss) = stepf st j \/
  exists w k v rest, nth_error (lws st) j = Some w /\ wpc w = PIdle /\ todo w = (k, v) :: rest /\
                     lstepf st (j, miss) = goto st j rest (PLook k v None).
Proof.
  intros st j miss. unfold lstep, step. destruct (nth_error (lws st) j) as [w|] eqn:Hw; [|left; reflexivity].
  destruct (wpc w) eqn:Hp; try (left; reflexivity).
  - destruct (miss && u1); [|left; reflexivity].
    destruct (todo w) as [|[k v] rest] eqn:Ht; [left; reflexivity|].
    right. exists w, k, v, rest. repeat split; auto.
  - rewrite andb_false_r. left. reflexivity.
Qed.

Lemma lstep_inv1 : forall (st : pstate) ev, inv1 keqb mx kfirst dl tt st -> inv1 keqb mx kfirst dl tt (lstepf st ev).
Proof.
  intros st [j miss] I. destruct (lstep_cases st j miss) as [-> | [w [k [v [rest [Hw [Hp [Ht ->]]]]]]]].
  - apply step_inv1; assumption.
  - unfold goto. eapply mk_inv1; [exact I | exact Hw | ..].
    + intros; assumption.
    + exact (i_uniq _ _ _ _ _ _ I).
    + intros; left; assumption.
    + exact (i_ks _ _ _ _ _ _ I).
    + intros; assumption.
    + rewrite Hp. intros k0 i0 H. contradiction.
    + cbn. intros i Hi. discriminate.
    + left. rewrite Hp. split; reflexivity.
Qed.

Section Values.
Variable R0 : list (K * V).
Variable work : list (list (K * V)).
Hypothesis dom_rows0 : forall i k c, nth_error R0 i = Some (k, c) -> le c c.
Hypothesis dom_work : forall k v, In (k, v) (concat work) -> le v v.

Lemma lstep_inv2 : forall (st : pstate) ev, inv1 keqb mx kfirst dl tt st -> inv2 le jm R0 work st -> inv2 le jm R0 work (lstepf st ev).
Proof.
  intros st [j miss] I1 I. destruct (lstep_cases st j miss) as [-> | [w [k [v [rest [Hw [Hp [Ht ->]]]]]]]].
  - eapply step_inv2; eauto.
  - unfold goto. pose proof (inv2_dom le jm Hlaws R0 work dom_rows0 dom_work st I) as D.
    eapply mk_inv2; [exact Hlaws | exact I | exact Hw | apply rle_refl; exact D | | apply (v_gen _ _ _ _ _ I) | ];
      unfold wpend; rewrite Hp, Ht; cbn; auto.
Qed.
End Values.
End FirstMiss.

Section FirstMissTheorems.
Context {K V : Type}.
Variable keqb : K -> K -> bool.
Hypothesis keqb_spec : forall a b, keqb a b = true <-> a = b.
Variable le : V -> V -> Prop.
Variable jm : V -> V -> V * bool.
Hypothesis Hlaws : lat_laws le jm.
Variable mx : K -> nat.
Variable kfirst : bool.
Variable setidx : bool.
Variables dl tt : K -> option nat.
Variable u1 : bool.
Variable R0 : list (K * V).
Variable nk0 : list (K * nat).
Variable ot0 : list nat.
Variable ch0 : bool.
Variable work : list (list (K * V)).
Hypothesis OK : init_ok keqb le dl tt R0 nk0 ot0 ch0 work.

Notation lrunf evs := (lrun keqb jm mx kfirst setidx dl tt u1 false (par_init R0 nk0 ot0 ch0 work) evs).

Lemma lreach : forall evs, inv1 keqb mx kfirst dl tt (lrunf evs) /\ inv2 le jm R0 work (lrunf evs).
Proof.
  intros evs.
  pose proof (reach_inv keqb keqb_spec le jm Hlaws mx kfirst setidx dl tt R0 nk0 ot0 ch0 work OK []) as A.
  cbn [run_sched fold_left] in A. destruct A as [I1 [I2 _]].
  unfold lrun. generalize dependent (par_init R0 nk0 ot0 ch0 work). 
  induction evs as [|ev evs IH]; intros st I1 I2; cbn [fold_left]; [split; assumption|].
  apply IH.
  - apply lstep_inv1; assumption.
  - eapply lstep_inv2; eauto; [apply (io_dom_rows _ _ _ _ _ _ _ _ _ OK) | apply (io_dom_work _ _ _ _ _ _ _ _ _ OK)].
Qed.

Theorem lookup_first_miss_one_row_per_key : forall evs, NoDup (map fst (lrows (lrunf evs))).
Proof. intros evs. apply uniq_NoDup. exact (i_uniq _ _ _ _ _ _ (proj1 (lreach evs))). Qed.

Theorem lookup_first_miss_values_lub : forall evs, finished (lrunf evs) = true -> lubrows le R0 work (lrows (lrunf evs)).
Proof.
  intros evs F. destruct (lreach evs) as [I1 I2].
  eapply finished_lubrows; eauto.
Qed.
End FirstMissTheorems.

(* ---------- the re-check unreliable: refuted ---------- *)
Local Open Scope Z_scope.
(* sets of small numbers as bit masks: join = bitwise or (a partial order: 1, 2, 4 are pairwise incomparable) *)
Definition orjm (a b : Z) : Z * bool := (Z.lor a b, negb (Z.eqb (Z.lor a b) a)).
Definition lzrun (u1 u5 kfirst : bool) R0 work evs :=
  lrun Z.eqb orjm zmx kfirst true zdl znone u1 u5 (par_init R0 [] [] false work) evs.

(* worker 0 derives (5,1) and later (5,4), worker 1 derives (5,2).
   events 1-9    worker 0, no miss: looks key 5 up (absent), takes the mutex, re-checks (absent), pushes row 1 = (5,1), indexes
                 it (key index 5 -> 1), sets the flag, releases the mutex;
   events 10-13  worker 1: its first lookup is flagged (the row IS indexed: a spurious miss), it takes the mutex, and its
                 re-check is flagged too: it goes on to push;
   events 14-18  worker 1 pushes row 2 = (5,2) and indexes it: the key index now answers 5 -> 2, row 1 is orphaned;
   events 19-26  worker 0 looks key 5 up for (5,4), finds row 2 and joins: row 2 = (5,6). *)
Definition miss_events : list (nat * bool) :=
  repeat (0%nat, false) 9 ++ [(1%nat, true); (1%nat, false); (1%nat, false); (1%nat, true)] ++ repeat (1%nat, false) 5 ++ repeat (0%nat, false) 8.

Theorem lookup_recheck_miss_refuted : forall kfirst,
  let s := lzrun true true kfirst [(7, 0)] [[(5, 1); (5, 4)]; [(5, 2)]] miss_events in
  finished s = true /\ lrows s = [(7, 0); (5, 1); (5, 6)] /\ ~ NoDup (map fst (lrows s)) /\
  klook Z.eqb 5 (lnkey s) = Some 2%nat /\ lother s = [2%nat; 1%nat] /\ lheld s = [].
Proof.
  intros [|]; cbv zeta; (split; [vm_compute; reflexivity|]); (split; [vm_compute; reflexivity|]); (split; [|vm_compute; repeat split]).
  all: vm_compute; intros H; inversion H as [|a l H1 H2]; subst; inversion H2 as [|b l' H3 H4]; subst; apply H3; left; reflexivity.
Qed.

(* the same events with a reliable re-check (only the first lookup misses): one row holding 7 *)
Example ex_first_miss_only : forall kfirst,
  let s := lzrun true false kfirst [(7, 0)] [[(5, 1); (5, 4)]; [(5, 2)]] (miss_events ++ repeat (0%nat, false) 4 ++ repeat (1%nat, false) 4) in
  finished s = true /\ lrows s = [(7, 0); (5, 7)] /\ lheld s = [].
Proof. intros [|]; vm_compute; repeat split. Qed.

(* and with the lookup of the code as it is (no flag honoured): the machine of Engine/ParLat.v, one row holding 7 *)
Example ex_reliable_same_events : forall kfirst,
  let s := lzrun false false kfirst [(7, 0)] [[(5, 1); (5, 4)]; [(5, 2)]] (miss_events ++ repeat (0%nat, false) 4 ++ repeat (1%nat, false) 4) in
  finished s = true /\ lrows s = [(7, 0); (5, 7)] /\ lheld s = [].
Proof. intros [|]; vm_compute; repeat split. Qed.

Print Assumptions lrun_reliable.
Print Assumptions lrun_flags_off.
Print Assumptions lookup_first_miss_one_row_per_key.
Print Assumptions lookup_first_miss_values_lub.
Print Assumptions lookup_recheck_miss_refuted.
Print Assumptions ex_first_miss_only.
Print Assumptions ex_reliable_same_events.
