(* The vocabulary of the parameterised-aggregator tie (gen/c04_param.py has the same functions as Rust text and as python
   definitions): interpreted symbols of the generated programs, a pinterp per program (the literal lists of its `for`
   generators are part of it).  Theorems never mention it, except AggParamExample.pv_perm: the vocabulary meets the
   hypothesis of agg_param_stratified_model.  No proofs here. *)
From Coq Require Import List ZArith Bool Arith.
From AV Require Import Engine.Core.
From AV Require Import Engine.Vocab.
From AV Require Import Engine.AggParamModel.
Import ListNotations.
Open Scope Z_scope.

(* expressions x + c: symbol 500 + c (c in -500 ..) *)
Definition pv_fint (f : nat) (l : list Z) : Z := arg 0 l + (Z.of_nat f - 500).
(* let x = y + c: symbol 500 + c;  let x = <constant c>: symbol 2500 + c *)
Definition pv_bint (f : nat) (l : list Z) : option Z :=
  if Nat.leb 2000 f then Some (Z.of_nat f - 2500) else Some (arg 0 l + (Z.of_nat f - 500)).
(* for x in [literals]: symbol = position in the program's table *)
Definition pv_gint (lits : list (list Z)) (g : nat) (l : list Z) : list Z := nth g lits [].

Definition zsum (l : list Z) : Z := fold_right Z.add 0 l.
Definition col1 (r : list Z) : Z := nth 1 r 0.
(* 0 pct(p)  1 nth(n)  2 cnt_above(t)  3 at_least(t)  4 top(n)  5 between(lo, hi)  6 scaled_cnt(m)  7 sum_where(z0) *)
Definition pv_paint (a : nat) (pv : list Z) (rows : list (list Z)) : list Z :=
  let xs := isort (col0 rows) in
  let len := Z.of_nat (length xs) in
  match a with
  | 0%nat => match xs with
             | [] => []
             | _ => let k := if arg 0 pv <? 0 then 0 else (len * arg 0 pv) / 100 in [nth (Z.to_nat (Z.min k (len - 1))) xs 0]
             end
  | 1%nat => let n := arg 0 pv in if (0 <=? n) && (n <? len) then [nth (Z.to_nat n) xs 0] else []
  | 2%nat => [Z.of_nat (length (filter (fun x => arg 0 pv <? x) xs))]
  | 3%nat => filter (fun x => arg 0 pv <=? x) xs
  | 4%nat => firstn (Z.to_nat (Z.max (arg 0 pv) 0)) (rev xs)
  | 5%nat => filter (fun x => (arg 0 pv <=? x) && (x <=? arg 1 pv)) xs
  | 6%nat => [arg 0 pv * Z.of_nat (length rows)]
  | 7%nat => [zsum (isort (map (fun r => if col1 r =? arg 0 pv then nth 0 r 0 else 0) rows))]
  | _ => []
  end.

Definition pv_interp (lits : list (list Z)) : pinterp :=
  {| pbase := {| fint := pv_fint; pint := std_pint; bint := pv_bint; gint := pv_gint lits; aint := std_aint |};
     paint := pv_paint |}.
