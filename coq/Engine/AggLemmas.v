(* NaiveLemmas.v generalised to bodies WITH aggregates: the versioned naive
   semantics is monotone in the relations read by clauses when the relations read
   by aggregates keep the same members (aggregators are invariant under
   permutation of their duplicate-free input). *)
From Coq Require Import List ZArith Bool Arith Lia Permutation.
From AV Require Import Engine.Core Engine.Sem Engine.Eval Engine.Validate Engine.Naive Engine.Interface Engine.Strat.
From AV Require Import Engine.InterfaceAgg Engine.NaiveLemmas.
Import ListNotations.
Local Open Scope nat_scope.

(* ---------- dedup_tuples ---------- *)
Lemma mem_tuple_In : forall t l, mem_tuple t l = true <-> In t l.
Proof.
  intros t l. unfold mem_tuple. rewrite existsb_exists. split.
  - intros [u [Hu He]]. apply zlist_eqb_eq in He. subst. exact Hu.
  - intros H. exists t. split; [exact H | apply zlist_eqb_eq; reflexivity].
Qed.

Lemma dedup_tuples_In : forall t l, In t (dedup_tuples l) <-> In t l.
Proof.
  intros t. induction l as [|u l IH]; cbn [dedup_tuples]; [reflexivity|].
  destruct (mem_tuple u l) eqn:He.
  - rewrite IH. cbn [In]. split; [intro H; right; exact H|]. intros [<- | H]; [apply mem_tuple_In; exact He | exact H].
  - cbn [In]. rewrite IH. reflexivity.
Qed.

Lemma dedup_tuples_NoDup : forall l, NoDup (dedup_tuples l).
Proof.
  induction l as [|u l IH]; cbn [dedup_tuples]; [constructor|].
  destruct (mem_tuple u l) eqn:He; [exact IH|]. constructor; [|exact IH].
  intro H. apply (proj1 (dedup_tuples_In u l)) in H. apply (proj2 (mem_tuple_In u l)) in H. congruence.
Qed.

Lemma dedup_filter_perm : forall (p : tuple -> bool) l1 l2,
  (forall t, In t l1 <-> In t l2) -> Permutation (dedup_tuples (filter p l1)) (dedup_tuples (filter p l2)).
Proof.
  intros p l1 l2 H. apply NoDup_Permutation; [apply dedup_tuples_NoDup | apply dedup_tuples_NoDup|].
  intros t. rewrite !dedup_tuples_In, !filter_In, H. reflexivity.
Qed.

Lemma db_of_NoDup : forall F r, NoDup F -> NoDup (db_of F r).
Proof.
  intros F r. induction F as [|[q t] F IH]; intros H; [constructor|].
  inversion H as [|x l Hn Hnd]; subst. unfold db_of. cbn [filter fst].
  destruct (Nat.eqb q r) eqn:He.
  - cbn [map snd]. apply Nat.eqb_eq in He. subst q. constructor; [|apply IH; exact Hnd].
    intro Hin. apply Hn. apply in_db_of. exact Hin.
  - apply IH. exact Hnd.
Qed.

(* ---------- aggregated relations ---------- *)
Definition agg_rels (items : list bitem) : list rel :=
  flat_map (fun b => match b with BAgg _ _ _ q _ => [q] | _ => [] end) items.

Lemma body_agg_rels_eq : forall r, body_agg_rels r = agg_rels (body r).
Proof. reflexivity. Qed.
Lemma rule_agg_rels_eq : forall r, rule_agg_rels r = agg_rels (body r).
Proof. reflexivity. Qed.

Lemma agg_rels_cons_incl : forall b rest r, In r (agg_rels rest) -> In r (agg_rels (b :: rest)).
Proof. intros b rest r H. unfold agg_rels. cbn [flat_map]. apply in_or_app. right. exact H. Qed.

Lemma variant_agg_rels_eq : forall v, variant_agg_rels v = agg_rels (map item_of (v_items v)).
Proof.
  intros v. unfold variant_agg_rels, agg_rels. induction (v_items v) as [|p items IH]; [reflexivity|].
  cbn [flat_map map]. rewrite IH. destruct p; reflexivity.
Qed.

(* ---------- monotonicity ---------- *)
Section Mono.
Variable I : interp.
Hypothesis Hperm : agg_perm_invariant I.
Variables c1 c2 : rel -> version -> list tuple.
Variable dyn : list rel.

Lemma all_envs_a_mono_agg : forall items a1 a2 e,
  (forall r, In r (agg_rels items) -> forall t, In t (c1 r VTotal) <-> In t (c2 r VTotal)) ->
  (forall r, In r (clause_rels items) -> is_dyn dyn r = false -> incl (c1 r VTotal) (c2 r VTotal)) ->
  (forall k r, In r (clause_rels items) -> is_dyn dyn r = true -> incl (c1 r (nth k a1 VTotal)) (c2 r (nth k a2 VTotal))) ->
  incl (all_envs_a I c1 dyn a1 items e) (all_envs_a I c2 dyn a2 items e).
Proof.
  induction items as [|b rest IH]; intros a1 a2 e Hag Hst Hdy.
  - cbn [all_envs_a]. apply incl_refl.
  - assert (Hag' : forall r, In r (agg_rels rest) -> forall t, In t (c1 r VTotal) <-> In t (c2 r VTotal)).
    { intros r Hr. apply Hag. apply agg_rels_cons_incl. exact Hr. }
    assert (Hst' : forall r, In r (clause_rels rest) -> is_dyn dyn r = false -> incl (c1 r VTotal) (c2 r VTotal)).
    { intros r Hr. apply Hst. apply clause_rels_cons_incl. exact Hr. }
    destruct b as [r args cs|c|x g xs|o ag bd r args].
    + assert (Hr : In r (clause_rels (BClause r args cs :: rest))) by (left; reflexivity).
      cbn [all_envs_a]. intros e' Hin. apply in_flat_map in Hin as [tup [Htup Hin]]. apply in_flat_map.
      exists tup. destruct (is_dyn dyn r) eqn:Hd.
      * split.
        -- rewrite hd_nth. apply (Hdy 0 r Hr Hd). rewrite <- hd_nth. exact Htup.
        -- destruct (match_args I e args tup) as [e1|]; [|exact Hin].
           destruct (sat_conds I e1 cs) as [e2|]; [|exact Hin].
           revert Hin. apply IH; [exact Hag' | exact Hst' |].
           intros k q Hq Hqd. rewrite !nth_tl. apply Hdy; [apply clause_rels_cons_incl; exact Hq | exact Hqd].
      * split.
        -- apply (Hst r Hr Hd). exact Htup.
        -- destruct (match_args I e args tup) as [e1|]; [|exact Hin].
           destruct (sat_conds I e1 cs) as [e2|]; [|exact Hin].
           revert Hin. apply IH; [exact Hag' | exact Hst' |].
           intros k q Hq Hqd. apply Hdy; [apply clause_rels_cons_incl; exact Hq | exact Hqd].
    + cbn [all_envs_a]. destruct (sat_cond I e c) as [e'|]; [|apply incl_refl].
      apply IH; [exact Hag' | exact Hst' |]. intros k q Hq. apply Hdy. apply clause_rels_cons_incl. exact Hq.
    + cbn [all_envs_a]. destruct (eval_vars e xs) as [vs|]; [|apply incl_refl].
      intros e' Hin. apply in_flat_map in Hin as [v [Hv Hin]]. apply in_flat_map. exists v. split; [exact Hv|].
      revert Hin. apply IH; [exact Hag' | exact Hst' |]. intros k q Hq. apply Hdy. apply clause_rels_cons_incl. exact Hq.
    + assert (Hr : In r (agg_rels (BAgg o ag bd r args :: rest))) by (left; reflexivity).
      cbn [all_envs_a].
      rewrite (Hperm ag _ _ (Permutation_map (agg_input bd args)
                 (dedup_filter_perm (agg_match I e args) _ _ (Hag r Hr)))).
      intros e' Hin. apply in_flat_map in Hin as [v [Hv Hin]]. apply in_flat_map. exists v. split; [exact Hv|].
      revert Hin. apply IH; [exact Hag' | exact Hst' |]. intros k q Hq. apply Hdy. apply clause_rels_cons_incl. exact Hq.
Qed.
End Mono.

Lemma all_envs_mono_agg : forall I db1 db2 items e,
  agg_perm_invariant I ->
  (forall r, In r (agg_rels items) -> forall t, In t (db1 r) <-> In t (db2 r)) ->
  (forall r, In r (clause_rels items) -> incl (db1 r) (db2 r)) ->
  incl (all_envs I db1 items e) (all_envs I db2 items e).
Proof.
  intros I db1 db2 items e Hperm Hag H.
  rewrite (all_envs_as_a I db1 [] items [] e), (all_envs_as_a I db2 [] items [] e).
  apply all_envs_a_mono_agg; [exact Hperm | exact Hag | intros r Hr _; apply H; exact Hr | intros k r Hr _; apply H; exact Hr].
Qed.

Lemma all_envs_a_into_sem_agg : forall I cont dyn db items a e,
  agg_perm_invariant I ->
  (forall r, In r (agg_rels items) -> forall t, In t (cont r VTotal) <-> In t (db r)) ->
  (forall r v, In r (clause_rels items) -> incl (cont r v) (db r)) ->
  incl (all_envs_a I cont dyn a items e) (all_envs I db items e).
Proof.
  intros I cont dyn db items a e Hperm Hag H. rewrite (all_envs_as_a I db dyn items a e).
  apply all_envs_a_mono_agg; [exact Hperm | exact Hag | intros r Hr _; apply H; exact Hr | intros k r Hr _; apply H; exact Hr].
Qed.

Lemma derive_rule_mono_agg : forall I db1 db2 r f,
  agg_perm_invariant I ->
  (forall q, In q (body_agg_rels r) -> forall t, In t (db1 q) <-> In t (db2 q)) ->
  (forall q, In q (body_clause_rels r) -> incl (db1 q) (db2 q)) ->
  In f (derive_rule I db1 r) -> In f (derive_rule I db2 r).
Proof.
  intros I db1 db2 r f Hperm Hag H Hf. unfold derive_rule in *. apply in_heads_of_envs in Hf as [e [h [He [Hh Hev]]]].
  apply in_heads_of_envs. exists e, h. split; [|split; assumption].
  revert He. apply all_envs_mono_agg; [exact Hperm | exact Hag | exact H].
Qed.

Section Extract.
Variable I : interp.
Hypothesis Hperm : agg_perm_invariant I.
Variables S T D : list fact.
Variable dyn : list rel.

(* assignment extraction; aggregated relations are static *)
Lemma extract_assignment_agg : forall items e e',
  (forall q, In q (agg_rels items) -> is_dyn dyn q = false) ->
  In e' (all_envs I (sdb S (T ++ D) dyn) items e) ->
  exists a, length a = ndyn_items dyn items /\
            In e' (all_envs_a I (contents S T D dyn) dyn (vers a) items e).
Proof.
  induction items as [|b rest IH]; intros e e' Hag Hin.
  - exists []. split; [reflexivity | exact Hin].
  - assert (Hag' : forall q, In q (agg_rels rest) -> is_dyn dyn q = false).
    { intros q Hq. apply Hag. apply agg_rels_cons_incl. exact Hq. }
    destruct b as [r args cs|c|x g xs|o ag bd r args].
    + cbn [all_envs] in Hin. apply in_flat_map in Hin as [tup [Htup Hin]].
      destruct (match_args I e args tup) as [e1|] eqn:Hm; [|destruct Hin].
      destruct (sat_conds I e1 cs) as [e2|] eqn:Hs; [|destruct Hin].
      destruct (IH e2 e' Hag' Hin) as [a' [Hlen Hin']].
      rewrite ndyn_items_clause. unfold sdb in Htup. destruct (is_dyn dyn r) eqn:Hd.
      * rewrite db_of_app in Htup. apply in_app_or in Htup as [Ht | Ht].
        -- exists (false :: a'). split; [cbn [length]; lia|].
           cbn [vers map all_envs_a]. rewrite Hd. cbn [hd tl]. apply in_flat_map. exists tup. split.
           ++ unfold contents. rewrite Hd. exact Ht.
           ++ rewrite Hm, Hs. exact Hin'.
        -- exists (true :: a'). split; [cbn [length]; lia|].
           cbn [vers map all_envs_a]. rewrite Hd. cbn [hd tl]. apply in_flat_map. exists tup. split.
           ++ unfold contents. rewrite Hd. exact Ht.
           ++ rewrite Hm, Hs. exact Hin'.
      * exists a'. split; [lia|]. cbn [all_envs_a]. rewrite Hd. apply in_flat_map. exists tup. split.
        -- unfold contents. rewrite Hd. exact Htup.
        -- rewrite Hm, Hs. exact Hin'.
    + cbn [all_envs] in Hin. destruct (sat_cond I e c) as [e1|] eqn:Hc; [|destruct Hin].
      destruct (IH e1 e' Hag' Hin) as [a' [Hlen Hin']]. exists a'. split; [exact Hlen|].
      cbn [all_envs_a]. rewrite Hc. exact Hin'.
    + cbn [all_envs] in Hin. destruct (eval_vars e xs) as [vs|] eqn:Hv; [|destruct Hin].
      apply in_flat_map in Hin as [v [Hvin Hin]].
      destruct (IH _ e' Hag' Hin) as [a' [Hlen Hin']]. exists a'. split; [exact Hlen|].
      cbn [all_envs_a]. rewrite Hv. apply in_flat_map. exists v. split; assumption.
    + assert (Hd : is_dyn dyn r = false) by (apply Hag; left; reflexivity).
      cbn [all_envs] in Hin. apply in_flat_map in Hin as [v [Hvin Hin]].
      destruct (IH _ e' Hag' Hin) as [a' [Hlen Hin']]. exists a'. split; [exact Hlen|].
      cbn [all_envs_a]. apply in_flat_map. exists v. split; [|exact Hin'].
      unfold sdb in Hvin. rewrite Hd in Hvin. unfold contents. rewrite Hd. exact Hvin.
Qed.

Lemma no_delta_reads_total_agg : forall items a e,
  (forall q, In q (agg_rels items) -> is_dyn dyn q = false) -> has_delta a = false ->
  incl (all_envs_a I (contents S T D dyn) dyn (vers a) items e) (all_envs I (sdb S T dyn) items e).
Proof.
  intros items a e Hag Ha. rewrite (all_envs_as_a I (sdb S T dyn) dyn items (vers a) e).
  apply all_envs_a_mono_agg; [exact Hperm | | |].
  - intros r Hr t. unfold contents, sdb. rewrite (Hag r Hr). reflexivity.
  - intros r _ Hd. unfold contents, sdb. rewrite Hd. apply incl_refl.
  - intros k r _ Hd. rewrite (vers_no_delta a k Ha). unfold contents, sdb. rewrite Hd. apply incl_refl.
Qed.

Lemma admits_incl_agg : forall w a items e,
  admits w a = true ->
  incl (all_envs_a I (contents S T D dyn) dyn (vers a) items e) (all_envs_a I (contents S T D dyn) dyn w items e).
Proof.
  intros w a items e Hw. apply all_envs_a_mono_agg; [exact Hperm | intros; reflexivity | intros; apply incl_refl |].
  intros k r _ _. apply admits_nth. exact Hw.
Qed.
End Extract.
