(* Parameterised aggregators (C04): an agg clause whose AGGREGATOR EXPRESSION mentions variables of the rule bound by
   earlier body items, e.g.  agg v = (percentile(p as f64))(x) in r(k, x)  with p bound by a clause before it.
   Engine/Core.v BAgg takes the aggregator as a fixed symbol; here:

   * the source language with the extra item PBAggP out a ps bound r args (parameters ps = rule variables), its
     specification semantics p_all_envs / p_derive_rule (the aggregator OF THE BINDING applied to the distinct matching
     rows), and the stratified model over it;
   * the translation into the core language that mirrors what the generated code does in two steps
       let __agg_args = <matching rows, mapped to the aggregated columns>;      BAgg (Some w) COLLECT bound r args
       for out in (aggregator(params))(__agg_args) { .. }                       BGen out (apply a) (ps ++ [w])
     (w fresh; the collected rows travel through the environment as ONE value, coded into Z by enc_rows: values are Z in
     this development, the code is a modelling device);
   * a model of the seeded "memo table keyed by the index key only" for the refutation.
   No proofs here (Engine/AggParam.v). *)
From Coq Require Import List ZArith Bool Arith.
From AV Require Import Engine.Core.
From AV Require Import Engine.Sem.
From AV Require Import Engine.Strat.
From AV Require Import Engine.StratFixed.
Import ListNotations.
Open Scope Z_scope.

(* ------------------------------------------------------------------ source language *)
Inductive pbitem :=
| PB (b : bitem)
| PBAggP (out : var) (a : nat) (ps : list var) (bound : list var) (r : rel) (args : list aarg).
Record prule := { pheads : list (rel * list term); pbody : list pbitem }.

(* interpretation: the core one + parameterised aggregators: parameter values -> aggregated-column tuples -> results *)
Record pinterp := { pbase : interp; paint : nat -> list Z -> list (list Z) -> list Z }.

Section PSem.
Variable PI : pinterp.
Let I := pbase PI.

Fixpoint p_all_envs (db : rel -> list tuple) (items : list pbitem) (e : env) : list env :=
  match items with
  | [] => [e]
  | PB (BClause r args cs) :: rest =>
      flat_map (fun tup => match match_args I e args tup with
                           | Some e1 => match sat_conds I e1 cs with Some e2 => p_all_envs db rest e2 | None => [] end
                           | None => [] end) (db r)
  | PB (BCond c) :: rest => match sat_cond I e c with Some e' => p_all_envs db rest e' | None => [] end
  | PB (BGen x g xs) :: rest =>
      match eval_vars e xs with
      | Some vs => flat_map (fun v => p_all_envs db rest (bind x v e)) (gint I g vs)
      | None => [] end
  | PB (BAgg out a bound r args) :: rest =>
      let matching := dedup_tuples (filter (agg_match I e args) (db r)) in
      flat_map (fun v => p_all_envs db rest (bind_out out v e)) (aint I a (map (agg_input bound args) matching))
  | PBAggP out a ps bound r args :: rest =>
      match eval_vars e ps with
      | Some pv =>
          let matching := dedup_tuples (filter (agg_match I e args) (db r)) in
          flat_map (fun v => p_all_envs db rest (bind out v e)) (paint PI a pv (map (agg_input bound args) matching))
      | None => [] end
  end.

Definition p_derive_rule (db : rel -> list tuple) (r : prule) : list fact :=
  flat_map (fun e => filter_map (eval_head I e) (pheads r)) (p_all_envs db (pbody r) []).

Definition p_derives (P : list prule) (F : list fact) (f : fact) : Prop :=
  exists r, In r P /\ In f (p_derive_rule (db_of F) r).
Definition p_closed (P : list prule) (F : list fact) : Prop := forall f, p_derives P F f -> In f F.
End PSem.

Definition p_item_agg_rels (it : pbitem) : list rel :=
  match it with PB (BAgg _ _ _ q _) => [q] | PBAggP _ _ _ _ q _ => [q] | _ => [] end.
Definition p_item_clause_rels (it : pbitem) : list rel := match it with PB (BClause q _ _) => [q] | _ => [] end.
Definition p_rule_heads (r : prule) : list rel := map fst (pheads r).
Definition p_rule_agg_rels (r : prule) : list rel := flat_map p_item_agg_rels (pbody r).
Definition p_rule_clause_rels (r : prule) : list rel := flat_map p_item_clause_rels (pbody r).
Definition p_stratum_agg_rels (s : list prule) : list rel := flat_map p_rule_agg_rels s.

Fixpoint p_stratified (strata : list (list prule)) : bool :=
  match strata with
  | [] => true
  | s :: rest =>
      let later_heads := flat_map p_rule_heads (concat rest) in
      let here_heads := flat_map p_rule_heads s in
      forallb (fun r => forallb (fun q => negb (memr q later_heads) && negb (memr q here_heads)) (p_rule_agg_rels r)
                        && forallb (fun q => negb (memr q later_heads)) (p_rule_clause_rels r)) s
      && p_stratified rest
  end.

(* the stratified model (as StratFixed.v): stratum after stratum the least set closed under the stratum's rules that
   extends the completed lower strata and leaves the aggregated relations untouched *)
Definition p_least_model_fixed (PI : pinterp) (s : list prule) (F M : list fact) : Prop :=
  incl F M /\ agree_on (p_stratum_agg_rels s) F M /\ p_closed PI s M
  /\ forall M', incl F M' -> agree_on (p_stratum_agg_rels s) F M' -> p_closed PI s M' -> incl M M'.

Fixpoint p_strat_model_fixed (PI : pinterp) (strata : list (list prule)) (F0 M : list fact) : Prop :=
  match strata with
  | [] => incl F0 M /\ incl M F0
  | s :: rest => exists M1, p_least_model_fixed PI s F0 M1 /\ p_strat_model_fixed PI rest M1 M
  end.

(* executable oracle (for the tie and the examples) *)
Definition p_naive_step (PI : pinterp) (P : list prule) (F : list fact) : list fact :=
  add_new (flat_map (p_derive_rule PI (db_of F)) P) F.
Fixpoint p_naive_fix (PI : pinterp) (fuel : nat) (P : list prule) (F : list fact) : option (list fact) :=
  match fuel with
  | O => None
  | S n => let F' := p_naive_step PI P F in if Nat.eqb (length F') (length F) then Some F else p_naive_fix PI n P F'
  end.
Fixpoint p_strat_fix (PI : pinterp) (fuel : nat) (strata : list (list prule)) (F : list fact) : option (list fact) :=
  match strata with
  | [] => Some F
  | s :: rest => match p_naive_fix PI fuel s F with Some F' => p_strat_fix PI fuel rest F' | None => None end
  end.

(* ------------------------------------------------------------------ a code of list (list Z) in Z *)
Definition z2nat (z : Z) : nat := N.to_nat (2 * Z.abs_N z + (if Z.ltb z 0 then 1 else 0))%N.
Definition nat2z (n : nat) : Z := if Nat.odd n then - Z.of_nat (Nat.div2 n) else Z.of_nat (Nat.div2 n).

(* list nat <-> positive: xO = one more for the current element, xI = the element ends, xH = the list ends *)
Definition rep (a : nat) (p : positive) : positive := Nat.iter a xO (xI p).
Fixpoint enc_nats (l : list nat) : positive := match l with [] => xH | a :: l' => rep a (enc_nats l') end.
Fixpoint dec_nats (p : positive) : list nat :=
  match p with
  | xH => []
  | xI p' => O :: dec_nats p'
  | xO p' => match dec_nats p' with a :: l => S a :: l | [] => [] end
  end.
Definition encL (l : list Z) : Z := Zpos (enc_nats (map z2nat l)).
Definition decL (z : Z) : list Z := match z with Zpos p => map nat2z (dec_nats p) | _ => [] end.

Fixpoint ins (x : Z) (l : list Z) : list Z :=
  match l with [] => [x] | y :: l' => if Z.leb x y then x :: l else y :: ins x l' end.
Fixpoint isort (l : list Z) : list Z := match l with [] => [] | x :: l' => ins x (isort l') end.

(* the rows, each coded, sorted (so that the code depends on the multiset only), coded again *)
Definition enc_rows (rows : list (list Z)) : Z := encL (isort (map encL rows)).
Definition dec_rows (w : Z) : list (list Z) := map decL (decL w).

(* ------------------------------------------------------------------ translation into the core language *)
Definition collect_sym : nat := 1%nat.
Definition tr_b (b : bitem) : bitem :=
  match b with
  | BGen x g xs => BGen x (2 * g) xs
  | BAgg out a bound r args => BAgg out (2 * a) bound r args
  | _ => b
  end.
Fixpoint tr_items (w : var) (items : list pbitem) : list bitem :=
  match items with
  | [] => []
  | PB b :: rest => tr_b b :: tr_items w rest
  | PBAggP out a ps bound r args :: rest =>
      BAgg (Some w) collect_sym bound r args :: BGen out (S (2 * a)) (ps ++ [w]) :: tr_items (S w) rest
  end.
Definition tr_rule (w : var) (r : prule) : rule := {| heads := pheads r; body := tr_items w (pbody r) |}.

(* even symbols: the core aggregators / generators; odd aggregator: COLLECT; odd generator 2a+1: apply the
   parameterised aggregator a to (parameters, collected rows) *)
Definition tr_interp (PI : pinterp) : interp :=
  {| fint := fint (pbase PI); pint := pint (pbase PI); bint := bint (pbase PI);
     gint := fun g vs => if Nat.even g then gint (pbase PI) (Nat.div2 g) vs
                         else paint PI (Nat.div2 g) (removelast vs) (dec_rows (last vs 0));
     aint := fun a rows => if Nat.even a then aint (pbase PI) (Nat.div2 a) rows else [enc_rows rows] |}.

(* every variable the source rule READS is below w (so the temporaries w, w+1, .. are fresh) *)
Definition tvars_below (w : var) (t : term) : Prop :=
  match t with TVar x => (x < w)%nat | TConst _ => True | TFun _ xs => forall x, In x xs -> (x < w)%nat end.
Definition cond_below (w : var) (c : cond) : Prop :=
  match c with CIf _ xs => forall x, In x xs -> (x < w)%nat | CBind _ _ xs => forall x, In x xs -> (x < w)%nat end.
Definition aarg_below (w : var) (a : aarg) : Prop := match a with AKey t => tvars_below w t | _ => True end.
Definition bitem_below (w : var) (b : bitem) : Prop :=
  match b with
  | BClause _ args cs => Forall (tvars_below w) args /\ Forall (cond_below w) cs
  | BCond c => cond_below w c
  | BGen _ _ xs => forall x, In x xs -> (x < w)%nat
  | BAgg _ _ _ _ args => Forall (aarg_below w) args
  end.
Definition pbitem_below (w : var) (it : pbitem) : Prop :=
  match it with
  | PB b => bitem_below w b
  | PBAggP _ _ ps _ _ args => (forall x, In x ps -> (x < w)%nat) /\ Forall (aarg_below w) args
  end.
Definition prule_below (w : var) (r : prule) : Prop :=
  Forall (pbitem_below w) (pbody r) /\ Forall (fun h => Forall (tvars_below w) (snd h)) (pheads r).

(* ------------------------------------------------------------------ the seeded memo table, keyed by the index key only *)
(* one table per (rule evaluation, agg item): key values -> the values the aggregator produced for the FIRST binding with
   that key; the state is threaded through the bindings in evaluation order *)
Definition memo := list (nat * list Z * list Z).
Fixpoint memo_get (m : memo) (i : nat) (key : list Z) : option (list Z) :=
  match m with
  | [] => None
  | (j, k, vs) :: m' => if Nat.eqb i j && zlist_eqb key k then Some vs else memo_get m' i key
  end.
Fixpoint akey_vals (I : interp) (e : env) (args : list aarg) : list Z :=
  match args with
  | [] => []
  | AKey t :: args' => match eval_term I e t with Some v => v :: akey_vals I e args' | None => akey_vals I e args' end
  | _ :: args' => akey_vals I e args'
  end.

Section Memo.
Variable PI : pinterp.
Let I := pbase PI.
(* with_param = false: the key of the table is the index key; true: index key ++ parameter values *)
Variable with_param : bool.

Fixpoint memo_envs (db : rel -> list tuple) (i : nat) (items : list pbitem) (es : list env) (m : memo) : list env * memo :=
  match items with
  | [] => (es, m)
  | PBAggP out a ps bound r args :: rest =>
      let step := fun (acc : list env * memo) (e : env) =>
        let '(out_es, m1) := acc in
        match eval_vars e ps with
        | None => (out_es, m1)
        | Some pv =>
            let key := akey_vals I e args ++ (if with_param then pv else []) in
            match memo_get m1 i key with
            | Some vs => (out_es ++ map (fun v => bind out v e) vs, m1)
            | None =>
                let matching := dedup_tuples (filter (agg_match I e args) (db r)) in
                let vs := paint PI a pv (map (agg_input bound args) matching) in
                (out_es ++ map (fun v => bind out v e) vs, (i, key, vs) :: m1)
            end
        end in
      let '(es', m') := fold_left step es ([], m) in
      memo_envs db (S i) rest es' m'
  | it :: rest => memo_envs db (S i) rest (flat_map (p_all_envs PI db [it]) es) m
  end.

Definition memo_derive_rule (db : rel -> list tuple) (r : prule) : list fact :=
  flat_map (fun e => filter_map (eval_head I e) (pheads r)) (fst (memo_envs db 0 (pbody r) [[]] [])).
End Memo.
